/-
  Lint family, lemmas behind Props/C10.lean.
-/
import SuppModel.Lint.Spec

namespace SuppModel.Lint

/-! ### the decision chain against the sentence (finite case analysis, re-run on every regeneration) -/

theorem rule_unused (s : SpecFacts) (h : s.Valid) :
    Generated.reportFull (s.toFacts false) = (spec s).map fun c => (c, specMsg c) := by
  obtain ⟨sk, bk, u, o, ff, st, d⟩ := s
  cases sk <;> cases bk <;> cases u <;> cases o <;> cases ff <;> cases st <;> cases d <;>
    first
      | rfl
      | (exfalso; revert h; decide)

theorem rule_used (f : Facts) (h : f.used = true) : Generated.reportFull f = none := by
  obtain ⟨a, b, c, d, e, g, i, j, k⟩ := f
  cases h
  cases b <;> cases c <;> cases d <;> cases e <;> cases g <;> cases i <;> cases j <;> cases k <;> rfl

theorem factsOf_eq (st : St) (b : Binding) :
    factsOf st b = (specFactsOf b (st.qualified.contains b.name)).toFacts (st.used.contains b.id) := by
  obtain ⟨id, name, kind, sk, sc, pc, da, loc⟩ := b
  cases kind <;> simp [factsOf, specFactsOf, SpecFacts.toFacts, Kind.bkind, Kind.isImported]

/-! ### the usage loop never marks a never-read binding -/

theorem mem_of_lookup {α : Type} (k : String) (v : α) :
    ∀ l : List (String × α), l.lookup k = some v → (k, v) ∈ l
  | [], h => by simp [List.lookup] at h
  | (k', v') :: l, h => by
    by_cases hk : k = k'
    · subst hk
      simp [List.lookup] at h
      subst h
      exact List.mem_cons_self
    · have : (k == k') = false := by simpa using hk
      simp [List.lookup, this] at h
      exact List.mem_cons_of_mem _ (mem_of_lookup k v l h)

theorem mem_localsMarks {fl : ReadFlow} {i : BindingId} (h : i ∈ localsMarks fl) :
    ∃ kv ∈ fl.table, ∃ s, kv.2 = .single s ∧ s.scope = some fl.scope ∧ s.id = some i := by
  unfold localsMarks at h
  rw [List.mem_flatMap] at h
  obtain ⟨kv, hkv, hi⟩ := h
  refine ⟨kv, hkv, ?_⟩
  cases he : kv.2 with
  | multi n a => simp [he] at hi
  | single s =>
    simp only [he] at hi
    by_cases hs : s.scope = some fl.scope
    · simp only [hs, if_true] at hi
      refine ⟨s, rfl, hs, ?_⟩
      cases hid : s.id with
      | none => simp [hid] at hi
      | some j => simp [hid] at hi; simp [hi]
    · simp [hs] at hi

/-- the invariant of one iteration -/
theorem usageStep_keeps (m : Module) (b : Binding) (hb : b ∈ m.allNames)
    (hk : TableWellKeyed m) (hs : RefsScoped m) (hn : NeverRead m b)
    (st st' : St) (r : Read) (hr : r ∈ m.reads) (hstep : usageStep st r = .ok st')
    (hu : b.id ∉ st.used) (hq : b.name ∉ st.qualified) :
    b.id ∉ st'.used ∧ b.name ∉ st'.qualified := by
  have hne : r.id ≠ b.name := hn.1 r hr
  unfold usageStep at hstep
  cases hfl : r.flow with
  | none =>
    simp only [hfl] at hstep
    cases hstep
    exact ⟨hu, hq⟩
  | some fl =>
    simp only [hfl] at hstep
    cases hlk : fl.table.lookup r.id with
    | none =>
      simp only [hlk] at hstep
      cases hstep
      exact ⟨hu, hq⟩
    | some e =>
      have hmem : (r.id, e) ∈ fl.table := mem_of_lookup r.id e fl.table hlk
      have hwk := hk r hr fl (by simp [hfl]) (r.id, e) hmem
      simp only [hlk] at hstep
      cases e with
      | multi nm alts =>
        simp only at hstep
        cases hstep
        refine ⟨?_, hq⟩
        intro hin
        rcases List.mem_append.mp hin with h | h
        · exact hne (hwk.2 b.id (by simpa [Entry.ids] using h) b hb rfl).symm
        · exact hu h
      | single s =>
        simp only at hstep
        by_cases hl : s.name = "locals" ∧ s.locZero = true
        · simp only [hl, and_self, if_true] at hstep
          cases hstep
          refine ⟨?_, hq⟩
          intro hin
          rcases List.mem_append.mp hin with h | h
          · obtain ⟨kv, hkv, s', hs', hsc, hid⟩ := mem_localsMarks h
            have hsp := hs r hr fl (by simp [hfl]) kv hkv (b.id, s'.scope)
              (by simp [hs', Entry.scoped, hid]) b hb rfl
            have hsame : fl.scope = b.scope := by
              simp only [hsc] at hsp
              exact Option.some.inj hsp
            apply hn.2
            refine ⟨r, hr, ?_⟩
            simp [Read.localsIn, hfl, hlk, hsame, hl.1, hl.2]
          · exact hu h
        · simp only [hl, if_false] at hstep
          cases hstep
          constructor
          · intro hin
            rcases List.mem_append.mp hin with h | h
            · exact hne (hwk.2 b.id (by simpa [Entry.ids] using h) b hb rfl).symm
            · exact hu h
          · intro hin
            have hnm : s.name = r.id := by simpa [Entry.name] using hwk.1
            by_cases hqi : s.qualifiedImport = true
            · simp only [hqi, if_true] at hin
              rcases List.mem_cons.mp hin with h | h
              · exact hne (by rw [← hnm, ← h])
              · exact hq h
            · simp only [hqi] at hin
              exact hq (by simpa using hin)

theorem usageLoop_keeps (m : Module) (b : Binding) (hb : b ∈ m.allNames)
    (hk : TableWellKeyed m) (hs : RefsScoped m) (hn : NeverRead m b) :
    ∀ (rs : List Read), (∀ r ∈ rs, r ∈ m.reads) → ∀ (st st' : St), usageLoop st rs = .ok st' →
      b.id ∉ st.used → b.name ∉ st.qualified → b.id ∉ st'.used ∧ b.name ∉ st'.qualified
  | [], _, st, st', h, hu, hq => by
    simp [usageLoop] at h
    cases h
    exact ⟨hu, hq⟩
  | r :: rs, hsub, st, st', h, hu, hq => by
    unfold usageLoop at h
    cases hstep : usageStep st r with
    | error e => simp [hstep] at h
    | ok st1 =>
      simp only [hstep] at h
      have h1 := usageStep_keeps m b hb hk hs hn st st1 r (hsub r List.mem_cons_self) hstep hu hq
      exact usageLoop_keeps m b hb hk hs hn rs (fun x hx => hsub x (List.mem_cons_of_mem _ hx)) st1 st' h h1.1 h1.2

theorem never_read_unused (m : Module) (b : Binding) (st : St) (hb : b ∈ m.allNames)
    (hk : TableWellKeyed m) (hs : RefsScoped m) (hn : NeverRead m b) (hrun : usage m = .ok st) :
    st.used.contains b.id = false ∧ st.qualified.contains b.name = false := by
  have h := usageLoop_keeps m b hb hk hs hn m.reads (fun _ h => h) St.init st hrun
    (by simp [St.init]) (by simp [St.init])
  simpa using h

/-! ### what is reported for a never-read binding -/

theorem mkDiag_eq (b : Binding) (c : Code) : mkDiag b c (specMsg c) = ownDiag b c := rfl

theorem reportOf_never_read (m : Module) (b : Binding) (st : St) (hb : b ∈ m.allNames)
    (hk : TableWellKeyed m) (hs : RefsScoped m) (hn : NeverRead m b) (hrun : usage m = .ok st)
    (hv : (specFactsOf b false).Valid) :
    reportOf st b = (spec (specFactsOf b false)).map (ownDiag b) := by
  obtain ⟨hu, hq⟩ := never_read_unused m b st hb hk hs hn hrun
  unfold reportOf
  rw [factsOf_eq, hu, hq, rule_unused _ hv]
  cases spec (specFactsOf b false) <;> simp [mkDiag_eq]

/-! ### structure of the answer -/

theorem lintModel_ok {m : Module} {ds : List Diag} (h : lintModel m = .ok ds) :
    ∃ st, usage m = .ok st ∧ ds = st.diags ++ m.allNames.filterMap (reportOf st) := by
  unfold lintModel at h
  cases hu : usage m with
  | error e => simp [hu] at h
  | ok st =>
    simp only [hu] at h
    cases h
    exact ⟨st, rfl, rfl⟩

def Diag.isW (d : Diag) : Bool := d.code = "W01" ∨ d.code = "W02"

theorem usageStep_diags (st st' : St) (r : Read) (h : usageStep st r = .ok st')
    (hd : ∀ d ∈ st.diags, d.isW = false) : ∀ d ∈ st'.diags, d.isW = false := by
  unfold usageStep at h
  split at h
  · cases h
    intro d hdm
    rcases List.mem_append.mp hdm with h1 | h1
    · exact hd d h1
    · simp at h1; subst h1; simp [Diag.isW]
  · split at h
    · cases h
      intro d hdm
      rcases List.mem_append.mp hdm with h1 | h1
      · exact hd d h1
      · simp at h1; subst h1; simp [Diag.isW]
    · cases h; exact hd
    · split at h <;> (cases h; exact hd)

theorem usageLoop_diags : ∀ (rs : List Read) (st st' : St), usageLoop st rs = .ok st' →
    (∀ d ∈ st.diags, d.isW = false) → ∀ d ∈ st'.diags, d.isW = false
  | [], st, st', h, hd => by
    simp [usageLoop] at h
    cases h
    exact hd
  | r :: rs, st, st', h, hd => by
    unfold usageLoop at h
    cases hstep : usageStep st r with
    | error e => simp [hstep] at h
    | ok st1 =>
      simp only [hstep] at h
      exact usageLoop_diags rs st1 st' h (usageStep_diags st st1 r hstep hd)

theorem mkDiag_isW (b : Binding) (c : Code) (p : String) : (mkDiag b c p).isW = true := by
  cases c <;> simp [mkDiag, Diag.isW, Code.str]

/-- the bindings the report loop reports, with code and message prefix, in order -/
def reported (st : St) (l : List Binding) : List (Binding × Code × String) :=
  l.filterMap fun b => (Generated.reportFull (factsOf st b)).map fun cp => (b, cp.1, cp.2)

theorem reported_sublist (st : St) : ∀ l : List Binding, ((reported st l).map (·.1)).Sublist l
  | [] => by simp [reported]
  | b :: l => by
    have ih := reported_sublist st l
    unfold reported at ih ⊢
    cases h : Generated.reportFull (factsOf st b) with
    | none => simpa [List.filterMap_cons, h] using List.Sublist.cons b ih
    | some cp => simpa [List.filterMap_cons, h] using List.Sublist.cons_cons b ih

theorem reported_diags (st : St) : ∀ l : List Binding,
    l.filterMap (reportOf st) = (reported st l).map fun p => mkDiag p.1 p.2.1 p.2.2
  | [] => by simp [reported]
  | b :: l => by
    have ih := reported_diags st l
    unfold reported at ih ⊢
    cases h : Generated.reportFull (factsOf st b) with
    | none => simpa [List.filterMap_cons, h, reportOf] using ih
    | some cp => simpa [List.filterMap_cons, h, reportOf] using ih

theorem filter_isW_append (xs ys : List Diag) (hx : ∀ d ∈ xs, d.isW = false) (hy : ∀ d ∈ ys, d.isW = true) :
    (xs ++ ys).filter Diag.isW = ys := by
  rw [List.filter_append]
  have h1 : xs.filter Diag.isW = [] := by
    rw [List.filter_eq_nil_iff]
    intro d hd
    simp [hx d hd]
  have h2 : ys.filter Diag.isW = ys := by
    rw [List.filter_eq_self]
    exact hy
  rw [h1, h2, List.nil_append]

theorem once (m : Module) (ds : List Diag) (h : lintModel m = .ok ds) :
    ∃ st, usage m = .ok st ∧
      ds.filter Diag.isW = (reported st m.allNames).map (fun p => mkDiag p.1 p.2.1 p.2.2) ∧
      ((reported st m.allNames).map (·.1)).Sublist m.allNames ∧
      (NoDupIds m → ((reported st m.allNames).map (·.1.id)).Nodup) := by
  obtain ⟨st, hu, hds⟩ := lintModel_ok h
  refine ⟨st, hu, ?_, reported_sublist st m.allNames, ?_⟩
  · subst hds
    rw [filter_isW_append, reported_diags]
    · exact usageLoop_diags m.reads St.init st hu (by simp [St.init])
    · intro d hd
      rw [reported_diags] at hd
      obtain ⟨p, _, rfl⟩ := List.mem_map.mp hd
      exact mkDiag_isW _ _ _
  · intro hnd
    have hsub := (reported_sublist st m.allNames).map (·.id)
    have : (reported st m.allNames).map (·.1.id) = ((reported st m.allNames).map (·.1)).map (·.id) := by
      simp [List.map_map]
    rw [this]
    exact hsub.nodup hnd

/-! ### when the usage loop answers -/

theorem usageStep_ok (st : St) (r : Read) : ∃ st', usageStep st r = .ok st' := by
  unfold usageStep
  split
  · exact ⟨_, rfl⟩
  · split
    · exact ⟨_, rfl⟩
    · exact ⟨_, rfl⟩
    · split <;> exact ⟨_, rfl⟩

theorem usageLoop_ok : ∀ (rs : List Read) (st : St), ∃ st', usageLoop st rs = .ok st'
  | [], st => ⟨st, rfl⟩
  | r :: rs, st => by
    obtain ⟨st1, h1⟩ := usageStep_ok st r
    obtain ⟨st2, h2⟩ := usageLoop_ok rs st1
    exact ⟨st2, by simp [usageLoop, h1, h2]⟩

theorem total (m : Module) : ∃ ds, lintModel m = .ok ds := by
  obtain ⟨st, hst⟩ := usageLoop_ok m.reads St.init
  exact ⟨st.diags ++ m.allNames.filterMap (reportOf st), by simp [lintModel, usage, hst]⟩

end SuppModel.Lint
