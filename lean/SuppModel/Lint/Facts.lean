/-
  Lint family, vocabulary shared by the generated decision chain (Generated/Lint.lean, emitted by
  translators/tr_lint.py from supp/linter.py) and the hand-written model.

  `Facts`   : the boolean atoms the report loop `for flow, name in scope.all_names:` reads about one
              (flow, name) pair.
  `NameView`: what the report tuple may copy from the binding object.
-/
namespace SuppModel.Lint

inductive Code where
  | W01 | W02
  deriving DecidableEq, Repr

def Code.str : Code → String
  | .W01 => "W01"
  | .W02 => "W02"

/-- atoms of the exemption chain, one field per recognised Python test -/
structure Facts where
  /-- `hasattr(name, 'used')` -/
  used : Bool
  /-- `name.name.startswith('_')` -/
  underscore : Bool
  /-- `getattr(name, 'is_star', None)` is truthy -/
  isStar : Bool
  /-- `isinstance(flow.scope, IGNORED_SCOPES)`, IGNORED_SCOPES = (SourceScope, ClassScope) -/
  scopeIgnored : Bool
  /-- `isinstance(name, ImportedName)` -/
  isImported : Bool
  /-- `name.module == '__future__'` -/
  future : Bool
  /-- `name.name in qualified_imports` -/
  qualifiedUsed : Bool
  /-- `isinstance(name, ArgumentName)` -/
  isArgument : Bool
  /-- `isinstance(flow.scope.parent, ClassScope)` -/
  parentIsClass : Bool
  deriving DecidableEq, Repr

/-- the attributes of a Name object a report may carry -/
structure NameView where
  name : String
  declLine : Int
  declCol : Int
  locLine : Int
  locCol : Int
  deriving DecidableEq, Repr

end SuppModel.Lint
