/-
  Lint family, the property's sentence as a function -- written from the text of property C10, in the
  property's own vocabulary (where the binding lives, what construct made it), not from linter.py.

  "a binding whose identifier is never read anywhere in the file is reported if and only if it is
     a local of a function or lambda that does not start with an underscore and is not a parameter of a
     method (W01), or
     an import at module or class level that does not start with an underscore, is not from __future__, is
     not a star import and whose top-level name is not used through a dotted import (W02)."
-/
import SuppModel.Lint.Model

namespace SuppModel.Lint

/-- what construct made the binding, as far as the sentence distinguishes -/
inductive BKind where
  | plain       -- assignment, for / with / except target, comprehension variable, walrus, def, class
  | parameter
  | import_
  deriving DecidableEq, Repr

/-- the vocabulary of the property (Facts' of the design) -/
structure SpecFacts where
  /-- the scope whose local the binding is -/
  scopeKind : ScopeKind
  bkind : BKind
  /-- the identifier starts with an underscore -/
  underscore : Bool
  /-- the function / lambda owning the scope is defined directly in a class body -/
  ownerIsMethod : Bool
  fromFuture : Bool
  star : Bool
  /-- the identifier is read through a dotted import (`import a.b` ... `a.x`) -/
  dottedUsed : Bool
  deriving DecidableEq, Repr

abbrev SpecFacts.localOfFunctionOrLambda (s : SpecFacts) : Prop :=
  s.scopeKind = .function ∨ s.scopeKind = .lambda

abbrev SpecFacts.atModuleOrClassLevel (s : SpecFacts) : Prop :=
  s.scopeKind = .module ∨ s.scopeKind = .cls

abbrev SpecFacts.methodParameter (s : SpecFacts) : Prop :=
  s.bkind = .parameter ∧ s.ownerIsMethod = true

/-- the sentence -/
def spec (s : SpecFacts) : Option Code :=
  if s.localOfFunctionOrLambda ∧ s.underscore = false ∧ ¬ s.methodParameter then some .W01
  else if s.bkind = .import_ ∧ s.atModuleOrClassLevel ∧ s.underscore = false ∧ s.fromFuture = false ∧
          s.star = false ∧ s.dottedUsed = false then some .W02
  else none

/-- "carries that binding's own ... kind": the wording that goes with each code -/
def specMsg : Code → String
  | .W01 => "Unused name: "
  | .W02 => "Unused import: "

/-- valid Python: `from m import *` and `from __future__ import x` are imports at module level -/
def SpecFacts.Valid (s : SpecFacts) : Prop :=
  (s.star = true → s.bkind = .import_ ∧ s.scopeKind = .module) ∧
  (s.fromFuture = true → s.bkind = .import_ ∧ s.scopeKind = .module)

instance (s : SpecFacts) : Decidable s.Valid := by unfold SpecFacts.Valid; infer_instance

/-- how the atoms of the code's chain read in the property's vocabulary -/
def SpecFacts.toFacts (s : SpecFacts) (used : Bool) : Facts where
  used := used
  underscore := s.underscore
  isStar := s.star
  scopeIgnored := s.scopeKind = .module ∨ s.scopeKind = .cls
  isImported := s.bkind = .import_
  future := s.fromFuture
  qualifiedUsed := s.dottedUsed
  isArgument := s.bkind = .parameter
  parentIsClass := s.ownerIsMethod

def Kind.bkind : Kind → BKind
  | .imported .. => .import_
  | .argument => .parameter
  | _ => .plain

/-- the property's view of one binding of the analysed module -/
def specFactsOf (b : Binding) (dottedUsed : Bool) : SpecFacts where
  scopeKind := b.scopeKind
  bkind := b.kind.bkind
  underscore := startsUnderscore b.name
  ownerIsMethod := b.parentIsClass
  fromFuture := match b.kind with | .imported m _ _ => m = "__future__" | _ => false
  star := match b.kind with | .imported _ s _ => s | _ => false
  dottedUsed := dottedUsed

/-- the diagnostic the property demands for binding `b` with code `c`: its own name, kind and position -/
def ownDiag (b : Binding) (c : Code) : Diag :=
  ⟨c.str, specMsg c ++ b.name, b.declaredAt.1, b.declaredAt.2⟩

/-- the binding is never read: its identifier is the id of no read of the file, and no read in its scope
    resolves to the builtin `locals` -/
def NeverRead (m : Module) (b : Binding) : Prop :=
  (∀ r ∈ m.reads, r.id ≠ b.name) ∧ ¬ LocalsReadIn m b.scope

instance (m : Module) (b : Binding) : Decidable (NeverRead m b) := by unfold NeverRead; infer_instance

/-- `lint` answers on every analysed module (no path of the usage loop or of the report loop raises) -/
def C10_total_stmt : Prop := ∀ m : Module, ∃ ds, lintModel m = .ok ds

end SuppModel.Lint
