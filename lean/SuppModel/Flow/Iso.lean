/-
  What the driver checks on a PAIR of real flow graphs (two layouts of one program), and the
  property theorem C13_layouts is stated about: same shape up to positions, and the positions
  the queried region compares are ordered alike.
-/
import SuppModel.Flow.Memo

namespace SuppModel.Flow

def NameRec.eraseLoc (n : NameRec) : NameRec := { n with loc := (0, 0) }

def Graph.eraseLoc (g : Graph) : Graph :=
  { g with
    flows := g.flows.map (fun f => { f with names := f.names.map NameRec.eraseLoc }),
    scopes := g.scopes.map (fun s => { s with globals := s.globals.map NameRec.eraseLoc }) }

instance : DecidableEq FlowRec := fun a b =>
  if h : a.id = b.id ∧ a.scope = b.scope ∧ a.names = b.names ∧ a.parents = b.parents then
    isTrue (by cases a; cases b; simp_all)
  else isFalse (by intro e; subst e; simp_all)

instance : DecidableEq ScopeRec := fun a b =>
  if h : a.id = b.id ∧ a.kind = b.kind ∧ a.parent = b.parent ∧ a.locals = b.locals ∧ a.final = b.final ∧
      a.globals = b.globals then
    isTrue (by cases a; cases b; simp_all)
  else isFalse (by intro e; subst e; simp_all)

/-- the two graphs are equal once positions are erased -/
def sameShape (g1 g2 : Graph) : Bool :=
  decide ((g1.eraseLoc).flows = (g2.eraseLoc).flows) &&
  decide ((g1.eraseLoc).scopes = (g2.eraseLoc).scopes) &&
  decide (g1.builtins = g2.builtins)

/-- all pairwise `Pos.lt` comparisons of two position lists agree -/
def sameOrder (ps qs : List Pos) : Bool :=
  ps.length == qs.length &&
  (List.zip ps qs).all (fun a => (List.zip ps qs).all (fun b => Pos.lt a.1 b.1 == Pos.lt a.2 b.2))

def Graph.locsOf (g : Graph) (f : Nat) : List Pos :=
  ((g.flow? f).map (fun fr => fr.names.map (·.loc))).getD []

/-- the positions the query (f, pos) compares are ordered alike in the two layouts -/
def orderIsoAt (g1 g2 : Graph) (f : Nat) (pos1 pos2 : Pos) : Bool :=
  sameOrder (pos1 :: g1.locsOf f) (pos2 :: g2.locsOf f)

/-- two histories on the two layouts: same flows and keys in the same order, and each pair of query
    positions ordered alike relative to the queried region -/
def historiesIso (g1 g2 : Graph) : List Query → List Query → Bool
  | [], [] => true
  | q1 :: r1, q2 :: r2 =>
    q1.flow == q2.flow && q1.key == q2.key && orderIsoAt g1 g2 q1.flow q1.pos q2.pos &&
      historiesIso g1 g2 r1 r2
  | _, _ => false

/-- exactly what `bisect_right` observes of a query position: for every binding of the region, in
    order, whether the position is strictly before it -/
def queryIso (pos1 pos2 : Pos) (l1 l2 : List Pos) : Bool :=
  l1.length == l2.length &&
  (List.zip l1 l2).all (fun p => Pos.lt pos1 p.1 == Pos.lt pos2 p.2)

/-- the query (f, pos1) on g1 and (f, pos2) on g2 make the same comparisons (weaker than
    `orderIsoAt`: "binding before the position" and "binding at the position" are not told apart,
    and the bindings are not compared with each other) -/
def queryIsoAt (g1 g2 : Graph) (f : Nat) (pos1 pos2 : Pos) : Bool :=
  queryIso pos1 pos2 (g1.locsOf f) (g2.locsOf f)

/-- two histories on the two layouts: same flows and keys in the same order, each pair of queries
    making the same comparisons -/
def historiesQueryIso (g1 g2 : Graph) : List Query → List Query → Bool
  | [], [] => true
  | q1 :: r1, q2 :: r2 =>
    q1.flow == q2.flow && q1.key == q2.key && queryIsoAt g1 g2 q1.flow q1.pos q2.pos &&
      historiesQueryIso g1 g2 r1 r2
  | _, _ => false

end SuppModel.Flow
