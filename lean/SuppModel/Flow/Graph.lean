/-
  Graph-level model ("Op") of supp's name-table evaluation: `scope.py`
  (`Flow.names`, `Flow.parent_names`, `Flow.names_at`, `LoopFlow.names`, the `names`
  properties of the scope classes), `merged_dict.py` (lookup order) and `util.insert_loc`.

  The flow graph itself (which regions exist, their bindings and predecessors) is the
  OUTPUT of `nast.extract`; here it is data.  The correspondence check serialises the graph
  the real extractor built, so the theorems about this evaluator hold for every graph the
  real code can produce (and more).  What the evaluator computes for a flow is a table
  `name ↦ alternatives`; a plain `Name` is a one-element list, a `MultiName` the list of
  its alternatives (kept canonical: duplicate-free and sorted, i.e. a set — the ORDER of
  alternatives is property C17's concern, modelled in SuppModel/Perm).
-/
namespace SuppModel.Flow

abbrev Pos := Nat × Nat

def Pos.lt (a b : Pos) : Bool := a.1 < b.1 || (a.1 == b.1 && a.2 < b.2)
def Pos.le (a b : Pos) : Bool := !(Pos.lt b a)

inductive ScopeKind where
  | module | func | cls | builtin
  deriving DecidableEq, Repr, Inhabited

/-- one `Name` object of a flow's `_names` (AssignedName, ArgumentName, ImportedName,
    FuncScope, ClassScope) -/
structure NameRec where
  id : Nat            -- object identity
  name : String
  loc : Pos           -- `location`: from where on the binding is visible in its region
  scope : Nat         -- `name.scope`
  deriving Repr, Inhabited, DecidableEq

/-- an alternative of a table entry -/
inductive Alt where
  | undef (name : String)     -- UndefinedName
  | rt (name : String)        -- RuntimeName of the builtin scope
  | nm (id : Nat)             -- a Name object
  deriving DecidableEq, Repr, Inhabited

inductive Parent where
  | flow (f : Nat)                 -- a Flow
  | loop (l : Nat) (target : Nat)  -- LoopFlow number l whose `parent` is flow `target`
  deriving DecidableEq, Repr, Inhabited

structure FlowRec where
  id : Nat
  scope : Nat
  names : List NameRec     -- `_names`, in list order
  parents : List Parent
  deriving Repr, Inhabited

structure ScopeRec where
  id : Nat
  kind : ScopeKind
  parent : Option Nat        -- `scope.parent` (the builtin scope has none)
  locals : List String       -- `scope.locals`
  final : Nat                -- `scope.flow` once extraction is over
  globals : List NameRec     -- SourceScope._global_names values, in insertion order
  deriving Repr, Inhabited

structure Graph where
  flows : List FlowRec
  scopes : List ScopeRec
  builtins : List String
  deriving Repr, Inhabited

abbrev Val := List Alt
abbrev Tbl := List (String × Val)     -- association list; the FIRST entry of a key counts

def Tbl.get? (t : Tbl) (k : String) : Option Val :=
  match t with
  | [] => none
  | (k', v) :: r => if k' = k then some v else Tbl.get? r k

def Tbl.keys (t : Tbl) : List String := (t.map Prod.fst).eraseDups

/-! ### canonical alternative sets -/

def Alt.key : Alt → Nat × Nat × String
  | .undef n => (0, 0, n)
  | .rt n => (1, 0, n)
  | .nm i => (2, i, "")

def Alt.le (a b : Alt) : Bool :=
  let (x1, x2, x3) := a.key
  let (y1, y2, y3) := b.key
  x1 < y1 || (x1 == y1 && (x2 < y2 || (x2 == y2 && x3 ≤ y3)))

def insertAlt (a : Alt) : List Alt → List Alt
  | [] => [a]
  | b :: r => if a = b then b :: r else if Alt.le a b then a :: b :: r else b :: insertAlt a r

/-- `set(...)` of alternatives, as a canonical sorted duplicate-free list -/
def canon (l : List Alt) : List Alt := l.foldr insertAlt []

/-! ### `insert_loc`, `bisect`, `names_at` -/

/-- `bisect.bisect_right(names, Location(pos))` with `Location.__lt__`, as CPython runs it -/
def bisectGo (names : Array NameRec) (pos : Pos) : Nat → Nat → Nat → Nat
  | 0, lo, _ => lo
  | fuel + 1, lo, hi =>
    if lo < hi then
      let mid := (lo + hi) / 2
      if Pos.lt pos (names[mid]!).loc then bisectGo names pos fuel lo mid
      else bisectGo names pos fuel (mid + 1) hi
    else lo

def bisectRight (names : List NameRec) (pos : Pos) : Nat :=
  bisectGo names.toArray pos (names.length + 1) 0 names.length

/-- `insert_loc(names, n)`: append when strictly after the last element, else `insort` (right) -/
def insertLoc (names : List NameRec) (n : NameRec) : List NameRec :=
  match names.getLast? with
  | some l => if Pos.lt l.loc n.loc then names ++ [n]
              else let i := bisectRight names n.loc; names.take i ++ [n] ++ names.drop i
  | none => [n]

/-- `{n.name: n for n in names}` as an association list whose first match is the LAST binding -/
def ownTable (names : List NameRec) : Tbl :=
  names.foldl (fun acc n => (n.name, [Alt.nm n.id]) :: acc) []

/-! ### the evaluator: `val g fuel R f` = the table of flow `f` while the loops in `R` are
    being resolved (their back edges are cut).  `none` = out of fuel. -/

def Graph.flow? (g : Graph) (f : Nat) : Option FlowRec := g.flows.find? (·.id == f)
def Graph.scope? (g : Graph) (s : Nat) : Option ScopeRec := g.scopes.find? (·.id == s)

def builtinTable (g : Graph) : Tbl := g.builtins.map (fun n => (n, [Alt.rt n]))

def globalsTable (s : ScopeRec) : Tbl :=
  s.globals.foldl (fun acc n => (n.name, [Alt.nm n.id]) :: acc) []

/-- the multi-parent merge of `Flow.parent_names` -/
def mergeTables (ps : List Tbl) : Tbl :=
  let keys := (ps.flatMap (fun t => t.map Prod.fst)).eraseDups
  keys.map (fun k => (k, canon (ps.flatMap (fun t => (t.get? k).getD [Alt.undef k]))))

mutual
/-- `Flow.names` -/
def flowNames (g : Graph) : Nat → List Nat → Nat → Option Tbl
  | 0, _, _ => none
  | fuel + 1, R, f =>
    match g.flow? f with
    | none => none
    | some fr => do
      let p ← parentNames g fuel R fr
      pure (ownTable fr.names ++ p)
/-- `Flow.parent_names` -/
def parentNames (g : Graph) : Nat → List Nat → FlowRec → Option Tbl
  | 0, _, _ => none
  | fuel + 1, R, fr =>
    match fr.parents with
    | [] =>
      match g.scope? fr.scope with
      | none => none
      | some sc =>
        match sc.parent with
        | none => some []
        | some ps => do
          let outer ← scopeNames g fuel R ps
          match sc.kind with
          | .module => pure (globalsTable sc ++ outer)
          | .cls => pure outer
          | _ => pure (outer.filter (fun e => !sc.locals.contains e.1))
    | [Parent.flow p] => flowNames g fuel R p
    | [Parent.loop l t] => do
      -- (a region whose only predecessor is a loop edge does not occur; Python would hand on UNRESOLVED)
      let r ← loopNames g fuel R l t
      pure (r.getD [])
    | ps => do
      let tables ← parentTables g fuel R ps
      pure (mergeTables tables)
/-- tables of the predecessors that are not UNRESOLVED -/
def parentTables (g : Graph) : Nat → List Nat → List Parent → Option (List Tbl)
  | 0, _, _ => none
  | _ + 1, _, [] => some []
  | fuel + 1, R, Parent.flow p :: rest => do
    let t ← flowNames g fuel R p
    let ts ← parentTables g fuel R rest
    pure (t :: ts)
  | fuel + 1, R, Parent.loop l t :: rest => do
    let r ← loopNames g fuel R l t
    let ts ← parentTables g fuel R rest
    pure (match r with | some t => t :: ts | none => ts)
/-- `LoopFlow.names`: `some none` = UNRESOLVED -/
def loopNames (g : Graph) : Nat → List Nat → Nat → Nat → Option (Option Tbl)
  | 0, _, _, _ => none
  | fuel + 1, R, l, target =>
    if R.contains l then some none
    else do
      let t ← flowNames g fuel (l :: R) target
      pure (some t)
/-- the `names` property of a scope object -/
def scopeNames (g : Graph) : Nat → List Nat → Nat → Option Tbl
  | 0, _, _ => none
  | fuel + 1, R, s =>
    match g.scope? s with
    | none => none
    | some sc =>
      match sc.kind with
      | .builtin => some (builtinTable g)
      | .module => do
        let t ← flowNames g fuel R sc.final
        pure (t ++ globalsTable sc)
      | .func => flowNames g fuel R sc.final
      | .cls =>
        match sc.parent with
        | some p => scopeNames g fuel R p
        | none => none
end

/-- `Flow.names_at(pos)` -/
def namesAt (g : Graph) (fuel : Nat) (R : List Nat) (f : Nat) (pos : Pos) : Option Tbl :=
  match g.flow? f with
  | none => none
  | some fr => do
    let p ← parentNames g fuel R fr
    pure (ownTable (fr.names.take (bisectRight fr.names pos)) ++ p)

/-- what a query observes: the alternatives under one key (`none` = KeyError) -/
def lookupAt (g : Graph) (fuel : Nat) (f : Nat) (pos : Pos) (x : String) : Option (Option Val) :=
  (namesAt g fuel [] f pos).map (fun t => t.get? x)

/-- a generous amount of fuel: every call descends one step along a simple path of
    (flows + scopes + loops) -/
def Graph.fuel (g : Graph) : Nat :=
  4 * (g.flows.length + g.scopes.length + (g.flows.map (·.parents.length)).sum + 2) + 8

end SuppModel.Flow
