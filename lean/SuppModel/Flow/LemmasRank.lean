/-
  On a ranked graph (Rank.lean) the evaluator of Graph.lean answers, with fuel `Graph.rankFuel`.

  Measure of a call `flowNames R f`:   live(R) * (N + 1) + rank(f),   N = #flows ≥ every rank,
  live(R) = number of loop edges of the graph whose loop is not in R.  Every call of `flowNames`
  made from `flowNames R f` has a smaller measure: a `.flow q` predecessor and the final flow a
  root flow's scope chain leads to have a smaller rank under the same R; a loop edge `.loop l t`
  with l ∉ R is evaluated under l :: R, which lowers live(R) by at least one and may reset the
  rank to at most N.  Between two such calls at most `hopFuel` units of fuel are spent (one per
  function, one per predecessor of a join, one per class scope of a scope chain).
-/
import SuppModel.Flow.Rank
import SuppModel.Flow.LemmasPure
namespace SuppModel.Flow

/-! ### reading the check -/

theorem validFlow_of {g : Graph} {rk : Array Nat} (hv : validRank g rk = true) {f : Nat} {fr : FlowRec}
    (hf : g.flow? f = some fr) : validFlow g rk fr = true := by
  unfold validRank at hv
  rw [List.all_eq_true] at hv
  exact hv fr (List.mem_of_find?_eq_some hf)

theorem rank_le {g : Graph} {rk : Array Nat} (hv : validRank g rk = true) {f : Nat} {fr : FlowRec}
    (hf : g.flow? f = some fr) : rankOf rk f ≤ g.flows.length := by
  have h := validFlow_of hv hf
  unfold validFlow at h
  rw [Bool.and_eq_true, decide_eq_true_eq, flow?_id hf] at h
  exact h.1

/-- what the check says about a predecessor -/
def PredOK (g : Graph) (rk : Array Nat) (f : Nat) : Parent → Prop
  | .flow q => (∃ fq, g.flow? q = some fq) ∧ rankOf rk q < rankOf rk f
  | .loop _ t => ∃ ft, g.flow? t = some ft

theorem preds_ok {g : Graph} {rk : Array Nat} (hv : validRank g rk = true) {f : Nat} {fr : FlowRec}
    (hf : g.flow? f = some fr) (hne : fr.parents ≠ []) : ∀ p ∈ fr.parents, PredOK g rk f p := by
  have h := validFlow_of hv hf
  unfold validFlow at h
  rw [Bool.and_eq_true, flow?_id hf] at h
  have h2 := h.2
  cases hps : fr.parents with
  | nil => exact absurd hps hne
  | cons a rest =>
    rw [hps] at h2
    simp only [List.all_eq_true] at h2
    intro p hp
    have := h2 p hp
    cases p with
    | flow q =>
      simp only [Bool.and_eq_true, decide_eq_true_eq] at this
      exact ⟨Option.isSome_iff_exists.mp this.1, this.2⟩
    | loop l t => exact Option.isSome_iff_exists.mp this

theorem root_ok {g : Graph} {rk : Array Nat} (hv : validRank g rk = true) {f : Nat} {fr : FlowRec}
    (hf : g.flow? f = some fr) (hroot : fr.parents = []) :
    ∃ tgt, rootTarget g fr = some tgt ∧
      ∀ q, tgt = some q → (∃ fq, g.flow? q = some fq) ∧ rankOf rk q < rankOf rk f := by
  have h := validFlow_of hv hf
  unfold validFlow at h
  rw [Bool.and_eq_true, flow?_id hf, hroot] at h
  have h2 := h.2
  simp only [] at h2
  cases ht : rootTarget g fr with
  | none => simp [ht] at h2
  | some tgt =>
    refine ⟨tgt, rfl, ?_⟩
    intro q hq
    subst hq
    simp only [ht, Bool.and_eq_true, decide_eq_true_eq] at h2
    exact ⟨Option.isSome_iff_exists.mp h2.1, h2.2⟩

/-! ### the measure -/

def live (g : Graph) (R : List Nat) : Nat := (g.loopIds.filter (fun l => !R.contains l)).length

def measure (g : Graph) (rk : Array Nat) (R : List Nat) (f : Nat) : Nat :=
  live g R * (g.flows.length + 1) + rankOf rk f

theorem live_le (g : Graph) (R : List Nat) : live g R ≤ g.loopIds.length :=
  List.length_filter_le _ _

theorem live_cons {g : Graph} {R : List Nat} {l : Nat} (hl : l ∈ g.loopIds)
    (hR : R.contains l = false) : live g (l :: R) + 1 ≤ live g R := by
  unfold live
  have e : g.loopIds.filter (fun x => !(l :: R).contains x) =
      (g.loopIds.filter (fun x => !R.contains x)).filter (fun x => !(x == l)) := by
    rw [List.filter_filter]
    congr 1
    funext x
    rw [List.contains_cons, Bool.not_or, Bool.and_comm]
  rw [e]
  have hmem : l ∈ g.loopIds.filter (fun x => !R.contains x) :=
    List.mem_filter.mpr ⟨hl, by simp [List.contains_eq_mem] at hR ⊢; exact hR⟩
  exact List.length_filter_lt_length_iff_exists (p := fun x => !(x == l)) |>.mpr ⟨l, hmem, by simp⟩

theorem mem_loopIds {g : Graph} {f : Nat} {fr : FlowRec} (hf : g.flow? f = some fr) {l t : Nat}
    (hp : Parent.loop l t ∈ fr.parents) : l ∈ g.loopIds := by
  unfold Graph.loopIds
  refine List.mem_flatMap.mpr ⟨fr, List.mem_of_find?_eq_some hf, ?_⟩
  exact List.mem_filterMap.mpr ⟨Parent.loop l t, hp, rfl⟩

theorem measure_rank {g : Graph} {rk : Array Nat} {R : List Nat} {q f : Nat}
    (h : rankOf rk q < rankOf rk f) : measure g rk R q < measure g rk R f := by
  unfold measure; omega

theorem measure_loop {g : Graph} {rk : Array Nat} {R : List Nat} {l t f : Nat}
    (hl : l ∈ g.loopIds) (hR : R.contains l = false) (ht : rankOf rk t ≤ g.flows.length) :
    measure g rk (l :: R) t < measure g rk R f := by
  unfold measure
  have h1 := live_cons hl hR
  have h2 := Nat.mul_le_mul_right (g.flows.length + 1) h1
  rw [Nat.succ_mul] at h2
  omega

theorem measure_lt_bound {g : Graph} {rk : Array Nat} {R : List Nat} {f : Nat}
    (h : rankOf rk f ≤ g.flows.length) :
    measure g rk R f + 1 ≤ (g.loopIds.length + 1) * (g.flows.length + 1) := by
  unfold measure
  have h1 := Nat.mul_le_mul_right (g.flows.length + 1) (live_le g R)
  rw [Nat.succ_mul]
  omega

theorem parents_le_hop {g : Graph} {f : Nat} {fr : FlowRec} (hf : g.flow? f = some fr) :
    fr.parents.length + g.scopes.length + 6 ≤ g.hopFuel := by
  unfold Graph.hopFuel
  have : ∀ (l : List FlowRec), fr ∈ l → fr.parents.length ≤ (l.map (·.parents.length)).sum := by
    intro l
    induction l with
    | nil => intro h; cases h
    | cons a l ih =>
      intro h
      rw [List.map_cons, List.sum_cons]
      rcases List.mem_cons.mp h with rfl | h
      · omega
      · have := ih h; omega
  have := this g.flows (List.mem_of_find?_eq_some hf)
  omega

/-! ### pieces of the evaluator -/

/-- a scope chain: `scopeNames` answers once the flow it leads to does -/
theorem scopeNames_total (g : Graph) (R : List Nat) (m : Nat) : ∀ k s tgt,
    scopeTarget g k s = some tgt →
    (∀ q, tgt = some q → ∀ n, m ≤ n → ∃ t, flowNames g n R q = some t) →
    ∀ n, m + k ≤ n → ∃ t, scopeNames g n R s = some t := by
  intro k
  induction k with
  | zero => intro s tgt h; simp [scopeTarget] at h
  | succ k ih =>
    intro s tgt h hq n hn
    obtain ⟨n', rfl⟩ : ∃ n', n = n' + 1 := ⟨n - 1, by omega⟩
    rw [scopeTarget] at h
    rw [scopeNames]
    cases hsc : g.scope? s with
    | none => simp [hsc] at h
    | some sc =>
      simp only [hsc] at h ⊢
      cases hk : sc.kind with
      | builtin => exact ⟨_, rfl⟩
      | module =>
        simp only [hk] at h
        obtain ⟨t, ht⟩ := hq sc.final (by cases h; rfl) n' (by omega)
        exact ⟨t ++ globalsTable sc, by simp [ht]⟩
      | func =>
        simp only [hk] at h
        exact hq sc.final (by cases h; rfl) n' (by omega)
      | cls =>
        simp only [hk] at h
        cases hp : sc.parent with
        | none => simp [hp] at h
        | some p =>
          simp only [hp] at h
          exact ih p tgt h hq n' (by omega)

/-- what a join needs from one predecessor -/
def PredAnswers (g : Graph) (R : List Nat) (m : Nat) : Parent → Prop
  | .flow q => ∀ n, m ≤ n → ∃ t, flowNames g n R q = some t
  | .loop l t => ∀ n, m ≤ n → ∃ r, loopNames g (n + 1) R l t = some r

theorem parentTables_total (g : Graph) (R : List Nat) (m : Nat) : ∀ ps,
    (∀ p ∈ ps, PredAnswers g R m p) →
    ∀ n, m + ps.length + 1 ≤ n → ∃ ts, parentTables g n R ps = some ts := by
  intro ps
  induction ps with
  | nil =>
    intro _ n hn
    obtain ⟨n', rfl⟩ : ∃ n', n = n' + 1 := ⟨n - 1, by omega⟩
    exact ⟨[], by rw [parentTables]⟩
  | cons p rest ih =>
    intro h n hn
    simp only [List.length_cons] at hn
    obtain ⟨n', rfl⟩ : ∃ n', n = n' + 1 := ⟨n - 1, by omega⟩
    obtain ⟨ts, hts⟩ := ih (fun p hp => h p (List.mem_cons_of_mem _ hp)) n' (by omega)
    have hp := h p List.mem_cons_self
    cases p with
    | flow q =>
      obtain ⟨t, ht⟩ := hp n' (by omega)
      exact ⟨t :: ts, by rw [parentTables]; simp [ht, hts]⟩
    | loop l tg =>
      obtain ⟨n'', rfl⟩ : ∃ n'', n' = n'' + 1 := ⟨n' - 1, by omega⟩
      obtain ⟨r, hr⟩ := hp n'' (by omega)
      exact ⟨consOpt r ts, by rw [parentTables]; simp only [hr, hts]; cases r <;> rfl⟩

/-! ### one hop -/

theorem flowNames_step {g : Graph} {rk : Array Nat} (hv : validRank g rk = true) (f : Nat)
    (fr : FlowRec) (R : List Nat) (hf : g.flow? f = some fr) (m : Nat)
    (sub : ∀ q fq R', g.flow? q = some fq → measure g rk R' q < measure g rk R f →
      ∀ n, m ≤ n → ∃ t, flowNames g n R' q = some t) :
    ∀ n, m + g.hopFuel ≤ n → ∃ t, flowNames g n R f = some t := by
  intro n hn
  have hhop := parents_le_hop hf
  obtain ⟨k, rfl⟩ : ∃ k, n = k + 2 := ⟨n - 2, by omega⟩
  suffices hpn : ∃ p, parentNames g (k + 1) R fr = some p by
    obtain ⟨p, hp⟩ := hpn
    exact Option.isSome_iff_exists.mp (by rw [flowNames]; simp [hf, hp])
  -- a loop edge answers
  have hloop : ∀ l t, Parent.loop l t ∈ fr.parents → (∃ ft, g.flow? t = some ft) →
      ∀ n, m ≤ n → ∃ r, loopNames g (n + 1) R l t = some r := by
    intro l t hmem hex n hn
    rw [loopNames]
    by_cases hc : R.contains l = true
    · exact ⟨none, by rw [if_pos hc]⟩
    · rw [if_neg hc]
      obtain ⟨ft, hft⟩ := hex
      have hlt : measure g rk (l :: R) t < measure g rk R f :=
        measure_loop (mem_loopIds hf hmem) (by simpa using hc) (rank_le hv hft)
      obtain ⟨t', ht'⟩ := sub t ft (l :: R) hft hlt n hn
      exact ⟨some t', by simp [ht']⟩
  rw [parentNames]
  cases hps : fr.parents with
  | nil =>
    simp only []
    obtain ⟨tgt, htgt, hq⟩ := root_ok hv hf hps
    unfold rootTarget at htgt
    cases hsc : g.scope? fr.scope with
    | none => simp [hsc] at htgt
    | some sc =>
      simp only [hsc] at htgt ⊢
      cases hp : sc.parent with
      | none => exact ⟨[], rfl⟩
      | some ps =>
        simp only [hp] at htgt ⊢
        obtain ⟨outer, ho⟩ := scopeNames_total g R m (g.scopes.length + 1) ps tgt htgt
          (fun q hqe n hn => by
            obtain ⟨⟨fq, hfq⟩, hr⟩ := hq q hqe
            exact sub q fq R hfq (measure_rank hr) n hn) k (by omega)
        cases hk : sc.kind <;> exact Option.isSome_iff_exists.mp (by simp [ho])
  | cons a rest =>
    have hok := preds_ok hv hf (by rw [hps]; exact List.cons_ne_nil _ _)
    rw [hps] at hok
    have hall : ∀ p ∈ a :: rest, PredAnswers g R m p := by
      intro p hp
      have hpo := hok p hp
      cases p with
      | flow q =>
        obtain ⟨⟨fq, hfq⟩, hr⟩ := hpo
        exact fun n hn => sub q fq R hfq (measure_rank hr) n hn
      | loop l t => exact hloop l t (by rw [hps]; exact hp) hpo
    have hlen : (a :: rest).length = fr.parents.length := by rw [hps]
    match a, rest, hall, hlen with
    | Parent.flow p, [], hall, _ =>
      simp only []
      exact hall (Parent.flow p) List.mem_cons_self k (by omega)
    | Parent.loop l t, [], hall, _ =>
      simp only []
      obtain ⟨k', rfl⟩ : ∃ k', k = k' + 1 := ⟨k - 1, by omega⟩
      obtain ⟨r, hr⟩ := hall (Parent.loop l t) List.mem_cons_self k' (by omega)
      exact Option.isSome_iff_exists.mp (by simp [hr])
    | a, b :: rest', hall, hlen =>
      simp only []
      obtain ⟨ts, hts⟩ := parentTables_total g R m (a :: b :: rest') hall k (by omega)
      exact Option.isSome_iff_exists.mp (by simp [hts])

/-! ### totality -/

theorem flowNames_total_aux {g : Graph} {rk : Array Nat} (hv : validRank g rk = true) :
    ∀ μ f fr R, g.flow? f = some fr → measure g rk R f ≤ μ →
      ∀ n, g.hopFuel * (μ + 1) ≤ n → ∃ t, flowNames g n R f = some t := by
  intro μ
  induction μ using Nat.strongRecOn with
  | _ μ ih =>
    intro f fr R hf hμ n hn
    refine flowNames_step hv f fr R hf (g.hopFuel * μ) ?_ n (by rw [Nat.mul_succ] at hn; exact hn)
    intro q fq R' hq hlt n' hn'
    have hlt' : measure g rk R' q < μ := by omega
    refine ih (measure g rk R' q) hlt' q fq R' hq (Nat.le_refl _) n' ?_
    have := Nat.mul_le_mul_left g.hopFuel (show measure g rk R' q + 1 ≤ μ by omega)
    omega

/-- on a graph with a valid rank every flow's table is computed, with fuel `rankFuel` -/
theorem flowNames_total {g : Graph} {rk : Array Nat} (hv : validRank g rk = true) (f : Nat)
    (fr : FlowRec) (hf : g.flow? f = some fr) (R : List Nat) (n : Nat) (hn : g.rankFuel ≤ n) :
    ∃ t, flowNames g n R f = some t := by
  refine flowNames_total_aux hv (measure g rk R f) f fr R hf (Nat.le_refl _) n ?_
  have := Nat.mul_le_mul_left g.hopFuel (measure_lt_bound (R := R) (rank_le hv hf))
  unfold Graph.rankFuel at hn
  omega

theorem namesAt_total {g : Graph} {rk : Array Nat} (hv : validRank g rk = true) (f : Nat)
    (fr : FlowRec) (hf : g.flow? f = some fr) (R : List Nat) (pos : Pos) (n : Nat)
    (hn : g.rankFuel ≤ n) : ∃ t, namesAt g n R f pos = some t := by
  obtain ⟨t, ht⟩ := flowNames_total hv f fr hf R (n + 1) (by omega)
  rw [flowNames] at ht
  simp only [hf] at ht
  obtain ⟨p, hp, _⟩ := bind_eq_some' ht
  exact Option.isSome_iff_exists.mp (by unfold namesAt; simp [hf, hp])

end SuppModel.Flow
