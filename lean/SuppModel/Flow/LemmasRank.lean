/-
  On a ranked graph (Rank.lean) the evaluator of Graph.lean answers, with fuel `Graph.rankFuel`.

  Measure of a call `flowNames R f`:   live(R) * (N + 1) + rank(f),   N = #flows ≥ every rank,
  live(R) = number of loop edges of the graph whose loop is not in R.  Every call of `flowNames`
  made from `flowNames R f` has a smaller measure: a `.flow q` predecessor and the final flow a
  root flow's scope chain leads to have a smaller rank under the same R; a loop edge `.loop l t`
  with l ∉ R is evaluated under l :: R, which lowers live(R) by at least one and may reset the
  rank to at most N.  Between two such calls at most `hopFuel` units of fuel are spent (one per
  function, one per predecessor of a join, one per class scope of a scope chain).

  COMPLETENESS of `Graph.ranked` (last section): if ANY rank is valid, the computed one is.  The
  relaxation only raises ranks, and the rank of i stays at most the number of flows whose given
  rank is smaller than i's (`Below`, `cnt`: no bound on the given rank is needed), hence ≤ #flows; each sweep but the last raises the sum of all ranks, which is bounded, so the iteration
  stops at a sweep that changes nothing before its fuel runs out; in such a sweep every single
  step changed nothing (steps are monotone), i.e. every rank inequality holds; the structural
  part of the check does not depend on the rank.
-/
import SuppModel.Flow.Rank
import SuppModel.Flow.LemmasPure
namespace SuppModel.Flow

/-! ### reading the check -/

theorem validFlow_of {g : Graph} {rk : Array Nat} (hv : validRank g rk = true) {f : Nat} {fr : FlowRec}
    (hf : g.flow? f = some fr) : validFlow g rk fr = true := by
  unfold validRank at hv
  rw [List.all_eq_true] at hv
  exact hv fr (List.mem_of_find?_eq_some hf)

theorem rank_le {g : Graph} {rk : Array Nat} (hv : validRank g rk = true) {f : Nat} {fr : FlowRec}
    (hf : g.flow? f = some fr) : rankOf rk f ≤ g.flows.length := by
  have h := validFlow_of hv hf
  unfold validFlow at h
  rw [Bool.and_eq_true, decide_eq_true_eq, flow?_id hf] at h
  exact h.1

/-- what the check says about a predecessor -/
def PredOK (g : Graph) (rk : Array Nat) (f : Nat) : Parent → Prop
  | .flow q => (∃ fq, g.flow? q = some fq) ∧ rankOf rk q < rankOf rk f
  | .loop _ t => ∃ ft, g.flow? t = some ft

theorem preds_ok {g : Graph} {rk : Array Nat} (hv : validRank g rk = true) {f : Nat} {fr : FlowRec}
    (hf : g.flow? f = some fr) (hne : fr.parents ≠ []) : ∀ p ∈ fr.parents, PredOK g rk f p := by
  have h := validFlow_of hv hf
  unfold validFlow at h
  rw [Bool.and_eq_true, flow?_id hf] at h
  have h2 := h.2
  unfold validFlowU at h2
  rw [flow?_id hf] at h2
  cases hps : fr.parents with
  | nil => exact absurd hps hne
  | cons a rest =>
    rw [hps] at h2
    simp only [List.all_eq_true] at h2
    intro p hp
    have := h2 p hp
    cases p with
    | flow q =>
      simp only [Bool.and_eq_true, decide_eq_true_eq] at this
      exact ⟨Option.isSome_iff_exists.mp this.1, this.2⟩
    | loop l t => exact Option.isSome_iff_exists.mp this

theorem root_ok {g : Graph} {rk : Array Nat} (hv : validRank g rk = true) {f : Nat} {fr : FlowRec}
    (hf : g.flow? f = some fr) (hroot : fr.parents = []) :
    ∃ tgt, rootTarget g fr = some tgt ∧
      ∀ q, tgt = some q → (∃ fq, g.flow? q = some fq) ∧ rankOf rk q < rankOf rk f := by
  have h := validFlow_of hv hf
  unfold validFlow at h
  rw [Bool.and_eq_true, flow?_id hf] at h
  have h2 := h.2
  unfold validFlowU at h2
  rw [flow?_id hf, hroot] at h2
  simp only [] at h2
  cases ht : rootTarget g fr with
  | none => simp [ht] at h2
  | some tgt =>
    refine ⟨tgt, rfl, ?_⟩
    intro q hq
    subst hq
    simp only [ht, Bool.and_eq_true, decide_eq_true_eq] at h2
    exact ⟨Option.isSome_iff_exists.mp h2.1, h2.2⟩

/-! ### the measure -/

def live (g : Graph) (R : List Nat) : Nat := (g.loopIds.filter (fun l => !R.contains l)).length

def measure (g : Graph) (rk : Array Nat) (R : List Nat) (f : Nat) : Nat :=
  live g R * (g.flows.length + 1) + rankOf rk f

theorem live_le (g : Graph) (R : List Nat) : live g R ≤ g.loopIds.length :=
  List.length_filter_le _ _

theorem live_cons {g : Graph} {R : List Nat} {l : Nat} (hl : l ∈ g.loopIds)
    (hR : R.contains l = false) : live g (l :: R) + 1 ≤ live g R := by
  unfold live
  have e : g.loopIds.filter (fun x => !(l :: R).contains x) =
      (g.loopIds.filter (fun x => !R.contains x)).filter (fun x => !(x == l)) := by
    rw [List.filter_filter]
    congr 1
    funext x
    rw [List.contains_cons, Bool.not_or, Bool.and_comm]
  rw [e]
  have hmem : l ∈ g.loopIds.filter (fun x => !R.contains x) :=
    List.mem_filter.mpr ⟨hl, by simp [List.contains_eq_mem] at hR ⊢; exact hR⟩
  exact List.length_filter_lt_length_iff_exists (p := fun x => !(x == l)) |>.mpr ⟨l, hmem, by simp⟩

theorem mem_loopIds {g : Graph} {f : Nat} {fr : FlowRec} (hf : g.flow? f = some fr) {l t : Nat}
    (hp : Parent.loop l t ∈ fr.parents) : l ∈ g.loopIds := by
  unfold Graph.loopIds
  refine List.mem_flatMap.mpr ⟨fr, List.mem_of_find?_eq_some hf, ?_⟩
  exact List.mem_filterMap.mpr ⟨Parent.loop l t, hp, rfl⟩

theorem measure_rank {g : Graph} {rk : Array Nat} {R : List Nat} {q f : Nat}
    (h : rankOf rk q < rankOf rk f) : measure g rk R q < measure g rk R f := by
  unfold measure; omega

theorem measure_loop {g : Graph} {rk : Array Nat} {R : List Nat} {l t f : Nat}
    (hl : l ∈ g.loopIds) (hR : R.contains l = false) (ht : rankOf rk t ≤ g.flows.length) :
    measure g rk (l :: R) t < measure g rk R f := by
  unfold measure
  have h1 := live_cons hl hR
  have h2 := Nat.mul_le_mul_right (g.flows.length + 1) h1
  rw [Nat.succ_mul] at h2
  omega

theorem measure_lt_bound {g : Graph} {rk : Array Nat} {R : List Nat} {f : Nat}
    (h : rankOf rk f ≤ g.flows.length) :
    measure g rk R f + 1 ≤ (g.loopIds.length + 1) * (g.flows.length + 1) := by
  unfold measure
  have h1 := Nat.mul_le_mul_right (g.flows.length + 1) (live_le g R)
  rw [Nat.succ_mul]
  omega

theorem parents_le_hop {g : Graph} {f : Nat} {fr : FlowRec} (hf : g.flow? f = some fr) :
    fr.parents.length + g.scopes.length + 6 ≤ g.hopFuel := by
  unfold Graph.hopFuel
  have : ∀ (l : List FlowRec), fr ∈ l → fr.parents.length ≤ (l.map (·.parents.length)).sum := by
    intro l
    induction l with
    | nil => intro h; cases h
    | cons a l ih =>
      intro h
      rw [List.map_cons, List.sum_cons]
      rcases List.mem_cons.mp h with rfl | h
      · omega
      · have := ih h; omega
  have := this g.flows (List.mem_of_find?_eq_some hf)
  omega

/-! ### pieces of the evaluator -/

/-- a scope chain: `scopeNames` answers once the flow it leads to does -/
theorem scopeNames_total (g : Graph) (R : List Nat) (m : Nat) : ∀ k s tgt,
    scopeTarget g k s = some tgt →
    (∀ q, tgt = some q → ∀ n, m ≤ n → ∃ t, flowNames g n R q = some t) →
    ∀ n, m + k ≤ n → ∃ t, scopeNames g n R s = some t := by
  intro k
  induction k with
  | zero => intro s tgt h; simp [scopeTarget] at h
  | succ k ih =>
    intro s tgt h hq n hn
    obtain ⟨n', rfl⟩ : ∃ n', n = n' + 1 := ⟨n - 1, by omega⟩
    rw [scopeTarget] at h
    rw [scopeNames]
    cases hsc : g.scope? s with
    | none => simp [hsc] at h
    | some sc =>
      simp only [hsc] at h ⊢
      cases hk : sc.kind with
      | builtin => exact ⟨_, rfl⟩
      | module =>
        simp only [hk] at h
        obtain ⟨t, ht⟩ := hq sc.final (by cases h; rfl) n' (by omega)
        exact ⟨t ++ globalsTable sc, by simp [ht]⟩
      | func =>
        simp only [hk] at h
        exact hq sc.final (by cases h; rfl) n' (by omega)
      | cls =>
        simp only [hk] at h
        cases hp : sc.parent with
        | none => simp [hp] at h
        | some p =>
          simp only [hp] at h
          exact ih p tgt h hq n' (by omega)

/-- what a join needs from one predecessor -/
def PredAnswers (g : Graph) (R : List Nat) (m : Nat) : Parent → Prop
  | .flow q => ∀ n, m ≤ n → ∃ t, flowNames g n R q = some t
  | .loop l t => ∀ n, m ≤ n → ∃ r, loopNames g (n + 1) R l t = some r

theorem parentTables_total (g : Graph) (R : List Nat) (m : Nat) : ∀ ps,
    (∀ p ∈ ps, PredAnswers g R m p) →
    ∀ n, m + ps.length + 1 ≤ n → ∃ ts, parentTables g n R ps = some ts := by
  intro ps
  induction ps with
  | nil =>
    intro _ n hn
    obtain ⟨n', rfl⟩ : ∃ n', n = n' + 1 := ⟨n - 1, by omega⟩
    exact ⟨[], by rw [parentTables]⟩
  | cons p rest ih =>
    intro h n hn
    simp only [List.length_cons] at hn
    obtain ⟨n', rfl⟩ : ∃ n', n = n' + 1 := ⟨n - 1, by omega⟩
    obtain ⟨ts, hts⟩ := ih (fun p hp => h p (List.mem_cons_of_mem _ hp)) n' (by omega)
    have hp := h p List.mem_cons_self
    cases p with
    | flow q =>
      obtain ⟨t, ht⟩ := hp n' (by omega)
      exact ⟨t :: ts, by rw [parentTables]; simp [ht, hts]⟩
    | loop l tg =>
      obtain ⟨n'', rfl⟩ : ∃ n'', n' = n'' + 1 := ⟨n' - 1, by omega⟩
      obtain ⟨r, hr⟩ := hp n'' (by omega)
      exact ⟨consOpt r ts, by rw [parentTables]; simp only [hr, hts]; cases r <;> rfl⟩

/-! ### one hop -/

theorem flowNames_step {g : Graph} {rk : Array Nat} (hv : validRank g rk = true) (f : Nat)
    (fr : FlowRec) (R : List Nat) (hf : g.flow? f = some fr) (m : Nat)
    (sub : ∀ q fq R', g.flow? q = some fq → measure g rk R' q < measure g rk R f →
      ∀ n, m ≤ n → ∃ t, flowNames g n R' q = some t) :
    ∀ n, m + g.hopFuel ≤ n → ∃ t, flowNames g n R f = some t := by
  intro n hn
  have hhop := parents_le_hop hf
  obtain ⟨k, rfl⟩ : ∃ k, n = k + 2 := ⟨n - 2, by omega⟩
  suffices hpn : ∃ p, parentNames g (k + 1) R fr = some p by
    obtain ⟨p, hp⟩ := hpn
    exact Option.isSome_iff_exists.mp (by rw [flowNames]; simp [hf, hp])
  -- a loop edge answers
  have hloop : ∀ l t, Parent.loop l t ∈ fr.parents → (∃ ft, g.flow? t = some ft) →
      ∀ n, m ≤ n → ∃ r, loopNames g (n + 1) R l t = some r := by
    intro l t hmem hex n hn
    rw [loopNames]
    by_cases hc : R.contains l = true
    · exact ⟨none, by rw [if_pos hc]⟩
    · rw [if_neg hc]
      obtain ⟨ft, hft⟩ := hex
      have hlt : measure g rk (l :: R) t < measure g rk R f :=
        measure_loop (mem_loopIds hf hmem) (by simpa using hc) (rank_le hv hft)
      obtain ⟨t', ht'⟩ := sub t ft (l :: R) hft hlt n hn
      exact ⟨some t', by simp [ht']⟩
  rw [parentNames]
  cases hps : fr.parents with
  | nil =>
    simp only []
    obtain ⟨tgt, htgt, hq⟩ := root_ok hv hf hps
    unfold rootTarget at htgt
    cases hsc : g.scope? fr.scope with
    | none => simp [hsc] at htgt
    | some sc =>
      simp only [hsc] at htgt ⊢
      cases hp : sc.parent with
      | none => exact ⟨[], rfl⟩
      | some ps =>
        simp only [hp] at htgt ⊢
        obtain ⟨outer, ho⟩ := scopeNames_total g R m (g.scopes.length + 1) ps tgt htgt
          (fun q hqe n hn => by
            obtain ⟨⟨fq, hfq⟩, hr⟩ := hq q hqe
            exact sub q fq R hfq (measure_rank hr) n hn) k (by omega)
        cases hk : sc.kind <;> exact Option.isSome_iff_exists.mp (by simp [ho])
  | cons a rest =>
    have hok := preds_ok hv hf (by rw [hps]; exact List.cons_ne_nil _ _)
    rw [hps] at hok
    have hall : ∀ p ∈ a :: rest, PredAnswers g R m p := by
      intro p hp
      have hpo := hok p hp
      cases p with
      | flow q =>
        obtain ⟨⟨fq, hfq⟩, hr⟩ := hpo
        exact fun n hn => sub q fq R hfq (measure_rank hr) n hn
      | loop l t => exact hloop l t (by rw [hps]; exact hp) hpo
    have hlen : (a :: rest).length = fr.parents.length := by rw [hps]
    match a, rest, hall, hlen with
    | Parent.flow p, [], hall, _ =>
      simp only []
      exact hall (Parent.flow p) List.mem_cons_self k (by omega)
    | Parent.loop l t, [], hall, _ =>
      simp only []
      obtain ⟨k', rfl⟩ : ∃ k', k = k' + 1 := ⟨k - 1, by omega⟩
      obtain ⟨r, hr⟩ := hall (Parent.loop l t) List.mem_cons_self k' (by omega)
      exact Option.isSome_iff_exists.mp (by simp [hr])
    | a, b :: rest', hall, hlen =>
      simp only []
      obtain ⟨ts, hts⟩ := parentTables_total g R m (a :: b :: rest') hall k (by omega)
      exact Option.isSome_iff_exists.mp (by simp [hts])

/-! ### totality -/

theorem flowNames_total_aux {g : Graph} {rk : Array Nat} (hv : validRank g rk = true) :
    ∀ μ f fr R, g.flow? f = some fr → measure g rk R f ≤ μ →
      ∀ n, g.hopFuel * (μ + 1) ≤ n → ∃ t, flowNames g n R f = some t := by
  intro μ
  induction μ using Nat.strongRecOn with
  | _ μ ih =>
    intro f fr R hf hμ n hn
    refine flowNames_step hv f fr R hf (g.hopFuel * μ) ?_ n (by rw [Nat.mul_succ] at hn; exact hn)
    intro q fq R' hq hlt n' hn'
    have hlt' : measure g rk R' q < μ := by omega
    refine ih (measure g rk R' q) hlt' q fq R' hq (Nat.le_refl _) n' ?_
    have := Nat.mul_le_mul_left g.hopFuel (show measure g rk R' q + 1 ≤ μ by omega)
    omega

/-- on a graph with a valid rank every flow's table is computed, with fuel `rankFuel` -/
theorem flowNames_total {g : Graph} {rk : Array Nat} (hv : validRank g rk = true) (f : Nat)
    (fr : FlowRec) (hf : g.flow? f = some fr) (R : List Nat) (n : Nat) (hn : g.rankFuel ≤ n) :
    ∃ t, flowNames g n R f = some t := by
  refine flowNames_total_aux hv (measure g rk R f) f fr R hf (Nat.le_refl _) n ?_
  have := Nat.mul_le_mul_left g.hopFuel (measure_lt_bound (R := R) (rank_le hv hf))
  unfold Graph.rankFuel at hn
  omega

theorem namesAt_total {g : Graph} {rk : Array Nat} (hv : validRank g rk = true) (f : Nat)
    (fr : FlowRec) (hf : g.flow? f = some fr) (R : List Nat) (pos : Pos) (n : Nat)
    (hn : g.rankFuel ≤ n) : ∃ t, namesAt g n R f pos = some t := by
  obtain ⟨t, ht⟩ := flowNames_total hv f fr hf R (n + 1) (by omega)
  rw [flowNames] at ht
  simp only [hf] at ht
  obtain ⟨p, hp, _⟩ := bind_eq_some' ht
  exact Option.isSome_iff_exists.mp (by unfold namesAt; simp [hf, hp])

/-! ### completeness of the relaxation: if any rank is valid, the computed one is -/

theorem rankOf_set (rk : Array Nat) (j v i : Nat) :
    rankOf (rk.setIfInBounds j v) i = if j = i ∧ j < rk.size then v else rankOf rk i := by
  unfold rankOf
  rw [Array.getD_eq_getD_getElem?, Array.getD_eq_getD_getElem?, Array.getElem?_setIfInBounds]
  by_cases h1 : j = i
  · subst h1
    by_cases h2 : j < rk.size
    · simp [h2]
    · have : rk[j]? = none := by simp; omega
      simp [h2]
  · simp [h1]

/-- pointwise order on rank arrays of one size -/
def RLe (a b : Array Nat) : Prop := a.size = b.size ∧ ∀ i, rankOf a i ≤ rankOf b i

theorem RLe.refl (a : Array Nat) : RLe a a := ⟨rfl, fun _ => Nat.le_refl _⟩
theorem RLe.trans {a b c : Array Nat} (h1 : RLe a b) (h2 : RLe b c) : RLe a c :=
  ⟨h1.1.trans h2.1, fun i => Nat.le_trans (h1.2 i) (h2.2 i)⟩

theorem rankOf_eq_getElem {a : Array Nat} {i : Nat} (h : i < a.size) : rankOf a i = a[i] := by
  unfold rankOf; simp [h]

theorem RLe.antisymm {a b : Array Nat} (h1 : RLe a b) (h2 : RLe b a) : a = b := by
  refine Array.ext h1.1 ?_
  intro i hi1 hi2
  have e1 := h1.2 i
  have e2 := h2.2 i
  rw [rankOf_eq_getElem hi1, rankOf_eq_getElem hi2] at e1 e2
  omega

/-- the new value a step writes -/
def stepVal (g : Graph) (rk : Array Nat) (fr : FlowRec) : Nat :=
  (flowDeps g fr).foldl (fun m q => max m (rankOf rk q + 1)) (rankOf rk fr.id)

theorem foldl_max_ge (rk : Array Nat) (l : List Nat) (m0 : Nat) :
    m0 ≤ l.foldl (fun m q => max m (rankOf rk q + 1)) m0 ∧
    ∀ q ∈ l, rankOf rk q + 1 ≤ l.foldl (fun m q => max m (rankOf rk q + 1)) m0 := by
  induction l generalizing m0 with
  | nil => exact ⟨Nat.le_refl _, fun q h => by cases h⟩
  | cons a l ih =>
    rw [List.foldl_cons]
    obtain ⟨h1, h2⟩ := ih (max m0 (rankOf rk a + 1))
    refine ⟨by omega, ?_⟩
    intro q hq
    rcases List.mem_cons.mp hq with rfl | hq
    · omega
    · exact h2 q hq

theorem foldl_max_le (rk : Array Nat) (l : List Nat) (m0 B : Nat) (h0 : m0 ≤ B)
    (h : ∀ q ∈ l, rankOf rk q + 1 ≤ B) : l.foldl (fun m q => max m (rankOf rk q + 1)) m0 ≤ B := by
  induction l generalizing m0 with
  | nil => exact h0
  | cons a l ih =>
    rw [List.foldl_cons]
    refine ih _ ?_ (fun q hq => h q (List.mem_cons_of_mem _ hq))
    have := h a List.mem_cons_self
    omega

theorem rankStep_ge (g : Graph) (rk : Array Nat) (fr : FlowRec) : RLe rk (rankStep g rk fr) := by
  refine ⟨by unfold rankStep; rw [Array.size_setIfInBounds], ?_⟩
  intro i
  unfold rankStep
  rw [rankOf_set]
  split
  · next h => rw [← h.1]; exact (foldl_max_ge rk (flowDeps g fr) _).1
  · exact Nat.le_refl _

theorem foldl_step_ge (g : Graph) (l : List FlowRec) (rk : Array Nat) :
    RLe rk (l.foldl (rankStep g) rk) := by
  induction l generalizing rk with
  | nil => exact RLe.refl _
  | cons a l ih => exact (rankStep_ge g rk a).trans (ih _)

/-- a sweep that changes nothing: every single step changed nothing -/
theorem steps_of_fixpoint (g : Graph) (l : List FlowRec) (rk : Array Nat)
    (h : l.foldl (rankStep g) rk = rk) : ∀ fr ∈ l, rankStep g rk fr = rk := by
  induction l with
  | nil => intro fr hfr; cases hfr
  | cons a l ih =>
    rw [List.foldl_cons] at h
    have h1 : rankStep g rk a = rk := by
      have hge := foldl_step_ge g l (rankStep g rk a)
      rw [h] at hge
      exact (RLe.antisymm (rankStep_ge g rk a) hge).symm
    rw [h1] at h
    intro fr hfr
    rcases List.mem_cons.mp hfr with rfl | hfr
    · exact h1
    · exact ih h fr hfr

/-- what a decreasing rank says about the flows `fr` needs -/
theorem deps_of_valid {g : Graph} {rk : Array Nat} {fr : FlowRec} (h : validFlowU g rk fr = true) :
    ∀ q ∈ flowDeps g fr, (∃ fq, g.flow? q = some fq) ∧ rankOf rk q < rankOf rk fr.id := by
  unfold validFlowU at h
  unfold flowDeps
  cases hps : fr.parents with
  | nil =>
    rw [hps] at h
    simp only [] at h ⊢
    cases ht : rootTarget g fr with
    | none => intro q hq; cases hq
    | some tgt =>
      cases tgt with
      | none => intro q hq; cases hq
      | some q0 =>
        simp only [ht, Bool.and_eq_true, decide_eq_true_eq] at h
        intro q hq
        rcases List.mem_singleton.mp hq with rfl
        exact ⟨Option.isSome_iff_exists.mp h.1, h.2⟩
  | cons a rest =>
    rw [hps] at h
    simp only [List.all_eq_true] at h
    intro q hq
    obtain ⟨p, hp, he⟩ := List.mem_filterMap.mp hq
    have := h p hp
    cases p with
    | flow q' =>
      simp only [Option.some.injEq] at he
      subst he
      simp only [Bool.and_eq_true, decide_eq_true_eq] at this
      exact ⟨Option.isSome_iff_exists.mp this.1, this.2⟩
    | loop l t => simp at he

/-- the structural part of the check does not depend on the rank -/
theorem valid_transfer {g : Graph} {rk rc : Array Nat} {fr : FlowRec} (h : validFlowU g rk fr = true)
    (hle : rankOf rc fr.id ≤ g.flows.length)
    (hd : ∀ q ∈ flowDeps g fr, rankOf rc q < rankOf rc fr.id) : validFlow g rc fr = true := by
  unfold validFlow
  rw [Bool.and_eq_true, decide_eq_true_eq]
  refine ⟨hle, ?_⟩
  unfold validFlowU at h ⊢
  unfold flowDeps at hd
  cases hps : fr.parents with
  | nil =>
    rw [hps] at h hd
    simp only [] at h hd ⊢
    cases ht : rootTarget g fr with
    | none => simp [ht] at h
    | some tgt =>
      cases tgt with
      | none => rfl
      | some q0 =>
        simp only [ht, Bool.and_eq_true, decide_eq_true_eq] at h hd ⊢
        exact ⟨h.1, hd q0 (List.mem_singleton.mpr rfl)⟩
  | cons a rest =>
    rw [hps] at h hd
    simp only [List.all_eq_true] at h ⊢
    intro p hp
    have := h p hp
    cases p with
    | flow q' =>
      simp only [Bool.and_eq_true, decide_eq_true_eq] at this ⊢
      exact ⟨this.1, hd q' (List.mem_filterMap.mpr ⟨Parent.flow q', hp, rfl⟩)⟩
    | loop l t => exact this

theorem filter_length_mono {α} (l : List α) (p p' : α → Bool)
    (himp : ∀ x, p x = true → p' x = true) : (l.filter p).length ≤ (l.filter p').length := by
  induction l with
  | nil => simp
  | cons x l ih =>
    rw [List.filter_cons, List.filter_cons]
    by_cases hp : p x = true
    · rw [if_pos hp, if_pos (himp x hp)]
      simp only [List.length_cons]; omega
    · rw [if_neg hp]
      by_cases hp' : p' x = true
      · rw [if_pos hp']; simp only [List.length_cons]; omega
      · rw [if_neg hp']; exact ih

theorem filter_length_lt {α} (l : List α) (p p' : α → Bool)
    (himp : ∀ x, p x = true → p' x = true) {a : α} (ha : a ∈ l) (h1 : p a = false)
    (h2 : p' a = true) : (l.filter p).length + 1 ≤ (l.filter p').length := by
  induction l with
  | nil => cases ha
  | cons x l ih =>
    rw [List.filter_cons, List.filter_cons]
    rcases List.mem_cons.mp ha with rfl | ha
    · rw [if_neg (by rw [h1]; exact Bool.false_ne_true), if_pos h2]
      have := filter_length_mono l p p' himp
      simp only [List.length_cons]; omega
    · have := ih ha
      by_cases hp : p x = true
      · rw [if_pos hp, if_pos (himp x hp)]
        simp only [List.length_cons]; omega
      · rw [if_neg hp]
        by_cases hp' : p' x = true
        · rw [if_pos hp']; simp only [List.length_cons]; omega
        · rw [if_neg hp']; exact this

/-- how many flows have a strictly smaller rank (for the given decreasing rank `rv`) than id i:
    a bound for the longest-path rank of i -/
def cnt (g : Graph) (rv : Array Nat) (i : Nat) : Nat :=
  (g.flows.filter (fun x => decide (rankOf rv x.id < rankOf rv i))).length

theorem cnt_le (g : Graph) (rv : Array Nat) (i : Nat) : cnt g rv i ≤ g.flows.length :=
  List.length_filter_le _ _

theorem cnt_lt {g : Graph} {rv : Array Nat} {q i : Nat} {fq : FlowRec} (hq : g.flow? q = some fq)
    (hlt : rankOf rv q < rankOf rv i) : cnt g rv q + 1 ≤ cnt g rv i := by
  unfold cnt
  refine filter_length_lt g.flows _ _ ?_ (List.mem_of_find?_eq_some hq) ?_ ?_
  · intro x hx
    simp only [decide_eq_true_eq] at hx ⊢
    omega
  · rw [flow?_id hq]; simp
  · rw [flow?_id hq]; simpa using hlt

/-- the invariant of the relaxation: the rank of i is at most the number of flows below i -/
def Below (g : Graph) (rv rk : Array Nat) : Prop := ∀ i, rankOf rk i ≤ cnt g rv i

theorem below_step {g : Graph} {rv rk : Array Nat} (hv : validRankU g rv = true) {fr : FlowRec}
    (hfr : fr ∈ g.flows) (hb : Below g rv rk) : Below g rv (rankStep g rk fr) := by
  have hvf : validFlowU g rv fr = true := by
    unfold validRankU at hv; rw [List.all_eq_true] at hv; exact hv fr hfr
  have hdeps := deps_of_valid hvf
  intro i
  unfold rankStep
  rw [rankOf_set]
  split
  · next h =>
    rw [← h.1]
    exact foldl_max_le rk _ _ _ (hb fr.id) (fun q hq => by
      obtain ⟨⟨fq, hfq⟩, hlt⟩ := hdeps q hq
      have := cnt_lt hfq hlt
      have := hb q
      omega)
  · exact hb i

theorem below_foldl {g : Graph} {rv : Array Nat} (hv : validRankU g rv = true) (l : List FlowRec)
    (hl : ∀ fr ∈ l, fr ∈ g.flows) (rk : Array Nat) (hb : Below g rv rk) :
    Below g rv (l.foldl (rankStep g) rk) := by
  induction l generalizing rk with
  | nil => exact hb
  | cons a l ih =>
    rw [List.foldl_cons]
    exact ih (fun fr h => hl fr (List.mem_cons_of_mem _ h)) _
      (below_step hv (hl a List.mem_cons_self) hb)

/-! the potential: the sum of all ranks -/

theorem list_sum_pointwise : ∀ (l1 l2 : List Nat), l1.length = l2.length →
    (∀ i, l1.getD i 0 ≤ l2.getD i 0) → l1.sum ≤ l2.sum ∧ (l1 ≠ l2 → l1.sum < l2.sum) := by
  intro l1
  induction l1 with
  | nil =>
    intro l2 hl _
    cases l2 with
    | nil => exact ⟨Nat.le_refl _, fun h => absurd rfl h⟩
    | cons _ _ => simp at hl
  | cons a l1 ih =>
    intro l2 hl h
    cases l2 with
    | nil => simp at hl
    | cons b l2 =>
      simp only [List.length_cons, Nat.add_right_cancel_iff] at hl
      have h0 : a ≤ b := by simpa using h 0
      have hrest : ∀ i, l1.getD i 0 ≤ l2.getD i 0 := by
        intro i; simpa using h (i + 1)
      obtain ⟨i1, i2⟩ := ih l2 hl hrest
      simp only [List.sum_cons]
      refine ⟨by omega, ?_⟩
      intro hne
      by_cases hab : a = b
      · subst hab
        have : l1 ≠ l2 := fun e => hne (by rw [e])
        have := i2 this
        omega
      · omega

theorem list_sum_le_bound : ∀ (l : List Nat) (N : Nat), (∀ i, l.getD i 0 ≤ N) →
    l.sum ≤ l.length * N := by
  intro l N
  induction l with
  | nil => intro _; simp
  | cons a l ih =>
    intro h
    have h0 : a ≤ N := by simpa using h 0
    have := ih (fun i => by simpa using h (i + 1))
    simp only [List.sum_cons, List.length_cons, Nat.succ_mul]
    omega

def rsum (a : Array Nat) : Nat := a.toList.sum

theorem rankOf_toList (a : Array Nat) (i : Nat) : rankOf a i = a.toList.getD i 0 := by
  simp [rankOf]

theorem rsum_lt {a b : Array Nat} (h : RLe a b) (hne : a ≠ b) : rsum a < rsum b := by
  have := list_sum_pointwise a.toList b.toList (by simpa using h.1)
    (fun i => by rw [← rankOf_toList, ← rankOf_toList]; exact h.2 i)
  exact this.2 (fun e => hne (by cases a; cases b; simp_all))

theorem rsum_le_bound {g : Graph} {rv a : Array Nat} (h : Below g rv a) :
    rsum a ≤ a.size * g.flows.length := by
  have := list_sum_le_bound a.toList g.flows.length (fun i => by rw [← rankOf_toList]; exact Nat.le_trans (h i) (cnt_le g rv i))
  unfold rsum
  simpa using this

theorem no_overflow {g : Graph} {rv a : Array Nat} (h : Below g rv a) :
    a.any (fun r => decide (g.flows.length < r)) = false := by
  cases hc : a.any (fun r => decide (g.flows.length < r)) with
  | false => rfl
  | true =>
    obtain ⟨i, hi, hp⟩ := Array.any_eq_true.mp hc
    have := Nat.le_trans (h i) (cnt_le g rv i)
    rw [rankOf_eq_getElem hi] at this
    simp only [decide_eq_true_eq] at hp
    omega

/-- the iteration ends at a fixpoint that is still below the valid rank -/
theorem rankIter_fix {g : Graph} {rv : Array Nat} (hv : validRankU g rv = true) :
    ∀ k rk, Below g rv rk → rk.size * g.flows.length - rsum rk < k →
      rankRound g (rankIter g k rk) = rankIter g k rk ∧ Below g rv (rankIter g k rk) ∧
        (rankIter g k rk).size = rk.size := by
  intro k
  induction k with
  | zero => intro rk _ h; omega
  | succ k ih =>
    intro rk hb hk
    rw [rankIter]
    have hb' : Below g rv (rankRound g rk) := below_foldl hv g.flows (fun _ h => h) rk hb
    have hge : RLe rk (rankRound g rk) := foldl_step_ge g g.flows rk
    simp only [no_overflow hb', Bool.or_false]
    by_cases he : rankRound g rk = rk
    · have : (rankRound g rk == rk) = true := by simp [he]
      rw [if_pos this]
      exact ⟨by rw [he, he], hb', hge.1.symm⟩
    · have : ¬ ((rankRound g rk == rk) = true) := by simpa using he
      rw [if_neg this]
      have h1 := rsum_lt hge (fun e => he e.symm)
      have h2 := rsum_le_bound hb'
      obtain ⟨r1, r2, r3⟩ := ih _ hb' (by rw [← hge.1] at h2 ⊢; omega)
      exact ⟨r1, r2, r3.trans hge.1.symm⟩

theorem le_foldl_max (l : List Nat) (m0 : Nat) :
    m0 ≤ l.foldl max m0 ∧ ∀ x ∈ l, x ≤ l.foldl max m0 := by
  induction l generalizing m0 with
  | nil => exact ⟨Nat.le_refl _, fun x h => by cases h⟩
  | cons a l ih =>
    rw [List.foldl_cons]
    obtain ⟨h1, h2⟩ := ih (max m0 a)
    refine ⟨by omega, ?_⟩
    intro x hx
    rcases List.mem_cons.mp hx with rfl | hx
    · omega
    · exact h2 x hx

/-- COMPLETENESS: if any rank decreases along every call - no bound on its values required -
    the computed rank is valid (and bounded by #flows) -/
theorem ranked_of_validRankU (g : Graph) (rk : Array Nat) (h : validRankU g rk = true) :
    g.ranked = true := by
  unfold Graph.ranked computeRank
  simp only []
  have hb0 : Below g rk (Array.replicate ((g.flows.map (·.id)).foldl max 0 + 1) 0) := by
    intro i
    have : rankOf (Array.replicate ((g.flows.map (·.id)).foldl max 0 + 1) 0) i = 0 := by
      unfold rankOf
      rw [Array.getD_eq_getD_getElem?, Array.getElem?_replicate]
      split <;> rfl
    rw [this]
    exact Nat.zero_le _
  obtain ⟨hfix, hbelow, hsize⟩ := rankIter_fix h
    (((g.flows.map (·.id)).foldl max 0 + 1) * g.flows.length + 1) _ hb0
    (by rw [Array.size_replicate]; omega)
  rw [Array.size_replicate] at hsize
  generalize rankIter g _ _ = rc at hfix hbelow hsize
  have hsteps := steps_of_fixpoint g g.flows rc hfix
  unfold validRankU at h
  unfold validRank
  rw [List.all_eq_true] at h ⊢
  intro fr hfr
  refine valid_transfer (h fr hfr) (Nat.le_trans (hbelow fr.id) (cnt_le g rk fr.id)) ?_
  intro q hq
  have hstep := hsteps fr hfr
  have hv : rankOf (rankStep g rc fr) fr.id = rankOf rc fr.id := by rw [hstep]
  unfold rankStep at hv
  rw [rankOf_set] at hv
  have hin : fr.id < rc.size := by
    have := (le_foldl_max (g.flows.map (·.id)) 0).2 fr.id (List.mem_map_of_mem hfr)
    omega
  rw [if_pos ⟨rfl, hin⟩] at hv
  have := (foldl_max_ge rc (flowDeps g fr) (rankOf rc fr.id)).2 q hq
  omega

theorem validRankU_of_validRank {g : Graph} {rk : Array Nat} (h : validRank g rk = true) :
    validRankU g rk = true := by
  unfold validRank at h
  unfold validRankU
  rw [List.all_eq_true] at h ⊢
  intro fr hfr
  have := h fr hfr
  unfold validFlow at this
  rw [Bool.and_eq_true] at this
  exact this.2

theorem ranked_of_validRank (g : Graph) (rk : Array Nat) (h : validRank g rk = true) :
    g.ranked = true :=
  ranked_of_validRankU g rk (validRankU_of_validRank h)

end SuppModel.Flow
