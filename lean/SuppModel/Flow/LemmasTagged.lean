/-
  The TAGGED pure evaluator, as a derivation relation: `Ev g W R c o` says "the pure evaluator of
  Graph.lean, with the loops `R` cut, gives `o` for the call `c` (some fuel suffices), and every
  loop it CONSULTS on the way - cut or resolved, at any depth - is in `W`".

    (A) `Ev.pure`    it projects to the pure evaluator (the `Ev…` predicates of LemmasPure);
    (B) `Ev.local`   locality: if `R` and `R'` agree on every loop of `W`, the same derivation
                     works under `R'`;
        `Ev.weaken`  `W` may be enlarged.
-/
import SuppModel.Flow.LemmasPure
import SuppModel.Flow.Checked
namespace SuppModel.Flow

/-- the five mutually recursive functions of Graph.lean, as one family of calls -/
inductive Call where
  | fl (f : Nat)
  | pn (fr : FlowRec)
  | pt (ps : List Parent)
  | lp (l tg : Nat)
  | sc (s : Nat)

inductive Out where
  | t (t : Tbl)
  | ts (ts : List Tbl)
  | o (r : Option Tbl)

inductive Ev (g : Graph) (W : List Nat) : List Nat → Call → Out → Prop
  | fl {R f fr p} : g.flow? f = some fr → Ev g W R (.pn fr) (.t p) →
      Ev g W R (.fl f) (.t (ownTable fr.names ++ p))
  | pnRoot {R fr sc} : fr.parents = [] → g.scope? fr.scope = some sc → sc.parent = none →
      Ev g W R (.pn fr) (.t [])
  | pnScope {R fr sc ps outer} : fr.parents = [] → g.scope? fr.scope = some sc →
      sc.parent = some ps → Ev g W R (.sc ps) (.t outer) → Ev g W R (.pn fr) (.t (scopeWrap sc outer))
  | pnFlow {R fr p t} : fr.parents = [Parent.flow p] → Ev g W R (.fl p) (.t t) →
      Ev g W R (.pn fr) (.t t)
  | pnLoop {R fr l tg r} : fr.parents = [Parent.loop l tg] → Ev g W R (.lp l tg) (.o r) →
      Ev g W R (.pn fr) (.t (r.getD []))
  | pnMany {R fr a b rest ts} : fr.parents = a :: b :: rest → Ev g W R (.pt (a :: b :: rest)) (.ts ts) →
      Ev g W R (.pn fr) (.t (mergeTables ts))
  | ptNil {R} : Ev g W R (.pt []) (.ts [])
  | ptFlow {R p rest t ts} : Ev g W R (.fl p) (.t t) → Ev g W R (.pt rest) (.ts ts) →
      Ev g W R (.pt (Parent.flow p :: rest)) (.ts (t :: ts))
  | ptLoop {R l tg rest r ts} : Ev g W R (.lp l tg) (.o r) → Ev g W R (.pt rest) (.ts ts) →
      Ev g W R (.pt (Parent.loop l tg :: rest)) (.ts (consOpt r ts))
  | lpCut {R l tg} : R.contains l = true → l ∈ W → Ev g W R (.lp l tg) (.o none)
  | lpRes {R l tg t} : R.contains l = false → l ∈ W → Ev g W (l :: R) (.fl tg) (.t t) →
      Ev g W R (.lp l tg) (.o (some t))
  | scBuiltin {R s sc} : g.scope? s = some sc → sc.kind = .builtin →
      Ev g W R (.sc s) (.t (builtinTable g))
  | scModule {R s sc t} : g.scope? s = some sc → sc.kind = .module → Ev g W R (.fl sc.final) (.t t) →
      Ev g W R (.sc s) (.t (t ++ globalsTable sc))
  | scFunc {R s sc t} : g.scope? s = some sc → sc.kind = .func → Ev g W R (.fl sc.final) (.t t) →
      Ev g W R (.sc s) (.t t)
  | scCls {R s sc p t} : g.scope? s = some sc → sc.kind = .cls → sc.parent = some p →
      Ev g W R (.sc p) (.t t) → Ev g W R (.sc s) (.t t)

/-- what a derivation says about the pure evaluator -/
def PureOut (g : Graph) (R : List Nat) : Call → Out → Prop
  | .fl f, .t t => EvFl g R f t
  | .pn fr, .t t => EvPn g R fr t
  | .pt ps, .ts ts => EvPt g R ps ts
  | .lp l tg, .o r => EvLp g R l tg r
  | .sc s, .t t => EvSc g R s t
  | _, _ => False

/-- (A) -/
theorem Ev.pure {g W R c o} (h : Ev g W R c o) : PureOut g R c o := by
  induction h with
  | fl hfr _ ih => exact EvFl.mk hfr ih
  | pnRoot hp hsc hpar => exact EvPn.root hp hsc hpar
  | pnScope hp hsc hpar _ ih => exact EvPn.scope hp hsc hpar ih
  | pnFlow hp _ ih => exact EvPn.flow hp ih
  | pnLoop hp _ ih => exact EvPn.loop hp ih
  | pnMany hp _ ih => exact EvPn.many hp ih
  | ptNil => exact EvPt.nil
  | ptFlow _ _ ih1 ih2 => exact EvPt.flow ih1 ih2
  | ptLoop _ _ ih1 ih2 => exact EvPt.loop ih1 ih2
  | lpCut hc _ => exact EvLp.unresolved hc
  | lpRes hc _ _ ih => exact EvLp.resolved hc ih
  | scBuiltin hsc hk => exact EvSc.builtin hsc hk
  | scModule hsc hk _ ih => exact EvSc.module hsc hk ih
  | scFunc hsc hk _ ih => exact EvSc.func hsc hk ih
  | scCls hsc hk hp _ ih => exact EvSc.cls hsc hk hp ih

/-- (B) locality -/
theorem Ev.local {g W R c o} (h : Ev g W R c o) :
    ∀ R' : List Nat, (∀ l ∈ W, R.contains l = R'.contains l) → Ev g W R' c o := by
  induction h with
  | fl hfr _ ih => intro R' hag; exact Ev.fl hfr (ih R' hag)
  | pnRoot hp hsc hpar => intro R' _; exact Ev.pnRoot hp hsc hpar
  | pnScope hp hsc hpar _ ih => intro R' hag; exact Ev.pnScope hp hsc hpar (ih R' hag)
  | pnFlow hp _ ih => intro R' hag; exact Ev.pnFlow hp (ih R' hag)
  | pnLoop hp _ ih => intro R' hag; exact Ev.pnLoop hp (ih R' hag)
  | pnMany hp _ ih => intro R' hag; exact Ev.pnMany hp (ih R' hag)
  | ptNil => intro R' _; exact Ev.ptNil
  | ptFlow _ _ ih1 ih2 => intro R' hag; exact Ev.ptFlow (ih1 R' hag) (ih2 R' hag)
  | ptLoop _ _ ih1 ih2 => intro R' hag; exact Ev.ptLoop (ih1 R' hag) (ih2 R' hag)
  | lpCut hc hw => intro R' hag; exact Ev.lpCut (by rw [← hag _ hw]; exact hc) hw
  | @lpRes R l tg t hc hw _ ih =>
    intro R' hag
    refine Ev.lpRes (by rw [← hag _ hw]; exact hc) hw (ih (l :: R') ?_)
    intro x hx
    rw [List.contains_cons, List.contains_cons, hag x hx]
  | scBuiltin hsc hk => intro R' _; exact Ev.scBuiltin hsc hk
  | scModule hsc hk _ ih => intro R' hag; exact Ev.scModule hsc hk (ih R' hag)
  | scFunc hsc hk _ ih => intro R' hag; exact Ev.scFunc hsc hk (ih R' hag)
  | scCls hsc hk hp _ ih => intro R' hag; exact Ev.scCls hsc hk hp (ih R' hag)

theorem Ev.weaken {g W W' R c o} (h : Ev g W R c o) (hw : ∀ l ∈ W, l ∈ W') : Ev g W' R c o := by
  induction h with
  | fl hfr _ ih => exact Ev.fl hfr ih
  | pnRoot hp hsc hpar => exact Ev.pnRoot hp hsc hpar
  | pnScope hp hsc hpar _ ih => exact Ev.pnScope hp hsc hpar ih
  | pnFlow hp _ ih => exact Ev.pnFlow hp ih
  | pnLoop hp _ ih => exact Ev.pnLoop hp ih
  | pnMany hp _ ih => exact Ev.pnMany hp ih
  | ptNil => exact Ev.ptNil
  | ptFlow _ _ ih1 ih2 => exact Ev.ptFlow ih1 ih2
  | ptLoop _ _ ih1 ih2 => exact Ev.ptLoop ih1 ih2
  | lpCut hc hl => exact Ev.lpCut hc (hw _ hl)
  | lpRes hc hl _ ih => exact Ev.lpRes hc (hw _ hl) ih
  | scBuiltin hsc hk => exact Ev.scBuiltin hsc hk
  | scModule hsc hk _ ih => exact Ev.scModule hsc hk ih
  | scFunc hsc hk _ ih => exact Ev.scFunc hsc hk ih
  | scCls hsc hk hp _ ih => exact Ev.scCls hsc hk hp ih

end SuppModel.Flow
