/-
  The evaluators of Graph.lean and Memo.lean never look at anything of a binding but its `name`
  and `id` - except `bisectRight`, at the queried region only.  `Graph.mapNames ψ` rewrites every
  binding by a map `ψ` that keeps `id` and `name` (`Graph.mapLoc φ` and `Graph.eraseLoc` are
  instances): all five functions, pure and memoised, are invariant under it.
-/
import SuppModel.Flow.Scoping
import SuppModel.Flow.Iso
import SuppModel.Flow.LemmasFuel
namespace SuppModel.Flow

def FlowRec.mapNames (ψ : NameRec → NameRec) (f : FlowRec) : FlowRec :=
  { f with names := f.names.map ψ }
def ScopeRec.mapNames (ψ : NameRec → NameRec) (s : ScopeRec) : ScopeRec :=
  { s with globals := s.globals.map ψ }
def Graph.mapNames (ψ : NameRec → NameRec) (g : Graph) : Graph :=
  { g with flows := g.flows.map (FlowRec.mapNames ψ), scopes := g.scopes.map (ScopeRec.mapNames ψ) }

theorem Graph.mapLoc_eq (φ : Pos → Pos) (g : Graph) : g.mapLoc φ = g.mapNames (NameRec.mapLoc φ) := rfl
theorem Graph.eraseLoc_eq (g : Graph) : g.eraseLoc = g.mapNames NameRec.eraseLoc := rfl

/-- `ψ` keeps what the evaluators read -/
def KeepsIdName (ψ : NameRec → NameRec) : Prop := ∀ n, (ψ n).id = n.id ∧ (ψ n).name = n.name

theorem keeps_mapLoc (φ : Pos → Pos) : KeepsIdName (NameRec.mapLoc φ) := fun _ => ⟨rfl, rfl⟩
theorem keeps_eraseLoc : KeepsIdName NameRec.eraseLoc := fun _ => ⟨rfl, rfl⟩

theorem ownTable_map {ψ : NameRec → NameRec} (hψ : KeepsIdName ψ) (names : List NameRec) :
    ownTable (names.map ψ) = ownTable names := by
  unfold ownTable
  rw [List.foldl_map]
  congr 1
  funext acc n
  rw [(hψ n).1, (hψ n).2]

theorem globalsTable_map {ψ : NameRec → NameRec} (hψ : KeepsIdName ψ) (s : ScopeRec) :
    globalsTable (s.mapNames ψ) = globalsTable s := by
  unfold globalsTable ScopeRec.mapNames
  simp only []
  rw [List.foldl_map]
  congr 1
  funext acc n
  rw [(hψ n).1, (hψ n).2]

theorem flow?_mapNames (ψ : NameRec → NameRec) (g : Graph) (f : Nat) :
    (g.mapNames ψ).flow? f = (g.flow? f).map (FlowRec.mapNames ψ) := by
  unfold Graph.flow? Graph.mapNames
  simp only [List.find?_map]
  rfl

theorem scope?_mapNames (ψ : NameRec → NameRec) (g : Graph) (s : Nat) :
    (g.mapNames ψ).scope? s = (g.scope? s).map (ScopeRec.mapNames ψ) := by
  unfold Graph.scope? Graph.mapNames
  simp only [List.find?_map]
  rfl

theorem builtinTable_mapNames (ψ : NameRec → NameRec) (g : Graph) :
    builtinTable (g.mapNames ψ) = builtinTable g := rfl

/-! ### the pure evaluator -/

structure InvP (ψ : NameRec → NameRec) (g : Graph) (n : Nat) : Prop where
  fl : ∀ R f, flowNames (g.mapNames ψ) n R f = flowNames g n R f
  pn : ∀ R (fr' fr : FlowRec), fr'.parents = fr.parents → fr'.scope = fr.scope →
        parentNames (g.mapNames ψ) n R fr' = parentNames g n R fr
  pt : ∀ R ps, parentTables (g.mapNames ψ) n R ps = parentTables g n R ps
  lp : ∀ R l tg, loopNames (g.mapNames ψ) n R l tg = loopNames g n R l tg
  sc : ∀ R s, scopeNames (g.mapNames ψ) n R s = scopeNames g n R s

theorem invP {ψ : NameRec → NameRec} (hψ : KeepsIdName ψ) (g : Graph) : ∀ n, InvP ψ g n := by
  intro n
  induction n with
  | zero => constructor <;> intros <;> simp [flowNames, parentNames, parentTables, loopNames, scopeNames]
  | succ n ih =>
    constructor
    · intro R f
      rw [flowNames, flowNames, flow?_mapNames]
      cases g.flow? f with
      | none => rfl
      | some fr =>
        simp only [Option.map_some]
        rw [ih.pn R (fr.mapNames ψ) fr rfl rfl]
        show (parentNames g n R fr >>= fun p => pure (ownTable (fr.names.map ψ) ++ p)) = _
        rw [ownTable_map hψ]
    · intro R fr' fr hp hs
      rw [parentNames, parentNames, hp, hs]
      generalize fr.parents = ps
      match ps with
      | [] =>
        simp only []
        rw [scope?_mapNames]
        cases g.scope? fr.scope with
        | none => rfl
        | some sc =>
          simp only [Option.map_some]
          show (match sc.parent with
            | none => some []
            | some ps => do
              let outer ← scopeNames (g.mapNames ψ) n R ps
              match sc.kind with
              | .module => pure (globalsTable (sc.mapNames ψ) ++ outer)
              | .cls => pure outer
              | _ => pure (outer.filter (fun e => !sc.locals.contains e.1))) = _
          cases sc.parent with
          | none => rfl
          | some ps => simp only [ih.sc, globalsTable_map hψ]; rfl
      | [Parent.flow p] => exact ih.fl _ _
      | [Parent.loop l t] => simp only [ih.lp]
      | _ :: _ :: _ => simp only [ih.pt]
    · intro R ps
      match ps with
      | [] => rw [parentTables, parentTables]
      | Parent.flow p :: rest => rw [parentTables, parentTables, ih.fl, ih.pt]
      | Parent.loop l t :: rest => rw [parentTables, parentTables, ih.lp, ih.pt]
    · intro R l tg
      rw [loopNames, loopNames, ih.fl]
    · intro R s
      rw [scopeNames, scopeNames, scope?_mapNames]
      cases g.scope? s with
      | none => rfl
      | some sc =>
        simp only [Option.map_some]
        show (match sc.kind with
          | .builtin => some (builtinTable (g.mapNames ψ))
          | .module => do
            let t ← flowNames (g.mapNames ψ) n R sc.final
            pure (t ++ globalsTable (sc.mapNames ψ))
          | .func => flowNames (g.mapNames ψ) n R sc.final
          | .cls =>
            match sc.parent with
            | some p => scopeNames (g.mapNames ψ) n R p
            | none => none) = _
        simp only [ih.fl, ih.sc, globalsTable_map hψ, builtinTable_mapNames]
        rfl

/-- `parent_names` reads only the predecessors and the scope of a region -/
theorem parentNames_congr (g : Graph) (n : Nat) (R : List Nat) (fr' fr : FlowRec)
    (hp : fr'.parents = fr.parents) (hs : fr'.scope = fr.scope) :
    parentNames g n R fr' = parentNames g n R fr := by
  cases n with
  | zero => simp [parentNames]
  | succ n => rw [parentNames, parentNames, hp, hs]

/-! ### the memoised evaluator -/

structure InvM (ψ : NameRec → NameRec) (g : Graph) (n : Nat) : Prop where
  fl : ∀ m f, mFlowNames (g.mapNames ψ) n m f = mFlowNames g n m f
  pn : ∀ m (fr' fr : FlowRec), fr'.id = fr.id → fr'.parents = fr.parents → fr'.scope = fr.scope →
        mParentNames (g.mapNames ψ) n m fr' = mParentNames g n m fr
  pt : ∀ m ps, mParentTables (g.mapNames ψ) n m ps = mParentTables g n m ps
  lp : ∀ m l tg, mLoopNames (g.mapNames ψ) n m l tg = mLoopNames g n m l tg
  sc : ∀ m s, mScopeNames (g.mapNames ψ) n m s = mScopeNames g n m s

theorem invM {ψ : NameRec → NameRec} (hψ : KeepsIdName ψ) (g : Graph) : ∀ n, InvM ψ g n := by
  intro n
  induction n with
  | zero => constructor <;> intros <;> simp [mFlowNames, mParentNames, mParentTables, mLoopNames, mScopeNames]
  | succ n ih =>
    constructor
    · intro m f
      rw [mFlowNames, mFlowNames, flow?_mapNames]
      cases g.flow? f with
      | none => rfl
      | some fr =>
        simp only [Option.map_some]
        rw [ih.pn m (fr.mapNames ψ) fr rfl rfl rfl]
        show (match (m.slot? (.names f)).filter m.usable with
          | some e => some (m, e.tbl, e.deps)
          | none => do
            let (m1, p, d) ← mParentNames g n m fr
            pure (m1.put (.names f) (ownTable (fr.names.map ψ) ++ p) d, ownTable (fr.names.map ψ) ++ p, d)) = _
        rw [ownTable_map hψ]
        rfl
    · intro m fr' fr hi hp hs
      rw [mParentNames, mParentNames, hi, hp, hs]
      generalize fr.parents = ps
      match ps with
      | [] =>
        simp only []
        rw [scope?_mapNames]
        cases g.scope? fr.scope with
        | none => rfl
        | some sc =>
          simp only [Option.map_some]
          have e1 : (sc.mapNames ψ).parent = sc.parent := rfl
          have e2 : (sc.mapNames ψ).kind = sc.kind := rfl
          have e3 : (sc.mapNames ψ).locals = sc.locals := rfl
          simp only [e1, e2, e3, ih.sc, globalsTable_map hψ]
      | [Parent.flow p] => simp only [ih.fl]
      | [Parent.loop l t] => simp only [ih.lp]
      | _ :: _ :: _ => simp only [ih.pt]
    · intro m ps
      match ps with
      | [] => rw [mParentTables, mParentTables]
      | Parent.flow p :: rest => rw [mParentTables, mParentTables, ih.fl]; simp only [ih.pt]
      | Parent.loop l t :: rest => rw [mParentTables, mParentTables, ih.lp]; simp only [ih.pt]
    · intro m l tg
      rw [mLoopNames, mLoopNames]
      simp only [ih.fl]
    · intro m s
      rw [mScopeNames, mScopeNames, scope?_mapNames]
      cases g.scope? s with
      | none => rfl
      | some sc =>
        simp only [Option.map_some]
        have e1 : (sc.mapNames ψ).parent = sc.parent := rfl
        have e2 : (sc.mapNames ψ).kind = sc.kind := rfl
        have e4 : (sc.mapNames ψ).final = sc.final := rfl
        simp only [e1, e2, e4, ih.fl, ih.sc, globalsTable_map hψ, builtinTable_mapNames]

theorem mParentNames_congr (g : Graph) (n : Nat) (m : Memo) (fr' fr : FlowRec) (hi : fr'.id = fr.id)
    (hp : fr'.parents = fr.parents) (hs : fr'.scope = fr.scope) :
    mParentNames g n m fr' = mParentNames g n m fr := by
  cases n with
  | zero => simp [mParentNames]
  | succ n => rw [mParentNames, mParentNames, hi, hp, hs]

end SuppModel.Flow
