/-
  Same-fuel completeness of the memoised evaluator (Memo.lean) w.r.t. the pure one (Graph.lean).

  The memoised evaluator walks the call tree of the pure evaluator for the same fuel and the same
  set of loops being resolved (the loop ids of `m.resolving` ARE the `R` of the pure evaluator),
  pruned wherever a cache entry is reused.  WHICH calls are made depends on the graph and on R
  only, never on the tables; a pruned call needs no fuel at all, every other call has exactly the
  fuel the pure evaluator has at that node; the pure evaluator answers `some` only if every call
  of its tree does.  So the memoised evaluator never runs out of fuel where the pure one does not.
  Only `resolving` has to be tracked: it is restored by every call.
  (Nothing is claimed here about WHICH table is returned — see LemmasTaggedSim.lean /
  Witness/C04.lean.)
-/
import SuppModel.Flow.LemmasFuel
namespace SuppModel.Flow

/-- the `R` of the pure evaluator -/
def Memo.loops (m : Memo) : List Nat := m.resolving.map Prod.fst

theorem Memo.inProgress_some_contains {m : Memo} {l n : Nat} (h : m.inProgress? l = some n) :
    m.loops.contains l = true := by
  unfold Memo.inProgress? at h
  obtain ⟨r, hr, -⟩ := Option.map_eq_some_iff.mp h
  have h1 := List.mem_of_find?_eq_some hr
  have h2 : r.1 = l := by simpa using List.find?_some hr
  simp only [Memo.loops, List.contains_eq_mem, decide_eq_true_eq]
  rw [← h2]
  exact List.mem_map_of_mem h1

theorem Memo.inProgress_none_ne {m : Memo} {l : Nat} (h : m.inProgress? l = none) :
    ∀ r ∈ m.resolving, r.1 ≠ l := by
  unfold Memo.inProgress? at h
  rw [Option.map_eq_none_iff] at h
  intro r hr
  have := List.find?_eq_none.mp h r hr
  simpa using this

theorem Memo.inProgress_none_contains {m : Memo} {l : Nat} (h : m.inProgress? l = none) :
    m.loops.contains l = false := by
  have hno := Memo.inProgress_none_ne h
  cases hc : m.loops.contains l with
  | false => rfl
  | true =>
    simp only [Memo.loops, List.contains_eq_mem, decide_eq_true_eq] at hc
    obtain ⟨r, hr, rfl⟩ := List.mem_map.mp hc
    exact absurd rfl (hno r hr)

structure Total (g : Graph) (n : Nat) : Prop where
  fl : ∀ (m : Memo) f t, flowNames g n m.loops f = some t →
        ∃ r, mFlowNames g n m f = some r ∧ r.1.resolving = m.resolving
  pn : ∀ (m : Memo) fr t, parentNames g n m.loops fr = some t →
        ∃ r, mParentNames g n m fr = some r ∧ r.1.resolving = m.resolving
  pt : ∀ (m : Memo) ps t, parentTables g n m.loops ps = some t →
        ∃ r, mParentTables g n m ps = some r ∧ r.1.resolving = m.resolving
  lp : ∀ (m : Memo) l tg t, loopNames g n m.loops l tg = some t →
        ∃ r, mLoopNames g n m l tg = some r ∧ r.1.resolving = m.resolving
  sc : ∀ (m : Memo) s t, scopeNames g n m.loops s = some t →
        ∃ r, mScopeNames g n m s = some r ∧ r.1.resolving = m.resolving

theorem Memo.loops_congr {m m1 : Memo} (h : m1.resolving = m.resolving) : m1.loops = m.loops := by
  unfold Memo.loops; rw [h]

theorem total_all (g : Graph) : ∀ n, Total g n := by
  intro n
  induction n with
  | zero => constructor <;> intros <;> simp_all [flowNames, parentNames, parentTables, loopNames, scopeNames]
  | succ n ih =>
    constructor
    · intro m f t h
      rw [flowNames] at h
      rw [mFlowNames]
      cases hfind : (m.slot? (.names f)).filter m.usable with
      | some e => exact ⟨(m, e.tbl, e.deps), rfl, rfl⟩
      | none =>
        simp only []
        cases hfr : g.flow? f with
        | none => simp [hfr] at h
        | some fr =>
          simp only [hfr] at h ⊢
          obtain ⟨p, hp, -⟩ := bind_eq_some' h
          obtain ⟨⟨m1, p', d'⟩, hr, hres⟩ := ih.pn m fr p hp
          refine ⟨((m1.put (.names f) (ownTable fr.names ++ p') d'), ownTable fr.names ++ p', d'), ?_, ?_⟩
          · simp [hr]
          · exact hres
    · intro m fr t h
      rw [parentNames] at h
      rw [mParentNames]
      cases hfind : (m.slot? (.pnames fr.id)).filter m.usable with
      | some e => exact ⟨(m, e.tbl, e.deps), rfl, rfl⟩
      | none =>
        simp only []
        generalize fr.parents = ps at h ⊢
        match ps with
        | [] =>
          simp only [] at h ⊢
          cases hsc : g.scope? fr.scope with
          | none => simp [hsc] at h
          | some sc =>
            simp only [hsc] at h ⊢
            cases hpar : sc.parent with
            | none => exact ⟨_, rfl, rfl⟩
            | some ps =>
              simp only [hpar] at h ⊢
              obtain ⟨o, ho, -⟩ := bind_eq_some' h
              obtain ⟨⟨m1, o', d'⟩, hr, hres⟩ := ih.sc m ps o ho
              have hres : m1.resolving = m.resolving := hres
              cases hk : sc.kind <;> simp [hr, hres, Memo.put]
        | [Parent.flow p] =>
          simp only [] at h ⊢
          obtain ⟨⟨m1, o', d'⟩, hr, hres⟩ := ih.fl m p t h
          have hres : m1.resolving = m.resolving := hres
          simp [hr, hres, Memo.put]
        | [Parent.loop l tg] =>
          simp only [] at h ⊢
          obtain ⟨o, ho, -⟩ := bind_eq_some' h
          obtain ⟨⟨m1, o', d'⟩, hr, hres⟩ := ih.lp m l tg o ho
          have hres : m1.resolving = m.resolving := hres
          simp [hr, hres, Memo.put]
        | _ :: _ :: _ =>
          simp only [] at h ⊢
          obtain ⟨o, ho, -⟩ := bind_eq_some' h
          obtain ⟨⟨m1, o', d'⟩, hr, hres⟩ := ih.pt m _ o ho
          have hres : m1.resolving = m.resolving := hres
          simp [hr, hres, Memo.put]
    · intro m ps t h
      match ps with
      | [] => rw [mParentTables]; exact ⟨(m, [], []), rfl, rfl⟩
      | Parent.flow p :: rest =>
        rw [parentTables] at h
        rw [mParentTables]
        obtain ⟨a, ha, h2⟩ := bind_eq_some' h
        obtain ⟨b, hb, -⟩ := bind_eq_some' h2
        obtain ⟨⟨m1, a', d1⟩, hr1, hres1⟩ := ih.fl m p a ha
        rw [← Memo.loops_congr hres1] at hb
        obtain ⟨⟨m2, b', d2⟩, hr2, hres2⟩ := ih.pt m1 rest b hb
        exact ⟨(m2, a' :: b', d1.union d2), by simp [hr1, hr2], hres2.trans hres1⟩
      | Parent.loop l tg :: rest =>
        rw [parentTables] at h
        rw [mParentTables]
        obtain ⟨a, ha, h2⟩ := bind_eq_some' h
        obtain ⟨b, hb, -⟩ := bind_eq_some' h2
        obtain ⟨⟨m1, a', d1⟩, hr1, hres1⟩ := ih.lp m l tg a ha
        rw [← Memo.loops_congr hres1] at hb
        obtain ⟨⟨m2, b', d2⟩, hr2, hres2⟩ := ih.pt m1 rest b hb
        cases a' with
        | none => exact ⟨(m2, b', d1.union d2), by simp [hr1, hr2], hres2.trans hres1⟩
        | some v => exact ⟨(m2, v :: b', d1.union d2), by simp [hr1, hr2], hres2.trans hres1⟩
    · intro m l tg t h
      rw [loopNames] at h
      rw [mLoopNames]
      cases hip : m.inProgress? l with
      | some k => exact ⟨(m, none, [(l, k)]), rfl, rfl⟩
      | none =>
        simp only []
        have hno := Memo.inProgress_none_ne hip
        have hc := Memo.inProgress_none_contains hip
        rw [if_neg (by rw [hc]; exact Bool.false_ne_true)] at h
        cases hfind : (m.slot? (.loop l tg)).filter m.usable with
        | some e => exact ⟨(m, some e.tbl, e.deps), rfl, rfl⟩
        | none =>
          simp only []
          obtain ⟨a, ha, -⟩ := bind_eq_some' h
          obtain ⟨⟨m2, a', d2⟩, hr, hres⟩ :=
            ih.fl { m with started := m.started + 1, resolving := (l, m.started + 1) :: m.resolving } tg a ha
          have hres : m2.resolving = (l, m.started + 1) :: m.resolving := hres
          refine ⟨_, by simp [hr]; rfl, ?_⟩
          show List.filter (fun r => !decide (r.1 = l)) m2.resolving = m.resolving
          rw [hres, List.filter_cons]
          simp only [decide_true, Bool.not_true, Bool.false_eq_true, if_false]
          rw [List.filter_eq_self]
          intro r hr
          simpa using hno r hr
    · intro m s t h
      rw [scopeNames] at h
      rw [mScopeNames]
      cases hsc : g.scope? s with
      | none => simp [hsc] at h
      | some sc =>
        simp only [hsc] at h ⊢
        cases hk : sc.kind with
        | builtin => exact ⟨(m, builtinTable g, []), rfl, rfl⟩
        | module =>
          simp only [hk] at h ⊢
          obtain ⟨a, ha, -⟩ := bind_eq_some' h
          obtain ⟨⟨m1, a', d1⟩, hr, hres⟩ := ih.fl m sc.final a ha
          exact ⟨(m1, a' ++ globalsTable sc, d1), by simp [hr], hres⟩
        | func => simp only [hk] at h ⊢; exact ih.fl m sc.final t h
        | cls =>
          simp only [hk] at h ⊢
          cases hp : sc.parent with
          | none => simp [hp] at h
          | some p => simp only [hp] at h ⊢; exact ih.sc m p t h

theorem mNamesAt_total (g : Graph) (n : Nat) (m : Memo) (hm : m.resolving = []) (f : Nat) (pos : Pos)
    (x : String) (h : (lookupAt g n f pos x).isSome) :
    ∃ r, mNamesAt g n m f pos = some r ∧ r.1.resolving = [] := by
  unfold lookupAt namesAt at h
  unfold mNamesAt
  cases hfr : g.flow? f with
  | none => simp [hfr] at h
  | some fr =>
    simp only [hfr] at h ⊢
    cases hp : parentNames g n [] fr with
    | none => simp [hp] at h
    | some p =>
      have hl : m.loops = [] := by unfold Memo.loops; rw [hm]; rfl
      rw [← hl] at hp
      obtain ⟨⟨m1, p', d'⟩, hr, hres⟩ := (total_all g n).pn m fr p hp
      have hres : m1.resolving = m.resolving := hres
      exact ⟨(m1, _), by simp [hr]; rfl, by simp [hres, hm]⟩

theorem runQueries_total (g : Graph) (n : Nat) (qs : List Query) :
    ∀ (m : Memo), m.resolving = [] →
      (∀ q' ∈ qs, (lookupAt g n q'.flow q'.pos q'.key).isSome) →
      ∀ (i : Nat) (q : Query), qs[i]? = some q → ((runQueries g n m qs)[i]?.bind id).isSome := by
  induction qs with
  | nil => intro m _ _ i q hq; simp at hq
  | cons q0 qs ih =>
    intro m hm hall i q hq
    obtain ⟨⟨m1, t⟩, hr, hres⟩ := mNamesAt_total g n m hm q0.flow q0.pos q0.key (hall q0 (by simp))
    have hres : m1.resolving = [] := hres
    rw [runQueries, hr]
    cases i with
    | zero => simp
    | succ i =>
      simp only [List.getElem?_cons_succ] at hq ⊢
      exact ih m1 hres (fun q' hq' => hall q' (by simp [hq'])) i q hq

end SuppModel.Flow
