/-
  RANKED graphs: the flow graph is acyclic once loop back edges are ignored, and everything it
  refers to exists.  Decidable per graph (`Graph.ranked`, evaluated by the driver on every real
  graph); SuppModel/Flow/LemmasRank.lean proves that the evaluator of Graph.lean then answers
  every query, with the explicit fuel `Graph.rankFuel`.

  What `flowNames f` calls, apart from loop edges:
    * the `.flow q` predecessors of f;
    * for a ROOT flow (no predecessors): the `names` of the parent of its scope, which is the
      FINAL flow of the first module/function scope on the parent chain (class scopes delegate
      to their parent, the builtin scope ends the chain) - `scopeTarget`.
  A rank is a map flow id ↦ Nat (an array indexed by id) that strictly decreases along these
  calls; a loop edge `.loop l t` may go anywhere (its target must exist): following it adds l to
  the set of cut loops, which can happen only once per loop.
-/
import SuppModel.Flow.Graph

namespace SuppModel.Flow

/-- where `scopeNames s` ends up: `some (some q)` = the table of flow q, `some none` = the builtin
    table, `none` = malformed (missing scope, class scope without parent, chain too long) -/
def scopeTarget (g : Graph) : Nat → Nat → Option (Option Nat)
  | 0, _ => none
  | fuel + 1, s =>
    match g.scope? s with
    | none => none
    | some sc =>
      match sc.kind with
      | .builtin => some none
      | .module => some (some sc.final)
      | .func => some (some sc.final)
      | .cls =>
        match sc.parent with
        | some p => scopeTarget g fuel p
        | none => none

/-- where a root flow's `parent_names` ends up (same convention) -/
def rootTarget (g : Graph) (fr : FlowRec) : Option (Option Nat) :=
  match g.scope? fr.scope with
  | none => none
  | some sc =>
    match sc.parent with
    | none => some none
    | some ps => scopeTarget g (g.scopes.length + 1) ps

def rankOf (rk : Array Nat) (f : Nat) : Nat := rk.getD f 0

/-- the rank condition at one flow: what it needs exists and has a smaller rank -/
def validFlowU (g : Graph) (rk : Array Nat) (fr : FlowRec) : Bool :=
  match fr.parents with
  | [] =>
    match rootTarget g fr with
    | none => false
    | some none => true
    | some (some q) => (g.flow? q).isSome && decide (rankOf rk q < rankOf rk fr.id)
  | ps =>
    ps.all (fun p =>
      match p with
      | .flow q => (g.flow? q).isSome && decide (rankOf rk q < rankOf rk fr.id)
      | .loop _ t => (g.flow? t).isSome)

/-- ... and the rank is at most #flows (what the fuel bound uses) -/
def validFlow (g : Graph) (rk : Array Nat) (fr : FlowRec) : Bool :=
  decide (rankOf rk fr.id ≤ g.flows.length) && validFlowU g rk fr

/-- `rk` decreases along every call, without any bound on its values (LemmasRank.lean: then the
    computed rank is valid AND bounded, `ranked_of_validRankU`) -/
def validRankU (g : Graph) (rk : Array Nat) : Bool := g.flows.all (validFlowU g rk)

/-- `rk` is a rank for `g` -/
def validRank (g : Graph) (rk : Array Nat) : Bool := g.flows.all (validFlow g rk)

/-! ### computing a rank: longest path, by relaxation -/

/-- the flows whose tables `fr` needs, loop edges ignored -/
def flowDeps (g : Graph) (fr : FlowRec) : List Nat :=
  match fr.parents with
  | [] =>
    match rootTarget g fr with
    | some (some q) => [q]
    | _ => []
  | ps => ps.filterMap (fun p => match p with | .flow q => some q | .loop _ _ => none)

/-- one relaxation step: the rank of `fr.id` is raised to 1 + the ranks of what `fr` needs -/
def rankStep (g : Graph) (rk : Array Nat) (fr : FlowRec) : Array Nat :=
  rk.setIfInBounds fr.id ((flowDeps g fr).foldl (fun m q => max m (rankOf rk q + 1)) (rankOf rk fr.id))

/-- one sweep over the flows, in list order, updating in place -/
def rankRound (g : Graph) (rk : Array Nat) : Array Nat := g.flows.foldl (rankStep g) rk

/-- sweep until nothing changes (or a rank exceeds #flows: then there is a cycle, give up) -/
def rankIter (g : Graph) : Nat → Array Nat → Array Nat
  | 0, rk => rk
  | k + 1, rk =>
    let rk' := rankRound g rk
    if rk' == rk || rk'.any (fun r => decide (g.flows.length < r)) then rk' else rankIter g k rk'

/-- longest-path ranks, the least solution of the rank inequalities.  The fuel is never used up
    (every sweep but the last raises a rank, and ranks stay ≤ #flows); on a graph whose flows are
    listed in program order one or two sweeps suffice -/
def computeRank (g : Graph) : Array Nat :=
  let size := (g.flows.map (·.id)).foldl max 0 + 1
  rankIter g (size * g.flows.length + 1) (Array.replicate size 0)

/-- the graph is acyclic once loop back edges are ignored, and closed under reference -/
def Graph.ranked (g : Graph) : Bool := validRank g (computeRank g)

/-! ### the fuel that suffices -/

/-- all loop edges of the graph, as loop ids -/
def Graph.loopIds (g : Graph) : List Nat :=
  g.flows.flatMap (fun fr => fr.parents.filterMap (fun p => match p with | .loop l _ => some l | .flow _ => none))

/-- fuel per hop of the measure: predecessors of a join + class scopes of a chain + constant -/
def Graph.hopFuel (g : Graph) : Nat := (g.flows.map (·.parents.length)).sum + g.scopes.length + 6

/-- enough fuel for every query on a ranked graph -/
def Graph.rankFuel (g : Graph) : Nat :=
  g.hopFuel * ((g.loopIds.length + 1) * (g.flows.length + 1))

end SuppModel.Flow
