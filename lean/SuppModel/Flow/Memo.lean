/-
  The evaluator AS IT RUNS: the caches of scope.py made explicit, so that a HISTORY of
  queries is a fold over an explicit memo state.  C04 says the memo never changes an
  answer: every query returns what the pure evaluator `flowNames g · [] f` of Graph.lean
  returns from a cold start.

  Python side (scope.py, `loop_tracked`, `loop_cached_property`, `LoopFlow`):
    * every table (`Flow.names`, `Flow.parent_names`, `LoopFlow.names`) has ONE cache slot,
      on the object, holding `(value, deps)`; `deps` is the set of loop resolutions
      `(loop, number)` whose cut back edge the computation met, directly or through the
      tables it was built from;
    * a cached table is reused iff every resolution in its `deps` is still in progress
      (`loop._resolving == number`); its `deps` are then added to the caller's;
    * otherwise it is recomputed and the slot overwritten;
    * `LoopFlow.names`: UNRESOLVED (recording `(self, number)` as a dependency of the
      caller) while it is being resolved; else the cache slot as above, computed by starting
      resolution number `started + 1`, evaluating `parent.names`, ending the resolution; the
      loop's own resolution is dropped from the `deps` it is stored with.
-/
import SuppModel.Flow.Graph

namespace SuppModel.Flow

inductive Key where
  | names (f : Nat)
  | pnames (f : Nat)
  | loop (l : Nat) (target : Nat)
  deriving DecidableEq, Repr

/-- a loop resolution: (loop id, its number) -/
abbrev Res := Nat × Nat
abbrev Deps := List Res

def Deps.union (a b : Deps) : Deps := b.foldl (fun acc d => if acc.contains d then acc else acc ++ [d]) a

structure Entry where
  key : Key
  tbl : Tbl
  deps : Deps
  deriving Repr

structure Memo where
  entries : List Entry := []     -- cache slots; the FIRST entry of a key is its current content
  resolving : List Res := []     -- resolutions in progress, innermost first
  started : Nat := 0             -- `LoopFlow.started`
  deriving Repr

def Memo.slot? (m : Memo) (k : Key) : Option Entry := m.entries.find? (fun e => e.key = k)

/-- every resolution the entry depends on is still in progress -/
def Memo.usable (m : Memo) (e : Entry) : Bool := e.deps.all (fun d => m.resolving.contains d)

def Memo.put (m : Memo) (k : Key) (t : Tbl) (d : Deps) : Memo :=
  { m with entries := ⟨k, t, d⟩ :: m.entries }

/-- the number of the resolution of loop `l` in progress, if any (`loop._resolving`) -/
def Memo.inProgress? (m : Memo) (l : Nat) : Option Nat :=
  (m.resolving.find? (fun r => r.1 = l)).map Prod.snd

mutual
def mFlowNames (g : Graph) : Nat → Memo → Nat → Option (Memo × Tbl × Deps)
  | 0, _, _ => none
  | fuel + 1, m, f =>
    match (m.slot? (.names f)).filter m.usable with
    | some e => some (m, e.tbl, e.deps)
    | none =>
      match g.flow? f with
      | none => none
      | some fr => do
        let (m1, p, d) ← mParentNames g fuel m fr
        let t := ownTable fr.names ++ p
        pure (m1.put (.names f) t d, t, d)
def mParentNames (g : Graph) : Nat → Memo → FlowRec → Option (Memo × Tbl × Deps)
  | 0, _, _ => none
  | fuel + 1, m, fr =>
    match (m.slot? (.pnames fr.id)).filter m.usable with
    | some e => some (m, e.tbl, e.deps)
    | none => do
      let (m1, t, d) ← (match fr.parents with
        | [] =>
          match g.scope? fr.scope with
          | none => none
          | some sc =>
            match sc.parent with
            | none => some (m, ([] : Tbl), ([] : Deps))
            | some ps => do
              let (m1, outer, d) ← mScopeNames g fuel m ps
              match sc.kind with
              | .module => pure (m1, globalsTable sc ++ outer, d)
              | .cls => pure (m1, outer, d)
              | _ => pure (m1, outer.filter (fun e => !sc.locals.contains e.1), d)
        | [Parent.flow p] => mFlowNames g fuel m p
        | [Parent.loop l t] => do
          let (m1, r, d) ← mLoopNames g fuel m l t
          pure (m1, r.getD [], d)
        | ps => do
          let (m1, tables, d) ← mParentTables g fuel m ps
          pure (m1, mergeTables tables, d))
      pure (m1.put (.pnames fr.id) t d, t, d)
def mParentTables (g : Graph) : Nat → Memo → List Parent → Option (Memo × List Tbl × Deps)
  | 0, _, _ => none
  | _ + 1, m, [] => some (m, [], [])
  | fuel + 1, m, Parent.flow p :: rest => do
    let (m1, t, d1) ← mFlowNames g fuel m p
    let (m2, ts, d2) ← mParentTables g fuel m1 rest
    pure (m2, t :: ts, d1.union d2)
  | fuel + 1, m, Parent.loop l t :: rest => do
    let (m1, r, d1) ← mLoopNames g fuel m l t
    let (m2, ts, d2) ← mParentTables g fuel m1 rest
    pure (m2, (match r with | some t => t :: ts | none => ts), d1.union d2)
def mLoopNames (g : Graph) : Nat → Memo → Nat → Nat → Option (Memo × Option Tbl × Deps)
  | 0, _, _, _ => none
  | fuel + 1, m, l, target =>
    match m.inProgress? l with
    | some n => some (m, none, [(l, n)])
    | none =>
      match (m.slot? (.loop l target)).filter m.usable with
      | some e => some (m, some e.tbl, e.deps)
      | none => do
        let n := m.started + 1
        let m1 : Memo := { m with started := n, resolving := (l, n) :: m.resolving }
        let (m2, t, d) ← mFlowNames g fuel m1 target
        let m3 : Memo := { m2 with resolving := m2.resolving.filter (fun r => r.1 ≠ l) }
        let d' := d.filter (fun r => r.1 ≠ l)
        pure (m3.put (.loop l target) t d', some t, d')
def mScopeNames (g : Graph) : Nat → Memo → Nat → Option (Memo × Tbl × Deps)
  | 0, _, _ => none
  | fuel + 1, m, s =>
    match g.scope? s with
    | none => none
    | some sc =>
      match sc.kind with
      | .builtin => some (m, builtinTable g, [])
      | .module => do
        let (m1, t, d) ← mFlowNames g fuel m sc.final
        pure (m1, t ++ globalsTable sc, d)
      | .func => mFlowNames g fuel m sc.final
      | .cls =>
        match sc.parent with
        | some p => mScopeNames g fuel m p
        | none => none
end

/-- one `names_at` query against a memo state -/
def mNamesAt (g : Graph) (fuel : Nat) (m : Memo) (f : Nat) (pos : Pos) : Option (Memo × Tbl) :=
  match g.flow? f with
  | none => none
  | some fr => do
    let (m1, p, _) ← mParentNames g fuel m fr
    pure (m1, ownTable (fr.names.take (bisectRight fr.names pos)) ++ p)

structure Query where
  flow : Nat
  pos : Pos
  key : String
  deriving Repr

/-- a history of queries on one analysed module: the answers, in order -/
def runQueries (g : Graph) (fuel : Nat) : Memo → List Query → List (Option (Option Val))
  | _, [] => []
  | m, q :: qs =>
    match mNamesAt g fuel m q.flow q.pos with
    | none => none :: runQueries g fuel m qs
    | some (m1, t) => some (t.get? q.key) :: runQueries g fuel m1 qs

end SuppModel.Flow
