/-
  C13: the evaluator only COMPARES positions.
    * `bisectGo_congr`: the index depends on the comparisons only;
    * `namesAt_core` / `mNamesAt_core`: two graphs that are equal once positions are erased give
      the same table for a query as soon as `bisectRight` gives the same index in the queried
      region (everything else ignores `loc`: LemmasScopingMap.lean);
    * binary search on a region sorted by `Pos.le`, and `insertLoc` keeps it sorted.
-/
import SuppModel.Flow.LemmasScopingMap
namespace SuppModel.Flow

theorem bisectGo_congr (a b : Array NameRec) (p q : Pos) (n : Nat)
    (h : ∀ i, i < n → Pos.lt p (a[i]!).loc = Pos.lt q (b[i]!).loc) :
    ∀ fuel lo hi, hi ≤ n → bisectGo a p fuel lo hi = bisectGo b q fuel lo hi := by
  intro fuel
  induction fuel with
  | zero => intro lo hi _; rfl
  | succ k ih =>
    intro lo hi hhi
    rw [bisectGo, bisectGo]
    by_cases hl : lo < hi
    · simp only [hl, if_true]
      have hm : (lo + hi) / 2 < n := by omega
      rw [h _ hm]
      split
      · exact ih _ _ (by omega)
      · exact ih _ _ hhi
    · simp only [hl, if_false]

theorem bisectRight_congr (names1 names2 : List NameRec) (p q : Pos)
    (hlen : names2.length = names1.length)
    (h : ∀ i, i < names1.length → Pos.lt p (names1.toArray[i]!).loc = Pos.lt q (names2.toArray[i]!).loc) :
    bisectRight names1 p = bisectRight names2 q := by
  unfold bisectRight
  rw [hlen]
  exact bisectGo_congr _ _ p q names1.length h _ _ _ (Nat.le_refl _)

theorem bisectRight_map (φ : Pos → Pos) (names : List NameRec) (pos : Pos)
    (h : OrderPreserving φ (pos :: names.map (·.loc))) :
    bisectRight (names.map (NameRec.mapLoc φ)) (φ pos) = bisectRight names pos := by
  symm
  refine bisectRight_congr names _ pos (φ pos) (by simp) ?_
  intro i hi
  have e : ((names.map (NameRec.mapLoc φ)).toArray[i]!).loc = φ (names.toArray[i]!).loc := by
    simp [hi, NameRec.mapLoc]
  rw [e]
  have hmem : (names.toArray[i]!).loc ∈ pos :: names.map (·.loc) := by
    have : names.toArray[i]! = names[i] := by simp [hi]
    rw [this]
    exact List.mem_cons_of_mem _ (List.mem_map_of_mem (List.getElem_mem hi))
  exact (h pos (List.mem_cons_self) _ hmem).symm

theorem insertLoc_map (φ : Pos → Pos) (names : List NameRec) (n : NameRec)
    (h : OrderPreserving φ (n.loc :: names.map (·.loc))) :
    insertLoc (names.map (NameRec.mapLoc φ)) (NameRec.mapLoc φ n) =
      (insertLoc names n).map (NameRec.mapLoc φ) := by
  unfold insertLoc
  rw [List.getLast?_map]
  cases hl : names.getLast? with
  | none => rfl
  | some l =>
    simp only [Option.map_some]
    have hlm : l ∈ names := List.mem_of_getLast? hl
    have e1 : Pos.lt (NameRec.mapLoc φ l).loc (NameRec.mapLoc φ n).loc = Pos.lt l.loc n.loc :=
      h l.loc (List.mem_cons_of_mem _ (List.mem_map_of_mem hlm)) n.loc List.mem_cons_self
    rw [e1]
    have e2 : (NameRec.mapLoc φ n).loc = φ n.loc := rfl
    rw [e2, bisectRight_map φ names n.loc h]
    split
    · simp
    · simp [List.map_take, List.map_drop]

/-! ### two graphs of the same shape -/

theorem Graph.ext' {a b : Graph} (h1 : a.flows = b.flows) (h2 : a.scopes = b.scopes)
    (h3 : a.builtins = b.builtins) : a = b := by
  cases a; cases b; simp_all

theorem sameShape_eq {g1 g2 : Graph} (h : sameShape g1 g2 = true) : g1.eraseLoc = g2.eraseLoc := by
  unfold sameShape at h
  simp only [Bool.and_eq_true, decide_eq_true_eq] at h
  exact Graph.ext' h.1.1 h.1.2 h.2

theorem mapNames_mapNames (ψ ψ' : NameRec → NameRec) (g : Graph) :
    (g.mapNames ψ).mapNames ψ' = g.mapNames (ψ' ∘ ψ) := by
  unfold Graph.mapNames FlowRec.mapNames ScopeRec.mapNames
  simp [List.map_map, Function.comp_def]

theorem eraseLoc_mapLoc (φ : Pos → Pos) (g : Graph) : (g.mapLoc φ).eraseLoc = g.eraseLoc := by
  rw [Graph.eraseLoc_eq, Graph.mapLoc_eq, mapNames_mapNames, Graph.eraseLoc_eq]
  rfl

/-- what equal shapes say about one flow -/
theorem flow?_of_shape {g1 g2 : Graph} (hE : g1.eraseLoc = g2.eraseLoc) (f : Nat) :
    (g1.flow? f = none ∧ g2.flow? f = none) ∨
    ∃ fr1 fr2, g1.flow? f = some fr1 ∧ g2.flow? f = some fr2 ∧ fr2.id = fr1.id ∧
      fr2.parents = fr1.parents ∧ fr2.scope = fr1.scope ∧
      fr2.names.map NameRec.eraseLoc = fr1.names.map NameRec.eraseLoc := by
  have h := congrArg (fun g => g.flow? f) hE
  simp only [Graph.eraseLoc_eq, flow?_mapNames] at h
  cases h1 : g1.flow? f with
  | none =>
    cases h2 : g2.flow? f with
    | none => exact Or.inl ⟨rfl, rfl⟩
    | some fr2 => simp [h1, h2] at h
  | some fr1 =>
    cases h2 : g2.flow? f with
    | none => simp [h1, h2] at h
    | some fr2 =>
      simp only [h1, h2, Option.map_some, Option.some.injEq] at h
      refine Or.inr ⟨fr1, fr2, rfl, rfl, ?_, ?_, ?_, ?_⟩
      · exact (congrArg FlowRec.id h).symm
      · exact (congrArg FlowRec.parents h).symm
      · exact (congrArg FlowRec.scope h).symm
      · exact (congrArg FlowRec.names h).symm

theorem ownTable_take_of_erase {names1 names2 : List NameRec} (k : Nat)
    (h : names2.map NameRec.eraseLoc = names1.map NameRec.eraseLoc) :
    ownTable (names2.take k) = ownTable (names1.take k) := by
  rw [← ownTable_map keeps_eraseLoc (names2.take k), ← ownTable_map keeps_eraseLoc (names1.take k),
    List.map_take, List.map_take, h]

theorem parentNames_of_shape {g1 g2 : Graph} (hE : g1.eraseLoc = g2.eraseLoc) (n : Nat) (R : List Nat)
    (fr1 fr2 : FlowRec) (hp : fr2.parents = fr1.parents) (hs : fr2.scope = fr1.scope) :
    parentNames g2 n R fr2 = parentNames g1 n R fr1 := by
  rw [← (invP keeps_eraseLoc g2 n).pn R fr2 fr2 rfl rfl, ← Graph.eraseLoc_eq, ← hE, Graph.eraseLoc_eq,
    (invP keeps_eraseLoc g1 n).pn R fr2 fr1 hp hs]

theorem mParentNames_of_shape {g1 g2 : Graph} (hE : g1.eraseLoc = g2.eraseLoc) (n : Nat) (m : Memo)
    (fr1 fr2 : FlowRec) (hi : fr2.id = fr1.id) (hp : fr2.parents = fr1.parents)
    (hs : fr2.scope = fr1.scope) :
    mParentNames g2 n m fr2 = mParentNames g1 n m fr1 := by
  rw [← (invM keeps_eraseLoc g2 n).pn m fr2 fr2 rfl rfl rfl, ← Graph.eraseLoc_eq, ← hE,
    Graph.eraseLoc_eq, (invM keeps_eraseLoc g1 n).pn m fr2 fr1 hi hp hs]

/-- same shape + same bisect index in the queried region ⇒ same table -/
theorem namesAt_core {g1 g2 : Graph} (hE : g1.eraseLoc = g2.eraseLoc) (n : Nat) (R : List Nat)
    (f : Nat) (pos1 pos2 : Pos)
    (hB : ∀ fr1 fr2, g1.flow? f = some fr1 → g2.flow? f = some fr2 →
      bisectRight fr2.names pos2 = bisectRight fr1.names pos1) :
    namesAt g2 n R f pos2 = namesAt g1 n R f pos1 := by
  unfold namesAt
  rcases flow?_of_shape hE f with ⟨h1, h2⟩ | ⟨fr1, fr2, h1, h2, -, hp, hs, hn⟩
  · rw [h1, h2]
  · rw [h1, h2]
    simp only []
    rw [parentNames_of_shape hE n R fr1 fr2 hp hs, hB fr1 fr2 h1 h2, ownTable_take_of_erase _ hn]

theorem mNamesAt_core {g1 g2 : Graph} (hE : g1.eraseLoc = g2.eraseLoc) (n : Nat) (m : Memo)
    (f : Nat) (pos1 pos2 : Pos)
    (hB : ∀ fr1 fr2, g1.flow? f = some fr1 → g2.flow? f = some fr2 →
      bisectRight fr2.names pos2 = bisectRight fr1.names pos1) :
    mNamesAt g2 n m f pos2 = mNamesAt g1 n m f pos1 := by
  unfold mNamesAt
  rcases flow?_of_shape hE f with ⟨h1, h2⟩ | ⟨fr1, fr2, h1, h2, hi, hp, hs, hn⟩
  · rw [h1, h2]
  · rw [h1, h2]
    simp only []
    rw [mParentNames_of_shape hE n m fr1 fr2 hi hp hs, hB fr1 fr2 h1 h2, ownTable_take_of_erase _ hn]

/-- what the driver's `sameOrder` test says -/
theorem sameOrder_spec {ps qs : List Pos} (h : sameOrder ps qs = true) :
    ps.length = qs.length ∧ ∀ (i j : Nat) (hi : i < ps.length) (hj : j < ps.length)
      (hi' : i < qs.length) (hj' : j < qs.length), Pos.lt ps[i] ps[j] = Pos.lt qs[i] qs[j] := by
  unfold sameOrder at h
  simp only [Bool.and_eq_true, beq_iff_eq, List.all_eq_true] at h
  obtain ⟨hl, hall⟩ := h
  refine ⟨hl, ?_⟩
  intro i j hi hj hi' hj'
  have hzi : i < (List.zip ps qs).length := by rw [List.length_zip]; omega
  have hzj : j < (List.zip ps qs).length := by rw [List.length_zip]; omega
  have := hall _ (List.getElem_mem hzi) _ (List.getElem_mem hzj)
  simpa [List.getElem_zip] using this

theorem bisect_of_orderIso {g1 g2 : Graph} {f : Nat} {pos1 pos2 : Pos}
    (ho : orderIsoAt g1 g2 f pos1 pos2 = true) (fr1 fr2 : FlowRec)
    (h1 : g1.flow? f = some fr1) (h2 : g2.flow? f = some fr2) :
    bisectRight fr2.names pos2 = bisectRight fr1.names pos1 := by
  unfold orderIsoAt Graph.locsOf at ho
  simp only [h1, h2, Option.map_some, Option.getD_some] at ho
  obtain ⟨hl, hc⟩ := sameOrder_spec ho
  simp only [List.length_cons, List.length_map, Nat.add_right_cancel_iff] at hl
  symm
  refine bisectRight_congr fr1.names fr2.names pos1 pos2 hl.symm ?_
  intro i hi
  have hi2 : i < fr2.names.length := by omega
  have := hc 0 (i + 1) (by simp) (by simp; omega) (by simp) (by simp; omega)
  simpa [hi, hi2] using this

theorem bisect_of_orderPreserving (φ : Pos → Pos) (g : Graph) (f : Nat) (pos : Pos)
    (h : OrderPreserving φ (g.flowPositions f pos)) (fr1 fr2 : FlowRec)
    (h1 : g.flow? f = some fr1) (h2 : (g.mapLoc φ).flow? f = some fr2) :
    bisectRight fr2.names (φ pos) = bisectRight fr1.names pos := by
  rw [Graph.mapLoc_eq, flow?_mapNames, h1] at h2
  cases h2
  unfold Graph.flowPositions at h
  simp only [h1, Option.map_some, Option.getD_some] at h
  exact bisectRight_map φ fr1.names pos h

theorem namesAt_mapLoc (φ : Pos → Pos) (g : Graph) (n : Nat) (R : List Nat) (f : Nat) (pos : Pos)
    (h : OrderPreserving φ (g.flowPositions f pos)) :
    namesAt (g.mapLoc φ) n R f (φ pos) = namesAt g n R f pos :=
  namesAt_core (eraseLoc_mapLoc φ g).symm n R f pos (φ pos) (bisect_of_orderPreserving φ g f pos h)

theorem runQueries_mapLoc (φ : Pos → Pos) (g : Graph) (n : Nat) (qs : List Query) :
    ∀ (m : Memo), (∀ q ∈ qs, OrderPreserving φ (g.flowPositions q.flow q.pos)) →
      runQueries (g.mapLoc φ) n m (qs.map (fun q => { q with pos := φ q.pos })) =
        runQueries g n m qs := by
  induction qs with
  | nil => intro m _; rfl
  | cons q qs ih =>
    intro m h
    rw [List.map_cons, runQueries, runQueries]
    have e := mNamesAt_core (eraseLoc_mapLoc φ g).symm n m q.flow q.pos (φ q.pos)
      (bisect_of_orderPreserving φ g q.flow q.pos (h q List.mem_cons_self))
    simp only [e]
    have hr : ∀ q' ∈ qs, OrderPreserving φ (g.flowPositions q'.flow q'.pos) :=
      fun q' hq' => h q' (List.mem_cons_of_mem _ hq')
    cases mNamesAt g n m q.flow q.pos with
    | none => simp only [ih m hr]
    | some r => simp only [ih r.1 hr]

/-- what the driver's `queryIso` test says -/
theorem queryIso_spec {pos1 pos2 : Pos} {l1 l2 : List Pos} (h : queryIso pos1 pos2 l1 l2 = true) :
    l1.length = l2.length ∧ ∀ (i : Nat) (hi : i < l1.length) (hi' : i < l2.length),
      Pos.lt pos1 l1[i] = Pos.lt pos2 l2[i] := by
  unfold queryIso at h
  simp only [Bool.and_eq_true, beq_iff_eq, List.all_eq_true] at h
  obtain ⟨hl, hall⟩ := h
  refine ⟨hl, ?_⟩
  intro i hi hi'
  have hz : i < (List.zip l1 l2).length := by rw [List.length_zip]; omega
  have := hall _ (List.getElem_mem hz)
  simpa [List.getElem_zip] using this

theorem queryIso_of_spec {pos1 pos2 : Pos} {l1 l2 : List Pos} (hl : l1.length = l2.length)
    (h : ∀ (i : Nat) (hi : i < l1.length) (hi' : i < l2.length), Pos.lt pos1 l1[i] = Pos.lt pos2 l2[i]) :
    queryIso pos1 pos2 l1 l2 = true := by
  unfold queryIso
  simp only [Bool.and_eq_true, beq_iff_eq, List.all_eq_true]
  refine ⟨hl, ?_⟩
  intro p hp
  obtain ⟨i, hi, rfl⟩ := List.mem_iff_getElem.mp hp
  rw [List.getElem_zip]
  rw [List.length_zip] at hi
  exact h i (by omega) (by omega)

/-- `orderIsoAt` is stronger -/
theorem queryIsoAt_of_orderIsoAt {g1 g2 : Graph} {f : Nat} {pos1 pos2 : Pos}
    (ho : orderIsoAt g1 g2 f pos1 pos2 = true) : queryIsoAt g1 g2 f pos1 pos2 = true := by
  unfold orderIsoAt at ho
  unfold queryIsoAt
  obtain ⟨hl, hc⟩ := sameOrder_spec ho
  simp only [List.length_cons, Nat.add_right_cancel_iff] at hl
  refine queryIso_of_spec hl ?_
  intro i hi hi'
  have := hc 0 (i + 1) (by simp) (by simp; omega) (by simp) (by simp; omega)
  simpa using this

theorem bisect_of_queryIso {g1 g2 : Graph} {f : Nat} {pos1 pos2 : Pos}
    (ho : queryIsoAt g1 g2 f pos1 pos2 = true) (fr1 fr2 : FlowRec)
    (h1 : g1.flow? f = some fr1) (h2 : g2.flow? f = some fr2) :
    bisectRight fr2.names pos2 = bisectRight fr1.names pos1 := by
  unfold queryIsoAt Graph.locsOf at ho
  simp only [h1, h2, Option.map_some, Option.getD_some] at ho
  obtain ⟨hl, hc⟩ := queryIso_spec ho
  simp only [List.length_map] at hl
  symm
  refine bisectRight_congr fr1.names fr2.names pos1 pos2 hl.symm ?_
  intro i hi
  have hi2 : i < fr2.names.length := by omega
  have := hc i (by simpa using hi) (by simpa using hi2)
  simpa [hi, hi2] using this

theorem historiesQueryIso_of_historiesIso (g1 g2 : Graph) : ∀ (qs1 qs2 : List Query),
    historiesIso g1 g2 qs1 qs2 = true → historiesQueryIso g1 g2 qs1 qs2 = true := by
  intro qs1
  induction qs1 with
  | nil =>
    intro qs2 h
    cases qs2 with
    | nil => rfl
    | cons _ _ => simp [historiesIso] at h
  | cons q1 r1 ih =>
    intro qs2 h
    cases qs2 with
    | nil => simp [historiesIso] at h
    | cons q2 r2 =>
      rw [historiesIso] at h
      rw [historiesQueryIso]
      simp only [Bool.and_eq_true] at h ⊢
      exact ⟨⟨h.1.1, queryIsoAt_of_orderIsoAt h.1.2⟩, ih r2 h.2⟩

theorem runQueries_layouts (g1 g2 : Graph) (n : Nat) (hs : sameShape g1 g2 = true) :
    ∀ (qs1 qs2 : List Query) (m : Memo), historiesQueryIso g1 g2 qs1 qs2 = true →
      runQueries g2 n m qs2 = runQueries g1 n m qs1 := by
  intro qs1
  induction qs1 with
  | nil =>
    intro qs2 m h
    cases qs2 with
    | nil => rfl
    | cons _ _ => simp [historiesQueryIso] at h
  | cons q1 r1 ih =>
    intro qs2 m h
    cases qs2 with
    | nil => simp [historiesQueryIso] at h
    | cons q2 r2 =>
      rw [historiesQueryIso] at h
      simp only [Bool.and_eq_true, beq_iff_eq] at h
      obtain ⟨⟨⟨hf, hk⟩, ho⟩, hr⟩ := h
      rw [runQueries, runQueries, ← hf, ← hk]
      have e := mNamesAt_core (sameShape_eq hs) n m q1.flow q1.pos q2.pos
        (bisect_of_queryIso ho)
      simp only [e]
      cases mNamesAt g1 n m q1.flow q1.pos with
      | none => simp only [ih r2 m hr]
      | some r => simp only [ih r2 r.1 hr]

/-! ### binary search on a sorted region -/

theorem Pos.lt_iff (a b : Pos) : Pos.lt a b = true ↔ a.1 < b.1 ∨ (a.1 = b.1 ∧ a.2 < b.2) := by
  unfold Pos.lt
  simp

theorem Pos.le_iff (a b : Pos) : Pos.le a b = true ↔ a.1 < b.1 ∨ (a.1 = b.1 ∧ a.2 ≤ b.2) := by
  unfold Pos.le
  rw [Bool.not_eq_true', ← Bool.not_eq_true, Pos.lt_iff]
  omega

theorem Pos.le_trans {a b c : Pos} (h1 : Pos.le a b = true) (h2 : Pos.le b c = true) :
    Pos.le a c = true := by
  rw [Pos.le_iff] at *
  omega

theorem Pos.le_refl (a : Pos) : Pos.le a a = true := by
  rw [Pos.le_iff]; omega

theorem Pos.le_of_lt {a b : Pos} (h : Pos.lt a b = true) : Pos.le a b = true := by
  rw [Pos.le_iff]; rw [Pos.lt_iff] at h; omega

def SortedLoc (l : List NameRec) : Prop := l.Pairwise (fun a b => Pos.le a.loc b.loc = true)

theorem sortedLoc_of (l : List NameRec) (h : sortedByLoc l = true) : SortedLoc l := by
  unfold SortedLoc
  induction l with
  | nil => exact List.Pairwise.nil
  | cons a l ih =>
    cases l with
    | nil => exact List.pairwise_singleton _ _
    | cons b r =>
      rw [sortedByLoc, Bool.and_eq_true] at h
      have ih' := ih h.2
      have ih2 := List.pairwise_cons.mp ih'
      rw [List.pairwise_cons]
      refine ⟨?_, ih'⟩
      intro x hx
      rcases List.mem_cons.mp hx with rfl | hx
      · exact h.1
      · exact Pos.le_trans h.1 (ih2.1 x hx)

theorem sortedByLoc_of (l : List NameRec) (h : SortedLoc l) : sortedByLoc l = true := by
  unfold SortedLoc at h
  induction l with
  | nil => rfl
  | cons a l ih =>
    cases l with
    | nil => rfl
    | cons b r =>
      rw [List.pairwise_cons] at h
      rw [sortedByLoc, Bool.and_eq_true]
      exact ⟨h.1 b List.mem_cons_self, ih h.2⟩

/-- the loop invariant of `bisect_right` for a test that is monotone along the array -/
theorem bisectGo_spec (a : Array NameRec) (pos : Pos) (n : Nat)
    (hmono : ∀ i j, i ≤ j → j < n → Pos.lt pos (a[i]!).loc = true → Pos.lt pos (a[j]!).loc = true) :
    ∀ fuel lo hi, lo ≤ hi → hi ≤ n → hi - lo < fuel →
      (∀ i, i < lo → Pos.lt pos (a[i]!).loc = false) →
      (∀ i, hi ≤ i → i < n → Pos.lt pos (a[i]!).loc = true) →
      let r := bisectGo a pos fuel lo hi
      r ≤ n ∧ (∀ i, i < r → Pos.lt pos (a[i]!).loc = false) ∧
        (∀ i, r ≤ i → i < n → Pos.lt pos (a[i]!).loc = true) := by
  intro fuel
  induction fuel with
  | zero => intro lo hi _ _ hf; omega
  | succ k ih =>
    intro lo hi hlh hhn hf hlo hhi
    rw [bisectGo]
    by_cases hl : lo < hi
    · simp only [hl, if_true]
      have hm : (lo + hi) / 2 < n := by omega
      cases hq : Pos.lt pos (a[(lo + hi) / 2]!).loc with
      | true =>
        simp only [if_true]
        refine ih lo ((lo + hi) / 2) (by omega) (by omega) (by omega) hlo ?_
        intro i hi1 hi2
        exact hmono _ _ hi1 hi2 hq
      | false =>
        simp only [Bool.false_eq_true, if_false]
        refine ih ((lo + hi) / 2 + 1) hi (by omega) hhn (by omega) ?_ hhi
        intro i hi1
        cases hqi : Pos.lt pos (a[i]!).loc with
        | false => rfl
        | true =>
          have := hmono i ((lo + hi) / 2) (by omega) hm hqi
          rw [hq] at this
          exact absurd this (by simp)
    · simp only [hl, if_false]
      have : lo = hi := by omega
      subst this
      exact ⟨hhn, hlo, hhi⟩

theorem bisectRight_spec (names : List NameRec) (pos : Pos) (h : SortedLoc names) :
    bisectRight names pos ≤ names.length ∧
    (∀ x ∈ names.take (bisectRight names pos), Pos.le x.loc pos = true) ∧
    (∀ x ∈ names.drop (bisectRight names pos), Pos.lt pos x.loc = true) := by
  have hget : ∀ i, i < names.length → names.toArray[i]! = names[i]! := by
    intro i hi; simp [hi]
  have hmono : ∀ i j, i ≤ j → j < names.length → Pos.lt pos (names.toArray[i]!).loc = true →
      Pos.lt pos (names.toArray[j]!).loc = true := by
    intro i j hij hj hq
    rcases Nat.lt_or_eq_of_le hij with hlt | rfl
    · have hi : i < names.length := by omega
      have hle := (List.pairwise_iff_getElem.mp h) i j hi hj hlt
      have e1 : names.toArray[i]! = names[i] := by simp [hi]
      have e2 : names.toArray[j]! = names[j] := by simp [hj]
      rw [e1] at hq
      rw [e2]
      rw [Pos.lt_iff] at hq ⊢
      rw [Pos.le_iff] at hle
      omega
    · exact hq
  obtain ⟨h1, h2, h3⟩ : bisectRight names pos ≤ names.length ∧
      (∀ i, i < bisectRight names pos → Pos.lt pos (names.toArray[i]!).loc = false) ∧
      (∀ i, bisectRight names pos ≤ i → i < names.length →
        Pos.lt pos (names.toArray[i]!).loc = true) :=
    bisectGo_spec names.toArray pos names.length hmono (names.length + 1) 0
      names.length (Nat.zero_le _) (Nat.le_refl _) (by omega) (by intro i hi; omega)
      (by intro i hi1 hi2; omega)
  refine ⟨h1, ?_, ?_⟩
  · intro x hx
    obtain ⟨j, hj, rfl⟩ := List.mem_take_iff_getElem.mp hx
    have hjr : j < bisectRight names pos := by
      have := hj; simp only [Nat.lt_min] at this; exact this.1
    have hjl : j < names.length := by
      have := hj; simp only [Nat.lt_min] at this; exact this.2
    have := h2 j hjr
    have e : names.toArray[j]! = names[j] := by simp [hjl]
    rw [e] at this
    unfold Pos.le
    rw [this]; rfl
  · intro x hx
    obtain ⟨j, hj, rfl⟩ := List.mem_drop_iff_getElem.mp hx
    have hj' : bisectRight names pos + j < names.length := by omega
    have := h3 (bisectRight names pos + j) (by omega) hj'
    have e : names.toArray[bisectRight names pos + j]! = names[bisectRight names pos + j] := by simp [hj']
    rw [e] at this
    exact this

theorem take_bisect_eq_filter (names : List NameRec) (pos : Pos) (h : SortedLoc names) :
    names.take (bisectRight names pos) = names.filter (fun n => Pos.le n.loc pos) := by
  obtain ⟨_, h2, h3⟩ := bisectRight_spec names pos h
  conv => rhs; rw [← List.take_append_drop (bisectRight names pos) names]
  rw [List.filter_append]
  have e1 : (names.take (bisectRight names pos)).filter (fun n => Pos.le n.loc pos) =
      names.take (bisectRight names pos) := List.filter_eq_self.mpr h2
  have e2 : (names.drop (bisectRight names pos)).filter (fun n => Pos.le n.loc pos) = [] := by
    rw [List.filter_eq_nil_iff]
    intro x hx
    have := h3 x hx
    unfold Pos.le
    rw [this]; simp
  rw [e1, e2, List.append_nil]

theorem insertLoc_sorted (names : List NameRec) (n : NameRec) (h : SortedLoc names) :
    SortedLoc (insertLoc names n) := by
  unfold insertLoc
  cases hl : names.getLast? with
  | none => exact List.pairwise_singleton _ _
  | some l =>
    simp only []
    by_cases hlt : Pos.lt l.loc n.loc = true
    · rw [if_pos hlt]
      obtain ⟨ys, rfl⟩ := List.getLast?_eq_some_iff.mp hl
      unfold SortedLoc at h ⊢
      rw [List.pairwise_append] at h ⊢
      refine ⟨List.pairwise_append.mpr h, List.pairwise_singleton _ _, ?_⟩
      intro a ha b hb
      rcases List.mem_singleton.mp hb with rfl
      rcases List.mem_append.mp ha with ha | ha
      · exact Pos.le_trans (h.2.2 a ha l (List.mem_singleton.mpr rfl)) (Pos.le_of_lt hlt)
      · rcases List.mem_singleton.mp ha with rfl
        exact Pos.le_of_lt hlt
    · rw [if_neg hlt]
      obtain ⟨_, h2, h3⟩ := bisectRight_spec names n.loc h
      have hsplit := h
      unfold SortedLoc at hsplit ⊢
      rw [← List.take_append_drop (bisectRight names n.loc) names, List.pairwise_append] at hsplit
      rw [List.append_assoc, List.pairwise_append]
      refine ⟨hsplit.1, ?_, ?_⟩
      · rw [List.singleton_append, List.pairwise_cons]
        exact ⟨fun b hb => Pos.le_of_lt (h3 b hb), hsplit.2.1⟩
      · intro a ha b hb
        rcases List.mem_append.mp hb with hb | hb
        · rcases List.mem_singleton.mp hb with rfl
          exact h2 a ha
        · exact hsplit.2.2 a ha b hb

end SuppModel.Flow
