/-
  Proof files for C05 / C13 (scope-level and layout facts about the graph evaluator):
    LemmasScopingMap   the evaluators read only `id` and `name` of a binding (invariance under
                       `Graph.mapNames`, of which `mapLoc` and `eraseLoc` are instances)
    LemmasScopingC13   bisect/insert under order-preserving maps, two-graph forms, binary search
                       on a sorted region
    LemmasScopingC05   ownership of the bindings in a table (lookup chains), locals
-/
import SuppModel.Flow.Scoping
import SuppModel.Flow.Iso
import SuppModel.Flow.Lemmas
import SuppModel.Flow.LemmasScopingMap
import SuppModel.Flow.LemmasScopingC13
import SuppModel.Flow.LemmasScopingC05
