/-
  "Some fuel suffices" (`Ev…`) introduction rules for the pure evaluator of Graph.lean: one rule
  per branch of the five mutual functions.  They hide the fuel bookkeeping (take the maximum of
  the fuels of the premises, plus one) from the simulation proofs.
-/
import SuppModel.Flow.LemmasFuel
namespace SuppModel.Flow

def EvFl (g : Graph) (R : List Nat) (f : Nat) (t : Tbl) : Prop := ∃ n, flowNames g n R f = some t
def EvPn (g : Graph) (R : List Nat) (fr : FlowRec) (t : Tbl) : Prop := ∃ n, parentNames g n R fr = some t
def EvPt (g : Graph) (R : List Nat) (ps : List Parent) (ts : List Tbl) : Prop :=
  ∃ n, parentTables g n R ps = some ts
def EvLp (g : Graph) (R : List Nat) (l tg : Nat) (r : Option Tbl) : Prop :=
  ∃ n, loopNames g n R l tg = some r
def EvSc (g : Graph) (R : List Nat) (s : Nat) (t : Tbl) : Prop := ∃ n, scopeNames g n R s = some t

/-- what `parent_names` makes of the enclosing scope's table -/
def scopeWrap (sc : ScopeRec) (outer : Tbl) : Tbl :=
  match sc.kind with
  | .module => globalsTable sc ++ outer
  | .cls => outer
  | _ => outer.filter (fun e => !sc.locals.contains e.1)

theorem EvFl.mk {g R f fr p} (hfr : g.flow? f = some fr) (h : EvPn g R fr p) :
    EvFl g R f (ownTable fr.names ++ p) := by
  obtain ⟨n, hn⟩ := h
  exact ⟨n + 1, by rw [flowNames]; simp [hfr, hn]⟩

theorem EvPn.root {g R fr sc} (hp : fr.parents = []) (hsc : g.scope? fr.scope = some sc)
    (hpar : sc.parent = none) : EvPn g R fr [] :=
  ⟨1, by rw [parentNames]; simp [hp, hsc, hpar]⟩

theorem EvPn.scope {g R fr sc ps outer} (hp : fr.parents = []) (hsc : g.scope? fr.scope = some sc)
    (hpar : sc.parent = some ps) (h : EvSc g R ps outer) : EvPn g R fr (scopeWrap sc outer) := by
  obtain ⟨n, hn⟩ := h
  refine ⟨n + 1, ?_⟩
  rw [parentNames]
  simp only [hp, hsc, hpar, hn, scopeWrap]
  cases sc.kind <;> rfl

theorem EvPn.flow {g R fr p t} (hp : fr.parents = [Parent.flow p]) (h : EvFl g R p t) :
    EvPn g R fr t := by
  obtain ⟨n, hn⟩ := h
  exact ⟨n + 1, by rw [parentNames]; simp [hp, hn]⟩

theorem EvPn.loop {g R fr l tg r} (hp : fr.parents = [Parent.loop l tg]) (h : EvLp g R l tg r) :
    EvPn g R fr (r.getD []) := by
  obtain ⟨n, hn⟩ := h
  exact ⟨n + 1, by rw [parentNames]; simp [hp, hn]⟩

theorem EvPn.many {g R fr a b rest ts} (hp : fr.parents = a :: b :: rest)
    (h : EvPt g R (a :: b :: rest) ts) : EvPn g R fr (mergeTables ts) := by
  obtain ⟨n, hn⟩ := h
  exact ⟨n + 1, by rw [parentNames]; simp [hp, hn]⟩

theorem EvPt.nil {g R} : EvPt g R [] [] := ⟨1, by rw [parentTables]⟩

theorem EvPt.flow {g R p rest t ts} (h1 : EvFl g R p t) (h2 : EvPt g R rest ts) :
    EvPt g R (Parent.flow p :: rest) (t :: ts) := by
  obtain ⟨n1, hn1⟩ := h1
  obtain ⟨n2, hn2⟩ := h2
  have e1 := flowNames_mono g (Nat.le_max_left n1 n2) R p t hn1
  have e2 := parentTables_mono g (Nat.le_max_right n1 n2) R rest ts hn2
  exact ⟨max n1 n2 + 1, by rw [parentTables]; simp [e1, e2]⟩

/-- an UNRESOLVED predecessor contributes no table -/
def consOpt (r : Option Tbl) (ts : List Tbl) : List Tbl :=
  match r with
  | some t => t :: ts
  | none => ts

theorem EvPt.loop {g R l tg rest r ts} (h1 : EvLp g R l tg r) (h2 : EvPt g R rest ts) :
    EvPt g R (Parent.loop l tg :: rest) (consOpt r ts) := by
  obtain ⟨n1, hn1⟩ := h1
  obtain ⟨n2, hn2⟩ := h2
  have e1 := loopNames_mono g (Nat.le_max_left n1 n2) R l tg r hn1
  have e2 := parentTables_mono g (Nat.le_max_right n1 n2) R rest ts hn2
  exact ⟨max n1 n2 + 1, by rw [parentTables]; simp only [e1, e2]; cases r <;> rfl⟩

theorem EvLp.unresolved {g R l tg} (h : R.contains l = true) : EvLp g R l tg none :=
  ⟨1, by rw [loopNames, if_pos h]⟩

theorem EvLp.resolved {g R l tg t} (h : R.contains l = false) (h1 : EvFl g (l :: R) tg t) :
    EvLp g R l tg (some t) := by
  obtain ⟨n, hn⟩ := h1
  exact ⟨n + 1, by rw [loopNames, if_neg (by rw [h]; exact Bool.false_ne_true), hn]; rfl⟩

theorem EvSc.builtin {g R s sc} (hsc : g.scope? s = some sc) (hk : sc.kind = .builtin) :
    EvSc g R s (builtinTable g) :=
  ⟨1, by rw [scopeNames]; simp [hsc, hk]⟩

theorem EvSc.module {g R s sc t} (hsc : g.scope? s = some sc) (hk : sc.kind = .module)
    (h : EvFl g R sc.final t) : EvSc g R s (t ++ globalsTable sc) := by
  obtain ⟨n, hn⟩ := h
  exact ⟨n + 1, by rw [scopeNames]; simp [hsc, hk, hn]⟩

theorem EvSc.func {g R s sc t} (hsc : g.scope? s = some sc) (hk : sc.kind = .func)
    (h : EvFl g R sc.final t) : EvSc g R s t := by
  obtain ⟨n, hn⟩ := h
  exact ⟨n + 1, by rw [scopeNames]; simp [hsc, hk, hn]⟩

theorem EvSc.cls {g R s sc p t} (hsc : g.scope? s = some sc) (hk : sc.kind = .cls)
    (hp : sc.parent = some p) (h : EvSc g R p t) : EvSc g R s t := by
  obtain ⟨n, hn⟩ := h
  exact ⟨n + 1, by rw [scopeNames]; simp [hsc, hk, hp, hn]⟩

/-- `g.flow? f` returns a record whose id is `f` -/
theorem flow?_id {g : Graph} {f : Nat} {fr : FlowRec} (h : g.flow? f = some fr) : fr.id = f := by
  unfold Graph.flow? at h
  have := List.find?_some h
  simpa using this

end SuppModel.Flow
