/-
  The CHECKED evaluator: the memoised evaluator of Memo.lean, line by line, plus one piece of
  book-keeping and one check.

    * every cache entry also records `used`: the loops that were RESOLVED (not cut) while the
      table was computed, directly or through the cached tables it was built from;
    * a cached table that Memo.lean would reuse (all its `deps` still in progress) is reused
      only if it is SAFE: no loop in `used` is in progress now.

  What happens on a usable-but-unsafe entry is the parameter `strict`:
    * `strict = true`  (`runQueriesChecked`): GIVE UP (`none`).  Apart from that it is Memo.lean
      verbatim (`CMemo.erase` forgets `used`; SuppModel/Flow/LemmasTaggedLe.lean: whenever it
      answers, Memo.lean's evaluator gives the same answer and reaches the same memo);
    * `strict = false` (`runQueriesExact`): RECOMPUTE.  Old entries are kept and the cache is
      searched for ANY entry of the key that is usable and safe, so a final table is not lost
      when a table for the same key is computed inside a loop resolution.  This one never gives
      up: it is an exact memoisation of the pure evaluator, to compare against per run.
  An unsafe reuse is exactly how the real evaluator departs from the pure one
  (SuppModel/Witness/C04.lean): a final table T that was computed by resolving loop l in a NESTED
  resolution is reused later INSIDE a resolution of l, where the pure evaluator sees l's back
  edge cut.  For both values of `strict` the evaluator is a memoisation of the pure evaluator on
  every graph (SuppModel/Flow/LemmasTaggedSim.lean); `C04_history_partial` is about the runs of
  the real one in which the check never fires.  The driver evaluates all three.
-/
import SuppModel.Flow.Memo

namespace SuppModel.Flow

structure CEntry where
  key : Key
  tbl : Tbl
  deps : Deps
  used : List Nat            -- loops resolved on the way, transitively
  deriving Repr

structure CMemo where
  entries : List CEntry := []
  resolving : List Res := []
  started : Nat := 0
  deriving Repr

def CEntry.erase (e : CEntry) : Entry := ⟨e.key, e.tbl, e.deps⟩

/-- forget `used`: the state of Memo.lean's evaluator -/
def CMemo.erase (m : CMemo) : Memo :=
  { entries := m.entries.map CEntry.erase, resolving := m.resolving, started := m.started }

def CMemo.slot? (m : CMemo) (k : Key) : Option CEntry := m.entries.find? (fun e => e.key = k)

def CMemo.usable (m : CMemo) (e : CEntry) : Bool := e.deps.all (fun d => m.resolving.contains d)

def CMemo.inProgress? (m : CMemo) (l : Nat) : Option Nat :=
  (m.resolving.find? (fun r => r.1 = l)).map Prod.snd

/-- none of the loops the entry resolved is being resolved now -/
def CMemo.safe (m : CMemo) (e : CEntry) : Bool :=
  e.used.all (fun l => !(m.resolving.map Prod.fst).contains l)

/-- cache lookup.  `none`: give up;  `some none`: compute;  `some (some e)`: reuse `e` -/
def CMemo.hit? (m : CMemo) (strict : Bool) (k : Key) : Option (Option CEntry) :=
  if strict then
    match (m.slot? k).filter m.usable with
    | none => some none
    | some e => if m.safe e then some (some e) else none
  else some (m.entries.find? (fun e => e.key = k && m.usable e && m.safe e))

def CMemo.put (m : CMemo) (k : Key) (t : Tbl) (d : Deps) (u : List Nat) : CMemo :=
  { m with entries := ⟨k, t, d, u⟩ :: m.entries }

mutual
def cFlowNames (strict : Bool) (g : Graph) : Nat → CMemo → Nat → Option (CMemo × Tbl × Deps × List Nat)
  | 0, _, _ => none
  | fuel + 1, m, f =>
    match m.hit? strict (.names f) with
    | none => none
    | some (some e) => some (m, e.tbl, e.deps, e.used)
    | some none =>
      match g.flow? f with
      | none => none
      | some fr => do
        let (m1, p, d, u) ← cParentNames strict g fuel m fr
        let t := ownTable fr.names ++ p
        pure (m1.put (.names f) t d u, t, d, u)
def cParentNames (strict : Bool) (g : Graph) : Nat → CMemo → FlowRec → Option (CMemo × Tbl × Deps × List Nat)
  | 0, _, _ => none
  | fuel + 1, m, fr =>
    match m.hit? strict (.pnames fr.id) with
    | none => none
    | some (some e) => some (m, e.tbl, e.deps, e.used)
    | some none => do
      let (m1, t, d, u) ← (match fr.parents with
        | [] =>
          match g.scope? fr.scope with
          | none => none
          | some sc =>
            match sc.parent with
            | none => some (m, ([] : Tbl), ([] : Deps), ([] : List Nat))
            | some ps => do
              let (m1, outer, d, u) ← cScopeNames strict g fuel m ps
              match sc.kind with
              | .module => pure (m1, globalsTable sc ++ outer, d, u)
              | .cls => pure (m1, outer, d, u)
              | _ => pure (m1, outer.filter (fun e => !sc.locals.contains e.1), d, u)
        | [Parent.flow p] => cFlowNames strict g fuel m p
        | [Parent.loop l t] => do
          let (m1, r, d, u) ← cLoopNames strict g fuel m l t
          pure (m1, r.getD [], d, u)
        | ps => do
          let (m1, tables, d, u) ← cParentTables strict g fuel m ps
          pure (m1, mergeTables tables, d, u))
      pure (m1.put (.pnames fr.id) t d u, t, d, u)
def cParentTables (strict : Bool) (g : Graph) : Nat → CMemo → List Parent → Option (CMemo × List Tbl × Deps × List Nat)
  | 0, _, _ => none
  | _ + 1, m, [] => some (m, [], [], [])
  | fuel + 1, m, Parent.flow p :: rest => do
    let (m1, t, d1, u1) ← cFlowNames strict g fuel m p
    let (m2, ts, d2, u2) ← cParentTables strict g fuel m1 rest
    pure (m2, t :: ts, d1.union d2, u1 ++ u2)
  | fuel + 1, m, Parent.loop l t :: rest => do
    let (m1, r, d1, u1) ← cLoopNames strict g fuel m l t
    let (m2, ts, d2, u2) ← cParentTables strict g fuel m1 rest
    pure (m2, (match r with | some t => t :: ts | none => ts), d1.union d2, u1 ++ u2)
def cLoopNames (strict : Bool) (g : Graph) : Nat → CMemo → Nat → Nat → Option (CMemo × Option Tbl × Deps × List Nat)
  | 0, _, _, _ => none
  | fuel + 1, m, l, target =>
    match m.inProgress? l with
    | some n => some (m, none, [(l, n)], [])
    | none =>
      match m.hit? strict (.loop l target) with
      | none => none
      | some (some e) => some (m, some e.tbl, e.deps, e.used)
      | some none => do
        let n := m.started + 1
        let m1 : CMemo := { m with started := n, resolving := (l, n) :: m.resolving }
        let (m2, t, d, u) ← cFlowNames strict g fuel m1 target
        let m3 : CMemo := { m2 with resolving := m2.resolving.filter (fun r => r.1 ≠ l) }
        let d' := d.filter (fun r => r.1 ≠ l)
        pure (m3.put (.loop l target) t d' (l :: u), some t, d', l :: u)
def cScopeNames (strict : Bool) (g : Graph) : Nat → CMemo → Nat → Option (CMemo × Tbl × Deps × List Nat)
  | 0, _, _ => none
  | fuel + 1, m, s =>
    match g.scope? s with
    | none => none
    | some sc =>
      match sc.kind with
      | .builtin => some (m, builtinTable g, [], [])
      | .module => do
        let (m1, t, d, u) ← cFlowNames strict g fuel m sc.final
        pure (m1, t ++ globalsTable sc, d, u)
      | .func => cFlowNames strict g fuel m sc.final
      | .cls =>
        match sc.parent with
        | some p => cScopeNames strict g fuel m p
        | none => none
end

/-- one `names_at` query against a checked memo state -/
def cNamesAt (strict : Bool) (g : Graph) (fuel : Nat) (m : CMemo) (f : Nat) (pos : Pos) :
    Option (CMemo × Tbl) :=
  match g.flow? f with
  | none => none
  | some fr => do
    let (m1, p, _, _) ← cParentNames strict g fuel m fr
    pure (m1, ownTable (fr.names.take (bisectRight fr.names pos)) ++ p)

/-- a history of queries: `none` where the evaluator ran out of fuel or gave up; the state is
    then left as it was before the query -/
def runQueriesWith (strict : Bool) (g : Graph) (fuel : Nat) : CMemo → List Query → List (Option (Option Val))
  | _, [] => []
  | m, q :: qs =>
    match cNamesAt strict g fuel m q.flow q.pos with
    | none => none :: runQueriesWith strict g fuel m qs
    | some (m1, t) => some (t.get? q.key) :: runQueriesWith strict g fuel m1 qs

/-- Memo.lean's evaluator, giving up where it would reuse a table unsafely -/
def runQueriesChecked (g : Graph) (fuel : Nat) (m : CMemo) (qs : List Query) : List (Option (Option Val)) :=
  runQueriesWith true g fuel m qs

/-- the exact memoisation of the pure evaluator: recomputes instead -/
def runQueriesExact (g : Graph) (fuel : Nat) (m : CMemo) (qs : List Query) : List (Option (Option Val)) :=
  runQueriesWith false g fuel m qs

end SuppModel.Flow
