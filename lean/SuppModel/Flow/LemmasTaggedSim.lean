/-
  The checked evaluator of Checked.lean is a memoisation of the pure evaluator, for every graph
  and every history, whether it gives up on an unsafe entry (`strict = true`) or recomputes
  (`strict = false`): the proof only uses that a REUSED entry is in the cache, has the right key,
  is usable and is safe (`hit?_some`).

  INFORMAL ARGUMENT.  Write loops(d) for the loop ids of a list of resolutions.  A cache entry
  e = (k, t, deps, used) is VALID if there is a tagged derivation (LemmasTagged.lean)
        Ev  W := loops(deps) ++ used   R := loops(deps)   k ↦ t :
  "with exactly the loops of `deps` cut, the pure evaluator gives t for k, consulting only loops
  of `deps` and `used`".  Validity does not mention the memo state, so entries stay valid for ever;
  what depends on the state is whether a valid entry may be REUSED:
    * usable (Memo.lean's test): deps ⊆ m.resolving, so loops(deps) ⊆ R(m) := loops(m.resolving);
    * safe (the added check): used ∩ R(m) = ∅.
  Then R(m) and loops(deps) agree on every loop of W (a loop of `deps` is in both, a loop of
  `used` is in neither), and by locality (`Ev.local`) the derivation is one under R(m): a reused
  table IS the pure value under R(m).
  Every call started in m (all entries valid) and returning (m', o, d, u) for the call c satisfies
  `Good`: all entries of m' are valid, m'.resolving = m.resolving, d ⊆ m.resolving,
  u ∩ R(m) = ∅, and Ev (loops d ++ u) R(m) c ↦ o.  By induction on the fuel:
    * hit: above;  computed value: `Good` of the sub-calls (same `resolving`, hence same R) + one
      rule of `Ev`, W enlarged by `Ev.weaken`;
    * store (k, t, d, u): R(m) and loops(d) agree on loops(d) ++ u, so by locality again the new
      entry is valid;
    * loop l in progress with number n: `Ev.lpCut`, d = [(l,n)] ⊆ m.resolving;
    * loop l resolved: the target is evaluated in m1 = m + (l,n): R(m1) = l :: R(m), entries
      unchanged; `Good` for the target gives Ev (loops d ++ u) (l :: R(m)); rule `Ev.lpRes` with
      W := loops(d minus l) ++ (l :: u); popping (l,n) restores m.resolving because l was not in
      progress before.
  Between queries `resolving = []`, so the answer to a query is the pure value under R = [].
  The resolution NUMBERS play no role in this argument: with the `used` check, soundness only
  needs the loop ids.
-/
import SuppModel.Flow.LemmasTagged
namespace SuppModel.Flow

def loops (d : Deps) : List Nat := d.map Prod.fst

theorem mem_loops_of_mem {d : Deps} {r : Res} (h : r ∈ d) : r.1 ∈ loops d :=
  List.mem_map_of_mem h

theorem loops_cons (r : Res) (d : Deps) : loops (r :: d) = r.1 :: loops d := rfl

/-- what a cache entry for key `k` claims -/
def KeyEv (g : Graph) (W R : List Nat) : Key → Tbl → Prop
  | .names f, t => Ev g W R (.fl f) (.t t)
  | .pnames f, t => ∀ fr, g.flow? f = some fr → Ev g W R (.pn fr) (.t t)
  | .loop l tg, t => Ev g W R (.lp l tg) (.o (some t))

theorem KeyEv.local {g W R k t} (h : KeyEv g W R k t) (R' : List Nat)
    (hag : ∀ l ∈ W, R.contains l = R'.contains l) : KeyEv g W R' k t := by
  cases k with
  | names f => exact Ev.local (c := .fl f) h R' hag
  | pnames f => exact fun fr hfr => Ev.local (h fr hfr) R' hag
  | loop l tg => exact Ev.local (c := .lp l tg) h R' hag

def CEntry.Valid (g : Graph) (e : CEntry) : Prop :=
  KeyEv g (loops e.deps ++ e.used) (loops e.deps) e.key e.tbl

def AllValid (g : Graph) (m : CMemo) : Prop := ∀ e ∈ m.entries, e.Valid g

theorem AllValid.empty (g : Graph) : AllValid g {} := by
  intro e he; cases he

/-- `S` and `d ⊆ S` agree on the loops of `d` and on loops outside `S` -/
theorem agree {d S : Deps} {u : List Nat} (hd : ∀ r ∈ d, r ∈ S) (hu : ∀ l ∈ u, l ∉ loops S) :
    ∀ l ∈ loops d ++ u, (loops d).contains l = (loops S).contains l := by
  intro l hl
  have hsub : l ∈ loops d → l ∈ loops S := by
    intro h
    obtain ⟨r, hr, rfl⟩ := List.mem_map.mp h
    exact mem_loops_of_mem (hd r hr)
  rcases List.mem_append.mp hl with h | h
  · have h2 := hsub h
    simp only [List.contains_eq_mem, h, h2]
  · have h2 := hu l h
    have h1 : l ∉ loops d := fun h' => h2 (hsub h')
    simp only [List.contains_eq_mem, h1, h2]

/-- the guarantee of every call -/
structure Good (g : Graph) (m m' : CMemo) (d : Deps) (u : List Nat) (c : Call) (o : Out) : Prop where
  valid : AllValid g m'
  res : m'.resolving = m.resolving
  dsub : ∀ r ∈ d, r ∈ m.resolving
  udis : ∀ l ∈ u, l ∉ loops m.resolving
  ev : Ev g (loops d ++ u) (loops m.resolving) c o

theorem usable_iff {m : CMemo} {e : CEntry} : m.usable e = true ↔ ∀ r ∈ e.deps, r ∈ m.resolving := by
  unfold CMemo.usable
  simp only [List.all_eq_true, List.contains_eq_mem, decide_eq_true_eq]

theorem safe_iff {m : CMemo} {e : CEntry} : m.safe e = true ↔ ∀ l ∈ e.used, l ∉ loops m.resolving := by
  unfold CMemo.safe loops
  simp only [List.all_eq_true, List.contains_eq_mem, Bool.not_eq_true', decide_eq_false_iff_not]

/-- what a reused entry is, for both lookup disciplines -/
theorem hit?_some {m : CMemo} {strict : Bool} {k : Key} {e : CEntry}
    (h : m.hit? strict k = some (some e)) :
    e ∈ m.entries ∧ e.key = k ∧ m.usable e = true ∧ m.safe e = true := by
  unfold CMemo.hit? at h
  cases strict with
  | true =>
    simp only [if_true] at h
    cases hf : (m.slot? k).filter m.usable with
    | none => simp [hf] at h
    | some e' =>
      simp only [hf] at h
      by_cases hsafe : m.safe e' = true
      · rw [if_pos hsafe] at h
        cases h
        obtain ⟨hslot, huse⟩ := Option.filter_eq_some_iff.mp hf
        exact ⟨List.mem_of_find?_eq_some hslot, by simpa using List.find?_some hslot, huse, hsafe⟩
      · rw [if_neg hsafe] at h; cases h
  | false =>
    simp only [Bool.false_eq_true, if_false, Option.some.injEq] at h
    have h1 := List.mem_of_find?_eq_some h
    have h2 := List.find?_some h
    simp only [Bool.and_eq_true, decide_eq_true_eq] at h2
    exact ⟨h1, h2.1.1, h2.1.2, h2.2⟩

/-- a reused cache entry holds the pure value under the loops now in progress -/
theorem hit {g : Graph} {m : CMemo} {strict : Bool} {k : Key} {e : CEntry} (hok : AllValid g m)
    (hs : m.hit? strict k = some (some e)) :
    (∀ r ∈ e.deps, r ∈ m.resolving) ∧ (∀ l ∈ e.used, l ∉ loops m.resolving) ∧
      KeyEv g (loops e.deps ++ e.used) (loops m.resolving) k e.tbl := by
  obtain ⟨hmem, hkey, huse, hsafe⟩ := hit?_some hs
  have hd := usable_iff.mp huse
  have hu := safe_iff.mp hsafe
  refine ⟨hd, hu, ?_⟩
  have hv := hok e hmem
  unfold CEntry.Valid at hv
  rw [hkey] at hv
  exact hv.local _ (agree hd hu)

/-- storing what was just computed keeps every entry valid -/
theorem valid_put {g : Graph} {m1 : CMemo} {S : Deps} {k : Key} {t : Tbl} {d : Deps} {u : List Nat}
    (hok : AllValid g m1) (hd : ∀ r ∈ d, r ∈ S) (hu : ∀ l ∈ u, l ∉ loops S)
    (hk : KeyEv g (loops d ++ u) (loops S) k t) : AllValid g (m1.put k t d u) := by
  intro e he
  unfold CMemo.put at he
  simp only [List.mem_cons] at he
  rcases he with rfl | he
  · unfold CEntry.Valid
    exact hk.local _ (fun l hl => (agree hd hu l hl).symm)
  · exact hok e he

theorem Good.refl {g : Graph} {m : CMemo} {d : Deps} {u : List Nat} {c : Call} {o : Out}
    (hok : AllValid g m) (hd : ∀ r ∈ d, r ∈ m.resolving) (hu : ∀ l ∈ u, l ∉ loops m.resolving)
    (hev : Ev g (loops d ++ u) (loops m.resolving) c o) : Good g m m d u c o :=
  ⟨hok, rfl, hd, hu, hev⟩

/-- compute (from `m` to `m1`), then store under key `k` -/
theorem Good.store {g : Graph} {m m1 : CMemo} {d : Deps} {u : List Nat} {c c' : Call} {o o' : Out}
    (h1 : Good g m m1 d u c o) {k : Key} {t : Tbl}
    (hk : KeyEv g (loops d ++ u) (loops m.resolving) k t)
    (hev : Ev g (loops d ++ u) (loops m.resolving) c' o') :
    Good g m (m1.put k t d u) d u c' o' :=
  ⟨valid_put h1.valid h1.dsub h1.udis hk, h1.res, h1.dsub, h1.udis, hev⟩

/-- same memo, another conclusion -/
theorem Good.map {g : Graph} {m m1 : CMemo} {d : Deps} {u : List Nat} {c c' : Call} {o o' : Out}
    (h1 : Good g m m1 d u c o)
    (hev : Ev g (loops d ++ u) (loops m.resolving) c o → Ev g (loops d ++ u) (loops m.resolving) c' o') :
    Good g m m1 d u c' o' :=
  ⟨h1.valid, h1.res, h1.dsub, h1.udis, hev h1.ev⟩

theorem mem_union {a b : Deps} {r : Res} : r ∈ Deps.union a b ↔ r ∈ a ∨ r ∈ b := by
  unfold Deps.union
  induction b generalizing a with
  | nil => simp
  | cons x b ih =>
    rw [List.foldl_cons, ih]
    by_cases hx : a.contains x = true
    · rw [if_pos hx]
      have : x ∈ a := by simpa using hx
      constructor
      · rintro (h | h)
        · exact Or.inl h
        · exact Or.inr (List.mem_cons_of_mem _ h)
      · rintro (h | h)
        · exact Or.inl h
        · rcases List.mem_cons.mp h with rfl | h
          · exact Or.inl this
          · exact Or.inr h
    · rw [if_neg hx]
      simp only [List.mem_append, List.mem_cons, List.not_mem_nil, or_false]
      constructor
      · rintro ((h | h) | h)
        · exact Or.inl h
        · exact Or.inr (Or.inl h)
        · exact Or.inr (Or.inr h)
      · rintro (h | h | h)
        · exact Or.inl (Or.inl h)
        · exact Or.inl (Or.inr h)
        · exact Or.inr h

/-- two calls in sequence -/
theorem Good.seq {g : Graph} {m m1 m2 : CMemo} {d1 d2 : Deps} {u1 u2 : List Nat}
    {c1 c2 c : Call} {o1 o2 o : Out}
    (h1 : Good g m m1 d1 u1 c1 o1) (h2 : Good g m1 m2 d2 u2 c2 o2)
    (hev : ∀ W, Ev g W (loops m.resolving) c1 o1 → Ev g W (loops m.resolving) c2 o2 →
      Ev g W (loops m.resolving) c o) :
    Good g m m2 (d1.union d2) (u1 ++ u2) c o := by
  have hres := h1.res
  refine ⟨h2.valid, h2.res.trans hres, ?_, ?_, ?_⟩
  · intro r hr
    rcases mem_union.mp hr with h | h
    · exact h1.dsub r h
    · rw [← hres]; exact h2.dsub r h
  · intro l hl
    rcases List.mem_append.mp hl with h | h
    · exact h1.udis l h
    · rw [← hres]; exact h2.udis l h
  · have hw1 : ∀ l ∈ loops d1 ++ u1, l ∈ loops (d1.union d2) ++ (u1 ++ u2) := by
      intro l hl
      rcases List.mem_append.mp hl with h | h
      · obtain ⟨r, hr, rfl⟩ := List.mem_map.mp h
        exact List.mem_append_left _ (mem_loops_of_mem (mem_union.mpr (Or.inl hr)))
      · exact List.mem_append_right _ (List.mem_append_left _ h)
    have hw2 : ∀ l ∈ loops d2 ++ u2, l ∈ loops (d1.union d2) ++ (u1 ++ u2) := by
      intro l hl
      rcases List.mem_append.mp hl with h | h
      · obtain ⟨r, hr, rfl⟩ := List.mem_map.mp h
        exact List.mem_append_left _ (mem_loops_of_mem (mem_union.mpr (Or.inr hr)))
      · exact List.mem_append_right _ (List.mem_append_right _ h)
    have e2 := h2.ev
    rw [hres] at e2
    exact hev _ (h1.ev.weaken hw1) (e2.weaken hw2)

theorem some4_inj {α β γ δ} {a a' : α} {b b' : β} {c c' : γ} {d d' : δ}
    (h : some (a, b, c, d) = some (a', b', c', d')) : a = a' ∧ b = b' ∧ c = c' ∧ d = d' := by
  cases h; exact ⟨rfl, rfl, rfl, rfl⟩

structure Sim (strict : Bool) (g : Graph) (n : Nat) : Prop where
  fl : ∀ (m m' : CMemo) f t d u, AllValid g m → cFlowNames strict g n m f = some (m', t, d, u) →
        Good g m m' d u (.fl f) (.t t)
  pn : ∀ (m m' : CMemo) fr t d u, g.flow? fr.id = some fr → AllValid g m →
        cParentNames strict g n m fr = some (m', t, d, u) → Good g m m' d u (.pn fr) (.t t)
  pt : ∀ (m m' : CMemo) ps ts d u, AllValid g m → cParentTables strict g n m ps = some (m', ts, d, u) →
        Good g m m' d u (.pt ps) (.ts ts)
  lp : ∀ (m m' : CMemo) l tg r d u, AllValid g m → cLoopNames strict g n m l tg = some (m', r, d, u) →
        Good g m m' d u (.lp l tg) (.o r)
  sc : ∀ (m m' : CMemo) s t d u, AllValid g m → cScopeNames strict g n m s = some (m', t, d, u) →
        Good g m m' d u (.sc s) (.t t)

theorem sim_fl {strict : Bool} {g : Graph} {n : Nat} (ih : Sim strict g n) (m m' : CMemo) (f : Nat) (t : Tbl) (d : Deps)
    (u : List Nat) (hok : AllValid g m) (h : cFlowNames strict g (n + 1) m f = some (m', t, d, u)) :
    Good g m m' d u (.fl f) (.t t) := by
  rw [cFlowNames] at h
  cases hs : m.hit? strict (.names f) with
  | none => simp only [hs] at h; cases h
  | some oe =>
  cases oe with
  | some e =>
    simp only [hs] at h
    obtain ⟨rfl, rfl, rfl, rfl⟩ := some4_inj h
    obtain ⟨hd, hu, hk⟩ := hit hok hs
    exact Good.refl hok hd hu hk
  | none =>
    simp only [hs] at h
    cases hfr : g.flow? f with
    | none => simp [hfr] at h
    | some fr =>
      simp only [hfr] at h
      obtain ⟨⟨m1, p, d1, u1⟩, hsub, hfin⟩ := bind_eq_some' h
      obtain ⟨rfl, rfl, rfl, rfl⟩ := some4_inj hfin
      have h1 := ih.pn m m1 fr p d1 u1 (by rw [flow?_id hfr]; exact hfr) hok hsub
      exact h1.store (k := .names f) (Ev.fl hfr h1.ev) (Ev.fl hfr h1.ev)

theorem sim_pn {strict : Bool} {g : Graph} {n : Nat} (ih : Sim strict g n) (m m' : CMemo) (fr : FlowRec) (t : Tbl)
    (d : Deps) (u : List Nat) (hfr : g.flow? fr.id = some fr) (hok : AllValid g m)
    (h : cParentNames strict g (n + 1) m fr = some (m', t, d, u)) :
    Good g m m' d u (.pn fr) (.t t) := by
  rw [cParentNames] at h
  cases hs : m.hit? strict (.pnames fr.id) with
  | none => simp only [hs] at h; cases h
  | some oe =>
  cases oe with
  | some e =>
    simp only [hs] at h
    obtain ⟨rfl, rfl, rfl, rfl⟩ := some4_inj h
    obtain ⟨hd, hu, hk⟩ := hit hok hs
    exact Good.refl hok hd hu (hk fr hfr)
  | none =>
    simp only [hs] at h
    obtain ⟨⟨m1, t1, d1, u1⟩, hX, hfin⟩ := bind_eq_some' h
    obtain ⟨rfl, rfl, rfl, rfl⟩ := some4_inj hfin
    suffices hg : Good g m m1 d1 u1 (.pn fr) (.t t1) by
      refine hg.store (k := .pnames fr.id) ?_ hg.ev
      intro fr' hfr'
      rw [hfr] at hfr'
      cases hfr'
      exact hg.ev
    generalize hps : fr.parents = ps at hX
    match ps, hps with
    | [], hps =>
      simp only [] at hX
      cases hsc : g.scope? fr.scope with
      | none => simp [hsc] at hX
      | some sc =>
        simp only [hsc] at hX
        cases hpar : sc.parent with
        | none =>
          simp only [hpar] at hX
          obtain ⟨rfl, rfl, rfl, rfl⟩ := some4_inj hX
          exact Good.refl hok (by simp) (by simp) (Ev.pnRoot hps hsc hpar)
        | some ps' =>
          simp only [hpar] at hX
          obtain ⟨⟨m1', outer, d', u'⟩, hsub, hfin2⟩ := bind_eq_some' hX
          have hw : m1' = m1 ∧ scopeWrap sc outer = t1 ∧ d' = d1 ∧ u' = u1 := by
            unfold scopeWrap
            cases hk : sc.kind <;> simp only [hk] at hfin2 ⊢ <;> exact some4_inj hfin2
          obtain ⟨rfl, rfl, rfl, rfl⟩ := hw
          exact (ih.sc m m1' ps' outer d' u' hok hsub).map (Ev.pnScope hps hsc hpar)
    | [Parent.flow p], hps =>
      simp only [] at hX
      exact (ih.fl m m1 p t1 d1 u1 hok hX).map (Ev.pnFlow hps)
    | [Parent.loop l tg], hps =>
      simp only [] at hX
      obtain ⟨⟨m1', r, d', u'⟩, hsub, hfin2⟩ := bind_eq_some' hX
      obtain ⟨rfl, rfl, rfl, rfl⟩ := some4_inj hfin2
      exact (ih.lp m m1' l tg r d' u' hok hsub).map (Ev.pnLoop hps)
    | a :: b :: rest, hps =>
      simp only [] at hX
      obtain ⟨⟨m1', ts, d', u'⟩, hsub, hfin2⟩ := bind_eq_some' hX
      obtain ⟨rfl, rfl, rfl, rfl⟩ := some4_inj hfin2
      exact (ih.pt m m1' (a :: b :: rest) ts d' u' hok hsub).map (Ev.pnMany hps)

theorem sim_pt {strict : Bool} {g : Graph} {n : Nat} (ih : Sim strict g n) (m m' : CMemo) (ps : List Parent)
    (ts : List Tbl) (d : Deps) (u : List Nat) (hok : AllValid g m)
    (h : cParentTables strict g (n + 1) m ps = some (m', ts, d, u)) :
    Good g m m' d u (.pt ps) (.ts ts) := by
  match ps with
  | [] =>
    rw [cParentTables] at h
    obtain ⟨rfl, rfl, rfl, rfl⟩ := some4_inj h
    exact Good.refl hok (by simp) (by simp) Ev.ptNil
  | Parent.flow p :: rest =>
    rw [cParentTables] at h
    obtain ⟨⟨m1, t1, d1, u1⟩, hsub1, h2⟩ := bind_eq_some' h
    obtain ⟨⟨m2, ts2, d2, u2⟩, hsub2, hfin⟩ := bind_eq_some' h2
    obtain ⟨rfl, rfl, rfl, rfl⟩ := some4_inj hfin
    have g1 := ih.fl m m1 p t1 d1 u1 hok hsub1
    have g2 := ih.pt m1 m2 rest ts2 d2 u2 g1.valid hsub2
    exact g1.seq g2 (fun W e1 e2 => Ev.ptFlow e1 e2)
  | Parent.loop l tg :: rest =>
    rw [cParentTables] at h
    obtain ⟨⟨m1, r, d1, u1⟩, hsub1, h2⟩ := bind_eq_some' h
    obtain ⟨⟨m2, ts2, d2, u2⟩, hsub2, hfin⟩ := bind_eq_some' h2
    have hfin' : m2 = m' ∧ consOpt r ts2 = ts ∧ d1.union d2 = d ∧ u1 ++ u2 = u := by
      unfold consOpt
      cases r <;> exact some4_inj hfin
    obtain ⟨rfl, rfl, rfl, rfl⟩ := hfin'
    have g1 := ih.lp m m1 l tg r d1 u1 hok hsub1
    have g2 := ih.pt m1 m2 rest ts2 d2 u2 g1.valid hsub2
    exact g1.seq g2 (fun W e1 e2 => Ev.ptLoop e1 e2)

theorem sim_sc {strict : Bool} {g : Graph} {n : Nat} (ih : Sim strict g n) (m m' : CMemo) (s : Nat) (t : Tbl) (d : Deps)
    (u : List Nat) (hok : AllValid g m) (h : cScopeNames strict g (n + 1) m s = some (m', t, d, u)) :
    Good g m m' d u (.sc s) (.t t) := by
  rw [cScopeNames] at h
  cases hsc : g.scope? s with
  | none => simp [hsc] at h
  | some sc =>
    simp only [hsc] at h
    cases hk : sc.kind with
    | builtin =>
      simp only [hk] at h
      obtain ⟨rfl, rfl, rfl, rfl⟩ := some4_inj h
      exact Good.refl hok (by simp) (by simp) (Ev.scBuiltin hsc hk)
    | module =>
      simp only [hk] at h
      obtain ⟨⟨m1, t1, d1, u1⟩, hsub, hfin⟩ := bind_eq_some' h
      obtain ⟨rfl, rfl, rfl, rfl⟩ := some4_inj hfin
      exact (ih.fl m m1 sc.final t1 d1 u1 hok hsub).map (Ev.scModule hsc hk)
    | func =>
      simp only [hk] at h
      exact (ih.fl m m' sc.final t d u hok h).map (Ev.scFunc hsc hk)
    | cls =>
      simp only [hk] at h
      cases hp : sc.parent with
      | none => simp [hp] at h
      | some p =>
        simp only [hp] at h
        exact (ih.sc m m' p t d u hok h).map (Ev.scCls hsc hk hp)

theorem inProgress_some {m : CMemo} {l n : Nat} (h : m.inProgress? l = some n) :
    (l, n) ∈ m.resolving := by
  unfold CMemo.inProgress? at h
  obtain ⟨r, hr, rfl⟩ := Option.map_eq_some_iff.mp h
  have h1 := List.mem_of_find?_eq_some hr
  have h2 : r.1 = l := by simpa using List.find?_some hr
  rw [← h2]
  exact h1

theorem inProgress_none {m : CMemo} {l : Nat} (h : m.inProgress? l = none) :
    ∀ r ∈ m.resolving, r.1 ≠ l := by
  unfold CMemo.inProgress? at h
  rw [Option.map_eq_none_iff] at h
  intro r hr
  have := List.find?_eq_none.mp h r hr
  simpa using this

theorem sim_lp {strict : Bool} {g : Graph} {n : Nat} (ih : Sim strict g n) (m m' : CMemo) (l tg : Nat) (r : Option Tbl)
    (d : Deps) (u : List Nat) (hok : AllValid g m)
    (h : cLoopNames strict g (n + 1) m l tg = some (m', r, d, u)) :
    Good g m m' d u (.lp l tg) (.o r) := by
  rw [cLoopNames] at h
  cases hip : m.inProgress? l with
  | some k =>
    simp only [hip] at h
    obtain ⟨rfl, rfl, rfl, rfl⟩ := some4_inj h
    have hmem := inProgress_some hip
    refine Good.refl hok ?_ (by simp) ?_
    · intro r hr
      rcases List.mem_singleton.mp hr with rfl
      exact hmem
    · refine Ev.lpCut ?_ ?_
      · simpa using mem_loops_of_mem hmem
      · simp [loops]
  | none =>
    simp only [hip] at h
    have hno := inProgress_none hip
    have hnotin : l ∉ loops m.resolving := by
      intro hl
      obtain ⟨r, hr, rfl⟩ := List.mem_map.mp hl
      exact hno r hr rfl
    cases hs : m.hit? strict (.loop l tg) with
    | none => simp only [hs] at h; cases h
    | some oe =>
    cases oe with
    | some e =>
      simp only [hs] at h
      obtain ⟨rfl, rfl, rfl, rfl⟩ := some4_inj h
      obtain ⟨hd, hu, hk⟩ := hit hok hs
      exact Good.refl hok hd hu hk
    | none =>
      simp only [hs] at h
      obtain ⟨⟨m2, t2, d2, u2⟩, hsub, hfin⟩ := bind_eq_some' h
      obtain ⟨rfl, rfl, rfl, rfl⟩ := some4_inj hfin
      have g1 := ih.fl _ m2 tg t2 d2 u2 (show AllValid g
        { m with started := m.started + 1, resolving := (l, m.started + 1) :: m.resolving } from hok) hsub
      have hres2 : m2.resolving = (l, m.started + 1) :: m.resolving := g1.res
      have hfilt : m2.resolving.filter (fun r => r.1 ≠ l) = m.resolving := by
        rw [hres2, List.filter_cons]
        simp only [ne_eq, not_true_eq_false, decide_false, Bool.false_eq_true, if_false]
        rw [List.filter_eq_self]
        intro r hr
        simpa using hno r hr
      -- facts about the returned deps / used
      have hd : ∀ r ∈ d2.filter (fun r => r.1 ≠ l), r ∈ m.resolving := by
        intro r hr
        obtain ⟨hr1, hr2⟩ := List.mem_filter.mp hr
        have := g1.dsub r hr1
        simp only [List.mem_cons] at this
        rcases this with rfl | h'
        · simp at hr2
        · exact h'
      have hu : ∀ x ∈ l :: u2, x ∉ loops m.resolving := by
        intro x hx
        rcases List.mem_cons.mp hx with rfl | hx
        · exact hnotin
        · intro hx'
          exact g1.udis x hx (by simp only [loops_cons]; exact List.mem_cons_of_mem _ hx')
      have hev : Ev g (loops (d2.filter (fun r => r.1 ≠ l)) ++ l :: u2) (loops m.resolving)
          (.lp l tg) (.o (some t2)) := by
        refine Ev.lpRes (by simpa using hnotin) (by simp) ?_
        have e1 := g1.ev
        simp only [loops_cons] at e1
        refine e1.weaken ?_
        intro x hx
        rcases List.mem_append.mp hx with h' | h'
        · obtain ⟨r, hr, rfl⟩ := List.mem_map.mp h'
          by_cases hrl : r.1 = l
          · rw [hrl]; simp
          · exact List.mem_append_left _ (mem_loops_of_mem (List.mem_filter.mpr ⟨hr, by simpa using hrl⟩))
        · exact List.mem_append_right _ (List.mem_cons_of_mem _ h')
      refine ⟨?_, ?_, hd, hu, hev⟩
      · exact valid_put (S := m.resolving) (m1 := { m2 with resolving := _ }) g1.valid hd hu hev
      · exact hfilt

theorem sim (strict : Bool) (g : Graph) : ∀ n, Sim strict g n := by
  intro n
  induction n with
  | zero =>
    constructor <;> intros <;>
      simp_all [cFlowNames, cParentNames, cParentTables, cLoopNames, cScopeNames]
  | succ n ih =>
    exact ⟨sim_fl ih, fun m m' fr t d u hfr hok h => sim_pn ih m m' fr t d u hfr hok h, sim_pt ih,
      sim_lp ih, sim_sc ih⟩

/-- a checked query from a state with nothing in progress answers with the pure table -/
theorem cNamesAt_sound {strict : Bool} {g : Graph} {n : Nat} {m m1 : CMemo} {f : Nat} {pos : Pos} {t : Tbl}
    (hok : AllValid g m) (hres : m.resolving = []) (h : cNamesAt strict g n m f pos = some (m1, t)) :
    AllValid g m1 ∧ m1.resolving = [] ∧ ∃ n', namesAt g n' [] f pos = some t := by
  unfold cNamesAt at h
  cases hfr : g.flow? f with
  | none => simp [hfr] at h
  | some fr =>
    simp only [hfr] at h
    obtain ⟨⟨m1', p, d, u⟩, hsub, hfin⟩ := bind_eq_some' h
    simp only [Option.pure_def, Option.some.injEq, Prod.mk.injEq] at hfin
    obtain ⟨rfl, rfl⟩ := hfin
    have g1 := (sim strict g n).pn m m1' fr p d u (by rw [flow?_id hfr]; exact hfr) hok hsub
    refine ⟨g1.valid, g1.res.trans hres, ?_⟩
    have hp : EvPn g [] fr p := by
      have := g1.ev.pure
      rw [hres] at this
      exact this
    obtain ⟨n', hn'⟩ := hp
    exact ⟨n', by unfold namesAt; simp [hfr, hn']⟩

/-- the checked evaluator (either discipline) is history independent, on every graph -/
theorem runQueriesWith_sound (strict : Bool) (g : Graph) (n : Nat) (qs : List Query) :
    ∀ (m : CMemo), AllValid g m → m.resolving = [] → ∀ (i : Nat) (q : Query) (a : Option Val),
      qs[i]? = some q → (runQueriesWith strict g n m qs)[i]? = some (some a) →
      ∃ n', lookupAt g n' q.flow q.pos q.key = some a := by
  induction qs with
  | nil => intro m _ _ i q a hq; simp at hq
  | cons q0 qs ih =>
    intro m hok hres i q a hq ha
    rw [runQueriesWith] at ha
    cases hc : cNamesAt strict g n m q0.flow q0.pos with
    | none =>
      simp only [hc] at ha
      cases i with
      | zero => simp at ha
      | succ i =>
        simp only [List.getElem?_cons_succ] at hq ha
        exact ih m hok hres i q a hq ha
    | some res =>
      obtain ⟨m1, t⟩ := res
      simp only [hc] at ha
      obtain ⟨hok1, hres1, n', hn'⟩ := cNamesAt_sound hok hres hc
      cases i with
      | zero =>
        simp only [List.getElem?_cons_zero, Option.some.injEq] at hq ha
        subst hq
        subst ha
        exact ⟨n', by unfold lookupAt; simp [hn']⟩
      | succ i =>
        simp only [List.getElem?_cons_succ] at hq ha
        exact ih m1 hok1 hres1 i q a hq ha

end SuppModel.Flow
