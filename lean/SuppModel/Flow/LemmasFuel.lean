/-
  Fuel lemmas for the pure evaluator of Graph.lean: an answer given with fuel `n` is given,
  unchanged, with every larger fuel; hence two answers (any two fuels) are equal.
-/
import SuppModel.Flow.Memo
namespace SuppModel.Flow

/-- `o'` answers whenever `o` does, with the same answer -/
def Le {α} (o o' : Option α) : Prop := ∀ a, o = some a → o' = some a

theorem Le.refl {α} (o : Option α) : Le o o := fun _ h => h
theorem Le.none {α} (o : Option α) : Le none o := fun _ h => by simp at h
theorem Le.bind {α β} {o o' : Option α} {f f' : α → Option β} (h : Le o o') (hf : ∀ a, Le (f a) (f' a)) :
    Le (o >>= f) (o' >>= f') := by
  intro b hb
  cases ho : o with
  | none => simp [ho] at hb
  | some a => simp [ho] at hb; simp [h a ho, hf a b hb]

theorem bind_eq_some' {α β} {o : Option α} {f : α → Option β} {b : β} (h : (o >>= f) = some b) :
    ∃ a, o = some a ∧ f a = some b := by
  cases o with
  | none => simp at h
  | some a => exact ⟨a, rfl, by simpa using h⟩

structure Mono (g : Graph) (n : Nat) : Prop where
  fl : ∀ R f, Le (flowNames g n R f) (flowNames g (n+1) R f)
  pn : ∀ R fr, Le (parentNames g n R fr) (parentNames g (n+1) R fr)
  pt : ∀ R ps, Le (parentTables g n R ps) (parentTables g (n+1) R ps)
  lp : ∀ R l tg, Le (loopNames g n R l tg) (loopNames g (n+1) R l tg)
  sc : ∀ R s, Le (scopeNames g n R s) (scopeNames g (n+1) R s)

theorem mono_step (g : Graph) : ∀ n, Mono g n := by
  intro n
  induction n with
  | zero => constructor <;> intros <;> simp [flowNames, parentNames, parentTables, loopNames, scopeNames, Le.none]
  | succ n ih =>
    constructor
    · intro R f
      rw [flowNames, flowNames]
      cases g.flow? f with
      | none => exact Le.refl _
      | some fr => exact Le.bind (ih.pn _ _) (fun _ => Le.refl _)
    · intro R fr
      rw [parentNames, parentNames]
      generalize fr.parents = ps
      match ps with
      | [] =>
        simp only []
        cases g.scope? fr.scope with
        | none => exact Le.refl _
        | some sc =>
          simp only []
          cases sc.parent with
          | none => exact Le.refl _
          | some ps => exact Le.bind (ih.sc _ _) (fun _ => Le.refl _)
      | [Parent.flow p] => exact ih.fl _ _
      | [Parent.loop l t] => exact Le.bind (ih.lp _ _ _) (fun _ => Le.refl _)
      | _ :: _ :: _ => simp only []; exact Le.bind (ih.pt _ _) (fun _ => Le.refl _)
    · intro R ps
      match ps with
      | [] => rw [parentTables, parentTables]; exact Le.refl _
      | Parent.flow p :: rest =>
        rw [parentTables, parentTables]
        exact Le.bind (ih.fl _ _) (fun _ => Le.bind (ih.pt _ _) (fun _ => Le.refl _))
      | Parent.loop l t :: rest =>
        rw [parentTables, parentTables]
        exact Le.bind (ih.lp _ _ _) (fun _ => Le.bind (ih.pt _ _) (fun _ => Le.refl _))
    · intro R l tg
      rw [loopNames, loopNames]
      split
      · exact Le.refl _
      · exact Le.bind (ih.fl _ _) (fun _ => Le.refl _)
    · intro R s
      rw [scopeNames, scopeNames]
      cases g.scope? s with
      | none => exact Le.refl _
      | some sc =>
        simp only []
        cases sc.kind with
        | builtin => exact Le.refl _
        | module => exact Le.bind (ih.fl _ _) (fun _ => Le.refl _)
        | func => exact ih.fl _ _
        | cls =>
          simp only []
          cases sc.parent with
          | none => exact Le.refl _
          | some p => exact ih.sc _ _

theorem Le.trans {α} {a b c : Option α} (h₁ : Le a b) (h₂ : Le b c) : Le a c :=
  fun x h => h₂ x (h₁ x h)

theorem Le.of_step {α} (F : Nat → Option α) (h : ∀ n, Le (F n) (F (n + 1))) {n n' : Nat}
    (hn : n ≤ n') : Le (F n) (F n') := by
  induction hn with
  | refl => exact Le.refl _
  | step _ ih => exact Le.trans ih (h _)

/-- two answers of a fuel-monotone function are equal -/
theorem Le.det {α} (F : Nat → Option α) (h : ∀ n, Le (F n) (F (n + 1))) {n n' : Nat} {a b : α}
    (ha : F n = some a) (hb : F n' = some b) : a = b := by
  have h1 := Le.of_step F h (Nat.le_max_left n n') a ha
  have h2 := Le.of_step F h (Nat.le_max_right n n') b hb
  rw [h1] at h2
  exact Option.some.inj h2

theorem flowNames_mono (g : Graph) {n n' : Nat} (hn : n ≤ n') (R f) :
    Le (flowNames g n R f) (flowNames g n' R f) :=
  Le.of_step (fun n => flowNames g n R f) (fun n => (mono_step g n).fl R f) hn
theorem parentNames_mono (g : Graph) {n n' : Nat} (hn : n ≤ n') (R fr) :
    Le (parentNames g n R fr) (parentNames g n' R fr) :=
  Le.of_step (fun n => parentNames g n R fr) (fun n => (mono_step g n).pn R fr) hn
theorem parentTables_mono (g : Graph) {n n' : Nat} (hn : n ≤ n') (R ps) :
    Le (parentTables g n R ps) (parentTables g n' R ps) :=
  Le.of_step (fun n => parentTables g n R ps) (fun n => (mono_step g n).pt R ps) hn
theorem loopNames_mono (g : Graph) {n n' : Nat} (hn : n ≤ n') (R l tg) :
    Le (loopNames g n R l tg) (loopNames g n' R l tg) :=
  Le.of_step (fun n => loopNames g n R l tg) (fun n => (mono_step g n).lp R l tg) hn
theorem scopeNames_mono (g : Graph) {n n' : Nat} (hn : n ≤ n') (R s) :
    Le (scopeNames g n R s) (scopeNames g n' R s) :=
  Le.of_step (fun n => scopeNames g n R s) (fun n => (mono_step g n).sc R s) hn

theorem flowNames_det (g : Graph) {n n' : Nat} {R f} {a b : Tbl}
    (ha : flowNames g n R f = some a) (hb : flowNames g n' R f = some b) : a = b :=
  Le.det (fun n => flowNames g n R f) (fun n => (mono_step g n).fl R f) ha hb
theorem parentNames_det (g : Graph) {n n' : Nat} {R fr} {a b : Tbl}
    (ha : parentNames g n R fr = some a) (hb : parentNames g n' R fr = some b) : a = b :=
  Le.det (fun n => parentNames g n R fr) (fun n => (mono_step g n).pn R fr) ha hb

theorem namesAt_mono (g : Graph) {n n' : Nat} (hn : n ≤ n') (R f pos) :
    Le (namesAt g n R f pos) (namesAt g n' R f pos) := by
  unfold namesAt
  cases g.flow? f with
  | none => exact Le.refl _
  | some fr => exact Le.bind (parentNames_mono g hn R fr) (fun _ => Le.refl _)

theorem lookupAt_mono (g : Graph) {n n' : Nat} (hn : n ≤ n') (f pos x) :
    Le (lookupAt g n f pos x) (lookupAt g n' f pos x) := by
  intro a h
  unfold lookupAt at h ⊢
  cases hna : namesAt g n [] f pos with
  | none => simp [hna] at h
  | some t => simp [hna] at h; simp [namesAt_mono g hn [] f pos t hna, h]

/-- C04_pure_deterministic -/
theorem lookupAt_det (g : Graph) (n n' : Nat) (f : Nat) (pos : Pos) (x : String)
    (a b : Option Val) (ha : lookupAt g n f pos x = some a) (hb : lookupAt g n' f pos x = some b) :
    a = b := by
  have h1 := lookupAt_mono g (Nat.le_max_left n n') f pos x a ha
  have h2 := lookupAt_mono g (Nat.le_max_right n n') f pos x b hb
  rw [h1] at h2
  exact Option.some.inj h2

end SuppModel.Flow
