/-
  Proof files of the Flow family (C04):
    LemmasFuel       fuel monotonicity / determinism of the pure evaluator (Graph.lean)
    LemmasPure       "some fuel suffices" introduction rules for the pure evaluator
    LemmasTagged     the tagged pure evaluator (which loops a computation consults) and locality
    LemmasTaggedSim  the checked evaluator (Checked.lean) is a memoisation of the pure one
    LemmasTaggedLe   the checked evaluator is Memo.lean's evaluator, except that it may give up
    LemmasTaggedTotal  same-fuel completeness of Memo.lean's evaluator
    LemmasTaggedExact  same-fuel completeness of the exact evaluator (Checked.lean, strict = false)
    LemmasRank       totality of the evaluator on ranked graphs (Rank.lean), explicit fuel
-/
import SuppModel.Flow.Memo
import SuppModel.Flow.Checked
import SuppModel.Flow.LemmasFuel
import SuppModel.Flow.LemmasPure
import SuppModel.Flow.LemmasTagged
import SuppModel.Flow.LemmasTaggedSim
import SuppModel.Flow.LemmasTaggedLe
import SuppModel.Flow.LemmasTaggedTotal
import SuppModel.Flow.LemmasTaggedExact
import SuppModel.Flow.LemmasRank
