/-
  C05: which bindings a table can contain.
    * what `Graph.wf` gives (`WF`), ownership of the bindings of a flow / of the module's globals;
    * entrywise predicates on tables (`TblAll`) through `++`, `filter`, `mergeTables`;
    * lookup chains: stable in the fuel once the parent chain ends (`reachesRoot`);
    * `chainInv`: every binding in a table is owned by a scope of the lookup chain;
    * `locInv`: in a function scope, a key in `locals` only has own bindings or "undefined".
-/
import SuppModel.Flow.Scoping
import SuppModel.Flow.LemmasFuel
namespace SuppModel.Flow

/-! ### duplicate-free ids -/

theorem eraseDups_length_le (l : List Nat) : l.eraseDups.length ≤ l.length := by
  match l with
  | [] => simp
  | a :: as =>
    rw [List.eraseDups_cons]
    have h1 := eraseDups_length_le (as.filter (fun b => !b == a))
    have h2 := List.length_filter_le (fun b => !b == a) as
    simp only [List.length_cons]
    omega
termination_by l.length
decreasing_by
  have := List.length_filter_le (fun b => !b == a) as
  simp only [List.length_cons]
  omega

theorem nodup_of_eraseDups (l : List Nat) (h : l.eraseDups.length = l.length) : l.Nodup := by
  match l with
  | [] => exact List.nodup_nil
  | a :: as =>
    rw [List.eraseDups_cons] at h
    have h1 := eraseDups_length_le (as.filter (fun b => !b == a))
    have h2 := List.length_filter_le (fun b => !b == a) as
    simp only [List.length_cons] at h
    have hf : (as.filter (fun b => !b == a)).length = as.length := by omega
    have hall := List.length_filter_eq_length_iff.mp hf
    have hfe : as.filter (fun b => !b == a) = as := List.filter_eq_self.mpr hall
    rw [hfe] at h
    have ih := nodup_of_eraseDups as (by omega)
    rw [List.nodup_cons]
    refine ⟨?_, ih⟩
    intro hmem
    have := hall a hmem
    simp at this
termination_by l.length

theorem find?_of_nodup {l : List NameRec} (hn : (l.map (·.id)).Nodup) {n : NameRec} (hm : n ∈ l) :
    l.find? (·.id == n.id) = some n := by
  induction l with
  | nil => cases hm
  | cons a l ih =>
    rw [List.map_cons, List.nodup_cons] at hn
    rw [List.find?_cons]
    rcases List.mem_cons.mp hm with rfl | hm
    · simp
    · have hne : (a.id == n.id) = false := by
        rw [beq_eq_false_iff_ne]
        intro he
        exact hn.1 (he ▸ List.mem_map_of_mem hm)
      rw [hne]
      exact ih hn.2 hm

theorem eq_of_length_le_one {α} {l : List α} (h : l.length ≤ 1) {a b : α} (ha : a ∈ l) (hb : b ∈ l) :
    a = b := by
  match l, h with
  | [x], _ =>
    rw [List.mem_singleton] at ha hb
    rw [ha, hb]

/-! ### what well-formedness gives -/

def ParentIn (g : Graph) (S : Nat) : Parent → Prop
  | .flow q => ∃ fq, g.flow? q = some fq ∧ fq.scope = S
  | .loop _ t => ∃ ft, g.flow? t = some ft ∧ ft.scope = S

structure WF (g : Graph) : Prop where
  nodup : ((g.flows.flatMap (·.names) ++ g.scopes.flatMap (·.globals)).map (·.id)).Nodup
  names : ∀ fr ∈ g.flows, ∀ n ∈ fr.names, n.scope = fr.scope
  parents : ∀ fr ∈ g.flows, ∀ p ∈ fr.parents, ParentIn g fr.scope p
  final : ∀ s ∈ g.scopes, (∃ ff, g.flow? s.final = some ff ∧ ff.scope = s.id) ∨ s.kind = .builtin
  onemod : (g.scopes.filter (fun s => s.kind == .module)).length ≤ 1
  root : ∀ s ∈ g.scopes, reachesRoot g (g.scopes.length + 1) s.id = true
  scope : ∀ fr ∈ g.flows, ∃ sc, g.scope? fr.scope = some sc

theorem any_some {α} {o : Option α} {p : α → Bool} (h : o.any p = true) : ∃ a, o = some a ∧ p a = true := by
  cases o with
  | none => simp at h
  | some a => exact ⟨a, rfl, by simpa using h⟩

theorem WF.of (g : Graph) (h : g.wf = true) : WF g := by
  unfold Graph.wf at h
  simp only [Bool.and_eq_true, List.all_eq_true, beq_iff_eq, decide_eq_true_eq, Bool.or_eq_true] at h
  obtain ⟨⟨⟨⟨⟨⟨⟨h1, _⟩, _⟩, h4⟩, h5⟩, h6⟩, h7⟩, h8⟩ := h
  refine ⟨nodup_of_eraseDups _ (by rw [h1, List.length_map]), fun fr hfr => (h4 fr hfr).1, ?_, ?_, h6, h7, ?_⟩
  · intro fr hfr p hp
    have := (h4 fr hfr).2 p hp
    cases p with
    | flow q =>
      obtain ⟨fq, e1, e2⟩ := any_some this
      exact ⟨fq, e1, by simpa using e2⟩
    | loop l t =>
      obtain ⟨ft, e1, e2⟩ := any_some this
      exact ⟨ft, e1, by simpa using e2⟩
  · intro s hs
    rcases h5 s hs with h | h
    · obtain ⟨ff, e1, e2⟩ := any_some h
      exact Or.inl ⟨ff, e1, by simpa using e2⟩
    · exact Or.inr h
  · intro fr hfr
    exact Option.isSome_iff_exists.mp (h8 fr hfr)

theorem flow?_mem {g : Graph} {f : Nat} {fr : FlowRec} (h : g.flow? f = some fr) : fr ∈ g.flows :=
  List.mem_of_find?_eq_some h

theorem scope?_mem {g : Graph} {s : Nat} {sc : ScopeRec} (h : g.scope? s = some sc) :
    sc ∈ g.scopes ∧ sc.id = s :=
  ⟨List.mem_of_find?_eq_some h, by simpa using List.find?_some h⟩

/-! ### ownership -/

theorem mem_allNames_flow {g : Graph} {fr : FlowRec} {n : NameRec} (hfr : fr ∈ g.flows)
    (hn : n ∈ fr.names) : n ∈ g.flows.flatMap (·.names) ++ g.scopes.flatMap (·.globals) :=
  List.mem_append_left _ (List.mem_flatMap.mpr ⟨fr, hfr, hn⟩)

theorem mem_allNames_global {g : Graph} {sc : ScopeRec} {n : NameRec} (hsc : sc ∈ g.scopes)
    (hn : n ∈ sc.globals) : n ∈ g.flows.flatMap (·.names) ++ g.scopes.flatMap (·.globals) :=
  List.mem_append_right _ (List.mem_flatMap.mpr ⟨sc, hsc, hn⟩)

/-- a binding of a flow: found by its id, not global, owned by the flow's scope -/
theorem own_flow {g : Graph} (w : WF g) {fr : FlowRec} {n : NameRec} (hfr : fr ∈ g.flows)
    (hn : n ∈ fr.names) :
    g.name? n.id = some n ∧ g.isGlobal n.id = false ∧ g.owner? n.id = some fr.scope := by
  have h1 : g.name? n.id = some n := find?_of_nodup w.nodup (mem_allNames_flow hfr hn)
  have h2 : g.isGlobal n.id = false := by
    cases hg : g.isGlobal n.id with
    | false => rfl
    | true =>
      unfold Graph.isGlobal at hg
      rw [List.any_eq_true] at hg
      obtain ⟨n', hn', he⟩ := hg
      have hnd := w.nodup
      rw [List.map_append, List.nodup_append] at hnd
      have := hnd.2.2 n.id (List.mem_map_of_mem (List.mem_flatMap.mpr ⟨fr, hfr, hn⟩)) n'.id
        (List.mem_map_of_mem hn')
      exact absurd (by simpa using he : n'.id = n.id).symm this
  refine ⟨h1, h2, ?_⟩
  unfold Graph.owner?
  rw [h2, h1]
  simp [w.names fr hfr n hn]

/-- a global of the module scope is owned by the module -/
theorem own_global {g : Graph} (w : WF g) {sc : ScopeRec} {n : NameRec} (hsc : sc ∈ g.scopes)
    (hk : sc.kind = .module) (hn : n ∈ sc.globals) : g.owner? n.id = some sc.id := by
  have h1 : g.isGlobal n.id = true := by
    unfold Graph.isGlobal
    rw [List.any_eq_true]
    exact ⟨n, List.mem_flatMap.mpr ⟨sc, hsc, hn⟩, by simp⟩
  unfold Graph.owner?
  rw [h1]
  simp only [if_true]
  have hfind : ∃ sc', g.scopes.find? (fun s => s.kind == .module) = some sc' := by
    cases hf : g.scopes.find? (fun s => s.kind == .module) with
    | some sc' => exact ⟨sc', rfl⟩
    | none =>
      have := List.find?_eq_none.mp hf sc hsc
      simp [hk] at this
  obtain ⟨sc', hf⟩ := hfind
  have hk' : (sc'.kind == ScopeKind.module) = true :=
    List.find?_some (p := fun (s : ScopeRec) => s.kind == ScopeKind.module) hf
  have m1 : sc' ∈ g.scopes.filter (fun s => s.kind == .module) :=
    List.mem_filter.mpr ⟨List.mem_of_find?_eq_some hf, hk'⟩
  have m2 : sc ∈ g.scopes.filter (fun s => s.kind == .module) :=
    List.mem_filter.mpr ⟨hsc, by simp [hk]⟩
  rw [hf, eq_of_length_le_one w.onemod m1 m2]
  rfl

/-! ### entrywise predicates on tables -/

def TblAll (Q : String → Alt → Prop) (t : Tbl) : Prop := ∀ k v, (k, v) ∈ t → ∀ a ∈ v, Q k a

theorem TblAll.nil {Q} : TblAll Q [] := by intro k v h; cases h

theorem TblAll.append {Q t1 t2} (h1 : TblAll Q t1) (h2 : TblAll Q t2) : TblAll Q (t1 ++ t2) := by
  intro k v h
  rcases List.mem_append.mp h with h | h
  · exact h1 k v h
  · exact h2 k v h

theorem TblAll.filter {Q t} (p : String × Val → Bool) (h : TblAll Q t) : TblAll Q (t.filter p) :=
  fun k v hm => h k v (List.mem_filter.mp hm).1

theorem TblAll.mono {Q Q' : String → Alt → Prop} {t} (h : TblAll Q t) (hq : ∀ k a, Q k a → Q' k a) :
    TblAll Q' t := fun k v hm a ha => hq k a (h k v hm a ha)

theorem mem_ownTable_aux (names : List NameRec) (acc : Tbl) (k : String) (v : Val)
    (h : (k, v) ∈ names.foldl (fun acc n => (n.name, [Alt.nm n.id]) :: acc) acc) :
    (k, v) ∈ acc ∨ ∃ n ∈ names, k = n.name ∧ v = [Alt.nm n.id] := by
  induction names generalizing acc with
  | nil => exact Or.inl h
  | cons a l ih =>
    rw [List.foldl_cons] at h
    rcases ih _ h with h | ⟨n, hn, e⟩
    · rcases List.mem_cons.mp h with h | h
      · cases h
        exact Or.inr ⟨a, List.mem_cons_self, rfl, rfl⟩
      · exact Or.inl h
    · exact Or.inr ⟨n, List.mem_cons_of_mem _ hn, e⟩

theorem mem_ownTable {names : List NameRec} {k : String} {v : Val} (h : (k, v) ∈ ownTable names) :
    ∃ n ∈ names, k = n.name ∧ v = [Alt.nm n.id] := by
  rcases mem_ownTable_aux names [] k v h with h | h
  · cases h
  · exact h

theorem globalsTable_eq (s : ScopeRec) : globalsTable s = ownTable s.globals := rfl

theorem TblAll.ownTable {Q : String → Alt → Prop} {names : List NameRec}
    (h : ∀ n ∈ names, Q n.name (Alt.nm n.id)) : TblAll Q (ownTable names) := by
  intro k v hm a ha
  obtain ⟨n, hn, rfl, rfl⟩ := mem_ownTable hm
  rcases List.mem_singleton.mp ha with rfl
  exact h n hn

theorem Tbl.get?_mem {t : Tbl} {k : String} {v : Val} (h : t.get? k = some v) : (k, v) ∈ t := by
  induction t with
  | nil => simp [Tbl.get?] at h
  | cons e t ih =>
    obtain ⟨k', v'⟩ := e
    rw [Tbl.get?] at h
    by_cases hk : k' = k
    · rw [if_pos hk] at h
      cases h
      rw [hk]
      exact List.mem_cons_self
    · rw [if_neg hk] at h
      exact List.mem_cons_of_mem _ (ih h)

theorem mem_insertAlt {a b : Alt} {l : List Alt} (h : a ∈ insertAlt b l) : a = b ∨ a ∈ l := by
  induction l with
  | nil => exact Or.inl (List.mem_singleton.mp h)
  | cons c l ih =>
    rw [insertAlt] at h
    split at h
    · exact Or.inr h
    · split at h
      · rcases List.mem_cons.mp h with h | h
        · exact Or.inl h
        · exact Or.inr h
      · rcases List.mem_cons.mp h with h | h
        · exact Or.inr (h ▸ List.mem_cons_self)
        · rcases ih h with h | h
          · exact Or.inl h
          · exact Or.inr (List.mem_cons_of_mem _ h)

theorem mem_canon {a : Alt} {l : List Alt} (h : a ∈ canon l) : a ∈ l := by
  unfold canon at h
  induction l with
  | nil => exact h
  | cons b l ih =>
    rw [List.foldr_cons] at h
    rcases mem_insertAlt h with h | h
    · exact h ▸ List.mem_cons_self
    · exact List.mem_cons_of_mem _ (ih h)

theorem TblAll.merge {Q : String → Alt → Prop} {ts : List Tbl} (h : ∀ t ∈ ts, TblAll Q t)
    (hu : ∀ k, Q k (Alt.undef k)) : TblAll Q (mergeTables ts) := by
  intro k v hm a ha
  unfold mergeTables at hm
  simp only [List.mem_map] at hm
  obtain ⟨k', _, he⟩ := hm
  have hk := (Prod.mk.inj he).1
  have hv := (Prod.mk.inj he).2
  subst hk
  rw [← hv] at ha
  have := mem_canon ha
  obtain ⟨t, ht, hat⟩ := List.mem_flatMap.mp this
  cases hg : t.get? k' with
  | none =>
    rw [hg] at hat
    rcases List.mem_singleton.mp hat with rfl
    exact hu k'
  | some v' =>
    rw [hg] at hat
    exact h t ht k' v' (Tbl.get?_mem hg) a hat

/-! ### lookup chains -/

theorem outerChain_stable (g : Graph) : ∀ k s, reachesRoot g k s = true →
    outerChain g (k + 1) s = outerChain g k s := by
  intro k
  induction k with
  | zero => intro s h; simp [reachesRoot] at h
  | succ k ih =>
    intro s h
    rw [reachesRoot] at h
    rw [outerChain, outerChain]
    cases hsc : g.scope? s with
    | none => rfl
    | some sc =>
      simp only [hsc] at h ⊢
      cases hp : sc.parent with
      | none => cases hk : sc.kind <;> rfl
      | some p =>
        simp only [hp] at h
        cases hk : sc.kind <;> simp only [ih p h]

theorem reachesRoot_parent {g : Graph} {k s : Nat} {sc : ScopeRec} {p : Nat}
    (hsc : g.scope? s = some sc) (hp : sc.parent = some p) (h : reachesRoot g (k + 1) s = true) :
    reachesRoot g k p = true := by
  rw [reachesRoot] at h
  simpa [hsc, hp] using h

/-- the scopes a binding may be owned by -/
def QC (g : Graph) (chain : List Nat) : String → Alt → Prop :=
  fun _ a => ∀ id, a = Alt.nm id → ∃ s, g.owner? id = some s ∧ s ∈ chain

theorem ownedBy_of_all {g : Graph} {chain : List Nat} {t : Tbl} (h : TblAll (QC g chain) t) :
    t.ownedBy g chain := fun k v hm id hid => h k v hm _ hid id rfl

theorem QC.sub {g : Graph} {c c' : List Nat} (h : ∀ s ∈ c, s ∈ c') (k : String) (a : Alt)
    (hq : QC g c k a) : QC g c' k a := by
  intro id hid
  obtain ⟨s, h1, h2⟩ := hq id hid
  exact ⟨s, h1, h _ h2⟩

theorem QC.undef {g : Graph} {c : List Nat} (k : String) : QC g c k (Alt.undef k) := by
  intro id hid; cases hid

theorem lookupChain_self {g : Graph} {s : Nat} {sc : ScopeRec} (h : g.scope? s = some sc) :
    s ∈ lookupChain g s := by
  unfold lookupChain
  rw [h]
  simp only []
  cases hp : sc.parent <;> simp

theorem lookupChain_some {g : Graph} {s p : Nat} {sc : ScopeRec} (h : g.scope? s = some sc)
    (hp : sc.parent = some p) :
    lookupChain g s = s :: outerChain g (g.scopes.length + 1) p := by
  unfold lookupChain
  rw [h]
  simp only [hp]

theorem lookupChain_none {g : Graph} {s : Nat} {sc : ScopeRec} (h : g.scope? s = some sc)
    (hp : sc.parent = none) : lookupChain g s = [s] := by
  unfold lookupChain
  rw [h]
  simp only [hp]

/-- seen from inside, a function or module scope contributes itself and what its own flows see -/
theorem lookupChain_eq_outer {g : Graph} {s : Nat} {sc : ScopeRec} (h : g.scope? s = some sc)
    (hk : sc.kind = .module ∨ sc.kind = .func)
    (hr : reachesRoot g (g.scopes.length + 1) s = true) :
    outerChain g (g.scopes.length + 1) s = lookupChain g s := by
  rw [outerChain]
  simp only [h]
  cases hp : sc.parent with
  | none =>
    rw [lookupChain_none h hp]
    rcases hk with hk | hk <;> simp only [hk]
  | some p =>
    rw [lookupChain_some h hp, outerChain_stable g _ p (reachesRoot_parent h hp hr)]
    rcases hk with hk | hk <;> simp only [hk]

theorem outerChain_cls {g : Graph} {s p : Nat} {sc : ScopeRec} (h : g.scope? s = some sc)
    (hk : sc.kind = .cls) (hp : sc.parent = some p)
    (hr : reachesRoot g (g.scopes.length + 1) s = true) :
    outerChain g (g.scopes.length + 1) s = outerChain g (g.scopes.length + 1) p := by
  rw [outerChain]
  simp only [h, hk, hp]
  exact (outerChain_stable g _ p (reachesRoot_parent h hp hr)).symm

theorem TblAll.builtin {g : Graph} {c : List Nat} : TblAll (QC g c) (builtinTable g) := by
  intro k v hm a ha id hid
  unfold builtinTable at hm
  obtain ⟨n, _, he⟩ := List.mem_map.mp hm
  have hv := (Prod.mk.inj he).2
  rw [← hv] at ha
  rcases List.mem_singleton.mp ha with rfl
  cases hid

theorem pure_eq_some {α} {a b : α} (h : (pure a : Option α) = some b) : a = b := by
  cases h; rfl

structure ChainInv (g : Graph) (n : Nat) : Prop where
  fl : ∀ R f fr t, g.flow? f = some fr → flowNames g n R f = some t →
        TblAll (QC g (lookupChain g fr.scope)) t
  pn : ∀ R fr t, fr ∈ g.flows → parentNames g n R fr = some t →
        TblAll (QC g (lookupChain g fr.scope)) t
  pt : ∀ R ps S ts, (∀ p ∈ ps, ParentIn g S p) → parentTables g n R ps = some ts →
        ∀ t ∈ ts, TblAll (QC g (lookupChain g S)) t
  lp : ∀ R l tg S t, (∃ ft, g.flow? tg = some ft ∧ ft.scope = S) →
        loopNames g n R l tg = some (some t) → TblAll (QC g (lookupChain g S)) t
  sc : ∀ R s t, scopeNames g n R s = some t →
        TblAll (QC g (outerChain g (g.scopes.length + 1) s)) t

theorem chainInv {g : Graph} (w : WF g) : ∀ n, ChainInv g n := by
  intro n
  induction n with
  | zero => constructor <;> intros <;> simp_all [flowNames, parentNames, parentTables, loopNames, scopeNames]
  | succ n ih =>
    constructor
    · intro R f fr t hf h
      rw [flowNames] at h
      simp only [hf] at h
      obtain ⟨p, hp, hfin⟩ := bind_eq_some' h
      have := pure_eq_some hfin
      subst this
      have hfr := flow?_mem hf
      obtain ⟨sc, hsc⟩ := w.scope fr hfr
      refine TblAll.append (TblAll.ownTable ?_) (ih.pn R fr p hfr hp)
      intro nr hnr id hid
      cases hid
      exact ⟨fr.scope, (own_flow w hfr hnr).2.2, lookupChain_self hsc⟩
    · intro R fr t hfr h
      rw [parentNames] at h
      have hpar := w.parents fr hfr
      generalize hps : fr.parents = ps at h hpar
      match ps, hps with
      | [], _ =>
        simp only [] at h
        cases hsc : g.scope? fr.scope with
        | none => simp [hsc] at h
        | some sc =>
          simp only [hsc] at h
          cases hp : sc.parent with
          | none =>
            simp only [hp] at h
            cases h
            exact TblAll.nil
          | some ps' =>
            simp only [hp] at h
            obtain ⟨outer, ho, hfin⟩ := bind_eq_some' h
            rw [lookupChain_some hsc hp]
            have hO : TblAll (QC g (fr.scope :: outerChain g (g.scopes.length + 1) ps')) outer :=
              (ih.sc R ps' outer ho).mono (QC.sub (fun s hs => List.mem_cons_of_mem _ hs))
            cases hk : sc.kind with
            | module =>
              simp only [hk] at hfin
              have := pure_eq_some hfin
              subst this
              refine TblAll.append ?_ hO
              rw [globalsTable_eq]
              refine TblAll.ownTable ?_
              intro nr hnr id hid
              cases hid
              refine ⟨fr.scope, ?_, List.mem_cons_self⟩
              have := own_global w (scope?_mem hsc).1 hk hnr
              rw [(scope?_mem hsc).2] at this
              exact this
            | cls =>
              simp only [hk] at hfin
              have := pure_eq_some hfin
              subst this
              exact hO
            | func =>
              simp only [hk] at hfin
              have := pure_eq_some hfin
              subst this
              exact hO.filter _
            | builtin =>
              simp only [hk] at hfin
              have := pure_eq_some hfin
              subst this
              exact hO.filter _
      | [Parent.flow p], _ =>
        simp only [] at h
        obtain ⟨fq, hq, hs⟩ := hpar (Parent.flow p) List.mem_cons_self
        have := ih.fl R p fq t hq h
        rwa [hs] at this
      | [Parent.loop l tg], _ =>
        simp only [] at h
        obtain ⟨r, hr, hfin⟩ := bind_eq_some' h
        have := pure_eq_some hfin
        subst this
        cases r with
        | none => exact TblAll.nil
        | some t' => exact ih.lp R l tg fr.scope t' (hpar (Parent.loop l tg) List.mem_cons_self) hr
      | a :: b :: rest, _ =>
        simp only [] at h
        obtain ⟨ts, hts, hfin⟩ := bind_eq_some' h
        have := pure_eq_some hfin
        subst this
        exact TblAll.merge (ih.pt R _ fr.scope ts hpar hts) QC.undef
    · intro R ps S ts hpar h
      match ps with
      | [] =>
        rw [parentTables] at h
        cases h
        intro t ht; cases ht
      | Parent.flow p :: rest =>
        rw [parentTables] at h
        obtain ⟨t1, h1, h2⟩ := bind_eq_some' h
        obtain ⟨ts2, h3, hfin⟩ := bind_eq_some' h2
        have := pure_eq_some hfin
        subst this
        obtain ⟨fq, hq, hs⟩ := hpar (Parent.flow p) List.mem_cons_self
        intro t ht
        rcases List.mem_cons.mp ht with rfl | ht
        · have := ih.fl R p fq t hq h1
          rwa [hs] at this
        · exact ih.pt R rest S ts2 (fun p hp => hpar p (List.mem_cons_of_mem _ hp)) h3 t ht
      | Parent.loop l tg :: rest =>
        rw [parentTables] at h
        obtain ⟨r, h1, h2⟩ := bind_eq_some' h
        obtain ⟨ts2, h3, hfin⟩ := bind_eq_some' h2
        have := pure_eq_some hfin
        subst this
        have hrest := ih.pt R rest S ts2 (fun p hp => hpar p (List.mem_cons_of_mem _ hp)) h3
        intro t ht
        cases r with
        | none => exact hrest t ht
        | some t' =>
          rcases List.mem_cons.mp ht with rfl | ht
          · exact ih.lp R l tg S t (hpar (Parent.loop l tg) List.mem_cons_self) h1
          · exact hrest t ht
    · intro R l tg S t hft h
      rw [loopNames] at h
      split at h
      · cases h
      · obtain ⟨t', ht', hfin⟩ := bind_eq_some' h
        have := pure_eq_some hfin
        cases this
        obtain ⟨ft, hq, hs⟩ := hft
        have := ih.fl (l :: R) tg ft t hq ht'
        rwa [hs] at this
    · intro R s t h
      rw [scopeNames] at h
      cases hsc : g.scope? s with
      | none => simp [hsc] at h
      | some sc =>
        simp only [hsc] at h
        have hmem := (scope?_mem hsc).1
        have hid := (scope?_mem hsc).2
        have hroot : reachesRoot g (g.scopes.length + 1) s = true := by
          have := w.root sc hmem
          rwa [hid] at this
        cases hk : sc.kind with
        | builtin =>
          simp only [hk] at h
          cases h
          exact TblAll.builtin
        | module =>
          simp only [hk] at h
          obtain ⟨t', ht', hfin⟩ := bind_eq_some' h
          have := pure_eq_some hfin
          subst this
          rw [lookupChain_eq_outer hsc (Or.inl hk) hroot]
          rcases w.final sc hmem with ⟨ff, hff, hs⟩ | hb
          · have h1 := ih.fl R sc.final ff t' hff ht'
            rw [hs, hid] at h1
            refine TblAll.append h1 ?_
            rw [globalsTable_eq]
            refine TblAll.ownTable ?_
            intro nr hnr id hidd
            cases hidd
            refine ⟨s, ?_, lookupChain_self hsc⟩
            have := own_global w hmem hk hnr
            rwa [hid] at this
          · rw [hk] at hb; cases hb
        | func =>
          simp only [hk] at h
          rw [lookupChain_eq_outer hsc (Or.inr hk) hroot]
          rcases w.final sc hmem with ⟨ff, hff, hs⟩ | hb
          · have h1 := ih.fl R sc.final ff t hff h
            rwa [hs, hid] at h1
          · rw [hk] at hb; cases hb
        | cls =>
          simp only [hk] at h
          cases hp : sc.parent with
          | none => simp [hp] at h
          | some p =>
            simp only [hp] at h
            rw [outerChain_cls hsc hk hp hroot]
            exact ih.sc R p t h

theorem namesAt_chain {g : Graph} (w : WF g) (n : Nat) (R : List Nat) (f : Nat) (fr : FlowRec)
    (pos : Pos) (t : Tbl) (hf : g.flow? f = some fr) (ht : namesAt g n R f pos = some t) :
    TblAll (QC g (lookupChain g fr.scope)) t := by
  unfold namesAt at ht
  simp only [hf] at ht
  obtain ⟨p, hp, hfin⟩ := bind_eq_some' ht
  have := pure_eq_some hfin
  subst this
  have hfr := flow?_mem hf
  obtain ⟨sc, hsc⟩ := w.scope fr hfr
  refine TblAll.append (TblAll.ownTable ?_) ((chainInv w n).pn R fr p hfr hp)
  intro nr hnr id hid
  cases hid
  exact ⟨fr.scope, (own_flow w hfr (List.mem_of_mem_take hnr)).2.2, lookupChain_self hsc⟩

/-! ### locals of a function scope -/

def QL (g : Graph) (S : Nat) (locals : List String) : String → Alt → Prop :=
  fun k a => k ∈ locals → a = Alt.undef k ∨
    ∃ id nr, a = Alt.nm id ∧ g.name? id = some nr ∧ nr.scope = S ∧ ¬ (g.isGlobal id = true)

structure LocInv (g : Graph) (S : Nat) (locals : List String) (n : Nat) : Prop where
  fl : ∀ R f fr t, g.flow? f = some fr → fr.scope = S → flowNames g n R f = some t →
        TblAll (QL g S locals) t
  pn : ∀ R fr t, fr ∈ g.flows → fr.scope = S → parentNames g n R fr = some t →
        TblAll (QL g S locals) t
  pt : ∀ R ps ts, (∀ p ∈ ps, ParentIn g S p) → parentTables g n R ps = some ts →
        ∀ t ∈ ts, TblAll (QL g S locals) t
  lp : ∀ R l tg t, (∃ ft, g.flow? tg = some ft ∧ ft.scope = S) →
        loopNames g n R l tg = some (some t) → TblAll (QL g S locals) t

theorem locInv {g : Graph} (w : WF g) {S : Nat} {sc : ScopeRec} (hS : g.scope? S = some sc)
    (hkind : sc.kind = .func) : ∀ n, LocInv g S sc.locals n := by
  intro n
  induction n with
  | zero => constructor <;> intros <;> simp_all [flowNames, parentNames, parentTables, loopNames]
  | succ n ih =>
    constructor
    · intro R f fr t hf hs h
      rw [flowNames] at h
      simp only [hf] at h
      obtain ⟨p, hp, hfin⟩ := bind_eq_some' h
      have := pure_eq_some hfin
      subst this
      have hfr := flow?_mem hf
      refine TblAll.append (TblAll.ownTable ?_) (ih.pn R fr p hfr hs hp)
      intro nr hnr _
      obtain ⟨h1, h2, _⟩ := own_flow w hfr hnr
      exact Or.inr ⟨nr.id, nr, rfl, h1, (w.names fr hfr nr hnr).trans hs, by rw [h2]; simp⟩
    · intro R fr t hfr hs h
      rw [parentNames] at h
      have hpar := w.parents fr hfr
      rw [hs] at hpar
      generalize hps : fr.parents = ps at h hpar
      match ps, hps with
      | [], _ =>
        simp only [] at h
        rw [hs, hS] at h
        simp only [] at h
        cases hp : sc.parent with
        | none =>
          simp only [hp] at h
          cases h
          exact TblAll.nil
        | some ps' =>
          simp only [hp, hkind] at h
          obtain ⟨outer, ho, hfin⟩ := bind_eq_some' h
          have := pure_eq_some hfin
          subst this
          intro k v hm a _ hk
          have := (List.mem_filter.mp hm).2
          simp only [Bool.not_eq_true', List.contains_eq_mem, decide_eq_false_iff_not] at this
          exact absurd hk this
      | [Parent.flow p], _ =>
        simp only [] at h
        obtain ⟨fq, hq, hs'⟩ := hpar (Parent.flow p) List.mem_cons_self
        exact ih.fl R p fq t hq hs' h
      | [Parent.loop l tg], _ =>
        simp only [] at h
        obtain ⟨r, hr, hfin⟩ := bind_eq_some' h
        have := pure_eq_some hfin
        subst this
        cases r with
        | none => exact TblAll.nil
        | some t' => exact ih.lp R l tg t' (hpar (Parent.loop l tg) List.mem_cons_self) hr
      | a :: b :: rest, _ =>
        simp only [] at h
        obtain ⟨ts, hts, hfin⟩ := bind_eq_some' h
        have := pure_eq_some hfin
        subst this
        exact TblAll.merge (ih.pt R _ ts hpar hts) (fun k _ => Or.inl rfl)
    · intro R ps ts hpar h
      match ps with
      | [] =>
        rw [parentTables] at h
        cases h
        intro t ht; cases ht
      | Parent.flow p :: rest =>
        rw [parentTables] at h
        obtain ⟨t1, h1, h2⟩ := bind_eq_some' h
        obtain ⟨ts2, h3, hfin⟩ := bind_eq_some' h2
        have := pure_eq_some hfin
        subst this
        obtain ⟨fq, hq, hs⟩ := hpar (Parent.flow p) List.mem_cons_self
        intro t ht
        rcases List.mem_cons.mp ht with rfl | ht
        · exact ih.fl R p fq t hq hs h1
        · exact ih.pt R rest ts2 (fun p hp => hpar p (List.mem_cons_of_mem _ hp)) h3 t ht
      | Parent.loop l tg :: rest =>
        rw [parentTables] at h
        obtain ⟨r, h1, h2⟩ := bind_eq_some' h
        obtain ⟨ts2, h3, hfin⟩ := bind_eq_some' h2
        have := pure_eq_some hfin
        subst this
        have hrest := ih.pt R rest ts2 (fun p hp => hpar p (List.mem_cons_of_mem _ hp)) h3
        intro t ht
        cases r with
        | none => exact hrest t ht
        | some t' =>
          rcases List.mem_cons.mp ht with rfl | ht
          · exact ih.lp R l tg t (hpar (Parent.loop l tg) List.mem_cons_self) h1
          · exact hrest t ht
    · intro R l tg t hft h
      rw [loopNames] at h
      split at h
      · cases h
      · obtain ⟨t', ht', hfin⟩ := bind_eq_some' h
        have := pure_eq_some hfin
        cases this
        obtain ⟨ft, hq, hs⟩ := hft
        exact ih.fl (l :: R) tg ft t hq hs ht'

/-! ### class bodies are skipped -/

/-- every scope on an outer chain is a function or module scope -/
theorem outerChain_kind (g : Graph) : ∀ k s x, x ∈ outerChain g k s →
    ∃ sx, g.scope? x = some sx ∧ (sx.kind = .module ∨ sx.kind = .func) := by
  intro k
  induction k with
  | zero => intro s x h; simp [outerChain] at h
  | succ k ih =>
    intro s x h
    rw [outerChain] at h
    cases hsc : g.scope? s with
    | none => simp [hsc] at h
    | some sc =>
      simp only [hsc] at h
      have self_ok : (sc.kind = .module ∨ sc.kind = .func) → x = s →
          ∃ sx, g.scope? x = some sx ∧ (sx.kind = .module ∨ sx.kind = .func) :=
        fun hk hx => ⟨sc, hx ▸ hsc, hk⟩
      cases hk : sc.kind <;> cases hp : sc.parent <;> simp only [hk, hp] at h
      · exact self_ok (Or.inl hk) (List.mem_singleton.mp h)
      · rcases List.mem_cons.mp h with h | h
        · exact self_ok (Or.inl hk) h
        · exact ih _ _ h
      · exact self_ok (Or.inr hk) (List.mem_singleton.mp h)
      · rcases List.mem_cons.mp h with h | h
        · exact self_ok (Or.inr hk) h
        · exact ih _ _ h
      · cases h
      · exact ih _ _ h
      · cases h
      · cases h

theorem class_hidden {g : Graph} {m c : Nat} {sm sc : ScopeRec} (hm : g.scope? m = some sm)
    (hk : sm.kind = .func) (hp : sm.parent = some c) (hc : g.scope? c = some sc)
    (hck : sc.kind = .cls) : c ∉ lookupChain g m := by
  rw [lookupChain_some hm hp]
  intro h
  rcases List.mem_cons.mp h with h | h
  · subst h
    rw [hm] at hc
    cases hc
    rw [hk] at hck
    cases hck
  · obtain ⟨sx, hsx, hkx⟩ := outerChain_kind g _ _ _ h
    rw [hc] at hsx
    cases hsx
    rw [hck] at hkx
    rcases hkx with h | h <;> cases h

end SuppModel.Flow
