/-
  The checked evaluator of Checked.lean with `strict = true` is Memo.lean's evaluator, except that
  it may give up: whenever it answers, Memo.lean's evaluator, started from the same state (forgetting `used`),
  gives the same table and the same deps, and reaches the same state.
-/
import SuppModel.Flow.LemmasTaggedSim
namespace SuppModel.Flow

theorem erase_slot (m : CMemo) (k : Key) : m.erase.slot? k = (m.slot? k).map CEntry.erase := by
  unfold CMemo.erase Memo.slot? CMemo.slot?
  simp only [List.find?_map]
  rfl

theorem erase_usable (m : CMemo) (e : CEntry) : m.erase.usable e.erase = m.usable e := rfl

theorem erase_filter (m : CMemo) (k : Key) :
    (m.erase.slot? k).filter m.erase.usable = ((m.slot? k).filter m.usable).map CEntry.erase := by
  rw [erase_slot]
  cases m.slot? k with
  | none => rfl
  | some e =>
    simp only [Option.map_some, Option.filter_some, erase_usable]
    by_cases hu : m.usable e = true <;> simp [hu]

/-- with `strict = true` the lookup is Memo.lean's -/
theorem hit_true_none {m : CMemo} {k : Key} (h : m.hit? true k = some none) :
    (m.slot? k).filter m.usable = none := by
  unfold CMemo.hit? at h
  simp only [if_true] at h
  cases hf : (m.slot? k).filter m.usable with
  | none => rfl
  | some e =>
    simp only [hf] at h
    by_cases hsafe : m.safe e = true
    · rw [if_pos hsafe] at h; cases h
    · rw [if_neg hsafe] at h; cases h

theorem hit_true_some {m : CMemo} {k : Key} {e : CEntry} (h : m.hit? true k = some (some e)) :
    (m.slot? k).filter m.usable = some e := by
  unfold CMemo.hit? at h
  simp only [if_true] at h
  cases hf : (m.slot? k).filter m.usable with
  | none => simp [hf] at h
  | some e' =>
    simp only [hf] at h
    by_cases hsafe : m.safe e' = true
    · rw [if_pos hsafe] at h; cases h; rfl
    · rw [if_neg hsafe] at h; cases h

theorem erase_put (m : CMemo) (k : Key) (t : Tbl) (d : Deps) (u : List Nat) :
    (m.put k t d u).erase = m.erase.put k t d := rfl

theorem erase_inProgress (m : CMemo) (l : Nat) : m.erase.inProgress? l = m.inProgress? l := rfl

theorem bind_put_eq {X : Option (Memo × Tbl × Deps)} {m1 : Memo} {t1 : Tbl} {d1 : Deps}
    (h : X = some (m1, t1, d1)) (k : Key) :
    (do let (m1, t, d) ← X
        pure (m1.put k t d, t, d)) = some (m1.put k t1 d1, t1, d1) := by
  subst h; rfl

structure LeM (g : Graph) (n : Nat) : Prop where
  fl : ∀ (m m' : CMemo) f t d u, cFlowNames true g n m f = some (m', t, d, u) →
        mFlowNames g n m.erase f = some (m'.erase, t, d)
  pn : ∀ (m m' : CMemo) fr t d u, cParentNames true g n m fr = some (m', t, d, u) →
        mParentNames g n m.erase fr = some (m'.erase, t, d)
  pt : ∀ (m m' : CMemo) ps ts d u, cParentTables true g n m ps = some (m', ts, d, u) →
        mParentTables g n m.erase ps = some (m'.erase, ts, d)
  lp : ∀ (m m' : CMemo) l tg r d u, cLoopNames true g n m l tg = some (m', r, d, u) →
        mLoopNames g n m.erase l tg = some (m'.erase, r, d)
  sc : ∀ (m m' : CMemo) s t d u, cScopeNames true g n m s = some (m', t, d, u) →
        mScopeNames g n m.erase s = some (m'.erase, t, d)

theorem leM_fl {g : Graph} {n : Nat} (ih : LeM g n) (m m' : CMemo) (f : Nat) (t : Tbl) (d : Deps)
    (u : List Nat) (h : cFlowNames true g (n + 1) m f = some (m', t, d, u)) :
    mFlowNames g (n + 1) m.erase f = some (m'.erase, t, d) := by
  rw [cFlowNames] at h
  rw [mFlowNames, erase_filter]
  cases hh : m.hit? true (.names f) with
  | none => simp only [hh] at h; cases h
  | some oe =>
  cases oe with
  | some e =>
    have hs := hit_true_some hh
    simp only [hh] at h
    simp only [hs]
    obtain ⟨rfl, rfl, rfl, rfl⟩ := some4_inj h
    rfl
  | none =>
    have hs := hit_true_none hh
    simp only [hh] at h
    simp only [hs]
    cases hfr : g.flow? f with
    | none => simp [hfr] at h
    | some fr =>
      simp only [hfr] at h
      obtain ⟨⟨m1, p, d1, u1⟩, hsub, hfin⟩ := bind_eq_some' h
      obtain ⟨rfl, rfl, rfl, rfl⟩ := some4_inj hfin
      have h1 := ih.pn m m1 fr p d1 u1 hsub
      simp only [Option.map_none, h1, erase_put]
      rfl

theorem leM_pn {g : Graph} {n : Nat} (ih : LeM g n) (m m' : CMemo) (fr : FlowRec) (t : Tbl)
    (d : Deps) (u : List Nat) (h : cParentNames true g (n + 1) m fr = some (m', t, d, u)) :
    mParentNames g (n + 1) m.erase fr = some (m'.erase, t, d) := by
  rw [cParentNames] at h
  rw [mParentNames, erase_filter]
  cases hh : m.hit? true (.pnames fr.id) with
  | none => simp only [hh] at h; cases h
  | some oe =>
  cases oe with
  | some e =>
    have hs := hit_true_some hh
    simp only [hh] at h
    simp only [hs]
    obtain ⟨rfl, rfl, rfl, rfl⟩ := some4_inj h
    rfl
  | none =>
    have hs := hit_true_none hh
    simp only [hh] at h
    rw [hs]
    simp only [Option.map_none]
    obtain ⟨⟨m1, t1, d1, u1⟩, hX, hfin⟩ := bind_eq_some' h
    obtain ⟨rfl, rfl, rfl, rfl⟩ := some4_inj hfin
    refine bind_put_eq (m1 := m1.erase) (t1 := t1) (d1 := d1) (k := .pnames fr.id) ?_
    generalize hps : fr.parents = ps at hX ⊢
    match ps, hps with
    | [], hps =>
      simp only [] at hX ⊢
      cases hsc : g.scope? fr.scope with
      | none => simp [hsc] at hX
      | some sc =>
        simp only [hsc] at hX ⊢
        cases hpar : sc.parent with
        | none =>
          simp only [hpar] at hX ⊢
          obtain ⟨rfl, rfl, rfl, rfl⟩ := some4_inj hX
          rfl
        | some ps' =>
          simp only [hpar] at hX ⊢
          obtain ⟨⟨m1', outer, d', u'⟩, hsub, hfin2⟩ := bind_eq_some' hX
          rw [ih.sc m m1' ps' outer d' u' hsub]
          cases hk : sc.kind <;> simp only [hk] at hfin2 ⊢ <;>
            (obtain ⟨rfl, rfl, rfl, rfl⟩ := some4_inj hfin2; rfl)
    | [Parent.flow p], hps =>
      simp only [] at hX ⊢
      exact ih.fl m m1 p t1 d1 u1 hX
    | [Parent.loop l tg], hps =>
      simp only [] at hX ⊢
      obtain ⟨⟨m1', r, d', u'⟩, hsub, hfin2⟩ := bind_eq_some' hX
      obtain ⟨rfl, rfl, rfl, rfl⟩ := some4_inj hfin2
      rw [ih.lp m m1' l tg r d' u' hsub]
      rfl
    | a :: b :: rest, hps =>
      simp only [] at hX ⊢
      obtain ⟨⟨m1', ts, d', u'⟩, hsub, hfin2⟩ := bind_eq_some' hX
      obtain ⟨rfl, rfl, rfl, rfl⟩ := some4_inj hfin2
      rw [ih.pt m m1' (a :: b :: rest) ts d' u' hsub]
      rfl

theorem leM_pt {g : Graph} {n : Nat} (ih : LeM g n) (m m' : CMemo) (ps : List Parent)
    (ts : List Tbl) (d : Deps) (u : List Nat)
    (h : cParentTables true g (n + 1) m ps = some (m', ts, d, u)) :
    mParentTables g (n + 1) m.erase ps = some (m'.erase, ts, d) := by
  match ps with
  | [] =>
    rw [cParentTables] at h
    rw [mParentTables]
    obtain ⟨rfl, rfl, rfl, rfl⟩ := some4_inj h
    rfl
  | Parent.flow p :: rest =>
    rw [cParentTables] at h
    rw [mParentTables]
    obtain ⟨⟨m1, t1, d1, u1⟩, hsub1, h2⟩ := bind_eq_some' h
    obtain ⟨⟨m2, ts2, d2, u2⟩, hsub2, hfin⟩ := bind_eq_some' h2
    obtain ⟨rfl, rfl, rfl, rfl⟩ := some4_inj hfin
    rw [ih.fl m m1 p t1 d1 u1 hsub1]
    simp only [Option.bind_eq_bind, Option.bind_some]
    rw [ih.pt m1 m2 rest ts2 d2 u2 hsub2]
    rfl
  | Parent.loop l tg :: rest =>
    rw [cParentTables] at h
    rw [mParentTables]
    obtain ⟨⟨m1, r, d1, u1⟩, hsub1, h2⟩ := bind_eq_some' h
    obtain ⟨⟨m2, ts2, d2, u2⟩, hsub2, hfin⟩ := bind_eq_some' h2
    rw [ih.lp m m1 l tg r d1 u1 hsub1]
    simp only [Option.bind_eq_bind, Option.bind_some]
    rw [ih.pt m1 m2 rest ts2 d2 u2 hsub2]
    cases r <;> (obtain ⟨rfl, rfl, rfl, rfl⟩ := some4_inj hfin; rfl)

theorem leM_lp {g : Graph} {n : Nat} (ih : LeM g n) (m m' : CMemo) (l tg : Nat) (r : Option Tbl)
    (d : Deps) (u : List Nat) (h : cLoopNames true g (n + 1) m l tg = some (m', r, d, u)) :
    mLoopNames g (n + 1) m.erase l tg = some (m'.erase, r, d) := by
  rw [cLoopNames] at h
  rw [mLoopNames, erase_inProgress]
  cases hip : m.inProgress? l with
  | some k =>
    simp only [hip] at h ⊢
    obtain ⟨rfl, rfl, rfl, rfl⟩ := some4_inj h
    rfl
  | none =>
    simp only [hip] at h ⊢
    rw [erase_filter]
    cases hh : m.hit? true (.loop l tg) with
    | none => simp only [hh] at h; cases h
    | some oe =>
    cases oe with
    | some e =>
      have hs := hit_true_some hh
      simp only [hh] at h
      simp only [hs]
      obtain ⟨rfl, rfl, rfl, rfl⟩ := some4_inj h
      rfl
    | none =>
      have hs := hit_true_none hh
      simp only [hh] at h
      rw [hs]
      simp only [Option.map_none]
      obtain ⟨⟨m2, t2, d2, u2⟩, hsub, hfin⟩ := bind_eq_some' h
      obtain ⟨rfl, rfl, rfl, rfl⟩ := some4_inj hfin
      have h1 : mFlowNames g n ({ m.erase with started := m.erase.started + 1, resolving := (l, m.erase.started + 1) :: m.erase.resolving } : Memo) tg = some (m2.erase, t2, d2) :=
        ih.fl _ m2 tg t2 d2 u2 hsub
      rw [h1]
      rfl

theorem leM_sc {g : Graph} {n : Nat} (ih : LeM g n) (m m' : CMemo) (s : Nat) (t : Tbl) (d : Deps)
    (u : List Nat) (h : cScopeNames true g (n + 1) m s = some (m', t, d, u)) :
    mScopeNames g (n + 1) m.erase s = some (m'.erase, t, d) := by
  rw [cScopeNames] at h
  rw [mScopeNames]
  cases hsc : g.scope? s with
  | none => simp [hsc] at h
  | some sc =>
    simp only [hsc] at h ⊢
    cases hk : sc.kind with
    | builtin =>
      simp only [hk] at h ⊢
      obtain ⟨rfl, rfl, rfl, rfl⟩ := some4_inj h
      rfl
    | module =>
      simp only [hk] at h ⊢
      obtain ⟨⟨m1, t1, d1, u1⟩, hsub, hfin⟩ := bind_eq_some' h
      obtain ⟨rfl, rfl, rfl, rfl⟩ := some4_inj hfin
      rw [ih.fl m m1 sc.final t1 d1 u1 hsub]
      rfl
    | func =>
      simp only [hk] at h ⊢
      exact ih.fl m m' sc.final t d u h
    | cls =>
      simp only [hk] at h ⊢
      cases hp : sc.parent with
      | none => simp [hp] at h
      | some p =>
        simp only [hp] at h ⊢
        exact ih.sc m m' p t d u h

theorem leM (g : Graph) : ∀ n, LeM g n := by
  intro n
  induction n with
  | zero =>
    constructor <;> intros <;>
      simp_all [cFlowNames, cParentNames, cParentTables, cLoopNames, cScopeNames]
  | succ n ih => exact ⟨leM_fl ih, leM_pn ih, leM_pt ih, leM_lp ih, leM_sc ih⟩

/-- whenever the checked evaluator answers a query, Memo.lean's evaluator, from the same state,
    gives the same table and reaches the same state -/
theorem cNamesAt_le (g : Graph) (n : Nat) (m m1 : CMemo) (f : Nat) (pos : Pos) (t : Tbl)
    (h : cNamesAt true g n m f pos = some (m1, t)) :
    mNamesAt g n m.erase f pos = some (m1.erase, t) := by
  unfold cNamesAt at h
  unfold mNamesAt
  cases hfr : g.flow? f with
  | none => simp [hfr] at h
  | some fr =>
    simp only [hfr] at h ⊢
    obtain ⟨⟨m1', p, d, u⟩, hsub, hfin⟩ := bind_eq_some' h
    simp only [Option.pure_def, Option.some.injEq, Prod.mk.injEq] at hfin
    obtain ⟨rfl, rfl⟩ := hfin
    rw [(leM g n).pn m m1' fr p d u hsub]
    rfl

end SuppModel.Flow
