/-
  Scope-level facts about the graph evaluator (C05) and layout maps (C13): definitions only.
-/
import SuppModel.Flow.Memo

namespace SuppModel.Flow

/-! ### C05: which scopes can contribute a binding to a table -/

/-- scopes whose bindings a scope's `names` property can contain, outermost last
    (`FuncScope.names` = its last flow; `ClassScope.names` = its parent's; fuel = #scopes) -/
def outerChain (g : Graph) : Nat → Nat → List Nat
  | 0, _ => []
  | fuel + 1, s =>
    match g.scope? s with
    | none => []
    | some sc =>
      match sc.kind, sc.parent with
      | .builtin, _ => []
      | .module, some p => s :: outerChain g fuel p   -- (the builtin scope on real graphs: adds nothing)
      | .module, none => [s]
      | .func, some p => s :: outerChain g fuel p
      | .func, none => [s]
      | .cls, some p => outerChain g fuel p      -- a class body is invisible from inside
      | .cls, none => []

/-- scopes that can contribute to the tables of the flows OF scope `s` -/
def lookupChain (g : Graph) (s : Nat) : List Nat :=
  match g.scope? s with
  | none => []
  | some sc =>
    match sc.parent with
    | some p => s :: outerChain g (g.scopes.length + 1) p
    | none => [s]

def Graph.name? (g : Graph) (id : Nat) : Option NameRec :=
  ((g.flows.flatMap (·.names)) ++ (g.scopes.flatMap (·.globals))).find? (·.id == id)

def Graph.isGlobal (g : Graph) (id : Nat) : Bool :=
  (g.scopes.flatMap (·.globals)).any (·.id == id)

/-- the scope that OWNS a binding: the module for names routed to `_global_names`
    (assigned under a `global` declaration), else the scope of the region it was bound in -/
def Graph.owner? (g : Graph) (id : Nat) : Option Nat :=
  if g.isGlobal id then (g.scopes.find? (·.kind == .module)).map (·.id)
  else (g.name? id).map (·.scope)

/-- the parent chain of scope `s` ends within `fuel` steps -/
def reachesRoot (g : Graph) : Nat → Nat → Bool
  | 0, _ => false
  | fuel + 1, s =>
    match g.scope? s with
    | none => false
    | some sc =>
      match sc.parent with
      | none => true
      | some p => reachesRoot g fuel p

/-- structural well-formedness of an extracted graph (decidable; the driver evaluates it on
    every real graph): name ids are unique, scope parent chains are finite, one module scope, the names of a flow carry the flow's scope, a
    flow's predecessors belong to the same scope, flow and scope ids are unique -/
def Graph.wf (g : Graph) : Bool :=
  let allNames := g.flows.flatMap (·.names) ++ g.scopes.flatMap (·.globals)
  (allNames.map (·.id)).eraseDups.length == allNames.length &&
  (g.flows.map (·.id)).eraseDups.length == g.flows.length &&
  (g.scopes.map (·.id)).eraseDups.length == g.scopes.length &&
  g.flows.all (fun f =>
    f.names.all (fun n => n.scope == f.scope) &&
    f.parents.all (fun p =>
      match p with
      | .flow q => (g.flow? q).any (fun fq => fq.scope == f.scope)
      | .loop _ t => (g.flow? t).any (fun ft => ft.scope == f.scope))) &&
  g.scopes.all (fun s => (g.flow? s.final).any (fun ff => ff.scope == s.id) || s.kind == .builtin) &&
  (g.scopes.filter (fun s => s.kind == .module)).length ≤ 1 &&
  g.scopes.all (fun s => reachesRoot g (g.scopes.length + 1) s.id) &&
  g.flows.all (fun f => (g.scope? f.scope).isSome)

/-- every `Name` alternative of a table is owned by one of the scopes in `chain` -/
def Tbl.ownedBy (g : Graph) (chain : List Nat) (t : Tbl) : Prop :=
  ∀ k v, (k, v) ∈ t → ∀ id, Alt.nm id ∈ v → ∃ s, g.owner? id = some s ∧ s ∈ chain

/-! ### C13: position maps -/

def NameRec.mapLoc (φ : Pos → Pos) (n : NameRec) : NameRec := { n with loc := φ n.loc }

def Graph.mapLoc (φ : Pos → Pos) (g : Graph) : Graph :=
  { g with
    flows := g.flows.map (fun f => { f with names := f.names.map (NameRec.mapLoc φ) }),
    scopes := g.scopes.map (fun s => { s with globals := s.globals.map (NameRec.mapLoc φ) }) }

/-- `φ` preserves the order of the positions in `ps` (all that a strictly monotone map on
    those positions gives) -/
def OrderPreserving (φ : Pos → Pos) (ps : List Pos) : Prop :=
  ∀ a ∈ ps, ∀ b ∈ ps, Pos.lt (φ a) (φ b) = Pos.lt a b

/-- the positions the evaluation of a query at `pos` in flow `f` compares -/
def Graph.flowPositions (g : Graph) (f : Nat) (pos : Pos) : List Pos :=
  pos :: ((g.flow? f).map (fun fr => fr.names.map (·.loc))).getD []

def sortedByLoc (names : List NameRec) : Bool :=
  match names with
  | [] => true
  | [_] => true
  | a :: b :: r => Pos.le a.loc b.loc && sortedByLoc (b :: r)

end SuppModel.Flow
