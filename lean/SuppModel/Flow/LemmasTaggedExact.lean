/-
  The exact evaluator (Checked.lean, `strict = false`) never gives up: same-fuel completeness
  w.r.t. the pure evaluator, by the argument of LemmasTaggedTotal.lean (the call tree does not
  depend on the tables; a reused entry costs no fuel; `hit? false` never answers "give up").
-/
import SuppModel.Flow.LemmasTaggedSim
namespace SuppModel.Flow

theorem hit_false_ne_none (m : CMemo) (k : Key) : m.hit? false k ≠ none := by
  unfold CMemo.hit?
  simp

theorem inProgress_none_contains {m : CMemo} {l : Nat} (h : m.inProgress? l = none) :
    (loops m.resolving).contains l = false := by
  have hno := inProgress_none h
  cases hc : (loops m.resolving).contains l with
  | false => rfl
  | true =>
    simp only [loops, List.contains_eq_mem, decide_eq_true_eq] at hc
    obtain ⟨r, hr, rfl⟩ := List.mem_map.mp hc
    exact absurd rfl (hno r hr)

structure CTotal (g : Graph) (n : Nat) : Prop where
  fl : ∀ (m : CMemo) f t, flowNames g n (loops m.resolving) f = some t →
        ∃ r, cFlowNames false g n m f = some r ∧ r.1.resolving = m.resolving
  pn : ∀ (m : CMemo) fr t, parentNames g n (loops m.resolving) fr = some t →
        ∃ r, cParentNames false g n m fr = some r ∧ r.1.resolving = m.resolving
  pt : ∀ (m : CMemo) ps t, parentTables g n (loops m.resolving) ps = some t →
        ∃ r, cParentTables false g n m ps = some r ∧ r.1.resolving = m.resolving
  lp : ∀ (m : CMemo) l tg t, loopNames g n (loops m.resolving) l tg = some t →
        ∃ r, cLoopNames false g n m l tg = some r ∧ r.1.resolving = m.resolving
  sc : ∀ (m : CMemo) s t, scopeNames g n (loops m.resolving) s = some t →
        ∃ r, cScopeNames false g n m s = some r ∧ r.1.resolving = m.resolving

theorem ctotal_all (g : Graph) : ∀ n, CTotal g n := by
  intro n
  induction n with
  | zero => constructor <;> intros <;> simp_all [flowNames, parentNames, parentTables, loopNames, scopeNames]
  | succ n ih =>
    constructor
    · intro m f t h
      rw [flowNames] at h
      rw [cFlowNames]
      cases hh : m.hit? false (.names f) with
      | none => exact absurd hh (hit_false_ne_none m _)
      | some oe =>
      cases oe with
      | some e => exact ⟨(m, e.tbl, e.deps, e.used), rfl, rfl⟩
      | none =>
        simp only []
        cases hfr : g.flow? f with
        | none => simp [hfr] at h
        | some fr =>
          simp only [hfr] at h ⊢
          obtain ⟨p, hp, -⟩ := bind_eq_some' h
          obtain ⟨⟨m1, p', d', u'⟩, hr, hres⟩ := ih.pn m fr p hp
          refine ⟨((m1.put (.names f) (ownTable fr.names ++ p') d' u'), ownTable fr.names ++ p', d', u'), ?_, ?_⟩
          · simp [hr]
          · exact hres
    · intro m fr t h
      rw [parentNames] at h
      rw [cParentNames]
      cases hh : m.hit? false (.pnames fr.id) with
      | none => exact absurd hh (hit_false_ne_none m _)
      | some oe =>
      cases oe with
      | some e => exact ⟨(m, e.tbl, e.deps, e.used), rfl, rfl⟩
      | none =>
        simp only []
        generalize fr.parents = ps at h ⊢
        match ps with
        | [] =>
          simp only [] at h ⊢
          cases hsc : g.scope? fr.scope with
          | none => simp [hsc] at h
          | some sc =>
            simp only [hsc] at h ⊢
            cases hpar : sc.parent with
            | none => exact ⟨_, rfl, rfl⟩
            | some ps =>
              simp only [hpar] at h ⊢
              obtain ⟨o, ho, -⟩ := bind_eq_some' h
              obtain ⟨⟨m1, o', d', u'⟩, hr, hres⟩ := ih.sc m ps o ho
              have hres : m1.resolving = m.resolving := hres
              cases hk : sc.kind <;> simp [hr, hres, CMemo.put]
        | [Parent.flow p] =>
          simp only [] at h ⊢
          obtain ⟨⟨m1, o', d', u'⟩, hr, hres⟩ := ih.fl m p t h
          have hres : m1.resolving = m.resolving := hres
          simp [hr, hres, CMemo.put]
        | [Parent.loop l tg] =>
          simp only [] at h ⊢
          obtain ⟨o, ho, -⟩ := bind_eq_some' h
          obtain ⟨⟨m1, o', d', u'⟩, hr, hres⟩ := ih.lp m l tg o ho
          have hres : m1.resolving = m.resolving := hres
          simp [hr, hres, CMemo.put]
        | _ :: _ :: _ =>
          simp only [] at h ⊢
          obtain ⟨o, ho, -⟩ := bind_eq_some' h
          obtain ⟨⟨m1, o', d', u'⟩, hr, hres⟩ := ih.pt m _ o ho
          have hres : m1.resolving = m.resolving := hres
          simp [hr, hres, CMemo.put]
    · intro m ps t h
      match ps with
      | [] => rw [cParentTables]; exact ⟨(m, [], [], []), rfl, rfl⟩
      | Parent.flow p :: rest =>
        rw [parentTables] at h
        rw [cParentTables]
        obtain ⟨a, ha, h2⟩ := bind_eq_some' h
        obtain ⟨b, hb, -⟩ := bind_eq_some' h2
        obtain ⟨⟨m1, a', d1, u1⟩, hr1, hres1⟩ := ih.fl m p a ha
        rw [← hres1] at hb
        obtain ⟨⟨m2, b', d2, u2⟩, hr2, hres2⟩ := ih.pt m1 rest b hb
        exact ⟨(m2, a' :: b', d1.union d2, u1 ++ u2), by simp [hr1, hr2], hres2.trans hres1⟩
      | Parent.loop l tg :: rest =>
        rw [parentTables] at h
        rw [cParentTables]
        obtain ⟨a, ha, h2⟩ := bind_eq_some' h
        obtain ⟨b, hb, -⟩ := bind_eq_some' h2
        obtain ⟨⟨m1, a', d1, u1⟩, hr1, hres1⟩ := ih.lp m l tg a ha
        rw [← hres1] at hb
        obtain ⟨⟨m2, b', d2, u2⟩, hr2, hres2⟩ := ih.pt m1 rest b hb
        cases a' with
        | none => exact ⟨(m2, b', d1.union d2, u1 ++ u2), by simp [hr1, hr2], hres2.trans hres1⟩
        | some v => exact ⟨(m2, v :: b', d1.union d2, u1 ++ u2), by simp [hr1, hr2], hres2.trans hres1⟩
    · intro m l tg t h
      rw [loopNames] at h
      rw [cLoopNames]
      cases hip : m.inProgress? l with
      | some k => exact ⟨(m, none, [(l, k)], []), rfl, rfl⟩
      | none =>
        simp only []
        have hno := inProgress_none hip
        have hc := inProgress_none_contains hip
        rw [if_neg (by rw [hc]; exact Bool.false_ne_true)] at h
        cases hh : m.hit? false (.loop l tg) with
        | none => exact absurd hh (hit_false_ne_none m _)
        | some oe =>
        cases oe with
        | some e => exact ⟨(m, some e.tbl, e.deps, e.used), rfl, rfl⟩
        | none =>
          simp only []
          obtain ⟨a, ha, -⟩ := bind_eq_some' h
          obtain ⟨⟨m2, a', d2, u2⟩, hr, hres⟩ :=
            ih.fl ({ m with started := m.started + 1, resolving := (l, m.started + 1) :: m.resolving } : CMemo) tg a ha
          have hres : m2.resolving = (l, m.started + 1) :: m.resolving := hres
          refine ⟨_, by simp [hr]; rfl, ?_⟩
          show List.filter (fun r => !decide (r.1 = l)) m2.resolving = m.resolving
          rw [hres, List.filter_cons]
          simp only [decide_true, Bool.not_true, Bool.false_eq_true, if_false]
          rw [List.filter_eq_self]
          intro r hr
          simpa using hno r hr
    · intro m s t h
      rw [scopeNames] at h
      rw [cScopeNames]
      cases hsc : g.scope? s with
      | none => simp [hsc] at h
      | some sc =>
        simp only [hsc] at h ⊢
        cases hk : sc.kind with
        | builtin => exact ⟨(m, builtinTable g, [], []), rfl, rfl⟩
        | module =>
          simp only [hk] at h ⊢
          obtain ⟨a, ha, -⟩ := bind_eq_some' h
          obtain ⟨⟨m1, a', d1, u1⟩, hr, hres⟩ := ih.fl m sc.final a ha
          exact ⟨(m1, a' ++ globalsTable sc, d1, u1), by simp [hr], hres⟩
        | func => simp only [hk] at h ⊢; exact ih.fl m sc.final t h
        | cls =>
          simp only [hk] at h ⊢
          cases hp : sc.parent with
          | none => simp [hp] at h
          | some p => simp only [hp] at h ⊢; exact ih.sc m p t h

theorem cNamesAt_total (g : Graph) (n : Nat) (m : CMemo) (hm : m.resolving = []) (f : Nat) (pos : Pos)
    (x : String) (h : (lookupAt g n f pos x).isSome) :
    ∃ r, cNamesAt false g n m f pos = some r ∧ r.1.resolving = [] := by
  unfold lookupAt namesAt at h
  unfold cNamesAt
  cases hfr : g.flow? f with
  | none => simp [hfr] at h
  | some fr =>
    simp only [hfr] at h ⊢
    cases hp : parentNames g n [] fr with
    | none => simp [hp] at h
    | some p =>
      have hl : loops m.resolving = [] := by rw [hm]; rfl
      rw [← hl] at hp
      obtain ⟨⟨m1, p', d', u'⟩, hr, hres⟩ := (ctotal_all g n).pn m fr p hp
      have hres : m1.resolving = m.resolving := hres
      exact ⟨(m1, _), by simp [hr]; rfl, by simp [hres, hm]⟩

theorem runQueriesExact_total (g : Graph) (n : Nat) (qs : List Query) :
    ∀ (m : CMemo), m.resolving = [] →
      (∀ q' ∈ qs, (lookupAt g n q'.flow q'.pos q'.key).isSome) →
      ∀ (i : Nat) (q : Query), qs[i]? = some q → ((runQueriesExact g n m qs)[i]?.bind id).isSome := by
  induction qs with
  | nil => intro m _ _ i q hq; simp at hq
  | cons q0 qs ih =>
    intro m hm hall i q hq
    obtain ⟨⟨m1, t⟩, hr, hres⟩ := cNamesAt_total g n m hm q0.flow q0.pos q0.key (hall q0 (by simp))
    have hres : m1.resolving = [] := hres
    unfold runQueriesExact at ih ⊢
    rw [runQueriesWith, hr]
    cases i with
    | zero => simp
    | succ i =>
      simp only [List.getElem?_cons_succ] at hq ⊢
      exact ih m1 hres (fun q' hq' => hall q' (by simp [hq'])) i q hq

end SuppModel.Flow
