import SuppModel.Drv.Util
namespace SuppModel.Drv.Flow
open Lean SuppModel.Drv
def handle (_j : Json) : Json := errJson "driver for Flow not built yet"
end SuppModel.Drv.Flow
