import SuppModel.Drv.Util
import SuppModel.Flow.Memo
import SuppModel.Flow.Checked
import SuppModel.Flow.Scoping
import SuppModel.Flow.Iso
import SuppModel.Flow.Rank

namespace SuppModel.Drv.Flow
open Lean SuppModel.Flow SuppModel.Drv

def posOf (j : Json) : Except String Pos := do
  let a ← j.getArr?
  if a.size ≠ 2 then throw "pos"
  let l ← a[0]!.getNat?
  let c ← a[1]!.getNat?
  pure (l, c)

def nameRecOf (j : Json) : Except String NameRec := do
  let id ← jnat j "id"
  let name ← jstr j "name"
  let loc ← (j.getObjVal? "loc").bind posOf
  let scope ← jnat j "scope"
  pure { id, name, loc, scope }

def parentOf (j : Json) : Except String Parent := do
  let a ← j.getArr?
  match a.toList with
  | [Json.str "f", f] => do pure (.flow (← f.getNat?))
  | [Json.str "l", l, t] => do pure (.loop (← l.getNat?) (← t.getNat?))
  | _ => throw "parent"

def flowOf (j : Json) : Except String FlowRec := do
  let id ← jnat j "id"
  let scope ← jnat j "scope"
  let names ← (← jarr j "names").toList.mapM nameRecOf
  let parents ← (← jarr j "parents").toList.mapM parentOf
  pure { id, scope, names, parents }

def kindOf : String → Except String ScopeKind
  | "module" => pure .module | "func" => pure .func | "class" => pure .cls | "builtin" => pure .builtin
  | _ => throw "scope kind"

def scopeOf (j : Json) : Except String ScopeRec := do
  let id ← jnat j "id"
  let kind ← (jstr j "kind").bind kindOf
  let parent := match j.getObjVal? "parent" with
    | .ok (Json.num n) => some n.mantissa.toNat
    | _ => none
  let locals ← (← jarr j "locals").toList.mapM (·.getStr?)
  let final ← jnat j "final"
  let globals ← (← jarr j "globals").toList.mapM nameRecOf
  pure { id, kind, parent, locals, final, globals }

def graphOf (j : Json) : Except String Graph := do
  let flows ← (← jarr j "flows").toList.mapM flowOf
  let scopes ← (← jarr j "scopes").toList.mapM scopeOf
  let builtins ← (← jarr j "builtins").toList.mapM (·.getStr?)
  pure { flows, scopes, builtins }

def queryOf (j : Json) : Except String Query := do
  let flow ← jnat j "flow"
  let pos ← (j.getObjVal? "pos").bind posOf
  let key ← jstr j "key"
  pure { flow, pos, key }

def altJson : Alt → Json
  | .undef n => Json.arr #[Json.str "undef", Json.str n]
  | .rt n => Json.arr #[Json.str "rt", Json.str n]
  | .nm i => Json.arr #[Json.str "nm", Json.num i]

def answerJson : Option (Option Val) → Json
  | none => Json.str "out-of-fuel"
  | some none => Json.null
  | some (some v) => Json.arr (v.map altJson).toArray

def handle (j : Json) : Json :=
  match jstr j "op" with
  | .ok "eval" =>   -- the memoised evaluator on a history of queries, from a cold start
    match (j.getObjVal? "graph").bind graphOf, (jarr j "queries").bind (·.toList.mapM queryOf) with
    | .ok g, .ok qs => Json.mkObj [("answers", Json.arr ((runQueries g g.fuel {} qs).map answerJson).toArray)]
    | .error e, _ => errJson e
    | _, .error e => errJson e
  | .ok "evalmany" =>   -- several histories over one graph: "orders" = lists of indices into "queries"
    match (j.getObjVal? "graph").bind graphOf, (jarr j "queries").bind (·.toList.mapM queryOf),
          (jarr j "orders").bind (·.toList.mapM (fun o => do let a ← o.getArr?; a.toList.mapM (·.getNat?))) with
    | .ok g, .ok qs, .ok orders =>
      let qa := qs.toArray
      let full := (j.getObjVal? "validate").isOk
      let run (f : List Query → List (Option (Option Val))) : Json :=
        Json.arr (orders.map (fun o => Json.arr ((f (o.filterMap (fun i => qa[i]?))).map answerJson).toArray)).toArray
      Json.mkObj ([("answers", run (runQueries g g.fuel {}))] ++
        (if full then
          [("checked", run (runQueriesChecked g g.fuel {})),     -- hypothesis of C04_history_partial
           ("exact", run (runQueriesExact g (4 * g.fuel) {}))]    -- reference of C04_history_validated
         else []))
    | .error e, _, _ => errJson e
    | _, .error e, _ => errJson e
    | _, _, .error e => errJson e
  | .ok "scoping" =>   -- C05: well-formedness of the graph; per query, the owner scope of every Name alternative and the lookup chain
    match (j.getObjVal? "graph").bind graphOf, (jarr j "queries").bind (·.toList.mapM queryOf) with
    | .ok g, .ok qs =>
      let answers := runQueries g g.fuel {} qs
      let rows := (List.zip qs answers).map (fun (q, a) =>
        let chain := match g.flow? q.flow with | some fr => lookupChain g fr.scope | none => []
        let owners := match a with
          | some (some v) => v.filterMap (fun (alt : Alt) => match alt with
              | Alt.nm id => some (Json.arr #[Json.num (id : Nat), match g.owner? id with | some s => Json.num (s : Nat) | none => Json.null])
              | _ => none)
          | _ => []
        Json.mkObj [("answer", answerJson a), ("chain", Json.arr (chain.map (fun (s : Nat) => Json.num s)).toArray),
                    ("owners", Json.arr owners.toArray)])
      Json.mkObj [("wf", Json.bool g.wf), ("rows", Json.arr rows.toArray)]
    | .error e, _ => errJson e
    | _, .error e => errJson e
  | .ok "ranked" =>   -- C08: hypothesis of C08_eval_terminates (acyclic once loop edges are ignored) and its fuel bound
    match (j.getObjVal? "graph").bind graphOf with
    | .ok g => Json.mkObj [("ranked", Json.bool g.ranked), ("rankFuel", Json.num (g.rankFuel : Nat)), ("fuel", Json.num (g.fuel : Nat)),
                           ("wf", Json.bool g.wf)]
    | .error e => errJson e
  | .ok "iso" =>   -- C13: two layouts of one program: same shape, and per query the compared positions are ordered alike
    match (j.getObjVal? "g1").bind graphOf, (j.getObjVal? "g2").bind graphOf,
          (jarr j "q1").bind (·.toList.mapM queryOf), (jarr j "q2").bind (·.toList.mapM queryOf) with
    | .ok g1, .ok g2, .ok q1, .ok q2 =>
      let shape := sameShape g1 g2
      let pairs := List.zip q1 q2
      let keys := q1.length == q2.length && pairs.all (fun (a, b) => a.flow == b.flow && a.key == b.key)
      let ords := pairs.map (fun (a, b) => queryIsoAt g1 g2 a.flow a.pos b.pos)   -- hypothesis of C13_layouts
      let strict := pairs.map (fun (a, b) => orderIsoAt g1 g2 a.flow a.pos b.pos)
      Json.mkObj [("sameShape", Json.bool shape), ("sameQueries", Json.bool keys),
                  ("orderIso", Json.arr (ords.map Json.bool).toArray),
                  ("strictOrderIso", Json.arr (strict.map Json.bool).toArray),
                  ("a1", Json.arr ((runQueries g1 g1.fuel {} q1).map answerJson).toArray),
                  ("a2", Json.arr ((runQueries g2 g2.fuel {} q2).map answerJson).toArray)]
    | .error e, _, _, _ => errJson e
    | _, .error e, _, _ => errJson e
    | _, _, .error e, _ => errJson e
    | _, _, _, .error e => errJson e
  | .ok "evalpure" =>   -- the pure evaluator, each query from scratch (exponential: small graphs only)
    match (j.getObjVal? "graph").bind graphOf, (jarr j "queries").bind (·.toList.mapM queryOf) with
    | .ok g, .ok qs => Json.mkObj [("answers", Json.arr ((qs.map (fun q => lookupAt g g.fuel q.flow q.pos q.key)).map answerJson).toArray)]
    | .error e, _ => errJson e
    | _, .error e => errJson e
  | _ => errJson "unknown flow op"

end SuppModel.Drv.Flow
