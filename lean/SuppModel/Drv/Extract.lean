/- Driver front-end of the Extract family: (de)serialises and calls `SuppModel.Extract.extract`
   (the definition the theorems of Props/Extract.lean are about). -/
import SuppModel.Drv.Util
import SuppModel.Extract.Model
import SuppModel.Extract.Shape
import SuppModel.Flow.Scoping

namespace SuppModel.Drv.Extract
open Lean SuppModel.Flow SuppModel.Extract SuppModel.Drv

/-- node = {"k": kind, "p": [line, col] | null, "n": [field names], "v": [field values]};
    list = array; string; number; null; bool -> 0/1 -/
partial def astOf (j : Json) : Except String Ast :=
  match j with
  | .null => pure .none
  | .str s => pure (.str s)
  | .bool b => pure (.int (if b then 1 else 0))
  | .num n => pure (.int n.mantissa)
  | .arr a => do pure (.list (← a.toList.mapM astOf))
  | .obj _ => do
    let k ← jstr j "k"
    let p ← match j.getObjVal? "p" with
      | .ok (.arr a) =>
        if a.size = 2 then do pure (some ((← a[0]!.getNat?), (← a[1]!.getNat?))) else throw "pos"
      | _ => pure none
    let n ← (← jarr j "n").toList.mapM (·.getStr?)
    let v ← (← jarr j "v").toList.mapM astOf
    pure (.node k p n v)

def posJson (p : Pos) : Json := Json.arr #[Json.num (p.1 : Nat), Json.num (p.2 : Nat)]

def optPosJson : Option Pos → Json
  | some p => posJson p
  | none => Json.null

def kindStr : NameKind → String
  | .assigned => "AssignedName" | .argument => "ArgumentName" | .imported => "ImportedName"
  | .func => "FuncScope" | .cls => "ClassScope"

def scopeKindStr : ScopeKind → String
  | .module => "module" | .func => "func" | .cls => "class" | .builtin => "builtin"

def nameJson (infos : Array NameInfo) (n : NameRec) : Json :=
  let base := [("id", Json.num (n.id : Nat)), ("name", Json.str n.name), ("loc", posJson n.loc), ("scope", Json.num (n.scope : Nat))]
  match infos[n.id]? with
  | some i =>
    Json.mkObj (base ++ [("kind", Json.str (kindStr i.kind)), ("decl", posJson i.declaredAt)] ++
      (match i.kind with
       | .imported => [("module", Json.str i.module), ("mname", match i.mname with | some s => Json.str s | none => Json.null),
                       ("star", Json.bool i.star), ("qualified", Json.bool i.qualified)]
       | .argument => [("idx", match i.idx with | some k => Json.num (k : Nat) | none => Json.null)]
       | _ => []))
  | none => Json.mkObj base

def parentJson : Parent → Json
  | .flow f => Json.arr #[Json.str "f", Json.num (f : Nat)]
  | .loop l t => Json.arr #[Json.str "l", Json.num (l : Nat), Json.num (t : Nat)]

def errStr : Err → String
  | .fuel => "fuel" | .attr => "AttributeError" | .index => "IndexError"

def stJson (st : St) : List (String × Json) :=
  let infos := st.infos.reverse.toArray
  let g := st.toGraph []
  [("flows", Json.arr (st.flows.map (fun f => Json.mkObj [
      ("id", Json.num (f.id : Nat)), ("scope", Json.num (f.scope : Nat)),
      ("names", Json.arr (f.names.map (nameJson infos)).toArray),
      ("parents", Json.arr (f.parents.map parentJson).toArray)])).toArray),
   ("scopes", Json.arr (st.scopes.map (fun s => Json.mkObj [
      ("id", Json.num (s.id : Nat)), ("kind", Json.str (scopeKindStr s.kind)),
      ("parent", match s.parent with | some p => Json.num (p : Nat) | none => Json.null),
      ("locals", Json.arr (s.locals.map Json.str).toArray),
      ("globals_decl", Json.arr (s.globalsDecl.map Json.str).toArray),
      ("final", Json.num (s.flow : Nat)), ("returns", Json.num (s.returns : Nat))])).toArray),
   ("globals", Json.arr (st.globalNames.map (nameJson infos)).toArray),
   ("flow_attrs", Json.arr (st.flowAttrs.reverse.map (fun (p, id, f) =>
      Json.arr #[optPosJson p, Json.str id, Json.num (f : Nat)])).toArray),
   ("attr_assigns", Json.arr (st.attrAssigns.reverse.map (fun (s, p) => Json.arr #[Json.num (s : Nat), optPosJson p])).toArray),
   ("imports", Json.arr (st.imports.reverse.map Json.str).toArray),
   ("cur", Json.num (st.cur : Nat)),
   ("wf", Json.bool g.wf),
   ("sorted", Json.bool (st.flows.all (fun f => sortedByLoc f.names)))]

def modsOf (j : Json) : Except String (List (String × List String)) := do
  let a ← j.getArr?
  a.toList.mapM (fun e => do
    let p ← e.getArr?
    if p.size ≠ 2 then throw "mods"
    let k ← p[0]!.getStr?
    let v ← (← p[1]!.getArr?).toList.mapM (·.getStr?)
    pure (k, v))

def handle (j : Json) : Json :=
  match jstr j "op" with
  | .ok "extract" =>
    match (j.getObjVal? "ast").bind astOf,
          (jarr j "lines").bind (·.toList.mapM (fun l => do pure (← l.getStr?).toList)),
          (j.getObjVal? "mods").bind modsOf with
    | .ok tree, .ok lines, .ok mods =>
      let shape := [("wellShaped", Json.bool (wellShaped tree)), ("noTypeParams", Json.bool (noTypeParams tree)),
                    ("size", Json.num (tree.size : Nat))]
      match extract lines mods tree with
      | .ok st => Json.mkObj ([("ok", Json.bool true)] ++ shape ++ stJson st)
      | .error e => Json.mkObj ([("ok", Json.bool false), ("error", Json.str (errStr e))] ++ shape)
    | .error e, _, _ => errJson e
    | _, .error e, _ => errJson e
    | _, _, .error e => errJson e
  | .ok "kinds" => Json.mkObj [("special", Json.arr (specialKinds.map Json.str).toArray)]
  | _ => errJson "unknown extract op"

end SuppModel.Drv.Extract
