/- Driver front-end of the Extract family: (de)serialises and calls `SuppModel.Extract.extract`
   (the definition the theorems of Props/Extract.lean are about). -/
import SuppModel.Drv.Util
import SuppModel.Extract.Model
import SuppModel.Extract.Shape
import SuppModel.Extract.LayoutPair
import SuppModel.Extract.Rename
import SuppModel.Extract.RenameAttr
import SuppModel.Extract.Trans
import SuppModel.Flow.Scoping

namespace SuppModel.Drv.Extract
open Lean SuppModel.Flow SuppModel.Extract SuppModel.Drv

/-- node = {"k": kind, "p": [line, col] | null, "n": [field names], "v": [field values]};
    list = array; string; number; null; bool -> 0/1 -/
partial def astOf (j : Json) : Except String Ast :=
  match j with
  | .null => pure .none
  | .str s => pure (.str s)
  | .bool b => pure (.int (if b then 1 else 0))
  | .num n => pure (.int n.mantissa)
  | .arr a => do pure (.list (← a.toList.mapM astOf))
  | .obj _ => do
    let k ← jstr j "k"
    let p ← match j.getObjVal? "p" with
      | .ok (.arr a) =>
        if a.size = 2 then do pure (some ((← a[0]!.getNat?), (← a[1]!.getNat?))) else throw "pos"
      | _ => pure none
    let n ← (← jarr j "n").toList.mapM (·.getStr?)
    let v ← (← jarr j "v").toList.mapM astOf
    pure (.node k p n v)

def posOf (j : Json) : Except String Pos := do
  let a ← j.getArr?
  if a.size ≠ 2 then throw "pos"
  pure ((← a[0]!.getNat?), (← a[1]!.getNat?))

def posJson (p : Pos) : Json := Json.arr #[Json.num (p.1 : Nat), Json.num (p.2 : Nat)]

def optPosJson : Option Pos → Json
  | some p => posJson p
  | none => Json.null

def kindStr : NameKind → String
  | .assigned => "AssignedName" | .argument => "ArgumentName" | .imported => "ImportedName"
  | .func => "FuncScope" | .cls => "ClassScope"

def scopeKindStr : ScopeKind → String
  | .module => "module" | .func => "func" | .cls => "class" | .builtin => "builtin"

def nameJson (infos : Array NameInfo) (n : NameRec) : Json :=
  let base := [("id", Json.num (n.id : Nat)), ("name", Json.str n.name), ("loc", posJson n.loc), ("scope", Json.num (n.scope : Nat))]
  match infos[n.id]? with
  | some i =>
    Json.mkObj (base ++ [("kind", Json.str (kindStr i.kind)), ("decl", posJson i.declaredAt)] ++
      (match i.kind with
       | .imported => [("module", Json.str i.module), ("mname", match i.mname with | some s => Json.str s | none => Json.null),
                       ("star", Json.bool i.star), ("qualified", Json.bool i.qualified)]
       | .argument => [("idx", match i.idx with | some k => Json.num (k : Nat) | none => Json.null)]
       | _ => []))
  | none => Json.mkObj base

def parentJson : Parent → Json
  | .flow f => Json.arr #[Json.str "f", Json.num (f : Nat)]
  | .loop l t => Json.arr #[Json.str "l", Json.num (l : Nat), Json.num (t : Nat)]

def errStr : Err → String
  | .fuel => "fuel" | .attr => "AttributeError" | .index => "IndexError"

def stJson (st : St) : List (String × Json) :=
  let infos := st.infos.reverse.toArray
  let g := st.toGraph []
  [("flows", Json.arr (st.flows.map (fun f => Json.mkObj [
      ("id", Json.num (f.id : Nat)), ("scope", Json.num (f.scope : Nat)),
      ("names", Json.arr (f.names.map (nameJson infos)).toArray),
      ("parents", Json.arr (f.parents.map parentJson).toArray)])).toArray),
   ("scopes", Json.arr (st.scopes.map (fun s => Json.mkObj [
      ("id", Json.num (s.id : Nat)), ("kind", Json.str (scopeKindStr s.kind)),
      ("parent", match s.parent with | some p => Json.num (p : Nat) | none => Json.null),
      ("locals", Json.arr (s.locals.map Json.str).toArray),
      ("globals_decl", Json.arr (s.globalsDecl.map Json.str).toArray),
      ("nonlocals_decl", Json.arr (s.nonlocalsDecl.map Json.str).toArray),
      ("final", Json.num (s.flow : Nat)), ("returns", Json.num (s.returns : Nat))])).toArray),
   ("globals", Json.arr (st.globalNames.map (nameJson infos)).toArray),
   ("flow_attrs", Json.arr (st.flowAttrs.reverse.map (fun (p, id, f) =>
      Json.arr #[optPosJson p, Json.str id, Json.num (f : Nat)])).toArray),
   ("attr_assigns", Json.arr (st.attrAssigns.reverse.map (fun (s, p) => Json.arr #[Json.num (s : Nat), optPosJson p])).toArray),
   ("imports", Json.arr (st.imports.reverse.map Json.str).toArray),
   ("cur", Json.num (st.cur : Nat)),
   ("wf", Json.bool g.wf),
   ("sorted", Json.bool (st.flows.all (fun f => sortedByLoc f.names)))]

def modsOf (j : Json) : Except String (List (String × List String)) := do
  let a ← j.getArr?
  a.toList.mapM (fun e => do
    let p ← e.getArr?
    if p.size ≠ 2 then throw "mods"
    let k ← p[0]!.getStr?
    let v ← (← p[1]!.getArr?).toList.mapM (·.getStr?)
    pure (k, v))

def handle (j : Json) : Json :=
  match jstr j "op" with
  | .ok "extract" =>
    match (j.getObjVal? "ast").bind astOf,
          (jarr j "lines").bind (·.toList.mapM (fun l => do pure (← l.getStr?).toList)),
          (j.getObjVal? "mods").bind modsOf with
    | .ok tree, .ok lines, .ok mods =>
      let shape := [("wellShaped", Json.bool (wellShaped tree)), ("noTypeParams", Json.bool (noTypeParams tree)),
                    ("size", Json.num (tree.size : Nat))]
      match extract lines mods tree with
      | .ok st => Json.mkObj ([("ok", Json.bool true)] ++ shape ++ stJson st)
      | .error e => Json.mkObj ([("ok", Json.bool false), ("error", Json.str (errStr e))] ++ shape)
    | .error e, _, _ => errJson e
    | _, .error e, _ => errJson e
    | _, _, .error e => errJson e
  | .ok "layoutPair" =>   -- two serialised trees: is the pair an instance of the layout theorem (`extract_C13`)?
    match (j.getObjVal? "ast1").bind astOf, (j.getObjVal? "ast2").bind astOf with
    | .ok t1, .ok t2 =>
      let pairs := posPairs t1 t2
      let φ := phiOf pairs
      let ψ := psiOf pairs (mixPairs φ t1)
      let S := pairS t1
      let bad := (t1.nodes.filter (fun n => !(layoutQ φ ψ S n))).take 5
      Json.mkObj [("ok", Json.bool (layoutPairOK t1 t2)),
        ("eqUpToPos", Json.bool (eqUpToPos t1 t2)), ("functional", Json.bool (functional pairs)),
        ("layoutQ", Json.bool (t1.all (layoutQ φ ψ S))), ("order", Json.bool (orderOK ψ S)), ("queries", Json.bool (queriesOK φ ψ S (namePos t1))),
        ("positions", Json.num (pairs.length : Nat)), ("stored", Json.num ((storedLocs t1).length : Nat)),
        ("names", Json.num ((namePos t1).length : Nat)),
        ("failing_nodes", Json.arr (bad.map (fun n => Json.arr #[Json.str n.kind, optPosJson n.pos?,
            Json.bool (posQ φ ψ n)])).toArray)]
    | .error e, _ => errJson e
    | _, .error e => errJson e
  | .ok "markPair" =>   -- C12: is the REAL marked tree `markTree` of the unmarked tree, and do the hypotheses of C12_mark_transparent hold?
    match (j.getObjVal? "ast").bind astOf, (j.getObjVal? "marked").bind astOf, (j.getObjVal? "cursor").bind posOf with
    | .ok t, .ok m, .ok cursor =>
      let k := match j.getObjVal? "mark_len" with | .ok (Json.num n) => n.mantissa.toNat | _ => 13
      match idDiffs t m with
      | [(some p, newId)] =>
        let mt := markTree t cursor p newId k
        let tr := t.rename p newId
        let equal := m.beq mt
        Json.mkObj [("ok", Json.bool (equal && markOK2 t cursor p newId k)), ("p", posJson p), ("newId", Json.str newId),
          ("equal", Json.bool equal), ("tgtQ", Json.bool (t.all (tgtQ p))),
          ("renQ", Json.bool (t.all (renQ p newId))),   -- cross-check only: the conclusion of the proved rename lemma, evaluated
          ("layoutPair", Json.bool (layoutPairOK tr mt)),
          ("cursorOK", Json.bool ((pairS tr).all (fun l => Pos.lt cursor (pairPsi tr mt l) == Pos.lt cursor l))),
          ("nameFixed", Json.bool (decide (pairPhi tr mt p = p)))]
      | ds => Json.mkObj [("ok", Json.bool false),
          ("why", Json.str s!"{ds.length} Name nodes differ in id between the two trees (exactly one expected)")]
    | .error e, _, _ => errJson e
    | _, .error e, _ => errJson e
    | _, _, .error e => errJson e
  | .ok "markAttrPair" =>   -- C12, attribute branch: the REAL marked tree is `markAttrTree` of the unmarked tree, and `markAttrOK`
    match (j.getObjVal? "ast").bind astOf, (j.getObjVal? "marked").bind astOf, (j.getObjVal? "cursor").bind posOf with
    | .ok t, .ok m, .ok cursor =>
      let k := match j.getObjVal? "mark_len" with | .ok (Json.num n) => n.mantissa.toNat | _ => 13
      match attrDiffs t m with
      | [(some p, z, newAttr)] =>
        let mt := markAttrTree t cursor p z newAttr k
        let tr := t.renameAttr p z newAttr
        let equal := m.beq mt
        let qs := valueNamePos t p z
        let S := pairS tr
        Json.mkObj [("ok", Json.bool (equal && markAttrOK2 t cursor p z newAttr k)), ("p", posJson p), ("size", Json.num (z : Nat)),
          ("newAttr", Json.str newAttr), ("equal", Json.bool equal), ("renQ", Json.bool (t.all (renAQ p z newAttr))),
          ("layoutPair", Json.bool (layoutPairOK tr mt)),
          ("queries", Json.arr (qs.map posJson).toArray),
          ("queriesFixed", Json.bool (qs.all (fun q => decide (pairPhi tr mt q = q)))),
          ("queriesOK", Json.bool (qs.all (fun q => S.all (fun l => Pos.lt q (pairPsi tr mt l) == Pos.lt q l))))]
      | ds => Json.mkObj [("ok", Json.bool false),
          ("why", Json.str s!"{ds.length} Attribute nodes differ in attr between the two trees (exactly one expected)")]
    | .error e, _, _ => errJson e
    | _, .error e, _ => errJson e
    | _, _, .error e => errJson e
  | .ok "kinds" => Json.mkObj [("special", Json.arr (specialKinds.map Json.str).toArray)]
  | _ => errJson "unknown extract op"

end SuppModel.Drv.Extract
