/- Driver front-end of the Text family (C11, C12): (de)serialisation only.
   A Python str travels as the JSON array of its code points. -/
import SuppModel.Drv.Util
import SuppModel.Text.Model

namespace SuppModel.Drv.Text
open Lean SuppModel.Drv SuppModel.Text

def strOfJson (j : Json) : Except String Str := do
  let a ← j.getArr?
  a.toList.mapM (fun x => do
    let n ← x.getNat?
    pure (Char.ofNat n))

def strToJson (s : Str) : Json := Json.arr (s.map (fun c => Json.num (JsonNumber.fromNat c.toNat))).toArray

def strsOfJson (j : Json) : Except String (List Str) := do
  let a ← j.getArr?
  a.toList.mapM strOfJson

def field (j : Json) (k : String) : Except String Json := j.getObjVal? k
def fstr (j : Json) (k : String) : Except String Str := (field j k).bind strOfJson
def fstrs (j : Json) (k : String) : Except String (List Str) := (field j k).bind strsOfJson

def posToJson (p : Nat × Nat) : Json := Json.arr #[Json.num (JsonNumber.fromNat p.1), Json.num (JsonNumber.fromNat p.2)]

/-- one query against a file: [kind, id, sl, col, shift, delims] -/
def query (lines : List Str) (q : Json) : Except String Json := do
  let a ← q.getArr?
  if a.size < 6 then throw "query needs 6 fields"
  let kind ← a[0]!.getStr?
  let id ← strOfJson a[1]!
  let sl ← a[2]!.getNat?
  let col ← a[3]!.getNat?
  let shift ← a[4]!.getNat?
  let delims ← a[5]!.getBool?
  let r ← match kind with
    | "raw" => pure (findIdLoc lines id (sl, col) shift delims)
    | "func" => pure (declaredAt Generated.funcSite lines id (sl, col))
    | "class" => pure (declaredAt Generated.classSite lines id (sl, col))
    | "import" => pure (declaredAt Generated.importSite lines id (sl, col))
    | "importfrom" => pure (declaredAt Generated.importFromSite lines id (sl, col))
    | "legacydef" => pure (declaredAtDefLegacy lines id (sl, col))
    | "legacyimport" => pure (findIdLocLegacy lines id (sl, col) 0 true)
    | "pre695" => pure (findIdLocPre695 lines id (sl, col) 0 true)
    | _ => throw "unknown query kind"
  pure (posToJson r)

def wordClass (j : Json) : Except String (Char → Bool) := do
  let w ← fstr j "word"
  pure (fun c => w.contains c)

def handle (j : Json) : Json :=
  let r : Except String Json := do
    let op ← jstr j "op"
    match op with
    | "file" =>
      -- the file text (`src`: the model splits it into lines itself) or, for legacy variants, the lines
      let lines ← match fstr j "src" with
        | .ok src => pure (splitlines src)
        | .error _ => fstrs j "lines"
      let qs ← jarr j "q"
      let rs ← qs.toList.mapM (query lines)
      pure (Json.mkObj [("ok", Json.arr rs.toArray),
                        ("nonl", Json.bool (lines.all (fun l => !l.contains '\n'))),
                        ("ascii", Json.arr (lines.map (fun l => Json.bool (asciiStr l))).toArray)])
    | "prefix" =>
      let line ← fstr j "line"
      let isWord ← wordClass j
      pure (Json.mkObj [("prefix", strToJson (assistPrefix isWord line)),
                        ("generic", strToJson (prefixOf isWord line)),
                        ("spec", strToJson (identSuffix isWord line)),
                        ("branch", Json.bool (fromMatch isWord line).isSome),
                        ("frompkg", strToJson (match fromMatch isWord line with | some m => fromPackageOf m | none => [])),
                        ("legacybranch", Json.bool (fromBranchLegacy line)),
                        ("legacyfrom", strToJson (assistPrefixLegacy isWord line)),
                        ("legacy", strToJson (prefixOfLegacy line))])
    | "unmark" =>
      let s ← fstr j "s"
      pure (Json.mkObj [("ok", strToJson (unmark s)), ("marked", Json.bool (marked s))])
    | "split_pkg" =>
      let s ← fstr j "s"
      let (h, t) := splitPkg s
      pure (Json.mkObj [("ok", Json.arr #[strToJson h, strToJson t])])
    | "join_pkg" =>
      let a ← fstr j "a"
      let b ← fstr j "b"
      pure (Json.mkObj [("ok", strToJson (joinPkg a b))])
    | "splitlines" =>
      let src ← fstr j "s"
      pure (Json.mkObj [("ok", Json.arr ((splitlines src).map strToJson).toArray),
                        ("legacy", Json.arr ((splitlinesLegacy src).map strToJson).toArray)])
    | "mark" =>
      let src ← fstr j "src"
      let ln ← jnat j "ln"
      let col ← jnat j "col"
      match markSource src ln col with
      | .ok ls => pure (Json.mkObj [("ok", Json.arr (ls.map strToJson).toArray), ("source", strToJson (joinNl ls))])
      | .error .indexError => pure (Json.mkObj [("err", Json.str "IndexError")])
    | "location_entry" =>
      -- one result of location(): [line, col] and file of the raw declaration, the analysed file, the cursor
      let file ← fstr j "file"
      let src ← fstr j "srcfile"
      let ln ← jnat j "ln"
      let col ← jnat j "col"
      let cl ← jnat j "cln"
      let cc ← jnat j "ccol"
      let e := locationEntry src (cl, cc) { name := [], declaredAt := (ln, col), filename := file }
      pure (Json.mkObj [("loc", posToJson e.loc), ("file", strToJson e.file),
                        ("legacy", posToJson (locationEntryLegacy { name := [], declaredAt := (ln, col), filename := file }).loc)])
    | "proposals" =>
      let names ← fstrs j "names"
      pure (Json.mkObj [("ok", Json.arr ((proposals (names.map (fun n => (n, ())))).map strToJson).toArray)])
    | _ => throw "unknown text op"
  match r with
  | .ok v => v
  | .error e => errJson e

end SuppModel.Drv.Text
