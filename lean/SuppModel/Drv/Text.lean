import SuppModel.Drv.Util
namespace SuppModel.Drv.Text
open Lean SuppModel.Drv
def handle (_j : Json) : Json := errJson "driver for Text not built yet"
end SuppModel.Drv.Text
