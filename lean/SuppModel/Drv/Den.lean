import SuppModel.Drv.Util
namespace SuppModel.Drv.Den
open Lean SuppModel.Drv
def handle (_j : Json) : Json := errJson "driver for Den not built yet"
end SuppModel.Drv.Den
