/- Driver front-end of the Den family: JSON Stmt -> `Den.Stmt`, then the model's own `answer` / fragment
   predicates / `run`.  Requests: {"op":"den","prog":<Stmt>,"runs":[[0|1,…],…]?}. -/
import SuppModel.Drv.Util
import SuppModel.Den.Model
import SuppModel.Den.Sem
namespace SuppModel.Drv.Den
open Lean SuppModel.Drv SuppModel.Den

def mkSeq : List Stmt → Stmt
  | [] => .skip
  | [s] => s
  | s :: rest => .seq s (mkSeq rest)

def arrOf (j : Json) : Except String (Array Json) := j.getArr?

/-- names declared `global` by the statements of a scope body (not inside nested scopes) -/
partial def declared (j : Json) : List Den.Ident :=
  match j.getArr? with
  | .ok a =>
    match a[0]? >>= (·.getStr?.toOption) with
    | some "global" => ((a[1]? >>= (·.getArr?.toOption)).getD #[]).toList.filterMap (·.getStr?.toOption)
    | some "seq" => ((a[1]? >>= (·.getArr?.toOption)).getD #[]).toList.flatMap declared
    | some "if" => (a.toList.drop 1).flatMap declared
    | some "while" => (a.toList.drop 1).flatMap declared
    | some "for" => (a.toList.drop 3).flatMap declared
    | some "try" => (declared (a[1]?.getD Json.null)) ++ (declared (a[3]?.getD Json.null)) ++ (declared (a[4]?.getD Json.null))
        ++ (((a[2]? >>= (·.getArr?.toOption)).getD #[]).toList.flatMap fun h =>
              declared (((h.getArr?.toOption).getD #[])[2]?.getD Json.null))
    | _ => []
  | .error _ => []

partial def conv (gl : List Den.Ident) (j : Json) : Except String Stmt := do
  let a ← j.getArr?
  let tag ← (a[0]?.getD Json.null).getStr?
  let arg (i : Nat) : Json := a[i]?.getD Json.null
  let bindOf (j : Json) : Except String (Den.Ident × Site) := do
    let b ← j.getArr?
    let x ← (b[1]?.getD Json.null).getStr?
    let d ← (b[2]?.getD Json.null).getNat?
    pure (x, d)
  let mkBind (x : Den.Ident) (d : Site) : Stmt := if x ∈ gl then .gbind x d else .bind x d
  let binds (j : Json) : Except String Stmt := do
    let xs ← j.getArr?
    let bs ← xs.toList.mapM bindOf
    pure (mkSeq (bs.map fun (x, d) => mkBind x d))
  match tag with
  | "bind" => do let (x, d) ← bindOf j; pure (mkBind x d)
  | "read" => do
      let x ← (arg 1).getStr?
      let r ← (arg 2).getNat?
      pure (.read x r)
  | "seq" => do
      let xs ← (arg 1).getArr?
      let ss ← xs.toList.mapM (conv gl)
      pure (mkSeq ss)
  | "if" => do pure (.ite (← conv gl (arg 1)) (← conv gl (arg 2)) (← conv gl (arg 3)))
  | "while" => do pure (.while_ (← conv gl (arg 1)) (← conv gl (arg 2)) (← conv gl (arg 3)))
  | "for" => do pure (.for_ (← conv gl (arg 1)) (← binds (arg 2)) (← conv gl (arg 3)) (← conv gl (arg 4)))
  | "try" => do
      let b ← conv gl (arg 1)
      let hs ← (arg 2).getArr?
      let e ← conv gl (arg 3)
      let f ← conv gl (arg 4)
      if hs.isEmpty then pure (.fin (.seq b e) f) else
      let hl ← hs.toList.mapM fun h => do
        let ha ← h.getArr?
        let ty ← conv gl (ha[0]?.getD Json.null)
        let nm ← match ha[1]?.getD Json.null with
          | Json.null => pure Stmt.skip
          | n => do let (x, d) ← bindOf n; pure (mkBind x d)
        let hb ← conv gl (ha[2]?.getD Json.null)
        pure (ty, nm, hb)
      let chain := hl.foldr (fun (ty, nm, hb) rest => Stmt.hcons ty nm hb rest) Stmt.hnil
      -- raise points as first / last statement of the body become the flags of `tryx`
      let (r1, b1) := match b with
        | .seq (.mayraise _) t => (true, t)
        | .mayraise _ => (true, Stmt.skip)
        | t => (false, t)
      let rec stripLast : Stmt → Bool × Stmt
        | .seq s (.mayraise _) => (true, s)
        | .seq s t => let (f, t') := stripLast t; (f, .seq s t')
        | .mayraise _ => (true, .skip)
        | t => (false, t)
      let (r2, b2) := stripLast b1
      pure (.fin (.tryx r1 r2 b2 chain e) f)
  | "comp" => do
      let gens ← (arg 1).getArr?
      let elt ← conv gl (arg 2)
      let gl' ← gens.toList.mapM fun g => do
        let ga ← g.getArr?
        let it ← conv gl (ga[0]?.getD Json.null)
        -- comprehension variables are never diverted to the module's global names
        let tgs ← (ga[1]?.getD Json.null).getArr?
        let tgl ← tgs.toList.mapM bindOf
        let tg := mkSeq (tgl.map fun (x, d) => Stmt.bind x d)
        let ifs ← conv gl (ga[2]?.getD Json.null)
        pure (it, tg, ifs)
      match gl' with
      | [] => throw "comp without generators"
      | (it, tg, ifs) :: rest =>
        -- build right-nested: cfor tg ifs (seq it2 (cfor tg2 ifs2 (… elt)))
        let rec build : List (Stmt × Stmt × Stmt) → Stmt
          | [] => elt
          | (it', tg', ifs') :: more => Stmt.seq it' (Stmt.cfor tg' ifs' (build more))
        pure (.comp it (.cfor tg ifs (build rest)))
  | "def" => do
      let pre ← conv gl (arg 1)
      let (f, d) ← bindOf (arg 2)
      let ps ← (arg 3).getArr?
      let pl ← ps.toList.mapM bindOf
      let params := mkSeq (pl.map fun (x, d) => Stmt.bind x d)
      let body ← conv (declared (arg 4)) (arg 4)
      if f ∈ gl then pure (.seq (.def_ pre "%global-def" d params body) (.gbind f d))
      else pure (.def_ pre f d params body)
  | "lambda" => do
      let pre ← conv gl (arg 1)
      let ps ← (arg 2).getArr?
      let pl ← ps.toList.mapM bindOf
      let params := mkSeq (pl.map fun (x, d) => Stmt.bind x d)
      let body ← conv [] (arg 3)
      pure (.lam pre params body)
  | "class" => do
      let pre ← conv gl (arg 1)
      let (c, d) ← bindOf (arg 2)
      let body ← conv (declared (arg 3)) (arg 3)
      if c ∈ gl then pure (.seq (.cls pre "%global-class" d body) (.gbind c d))
      else pure (.cls pre c d body)
  | "mayraise" => do pure (.mayraise (← (arg 1).getNat?))
  | "break" => pure .brk
  | "continue" => pure .cont
  | "return" => pure .ret
  | "raise" => pure .raise_
  | "global" => pure .skip
  | "nonlocal" => pure .skip
  | t => throw s!"unknown statement {t}"

/-- all scope bodies of a program (itself and, recursively, the bodies of nested def / lambda / class) -/
def scopeBodies : Stmt → List Stmt
  | .seq s t => scopeBodies s ++ scopeBodies t
  | .ite c a b => scopeBodies c ++ scopeBodies a ++ scopeBodies b
  | .while_ c b e => scopeBodies c ++ scopeBodies b ++ scopeBodies e
  | .for_ it tg b e => scopeBodies it ++ scopeBodies tg ++ scopeBodies b ++ scopeBodies e
  | .tryx _ _ b hs e => scopeBodies b ++ scopeBodies hs ++ scopeBodies e
  | .hcons ty nm hb rest => scopeBodies ty ++ scopeBodies nm ++ scopeBodies hb ++ scopeBodies rest
  | .fin s f => scopeBodies s ++ scopeBodies f
  | .def_ pre _ _ _ body => scopeBodies pre ++ [body] ++ scopeBodies body
  | .lam pre _ body => scopeBodies pre ++ [body] ++ scopeBodies body
  | .cls pre _ _ body => scopeBodies pre ++ [body] ++ scopeBodies body
  | _ => []

/-- number of (read, its own name) pairs that are late reads (`lateRead`, the hypothesis of `C02_sound`), over all
    scope bodies -/
def lateCount (prog : Stmt) : Nat :=
  ((prog :: scopeBodies prog).map fun body =>
    ((readsOf body).filter fun (r, x) => lateRead body r x).length).foldl (· + ·) 0

def altsJson (as : Alts) : Json :=
  Json.arr (as.eraseDups.toArray.map fun
    | some d => Json.num d
    | none => Json.str "undef")

def traceJson (t : List (RId × Option Site)) : Json :=
  Json.arr (t.toArray.map fun (r, v) => Json.arr #[Json.num r, match v with | some d => Json.num d | none => Json.null])

def handle (j : Json) : Json :=
  match (do
    let prog ← conv [] (← j.getObjVal? "prog")
    let ats := (readsOf prog).map fun (r, x) => Json.arr #[Json.num r, Json.str x, altsJson (answer prog r x)]
    let runs := match j.getObjVal? "runs" with
      | .ok (Json.arr rs) => rs.toList.map fun (ds : Json) =>
          let dl := ((ds.getArr?.toOption).getD #[]).toList.map fun (b : Json) => (b.getNat?.toOption.getD 0) != 0
          match runProg prog dl with
          | some (o, tr) => Json.mkObj [("outcome", Json.str (toString (repr o))), ("trace", traceJson tr)]
          | none => Json.mkObj [("outcome", Json.str "out-of-fuel"), ("trace", traceJson [])]
      | _ => []
    pure (Json.mkObj [("at", Json.arr ats.toArray), ("inC02", Json.bool (inC02 prog)), ("inC03", Json.bool (inC03 prog)),
                      ("inSem", Json.bool (inSem prog)), ("runWf", Json.bool (runWf prog)),
                      ("lateReads", Json.num (lateCount prog)), ("runs", Json.arr runs.toArray)]) : Except String Json) with
  | .ok r => r
  | .error e => errJson e
end SuppModel.Drv.Den
