/- Driver front-end of the MDict family (model of supp/merged_dict.py): (de)serialisation only; it calls
   `init`, `getitem`, `contains`, `iteritems`, `iter`, `itervalues`, `get` of SuppModel/MDict/Model.lean,
   the very definitions the theorems of Props/MDict.lean are about.

   request : {"op": "mdict", "args": [{"d": [[k, v], ...]} | {"m": [[[k, v], ...], ...]}, ...],
              "keys": [k, ...], "default": n}
   reply   : {"dicts": [[[k, v], ...], ...], "wf": bool, "getitem": [v | null, ...], "contains": [bool, ...],
              "get": [v, ...], "items": [[k, v], ...], "iter": [k, ...], "values": [v, ...]} -/
import SuppModel.Drv.Util
import SuppModel.MDict.Model

namespace SuppModel.Drv.MDict
open Lean SuppModel.Drv SuppModel.MDict

def pairOfJson (j : Json) : Except String (Nat × Nat) := do
  let a ← j.getArr?
  if a.size = 2 then pure (← a[0]!.getNat?, ← a[1]!.getNat?) else throw "pair expected"

def dictOfJson (j : Json) : Except String Dict := do (← j.getArr?).toList.mapM pairOfJson

def argOfJson (j : Json) : Except String Arg :=
  match j.getObjVal? "d" with
  | .ok d => do pure (Arg.plain (← dictOfJson d))
  | .error _ => do
    let m ← jarr j "m"
    pure (Arg.merged (← m.toList.mapM dictOfJson))

def dictJson (d : Dict) : Json :=
  Json.arr (d.map (fun kv => Json.arr #[(kv.1 : Json), (kv.2 : Json)])).toArray

def natsJson (l : List Nat) : Json := Json.arr (l.map (fun (n : Nat) => (n : Json))).toArray

def handleE (j : Json) : Except String Json := do
  let op ← jstr j "op"
  match op with
  | "mdict" =>
    let args ← (← jarr j "args").toList.mapM argOfJson
    let keys ← (← jarr j "keys").toList.mapM (·.getNat?)
    let dflt ← jnat j "default"
    let ds := init args
    pure (Json.mkObj [
      ("dicts", Json.arr (ds.map dictJson).toArray),
      ("wf", Json.bool (ds.all (fun d => decide d.wf))),
      ("getitem", Json.arr (keys.map (fun k => match getitem ds k with
          | some v => (v : Json) | none => Json.null)).toArray),
      ("contains", Json.arr (keys.map (fun k => Json.bool (contains ds k))).toArray),
      ("get", natsJson (keys.map (fun k => get ds k dflt))),
      ("items", dictJson (iteritems ds)),
      ("iter", natsJson (iter ds)),
      ("values", natsJson (itervalues ds))])
  | _ => throw ("unknown op " ++ op)

def handle (j : Json) : Json :=
  match handleE j with
  | .ok r => r
  | .error e => errJson e

end SuppModel.Drv.MDict
