/-
  Driver front-end of the Rpc family (property C15).  Pure and stateless: a request carries the
  whole history.  It only (de)serialises and calls the model's definitions (`session`, `serverRun`,
  `serverApi`, `inproc`, `expected`, `reqOK`, `resOK`, `failing`) — the ones the theorems are about.

  The library parameter `Lib` is instantiated with a TRACE: the outcomes the harness observed when
  it made the same calls in-process, consumed one per request.
-/
import SuppModel.Drv.Util
import SuppModel.Drv.Msgpack
import SuppModel.Rpc.Server

namespace SuppModel.Drv.Rpc
open Lean SuppModel.Msgpack SuppModel.Rpc SuppModel.Drv SuppModel.Drv.Msgpack

abbrev Trace := List ApiResult

def exhausted : ApiResult := .raised (.str []) (.str [])

def pop (t : Trace) : Trace × ApiResult :=
  match t with
  | [] => ([], exhausted)
  | x :: xs => (xs, x)

def rowOf : Value → List Value
  | .tup xs => xs
  | .arr xs => xs
  | v => [v]

/-- the library as observed in-process -/
def traceLib : Lib Trace where
  newProject := fun t _ =>
    match pop t with
    | (t', .ok _) => (t', none)
    | (t', .raised c m) => (t', some (c, m))
  assist := fun t _ _ _ => pop t
  location := fun t _ _ _ => pop t
  lint := fun t _ _ =>
    match pop t with
    | (t', .ok (.arr rs)) => (t', .ok (rs.map rowOf))
    | (t', .ok (.tup rs)) => (t', .ok (rs.map rowOf))
    | (t', .ok v) => (t', .error (.str [], v))
    | (t', .raised c m) => (t', .error (c, m))
  eval := fun t _ => pop t
  noProject := fun t => pop t
  other := fun st _ _ _ => let (t', r) := pop st.1; ((t', st.2), r)

def resultOfJson (j : Json) : Except String ApiResult :=
  match j.getObjVal? "ok" with
  | .ok v => do pure (.ok (← valueOfJson v))
  | .error _ => do
    let a ← jarr j "raised"
    if a.size ≠ 2 then throw "bad raised"
    pure (.raised (← valueOfJson a[0]!) (← valueOfJson a[1]!))

def reqOfJson (j : Json) : Except String (Req × ApiResult) := do
  let name ← valueOfJson (← j.getObjVal? "name")
  let args ← (← jarr j "args").toList.mapM valueOfJson
  let kw ← (← jarr j "kwargs").toList.mapM (fun p => do
    let pr ← p.getArr?
    if pr.size ≠ 2 then throw "bad pair"
    pure ((← valueOfJson pr[0]!), (← valueOfJson pr[1]!)))
  let out ← resultOfJson (← j.getObjVal? "out")
  pure (⟨name, args, kw⟩, out)

def outcomeToJson : Outcome → Json
  | .returned v => Json.mkObj [("ret", valueToJson v)]
  | .exception m => Json.mkObj [("exc", valueToJson m)]
  | .clientError => Json.mkObj [("clientError", Json.num 1)]
  | .sendError e => Json.mkObj [("sendError", Json.str (errName e))]
  | .noReply => Json.mkObj [("noReply", Json.num 1)]

def exitToJson : Option Exit → Json
  | none => Json.null
  | some .eof => Json.str "eof"
  | some (.ioError e) => Json.str ("ioError:" ++ errName e)
  | some .closed => Json.str "closed"
  | some .crashed => Json.str "crashed"
  | some .unmodelled => Json.str "unmodelled"

def hexStr (bs : List Nat) : Json := Json.str (toHex bs)

def handle (j : Json) : Json :=
  match jstr j "op" with
  | .ok "session" =>
    match (jarr j "reqs").bind (fun a => a.toList.mapM reqOfJson) with
    | .error e => errJson e
    | .ok rqs =>
      let reqs := rqs.map Prod.fst
      let trace : Trace := rqs.map Prod.snd
      let configured := (j.getObjValAs? Bool "configured").toOption.getD false
      let api := serverApi traceLib
      let st0 : Trace × Bool := (trace, configured)
      let (outs, stF, ex) := session api st0 reqs
      let (ins, stI) := inproc api st0 reqs
      Json.mkObj [
        ("outcomes", Json.arr (outs.map outcomeToJson).toArray),
        ("exit", exitToJson ex),
        ("project", Json.bool stF.2),
        ("left", Json.num stF.1.length),
        ("reqOK", Json.arr (reqs.map (fun r => Json.bool (reqOK r))).toArray),
        ("resOK", Json.arr (ins.map (fun x => Json.bool (resOK x))).toArray),
        ("failing", Json.arr (ins.map (fun x => Json.bool (failing x))).toArray),
        ("expected", Json.arr (ins.map (fun x => outcomeToJson (expected x))).toArray),
        ("inproc_project", Json.bool stI.2)]
  | .ok "stream" =>
    -- raw incoming messages (hex, or null = peer closed) against `serverRun`
    match jarr j "msgs", (jarr j "trace").bind (fun a => a.toList.mapM resultOfJson) with
    | .ok ms, .ok trace =>
      let msgs : List (Option (List Nat)) := ms.toList.map (fun m =>
        match m.getStr? with
        | .ok s => fromHex s
        | .error _ => none)
      let configured := (j.getObjValAs? Bool "configured").toOption.getD false
      let (reps, stF, ex) := serverRun (serverApi traceLib) (trace, configured) msgs
      Json.mkObj [
        ("replies", Json.arr (reps.map hexStr).toArray),
        ("decoded", Json.arr (reps.map (fun b => outcomeToJson (clientDecode b))).toArray),
        ("exit", exitToJson ex),
        ("left", Json.num stF.1.length)]
    | _, _ => errJson "bad stream request"
  | .ok "literals" =>
    Json.mkObj [("close", hexStr closeName), ("SerializeError", hexStr serErrCls),
      ("Serialize error", hexStr serErrMsg), ("assist", hexStr sAssist), ("location", hexStr sLocation),
      ("lint", hexStr sLint), ("eval", hexStr sEval), ("configure", hexStr sConfigure),
      ("source", hexStr pSource), ("position", hexStr pPosition), ("filename", hexStr pFilename),
      ("syntax_only", hexStr pSyntaxOnly), ("config", hexStr pConfig)]
  | _ => errJson "unknown rpc op"

end SuppModel.Drv.Rpc
