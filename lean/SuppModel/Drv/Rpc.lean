import SuppModel.Drv.Util
namespace SuppModel.Drv.Rpc
open Lean SuppModel.Drv
def handle (_j : Json) : Json := errJson "driver for Rpc not built yet"
end SuppModel.Drv.Rpc
