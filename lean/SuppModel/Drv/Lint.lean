import SuppModel.Drv.Util
namespace SuppModel.Drv.Lint
open Lean SuppModel.Drv
def handle (_j : Json) : Json := errJson "driver for Lint not built yet"
end SuppModel.Drv.Lint
