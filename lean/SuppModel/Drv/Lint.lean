import SuppModel.Drv.Util
import SuppModel.Lint.Spec

/-! Driver front-end of the Lint family (C10): (de)serialises an abstract analysed module and calls
    `lintModel` and the decidable hypotheses of the C10 theorems -- the very definitions the theorems are about. -/
namespace SuppModel.Drv.Lint
open Lean SuppModel.Drv SuppModel.Lint

def jbool (j : Json) (k : String) : Except String Bool := j.getObjValAs? Bool k

def pairOf (j : Json) (k : String) : Except String (Int × Int) := do
  let a ← jarr j k
  if a.size ≠ 2 then throw s!"{k}: not a pair"
  let x ← a[0]!.getInt?
  let y ← a[1]!.getInt?
  pure (x, y)

def optNat (j : Json) (k : String) : Except String (Option Nat) := do
  let v ← j.getObjVal? k
  match v with
  | .null => pure none
  | _ => do let n ← v.getNat?; pure (some n)

def kindOf (j : Json) : Except String Kind := do
  match ← jstr j "kind" with
  | "assigned" => pure .assigned
  | "argument" => pure .argument
  | "funcdef" => pure .funcdef
  | "classdef" => pure .classdef
  | "imported" => do
    let m ← jstr j "module"
    let s ← jbool j "star"
    let q ← jbool j "qualified"
    pure (.imported m s q)
  | k => throw s!"kind {k}"

def scopeKindOf (s : String) : Except String ScopeKind :=
  match s with
  | "module" => pure .module
  | "class" => pure .cls
  | "function" => pure .function
  | "lambda" => pure .lambda
  | k => throw s!"scope kind {k}"

def bindingOf (j : Json) : Except String Binding := do
  let id ← jnat j "id"
  let name ← jstr j "name"
  let kind ← kindOf j
  let sk ← (jstr j "sk").bind scopeKindOf
  let scope ← jnat j "scope"
  let pc ← jbool j "pc"
  let d ← pairOf j "d"
  let loc ← pairOf j "loc"
  pure ⟨id, name, kind, sk, scope, pc, d, loc⟩

def entryOf (j : Json) : Except String Entry := do
  if let .ok s := j.getObjVal? "s" then
    let id ← optNat s "id"
    let name ← jstr s "name"
    let z ← jbool s "z"
    let scope ← optNat s "scope"
    let q ← jbool s "q"
    pure (.single ⟨id, name, z, scope, q⟩)
  else if let .ok m := j.getObjVal? "m" then
    let name ← jstr m "name"
    let alts ← jarr m "alts"
    let ids ← alts.toList.mapM (·.getNat?)
    pure (.multi name ids)
  else throw "entry"

def readOf (j : Json) : Except String Read := do
  let id ← jstr j "id"
  let loc ← pairOf j "loc"
  let f ← j.getObjVal? "flow"
  match f with
  | .null => pure ⟨id, loc, none⟩
  | _ => do
    let scope ← jnat f "scope"
    let rows ← jarr f "table"
    let table ← rows.toList.mapM fun row => do
      let pr ← row.getArr?
      if pr.size ≠ 2 then throw "table row"
      let k ← pr[0]!.getStr?
      let e ← entryOf pr[1]!
      pure (k, e)
    pure ⟨id, loc, some ⟨scope, table⟩⟩

def moduleOf (j : Json) : Except String SuppModel.Lint.Module := do
  let ns ← jarr j "names"
  let rs ← jarr j "reads"
  let allNames ← ns.toList.mapM bindingOf
  let reads ← rs.toList.mapM readOf
  pure ⟨allNames, reads⟩

def diagJson (d : Diag) : Json :=
  Json.arr #[Json.str d.code, Json.str d.message, toJson d.line, toJson d.col]

def codeJson : Option Code → Json
  | none => Json.null
  | some c => Json.str c.str

def handle (j : Json) : Json :=
  match jstr j "op" with
  | .ok "lint" =>
    match moduleOf j with
    | .error e => errJson e
    | .ok m =>
      let hyps : List (String × Json) := [
        ("wellKeyed", Json.bool (decide (TableWellKeyed m))),
        ("refsScoped", Json.bool (decide (RefsScoped m))),
        ("noDup", Json.bool (decide (NoDupIds m))),
        -- per binding: is it never read (hypothesis of C10_never_read_unused), what does the sentence demand
        ("neverRead", Json.arr (m.allNames.map fun b => Json.bool (decide (NeverRead m b))).toArray),
        ("valid", Json.arr (m.allNames.map fun b => Json.bool (decide (specFactsOf b false).Valid)).toArray),
        ("spec", Json.arr (m.allNames.map fun b => codeJson (spec (specFactsOf b false))).toArray)]
      match lintModel m with
      | .ok ds => Json.mkObj (("ok", Json.arr (ds.map diagJson).toArray) :: hyps)
      | .error .attributeError => Json.mkObj (("err", Json.str "AttributeError") :: hyps)
  | .ok "decide" =>
    -- the generated chain on explicit atoms (order of the fields of `Facts`)
    match (jarr j "f").bind (fun a => a.toList.mapM (·.getBool?)) with
    | .ok [a, b, c, d, e, g, h, i, k] =>
      match Generated.reportFull ⟨a, b, c, d, e, g, h, i, k⟩ with
      | none => Json.mkObj [("ok", Json.null)]
      | some (c, p) => Json.mkObj [("ok", Json.arr #[Json.str c.str, Json.str p])]
    | _ => errJson "decide: nine booleans expected"
  | _ => errJson "unknown lint op"

end SuppModel.Drv.Lint
