/- JSON helpers shared by the driver front-ends (not part of any model). -/
import Lean.Data.Json

namespace SuppModel.Drv
open Lean

def hexDigit (n : Nat) : Char :=
  if n < 10 then Char.ofNat (48 + n) else Char.ofNat (87 + n)

def toHex (bs : List Nat) : String :=
  String.ofList (bs.foldr (fun b acc => hexDigit (b / 16 % 16) :: hexDigit (b % 16) :: acc) [])

def hexVal (c : Char) : Option Nat :=
  if '0' ≤ c ∧ c ≤ '9' then some (c.toNat - 48)
  else if 'a' ≤ c ∧ c ≤ 'f' then some (c.toNat - 87)
  else if 'A' ≤ c ∧ c ≤ 'F' then some (c.toNat - 55)
  else none

def fromHexAux : List Char → List Nat → Option (List Nat)
  | [], acc => some acc.reverse
  | a :: b :: r, acc => do
    let x ← hexVal a
    let y ← hexVal b
    fromHexAux r ((x * 16 + y) :: acc)
  | _, _ => none

def fromHex (s : String) : Option (List Nat) := fromHexAux s.toList []

def jstr (j : Json) (k : String) : Except String String := j.getObjValAs? String k
def jnat (j : Json) (k : String) : Except String Nat := j.getObjValAs? Nat k
def jint (j : Json) (k : String) : Except String Int := j.getObjValAs? Int k
def jarr (j : Json) (k : String) : Except String (Array Json) := do
  let v ← j.getObjVal? k
  v.getArr?

def errJson (msg : String) : Json := Json.mkObj [("driver_error", Json.str msg)]

end SuppModel.Drv
