/- Driver front-end of the Startup family (C16): (de)serialisation around
   `SuppModel.Startup.step / enabledSet / serverRun` — the definitions the theorems are about.
   The only logic here is the depth-first enumeration of maximal schedules, which calls `step`. -/
import SuppModel.Drv.Util
import SuppModel.Startup.Model

namespace SuppModel.Drv.Startup
open Lean SuppModel.Drv SuppModel.Startup

def opOfString : String → Except String Op
  | "prepare" => pure .prepare
  | "call" => pure .call
  | "close" => pure .close
  | s => throw ("bad op " ++ s)

def variantOfString : String → Except String Variant
  | "current" => pure .current
  | "legacyJoin" => pure .legacyJoin
  | "legacyClose" => pure .legacyClose
  | s => throw ("bad variant " ++ s)

def excName : Exc → String
  | .attributeError => "AttributeError"
  | .typeError => "TypeError"
  | .osError => "OSError"
  | .brokenPipeError => "BrokenPipeError"
  | .eofError => "EOFError"
  | .runtimeError => "RuntimeError"
  | .launchTimeout => "Exception"

def pcName : Pc → String
  | .pWith => "pWith" | .pIfThread => "pIfThread" | .pRet1 => "pRet1" | .pIfConn => "pIfConn"
  | .pRet2 => "pRet2" | .pMk => "pMk" | .pStart => "pStart" | .pExit => "pExit"
  | .rWith => "rWith" | .rRead => "rRead" | .rIf => "rIf" | .rJoin => "rJoin"
  | .rIfConn => "rIfConn" | .rRun => "rRun" | .rExit => "rExit"
  | .tTry => "tTry" | .tRun => "tRun" | .tClear => "tClear"
  | .cTry => "cTry" | .cConn => "cConn" | .cExcept => "cExcept" | .cRun => "cRun"
  | .cSend => "cSend" | .cRecv => "cRecv" | .cIf => "cIf" | .cRet => "cRet"
  | .clTry => "clTry" | .clConn => "clConn" | .clExcept => "clExcept" | .clPass => "clPass"
  | .clSend => "clSend" | .clClose => "clClose" | .clDel => "clDel"
  | .done => "done"

def tidChar (t : Nat) : Char := if t < 10 then Char.ofNat (48 + t) else Char.ofNat (87 + t)
def tidOfChar (c : Char) : Nat := if c.toNat < 58 then c.toNat - 48 else c.toNat - 87
def tidsToString (ts : List Nat) : String := String.ofList (ts.map tidChar)

structure Req where
  v : Variant
  lf : Bool
  w : List (List Op)

def parseReq (j : Json) : Except String Req := do
  let v ← match jstr j "variant" with
    | .ok s => variantOfString s
    | .error _ => pure Variant.current
  let lf := match j.getObjValAs? Bool "lf" with | .ok b => b | .error _ => false
  let wl ← jarr j "workload"
  let w ← wl.toList.mapM (fun ops => do
    let a ← ops.getArr?
    a.toList.mapM (fun o => do opOfString (← o.getStr?)))
  pure ⟨v, lf, w⟩

def outJson : Out → Json
  | .running => Json.str "running"
  | .returned => Json.str "returned"
  | .raised e => Json.str ("raised " ++ excName e)

def stJson (r : Req) (s : St) : Json :=
  Json.mkObj [
    ("popen", Json.num s.popen),
    ("conn", Json.bool s.conn.isSome),
    ("closed", Json.bool (match s.conn with | some c => c.closed | none => false)),
    ("live", Json.bool s.live),
    ("closeMsgs", Json.num s.closeMsgs),
    ("lock", match s.lock with | some t => Json.num t | none => Json.null),
    ("pthread", Json.bool s.pthread.isSome),
    ("threads", Json.arr (s.threads.map (fun th => Json.mkObj [
        ("out", outJson th.out), ("answered", Json.num th.answered), ("pc", Json.str (pcName th.pc))])).toArray),
    ("enabled", Json.str (tidsToString (s.enabledSet r.v r.lf))),
    ("final", Json.bool s.final)]

/-- strict replay with, per decision, the enabled set and the chosen thread's pc before the step -/
def runSchedule (r : Req) (sched : List Nat) : Json := Id.run do
  let mut s := init r.w
  let mut ens : Array Json := #[]
  let mut pcs : Array Json := #[]
  let mut k := 0
  for t in sched do
    ens := ens.push (Json.str (tidsToString (s.enabledSet r.v r.lf)))
    pcs := pcs.push (Json.str (match s.threads[t]? with | some th => pcName th.pc | none => "?"))
    match step r.v r.lf s t with
    | some s' => s := s'; k := k + 1
    | none =>
      return Json.mkObj [("blocked_at", Json.num k), ("enabled", Json.arr ens), ("pcs", Json.arr pcs),
                         ("state", stJson r s)]
  return Json.mkObj [("enabled", Json.arr ens), ("pcs", Json.arr pcs), ("state", stJson r s)]

/-- lines that neither read nor write shared state: running them first loses no behaviour -/
def invisible (v : Variant) : Pc → Bool
  | .pRet1 | .pRet2 | .tTry | .cTry | .cExcept | .cRun | .cIf | .cRet | .clTry | .clExcept | .clPass => true
  | .rIf => v != .legacyJoin
  | _ => false

/-- depth-first enumeration of all maximal strict schedules (with `por`: a thread standing at an
    invisible line is the only one explored) -/
partial def enumerate (r : Req) (por : Bool) (limit : Nat) (s : St) (pre : List Nat)
    (acc : Array String × Bool) : Array String × Bool :=
  if acc.1.size ≥ limit then (acc.1, true) else
  let en := s.enabledSet r.v r.lf
  if en.isEmpty then (acc.1.push (tidsToString pre.reverse), acc.2) else
  let pick := if por then
      match en.find? (fun t => match s.threads[t]? with | some th => invisible r.v th.pc | none => false) with
      | some t => [t]
      | none => en
    else en
  pick.foldl (fun acc t =>
    match step r.v r.lf s t with
    | some s' => enumerate r por limit s' (t :: pre) acc
    | none => acc) acc

def srvInOfString : String → Except String SrvIn
  | "request" => pure .request
  | "close" => pure .closeReq
  | "eof" => pure .eof
  | "garbage" => pure .garbage
  | s => throw ("bad server input " ++ s)

def handle (j : Json) : Json :=
  match jstr j "op" with
  | .ok "run" =>
    match parseReq j, jstr j "schedule" with
    | .ok r, .ok sch => runSchedule r (sch.toList.map tidOfChar)
    | .error e, _ => errJson e
    | _, .error e => errJson e
  | .ok "enum" =>
    match parseReq j with
    | .error e => errJson e
    | .ok r =>
      let por := match j.getObjValAs? Bool "por" with | .ok b => b | .error _ => false
      let limit := match jnat j "limit" with | .ok n => n | .error _ => 100000
      let (scheds, trunc) := enumerate r por limit (init r.w) [] (#[], false)
      Json.mkObj [("n", Json.num scheds.size), ("truncated", Json.bool trunc),
                  ("schedules", Json.arr (scheds.map Json.str))]
  | .ok "server" =>
    match (jarr j "inputs").bind (fun a => a.toList.mapM (fun x => do srvInOfString (← x.getStr?))) with
    | .error e => errJson e
    | .ok ins =>
      let o := serverRun ins
      Json.mkObj [("running", Json.bool o.continues), ("replies", Json.num o.replies),
                  ("closed", Json.bool o.closesConn)]
  | _ => errJson "unknown startup op"

end SuppModel.Drv.Startup
