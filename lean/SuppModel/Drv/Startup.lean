/- Driver front-end of the Startup family (C16): (de)serialisation around
   `SuppModel.Startup.step / enabledSet / serverRun` — the definitions the theorems are about.
   The only logic here is the depth-first enumeration of maximal schedules, which calls `step`. -/
import SuppModel.Drv.Util
import SuppModel.Startup.Model

namespace SuppModel.Drv.Startup
open Lean SuppModel.Drv SuppModel.Startup

def opOfString : String → Except String Op
  | "prepare" => pure .prepare
  | "call" => pure .call
  | "close" => pure .close
  | s => throw ("bad op " ++ s)

def variantOfString : String → Except String Variant
  | "current" => pure .current
  | "legacyJoin" => pure .legacyJoin
  | "legacyClose" => pure .legacyClose
  | s => throw ("bad variant " ++ s)

def excName : Exc → String
  | .attributeError => "AttributeError"
  | .typeError => "TypeError"
  | .osError => "OSError"
  | .brokenPipeError => "BrokenPipeError"
  | .eofError => "EOFError"
  | .runtimeError => "RuntimeError"
  | .launchTimeout => "Exception"

def pcName : Pc → String
  | .pWith => "pWith" | .pIfThread => "pIfThread" | .pRet1 => "pRet1" | .pIfConn => "pIfConn"
  | .pRet2 => "pRet2" | .pMk => "pMk" | .pStart => "pStart" | .pExit => "pExit"
  | .rWith => "rWith" | .rRead => "rRead" | .rIf => "rIf" | .rJoin => "rJoin"
  | .rIfConn => "rIfConn" | .rRun => "rRun" | .rExit => "rExit"
  | .tTry => "tTry" | .tRun => "tRun" | .tClear => "tClear"
  | .cTry => "cTry" | .cConn => "cConn" | .cExcept => "cExcept" | .cRun => "cRun"
  | .cSend => "cSend" | .cRecv => "cRecv" | .cIf => "cIf" | .cRet => "cRet"
  | .clTry => "clTry" | .clConn => "clConn" | .clExcept => "clExcept" | .clPass => "clPass"
  | .clSend => "clSend" | .clClose => "clClose" | .clDel => "clDel"
  | .done => "done"

def tidChar (t : Nat) : Char := if t < 10 then Char.ofNat (48 + t) else Char.ofNat (87 + t)
def tidOfChar (c : Char) : Nat := if c.toNat < 58 then c.toNat - 48 else c.toNat - 87
def tidsToString (ts : List Nat) : String := String.ofList (ts.map tidChar)

structure Req where
  v : Variant
  lf : Bool
  w : List (List Op)

def parseReq (j : Json) : Except String Req := do
  let v ← match jstr j "variant" with
    | .ok s => variantOfString s
    | .error _ => pure Variant.current
  let lf := match j.getObjValAs? Bool "lf" with | .ok b => b | .error _ => false
  let wl ← jarr j "workload"
  let w ← wl.toList.mapM (fun ops => do
    let a ← ops.getArr?
    a.toList.mapM (fun o => do opOfString (← o.getStr?)))
  pure ⟨v, lf, w⟩

def outJson : Out → Json
  | .running => Json.str "running"
  | .returned => Json.str "returned"
  | .raised e => Json.str ("raised " ++ excName e)

def stJson (r : Req) (s : St) : Json :=
  Json.mkObj [
    ("popen", Json.num s.popen),
    ("conn", Json.bool s.conn.isSome),
    ("closed", Json.bool (match s.conn with | some c => c.closed | none => false)),
    ("live", Json.bool s.live),
    ("closeMsgs", Json.num s.closeMsgs),
    ("lock", match s.lock with | some t => Json.num t | none => Json.null),
    ("pthread", Json.bool s.pthread.isSome),
    ("threads", Json.arr (s.threads.map (fun th => Json.mkObj [
        ("out", outJson th.out), ("answered", Json.num th.answered), ("pc", Json.str (pcName th.pc))])).toArray),
    ("enabled", Json.str (tidsToString (s.enabledSet r.v r.lf))),
    ("final", Json.bool s.final)]

/-- strict replay with, per decision, the enabled set and the chosen thread's pc before the step -/
def runSchedule (r : Req) (sched : List Nat) : Json := Id.run do
  let mut s := init r.w
  let mut ens : Array Json := #[]
  let mut pcs : Array Json := #[]
  let mut k := 0
  for t in sched do
    ens := ens.push (Json.str (tidsToString (s.enabledSet r.v r.lf)))
    pcs := pcs.push (Json.str (match s.threads[t]? with | some th => pcName th.pc | none => "?"))
    match step r.v r.lf s t with
    | some s' => s := s'; k := k + 1
    | none =>
      return Json.mkObj [("blocked_at", Json.num k), ("enabled", Json.arr ens), ("pcs", Json.arr pcs),
                         ("state", stJson r s)]
  return Json.mkObj [("enabled", Json.arr ens), ("pcs", Json.arr pcs), ("state", stJson r s)]

/-- lines that neither read nor write shared state: running them first loses no behaviour -/
def invisible (v : Variant) : Pc → Bool
  | .pRet1 | .pRet2 | .tTry | .cTry | .cExcept | .cRun | .cIf | .cRet | .clTry | .clExcept | .clPass => true
  | .rIf => v != .legacyJoin
  | _ => false

inductive Var | lock | pthread | connPresent | connClosed | replies | live | popen | closeMsgs | nthreads | outs
  deriving DecidableEq

/-- shared variables read / written by the line at `pc` (conservative) -/
def footprint (v : Variant) : Pc → List Var × List Var
  | .pWith | .rWith | .pExit | .rExit => ([], [.lock])
  | .pIfThread | .rRead => ([.pthread], [])
  | .pIfConn | .rIfConn | .cConn | .clConn => ([.connPresent], [])
  | .pMk => ([.nthreads], [.pthread])
  | .pStart => ([.pthread], [.nthreads])
  | .rIf => (if v = .legacyJoin then [.pthread] else [], [])
  | .rJoin => (if v = .legacyJoin then [.pthread, .outs] else [.outs], [])
  | .rRun | .tRun => ([], [.connPresent, .connClosed, .replies, .live, .popen])
  | .tClear => ([], [.pthread, .outs])
  | .cSend => ([.connPresent, .connClosed, .live], [.replies])
  | .cRecv => ([.connPresent, .connClosed, .live], [.replies])
  | .clSend => ([.connPresent, .connClosed], [.live, .closeMsgs])
  | .clClose => ([.connPresent], [.connClosed, .live])
  | .clDel => ([], [.connPresent])
  | _ => ([], [])

def conflict (a b : List Var × List Var) : Bool :=
  a.2.any (fun x => b.1.contains x || b.2.contains x) || b.2.any (fun x => a.1.contains x)

def independent (v : Variant) (s : St) (t u : Nat) : Bool :=
  match s.threads[t]?, s.threads[u]? with
  | some a, some b => !conflict (footprint v a.pc) (footprint v b.pc)
  | _, _ => false

/-- depth-first enumeration of maximal strict schedules.
    mode 0: every schedule; mode 1: a thread standing at an invisible line is the only one explored;
    mode 2: mode 1 + sleep sets (one schedule per class of schedules equal up to swapping adjacent
    independent lines). -/
partial def enumerate (r : Req) (mode : Nat) (limit : Nat) (s : St) (pre : List Nat) (sleep : List Nat)
    (acc : Array String × Bool) : Array String × Bool :=
  if acc.1.size ≥ limit then (acc.1, true) else
  let en := s.enabledSet r.v r.lf
  if en.isEmpty then (acc.1.push (tidsToString pre.reverse), acc.2) else
  let inv := en.find? (fun t => match s.threads[t]? with | some th => invisible r.v th.pc | none => false)
  let pick := match (if mode ≥ 1 then inv else none) with
      | some t => [t]
      | none => en
  let (acc, _) := pick.foldl (fun (acc, sleep) t =>
    if mode ≥ 2 && sleep.contains t then (acc, sleep) else
    match step r.v r.lf s t with
    | some s' =>
      let sl' := if mode ≥ 2 then sleep.filter (fun u => independent r.v s u t) else []
      (enumerate r mode limit s' (t :: pre) sl' acc, t :: sleep)
    | none => (acc, sleep)) (acc, sleep)
  acc

def srvInOfString : String → Except String SrvIn
  | "request" => pure .request
  | "close" => pure .closeReq
  | "eof" => pure .eof
  | "garbage" => pure .garbage
  | s => throw ("bad server input " ++ s)

def handle (j : Json) : Json :=
  match jstr j "op" with
  | .ok "run" =>
    match parseReq j, jstr j "schedule" with
    | .ok r, .ok sch => runSchedule r (sch.toList.map tidOfChar)
    | .error e, _ => errJson e
    | _, .error e => errJson e
  | .ok "enum" =>
    match parseReq j with
    | .error e => errJson e
    | .ok r =>
      let mode := match jnat j "mode" with | .ok n => n | .error _ => 0
      let limit := match jnat j "limit" with | .ok n => n | .error _ => 100000
      let (scheds, trunc) := enumerate r mode limit (init r.w) [] [] (#[], false)
      Json.mkObj [("n", Json.num scheds.size), ("truncated", Json.bool trunc),
                  ("schedules", Json.arr (scheds.map Json.str))]
  | .ok "server" =>
    match (jarr j "inputs").bind (fun a => a.toList.mapM (fun x => do srvInOfString (← x.getStr?))) with
    | .error e => errJson e
    | .ok ins =>
      let o := serverRun ins
      Json.mkObj [("running", Json.bool o.continues), ("replies", Json.num o.replies),
                  ("closed", Json.bool o.closesConn)]
  | _ => errJson "unknown startup op"

end SuppModel.Drv.Startup
