import SuppModel.Drv.Util
namespace SuppModel.Drv.Startup
open Lean SuppModel.Drv
def handle (_j : Json) : Json := errJson "driver for Startup not built yet"
end SuppModel.Drv.Startup
