import SuppModel.Drv.Util
namespace SuppModel.Drv.Perm
open Lean SuppModel.Drv
def handle (_j : Json) : Json := errJson "driver for Perm not built yet"
end SuppModel.Drv.Perm
