/- Driver front-end of the Perm family (C17): (de)serialisation only; every answer is computed by the
   definitions of SuppModel/Perm/Model.lean.  A request carries the hash order as a rank table
   (`SetOrder.byRank`) or as "ident" / "rev". -/
import SuppModel.Drv.Util
import SuppModel.Perm.Model
namespace SuppModel.Drv.Perm
open Lean SuppModel.Drv SuppModel.Perm

def toStr (s : String) : Str := s.toList.map Char.toNat
def ofStr (s : Str) : String := String.ofList (s.map Char.ofNat)

def natAt (a : Array Json) (i : Nat) : Except String Nat := (a[i]?.getD Json.null).getNat?
def strAt (a : Array Json) (i : Nat) : Except String String := (a[i]?.getD Json.null).getStr?

def altOfJson (j : Json) : Except String Alt := do
  if let .ok s := jstr j "u" then return .undef (toStr s)
  let a ← jarr j "n"
  return .name (← natAt a 0) (toStr (← strAt a 1)) (← natAt a 2, ← natAt a 3) (← natAt a 4, ← natAt a 5) (toStr (← strAt a 6))

def mnameOf (alts : List Alt) : MName := ⟨alts, (alts.head?.map Alt.nm).getD []⟩

def itemOfJson (j : Json) : Except String Item := do
  if let .ok a := jarr j "m" then
    let id ← natAt a 0
    let alts ← (← (a[1]?.getD Json.null).getArr?).toList.mapM altOfJson
    return .multi id (mnameOf alts)
  return .alt (← altOfJson j)

def altId : Alt → Nat
  | .undef _ => 0
  | .name i _ _ _ _ => i

def itemId : Item → Nat
  | .alt a => altId a
  | .multi i _ => i

def rankTable (j : Json) (k : String) : Except String (List (Nat × Nat)) := do
  match j.getObjVal? k with
  | .error _ => return []
  | .ok v =>
    (← v.getArr?).toList.mapM fun p => do
      let pr ← p.getArr?
      return (← natAt pr 0, ← natAt pr 1)

def rankOf (t : List (Nat × Nat)) (i : Nat) : Nat := (t.lookup i).getD 0

def orderOf {α : Type} (j : Json) (key : String) (id : α → Nat) : Except String (SetOrder α) := do
  match j.getObjVal? (key ++ "_mode") with
  | .ok (.str "ident") => return SetOrder.ident α
  | .ok (.str "rev") => return SetOrder.rev α
  | _ =>
    let t ← rankTable j key
    return SetOrder.byRank (fun a => rankOf t (id a))

def strOrderOf (j : Json) : Except String (SetOrder Str) := do
  match j.getObjVal? "rank_str_mode" with
  | .ok (.str "ident") => return SetOrder.ident Str
  | .ok (.str "rev") => return SetOrder.rev Str
  | _ =>
    match j.getObjVal? "rank_str" with
    | .error _ => return SetOrder.ident Str
    | .ok v =>
      let t ← (← v.getArr?).toList.mapM fun p => do
        let pr ← p.getArr?
        return (toStr (← strAt pr 0), ← natAt pr 1)
      return SetOrder.byRank (fun s => (t.lookup s).getD 0)

def altJson (a : Alt) : Json := Json.num (altId a)

def valJson : Val → Json
  | .single a => Json.mkObj [("s", altJson a)]
  | .multi m => Json.mkObj [("m", Json.arr (m.altNames.map altJson).toArray)]

def errName : PyErr → String
  | .indexError => "IndexError"

def locJson (l : LocOut) : Json :=
  Json.mkObj [("loc", Json.arr #[Json.num l.loc.1, Json.num l.loc.2]), ("file", Json.str (ofStr l.file))]

def entryJson : LocEntry → Json
  | .one l => locJson l
  | .many ls => Json.arr (ls.map locJson).toArray

def handleE (j : Json) : Except String Json := do
  let op ← jstr j "op"
  match op with
  | "multiname" =>
    let names ← (← jarr j "names").toList.mapM itemOfJson
    let s ← orderOf (α := Alt) j "rank_alt" altId
    let legacy := (j.getObjValAs? Bool "legacy").toOption.getD false
    let r := if legacy then multiNameLegacy s names else multiName s names
    let noties := Json.bool (NoTies names)
    match r with
    | .error e => return Json.mkObj [("err", Json.str (errName e)), ("noties", noties)]
    | .ok m =>
      let loc := if legacy then locationLegacy s (fun a => [.one a]) names else location s (fun a => [.one a]) names
      let first := match firstName (.multi m) with
        | .ok a => altJson a
        | .error e => Json.str (errName e)
      return Json.mkObj [("alts", Json.arr (m.altNames.map altJson).toArray), ("name", Json.str (ofStr m.name)),
        ("valid", Json.arr (m.validNames.map altJson).toArray), ("has_undefined", Json.bool m.hasUndefined),
        ("first", first),
        ("location", match loc with | .ok es => Json.arr (es.map entryJson).toArray | .error e => Json.str (errName e)),
        ("noties", noties)]
  | "parent" =>
    let tables ← (← jarr j "tables").toList.mapM fun t => do
      (← t.getArr?).toList.mapM fun p => do
        let pr ← p.getArr?
        return (toStr (← strAt pr 0), ← itemOfJson (pr[1]?.getD Json.null))
    let h : Hash := { strs := ← strOrderOf j, items := ← orderOf (α := Item) j "rank_item" itemId,
                      alts := ← orderOf (α := Alt) j "rank_alt" altId }
    let noties := Json.bool (NoTiesJoin tables)
    match parentNames h tables with
    | .error e => return Json.mkObj [("err", Json.str (errName e)), ("noties", noties)]
    | .ok t =>
      let exported := match exportedNames t with
        | .ok ex => Json.arr (ex.map (fun (k, a) => Json.arr #[Json.str (ofStr k), altJson a])).toArray
        | .error e => Json.str (errName e)
      return Json.mkObj [("rows", Json.arr (t.map (fun (k, v) => Json.arr #[Json.str (ofStr k), valJson v])).toArray),
        ("exported", exported), ("noties", noties)]
  | "assist" =>
    let names ← (← jarr j "names").toList.mapM (fun x => do return toStr (← x.getStr?))
    let marked ← (← jarr j "marked").toList.mapM (fun x => do return toStr (← x.getStr?))
    let s ← strOrderOf j
    return Json.mkObj [("sorted", Json.arr ((assist s (fun n => marked.contains n) names).map (fun n => Json.str (ofStr n))).toArray)]
  | "composite" =>
    let names ← (← jarr j "names").toList.mapM itemOfJson
    let s ← orderOf (α := Alt) j "rank_alt" altId
    -- values: [[alt id, [[attr, target alt]...]] ...]
    let vals ← (← jarr j "values").toList.mapM fun p => do
      let pr ← p.getArr?
      let attrs ← (← (pr[1]?.getD Json.null).getArr?).toList.mapM fun q => do
        let qr ← q.getArr?
        return (toStr (← strAt qr 0), ← altOfJson (qr[1]?.getD Json.null))
      return (← natAt pr 0, attrs)
    let attr := toStr (← jstr j "attr")
    match compositeLookup s (fun a => vals.lookup (altId a)) names attr with
    | .error e => return Json.mkObj [("err", Json.str (errName e))]
    | .ok none => return Json.mkObj [("attr", Json.null)]
    | .ok (some a) => return Json.mkObj [("attr", altJson a)]
  | _ => throw ("unknown op " ++ op)

def handle (j : Json) : Json :=
  match handleE j with
  | .ok r => r
  | .error e => errJson e
end SuppModel.Drv.Perm
