/- Driver front-end of the Attrs family (C06): (de)serialisation only; it calls the very definitions the
   theorems of Props/C06.lean are about (`classAttrs`, `instAttrs`, `mro`, `Acyclic`, `NoRepeatedAncestors`)
   and the pre-fix table `instAttrsLegacy`.

   request : {"h": [{"id": n, "bases": [{"src": n} | {"builtin": name, "attrs": [...], "inst": [...]} | {"unknown": 1}],
                     "body": [[name, site], ...], "self": [[name, site], ...]}, ...], "c": n}
   reply   : {"acyclic": b, "norepeat": b, "mro": [{"cls": n} | {"builtin": name}],
              "cls": [[name, val], ...], "inst": [...], "legacy": [...]}     val = {"site": n} | {"builtin": s} | {"multi": [n]} -/
import SuppModel.Drv.Util
import SuppModel.Attrs.Spec

namespace SuppModel.Drv.Attrs
open Lean SuppModel.Drv SuppModel.Attrs

def strList (a : Array Json) : Except String (List String) := a.toList.mapM (·.getStr?)

def baseOfJson (j : Json) : Except String Base := do
  if let .ok c := jnat j "src" then return .src c
  if let .ok nm := jstr j "builtin" then
    let attrs ← strList (← jarr j "attrs")
    let inst ← strList (← jarr j "inst")
    return .builtin nm attrs inst
  if (j.getObjVal? "unknown").isOk then return .unknown
  throw "bad base"

def pairsOfJson (a : Array Json) : Except String (List (String × Site)) :=
  a.toList.mapM (fun p => do
    let pr ← p.getArr?
    if pr.size ≠ 2 then throw "bad pair"
    let k ← pr[0]!.getStr?
    let s ← pr[1]!.getNat?
    pure (k, s))

def classOfJson (j : Json) : Except String (ClassId × ClassDef) := do
  let id ← jnat j "id"
  let bases ← (← jarr j "bases").toList.mapM baseOfJson
  let body ← pairsOfJson (← jarr j "body")
  let sa ← pairsOfJson (← jarr j "self")
  pure (id, ⟨bases, body, sa⟩)

def valToJson : Val → Json
  | .site s => Json.mkObj [("site", toJson s)]
  | .builtin nm => Json.mkObj [("builtin", Json.str nm)]
  | .multi ss => Json.mkObj [("multi", Json.arr (ss.map (fun s => toJson s)).toArray)]

def dictToJson (d : Dict Val) : Json :=
  Json.arr (d.map (fun p => Json.arr #[Json.str p.1, valToJson p.2])).toArray

def entryToJson : MroEntry → Json
  | .cls c => Json.mkObj [("cls", toJson c)]
  | .builtin nm _ => Json.mkObj [("builtin", Json.str nm)]

def handle (j : Json) : Json :=
  match (do
    let h ← (← jarr j "h").toList.mapM classOfJson
    let c ← jnat j "c"
    pure (h, c) : Except String (Hier × ClassId)) with
  | .error e => errJson e
  | .ok (h, c) =>
    let ac := decide (Acyclic h c)
    Json.mkObj [
      ("acyclic", Json.bool ac),
      ("norepeat", Json.bool (decide (NoRepeatedAncestors h c))),
      ("mro", Json.arr ((mro h c).map entryToJson).toArray),
      ("cls", dictToJson (classAttrs h c)),
      ("inst", dictToJson (instAttrs h c)),
      ("legacy", dictToJson (instAttrsLegacy h c))]

end SuppModel.Drv.Attrs
