import SuppModel.Drv.Util
namespace SuppModel.Drv.Attrs
open Lean SuppModel.Drv
def handle (_j : Json) : Json := errJson "driver for Attrs not built yet"
end SuppModel.Drv.Attrs
