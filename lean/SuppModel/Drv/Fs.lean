import SuppModel.Drv.Util
import SuppModel.Generated.Fs

/- Driver front-end of the Fs family (C07).  One request carries a whole file-system snapshot and a list
   of queries; the reply is the list of answers.  Only (de)serialisation + calls of the model/spec
   definitions the theorems are about. -/
namespace SuppModel.Drv.Fs
open Lean SuppModel.Drv SuppModel.Fs

def strOf (s : String) : Str := s.toList.map Char.toNat
def strTo (s : Str) : String := String.ofList (s.map Char.ofNat)
def pathTo (p : Path) : Json := Json.arr (p.map (fun c => Json.str (strTo c))).toArray

def getStrs (j : Json) : Except String (List Str) := do
  let a ← j.getArr?
  a.toList.mapM (fun x => do let s ← x.getStr?; pure (strOf s))

def getPaths (j : Json) (k : String) : Except String (List Path) := do
  let a ← jarr j k
  a.toList.mapM getStrs

def sortDedup (xs : List String) : List String :=
  (xs.toArray.qsort (· < ·)).toList.eraseDups

def strsTo (xs : List Str) : Json := Json.arr ((sortDedup (xs.map strTo)).map Json.str).toArray

def sfxOf (j : Json) (k : String) (dflt : List Str) : List Str :=
  match (j.getObjVal? k).bind getStrs with
  | .ok l => l
  | .error _ => dflt

def modResTo : ModRes → Json
  | .found f b => Json.mkObj [("found", pathTo f), ("src", Json.bool b)]
  | .loaded => Json.str "loaded"
  | .importError => Json.str "ImportError"

def locTo : Option Loc → Json
  | none => Json.null
  | some (.file f d) => Json.mkObj [("file", pathTo f), ("pkg", Json.bool d.isSome)]
  | some (.ns ps) => Json.mkObj [("ns", Json.arr (ps.map pathTo).toArray)]

def exceptTo : Except PyErr Str → Json
  | .ok s => Json.mkObj [("ok", Json.str (strTo s))]
  | .error .importError => Json.mkObj [("err", Json.str "ImportError")]

/-- candidates for the spec's `enumerable` among the entries of a directory -/
def specChildren (lsfx : List Str) (fs : Fs) (dir : Path) : List Str :=
  match fs.listdir dir with
  | none => []
  | some names =>
    let cands := names ++ names.flatMap (fun e =>
      lsfx.filterMap (fun s => if s.isSuffixOf e then some (e.take (e.length - s.length)) else none))
    cands.filter (enumerable lsfx fs dir)

def query (roots : List Path) (sfx src lsfx : List Str) (fs : Fs) (sysm : List Str) (q : Json) : Json :=
  match jstr q "q" with
  | .ok "get" =>
    match jstr q "name" with
    | .error e => errJson e
    | .ok nm =>
      let name := strOf nm
      let comps := splitOn DOT name
      Json.mkObj [
        ("model", modResTo (getModule roots sfx src fs sysm name)),
        ("spec", locTo (importlibFind lsfx fs roots name)),
        ("valid", Json.bool (validComps comps)),
        ("nons", Json.bool (NoNamespaceDirs roots fs comps)),
        ("noclash", Json.bool (NoModulePackageClash roots sfx fs comps)),
        ("noext", Json.bool (NoExtensionNextToSource roots Generated.NONEXT_SUFFIXES Generated.EXTENSION_SUFFIXES fs comps)),
        ("regular", Json.bool (Regular roots sfx fs comps)),
        ("nosplit", Json.bool (NoSplitPackage roots sfx src lsfx fs comps))]
  | .ok "norm" =>
    match jstr q "rel", (q.getObjVal? "file").bind getStrs with
    | .ok rel, .ok file =>
      let dir := file.dropLast
      let pkg := packageOf fs dir
      let top := dir.take (dir.length - pkg.length)
      Json.mkObj [
        ("model", exceptTo (normPackage fs file (strOf rel))),
        ("spec", exceptTo (resolveName (strOf rel) pkg)),
        ("pkg", Json.str (strTo (joinOn DOT pkg))),
        ("chain", Json.bool (pkgChainOK fs top pkg)),
        ("clean", Json.bool (noInitUpTo fs top))]
    | _, _ => errJson "bad norm query"
  | .ok "nget" =>
    match jstr q "name", (q.getObjVal? "file").bind getStrs with
    | .ok nm, .ok file =>
      match getNModule roots sfx src fs sysm (strOf nm) file with
      | .ok r => Json.mkObj [("model", modResTo r)]
      | .error _ => Json.mkObj [("model", Json.str "ImportError")]
    | _, _ => errJson "bad nget query"
  | .ok "alist" =>
    -- assistant.list_packages: project.list_packages(project.norm_package(root, filename))
    match jstr q "root", (q.getObjVal? "file").bind getStrs with
    | .ok rt, .ok file =>
      Json.mkObj [("norm", exceptTo (normPackage fs file (strOf rt))),
                  ("model", strsTo (assistListPackages roots sfx fs sysm (strOf rt) file))]
    | _, _ => errJson "bad alist query"
  | .ok "list" =>
    match jstr q "root" with
    | .error e => errJson e
    | .ok rt =>
      let root := strOf rt
      Json.mkObj [
        ("model", strsTo (listPackages roots sfx fs sysm root)),
        ("fsonly", strsTo (listPackages roots sfx fs [] root)),
        ("spec", strsTo (roots.flatMap (fun p => specChildren lsfx fs (pkgDirOf p root))))]
  | _ => errJson "unknown query"

def handle (j : Json) : Json :=
  match jstr j "op" with
  | .ok "tree" =>
    match getPaths j "files", getPaths j "dirs", jarr j "groups" with
    | .ok files, .ok dirs, .ok groups =>
      let fs : Fs := { files := files, dirs := dirs }
      let sfx := sfxOf j "suffixes" Generated.SUFFIXES
      let src := sfxOf j "source_suffixes" Generated.SOURCE_SUFFIXES
      let lsfx := sfxOf j "loader_suffixes" Generated.LOADER_SUFFIXES
      Json.mkObj [("r", Json.arr (groups.map (fun g =>
        match getPaths g "roots", jarr g "queries" with
        | .ok roots, .ok qs =>
          let sysm := sfxOf g "sysmods" []
          Json.arr (qs.map (query roots sfx src lsfx fs sysm))
        | _, _ => errJson "bad group")))]
    | _, _, _ => errJson "bad tree request"
  | .ok "splitpkg" =>
    match jstr j "s" with
    | .ok s => let (h, t) := splitPkg (strOf s); Json.arr #[Json.str (strTo h), Json.str (strTo t)]
    | .error e => errJson e
  | .ok "joinpkg" =>
    match jstr j "a", jstr j "b" with
    | .ok a, .ok b => Json.str (strTo (joinPkg (strOf a) (strOf b)))
    | _, _ => errJson "bad joinpkg"
  | .ok "tables" =>
    Json.mkObj [("suffixes", Json.arr (Generated.SUFFIXES.map (fun s => Json.str (strTo s))).toArray),
                ("source_suffixes", Json.arr (Generated.SOURCE_SUFFIXES.map (fun s => Json.str (strTo s))).toArray),
                ("loader_suffixes", Json.arr (Generated.LOADER_SUFFIXES.map (fun s => Json.str (strTo s))).toArray)]
  | _ => errJson "unknown fs op"

end SuppModel.Drv.Fs
