import SuppModel.Drv.Util
namespace SuppModel.Drv.Fs
open Lean SuppModel.Drv
def handle (_j : Json) : Json := errJson "driver for Fs not built yet"
end SuppModel.Drv.Fs
