/- The line-protocol loop shared by every driver executable: one JSON object per input
   line, one JSON value per output line.  Drivers only (de)serialise and call the
   executable model definitions the theorems are about. -/
import SuppModel.Drv.Util

namespace SuppModel.Drv
open Lean

partial def loop (dispatch : Json → Json) (hin hout : IO.FS.Stream) : IO Unit := do
  let line ← hin.getLine
  if line.isEmpty then return ()
  let out := match Json.parse line with
    | .ok j => dispatch j
    | .error e => errJson ("parse: " ++ e)
  hout.putStrLn out.compress
  hout.flush
  loop dispatch hin hout

def runLoop (dispatch : Json → Json) : IO Unit := do
  loop dispatch (← IO.getStdin) (← IO.getStdout)

end SuppModel.Drv
