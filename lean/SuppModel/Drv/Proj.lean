import SuppModel.Drv.Util
import SuppModel.Proj.Model

/- Driver front-end of the Proj family (C09).  A request carries the variant, the fuel, the initial
   disk and the whole history (every write and touch with the mtime it gives the file); the reply lists, per request of the history, the answer of
   the long-lived project (`run`) and the answer of a fresh project on the disk of that moment
   (`fresh`), plus the decidable hypotheses (`freshMtimes`, `absDisk`/`Op.isAbs`, no `recursion` in the fresh
   answers) and the model's own verdict on the history (`transparentOn`). -/
namespace SuppModel.Drv.Proj
open Lean SuppModel.Drv SuppModel.Proj

def natOf (j : Json) : Except String Nat := j.getNat?
def modOf (j : Json) : Except String Mod := do (← j.getArr?).toList.mapM natOf
def optNat (j : Json) : Except String (Option Nat) :=
  match j with | .null => pure none | _ => do pure (some (← natOf j))

def tagOf (a : Array Json) : Except String String :=
  if h : 0 < a.size then a[0].getStr? else throw "empty tuple"

def itemOf (j : Json) : Except String Item := do
  let a ← j.getArr?
  match (← tagOf a), a.size with
  | "bind", 3 => pure (.bind (← natOf a[1]!) (← natOf a[2]!))
  | "imp", 2 => pure (.imp (← natOf a[1]!))
  | "frm", 4 => pure (.frm (← modOf a[1]!) (← natOf a[2]!) (← natOf a[3]!))
  | "star", 2 => pure (.star (← modOf a[1]!))
  | "rfrm", 5 => pure (.rfrm (← natOf a[1]!) (← modOf a[2]!) (← natOf a[3]!) (← natOf a[4]!))
  | "rstar", 3 => pure (.rstar (← natOf a[1]!) (← modOf a[2]!))
  | t, _ => throw ("bad item " ++ t)

def srcOf (j : Json) : Except String Src := do (← j.getArr?).toList.mapM itemOf

def queryOf (j : Json) : Except String Query := do
  let a ← j.getArr?
  match (← tagOf a), a.size with
  | "names", 3 => pure (.names (← modOf a[1]!) (← optNat a[2]!))
  | "attr", 4 => pure (.attr (← modOf a[1]!) (← optNat a[2]!) (← natOf a[3]!))
  | "loc", 4 => pure (.loc (← modOf a[1]!) (← optNat a[2]!) (← natOf a[3]!))
  | "lint", 3 => pure (.lint (← modOf a[1]!) (← (← a[2]!.getArr?).toList.mapM natOf))
  | t, _ => throw ("bad query " ++ t)

def opOf (j : Json) : Except String Op := do
  let a ← j.getArr?
  match (← tagOf a), a.size with
  | "write", 4 => pure (.write (← modOf a[1]!) (← natOf a[2]!) (← srcOf a[3]!))
  | "touch", 3 => pure (.touch (← modOf a[1]!) (← natOf a[2]!))
  | "req", 2 => pure (.request (← queryOf a[1]!))
  | t, _ => throw ("bad op " ++ t)

def fileOf (j : Json) : Except String (Mod × File) := do
  let a ← j.getArr?
  if a.size ≠ 3 then throw "bad file"
  pure (← modOf a[0]!, ⟨← natOf a[1]!, ← srcOf a[2]!⟩)

def variantOf : String → Except String Variant
  | "pinned" => pure .pinned
  | "coarseOnly" => pure .coarseOnly
  | "current" => pure .current
  | "noRenorm" => pure .noRenorm
  | "ltChanged" => pure .ltChanged
  | s => throw ("bad variant " ++ s)

def natsJson (xs : List Nat) : Json := Json.arr (xs.map (fun (n : Nat) => Json.num n)).toArray

def ansJson : Ans → Json
  | .names xs => Json.mkObj [("names", natsJson xs)]
  | .payload p => Json.mkObj [("payload", Json.num p)]
  | .locs ls => Json.mkObj [("locs", Json.arr (ls.map (fun (l : Loc) =>
      Json.arr #[match l.1 with | none => Json.null | some m => natsJson m, Json.num l.2])).toArray)]
  | .undefined xs => Json.mkObj [("undefined", natsJson xs)]
  | .nothing => Json.str "nothing"
  | .recursion => Json.str "recursion"

def handle (j : Json) : Json :=
  let r : Except String Json := do
    let v ← variantOf (← jstr j "variant")
    let fuel ← jnat j "fuel"
    let disk ← (← jarr j "disk").toList.mapM fileOf
    let ops ← (← jarr j "ops").toList.mapM opOf
    let tr := run v fuel (World.init v disk) ops
    let fr := tr.map (fun r => fresh fuel r.1 r.2.1)
    pure (Json.mkObj [
      ("answers", Json.arr (tr.map (fun r => ansJson r.2.2)).toArray),
      ("fresh", Json.arr (fr.map ansJson).toArray),
      ("fresh_mtimes", Json.bool (freshMtimes (seenOf disk) ops)),
      ("abs_ok", Json.bool (absDisk disk && ops.all Op.isAbs)),
      ("transparent", Json.bool (transparentOn v fuel disk ops)),
      ("no_recursion", Json.bool (fr.all (· ≠ .recursion)))])
  match r with
  | .ok j => j
  | .error e => errJson e

end SuppModel.Drv.Proj
