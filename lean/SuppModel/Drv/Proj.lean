import SuppModel.Drv.Util
namespace SuppModel.Drv.Proj
open Lean SuppModel.Drv
def handle (_j : Json) : Json := errJson "driver for Proj not built yet"
end SuppModel.Drv.Proj
