import SuppModel.Drv.Util
import SuppModel.Msgpack.Spec

namespace SuppModel.Drv.Msgpack
open Lean SuppModel.Msgpack SuppModel.Drv

partial def valueToJson : Value → Json
  | .nil => Json.null
  | .bool b => Json.bool b
  | .int n => Json.mkObj [("i", Json.str (toString n))]
  | .float bits => Json.mkObj [("f", Json.str (toString bits))]
  | .str u => Json.mkObj [("s", Json.str (toHex u))]
  | .bin b => Json.mkObj [("b", Json.str (toHex b))]
  | .arr xs => Json.mkObj [("a", Json.arr (xs.map valueToJson).toArray)]
  | .tup xs => Json.mkObj [("t", Json.arr (xs.map valueToJson).toArray)]
  | .map kvs => Json.mkObj [("m", Json.arr (kvs.map (fun (k, v) => Json.arr #[valueToJson k, valueToJson v])).toArray)]
  | .ext ty d => Json.mkObj [("e", Json.arr #[Json.str (toString ty), Json.str (toHex d)])]
  | .opaque => Json.mkObj [("o", Json.num 1)]

partial def valueOfJson (j : Json) : Except String Value :=
  match j with
  | .null => pure .nil
  | .bool b => pure (.bool b)
  | .obj _ =>
    if let .ok s := jstr j "i" then
      match s.toInt? with | some n => pure (.int n) | none => throw "bad int"
    else if let .ok s := jstr j "f" then
      match s.toNat? with | some n => pure (.float n) | none => throw "bad float"
    else if let .ok s := jstr j "s" then
      match fromHex s with | some b => pure (.str b) | none => throw "bad hex"
    else if let .ok s := jstr j "b" then
      match fromHex s with | some b => pure (.bin b) | none => throw "bad hex"
    else if let .ok a := jarr j "a" then do
      let xs ← a.toList.mapM valueOfJson
      pure (.arr xs)
    else if let .ok a := jarr j "t" then do
      let xs ← a.toList.mapM valueOfJson
      pure (.tup xs)
    else if let .ok a := jarr j "m" then do
      let kvs ← a.toList.mapM (fun p => do
        let pr ← p.getArr?
        if pr.size ≠ 2 then throw "bad pair"
        let k ← valueOfJson pr[0]!
        let v ← valueOfJson pr[1]!
        pure (k, v))
      pure (.map kvs)
    else if let .ok a := jarr j "e" then do
      if a.size ≠ 2 then throw "bad ext"
      let ts ← a[0]!.getStr?
      let ds ← a[1]!.getStr?
      match ts.toInt?, fromHex ds with
      | some t, some d => pure (.ext t d)
      | _, _ => throw "bad ext"
    else if (j.getObjVal? "o").isOk then pure .opaque
    else throw "bad value object"
  | _ => throw "bad value"

def errName : Err → String
  | .unsupported => "UnsupportedTypeException"
  | .insufficient => "InsufficientDataException"
  | .invalidString => "InvalidStringException"
  | .reserved => "ReservedCodeException"
  | .unhashable => "UnhashableKeyException"
  | .duplicate => "DuplicateKeyException"
  | .typeError => "TypeError"
  | .structError => "error"
  | .logic => "Exception"

def handle (j : Json) : Json :=
  match jstr j "op" with
  | .ok "dumps" =>
    match (j.getObjVal? "v").bind valueOfJson with
    | .error e => errJson e
    | .ok v =>
      -- `wf` is quadratic in the number of dict keys: callers may switch it off for huge dicts
      let w := if (j.getObjVal? "nowf").isOk then Json.null else Json.bool (wf v)
      match dumps v with
      | .ok bs => Json.mkObj [("ok", Json.str (toHex bs)), ("wf", w), ("tupfree", Json.bool (tupFree v))]
      | .error e => Json.mkObj [("err", Json.str (errName e)), ("wf", w)]
  | .ok "loads" =>
    match (jstr j "bytes").toOption.bind fromHex with
    | none => errJson "bad hex"
    | some bs =>
      match loads bs with
      | .ok v => Json.mkObj [("ok", valueToJson v)]
      | .error e => Json.mkObj [("err", Json.str (errName e))]
  | .ok "utf8" =>
    match (jstr j "bytes").toOption.bind fromHex with
    | none => errJson "bad hex"
    | some bs => Json.mkObj [("ok", Json.bool (validUtf8 bs))]
  | .ok "keyeq" =>
    match (j.getObjVal? "a").bind valueOfJson, (j.getObjVal? "b").bind valueOfJson with
    | .ok a, .ok b => Json.mkObj [("ok", Json.bool (keyEq a b))]
    | _, _ => errJson "bad value"
  | _ => errJson "unknown msgpack op"

end SuppModel.Drv.Msgpack
