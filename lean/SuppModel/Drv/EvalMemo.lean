/- Driver front-end of the EvalMemo family (C04, attribute evaluator cache discipline): (de)serialisation
   only; it calls `request` / `requestLegacy` / `evalPure` of SuppModel/EvalMemo/Basic.lean, the very
   definitions the theorems of Props/C04Eval.lean are about.

   request : {"op": "run", "g": [[dep, ...], ...], "h": [node, ...], "legacy"?: true}
   reply   : {"steps": [{"ans": [n, ...], "fired": delta,
                         "fin": [[node, [n, ...]], ...],          slots kept for good, with their values
                         "prov": [[node, age, [n, ...]], ...]}]}  provisional slots, age = epochs since written
   request : {"op": "pure", "g": ..., "n": node}
   reply   : {"val": [n, ...], "cut": bool} -/
import SuppModel.Drv.Util
import SuppModel.EvalMemo.Basic

namespace SuppModel.Drv.EvalMemo
open Lean SuppModel.Drv SuppModel.EvalMemo

def natList (a : Array Json) : Except String (List Nat) := a.toList.mapM (·.getNat?)

def graphOfJson (j : Json) : Except String Graph := do
  (← jarr j "g").toList.mapM (fun r => do natList (← r.getArr?))

def valJson (v : Val) : Json := Json.arr (v.map (fun (n : Nat) => (Json.num n))).toArray

/-- node ids that can occur: graph rows and everything they mention -/
def nodeIds (g : Graph) (h : List Nat) : List Nat :=
  List.range ((g.flatten ++ h).foldl (fun m x => max m (x + 1)) g.length)

def stepJson (u : List Nat) (ans : Val) (before after : St) : Json :=
  Json.mkObj [
    ("ans", valJson ans),
    ("fired", (after.fired - before.fired : Nat)),
    ("fin", Json.arr (u.filterMap (fun n => (after.fin n).map (fun v => Json.arr #[(n : Json), valJson v]))).toArray),
    ("prov", Json.arr (u.filterMap (fun n => (after.prov n).map
      (fun ev => Json.arr #[(n : Json), ((after.epoch - ev.1 : Nat) : Json), valJson ev.2]))).toArray)]

def runSteps (req : St → Nat → Val × St) (u : List Nat) : List Nat → St → List Json
  | [], _ => []
  | n :: h, s => let r := req s n; stepJson u r.1 s r.2 :: runSteps req u h r.2

def handleE (j : Json) : Except String Json := do
  let op ← jstr j "op"
  let g ← graphOfJson j
  match op with
  | "run" =>
    let h ← natList (← jarr j "h")
    let legacy := (j.getObjValAs? Bool "legacy").toOption.getD false
    let req := if legacy then requestLegacy g else request g
    pure (Json.mkObj [("steps", Json.arr (runSteps req (nodeIds g h) h St.empty).toArray)])
  | "pure" =>
    let n ← jnat j "n"
    let r := evalPure g (g.length + 1) [] n
    pure (Json.mkObj [("val", valJson r.1), ("cut", r.2)])
  | _ => throw ("unknown op " ++ op)

def handle (j : Json) : Json :=
  match handleE j with
  | .ok r => r
  | .error e => errJson e

end SuppModel.Drv.EvalMemo
