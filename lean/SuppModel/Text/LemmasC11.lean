/-
  Text family — specification definitions and helper lemmas for C11 (`find_id_loc`).
  Everything is proved for `findIdLocWith startD endD` (arbitrary delimiter lists); the property file
  specialises to `findIdLoc`.
-/
import SuppModel.Text.Model

namespace SuppModel.Text

/-! ## Specification definitions -/

/-- a (delimited) occurrence of `id` at offset `p` of the window text `w`: what one loop iteration accepts -/
def OccAt (startD endD : List Char) (w id : Str) (delims : Bool) (p : Nat) : Prop :=
  id <+: w.drop p ∧ p + id.length ≤ w.length ∧
  (delims = true → p = 0 ∨ ∃ c, w[p - 1]? = some c ∧ c ∈ startD) ∧
  (delims = true → w.length ≤ p + id.length ∨ ∃ c, w[p + id.length]? = some c ∧ c ∈ endD)

/-- the left test of one loop iteration, as written in the model -/
def leftOk (startD : List Char) (w : Str) (delims : Bool) (p : Nat) : Bool :=
  p == 0 || !delims || (match w[p - 1]? with | some c => startD.contains c | none => false)

/-- the right test of one loop iteration, as written in the model (`ep = p + len(id)`) -/
def rightOk (endD : List Char) (w : Str) (delims : Bool) (ep : Nat) : Bool :=
  decide (ep ≥ w.length) || !delims || (match w[ep]? with | some c => endD.contains c | none => false)

/-- Bool twin of `OccAt` -/
def occAt (startD endD : List Char) (w id : Str) (delims : Bool) (p : Nat) : Bool :=
  id.isPrefixOf (w.drop p) && decide (p + id.length ≤ w.length) &&
  leftOk startD w delims p && rightOk endD w delims (p + id.length)

/-- line index (0-based) and column of offset `p` in a text: number of '\n' before p, and number of
    characters since the last '\n' -/
def lineCol (w : Str) (p : Nat) : Nat × Nat :=
  ((w.take p).count '\n', ((w.take p).reverse.takeWhile (· != '\n')).length)

theorem leftOk_iff (startD : List Char) (w : Str) (delims : Bool) (p : Nat) :
    leftOk startD w delims p = true ↔ (delims = true → p = 0 ∨ ∃ c, w[p - 1]? = some c ∧ c ∈ startD) := by
  unfold leftOk
  cases delims <;> cases h : w[p - 1]? <;> simp

theorem rightOk_iff (endD : List Char) (w : Str) (delims : Bool) (ep : Nat) :
    rightOk endD w delims ep = true ↔
      (delims = true → w.length ≤ ep ∨ ∃ c, w[ep]? = some c ∧ c ∈ endD) := by
  unfold rightOk
  cases delims <;> cases h : w[ep]? <;> simp

theorem occAt_iff (startD endD : List Char) (w id : Str) (delims : Bool) (p : Nat) :
    occAt startD endD w id delims p = true ↔ OccAt startD endD w id delims p := by
  unfold occAt OccAt
  simp only [Bool.and_eq_true, List.isPrefixOf_iff_prefix, decide_eq_true_eq, leftOk_iff, rightOk_iff,
    and_assoc]

instance (startD endD : List Char) (w id : Str) (delims : Bool) (p : Nat) :
    Decidable (OccAt startD endD w id delims p) :=
  decidable_of_iff _ (occAt_iff startD endD w id delims p)

/-! ## `str.find` -/

theorem findAux_some (sub : Str) : ∀ (s : Str) (i p : Nat), findAux sub s i = some p ↔
    ∃ k, p = i + k ∧ k ≤ s.length ∧ sub <+: s.drop k ∧ ∀ q, q < k → ¬ sub <+: s.drop q := by
  intro s
  induction s with
  | nil =>
    intro i p
    simp only [findAux, List.isPrefixOf_iff_prefix]
    constructor
    · intro h
      split at h
      · next hp => exact ⟨0, by simp at h; omega, by simp, by simpa using hp, by omega⟩
      · cases h
    · rintro ⟨k, rfl, hk, hp, _⟩
      have : k = 0 := by simpa using hk
      subst this
      simp at hp
      simp [hp]
  | cons c t ih =>
    intro i p
    simp only [findAux, List.isPrefixOf_iff_prefix]
    by_cases hp : sub <+: c :: t
    · simp only [hp, if_true]
      constructor
      · intro h
        exact ⟨0, by simp at h; omega, by simp, by simpa using hp, by omega⟩
      · rintro ⟨k, rfl, _, _, hq⟩
        cases k with
        | zero => rfl
        | succ k => exact absurd (by simpa using hp) (hq 0 (by omega))
    · simp only [hp, if_false, ih]
      constructor
      · rintro ⟨k, rfl, hk, hpk, hq⟩
        refine ⟨k + 1, by omega, by simp; omega, by simpa using hpk, ?_⟩
        intro q hq'
        cases q with
        | zero => simpa using hp
        | succ q => simpa using hq q (by omega)
      · rintro ⟨k, rfl, hk, hpk, hq⟩
        cases k with
        | zero => exact absurd (by simpa using hpk) hp
        | succ k =>
          refine ⟨k, by omega, by simpa using hk, by simpa using hpk, ?_⟩
          intro q hq'
          simpa using hq (q + 1) (by omega)

theorem findAux_none (sub : Str) : ∀ (s : Str) (i : Nat), findAux sub s i = none ↔
    ∀ q, q ≤ s.length → ¬ sub <+: s.drop q := by
  intro s
  induction s with
  | nil =>
    intro i
    simp only [findAux, List.isPrefixOf_iff_prefix]
    constructor
    · intro h q _
      split at h
      · cases h
      · next hp => simpa using hp
    · intro h
      have := h 0 (by simp)
      simp at this
      simp [this]
  | cons c t ih =>
    intro i
    simp only [findAux, List.isPrefixOf_iff_prefix]
    by_cases hp : sub <+: c :: t
    · simp only [hp, if_true]
      constructor
      · intro h; cases h
      · intro h; exact absurd (by simpa using hp) (h 0 (by simp))
    · simp only [hp, if_false, ih]
      constructor
      · intro h q hq
        cases q with
        | zero => simpa using hp
        | succ q => simpa using h q (by simpa using hq)
      · intro h q hq
        simpa using h (q + 1) (by simpa using hq)

theorem pyFind_some (s sub : Str) (st p : Nat) : pyFind s sub st = some p ↔
    st ≤ p ∧ p + sub.length ≤ s.length ∧ sub <+: s.drop p ∧
      ∀ q, st ≤ q → q < p → ¬ sub <+: s.drop q := by
  unfold pyFind
  by_cases hst : st ≤ s.length
  · simp only [hst, if_true, findAux_some, List.length_drop, List.drop_drop]
    constructor
    · rintro ⟨k, rfl, hk, hp, hq⟩
      refine ⟨by omega, ?_, hp, ?_⟩
      · have := hp.length_le
        simp at this
        omega
      · intro q h1 h2
        have := hq (q - st) (by omega)
        rwa [show st + (q - st) = q by omega] at this
    · rintro ⟨h1, h2, hp, hq⟩
      refine ⟨p - st, by omega, by omega, ?_, ?_⟩
      · rwa [show st + (p - st) = p by omega]
      · intro q hq'
        exact hq (st + q) (by omega) (by omega)
  · simp only [hst, if_false]
    constructor
    · intro h; cases h
    · rintro ⟨h1, h2, _, _⟩; omega

theorem pyFind_none (s sub : Str) (st : Nat) : pyFind s sub st = none ↔
    ∀ q, st ≤ q → q ≤ s.length → ¬ sub <+: s.drop q := by
  unfold pyFind
  by_cases hst : st ≤ s.length
  · simp only [hst, if_true, findAux_none, List.length_drop, List.drop_drop]
    constructor
    · intro h q h1 h2
      have := h (q - st) (by omega)
      rwa [show st + (q - st) = q by omega] at this
    · intro h q hq
      exact h (st + q) (by omega) (by omega)
  · simp only [hst, if_false, true_iff]
    intro q h1 h2; omega

/-! ## the loop -/

theorem findLoop_succ (startD endD : List Char) (source id : Str) (delims : Bool) (fuel pos : Nat) :
    findLoop startD endD source id delims (fuel + 1) pos =
      match pyFind source id (pos + 1) with
      | none => none
      | some p =>
        if leftOk startD source delims p && rightOk endD source delims (p + id.length) then some p
        else findLoop startD endD source id delims fuel p := by
  rw [findLoop]
  cases pyFind source id (pos + 1) with
  | none => rfl
  | some p =>
    have key : ∀ (a b : Bool) (x y : Option Nat),
        (if a = true then (if b = true then x else y) else y) = (if (a && b) = true then x else y) := by
      intro a b x y; cases a <;> cases b <;> rfl
    exact key (leftOk startD source delims p) (rightOk endD source delims (p + id.length)) _ _

theorem occAt_of_find {startD endD : List Char} {source id : Str} {delims : Bool} {st p : Nat}
    (h : pyFind source id st = some p) :
    OccAt startD endD source id delims p ↔
      (leftOk startD source delims p && rightOk endD source delims (p + id.length)) = true := by
  rw [pyFind_some] at h
  rw [← occAt_iff, occAt]
  have h1 : id.isPrefixOf (source.drop p) = true := List.isPrefixOf_iff_prefix.2 h.2.2.1
  have h2 : decide (p + id.length ≤ source.length) = true := by simpa using h.2.1
  simp [h1, h2]

theorem findLoop_some (startD endD : List Char) (source id : Str) (delims : Bool) :
    ∀ (fuel pos p : Nat), findLoop startD endD source id delims fuel pos = some p →
      pos < p ∧ OccAt startD endD source id delims p ∧
        ∀ q, pos < q → q < p → ¬ OccAt startD endD source id delims q := by
  intro fuel
  induction fuel with
  | zero => intro pos p h; simp [findLoop] at h
  | succ fuel ih =>
    intro pos p h
    rw [findLoop_succ] at h
    cases hf : pyFind source id (pos + 1) with
    | none => simp [hf] at h
    | some p' =>
      simp only [hf] at h
      have hocc := occAt_of_find (startD := startD) (endD := endD) (delims := delims) hf
      have hf' := (pyFind_some _ _ _ _).1 hf
      by_cases hc : (leftOk startD source delims p' && rightOk endD source delims (p' + id.length)) = true
      · rw [if_pos hc] at h
        cases h
        refine ⟨by omega, hocc.2 hc, ?_⟩
        intro q h1 h2 ho
        exact hf'.2.2.2 q (by omega) h2 ho.1
      · rw [if_neg hc] at h
        obtain ⟨g1, g2, g3⟩ := ih p' p h
        refine ⟨by omega, g2, ?_⟩
        intro q h1 h2 ho
        by_cases hq : q < p'
        · exact hf'.2.2.2 q (by omega) hq ho.1
        · by_cases hq' : q = p'
          · subst hq'; exact hc (hocc.1 ho)
          · exact g3 q (by omega) h2 ho

theorem findLoop_none (startD endD : List Char) (source id : Str) (delims : Bool) :
    ∀ (fuel pos : Nat), findLoop startD endD source id delims fuel pos = none →
      source.length + 1 ≤ fuel + pos →
        ∀ q, pos < q → ¬ OccAt startD endD source id delims q := by
  intro fuel
  induction fuel with
  | zero =>
    intro pos _ hlen q hq ho
    have := ho.2.1
    omega
  | succ fuel ih =>
    intro pos h hlen q hq ho
    rw [findLoop_succ] at h
    cases hf : pyFind source id (pos + 1) with
    | none =>
      exact (pyFind_none _ _ _).1 hf q (by omega) (by have := ho.2.1; omega) ho.1
    | some p' =>
      simp only [hf] at h
      have hocc := occAt_of_find (startD := startD) (endD := endD) (delims := delims) hf
      have hf' := (pyFind_some _ _ _ _).1 hf
      by_cases hc : (leftOk startD source delims p' && rightOk endD source delims (p' + id.length)) = true
      · rw [if_pos hc] at h; cases h
      · rw [if_neg hc] at h
        by_cases hq1 : q < p'
        · exact hf'.2.2.2 q (by omega) hq1 ho.1
        · by_cases hq' : q = p'
          · subst hq'; exact hc (hocc.1 ho)
          · exact ih p' h (by omega) q (by omega) ho

/-! ## `rfind`, line and column -/

theorem rfindChar_takeWhile (c : Char) : ∀ t : Str,
    -1 ≤ rfindChar c t ∧
      rfindChar c t + 1 + ((t.reverse.takeWhile (· != c)).length : Int) = (t.length : Int) := by
  intro t
  induction t with
  | nil => simp [rfindChar]
  | cons x t ih =>
    obtain ⟨ih1, ih2⟩ := ih
    simp only [rfindChar, List.reverse_cons, List.takeWhile_append, List.length_reverse, List.length_cons]
    by_cases h0 : 0 ≤ rfindChar c t
    · have hL : ¬ (List.takeWhile (fun x => x != c) t.reverse).length = t.length := by omega
      rw [if_pos h0, if_neg hL]
      constructor
      · omega
      · push_cast; omega
    · have hL : (List.takeWhile (fun x => x != c) t.reverse).length = t.length := by omega
      rw [if_neg h0, if_pos hL]
      by_cases hx : x = c
      · subst hx
        simp; omega
      · simp [hx]

theorem col_eq (w : Str) (p shift : Nat) (hp : p ≤ w.length) :
    Int.toNat ((p : Int) - rfindChar '\n' (w.take p) - 1 + shift) = (lineCol w p).2 + shift := by
  have h := (rfindChar_takeWhile '\n' (w.take p)).2
  have hlen : (w.take p).length = p := by simp; omega
  rw [hlen] at h
  simp only [lineCol]
  omega

theorem takeWhile_append_stop {α} (q : α → Bool) (x : α) (B : List α) (hx : q x = false) :
    ∀ A : List α, (A ++ x :: B).takeWhile q = A.takeWhile q := by
  intro A
  induction A with
  | nil => simp [hx]
  | cons a A ih => simp only [List.cons_append, List.takeWhile_cons, ih]

theorem takeWhile_all {α} (q : α → Bool) (A : List α) (h : ∀ a ∈ A, q a = true) : A.takeWhile q = A := by
  have := List.takeWhile_append_of_pos (l₂ := []) h
  simpa using this

theorem lineCol_noNl (l : Str) (p : Nat) (hl : '\n' ∉ l.take p) (hp : p ≤ l.length) :
    lineCol l p = (0, p) := by
  unfold lineCol
  have h1 : (l.take p).count '\n' = 0 := List.count_eq_zero.2 hl
  have h2 : (l.take p).reverse.takeWhile (· != '\n') = (l.take p).reverse := by
    apply takeWhile_all
    intro a ha
    have : a ∈ l.take p := by simpa using ha
    simp only [bne_iff_ne, ne_eq]
    intro e; subst e; exact hl this
  rw [h1, h2]
  simp; omega

theorem lineCol_line_zero (w : Str) (p : Nat) (hp : p ≤ w.length) (h : (lineCol w p).1 = 0) :
    (lineCol w p).2 = p := by
  have : '\n' ∉ w.take p := List.count_eq_zero.1 h
  rw [lineCol_noNl w p this hp]

theorem lineCol_append_left (l X : Str) (p : Nat) (hl : '\n' ∉ l) (hp : p ≤ l.length) :
    lineCol (l ++ X) p = (0, p) := by
  apply lineCol_noNl
  · rw [List.take_append_of_le_length hp]
    intro h; exact hl (List.mem_of_mem_take h)
  · simp; omega

theorem lineCol_append_right (l X : Str) (p' : Nat) (hl : '\n' ∉ l) :
    lineCol (l ++ '\n' :: X) (l.length + 1 + p') = ((lineCol X p').1 + 1, (lineCol X p').2) := by
  have ht : (l ++ '\n' :: X).take (l.length + 1 + p') = l ++ '\n' :: X.take p' := by
    rw [List.take_append, List.take_of_length_le (by omega),
      show l.length + 1 + p' - l.length = p' + 1 by omega, List.take_succ_cons]
  unfold lineCol
  rw [ht]
  have hc : l.count '\n' = 0 := List.count_eq_zero.2 hl
  have hr : (l ++ '\n' :: X.take p').reverse = (X.take p').reverse ++ '\n' :: l.reverse := by simp
  rw [hr, takeWhile_append_stop _ _ _ (by simp)]
  simp [List.count_append, hc]

theorem prefix_of_append_stop {α} (x : α) (B : List α) : ∀ (A s : List α), x ∉ s → s <+: A ++ x :: B → s <+: A := by
  intro A
  induction A with
  | nil =>
    intro s hx h
    rcases List.prefix_cons_iff.1 h with rfl | ⟨t, rfl, _⟩
    · exact List.nil_prefix
    · simp at hx
  | cons a A ih =>
    intro s hx h
    rcases List.prefix_cons_iff.1 h with rfl | ⟨t, rfl, ht⟩
    · exact List.nil_prefix
    · have : x ∉ t := fun hh => hx (List.mem_cons_of_mem _ hh)
      exact List.cons_prefix_cons.2 ⟨rfl, ih t this ht⟩

/-- "locate": an offset of the joined text lies on the line / column that `lineCol` computes -/
theorem locate : ∀ (ls : List Str), (∀ l ∈ ls, '\n' ∉ l) → ls ≠ [] → ∀ p, p ≤ (joinNl ls).length →
    ∃ l tail, ls[(lineCol (joinNl ls) p).1]? = some l ∧ (lineCol (joinNl ls) p).2 ≤ l.length ∧
      (joinNl ls).drop p = l.drop (lineCol (joinNl ls) p).2 ++ tail ∧ (tail = [] ∨ ∃ t, tail = '\n' :: t) ∧
      (0 < p → (lineCol (joinNl ls) p).2 = 0 ∨
         (0 < (lineCol (joinNl ls) p).2 ∧ (joinNl ls)[p - 1]? = l[(lineCol (joinNl ls) p).2 - 1]?))
  | [], _, h, _, _ => absurd rfl h
  | [l], hl, _, p, hp => by
    have hnl : '\n' ∉ l := hl l (by simp)
    simp only [joinNl] at hp ⊢
    have hlc : lineCol l p = (0, p) := by
      have := lineCol_append_left l [] p hnl hp
      simpa using this
    rw [hlc]
    exact ⟨l, [], by simp, hp, by simp, Or.inl rfl, fun h0 => Or.inr ⟨h0, rfl⟩⟩
  | l :: l' :: r, hl, _, p, hp => by
    have hnl : '\n' ∉ l := hl l (by simp)
    simp only [joinNl] at hp ⊢
    by_cases hpl : p ≤ l.length
    · rw [lineCol_append_left l _ p hnl hpl]
      refine ⟨l, '\n' :: joinNl (l' :: r), by simp, hpl, ?_, Or.inr ⟨_, rfl⟩, fun h0 => Or.inr ⟨h0, ?_⟩⟩
      · exact List.drop_append_of_le_length hpl
      · exact List.getElem?_append_left (by omega)
    · obtain ⟨p', rfl⟩ : ∃ p', p = l.length + 1 + p' := ⟨p - l.length - 1, by omega⟩
      have hp' : p' ≤ (joinNl (l' :: r)).length := by
        simp at hp; omega
      obtain ⟨l0, tail, h1, h2, h3, h4, h5⟩ :=
        locate (l' :: r) (fun x hx => hl x (List.mem_cons_of_mem _ hx)) (by simp) p' hp'
      rw [lineCol_append_right l _ p' hnl]
      refine ⟨l0, tail, ?_, h2, ?_, h4, ?_⟩
      · simpa using h1
      · rw [← h3, List.drop_append, List.drop_of_length_le (by omega),
          show l.length + 1 + p' - l.length = p' + 1 by omega]
        simp
      · intro _
        by_cases hp0 : p' = 0
        · subst hp0
          left
          simp [lineCol]
        · rcases h5 (by omega) with h | ⟨h, h'⟩
          · exact Or.inl h
          · refine Or.inr ⟨h, ?_⟩
            rw [← h', List.getElem?_append_right (by omega),
              show l.length + 1 + p' - 1 - l.length = (p' - 1) + 1 by omega]
            simp

/-! ## `find_id_loc` at the window level -/

theorem findIdLocWith_eq (startD endD : List Char) (lines : List Str) (id : Str) (start : Nat × Nat)
    (shift : Nat) (delims : Bool) :
    findIdLocWith startD endD lines id start shift delims =
      match findLoop startD endD (window lines start.1) id delims ((window lines start.1).length + 1) start.2 with
      | none => start
      | some p => (start.1 + (lineCol (window lines start.1) p).1, (lineCol (window lines start.1) p).2 + shift) := by
  unfold findIdLocWith
  simp only
  cases h : findLoop startD endD (window lines start.1) id delims ((window lines start.1).length + 1) start.2 with
  | none => rfl
  | some p =>
    have := (findLoop_some _ _ _ _ _ _ _ _ h).2.1.2.1
    simp only
    rw [col_eq _ _ _ (by omega)]
    rfl

/-- a found result differs from `start`: same line ⇒ larger column, else larger line -/
theorem found_ne_start (w : Str) (start : Nat × Nat) (shift p : Nat) (hp : p ≤ w.length) (hlt : start.2 < p) :
    (start.1 + (lineCol w p).1, (lineCol w p).2 + shift) ≠ start := by
  intro e
  have e1 : start.1 + (lineCol w p).1 = start.1 := congrArg Prod.fst e
  have e2 : (lineCol w p).2 + shift = start.2 := congrArg Prod.snd e
  have := lineCol_line_zero w p hp (by omega)
  omega

theorem findIdLocWith_first (startD endD : List Char) (lines : List Str) (id : Str) (start : Nat × Nat)
    (shift : Nat) (delims : Bool) (h : findIdLocWith startD endD lines id start shift delims ≠ start) :
    ∃ p, start.2 < p ∧ OccAt startD endD (window lines start.1) id delims p ∧
      (∀ q, start.2 < q → q < p → ¬ OccAt startD endD (window lines start.1) id delims q) ∧
      findIdLocWith startD endD lines id start shift delims =
        (start.1 + (lineCol (window lines start.1) p).1, (lineCol (window lines start.1) p).2 + shift) := by
  rw [findIdLocWith_eq] at h ⊢
  cases hf : findLoop startD endD (window lines start.1) id delims ((window lines start.1).length + 1) start.2 with
  | none => simp [hf] at h
  | some p =>
    obtain ⟨h1, h2, h3⟩ := findLoop_some _ _ _ _ _ _ _ _ hf
    exact ⟨p, h1, h2, h3, rfl⟩

theorem findIdLocWith_eq_start_iff (startD endD : List Char) (lines : List Str) (id : Str) (start : Nat × Nat)
    (shift : Nat) (delims : Bool) :
    findIdLocWith startD endD lines id start shift delims = start ↔
      ∀ p, start.2 < p → ¬ OccAt startD endD (window lines start.1) id delims p := by
  rw [findIdLocWith_eq]
  cases hf : findLoop startD endD (window lines start.1) id delims ((window lines start.1).length + 1) start.2 with
  | none =>
    simp only [true_iff]
    exact findLoop_none _ _ _ _ _ _ _ hf (by omega)
  | some p =>
    obtain ⟨h1, h2, h3⟩ := findLoop_some _ _ _ _ _ _ _ _ hf
    simp only
    constructor
    · intro e
      exact absurd e (found_ne_start _ _ _ _ (by have := h2.2.1; omega) h1)
    · intro hno
      exact absurd h2 (hno p h1)

/-! ## `find_id_loc` at the line level -/

theorem window_getElem? (lines : List Str) (sl k : Nat) (l : Str)
    (h : (pySlice lines (sl - 1) (sl + Generated.windowAfter))[k]? = some l) :
    lines[sl - 1 + k]? = some l ∧ sl - 1 + k < sl + Generated.windowAfter := by
  unfold pySlice at h
  rw [List.getElem?_drop, List.getElem?_take] at h
  split at h
  · exact ⟨h, ‹_›⟩
  · cases h

theorem findIdLocWith_found (startD endD : List Char) (lines : List Str) (id : Str) (start : Nat × Nat)
    (shift : Nat) (delims : Bool)
    (hl : ∀ l ∈ lines, '\n' ∉ l) (hid : '\n' ∉ id) (hs : 1 ≤ start.1)
    (h : findIdLocWith startD endD lines id start shift delims ≠ start) :
    start.1 ≤ (findIdLocWith startD endD lines id start shift delims).1 ∧
    (findIdLocWith startD endD lines id start shift delims).1 ≤ lines.length ∧
    (findIdLocWith startD endD lines id start shift delims).1 ≤ start.1 + Generated.windowAfter ∧
    shift ≤ (findIdLocWith startD endD lines id start shift delims).2 ∧
    ((findIdLocWith startD endD lines id start shift delims).1 = start.1 →
      start.2 + shift < (findIdLocWith startD endD lines id start shift delims).2) ∧
    ∃ l, lines[(findIdLocWith startD endD lines id start shift delims).1 - 1]? = some l ∧
      (l.drop ((findIdLocWith startD endD lines id start shift delims).2 - shift)).take id.length = id ∧
      (delims = true →
        ((findIdLocWith startD endD lines id start shift delims).2 - shift = 0 ∨
          ∃ c, l[(findIdLocWith startD endD lines id start shift delims).2 - shift - 1]? = some c ∧ c ∈ startD) ∧
        (l.length ≤ (findIdLocWith startD endD lines id start shift delims).2 - shift + id.length ∨
          ∃ c, l[(findIdLocWith startD endD lines id start shift delims).2 - shift + id.length]? = some c ∧
            c ∈ endD)) := by
  obtain ⟨p, hp1, hocc, -, hR⟩ := findIdLocWith_first _ _ _ _ _ _ _ h
  rw [hR]
  have hw : window lines start.1 =
      joinNl (pySlice lines (start.1 - 1) (start.1 + Generated.windowAfter)) := rfl
  rw [hw] at hocc ⊢
  generalize hls : pySlice lines (start.1 - 1) (start.1 + Generated.windowAfter) = ls at *
  have hmem : ∀ l ∈ ls, '\n' ∉ l := by
    intro l hl'
    subst hls
    unfold pySlice at hl'
    exact hl l (List.mem_of_mem_take (List.mem_of_mem_drop hl'))
  obtain ⟨hpre, hlen, hL, hRt⟩ := hocc
  have hple : p ≤ (joinNl ls).length := by omega
  have hne : ls ≠ [] := by
    rintro rfl
    simp [joinNl] at hple
    omega
  have hz := lineCol_line_zero (joinNl ls) p hple
  have h00 : p = 0 → (lineCol (joinNl ls) p).2 = 0 := by
    rintro rfl
    simp [lineCol]
  obtain ⟨l, tail, g1, g2, g3, g4, g5⟩ := locate ls hmem hne p hple
  generalize (lineCol (joinNl ls) p).1 = k at *
  generalize (lineCol (joinNl ls) p).2 = c at *
  rw [← hls] at g1
  obtain ⟨e1, e2⟩ := window_getElem? lines start.1 k l g1
  have e3 : start.1 - 1 + k < lines.length := by
    obtain ⟨hh, _⟩ := List.getElem?_eq_some_iff.1 e1
    exact hh
  simp only [Nat.add_sub_cancel]
  have e4 : start.1 + k - 1 = start.1 - 1 + k := by omega
  rw [e4]
  have hpre' : id <+: l.drop c := by
    rw [g3] at hpre
    rcases g4 with rfl | ⟨t, rfl⟩
    · simpa using hpre
    · exact prefix_of_append_stop _ _ _ _ hid hpre
  have hdl := congrArg List.length g3
  simp only [List.length_drop, List.length_append] at hdl
  refine ⟨by omega, by omega, by omega, by omega, fun hk => by have := hz (by omega); omega, l, e1, ?_, ?_⟩
  · exact (List.prefix_iff_eq_take.1 hpre').symm
  · intro hd
    constructor
    · by_cases hp0 : p = 0
      · exact Or.inl (h00 hp0)
      · rcases g5 (by omega) with hc0 | ⟨hc, hc'⟩
        · exact Or.inl hc0
        · rcases hL hd with rfl | ⟨ch, hch, hm⟩
          · exact absurd rfl hp0
          · exact Or.inr ⟨ch, by rw [← hc']; exact hch, hm⟩
    · by_cases hlen' : l.length ≤ c + id.length
      · exact Or.inl hlen'
      · have e : (joinNl ls)[p + id.length]? = l[c + id.length]? := by
          rw [← List.getElem?_drop, g3, List.getElem?_append_left (by simp; omega), List.getElem?_drop]
        rcases hRt hd with hh | ⟨ch, hch, hm⟩
        · omega
        · exact Or.inr ⟨ch, by rw [← e]; exact hch, hm⟩

/-! ## the binding sites -/

/-- the shift of a call site compensates exactly the blank it prepends to the name -/
def siteOk (site : Generated.CallSite) : Bool :=
  site.shift == (if site.spacePrefixed then 1 else 0)

theorem generated_sites_ok :
    siteOk Generated.funcSite = true ∧ siteOk Generated.classSite = true ∧
    siteOk Generated.importSite = true ∧ siteOk Generated.importFromSite = true := by decide

theorem declaredAt_found (site : Generated.CallSite) (lines : List Str) (name : Str) (start : Nat × Nat)
    (hsite : siteOk site = true)
    (hl : ∀ l ∈ lines, '\n' ∉ l) (hname : '\n' ∉ name) (hs : 1 ≤ start.1)
    (h : declaredAt site lines name start ≠ start) :
    ∃ l, lines[(declaredAt site lines name start).1 - 1]? = some l ∧
      (l.drop (declaredAt site lines name start).2).take name.length = name ∧
      1 ≤ (declaredAt site lines name start).1 ∧ (declaredAt site lines name start).1 ≤ lines.length := by
  obtain ⟨sp, sh, dl⟩ := site
  simp only [siteOk, beq_iff_eq] at hsite
  cases sp
  · simp only [Bool.false_eq_true, if_false] at hsite
    subst hsite
    simp only [declaredAt, findIdLoc, Bool.false_eq_true, if_false] at h ⊢
    obtain ⟨a1, a2, a3, a4, a5, l, b1, b2, _⟩ :=
      findIdLocWith_found _ _ lines name start 0 dl hl hname hs h
    exact ⟨l, b1, by simpa using b2, by omega, a2⟩
  · simp only [if_true] at hsite
    subst hsite
    simp only [declaredAt, findIdLoc, if_true] at h ⊢
    have hid : '\n' ∉ ' ' :: name := by
      intro hh
      rcases List.mem_cons.1 hh with e | e
      · exact absurd e (by decide)
      · exact hname e
    obtain ⟨a1, a2, a3, a4, a5, l, b1, b2, _⟩ :=
      findIdLocWith_found _ _ lines (' ' :: name) start 1 dl hl hid hs h
    generalize findIdLocWith Generated.importDelims Generated.importEndDelims lines (' ' :: name) start 1 dl = R
      at *
    refine ⟨l, b1, ?_, by omega, a2⟩
    have e : R.2 = (R.2 - 1) + 1 := by omega
    rw [e, ← List.drop_drop]
    cases hd : l.drop (R.2 - 1) with
    | nil => simp [hd] at b2
    | cons x rest =>
      rw [hd] at b2
      simp only [List.length_cons, List.take_succ_cons, List.cons.injEq] at b2
      simpa using b2.2

/-! ## one `declared_at`, two reports -/

theorem sourceMark_pos : 0 < Generated.sourceMark.length := by decide

/-- the un-shift of `location()` undoes the shift of the mark, for every position and cursor -/
theorem unshift_markedPos (f : Str) (cursor p : Nat × Nat) (b : Binding) (hf : b.filename = f) :
    (locationEntry f cursor { b with declaredAt := markedPos cursor p }).loc = p := by
  have hm := sourceMark_pos
  unfold locationEntry markedPos
  by_cases h : p.1 = cursor.1 ∧ cursor.2 ≤ p.2
  · simp only [h, and_self, if_true, hf, true_and]
    have : p.2 + Generated.sourceMark.length > cursor.2 := by omega
    simp [this]
    exact Prod.ext h.1.symm rfl
  · simp only [h, if_false, hf, true_and]
    by_cases h1 : p.1 = cursor.1
    · have : ¬ p.2 > cursor.2 := by
        intro h2; exact h ⟨h1, by omega⟩
      simp [h1, this]
      exact Prod.ext h1.symm rfl
    · simp [h1]

/-- positions the mark does not move (other line, or left of / at the cursor: an identifier that starts at the cursor
    absorbs the mark and keeps its column) are reported unchanged -/
theorem unshift_id (f : Str) (cursor : Nat × Nat) (b : Binding)
    (h : b.filename ≠ f ∨ b.declaredAt.1 ≠ cursor.1 ∨ b.declaredAt.2 ≤ cursor.2) :
    (locationEntry f cursor b).loc = b.declaredAt := by
  unfold locationEntry
  have : ¬ (b.filename = f ∧ b.declaredAt.1 = cursor.1 ∧ b.declaredAt.2 > cursor.2) := by
    rintro ⟨h1, h2, h3⟩
    rcases h with h | h | h
    · exact h h1
    · exact h h2
    · omega
  simp [this]

/-- the marked analysis sees a binding of the unmarked text at a shifted column iff it lies on the cursor's line at or
    right of the cursor column -/
theorem markedPos_ne_iff (cursor p : Nat × Nat) :
    markedPos cursor p = (p.1, p.2 + Generated.sourceMark.length) ∧ markedPos cursor p ≠ p ↔
      p.1 = cursor.1 ∧ cursor.2 ≤ p.2 := by
  have hm := sourceMark_pos
  unfold markedPos
  by_cases h : p.1 = cursor.1 ∧ cursor.2 ≤ p.2
  · simp only [h, and_self, if_true, true_and, iff_true]
    intro hc
    have := congrArg Prod.snd hc
    simp only at this
    omega
  · simp only [h, if_false, iff_false]
    intro hc
    exact hc.2 rfl

/-- text level: the marked line carries, from the cursor column on, the characters of the line `|MARK|` further right -/
theorem markLine_drop (line : Str) (col c : Nat) (hcol : col ≤ line.length) (hc : col ≤ c) :
    (markLine line col).drop (c + Generated.sourceMark.length) = line.drop c := by
  unfold markLine
  have h1 : (line.take col).length = col := by simp [List.length_take]; omega
  rw [List.append_assoc, List.drop_append, h1]
  have h2 : List.drop (c + Generated.sourceMark.length) (List.take col line) = [] := by
    apply List.drop_eq_nil_of_le; rw [h1]; omega
  rw [h2, List.nil_append, List.drop_append]
  have h3 : List.drop (c + Generated.sourceMark.length - col) Generated.sourceMark = [] := by
    apply List.drop_eq_nil_of_le; omega
  rw [h3, List.nil_append, List.drop_drop]
  congr 1
  omega

/-- ... and is unchanged left of the cursor -/
theorem markLine_take (line : Str) (col c : Nat) (hcol : col ≤ line.length) (hc : c ≤ col) :
    (markLine line col).take c = line.take c := by
  unfold markLine
  have h1 : (line.take col).length = col := by simp [List.length_take]; omega
  rw [List.append_assoc, List.take_append, h1, List.take_take]
  have : c - col = 0 := by omega
  simp [this, Nat.min_eq_left hc]

/-! ### `util.splitlines`: no line of the result contains a separator -/

theorem splitNlAux_ne_nil (sep : Char → Bool) (crlf cr : Bool) (s : Str) : splitNlAux sep crlf cr s ≠ [] := by
  induction s generalizing cr with
  | nil => simp [splitNlAux]
  | cons c t ih =>
    unfold splitNlAux
    split
    · exact ih _
    · split
      · simp
      · split <;> simp

theorem splitNlAux_no_sep (sep : Char → Bool) (crlf cr : Bool) (s : Str) (x : Char) (hx : sep x = true) :
    ∀ l ∈ splitNlAux sep crlf cr s, x ∉ l := by
  induction s generalizing cr with
  | nil => intro l hl; simp [splitNlAux] at hl; subst hl; simp
  | cons c t ih =>
    intro l hl
    unfold splitNlAux at hl
    split at hl
    · exact ih _ l hl
    · split at hl
      · simp only [List.mem_cons] at hl
        rcases hl with rfl | hl
        · simp
        · exact ih _ l hl
      · rename_i hns
        split at hl
        · rename_i h r heq
          simp only [List.mem_cons] at hl
          rcases hl with rfl | hl
          · have hh : x ∉ h := ih false h (by rw [heq]; simp)
            intro hm
            simp only [List.mem_cons] at hm
            rcases hm with rfl | hm
            · exact hns hx
            · exact hh hm
          · exact ih false l (by rw [heq]; simp [hl])
        · rename_i heq
          exact absurd heq (splitNlAux_ne_nil sep crlf false t)

theorem splitlinesWith_no_sep (sep : Char → Bool) (crlf : Bool) (s : Str) (x : Char) (hx : sep x = true) :
    ∀ l ∈ splitlinesWith sep crlf s, x ∉ l := by
  intro l hl
  unfold splitlinesWith at hl
  simp only at hl
  split at hl
  · exact splitNlAux_no_sep sep crlf false s x hx l (by rw [List.dropLast_eq_take] at hl; exact List.mem_of_mem_take hl)
  · exact splitNlAux_no_sep sep crlf false s x hx l hl

/-- the lines supp works on contain neither `\n` nor `\r`: the hypothesis `hl` of `C11_found` holds for them -/
theorem splitlines_no_newline (s : Str) : ∀ l ∈ splitlines s, '\n' ∉ l ∧ '\r' ∉ l := by
  intro l hl
  exact ⟨splitlinesWith_no_sep _ _ s '\n' (by decide) l hl, splitlinesWith_no_sep _ _ s '\r' (by decide) l hl⟩

end SuppModel.Text
