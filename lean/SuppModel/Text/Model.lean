/-
  Text family — executable model of the text-level code of supp that C11 and C12 are anchored in:

    supp/scope.py      SourceScope.find_id_loc, the call sites in FuncScope / ClassScope
    supp/nast.py       visit_Import / visit_ImportFrom (call sites)
    supp/assistant.py  the three prefix computations of `assist`, the proposal expression,
                       `location()._loc`; supp/linter.py: the W01/W02 report tuple
    supp/util.py       Source.__init__ (mark insertion), unmark, marked, split_pkg, join_pkg

  A Python `str` is a `List Char` (sequence of code points).  Constants (delimiter sets, the mark, the
  window, the prefix regex, the call-site arguments) come from `Generated/Text.lean`, regenerated from
  the source on every run.  Parameters of the model (outside the code): the word-character class `\w`
  of Python's `re` (`isWord`), CPython's parser (callers pass `np(node)` and the bound name).
  `util.splitlines` is modelled (`splitlines`); the class `\s` of `re` is the table `pyIsSpace`.
-/
import SuppModel.Generated.Text

namespace SuppModel.Text

abbrev Str := List Char

inductive PyErr where
  | indexError
  deriving DecidableEq, Repr

/-! ## Python `str` primitives -/

/-- scan for the first position (counted from `i`) at which `sub` is a prefix of the rest -/
def findAux (sub : Str) : Str → Nat → Option Nat
  | [], i => if sub.isPrefixOf [] then some i else none
  | c :: t, i => if sub.isPrefixOf (c :: t) then some i else findAux sub t (i + 1)

/-- `s.find(sub, start)` for `start ≥ 0`; `none` is Python's `-1`.  (`start > len(s)` gives `-1`,
    also for the empty `sub`; `start = len(s)` finds the empty `sub` only.) -/
def pyFind (s sub : Str) (start : Nat) : Option Nat :=
  if start ≤ s.length then findAux sub (s.drop start) start else none

/-- Python's normalisation of a slice / search index against a length: negative counts from the end, clipped -/
def pyIdx (len : Nat) (i : Int) : Nat :=
  if i < 0 then (Int.toNat (len + i)) else min i.toNat len

/-- `s[:i]` -/
def sliceTo (s : Str) (i : Int) : Str := s.take (pyIdx s.length i)
/-- `s[i:]` -/
def sliceFrom (s : Str) (i : Int) : Str := s.drop (pyIdx s.length i)

/-- `s.find(sub, start)` with a possibly negative `start`, result as a Python int -/
def pyFindI (s sub : Str) (start : Int) : Int :=
  let st : Nat := if start < 0 then Int.toNat (s.length + start) else start.toNat
  match pyFind s sub st with
  | some p => p
  | none => -1

/-- `s.rfind(c)` for a one-character `c` over the whole of `s` (callers pass `s[0:stop]`) -/
def rfindChar (c : Char) : Str → Int
  | [] => -1
  | x :: t =>
    let r := rfindChar c t
    if 0 ≤ r then r + 1 else if x = c then 0 else -1

/-- `l[a:b]` for `0 ≤ a`, `0 ≤ b` -/
def pySlice {α} (l : List α) (a b : Nat) : List α := (l.take b).drop a

/-- `'\n'.join(lines)` -/
def joinNl : List Str → Str
  | [] => []
  | [l] => l
  | l :: l' :: r => l ++ '\n' :: joinNl (l' :: r)

/-- `re.split(p, s)` for a pattern `p` = alternatives of one-character separators `sep`, with `\r\n` as one separator when
    `crlf`: `cr` says that the previous character was a `\r` that already split (a `\n` right after it splits no more) -/
def splitNlAux (sep : Char → Bool) (crlf : Bool) : Bool → Str → List Str
  | _, [] => [[]]
  | cr, c :: t =>
    if c = '\n' ∧ cr = true ∧ crlf = true then splitNlAux sep crlf false t
    else if sep c then [] :: splitNlAux sep crlf (c == '\r') t
    else match splitNlAux sep crlf false t with
      | h :: r => (c :: h) :: r
      | [] => [[c]]

/-- split into lines at the separators `sep`, dropping one trailing empty line -/
def splitlinesWith (sep : Char → Bool) (crlf : Bool) (s : Str) : List Str :=
  let ls := splitNlAux sep crlf false s
  if ls.getLast? = some [] then ls.dropLast else ls

/-- `util.splitlines(source)`: the lines as the parser counts them -/
def splitlines (s : Str) : List Str := splitlinesWith Generated.isLineSep Generated.crlfIsOne s

/-- legacy (before f8cda8c): `str.splitlines`, which also breaks at VT, FF, FS, GS, RS, NEL, LS, PS -/
def legacyLineSep (c : Char) : Bool :=
  c == '\n' || c == '\r' || c == '\x0b' || c == '\x0c' || c == '\x1c' || c == '\x1d' || c == '\x1e' ||
  c == '\x85' || c == '\u2028' || c == '\u2029'

def splitlinesLegacy (s : Str) : List Str := splitlinesWith legacyLineSep true s

/-- `s.rpartition(c)[2]` for a one-character separator: the text after the last `c`, or all of `s` -/
def afterLast (c : Char) : Str → Str
  | [] => []
  | x :: t => if c ∈ t then afterLast c t else if x = c then t else x :: t

/-- `s.rpartition(c)` for a one-character separator -/
def rpartition (c : Char) (s : Str) : Str × Str × Str :=
  if c ∈ s then
    let tail := afterLast c s
    (s.take (s.length - tail.length - 1), [c], tail)
  else ([], [], s)

/-- `str.isspace` per character (what `lstrip()` removes) -/
def pyIsSpace (c : Char) : Bool :=
  let n := c.toNat
  (9 ≤ n && n ≤ 13) || (28 ≤ n && n ≤ 32) || n == 0x85 || n == 0xa0 || n == 0x1680 ||
  (0x2000 ≤ n && n ≤ 0x200a) || n == 0x2028 || n == 0x2029 || n == 0x202f || n == 0x205f || n == 0x3000

def lstrip (s : Str) : Str := s.dropWhile pyIsSpace

/-- `s.strip('.')` -/
def stripDots (s : Str) : Str := ((s.dropWhile (· == '.')).reverse.dropWhile (· == '.')).reverse

/-- `sub in s` -/
def contains (s sub : Str) : Bool := (pyFind s sub 0).isSome

/-! ## C11: `find_id_loc` -/

/-- the `while True:` loop of find_id_loc on the joined window.  `fuel` bounds the number of iterations
    (every iteration moves `pos` strictly to the right, so `len(source) + 1` is always enough:
    `findLoop_fuel` in Lemmas). -/
def findLoop (startD endD : List Char) (source id : Str) (delims : Bool) : Nat → Nat → Option Nat
  | 0, _ => none
  | fuel + 1, pos =>
    match pyFind source id (pos + 1) with
    | none => none                                                          -- pos < 0: break
    | some p =>
      if p == 0 || !delims || (match source[p - 1]? with | some c => startD.contains c | none => false) then
        let ep := p + id.length
        if ep ≥ source.length || !delims || (match source[ep]? with | some c => endD.contains c | none => false) then
          some p
        else findLoop startD endD source id delims fuel p
      else findLoop startD endD source id delims fuel p

/-- the searched text: `'\n'.join(self.source.lines[sl-1:sl+50])` -/
def window (lines : List Str) (sl : Nat) : Str :=
  joinNl (pySlice lines (sl - 1) (sl + Generated.windowAfter))

/-- find_id_loc with explicit delimiter sets (the current and the legacy sets are instances) -/
def findIdLocWith (startD endD : List Char) (lines : List Str) (id : Str) (start : Nat × Nat)
    (shift : Nat) (delims : Bool) : Nat × Nat :=
  let source := window lines start.1
  match findLoop startD endD source id delims (source.length + 1) start.2 with
  | none => start
  | some pos =>
    (start.1 + (source.take pos).count '\n',
     Int.toNat ((pos : Int) - rfindChar '\n' (source.take pos) - 1 + shift))

/-- `SourceScope.find_id_loc(id, start, shift, delimeters)` over `self.source.lines = lines` -/
def findIdLoc (lines : List Str) (id : Str) (start : Nat × Nat) (shift : Nat) (delims : Bool) : Nat × Nat :=
  findIdLocWith Generated.importDelims Generated.importEndDelims lines id start shift delims

/-- `declared_at` of a def / class / import binding: the call its binding site makes -/
def declaredAt (site : Generated.CallSite) (lines : List Str) (name : Str) (start : Nat × Nat) : Nat × Nat :=
  findIdLoc lines (if site.spacePrefixed then ' ' :: name else name) start site.shift site.delims

/-! legacy variants (before commits 3df0373 and 50717df), kept for the witnesses -/

def legacyEndDelims : List Char := [' ', '\t', '\n', '\r', '\x0b', '\x0c', ')', ',', '.', ';']

/-- end delimiters between 3df0373 and 50717df: without `[` (PEP 695 type-parameter lists) -/
def pre695EndDelims : List Char := [' ', '\t', '\n', '\r', '\x0b', '\x0c', ')', ',', '.', ';', '(', ':', '#', '\\']

/-- def / class / import names before 50717df -/
def findIdLocPre695 (lines : List Str) (id : Str) (start : Nat × Nat) (shift : Nat) (delims : Bool) : Nat × Nat :=
  findIdLocWith Generated.importDelims pre695EndDelims lines id start shift delims

/-- import names before the fix: the same search with the shorter end-delimiter set -/
def findIdLocLegacy (lines : List Str) (id : Str) (start : Nat × Nat) (shift : Nat) (delims : Bool) : Nat × Nat :=
  findIdLocWith Generated.importDelims legacyEndDelims lines id start shift delims

/-- def / class names before the fix: `find_id_loc(' ' + name, np(node), 1, False)` -/
def declaredAtDefLegacy (lines : List Str) (name : Str) (start : Nat × Nat) : Nat × Nat :=
  findIdLocLegacy lines (' ' :: name) start 1 false

/-! ## C11: one `declared_at`, two reports -/

/-- what a binding carries (supp/name.py: `name`, `declared_at`, `filename`) -/
structure Binding where
  name : Str
  declaredAt : Nat × Nat
  filename : Str
  deriving DecidableEq, Repr

/-- `assistant._loc(location, filename)`: `{'loc': ..., 'file': ...}` -/
structure Loc where
  loc : Nat × Nat
  file : Str
  deriving DecidableEq, Repr

/-- before 4a16e68: the position as the analysis of the MARKED text has it -/
def locationEntryLegacy (b : Binding) : Loc := { loc := b.declaredAt, file := b.filename }

/-- `location().loc(n)`: location() analyses the text with the cursor mark inserted at `cursor`; a position in that
    file, on the cursor's line, right of the cursor is moved back by the length of the mark -/
def locationEntry (sourceFile : Str) (cursor : Nat × Nat) (b : Binding) : Loc :=
  let ln := b.declaredAt.1
  let col := b.declaredAt.2
  let col := if b.filename = sourceFile ∧ ln = cursor.1 ∧ col > cursor.2 then col - Generated.sourceMark.length else col
  { loc := (ln, col), file := b.filename }

/-- where a character at `p` of the unmarked text stands in the text marked at `cursor`
    (`markLine`: everything from the cursor column on moves right by the length of the mark) -/
def markedPos (cursor p : Nat × Nat) : Nat × Nat :=
  if p.1 = cursor.1 ∧ cursor.2 ≤ p.2 then (p.1, p.2 + Generated.sourceMark.length) else p

/-- linter: `(w, message.format(name.name), name.declared_at[0], name.declared_at[1], flow)` -/
structure LintEntry where
  code : Str
  message : Str
  line : Nat
  col : Nat
  deriving DecidableEq, Repr

def lintEntry (code msgPrefix : Str) (b : Binding) : LintEntry :=
  { code := code, message := msgPrefix ++ b.name, line := b.declaredAt.1, col := b.declaredAt.2 }

/-! ## C12: the prefix -/

/-- `re.split(p, s)` for a pattern `p` that matches exactly one character of class `sep`
    (no capture group): the maximal `sep`-free pieces, in order; never empty -/
def splitBy (sep : Char → Bool) : Str → List Str
  | [] => [[]]
  | c :: t =>
    if sep c then [] :: splitBy sep t
    else match splitBy sep t with
      | h :: r => (c :: h) :: r
      | [] => [[c]]

/-- `re.split(r'\W', line)[-1]` -/
def prefixOf (isWord : Char → Bool) (line : Str) : Str :=
  (splitBy (Generated.isSep isWord) line).getLastD []

/-- the specification: the longest suffix of `line` made of word characters -/
def identSuffix (isWord : Char → Bool) : Str → Str
  | [] => []
  | c :: t => if (c :: t).all isWord then c :: t else identSuffix isWord t

/-- legacy (before 056c5db): `re.split(r'(\.|\s|\()', line)[-1]`; a capture group adds the separators
    to the list but never changes its last element -/
def legacySep (c : Char) : Bool := c == '.' || pyIsSpace c || c == '('

def prefixOfLegacy (line : Str) : Str := (splitBy legacySep line).getLastD []

/-- the `from` branch of assist: `from_module = re.match(r'\s*from\s+([\w.]*)$', line)`; `group(1)` if it matches.
    (`\s` of `re` on str is `str.isspace` per character: `pyIsSpace`.) -/
def fromMatch (isWord : Char → Bool) (line : Str) : Option Str :=
  Generated.fromModule isWord pyIsSpace line

/-- its prefix: `package, sep, prefix = from_module.group(1).rpartition('.')` -/
def fromPrefixOf (m : Str) : Str := (rpartition Generated.fromSep2 m).2.2

/-- and the package whose sub-packages are listed -/
def fromPackageOf (m : Str) : Str :=
  let (package, sep, _) := rpartition Generated.fromSep2 m
  if (package.isEmpty || ['.'].isPrefixOf package) && !sep.isEmpty then package ++ ['.'] else package

/-- the first component of what `assist` returns, for the text left of the cursor -/
def assistPrefix (isWord : Char → Bool) (line : Str) : Str :=
  match fromMatch isWord line with
  | some m => fromPrefixOf m
  | none => prefixOf isWord line

/-! legacy `from` branch (before ab8463e): taken when `line.lstrip().startswith('from ') and ' import ' not in line`,
    prefix = `line.rpartition(' ')[2].rpartition('.')[2]` -/

def legacyFromKw : Str := ['f', 'r', 'o', 'm', ' ']
def legacyImportKw : Str := [' ', 'i', 'm', 'p', 'o', 'r', 't', ' ']
def legacyFromSep1 : Char := ' '

def fromBranchLegacy (line : Str) : Bool :=
  legacyFromKw.isPrefixOf (lstrip line) && !contains line legacyImportKw

def fromPrefixLegacy (line : Str) : Str :=
  (rpartition Generated.fromSep2 (rpartition legacyFromSep1 line).2.2).2.2

def assistPrefixLegacy (isWord : Char → Bool) (line : Str) : Str :=
  if fromBranchLegacy line then fromPrefixLegacy line else prefixOf isWord line

/-! ## C12: the mark -/

/-- `line[:col] + SOURCE_MARK + line[col:]` -/
def markLine (line : Str) (col : Nat) : Str :=
  line.take col ++ Generated.sourceMark ++ line.drop col

/-- `Source.__init__(source, filename, position)` with `lines0 = splitlines(source)`:
    the lines of the marked source (`self.lines`; `self.source` is their `joinNl`) -/
def markLines (lines0 : List Str) (ln col : Nat) : Except PyErr (List Str) :=
  let lines := if lines0.isEmpty then [[]] else lines0
  -- if ln > len(lines): lines.extend([''] * (ln - len(lines)))   (a cursor below the text)
  let lines := if ln > lines.length then lines ++ List.replicate (ln - lines.length) [] else lines
  -- lines[ln-1]: ln = 0 is index -1 (the last line)
  let i := if ln = 0 then lines.length - 1 else ln - 1
  match lines[i]? with
  | none => .error .indexError
  | some line => .ok (lines.set i (markLine line col))

/-- `Source(source, filename, (ln, col)).lines` -/
def markSource (source : Str) (ln col : Nat) : Except PyErr (List Str) := markLines (splitlines source) ln col

/-- `SOURCE_MARK in name` -/
def marked (name : Str) : Bool := contains name Generated.sourceMark

/-- `unmark(name)` -/
def unmark (name : Str) : Str :=
  let pos := pyFindI name Generated.sourceMark 0
  let result := sliceTo name pos ++ sliceFrom name (pos + Generated.sourceMark.length)
  let dpos := pyFindI result ['.'] pos
  if 0 ≤ dpos then sliceTo result dpos else result

/-- `join_pkg(package, module)` -/
def joinPkg (package module : Str) : Str :=
  if package.getLast? = some '.' then package ++ module else package ++ '.' :: module

/-- `split_pkg(package)` -/
def splitPkg (package : Str) : Str × Str :=
  if (stripDots package).isEmpty then (package, [])
  else
    let (head, sep, tail) := rpartition '.' package
    let head :=
      if head.isEmpty then (if !sep.isEmpty then sep else head)
      else if head.getLast? = some '.' then head ++ ['.'] else head
    (head, tail)

/-! ## C12: the proposals -/

/-- Python's `<=` on str: lexicographic on code points -/
def strLe : Str → Str → Bool
  | [], _ => true
  | _ :: _, [] => false
  | a :: s, b :: t => a.toNat < b.toNat || (a == b && strLe s t)

def insertStr (x : Str) : List Str → List Str
  | [] => [x]
  | y :: t => if strLe x y then x :: y :: t else y :: insertStr x t

/-- `sorted(xs)` for a list of str.  (`<=` on str is a total order whose equivalent elements are equal,
    so every sorting algorithm gives this list.) -/
def sortStr (xs : List Str) : List Str := xs.foldr insertStr []

/-- the keys of a name table (a dict: later entries with an equal key replace, never duplicate) -/
def keys {α} (table : List (Str × α)) : List Str := (table.map Prod.fst).eraseDups

/-- `sorted(n for n in names if not marked(n))` -/
def proposals {α} (table : List (Str × α)) : List Str :=
  sortStr ((keys table).filter (fun n => !marked n))

/-- the ASCII restriction of the properties: columns = code points = bytes -/
def asciiStr (s : Str) : Bool := s.all (fun c => c.toNat < 128)

end SuppModel.Text
