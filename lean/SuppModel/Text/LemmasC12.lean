/-
  Helper lemmas for C12 (prefix / proposals / mark) about the executable model of
  SuppModel/Text/Model.lean.  The property statements are in SuppModel/Props/C12.lean.
-/
import SuppModel.Text.Model

namespace SuppModel.Text
open List

/-! ### `re.split(r'\W', line)[-1]` is the longest word suffix -/

theorem splitBy_ne_nil (sep : Char → Bool) (l : Str) : splitBy sep l ≠ [] := by
  induction l with
  | nil => simp [splitBy]
  | cons c t ih =>
    simp only [splitBy]
    split
    · simp
    · split <;> simp

theorem splitBy_all_not (sep : Char → Bool) (l : Str) (h : l.all (fun c => !sep c) = true) :
    splitBy sep l = [l] := by
  induction l with
  | nil => simp [splitBy]
  | cons c t ih =>
    simp only [List.all_cons, Bool.and_eq_true] at h
    have hc : sep c = false := by simpa using h.1
    simp [splitBy, hc, ih h.2]

theorem splitBy_two (sep : Char → Bool) (l : Str) (h : l.all (fun c => !sep c) = false) :
    ∃ a b r, splitBy sep l = a :: b :: r := by
  induction l with
  | nil => simp at h
  | cons c t ih =>
    simp only [splitBy]
    by_cases hc : sep c = true
    · simp only [hc, if_true]
      rcases hs : splitBy sep t with _ | ⟨b, r⟩
      · exact absurd hs (splitBy_ne_nil sep t)
      · exact ⟨[], b, r, rfl⟩
    · have hc' : sep c = false := by simpa using hc
      simp only [List.all_cons, hc', Bool.not_false, Bool.true_and] at h
      obtain ⟨a, b, r, e⟩ := ih h
      simp [hc', e]

theorem getLastD_cons_ne_nil {α} (a : α) (l : List α) (d : α) (h : l ≠ []) :
    (a :: l).getLastD d = l.getLastD d := by
  cases l with
  | nil => exact absurd rfl h
  | cons b r => simp [List.getLastD]

theorem splitBy_getLastD (isWord : Char → Bool) (l : Str) :
    (splitBy (fun c => !isWord c) l).getLastD [] = identSuffix isWord l := by
  induction l with
  | nil => simp [splitBy, identSuffix]
  | cons c t ih =>
    by_cases hc : isWord c = true
    · by_cases ht : t.all isWord = true
      · have : (c :: t).all (fun c => !(fun c => !isWord c) c) = true := by
          simpa [hc] using ht
        rw [splitBy_all_not _ _ this]
        have h2 : (c :: t).all isWord = true := by simp only [List.all_cons, hc, ht]; rfl
        simp [identSuffix, h2]
      · have ht' : t.all (fun c => !(fun c => !isWord c) c) = false := by
          simpa using ht
        obtain ⟨a, b, r, e⟩ := splitBy_two _ _ ht'
        have hI : identSuffix isWord (c :: t) = identSuffix isWord t := by
          simp only [identSuffix, List.all_cons, hc, Bool.true_and]
          simp [ht]
        rw [hI, ← ih, e]
        simp [splitBy, hc, e, List.getLastD]
    · have hc' : isWord c = false := by simpa using hc
      have hI : identSuffix isWord (c :: t) = identSuffix isWord t := by
        simp [identSuffix, hc']
      rw [hI, ← ih]
      simp only [splitBy, hc', Bool.not_false, if_true]
      exact getLastD_cons_ne_nil _ _ _ (splitBy_ne_nil _ _)

theorem prefixOf_eq (isWord : Char → Bool) (line : Str) :
    prefixOf isWord line = identSuffix isWord line := by
  have : Generated.isSep isWord = fun c => !isWord c := by funext c; rfl
  simp only [prefixOf, this]
  exact splitBy_getLastD isWord line

/-! ### `identSuffix` is the longest suffix of word characters -/

theorem identSuffix_suffix (p : Char → Bool) (l : Str) : identSuffix p l <:+ l := by
  induction l with
  | nil => simp [identSuffix]
  | cons c t ih =>
    simp only [identSuffix]
    split
    · exact List.suffix_refl _
    · exact List.IsSuffix.trans ih (List.suffix_cons c t)

theorem identSuffix_all (p : Char → Bool) (l : Str) : (identSuffix p l).all p = true := by
  induction l with
  | nil => simp [identSuffix]
  | cons c t ih =>
    simp only [identSuffix]
    split
    · assumption
    · exact ih

theorem identSuffix_of_all (p : Char → Bool) (l : Str) (h : l.all p = true) : identSuffix p l = l := by
  cases l with
  | nil => rfl
  | cons c t => simp only [identSuffix, h, if_true]

theorem identSuffix_longest (p : Char → Bool) (l s : Str) (hs : s <:+ l) (ha : s.all p = true) :
    s.length ≤ (identSuffix p l).length := by
  induction l with
  | nil => simp_all [identSuffix]
  | cons c t ih =>
    rcases List.suffix_cons_iff.mp hs with rfl | h
    · rw [identSuffix_of_all p _ ha]; exact Nat.le_refl _
    · simp only [identSuffix]
      split
      · have := h.length_le
        simp only [List.length_cons]; omega
      · exact ih h

/-- a suffix made of `p`-characters that is at least as long as every such suffix is `identSuffix` -/
theorem identSuffix_unique (p : Char → Bool) (l s : Str) (hs : s <:+ l) (ha : s.all p = true)
    (hmax : ∀ s', s' <:+ l → s'.all p = true → s'.length ≤ s.length) : s = identSuffix p l := by
  have h1 := identSuffix_longest p l s hs ha
  have h2 := hmax _ (identSuffix_suffix p l) (identSuffix_all p l)
  have hsuf : s <:+ identSuffix p l :=
    List.suffix_of_suffix_length_le hs (identSuffix_suffix p l) h1
  exact hsuf.eq_of_length (by omega)

/-- either the whole line is an identifier, or the character left of `identSuffix` is not a word character -/
theorem identSuffix_maximal (p : Char → Bool) (l : Str) :
    identSuffix p l = l ∨ ∃ pre c, l = pre ++ c :: identSuffix p l ∧ p c = false := by
  induction l with
  | nil => left; rfl
  | cons c t ih =>
    by_cases h : (c :: t).all p = true
    · left; exact identSuffix_of_all p _ h
    · right
      have hI : identSuffix p (c :: t) = identSuffix p t := by simp only [identSuffix, h]; rfl
      rw [hI]
      rcases ih with e | ⟨pre, d, e, hd⟩
      · refine ⟨[], c, by rw [e]; rfl, ?_⟩
        have ht : t.all p = true := by rw [← e]; exact identSuffix_all p t
        cases hc : p c with
        | false => rfl
        | true => exact absurd (by simp only [List.all_cons, hc, ht]; rfl) h
      · exact ⟨c :: pre, d, by rw [List.cons_append, ← e], hd⟩

/-! ### `sorted`, the keys of a dict, the proposals -/

theorem strLe_refl (a : Str) : strLe a a = true := by
  induction a with
  | nil => rfl
  | cons c t ih => simp [strLe, ih]

theorem strLe_total (a b : Str) : strLe a b = true ∨ strLe b a = true := by
  induction a generalizing b with
  | nil => left; rfl
  | cons c s ih =>
    cases b with
    | nil => right; rfl
    | cons d t =>
      simp only [strLe, Bool.or_eq_true, Bool.and_eq_true, decide_eq_true_eq, beq_iff_eq]
      rcases Nat.lt_trichotomy c.toNat d.toNat with h | h | h
      · left; left; exact h
      · have e : c = d := Char.toNat_inj.mp h
        rcases ih t with h' | h'
        · left; right; exact ⟨e, h'⟩
        · right; right; exact ⟨e.symm, h'⟩
      · right; left; exact h

theorem strLe_trans (a b c : Str) (h1 : strLe a b = true) (h2 : strLe b c = true) : strLe a c = true := by
  induction a generalizing b c with
  | nil => rfl
  | cons x s ih =>
    cases b with
    | nil => simp [strLe] at h1
    | cons y t =>
      cases c with
      | nil => simp [strLe] at h2
      | cons z u =>
        simp only [strLe, Bool.or_eq_true, Bool.and_eq_true, decide_eq_true_eq, beq_iff_eq] at h1 h2 ⊢
        rcases h1 with h1 | ⟨rfl, h1⟩
        · rcases h2 with h2 | ⟨rfl, h2⟩
          · left; omega
          · left; exact h1
        · rcases h2 with h2 | ⟨rfl, h2⟩
          · left; exact h2
          · right; exact ⟨rfl, ih _ _ h1 h2⟩

theorem strLe_antisymm (a b : Str) (h1 : strLe a b = true) (h2 : strLe b a = true) : a = b := by
  induction a generalizing b with
  | nil => cases b with
    | nil => rfl
    | cons y t => simp [strLe] at h2
  | cons x s ih =>
    cases b with
    | nil => simp [strLe] at h1
    | cons y t =>
      simp only [strLe, Bool.or_eq_true, Bool.and_eq_true, decide_eq_true_eq, beq_iff_eq] at h1 h2
      rcases h1 with h1 | ⟨rfl, h1⟩
      · rcases h2 with h2 | ⟨rfl, h2⟩
        · omega
        · omega
      · rcases h2 with h2 | ⟨_, h2⟩
        · omega
        · rw [ih _ h1 h2]

theorem insertStr_perm (x : Str) (l : List Str) : (insertStr x l).Perm (x :: l) := by
  induction l with
  | nil => exact List.Perm.refl _
  | cons y t ih =>
    simp only [insertStr]
    split
    · exact List.Perm.refl _
    · exact (List.Perm.cons y ih).trans (List.Perm.swap x y t)

theorem insertStr_sorted (x : Str) (l : List Str) (h : l.Pairwise (fun a b => strLe a b = true)) :
    (insertStr x l).Pairwise (fun a b => strLe a b = true) := by
  induction l with
  | nil => simp [insertStr]
  | cons y t ih =>
    simp only [insertStr]
    rw [List.pairwise_cons] at h
    split
    · rename_i hxy
      refine List.pairwise_cons.mpr ⟨?_, List.pairwise_cons.mpr h⟩
      intro z hz
      rcases List.mem_cons.mp hz with rfl | hz
      · exact hxy
      · exact strLe_trans _ _ _ hxy (h.1 z hz)
    · rename_i hxy
      refine List.pairwise_cons.mpr ⟨?_, ih h.2⟩
      intro z hz
      rcases List.mem_cons.mp ((insertStr_perm x t).mem_iff.mp hz) with rfl | hz
      · rcases strLe_total z y with h' | h'
        · exact absurd h' hxy
        · exact h'
      · exact h.1 z hz

theorem sortStr_perm (l : List Str) : (sortStr l).Perm l := by
  induction l with
  | nil => exact List.Perm.refl _
  | cons x t ih =>
    show (insertStr x (sortStr t)).Perm (x :: t)
    exact (insertStr_perm x _).trans (List.Perm.cons x ih)

theorem sortStr_sorted (l : List Str) : (sortStr l).Pairwise (fun a b => strLe a b = true) := by
  induction l with
  | nil => exact List.Pairwise.nil
  | cons x t ih => exact insertStr_sorted x _ ih

theorem nodup_eraseDups {α} [BEq α] [LawfulBEq α] (l : List α) : l.eraseDups.Nodup := by
  generalize hn : l.length = n
  induction n using Nat.strongRecOn generalizing l with
  | _ n ih =>
    cases l with
    | nil => simp
    | cons a t =>
      rw [List.eraseDups_cons, List.nodup_cons]
      refine ⟨?_, ih _ ?_ _ rfl⟩
      · simp [List.mem_eraseDups]
      · subst hn
        have := List.length_filter_le (fun b => !b == a) t
        simp only [List.length_cons]; omega

theorem nodup_filter {α} (p : α → Bool) (l : List α) (h : l.Nodup) : (l.filter p).Nodup :=
  List.Pairwise.filter p h

theorem keys_nodup {α} (t : List (Str × α)) : (keys t).Nodup := nodup_eraseDups _

theorem mem_keys {α} (t : List (Str × α)) (n : Str) : n ∈ keys t ↔ ∃ v, (n, v) ∈ t := by
  simp [keys, List.mem_eraseDups]

theorem proposals_perm {α} (t : List (Str × α)) :
    (proposals t).Perm ((keys t).filter (fun n => !marked n)) := sortStr_perm _

theorem proposals_nodup {α} (t : List (Str × α)) : (proposals t).Nodup :=
  (proposals_perm t).nodup_iff.mpr (nodup_filter _ _ (keys_nodup t))

theorem proposals_sorted_nodup {α} (t : List (Str × α)) :
    (proposals t).Pairwise (fun a b => strLe a b = true ∧ a ≠ b) :=
  List.Pairwise.and (sortStr_sorted _) (proposals_nodup t)

theorem proposals_mem {α} (t : List (Str × α)) (n : Str) :
    n ∈ proposals t ↔ (∃ v, (n, v) ∈ t) ∧ marked n = false := by
  rw [(proposals_perm t).mem_iff, List.mem_filter, mem_keys]
  simp

/-! ### `find` -/

theorem findAux_of_prefix (sub s : Str) (i : Nat) (h : sub <+: s) : findAux sub s i = some i := by
  have h' : sub.isPrefixOf s = true := List.isPrefixOf_iff_prefix.mpr h
  cases s with
  | nil => simp only [findAux, h', if_true]
  | cons c t => simp only [findAux, h', if_true]

theorem findAux_isSome (sub s : Str) (i : Nat) : (findAux sub s i).isSome = true ↔ sub <:+: s := by
  induction s generalizing i with
  | nil =>
    simp only [findAux]
    split
    · rename_i h
      simp only [Option.isSome_some, true_iff]
      exact (List.isPrefixOf_iff_prefix.mp h).isInfix
    · rename_i h
      simp only [Option.isSome_none, Bool.false_eq_true, false_iff]
      intro hi
      have : sub = [] := List.infix_nil.mp hi
      subst this
      exact h rfl
  | cons c t ih =>
    simp only [findAux]
    rw [List.infix_cons_iff]
    split
    · rename_i h
      simp only [Option.isSome_some, true_iff]
      exact Or.inl (List.isPrefixOf_iff_prefix.mp h)
    · rename_i h
      rw [ih]
      constructor
      · exact Or.inr
      · rintro (h' | h')
        · exact absurd (List.isPrefixOf_iff_prefix.mpr h') h
        · exact h'

/-- full specification of the scan: the result is the first offset at which `sub` is a prefix -/
theorem findAux_eq_some (sub s : Str) (i k : Nat) :
    findAux sub s i = some (i + k) ↔
      k ≤ s.length ∧ sub <+: s.drop k ∧ ∀ j, j < k → ¬ sub <+: s.drop j := by
  induction s generalizing i k with
  | nil =>
    simp only [findAux, List.drop_nil, List.length_nil, Nat.le_zero_eq]
    constructor
    · split
      · rename_i h
        intro e
        have : k = 0 := by simp at e; omega
        subst this
        exact ⟨rfl, List.isPrefixOf_iff_prefix.mp h, by intro j hj; omega⟩
      · intro e; cases e
    · rintro ⟨rfl, h, _⟩
      simp [List.isPrefixOf_iff_prefix.mpr h]
  | cons c t ih =>
    simp only [findAux]
    split
    · rename_i h
      have hp := List.isPrefixOf_iff_prefix.mp h
      constructor
      · intro e
        have : k = 0 := by simp at e; omega
        subst this
        exact ⟨Nat.zero_le _, by simpa using hp, by intro j hj; omega⟩
      · rintro ⟨_, _, hk⟩
        cases k with
        | zero => rfl
        | succ k => exact absurd (by simpa using hp) (hk 0 (Nat.succ_pos _))
    · rename_i h
      have hp : ¬ sub <+: c :: t := fun hh => h (List.isPrefixOf_iff_prefix.mpr hh)
      cases k with
      | zero =>
        constructor
        · intro e
          exfalso
          -- the scan never returns less than its start
          have : ∀ (s : Str) (i r : Nat), findAux sub s i = some r → i ≤ r := by
            intro s
            induction s with
            | nil => intro i r; simp only [findAux]; split <;> simp; omega
            | cons c t ih2 =>
              intro i r; simp only [findAux]; split
              · simp; omega
              · intro e; have := ih2 _ _ e; omega
          have := this _ _ _ e
          omega
        · rintro ⟨_, h0, _⟩
          exact absurd (by simpa using h0) hp
      | succ k =>
        have e1 : i + (k + 1) = (i + 1) + k := by omega
        rw [e1, ih]
        simp only [List.length_cons, List.drop_succ_cons]
        constructor
        · rintro ⟨a, b, c'⟩
          refine ⟨by omega, b, ?_⟩
          intro j hj
          cases j with
          | zero => simpa using hp
          | succ j => simpa using c' j (by omega)
        · rintro ⟨a, b, c'⟩
          refine ⟨by omega, b, ?_⟩
          intro j hj
          simpa using c' (j + 1) (by omega)

theorem findAux_eq_none (sub s : Str) (i : Nat) :
    findAux sub s i = none ↔ ∀ k, k ≤ s.length → ¬ sub <+: s.drop k := by
  induction s generalizing i with
  | nil =>
    simp only [findAux, List.length_nil, Nat.le_zero_eq, List.drop_nil]
    split
    · rename_i h
      simp only [reduceCtorEq, false_iff]
      intro hh
      exact hh 0 rfl (List.isPrefixOf_iff_prefix.mp h)
    · rename_i h
      simp only [true_iff]
      intro k _ hh
      exact h (List.isPrefixOf_iff_prefix.mpr hh)
  | cons c t ih =>
    simp only [findAux]
    split
    · rename_i h
      simp only [reduceCtorEq, false_iff]
      intro hh
      exact hh 0 (Nat.zero_le _) (by simpa using List.isPrefixOf_iff_prefix.mp h)
    · rename_i h
      have hp : ¬ sub <+: c :: t := fun hh => h (List.isPrefixOf_iff_prefix.mpr hh)
      rw [ih]
      constructor
      · intro hh k hk
        cases k with
        | zero => simpa using hp
        | succ k => simpa using hh k (by simpa using hk)
      · intro hh k hk
        simpa using hh (k + 1) (by simpa using hk)

theorem contains_iff (s sub : Str) : contains s sub = true ↔ sub <:+: s := by
  simp only [contains, pyFind, Nat.zero_le, if_true, List.drop_zero]
  exact findAux_isSome sub s 0

/-! ### the mark -/

/-- no occurrence of the mark starts inside `a` in `a ++ MARK` (decidable twin of the hypothesis of `unmark_insert`) -/
def noEarlyMark (a : Str) : Bool :=
  (List.range a.length).all (fun i => !(Generated.sourceMark.isPrefixOf ((a ++ Generated.sourceMark).drop i)))

theorem noEarlyMark_iff (a : Str) :
    noEarlyMark a = true ↔
      ∀ i, i < a.length → ¬ Generated.sourceMark <+: (a ++ Generated.sourceMark).drop i := by
  simp only [noEarlyMark, List.all_eq_true, List.mem_range, Bool.not_eq_true', ← List.isPrefixOf_iff_prefix,
    Bool.not_eq_true]

/-- an occurrence starting inside `a` lies inside `a ++ sub`, whatever follows -/
theorem early_append (sub a b : Str) (i : Nat) (hi : i < a.length)
    (h : sub <+: (a ++ sub ++ b).drop i) : sub <+: (a ++ sub).drop i := by
  have e : (a ++ sub ++ b).drop i = (a ++ sub).drop i ++ b := by
    rw [List.drop_append_of_le_length (by simp; omega)]
  rw [e] at h
  refine List.prefix_of_prefix_length_le h (List.prefix_append _ _) ?_
  simp; omega

theorem findAux_insert (sub a b : Str) (n : Nat)
    (h : ∀ i, i < a.length → ¬ sub <+: (a ++ sub ++ b).drop i) :
    findAux sub (a ++ sub ++ b) n = some (n + a.length) := by
  induction a generalizing n with
  | nil => simpa using findAux_of_prefix sub (sub ++ b) n (List.prefix_append _ _)
  | cons c a ih =>
    have h0 : ¬ sub <+: c :: (a ++ sub ++ b) := by simpa using h 0 (Nat.succ_pos _)
    have h0' : sub.isPrefixOf (c :: (a ++ sub ++ b)) = false := by
      simpa [← List.isPrefixOf_iff_prefix] using h0
    simp only [List.cons_append, findAux, h0', Bool.false_eq_true, if_false]
    rw [ih (n + 1) (fun i hi => by simpa using h (i + 1) (by simpa using hi))]
    simp only [List.length_cons]; congr 1; omega

theorem pyFindI_insert (sub a b : Str)
    (h : ∀ i, i < a.length → ¬ sub <+: (a ++ sub).drop i) :
    pyFindI (a ++ sub ++ b) sub 0 = a.length := by
  have := findAux_insert sub a b 0 (fun i hi hh => h i hi (early_append sub a b i hi hh))
  have e : pyFind (a ++ sub ++ b) sub 0 = some a.length := by
    simp only [pyFind, Nat.zero_le, if_true, List.drop_zero, this, Nat.zero_add]
  simp only [pyFindI, Int.lt_irrefl, if_false, Int.toNat_zero, e]

theorem sliceTo_nat (s : Str) (n : Nat) : sliceTo s (n : Int) = s.take n := by
  simp only [sliceTo, pyIdx]
  have : ¬ ((n : Int) < 0) := by omega
  simp only [this, if_false, Int.toNat_natCast]
  rw [List.take_eq_take_iff]; omega

theorem sliceFrom_nat (s : Str) (n : Nat) : sliceFrom s (n : Int) = s.drop n := by
  simp only [sliceFrom, pyIdx]
  have : ¬ ((n : Int) < 0) := by omega
  simp only [this, if_false, Int.toNat_natCast]
  by_cases hn : n ≤ s.length
  · rw [Nat.min_eq_left hn]
  · rw [Nat.min_eq_right (by omega), List.drop_length, List.drop_eq_nil_of_le (by omega)]

/-- `find('.')` from the left -/
theorem findAux_dot (b : Str) (n : Nat) :
    findAux ['.'] b n =
      if '.' ∈ b then some (n + (b.takeWhile (· != '.')).length) else none := by
  induction b generalizing n with
  | nil => simp [findAux, List.isPrefixOf]
  | cons c t ih =>
    by_cases hc : c = '.'
    · subst hc
      simp [findAux, List.isPrefixOf]
    · have h1 : (['.'].isPrefixOf (c :: t)) = false := by
        simp [List.isPrefixOf]; exact fun h => hc h.symm
      have h2 : (c != '.') = true := by simpa using hc
      have h3 : ('.' ∈ c :: t) ↔ '.' ∈ t := by
        simp only [List.mem_cons]; constructor
        · rintro (h | h)
          · exact absurd h.symm hc
          · exact h
        · exact Or.inr
      simp only [findAux, h1, Bool.false_eq_true, if_false, ih, h3, List.takeWhile_cons, h2, if_true,
        List.length_cons]
      split
      · congr 1; omega
      · rfl

theorem takeWhile_ne_dot_of_not_mem (b : Str) (h : '.' ∉ b) : b.takeWhile (· != '.') = b := by
  induction b with
  | nil => rfl
  | cons x t ih =>
    have hx : (x != '.') = true := by
      simp only [bne_iff_ne, ne_eq]; rintro rfl; exact h (List.mem_cons_self)
    simp only [List.takeWhile_cons, hx, if_true]
    rw [ih (fun hh => h (List.mem_cons_of_mem _ hh))]

theorem takeWhile_ne_dot_append (b c : Str) (h : '.' ∉ b) : (b ++ '.' :: c).takeWhile (· != '.') = b := by
  induction b with
  | nil => simp
  | cons x t ih =>
    have hx : (x != '.') = true := by
      simp only [bne_iff_ne, ne_eq]; rintro rfl; exact h (List.mem_cons_self)
    simp only [List.cons_append, List.takeWhile_cons, hx, if_true]
    rw [ih (fun hh => h (List.mem_cons_of_mem _ hh))]

theorem unmark_insert (a b : Str)
    (h : ∀ i, i < a.length → ¬ Generated.sourceMark <+: (a ++ Generated.sourceMark).drop i) :
    unmark (a ++ Generated.sourceMark ++ b) = a ++ b.takeWhile (· != '.') := by
  have hpos := pyFindI_insert Generated.sourceMark a b h
  have e1 : sliceTo (a ++ Generated.sourceMark ++ b) (a.length : Int) = a := by
    rw [sliceTo_nat]; simp [List.append_assoc]
  have e2 : sliceFrom (a ++ Generated.sourceMark ++ b)
      ((a.length : Int) + (Generated.sourceMark.length : Int)) = b := by
    rw [← Int.natCast_add, sliceFrom_nat, ← List.length_append]
    simp
  have e3 : pyFind (a ++ b) ['.'] a.length = findAux ['.'] b a.length := by
    simp [pyFind]
  simp only [unmark, hpos, e1, e2]
  have e4 : pyFindI (a ++ b) ['.'] (a.length : Int) =
      if '.' ∈ b then ((a.length + (b.takeWhile (· != '.')).length : Nat) : Int) else -1 := by
    have : ¬ ((a.length : Int) < 0) := by omega
    simp only [pyFindI, this, if_false, Int.toNat_natCast, e3, findAux_dot]
    by_cases hd : '.' ∈ b
    · simp only [hd, if_true]
    · simp only [hd, if_false]
  rw [e4]
  by_cases hd : '.' ∈ b
  · simp only [hd, if_true]
    have : (0 : Int) ≤ ((a.length + (b.takeWhile (· != '.')).length : Nat) : Int) := by omega
    simp only [this, if_true, sliceTo_nat]
    rw [List.take_append, List.take_of_length_le (by omega)]
    congr 1
    have hp := List.takeWhile_prefix (l := b) (· != '.')
    rw [Nat.add_sub_cancel_left]
    exact (List.prefix_iff_eq_take.mp hp).symm
  · simp only [hd, if_false]
    have : ¬ ((0 : Int) ≤ -1) := by omega
    simp only [this, if_false, takeWhile_ne_dot_of_not_mem b hd]

theorem marked_insert (a b : Str) : marked (a ++ Generated.sourceMark ++ b) = true := by
  rw [marked, contains_iff]
  exact ⟨a, b, rfl⟩

/-! ### the `from` branch -/

theorem afterLast_of_not_mem (c : Char) (s : Str) (h : c ∉ s) : afterLast c s = s := by
  cases s with
  | nil => rfl
  | cons x t =>
    have h1 : c ∉ t := fun hh => h (List.mem_cons_of_mem _ hh)
    have h2 : ¬ x = c := fun hh => h (hh ▸ List.mem_cons_self)
    simp only [afterLast, h1, h2, if_false]

theorem rpartition_tail (c : Char) (s : Str) : (rpartition c s).2.2 = afterLast c s := by
  simp only [rpartition]
  split
  · rfl
  · rename_i h; exact (afterLast_of_not_mem c s h).symm

theorem afterLast_eq_identSuffix (c : Char) (s : Str) : afterLast c s = identSuffix (· != c) s := by
  induction s with
  | nil => rfl
  | cons x t ih =>
    simp only [afterLast]
    by_cases hc : c ∈ t
    · have : (x :: t).all (· != c) = false := by
        simp only [List.all_cons, Bool.and_eq_false_iff]
        right
        simp only [List.all_eq_false, bne_iff_ne, ne_eq, Decidable.not_not]
        exact ⟨c, hc, rfl⟩
      simp only [hc, if_true, identSuffix, this, Bool.false_eq_true, if_false, ih]
    · have ht : t.all (· != c) = true := by
        simp only [List.all_eq_true, bne_iff_ne, ne_eq]
        rintro y hy rfl; exact hc hy
      by_cases hx : x = c
      · subst hx
        have : (x :: t).all (· != x) = false := by simp
        simp only [hc, if_false, if_true, identSuffix, this, Bool.false_eq_true]
        exact (identSuffix_of_all _ _ ht).symm
      · have : (x :: t).all (· != c) = true := by
          simp only [List.all_cons, ht, Bool.and_true, bne_iff_ne, ne_eq]; exact hx
        simp only [hc, if_false, hx, identSuffix, this, if_true]

theorem identSuffix_identSuffix (p q : Char → Bool) (l : Str) :
    identSuffix p (identSuffix q l) = identSuffix (fun c => q c && p c) l := by
  induction l with
  | nil => rfl
  | cons c t ih =>
    by_cases hq : (c :: t).all q = true
    · rw [identSuffix_of_all q _ hq]
      by_cases hp : (c :: t).all p = true
      · have : (c :: t).all (fun c => q c && p c) = true := by
          rw [List.all_eq_true] at hq hp ⊢
          intro x hx; simp [hq x hx, hp x hx]
        rw [identSuffix_of_all _ _ hp, identSuffix_of_all _ _ this]
      · have : ¬ (c :: t).all (fun c => q c && p c) = true := by
          intro hh; apply hp
          rw [List.all_eq_true] at hh ⊢
          intro x hx; have := hh x hx; simp only [Bool.and_eq_true] at this; exact this.2
        have htq : t.all q = true := by
          simp only [List.all_cons, Bool.and_eq_true] at hq; exact hq.2
        simp only [identSuffix, hp, this]
        rw [← ih, identSuffix_of_all q _ htq]
    · have : ¬ (c :: t).all (fun c => q c && p c) = true := by
        intro hh; apply hq
        rw [List.all_eq_true] at hh ⊢
        intro x hx; have := hh x hx; simp only [Bool.and_eq_true] at this; exact this.1
      simp only [identSuffix, hq, this]
      exact ih

/-- the characters `fromPrefixLegacy` stops at -/
def fromStop (c : Char) : Bool := c == legacyFromSep1 || c == Generated.fromSep2

theorem fromPrefixLegacy_eq_identSuffix (line : Str) :
    fromPrefixLegacy line = identSuffix (fun c => !fromStop c) line := by
  simp only [fromPrefixLegacy, rpartition_tail, afterLast_eq_identSuffix, identSuffix_identSuffix]
  congr 1
  funext c
  simp [fromStop, bne]

theorem fromPrefixLegacy_eq_split (line : Str) :
    fromPrefixLegacy line =
      (splitBy (fun c => c == legacyFromSep1 || c == Generated.fromSep2) line).getLastD [] := by
  rw [fromPrefixLegacy_eq_identSuffix, ← splitBy_getLastD]
  congr 2
  funext c
  simp [fromStop]

theorem fromPrefixLegacy_iff (isWord : Char → Bool) (line : Str)
    (hsp : isWord legacyFromSep1 = false) (hdot : isWord Generated.fromSep2 = false) :
    fromPrefixLegacy line = identSuffix isWord line ↔ (fromPrefixLegacy line).all isWord = true := by
  constructor
  · intro h; rw [h]; exact identSuffix_all _ _
  · intro h
    refine identSuffix_unique isWord line _ ?_ h ?_
    · rw [fromPrefixLegacy_eq_identSuffix]; exact identSuffix_suffix _ _
    · intro s hs ha
      rw [fromPrefixLegacy_eq_identSuffix]
      apply identSuffix_longest _ _ _ hs
      rw [List.all_eq_true] at ha ⊢
      intro x hx
      have hw := ha x hx
      simp only [fromStop, Bool.not_eq_true', Bool.or_eq_false_iff, beq_eq_false_iff_ne, ne_eq]
      constructor
      · rintro rfl; rw [hsp] at hw; cases hw
      · rintro rfl; rw [hdot] at hw; cases hw

/-! ### the `from` branch (ab8463e): `re.match(r'\s*from\s+([\w.]*)$', line)` -/

theorem mem_takeWhile_p (p : Char → Bool) (l : List Char) (x : Char) (h : x ∈ l.takeWhile p) : p x = true := by
  induction l with
  | nil => simp at h
  | cons a t ih =>
    simp only [List.takeWhile_cons] at h
    split at h
    · rename_i ha
      simp only [List.mem_cons] at h
      rcases h with rfl | h
      · exact ha
      · exact ih h
    · simp at h
theorem len_tw (p : Char → Bool) (l : List Char) : l.length = (l.takeWhile p).length + (l.dropWhile p).length := by
  have := congrArg List.length (List.takeWhile_append_dropWhile (p := p) (l := l))
  rw [List.length_append] at this
  omega

/-- a word-character suffix cannot reach across a non-word character -/
theorem wordSuffix_bound (isWord : Char → Bool) (line pre t s : Str) (c : Char)
    (hl : line = pre ++ c :: t) (hc : isWord c = false) (hs : s <:+ line) (ha : s.all isWord = true) :
    s.length ≤ t.length := by
  by_cases h : s.length ≤ t.length
  · exact h
  · exfalso
    have hct : (c :: t) <:+ line := ⟨pre, hl.symm⟩
    have : (c :: t) <:+ s := List.suffix_of_suffix_length_le hct hs (by simp only [List.length_cons]; omega)
    obtain ⟨u, hu⟩ := this
    have hmem : c ∈ s := by rw [← hu]; simp
    rw [List.all_eq_true] at ha
    rw [ha c hmem] at hc
    cases hc

/-- what a match of the from-branch pattern says about the line: the module text `m` ends the line, consists of word
    characters and dots, and is preceded by a whitespace character -/
theorem fromMatch_shape (isWord : Char → Bool) (line m : Str) (h : fromMatch isWord line = some m) :
    (∃ pre w, line = pre ++ w :: m ∧ pyIsSpace w = true) ∧ m.all (fun c => isWord c || c == '.') = true := by
  unfold fromMatch Generated.fromModule at h
  simp only at h
  split at h
  · rename_i hfrom
    split at h
    · rename_i hm
      simp only [Option.some.injEq] at h
      simp only [Bool.and_eq_true, decide_eq_true_eq] at hm
      subst h
      refine ⟨?_, hm.2⟩
      -- line = takeWhile ++ dropWhile; dropWhile = from ++ r2; r2 = takeWhile ++ m
      have h1 : line = line.takeWhile pyIsSpace ++ line.dropWhile pyIsSpace := (List.takeWhile_append_dropWhile).symm
      have h2 : line.dropWhile pyIsSpace = ['f', 'r', 'o', 'm'] ++ (line.dropWhile pyIsSpace).drop 4 := by
        rw [List.isPrefixOf_iff_prefix] at hfrom
        obtain ⟨u, hu⟩ := hfrom
        rw [← hu]; simp
      generalize hr2 : (line.dropWhile pyIsSpace).drop 4 = r2 at *
      have h3 : r2 = r2.takeWhile pyIsSpace ++ r2.dropWhile pyIsSpace := (List.takeWhile_append_dropWhile).symm
      have hne : r2.takeWhile pyIsSpace ≠ [] := by
        intro hnil
        have := len_tw pyIsSpace r2
        rw [hnil] at this
        simp only [List.length_nil, Nat.zero_add] at this
        omega
      have hlast := List.dropLast_concat_getLast hne
      have hw : pyIsSpace ((r2.takeWhile pyIsSpace).getLast hne) = true := by
        have := List.getLast_mem hne
        exact mem_takeWhile_p pyIsSpace r2 _ this
      refine ⟨line.takeWhile pyIsSpace ++ ['f', 'r', 'o', 'm'] ++ (r2.takeWhile pyIsSpace).dropLast,
        (r2.takeWhile pyIsSpace).getLast hne, ?_, hw⟩
      conv => lhs; rw [h1, h2, h3, ← hlast]
      simp [List.append_assoc]
    · cases h
  · cases h

/-- in the `from` branch the returned prefix IS the longest run of word characters left of the cursor -/
theorem fromPrefixOf_eq_identSuffix (isWord : Char → Bool) (line m : Str)
    (hsp : ∀ c, pyIsSpace c = true → isWord c = false) (hdot : isWord Generated.fromSep2 = false)
    (h : fromMatch isWord line = some m) : fromPrefixOf m = identSuffix isWord line := by
  obtain ⟨⟨pre, w, hline, hw⟩, hall⟩ := fromMatch_shape isWord line m h
  have hwn : isWord w = false := hsp w hw
  unfold fromPrefixOf
  rw [rpartition_tail, afterLast_eq_identSuffix]
  have hsufm : identSuffix (· != Generated.fromSep2) m <:+ m := identSuffix_suffix _ _
  have hm_line : m <:+ line := ⟨pre ++ [w], by rw [hline]; simp⟩
  refine identSuffix_unique isWord line _ (hsufm.trans hm_line) ?_ ?_
  · -- all word characters: in `m` (word or dot) and not the dot
    have hnd := identSuffix_all (· != Generated.fromSep2) m
    rw [List.all_eq_true] at hnd hall ⊢
    intro x hx
    have h1 := hall x (hsufm.subset hx)
    have h2 := hnd x hx
    simp only [Bool.or_eq_true, beq_iff_eq] at h1
    simp only [bne_iff_ne, ne_eq] at h2
    rcases h1 with h1 | h1
    · exact h1
    · exact absurd h1 h2
  · intro s hs ha
    rcases identSuffix_maximal (· != Generated.fromSep2) m with hm | ⟨pre', c, hm, hc⟩
    · -- no dot in m: the character before is the whitespace
      rw [hm]
      exact wordSuffix_bound isWord line pre m s w hline hwn hs ha
    · have hcd : c = Generated.fromSep2 := by
        simp only [bne_eq_false_iff_eq] at hc; exact hc
      have hl2 : line = (pre ++ w :: pre') ++ c :: identSuffix (· != Generated.fromSep2) m := by
        rw [hline]; conv => lhs; rw [hm]
        simp
      exact wordSuffix_bound isWord line _ _ s c hl2 (by rw [hcd]; exact hdot) hs ha

/-- so `assist`'s prefix is `identSuffix` on every line -/
theorem assistPrefix_eq (isWord : Char → Bool) (line : Str)
    (hsp : ∀ c, pyIsSpace c = true → isWord c = false) (hdot : isWord Generated.fromSep2 = false) :
    assistPrefix isWord line = identSuffix isWord line := by
  unfold assistPrefix
  split
  · rename_i m hm
    exact fromPrefixOf_eq_identSuffix isWord line m hsp hdot hm
  · exact prefixOf_eq isWord line

/-! ### a concrete word class for examples and witnesses -/

/-- ASCII `\w`: letters, digits, underscore -/
def asciiWord (c : Char) : Bool := c.isAlphanum || c == '_'

/-- the ASCII word class contains no whitespace character -/
theorem asciiWord_not_space (c : Char) (h : pyIsSpace c = true) : asciiWord c = false := by
  unfold pyIsSpace at h
  unfold asciiWord Char.isAlphanum Char.isAlpha Char.isUpper Char.isLower Char.isDigit
  simp only [Char.toNat] at h
  have hu : c = '_' ↔ c.val.toNat = 95 := by
    constructor
    · rintro rfl; rfl
    · intro h; apply Char.ext; apply UInt32.toNat_inj.mp; simpa using h
  simp only [Bool.or_eq_true, Bool.and_eq_true, decide_eq_true_eq, beq_iff_eq] at h
  simp only [Bool.or_eq_false_iff, Bool.and_eq_false_iff, decide_eq_false_iff_not, beq_eq_false_iff_ne, ne_eq, hu,
    UInt32.le_iff_toNat_le, ge_iff_le]
  simp
  have hh : c.toNat = c.val.toNat := rfl
  omega


/-- a sufficient condition for `noEarlyMark`: no underscore left of the cursor -/
theorem noEarlyMark_of_no_underscore (a : Str) (h : '_' ∉ a) : noEarlyMark a = true := by
  rw [noEarlyMark_iff]
  intro i hi hp
  have e : (a ++ Generated.sourceMark).drop i = a[i] :: (a ++ Generated.sourceMark).drop (i + 1) := by
    rw [List.drop_eq_getElem_cons (by simp; omega)]
    simp [List.getElem_append_left hi]
  rw [e] at hp
  obtain ⟨r, hr⟩ := hp
  have : a[i] = '_' := by
    simp only [Generated.sourceMark, List.cons_append, List.cons.injEq] at hr
    exact hr.1.symm
  exact h (this ▸ List.getElem_mem hi)

end SuppModel.Text
