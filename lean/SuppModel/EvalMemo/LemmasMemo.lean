/-
  EvalMemo — the state invariant of the cache discipline and what one evaluation does to it.
-/
import SuppModel.EvalMemo.LemmasPure
namespace SuppModel.EvalMemo

/-- what is true of every state a request history can reach -/
structure Inv (g : Graph) (s : St) : Prop where
  /-- a value kept for good is the value of the node on its own, and that evaluation met no cut -/
  fin_ok : ∀ n v, s.fin n = some v → evalPure g (g.length + 1) [] n = (v, false)
  /-- a provisional value of the current request belongs to a node that does meet a cut -/
  prov_ok : ∀ n v, s.curProv n = some v → ¬ Acyc g n
  /-- provisional values are tagged with past or present epochs -/
  epoch_ok : ∀ n e v, s.prov n = some (e, v) → e ≤ s.epoch

theorem Inv.fin_acyc {g : Graph} {s : St} (h : Inv g s) {n : Nat} {v : Val} (hv : s.fin n = some v) :
    Acyc g n ∧ v = pv g n := by
  have := h.fin_ok n v hv
  exact ⟨by unfold Acyc; rw [this], by unfold pv; rw [this]⟩

theorem Inv.empty (g : Graph) : Inv g St.empty :=
  ⟨fun _ _ h => (by cases h), fun _ _ h => (by cases h), fun _ _ _ h => (by cases h)⟩

theorem curProv_bump {g : Graph} {s : St} (h : Inv g s) (n : Nat) : s.bump.curProv n = none := by
  unfold St.curProv St.bump
  simp only
  cases hp : s.prov n with
  | none => rfl
  | some ev =>
    obtain ⟨e, v⟩ := ev
    have := h.epoch_ok n e v hp
    simp only
    rw [if_neg (by omega)]

theorem Inv.bump {g : Graph} {s : St} (h : Inv g s) : Inv g s.bump :=
  ⟨h.fin_ok, fun n v hv => (by rw [curProv_bump h n] at hv; cases hv),
   fun n e v hp => Nat.le_succ_of_le (h.epoch_ok n e v hp)⟩

theorem Inv.fire {g : Graph} {s : St} (h : Inv g s) : Inv g s.fire := ⟨h.fin_ok, h.prov_ok, h.epoch_ok⟩

@[simp] theorem curProv_fire (s : St) : s.fire.curProv = s.curProv := rfl
@[simp] theorem curProv_setFin (s : St) (n : Nat) (v : Val) : (s.setFin n v).curProv = s.curProv := rfl

theorem curProv_setProv (s : St) (n : Nat) (v : Val) (x : Nat) :
    (s.setProv n v).curProv x = if x = n then some v else s.curProv x := by
  unfold St.curProv St.setProv upd
  simp only
  by_cases hx : x = n
  · simp [hx]
  · simp only [hx, if_false]

/-- what one `evaluate(n)` under the stack `S` does (result `r`) -/
structure Spec (g : Graph) (f : Nat) (S : List Nat) (n : Nat) (s : St) (r : Val × St) : Prop where
  inv : Inv g r.2
  epoch : r.2.epoch = s.epoch
  mono : s.fired ≤ r.2.fired
  /-- the counter did not move: this is the cache-free value and no cut was met -/
  quiet : r.2.fired = s.fired → evalPure g f S n = (r.1, false)
  /-- an acyclic node: its own value, the counter does not move, no provisional slot is written -/
  acyc : Acyc g n → r.1 = pv g n ∧ r.2.fired = s.fired ∧ r.2.curProv = s.curProv

structure FoldSpec (g : Graph) (f : Nat) (S : List Nat) (ds : List Nat) (s : St) (r : Val × St) : Prop where
  inv : Inv g r.2
  epoch : r.2.epoch = s.epoch
  mono : s.fired ≤ r.2.fired
  quiet : r.2.fired = s.fired →
    r.1 = ((ds.map (evalPure g f S)).map Prod.fst).flatten ∧ (ds.map (evalPure g f S)).any Prod.snd = false
  acyc : (∀ d ∈ ds, Acyc g d) → r.1 = (ds.map (pv g)).flatten ∧ r.2.fired = s.fired ∧ r.2.curProv = s.curProv

theorem fold_spec {g : Graph} {f : Nat} {S : List Nat} {ev : Nat → St → Val × St} :
    ∀ (ds : List Nat), (∀ d ∈ ds, ∀ s, Inv g s → Spec g f S d s (ev d s)) →
    ∀ s, Inv g s → FoldSpec g f S ds s (depsM ev ds s) := by
  intro ds
  induction ds with
  | nil =>
    intro _ s hs
    exact ⟨hs, rfl, Nat.le_refl _, fun _ => ⟨rfl, rfl⟩, fun _ => ⟨rfl, rfl, rfl⟩⟩
  | cons d ds ih =>
    intro hev s hs
    have h1 := hev d (by simp) s hs
    have h2 := ih (fun d' hd' => hev d' (List.mem_cons_of_mem _ hd')) (ev d s).2 h1.inv
    simp only [depsM]
    refine ⟨h2.inv, h2.epoch.trans h1.epoch, Nat.le_trans h1.mono h2.mono, ?_, ?_⟩
    · intro hq
      have m1 := h1.mono
      have m2 := h2.mono
      simp only at hq
      have q1 := h1.quiet (by omega)
      have q2 := h2.quiet (by omega)
      simp only [List.map_cons, List.flatten_cons, List.any_cons, q1, q2.2, Bool.or_self]
      simp only [q2.1, and_self]
    · intro ha
      have a1 := h1.acyc (ha d (by simp))
      have a2 := h2.acyc (fun d' hd' => ha d' (List.mem_cons_of_mem _ hd'))
      simp only [List.map_cons, List.flatten_cons]
      refine ⟨by rw [a1.1, a2.1], a2.2.1.trans a1.2.1, a2.2.2.trans a1.2.2⟩

theorem evalM_succ (g : Graph) (f : Nat) (S : List Nat) (n : Nat) (s : St) :
    evalM g (f + 1) S n s =
      if n ∈ S then ([], s.fire)
      else match s.fin n with
        | some v => (v, s)
        | none =>
          match s.curProv n with
          | some v => (v, s.fire)
          | none =>
            (n :: (depsM (evalM g f (n :: S)) (g.deps n) s).1,
             store s.fired n (n :: (depsM (evalM g f (n :: S)) (g.deps n) s).1)
               (depsM (evalM g f (n :: S)) (g.deps n) s).2) := rfl

/-- every evaluation meets its specification -/
theorem good {g : Graph} : ∀ (f : Nat) (S : List Nat) (n : Nat) (s : St),
    free g S < f → Chain g S n → Inv g s → Spec g f S n s (evalM g f S n s) := by
  intro f
  induction f with
  | zero => intro S n s h; omega
  | succ f ih =>
    intro S n s hf hc hs
    rw [evalM_succ]
    by_cases hn : n ∈ S
    · -- cut
      rw [if_pos hn]
      exact ⟨hs.fire, rfl, Nat.le_succ _, fun h => by simp [St.fire] at h,
        fun ha => absurd hn (ha.noreach hc (Reach.refl n))⟩
    rw [if_neg hn]
    cases hfin : s.fin n with
    | some v =>
      have hv := hs.fin_acyc hfin
      simp only
      refine ⟨hs, rfl, Nat.le_refl _, fun _ => ?_, fun _ => ⟨hv.2, rfl, rfl⟩⟩
      rw [hv.2]; exact hv.1.eval hc hf
    | none =>
      simp only
      cases hp : s.curProv n with
      | some v =>
        simp only
        exact ⟨hs.fire, rfl, Nat.le_succ _, fun h => by simp [St.fire] at h,
          fun ha => absurd ha (hs.prov_ok n v hp)⟩
      | none =>
        simp only
        have hfold := fold_spec (g := g) (f := f) (S := n :: S) (ev := evalM g f (n :: S)) (g.deps n)
          (fun d hd s' hs' => ih (n :: S) d s' (sub_ok hf hn hd) ⟨hd, hc⟩ hs') s hs
        generalize depsM (evalM g f (n :: S)) (g.deps n) s = r at hfold
        -- the cache-free evaluation when the counter did not move
        have hq : r.2.fired = s.fired → evalPure g (f + 1) S n = (n :: r.1, false) := by
          intro h
          have q := hfold.quiet h
          rw [evalPure_succ, if_neg hn, ← q.1, q.2]
        have hq' : r.2.fired = s.fired → evalPure g (g.length + 1) [] n = (n :: r.1, false) := by
          intro h
          have e := hq h
          rw [← e]
          symm
          apply evalPure_of_noreach hf
          intro x hx
          exact nocut_noreach hx _ _ hf (by rw [e])
        have ha : Acyc g n → n :: r.1 = pv g n ∧ r.2.fired = s.fired ∧ r.2.curProv = s.curProv := by
          intro h
          have a := hfold.acyc (fun d hd => h.dep hd)
          exact ⟨by rw [h.pv_eq, a.1], a.2⟩
        unfold store
        by_cases hfd : r.2.fired = s.fired
        · rw [if_pos hfd]
          refine ⟨⟨?_, hfold.inv.prov_ok, hfold.inv.epoch_ok⟩, hfold.epoch, hfold.mono,
            fun _ => hq hfd, fun h => ?_⟩
          · intro m v hm
            simp only [St.setFin, upd] at hm
            split at hm
            · rename_i hmn
              cases hm; rw [hmn]; exact hq' hfd
            · exact hfold.inv.fin_ok m v hm
          · have := ha h
            exact ⟨this.1, this.2.1, this.2.2⟩
        · rw [if_neg hfd]
          refine ⟨⟨hfold.inv.fin_ok, ?_, ?_⟩, hfold.epoch, hfold.mono,
            fun h => absurd h hfd, fun h => absurd (ha h).2.1 hfd⟩
          · intro m v hm
            rw [curProv_setProv] at hm
            split at hm
            · rename_i hmn
              rw [hmn]; exact fun h => hfd (ha h).2.1
            · exact hfold.inv.prov_ok m v hm
          · intro m e v hm
            simp only [St.setProv, upd] at hm
            split at hm
            · cases hm; exact Nat.le_refl _
            · exact hfold.inv.epoch_ok m e v hm

theorem good_request {g : Graph} {f : Nat} (hf : g.length < f) {s : St} (hs : Inv g s) (n : Nat) :
    Spec g f [] n s.bump (requestF g f s n) :=
  good f [] n s.bump (Nat.lt_of_le_of_lt (free_nil_le g) hf) trivial hs.bump

theorem Inv.runHistory {g : Graph} : ∀ (h : List Nat) {s : St}, Inv g s → Inv g (runHistory g h s) := by
  intro h
  induction h with
  | nil => intro s hs; exact hs
  | cons n h ih =>
    intro s hs
    exact ih (good_request (Nat.lt_succ_self _) hs n).inv

end SuppModel.EvalMemo
