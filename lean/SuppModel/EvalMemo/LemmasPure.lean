/-
  EvalMemo — facts about the cache-free evaluator: fuel, reachability, acyclic nodes.
-/
import SuppModel.EvalMemo.Basic
namespace SuppModel.EvalMemo

theorem deps_nil_of_ge {g : Graph} {n : Nat} (h : g.length ≤ n) : g.deps n = [] := by
  simp [Graph.deps, List.getD, h]

theorem lt_of_mem_deps {g : Graph} {n d : Nat} (h : d ∈ g.deps n) : n < g.length := by
  rcases Nat.lt_or_ge n g.length with h' | h'
  · exact h'
  · rw [deps_nil_of_ge h'] at h; cases h

theorem countP_lt {p q : Nat → Bool} {l : List Nat} (hpq : ∀ x, p x = true → q x = true)
    {a : Nat} (ha : a ∈ l) (hq : q a = true) (hp : p a = false) : l.countP p < l.countP q := by
  induction l with
  | nil => cases ha
  | cons b t ih =>
    have hmono : t.countP p ≤ t.countP q := List.countP_mono_left (fun x _ => hpq x)
    rcases List.mem_cons.1 ha with rfl | h
    · simp only [List.countP_cons, hq, hp]; simp; omega
    · have := ih h
      simp only [List.countP_cons]
      cases hb : p b
      · simp; split <;> omega
      · simp [hpq b hb]; omega

theorem free_push {g : Graph} {S : List Nat} {n : Nat} (hn : n ∉ S) (hl : n < g.length) :
    free g (n :: S) < free g S := by
  unfold free
  apply countP_lt (a := n)
  · intro x hx; simp at hx ⊢; exact hx.2
  · simp [hl]
  · simp [hn]
  · simp

theorem free_nil_le (g : Graph) : free g [] ≤ g.length := by
  unfold free
  exact Nat.le_trans List.countP_le_length (by simp)

theorem sub_ok {g : Graph} {S : List Nat} {n d f : Nat} (h : free g S < f + 1) (hn : n ∉ S)
    (hd : d ∈ g.deps n) : free g (n :: S) < f := by
  have := free_push (g := g) hn (lt_of_mem_deps hd); omega

theorem evalPure_succ (g : Graph) (f : Nat) (S : List Nat) (n : Nat) :
    evalPure g (f + 1) S n =
      if n ∈ S then ([], true)
      else (n :: (((g.deps n).map (evalPure g f (n :: S))).map Prod.fst).flatten,
            ((g.deps n).map (evalPure g f (n :: S))).any Prod.snd) := rfl

/-- the fuel is immaterial once it suffices -/
theorem evalPure_fuel {g : Graph} : ∀ (f f' : Nat) (S : List Nat) (n : Nat),
    free g S < f → free g S < f' → evalPure g f S n = evalPure g f' S n := by
  intro f
  induction f with
  | zero => intro f' S n h; omega
  | succ f ih =>
    intro f' S n h h'
    cases f' with
    | zero => omega
    | succ f' =>
      simp only [evalPure_succ]
      split
      · rfl
      · rename_i hn
        have : (g.deps n).map (evalPure g f (n :: S)) = (g.deps n).map (evalPure g f' (n :: S)) :=
          List.map_congr_left (fun d hd => ih f' (n :: S) d (sub_ok h hn hd) (sub_ok h' hn hd))
        rw [this]

theorem evalPure_nocut_inv {g : Graph} {f : Nat} {S : List Nat} {n : Nat}
    (h : (evalPure g (f + 1) S n).2 = false) :
    n ∉ S ∧ ∀ d ∈ g.deps n, (evalPure g f (n :: S) d).2 = false := by
  rw [evalPure_succ] at h
  split at h
  · cases h
  · rename_i hn
    refine ⟨hn, ?_⟩
    simp only [List.any_map, List.any_eq_false] at h
    intro d hd
    simpa using h d hd

inductive Reach (g : Graph) : Nat → Nat → Prop
  | refl (n : Nat) : Reach g n n
  | step {n d x : Nat} : d ∈ g.deps n → Reach g d x → Reach g n x

theorem Reach.trans {g : Graph} {a b c : Nat} (h1 : Reach g a b) (h2 : Reach g b c) : Reach g a c := by
  induction h1 with
  | refl => exact h2
  | step hd _ ih => exact Reach.step hd (ih h2)

/-- an evaluation that fires no cut never meets a node in progress -/
theorem nocut_noreach {g : Graph} {n x : Nat} (hr : Reach g n x) :
    ∀ (f : Nat) (S : List Nat), free g S < f → (evalPure g f S n).2 = false → x ∉ S := by
  induction hr with
  | refl n =>
    intro f S hf h
    cases f with
    | zero => omega
    | succ f => exact (evalPure_nocut_inv h).1
  | step hd _ ih =>
    intro f S hf h
    cases f with
    | zero => omega
    | succ f =>
      have := evalPure_nocut_inv h
      have hx := ih f _ (sub_ok hf this.1 hd) (this.2 _ hd)
      exact fun hxS => hx (List.mem_cons_of_mem _ hxS)

/-- the part of the stack that cannot be reached does not matter -/
theorem evalPure_frame {g : Graph} : ∀ (f : Nat) (P S S' : List Nat) (n : Nat),
    free g (P ++ S) < f → free g (P ++ S') < f →
    (∀ x, Reach g n x → x ∉ S ∧ x ∉ S') →
    evalPure g f (P ++ S) n = evalPure g f (P ++ S') n := by
  intro f
  induction f with
  | zero => intro P S S' n h; omega
  | succ f ih =>
    intro P S S' n h h' hr
    have hn := hr n (Reach.refl n)
    simp only [evalPure_succ]
    by_cases hP : n ∈ P
    · simp [hP]
    · have h1 : n ∉ P ++ S := by simp [hP, hn.1]
      have h2 : n ∉ P ++ S' := by simp [hP, hn.2]
      simp only [h1, h2, if_false]
      have : (g.deps n).map (evalPure g f (n :: (P ++ S))) = (g.deps n).map (evalPure g f (n :: (P ++ S'))) :=
        List.map_congr_left (fun d hd => by
          have := ih (n :: P) S S' d (sub_ok h h1 hd) (sub_ok h' h2 hd)
            (fun x hx => hr x (Reach.step hd hx))
          simpa using this)
      rw [this]

/-- no cut is met when `n` is evaluated on its own -/
def Acyc (g : Graph) (n : Nat) : Prop := (evalPure g (g.length + 1) [] n).2 = false

instance (g : Graph) (n : Nat) : Decidable (Acyc g n) := by unfold Acyc; infer_instance

/-- the value of `n` evaluated on its own -/
def pv (g : Graph) (n : Nat) : Val := (evalPure g (g.length + 1) [] n).1

theorem evalPure_of_noreach {g : Graph} {f : Nat} {S : List Nat} {n : Nat} (hf : free g S < f)
    (hr : ∀ x, Reach g n x → x ∉ S) : evalPure g f S n = evalPure g (g.length + 1) [] n := by
  have h0 := free_nil_le g
  have e1 := evalPure_fuel f (f + g.length + 1) S n hf (by omega)
  have e2 := evalPure_frame (g := g) (f + g.length + 1) [] S [] n (by simpa using by omega)
    (by simpa using by omega) (fun x hx => ⟨hr x hx, by simp⟩)
  have e3 := evalPure_fuel (g := g) (f + g.length + 1) (g.length + 1) [] n (by omega) (by omega)
  simp only [List.nil_append] at e2
  rw [e1, e2, e3]

theorem Acyc.dep_eval {g : Graph} {n d : Nat} (h : Acyc g n) (hd : d ∈ g.deps n) :
    evalPure g g.length [n] d = evalPure g (g.length + 1) [] d ∧ (evalPure g g.length [n] d).2 = false
      ∧ ¬ Reach g d n := by
  have hi := evalPure_nocut_inv h
  have hcut := hi.2 d hd
  have hfuel : free g [n] < g.length :=
    sub_ok (Nat.lt_succ_of_le (free_nil_le g)) hi.1 hd
  have hnr : ∀ x, Reach g d x → x ∉ [n] := fun x hx => nocut_noreach hx _ _ hfuel hcut
  exact ⟨evalPure_of_noreach hfuel hnr, hcut, fun hr => hnr n hr (by simp)⟩

theorem Acyc.dep {g : Graph} {n d : Nat} (h : Acyc g n) (hd : d ∈ g.deps n) : Acyc g d := by
  have := h.dep_eval hd
  unfold Acyc; rw [← this.1]; exact this.2.1

theorem Acyc.reach {g : Graph} {n x : Nat} (h : Acyc g n) (hr : Reach g n x) : Acyc g x := by
  induction hr with
  | refl => exact h
  | step hd _ ih => exact ih (h.dep hd)

theorem Acyc.pv_eq {g : Graph} {n : Nat} (h : Acyc g n) :
    pv g n = n :: ((g.deps n).map (pv g)).flatten := by
  have hi := evalPure_nocut_inv h
  unfold pv
  rw [evalPure_succ, if_neg hi.1]
  simp only [List.map_map]
  congr 2
  apply List.map_congr_left
  intro d hd
  simp [Function.comp, (h.dep_eval hd).1]

/-- the in-progress stack is a path of the graph that leads to the node evaluated -/
def Chain (g : Graph) : List Nat → Nat → Prop
  | [], _ => True
  | s :: S, m => m ∈ g.deps s ∧ Chain g S s

theorem Chain.reach {g : Graph} : ∀ {S : List Nat} {m x : Nat}, Chain g S m → x ∈ S →
    ∃ d ∈ g.deps x, Reach g d m := by
  intro S
  induction S with
  | nil => intro m x _ hx; cases hx
  | cons s S ih =>
    intro m x hc hx
    rcases List.mem_cons.1 hx with rfl | hx
    · exact ⟨m, hc.1, Reach.refl m⟩
    · obtain ⟨d, hd, hr⟩ := ih hc.2 hx
      exact ⟨d, hd, hr.trans (Reach.step hc.1 (Reach.refl m))⟩

/-- an acyclic node reaches nothing that is in progress -/
theorem Acyc.noreach {g : Graph} {S : List Nat} {m x : Nat} (h : Acyc g m) (hc : Chain g S m)
    (hr : Reach g m x) : x ∉ S := by
  intro hx
  obtain ⟨d, hd, hdm⟩ := hc.reach hx
  exact ((h.reach hr).dep_eval hd).2.2 (hdm.trans hr)

theorem Acyc.eval {g : Graph} {S : List Nat} {m f : Nat} (h : Acyc g m) (hc : Chain g S m)
    (hf : free g S < f) : evalPure g f S m = (pv g m, false) := by
  rw [evalPure_of_noreach hf (fun x hx => h.noreach hc hx)]
  exact Prod.ext rfl h

end SuppModel.EvalMemo
