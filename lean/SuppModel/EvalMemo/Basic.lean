/-
  EvalMemo — the cache discipline of the attribute evaluator (supp/util.py `cycle_guard`,
  `cached_property`, `context_property`; supp/evaluator.py `EvalCtx.__init__`, `EvalCtx.evaluate`),
  over an arbitrary dependency graph.  Core Lean only.

  Nodes are natural numbers.  A graph gives node `i` the list `g[i]` of nodes it evaluates, in order
  (nodes `≥ g.length` have no dependencies).  The value of a node is the list
      n :: v(d₁) ++ v(d₂) ++ …
  of node ids met, where a dependency that is CUT (it is already being evaluated further up:
  `node in self.nodes`) contributes `[]` (Python: `None`).  So a cut visibly loses information and
  which part is lost depends on where the evaluation started.

  * `evalPure`   — no cache at all: the value of `n` under an in-progress stack, and whether a cut fired.
  * `evalM`      — `EvalCtx.evaluate` guard + `cycle_guard.cached` (final slot / provisional slot tagged
                   with the epoch / `fired` counter), state `St`.
  * `evalLegacy` — the same with `cachedLegacy`: every computed value is kept for good (before 265f3e6).
  * `request`    — `EvalCtx(project)` (epoch bump) + `evaluate(n)` with an empty in-progress set.
  * `runHistory` — a sequence of requests on one long-lived state.

  Recursion is structural on a fuel argument.  A call needs `free g stack < fuel`
  (`free` = number of graph nodes not in progress); `request` supplies `g.length + 1`, which is
  enough (`EvalMemo/Lemmas*.lean`), and the fuel-exhausted branch (treated like a cut) is unreachable.
-/
namespace SuppModel.EvalMemo

abbrev Val := List Nat
abbrev Graph := List (List Nat)

def Graph.deps (g : Graph) (n : Nat) : List Nat := g.getD n []

/-- graph nodes that are not in progress: the recursion depth still available -/
def free (g : Graph) (stack : List Nat) : Nat :=
  (List.range g.length).countP (fun x => decide (x ∉ stack))

/-! ### no cache -/

def evalPure (g : Graph) : Nat → List Nat → Nat → Val × Bool
  | 0, _, _ => ([], true)
  | f + 1, stack, n =>
    if n ∈ stack then ([], true)
    else
      let rs := (g.deps n).map (evalPure g f (n :: stack))
      (n :: (rs.map Prod.fst).flatten, rs.any Prod.snd)

/-! ### the cache discipline -/

structure St where
  /-- `store[name]`: kept for good -/
  fin : Nat → Option Val
  /-- `store['_provisional'][name] = (epoch, value)` -/
  prov : Nat → Option (Nat × Val)
  /-- `cycle_guard.fired` -/
  fired : Nat
  /-- `cycle_guard.epoch` -/
  epoch : Nat

def St.empty : St := ⟨fun _ => none, fun _ => none, 0, 0⟩

def upd {α : Type} (m : Nat → Option α) (k : Nat) (v : α) : Nat → Option α :=
  fun x => if x = k then some v else m x

def St.fire (s : St) : St := ⟨s.fin, s.prov, s.fired + 1, s.epoch⟩
def St.setFin (s : St) (n : Nat) (v : Val) : St := ⟨upd s.fin n v, s.prov, s.fired, s.epoch⟩
def St.setProv (s : St) (n : Nat) (v : Val) : St := ⟨s.fin, upd s.prov n (s.epoch, v), s.fired, s.epoch⟩
def St.bump (s : St) : St := ⟨s.fin, s.prov, s.fired, s.epoch + 1⟩

/-- the provisional value usable now: `hit is not None and hit[0] == cycle_guard.epoch` -/
def St.curProv (s : St) (n : Nat) : Option Val :=
  match s.prov n with
  | some (e, v) => if e = s.epoch then some v else none
  | none => none

/-- the body of `compute`: evaluate the dependencies in order, threading the state -/
def depsM (ev : Nat → St → Val × St) : List Nat → St → Val × St
  | [], s => ([], s)
  | d :: ds, s =>
    let r := ev d s
    let r2 := depsM ev ds r.2
    (r.1 ++ r2.1, r2.2)

/-- the tail of `cycle_guard.cached` after `compute()` returned `v` in state `s1`;
    `fired0` is the counter read before -/
def store (fired0 : Nat) (n : Nat) (v : Val) (s1 : St) : St :=
  if s1.fired = fired0 then s1.setFin n v else s1.setProv n v

def evalM (g : Graph) : Nat → List Nat → Nat → St → Val × St
  | 0, _, _, s => ([], s.fire)
  | f + 1, stack, n, s =>
    if n ∈ stack then ([], s.fire)                       -- EvalCtx.evaluate: node in self.nodes
    else match s.fin n with
      | some v => (v, s)                                 -- return store[name]
      | none =>
        match s.curProv n with
        | some v => (v, s.fire)                          -- provisional hit of this epoch
        | none =>
          let r := depsM (evalM g f (n :: stack)) (g.deps n) s
          (n :: r.1, store s.fired n (n :: r.1) r.2)

def requestF (g : Graph) (fuel : Nat) (s : St) (n : Nat) : Val × St :=
  evalM g fuel [] n s.bump

def request (g : Graph) (s : St) (n : Nat) : Val × St := requestF g (g.length + 1) s n

def runHistory (g : Graph) (h : List Nat) (s : St) : St :=
  h.foldl (fun s n => (request g s n).2) s

/-- the answers of a history, request by request -/
def answers (g : Graph) : List Nat → St → List Val
  | [], _ => []
  | n :: h, s => let r := request g s n; r.1 :: answers g h r.2

/-! ### before 265f3e6: everything computed is kept for good -/

def evalLegacy (g : Graph) : Nat → List Nat → Nat → St → Val × St
  | 0, _, _, s => ([], s.fire)
  | f + 1, stack, n, s =>
    if n ∈ stack then ([], s.fire)
    else match s.fin n with
      | some v => (v, s)
      | none =>
        let r := depsM (evalLegacy g f (n :: stack)) (g.deps n) s
        (n :: r.1, r.2.setFin n (n :: r.1))

def requestLegacy (g : Graph) (s : St) (n : Nat) : Val × St :=
  evalLegacy g (g.length + 1) [] n s.bump

def runHistoryLegacy (g : Graph) (h : List Nat) (s : St) : St :=
  h.foldl (fun s n => (requestLegacy g s n).2) s

end SuppModel.EvalMemo
