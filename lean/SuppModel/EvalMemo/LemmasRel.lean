/-
  EvalMemo — two runs of the same evaluation from states that differ only in what is kept for good
  (and in stale provisional slots, counters, epoch numbers) give the same value, move the counter by the
  same amount and write the same provisional slots.
-/
import SuppModel.EvalMemo.LemmasMemo
namespace SuppModel.EvalMemo

structure Sim (s s' : St) (r r' : Val × St) : Prop where
  val : r.1 = r'.1
  delta : r.2.fired + s'.fired = r'.2.fired + s.fired
  prov : r.2.curProv = r'.2.curProv

theorem fold_sim {g : Graph} {f : Nat} {S : List Nat} {ev : Nat → St → Val × St} :
    ∀ (ds : List Nat),
    (∀ d ∈ ds, ∀ s, Inv g s → Spec g f S d s (ev d s)) →
    (∀ d ∈ ds, ∀ s s', Inv g s → Inv g s' → s.curProv = s'.curProv → Sim s s' (ev d s) (ev d s')) →
    ∀ s s', Inv g s → Inv g s' → s.curProv = s'.curProv → Sim s s' (depsM ev ds s) (depsM ev ds s') := by
  intro ds
  induction ds with
  | nil => intro _ _ s s' _ _ hp; exact ⟨rfl, Nat.add_comm _ _, hp⟩
  | cons d ds ih =>
    intro hspec hsim s s' hs hs' hp
    have h1 := hsim d (by simp) s s' hs hs' hp
    have i1 := (hspec d (by simp) s hs).inv
    have i1' := (hspec d (by simp) s' hs').inv
    have h2 := ih (fun d' hd' => hspec d' (List.mem_cons_of_mem _ hd'))
      (fun d' hd' => hsim d' (List.mem_cons_of_mem _ hd')) _ _ i1 i1' h1.prov
    simp only [depsM]
    refine ⟨by rw [h1.val, h2.val], ?_, h2.prov⟩
    have := h1.delta; have := h2.delta
    simp only; omega

theorem sim {g : Graph} : ∀ (f : Nat) (S : List Nat) (n : Nat) (s s' : St),
    free g S < f → Chain g S n → Inv g s → Inv g s' → s.curProv = s'.curProv →
    Sim s s' (evalM g f S n s) (evalM g f S n s') := by
  intro f
  induction f with
  | zero => intro S n s s' h; omega
  | succ f ih =>
    intro S n s s' hf hc hs hs' hp
    have G := good (f + 1) S n s hf hc hs
    have G' := good (f + 1) S n s' hf hc hs'
    by_cases hn : n ∈ S
    · simp only [evalM_succ, if_pos hn]
      exact ⟨rfl, by simp only [St.fire]; omega, by simpa using hp⟩
    cases hfin : s.fin n with
    | some v =>
      have hv := hs.fin_acyc hfin
      have a' := G'.acyc hv.1
      have e : evalM g (f + 1) S n s = (v, s) := by simp only [evalM_succ, if_neg hn, hfin]
      rw [e]
      exact ⟨by rw [a'.1]; exact hv.2, by rw [a'.2.1]; exact Nat.add_comm _ _, by rw [a'.2.2]; exact hp⟩
    | none =>
      cases hfin' : s'.fin n with
      | some v' =>
        have hv := hs'.fin_acyc hfin'
        have a := G.acyc hv.1
        have e : evalM g (f + 1) S n s' = (v', s') := by simp only [evalM_succ, if_neg hn, hfin']
        rw [e]
        exact ⟨by rw [a.1]; exact hv.2.symm, by rw [a.2.1]; exact Nat.add_comm _ _, by rw [a.2.2]; exact hp⟩
      | none =>
        have hpn : s'.curProv n = s.curProv n := by rw [hp]
        cases hcp : s.curProv n with
        | some v =>
          simp only [evalM_succ, if_neg hn, hfin, hfin', hpn, hcp]
          exact ⟨rfl, by simp only [St.fire]; omega, by simpa using hp⟩
        | none =>
          simp only [evalM_succ, if_neg hn, hfin, hfin', hpn, hcp]
          have hspec : ∀ d ∈ g.deps n, ∀ s, Inv g s → Spec g f (n :: S) d s (evalM g f (n :: S) d s) :=
            fun d hd s₁ h₁ => good f (n :: S) d s₁ (sub_ok hf hn hd) ⟨hd, hc⟩ h₁
          have hfold := fold_sim (g := g) (f := f) (S := n :: S) (ev := evalM g f (n :: S)) (g.deps n) hspec
            (fun d hd s₁ s₂ h₁ h₂ h₁₂ => ih (n :: S) d s₁ s₂ (sub_ok hf hn hd) ⟨hd, hc⟩ h₁ h₂ h₁₂)
            s s' hs hs' hp
          generalize depsM (evalM g f (n :: S)) (g.deps n) s = r at hfold
          generalize depsM (evalM g f (n :: S)) (g.deps n) s' = r' at hfold
          have hd := hfold.delta
          unfold store
          by_cases hfd : r.2.fired = s.fired
          · have hfd' : r'.2.fired = s'.fired := by omega
            rw [if_pos hfd, if_pos hfd']
            exact ⟨by rw [hfold.val], by simp only [St.setFin]; omega, by simpa using hfold.prov⟩
          · have hfd' : ¬ r'.2.fired = s'.fired := by omega
            rw [if_neg hfd, if_neg hfd']
            refine ⟨by rw [hfold.val], by simp only [St.setProv]; omega, ?_⟩
            funext x
            rw [curProv_setProv, curProv_setProv, hfold.val, hfold.prov]

/-- the answer to a request does not depend on the state the project is in -/
theorem request_indep {g : Graph} {f : Nat} (hf : g.length < f) {s s' : St} (hs : Inv g s) (hs' : Inv g s')
    (n : Nat) : (requestF g f s n).1 = (requestF g f s' n).1 := by
  have hp : s.bump.curProv = s'.bump.curProv := by
    funext x; rw [curProv_bump hs, curProv_bump hs']
  exact (sim f [] n s.bump s'.bump (Nat.lt_of_le_of_lt (free_nil_le g) hf) trivial hs.bump hs'.bump hp).val

/-- the fuel is immaterial once it exceeds the number of graph nodes -/
theorem evalM_fuel {g : Graph} : ∀ (f f' : Nat) (S : List Nat) (n : Nat) (s : St),
    free g S < f → free g S < f' → evalM g f S n s = evalM g f' S n s := by
  intro f
  induction f with
  | zero => intro f' S n s h; omega
  | succ f ih =>
    intro f' S n s h h'
    cases f' with
    | zero => omega
    | succ f' =>
      simp only [evalM_succ]
      split
      · rfl
      · rename_i hn
        have : ∀ (ds : List Nat), (∀ d ∈ ds, d ∈ g.deps n) → ∀ s,
            depsM (evalM g f (n :: S)) ds s = depsM (evalM g f' (n :: S)) ds s := by
          intro ds
          induction ds with
          | nil => intro _ _; rfl
          | cons d ds ihd =>
            intro hds s
            simp only [depsM]
            rw [ih f' (n :: S) d s (sub_ok h hn (hds d (by simp))) (sub_ok h' hn (hds d (by simp))),
              ihd (fun d' hd' => hds d' (List.mem_cons_of_mem _ hd'))]
        rw [this (g.deps n) (fun _ h => h) s]

end SuppModel.EvalMemo
