/-
  The methods of `Server` (supp/server.py:34-69) as an `Api`, over a parameter `Lib`:
  the supp library and CPython themselves (what `Project(...)`, `assistant.assist`,
  `assistant.location`, `linter.lint`, `exec` do; what `getattr` / argument binding raise).

  State of the server object: `ω × Bool` — `ω` is everything mutable in the server process
  (the project's caches, the files, the interpreter's globals, the log), the `Bool` is
  "`self.project` exists" (it does not before the first successful `configure`).

  Modelled here, exactly as written in server.py:
    * dispatch by method name; the five methods with their positional call shapes;
    * `configure` replaces the project (and leaves the old one when the constructor raises);
    * `self.project` missing -> AttributeError inside `process` -> reported, not fatal;
    * `nstr(source)` (bytes -> str), `tuple(position)`, `[r[:4] for r in lint(...)]`.
    * CPython's binding of positional and keyword arguments to the methods' parameters.
  Every other call (unknown name, binding failure, a position that is not a list,
  undecodable bytes) goes to `Lib.other`, which may do anything CPython does for it.
-/
import SuppModel.Rpc.Model

namespace SuppModel.Rpc
open SuppModel.Msgpack

structure Lib (ω : Type) where
  /-- `Project(config['sources'], dyn_modules=config.get('dyn_modules'))`; `some (cls, msg)` = raised -/
  newProject : ω → Value → ω × Option (Value × Value)
  /-- `with project.check_changes(): return assistant.assist(project, source, position, filename)` -/
  assist : ω → Value → Value → Value → ω × ApiResult
  location : ω → Value → Value → Value → ω × ApiResult
  /-- `linter.lint(project, source, filename)`: a list of tuples, or raised -/
  lint : ω → Value → Value → ω × Except (Value × Value) (List (List Value))
  /-- the body of `Server.eval` on the source text -/
  eval : ω → Value → ω × ApiResult
  /-- `self.project` when the attribute does not exist: AttributeError -/
  noProject : ω → ω × ApiResult
  /-- any other call: `getattr` failing, argument binding failing, other attributes of `Server` -/
  other : ω × Bool → Value → Value → Value → (ω × Bool) × ApiResult

def sAssist : Bytes := [97, 115, 115, 105, 115, 116]
def sLocation : Bytes := [108, 111, 99, 97, 116, 105, 111, 110]
def sLint : Bytes := [108, 105, 110, 116]
def sEval : Bytes := [101, 118, 97, 108]
def sConfigure : Bytes := [99, 111, 110, 102, 105, 103, 117, 114, 101]

/-- `nstr` (compat.py, Python 3): `bytes` that decode become `str`; `none` = `decode()` raises -/
def nstr : Value → Option Value
  | .bin b => if validUtf8 b then some (.str b) else none
  | v => some v

/-- `tuple(position)` for the sequence types (`none`: other iterables / TypeError, left to `Lib.other`) -/
def asTuple : Value → Option Value
  | .arr xs => some (.tup xs)
  | .tup xs => some (.tup xs)
  | _ => none

/-- `[r[:4] for r in result]` -/
def trim4 (rs : List (List Value)) : Value := .arr (rs.map (fun r => .tup (r.take 4)))

/-- `self.project = Project(...)`: a constructor that raises leaves the old project (if any) -/
def afterConfigure {ω} (hasProject : Bool) : ω × Option (Value × Value) → (ω × Bool) × ApiResult
  | (w', none) => ((w', true), .ok .nil)
  | (w', some (c, m)) => ((w', hasProject), .raised c m)

/-- `return [r[:4] for r in linter.lint(...)]` -/
def afterLint {ω} (hasProject : Bool) : ω × Except (Value × Value) (List (List Value)) → (ω × Bool) × ApiResult
  | (w', .ok rs) => ((w', hasProject), .ok (trim4 rs))
  | (w', .error (c, m)) => ((w', hasProject), .raised c m)

/-! ### CPython's argument binding for a method `def m(self, p1, ..., pn=default)` -/

def pSource : Bytes := [115, 111, 117, 114, 99, 101]
def pPosition : Bytes := [112, 111, 115, 105, 116, 105, 111, 110]
def pFilename : Bytes := [102, 105, 108, 101, 110, 97, 109, 101]
def pSyntaxOnly : Bytes := [115, 121, 110, 116, 97, 120, 95, 111, 110, 108, 121]
def pConfig : Bytes := [99, 111, 110, 102, 105, 103]

def lookupKw : List (Value × Value) → Bytes → Option Value
  | [], _ => none
  | (.str k, v) :: rest, p => if k == p then some v else lookupKw rest p
  | _ :: rest, p => lookupKw rest p

/-- the parameters not given positionally: keyword argument, else default, else binding fails -/
def fillRest : List (Bytes × Option Value) → List (Value × Value) → Option (List Value)
  | [], _ => some []
  | (p, d) :: ps, kw =>
    match (match lookupKw kw p with | some v => some v | none => d), fillRest ps kw with
    | some v, some vs => some (v :: vs)
    | _, _ => none

/-- `none` = TypeError (too many positionals, unknown / duplicate / non-string keyword, missing argument) -/
def bindArgs (params : List (Bytes × Option Value)) (as : List Value) (kw : List (Value × Value)) :
    Option (List Value) :=
  if as.length > params.length then none
  else if !(kw.all (fun kv => match kv.1 with
      | .str s => (params.drop as.length).any (fun p => p.1 == s)
      | _ => false)) then none
  else (fillRest (params.drop as.length) kw).map (as ++ ·)

/-- `getattr(self, name)(*args, **kwargs)` for `self : Server` -/
def serverApply {ω} (lib : Lib ω) (st : ω × Bool) (name args kwargs : Value) : (ω × Bool) × ApiResult :=
  let (w, hasProject) := st
  match name, args, kwargs with
  | .str n, .arr as, .map kw =>
    if n == sConfigure then
      match bindArgs [(pConfig, none)] as kw with
      | some [cfg] => afterConfigure hasProject (lib.newProject w cfg)
      | _ => lib.other st name args kwargs
    else if n == sAssist || n == sLocation then
      match bindArgs [(pSource, none), (pPosition, none), (pFilename, none)] as kw with
      | some [s, p, f] =>
        if !hasProject then
          let (w', r) := lib.noProject w
          ((w', hasProject), r)
        else
          match nstr s, asTuple p with
          | some s', some p' =>
            let (w', r) := (if n == sAssist then lib.assist else lib.location) w s' p' f
            ((w', hasProject), r)
          | _, _ => lib.other st name args kwargs
      | _ => lib.other st name args kwargs
    else if n == sLint then
      match bindArgs [(pSource, none), (pFilename, none), (pSyntaxOnly, some (.bool false))] as kw with
      | some [s, f, _syntaxOnly] =>                                  -- `syntax_only` is ignored by the server
        if !hasProject then
          let (w', r) := lib.noProject w
          ((w', hasProject), r)
        else
          match nstr s with
          | some s' => afterLint hasProject (lib.lint w s' f)
          | none => lib.other st name args kwargs
      | _ => lib.other st name args kwargs
    else if n == sEval then
      match bindArgs [(pSource, none)] as kw with
      | some [s] =>
        match nstr s with
        | some s' =>
          let (w', r) := lib.eval w s'
          ((w', hasProject), r)
        | none => lib.other st name args kwargs
      | _ => lib.other st name args kwargs
    else lib.other st name args kwargs
  | _, _, _ => lib.other st name args kwargs

def serverApi {ω} (lib : Lib ω) : Api (ω × Bool) := ⟨serverApply lib⟩

/-! ### the same calls made directly on the library (the in-process API of the property) -/

/-- the documented client-side argument types: `source` a `str`, `position` a tuple of atoms
    (no nested tuple), `filename` anything without tuples -/
def docArgs (s p f : Value) : Bool :=
  (match s with | .str _ => true | _ => false) &&
  (match p with | .tup xs => tupFreeList xs | _ => false) &&
  tupFree f

end SuppModel.Rpc
