/-
  The methods of `Server` (supp/server.py:34-69) as an `Api`, over a parameter `Lib`:
  the supp library and CPython themselves (what `Project(...)`, `assistant.assist`,
  `assistant.location`, `linter.lint`, `exec` do; what `getattr` / argument binding raise).

  State of the server object: `ω × Bool` — `ω` is everything mutable in the server process
  (the project's caches, the files, the interpreter's globals, the log), the `Bool` is
  "`self.project` exists" (it does not before the first successful `configure`).

  Modelled here, exactly as written in server.py:
    * dispatch by method name; the five methods with their positional call shapes;
    * `configure` replaces the project (and leaves the old one when the constructor raises);
    * `self.project` missing -> AttributeError inside `process` -> reported, not fatal;
    * `nstr(source)` (bytes -> str), `tuple(position)`, `[r[:4] for r in lint(...)]`.
  Every other call shape (unknown name, wrong arity, keyword arguments, a position that is
  not a list, undecodable bytes) goes to `Lib.other`, which may do anything CPython does for it.
-/
import SuppModel.Rpc.Model

namespace SuppModel.Rpc
open SuppModel.Msgpack

structure Lib (ω : Type) where
  /-- `Project(config['sources'], dyn_modules=config.get('dyn_modules'))`; `some (cls, msg)` = raised -/
  newProject : ω → Value → ω × Option (Value × Value)
  /-- `with project.check_changes(): return assistant.assist(project, source, position, filename)` -/
  assist : ω → Value → Value → Value → ω × ApiResult
  location : ω → Value → Value → Value → ω × ApiResult
  /-- `linter.lint(project, source, filename)`: a list of tuples, or raised -/
  lint : ω → Value → Value → ω × Except (Value × Value) (List (List Value))
  /-- the body of `Server.eval` on the source text -/
  eval : ω → Value → ω × ApiResult
  /-- `self.project` when the attribute does not exist: AttributeError -/
  noProject : ω → ω × ApiResult
  /-- any other call: `getattr` failing, argument binding failing, other attributes of `Server` -/
  other : ω × Bool → Value → Value → Value → (ω × Bool) × ApiResult

def sAssist : Bytes := [97, 115, 115, 105, 115, 116]
def sLocation : Bytes := [108, 111, 99, 97, 116, 105, 111, 110]
def sLint : Bytes := [108, 105, 110, 116]
def sEval : Bytes := [101, 118, 97, 108]
def sConfigure : Bytes := [99, 111, 110, 102, 105, 103, 117, 114, 101]

/-- `nstr` (compat.py, Python 3): `bytes` that decode become `str`; `none` = `decode()` raises -/
def nstr : Value → Option Value
  | .bin b => if validUtf8 b then some (.str b) else none
  | v => some v

/-- `tuple(position)` for the sequence types (`none`: other iterables / TypeError, left to `Lib.other`) -/
def asTuple : Value → Option Value
  | .arr xs => some (.tup xs)
  | .tup xs => some (.tup xs)
  | _ => none

/-- `[r[:4] for r in result]` -/
def trim4 (rs : List (List Value)) : Value := .arr (rs.map (fun r => .tup (r.take 4)))

/-- `getattr(self, name)(*args, **kwargs)` for `self : Server` -/
def serverApply {ω} (lib : Lib ω) (st : ω × Bool) (name args kwargs : Value) : (ω × Bool) × ApiResult :=
  let (w, hasProject) := st
  match name, args, kwargs with
  | .str n, .arr as, .map [] =>
    if n == sConfigure then
      match as with
      | [cfg] =>
        match lib.newProject w cfg with
        | (w', none) => ((w', true), .ok .nil)                     -- `self.project = Project(...)`
        | (w', some (c, m)) => ((w', hasProject), .raised c m)     -- old project (if any) stays
      | _ => lib.other st name args kwargs
    else if n == sAssist || n == sLocation then
      match as with
      | [s, p, f] =>
        if !hasProject then
          let (w', r) := lib.noProject w
          ((w', hasProject), r)
        else
          match nstr s, asTuple p with
          | some s', some p' =>
            let (w', r) := (if n == sAssist then lib.assist else lib.location) w s' p' f
            ((w', hasProject), r)
          | _, _ => lib.other st name args kwargs
      | _ => lib.other st name args kwargs
    else if n == sLint then
      let go (s f : Value) : (ω × Bool) × ApiResult :=
        if !hasProject then
          let (w', r) := lib.noProject w
          ((w', hasProject), r)
        else
          match nstr s with
          | some s' =>
            match lib.lint w s' f with
            | (w', .ok rs) => ((w', hasProject), .ok (trim4 rs))
            | (w', .error (c, m)) => ((w', hasProject), .raised c m)
          | none => lib.other st name args kwargs
      match as with
      | [s, f] => go s f
      | [s, f, _syntaxOnly] => go s f                               -- `syntax_only` is ignored by the server
      | _ => lib.other st name args kwargs
    else if n == sEval then
      match as with
      | [s] =>
        match nstr s with
        | some s' =>
          let (w', r) := lib.eval w s'
          ((w', hasProject), r)
        | none => lib.other st name args kwargs
      | _ => lib.other st name args kwargs
    else lib.other st name args kwargs
  | _, _, _ => lib.other st name args kwargs

def serverApi {ω} (lib : Lib ω) : Api (ω × Bool) := ⟨serverApply lib⟩

/-! ### the same calls made directly on the library (the in-process API of the property) -/

/-- the documented client-side argument types: `source` a `str`, `position` a tuple of atoms
    (no nested tuple), `filename` anything without tuples -/
def docArgs (s p f : Value) : Bool :=
  (match s with | .str _ => true | _ => false) &&
  (match p with | .tup xs => tupFreeList xs | _ => false) &&
  tupFree f

end SuppModel.Rpc
