/-
  Helper lemmas for property C15 (remote calls).  Everything about bytes comes from the
  C14 theorems (`C14_roundtrip`): the request survives the wire, the reply survives the wire.
-/
import SuppModel.Rpc.Server
import SuppModel.Props.C14

namespace SuppModel.Rpc
open SuppModel.Msgpack SuppModel.Props.C14
set_option linter.unusedSimpArgs false
set_option linter.unusedVariables false

/-! ### small facts -/

theorem isClose_normV (x : Value) : isClose (normV x) = isClose x := by
  cases x <;> simp [normV, isClose]

theorem normV_wire (r : Req) :
    normV r.wire = .arr [normV r.name, normV (.tup r.args), normV (.map r.kwargs)] := by
  simp [Req.wire, normV, normList]

def okFlag : ApiResult → Bool
  | .ok _ => true
  | .raised _ _ => false

theorem resultPair_eq (r : ApiResult) : resultPair r = .tup [payload r, .bool (okFlag r)] := by
  cases r <;> rfl

theorem wf_pair (p : Value) (b : Bool) : wf (.tup [p, .bool b]) = wf p := by
  simp [wf, wfList]

theorem wf_fallback : wf fallback = true := by decide

/-- `dumps` raising on a component makes `dumps` of the pair raise -/
theorem dumps_pair_error (p q : Value) (h : unser p = true) : ∃ e, dumps (.tup [p, q]) = .error e := by
  unfold unser at h
  cases hp : dumps p with
  | ok bs => rw [hp] at h; cases h
  | error e =>
    simp only [dumps] at hp
    simp only [dumps, pack, packList, hp]
    cases Generated.packArrayHeader (intLen [p, q]) with
    | error e' => exact ⟨e', rfl⟩
    | ok hd => exact ⟨e, rfl⟩

theorem wf_not_unser (v : Value) (h : wf v = true) : unser v = false := by
  obtain ⟨bs, hd, _⟩ := C14_roundtrip v h
  simp [unser, hd]

/-! ### the reply crosses the wire -/

theorem clientDecode_of_loads (bs : Bytes) (v : Value) (h : loads bs = .ok v) :
    clientDecode bs = decodePair v := by
  simp [clientDecode, h]

theorem reply_lemma (r : ApiResult) (h : resOK r = true) :
    ∃ bs, encodeReply (resultPair r) = .ok bs ∧ clientDecode bs = expected r := by
  by_cases hw : wf (payload r) = true
  · -- serialisable: the pair itself round-trips
    have hwp : wf (resultPair r) = true := by rw [resultPair_eq, wf_pair]; exact hw
    obtain ⟨bs, hd, hl⟩ := C14_roundtrip _ hwp
    refine ⟨bs, by simp [encodeReply, hd], ?_⟩
    cases r with
    | ok v =>
      have hl' : loads bs = .ok (.arr [normV v, .bool true]) := by
        simpa [resultPair, normV, normList] using hl
      rw [clientDecode_of_loads bs _ hl']
      simp [decodePair, raiseFrom, truthy, expected, payload] at hw ⊢
      simp [hw]
    | raised c m =>
      have hl' : loads bs = .ok (.arr [.arr [normV c, normV m], .bool false]) := by
        simpa [resultPair, normV, normList] using hl
      rw [clientDecode_of_loads bs _ hl']
      simp [decodePair, raiseFrom, truthy, expected, payload] at hw ⊢
      simp [hw]
  · -- not serialisable: `dumps` raises, the fallback reply is sent
    have hu : unser (payload r) = true := by
      simp only [resOK, Bool.or_eq_true] at h
      rcases h with h | h
      · exact absurd h hw
      · exact h
    obtain ⟨e, he⟩ := dumps_pair_error (payload r) (.bool (okFlag r)) hu
    obtain ⟨bs, hd, hl⟩ := C14_roundtrip fallback wf_fallback
    refine ⟨bs, by simp [encodeReply, resultPair_eq, he, hd], ?_⟩
    have hl' : loads bs = .ok (.arr [.arr [.str serErrCls, .str serErrMsg], .bool false]) := by
      simpa [fallback, normV, normList] using hl
    rw [clientDecode_of_loads bs _ hl']
    simp [decodePair, raiseFrom, truthy, expected, hw]

/-! ### the request crosses the wire -/

theorem request_lemma (r : Req) (h : wf r.wire = true) :
    ∃ bs, dumps r.wire = .ok bs ∧
      loads bs = .ok (.arr [normV r.name, normV (.tup r.args), normV (.map r.kwargs)]) := by
  obtain ⟨bs, hd, hl⟩ := C14_roundtrip _ h
  exact ⟨bs, hd, by rw [hl, normV_wire]⟩

/-- the server's step on the bytes of a data-model request that is not `close` -/
theorem serverStep_request {σ} (api : Api σ) (st : σ) (r : Req) (bs : Bytes)
    (hr : reqOK r = true) (hd : dumps r.wire = .ok bs)
    (hres : resOK (inprocStep api st r).2 = true) :
    ∃ rb, serverStep api st (some bs) = ⟨(inprocStep api st r).1, some rb, none⟩ ∧
      clientDecode rb = expected (inprocStep api st r).2 := by
  simp only [reqOK, Bool.and_eq_true, Bool.not_eq_true'] at hr
  obtain ⟨bs', hd', hl⟩ := request_lemma r hr.1
  rw [hd] at hd'
  cases hd'
  obtain ⟨rb, he, hc⟩ := reply_lemma _ hres
  refine ⟨rb, ?_, hc⟩
  have hcl : isClose (normV r.name) = false := by rw [isClose_normV]; exact hr.2
  simp only [inprocStep] at he ⊢
  simp only [serverStep, hl, serverHandle, hcl, process, he]
  simp

theorem clientCall_lemma {σ} (api : Api σ) (st : σ) (r : Req)
    (hr : reqOK r = true) (hres : resOK (inprocStep api st r).2 = true) :
    clientCall api st r = ((inprocStep api st r).1, none, expected (inprocStep api st r).2) := by
  have hw : wf r.wire = true := by
    simp only [reqOK, Bool.and_eq_true] at hr; exact hr.1
  obtain ⟨bs, hd, _⟩ := request_lemma r hw
  obtain ⟨rb, hs, hc⟩ := serverStep_request api st r bs hr hd hres
  unfold clientCall
  rw [hd]
  show (_, _, _) = _
  rw [hs]
  simp only [hc]

/-! ### sequences -/

theorem inproc_cons {σ} (api : Api σ) (st : σ) (r : Req) (rs : List Req) :
    inproc api st (r :: rs) =
      ((inprocStep api st r).2 :: (inproc api (inprocStep api st r).1 rs).1,
       (inproc api (inprocStep api st r).1 rs).2) := by
  simp [inproc]

theorem inproc_append {σ} (api : Api σ) (st : σ) (xs ys : List Req) :
    inproc api st (xs ++ ys) =
      ((inproc api st xs).1 ++ (inproc api (inproc api st xs).2 ys).1,
       (inproc api (inproc api st xs).2 ys).2) := by
  induction xs generalizing st with
  | nil => simp [inproc]
  | cons x xs ih => simp [inproc_cons, ih]

theorem inproc_length {σ} (api : Api σ) (st : σ) (rs : List Req) :
    (inproc api st rs).1.length = rs.length := by
  induction rs generalizing st with
  | nil => simp [inproc]
  | cons x xs ih => simp [inproc_cons, ih]

/-- the whole session equals the in-process run: replies, final state, server still in its loop -/
theorem session_lemma {σ} (api : Api σ) (st : σ) (rs : List Req)
    (hr : ∀ r ∈ rs, reqOK r = true)
    (hres : ∀ x ∈ (inproc api st rs).1, resOK x = true) :
    session api st rs = ((inproc api st rs).1.map expected, (inproc api st rs).2, none) := by
  induction rs generalizing st with
  | nil => simp [session, inproc]
  | cons r rs ih =>
    rw [inproc_cons] at hres ⊢
    have h1 : resOK (inprocStep api st r).2 = true := hres _ (by simp)
    have hc := clientCall_lemma api st r (hr r (by simp)) h1
    have ih' := ih (inprocStep api st r).1 (fun q hq => hr q (by simp [hq]))
      (fun x hx => hres x (by simp [hx]))
    simp [session, hc, ih']

theorem serverRun_lemma {σ} (api : Api σ) (st : σ) (rs : List Req) (bss : List Bytes)
    (henc : Encoded rs bss)
    (hr : ∀ r ∈ rs, reqOK r = true)
    (hres : ∀ x ∈ (inproc api st rs).1, resOK x = true) :
    ∃ reps, serverRun api st (bss.map some) = (reps, (inproc api st rs).2, none) ∧
      reps.map clientDecode = (inproc api st rs).1.map expected := by
  induction rs generalizing st bss with
  | nil =>
    cases bss with
    | nil => exact ⟨[], by simp [serverRun, inproc], by simp [inproc]⟩
    | cons b bs => simp [Encoded] at henc
  | cons r rs ih =>
    cases bss with
    | nil => simp [Encoded] at henc
    | cons b bs =>
      simp only [Encoded] at henc
      rw [inproc_cons] at hres ⊢
      have h1 : resOK (inprocStep api st r).2 = true := hres _ (by simp)
      obtain ⟨rb, hs, hc⟩ := serverStep_request api st r b (hr r (by simp)) henc.1 h1
      obtain ⟨reps, hrun, hdec⟩ := ih (inprocStep api st r).1 bs henc.2
        (fun q hq => hr q (by simp [hq])) (fun x hx => hres x (by simp [hx]))
      refine ⟨rb :: reps, ?_, by simp [hc, hdec]⟩
      simp [serverRun, hs, hrun]

/-- every data-model request list has an encoding -/
theorem encoded_exists (rs : List Req) (hr : ∀ r ∈ rs, reqOK r = true) : ∃ bss, Encoded rs bss := by
  induction rs with
  | nil => exact ⟨[], trivial⟩
  | cons r rs ih =>
    have hw : wf r.wire = true := by
      have := hr r (by simp)
      simp only [reqOK, Bool.and_eq_true] at this; exact this.1
    obtain ⟨b, hd, _⟩ := request_lemma r hw
    obtain ⟨bs, hb⟩ := ih (fun q hq => hr q (by simp [hq]))
    exact ⟨b :: bs, hd, hb⟩

theorem encoded_length (rs : List Req) (bss : List Bytes) (h : Encoded rs bss) : bss.length = rs.length := by
  induction rs generalizing bss with
  | nil => cases bss with
    | nil => rfl
    | cons b bs => simp [Encoded] at h
  | cons r rs ih => cases bss with
    | nil => simp [Encoded] at h
    | cons b bs => simp only [Encoded] at h; simp [ih bs h.2]

/-! ### close, EOF, undecodable -/

theorem serverStep_close {σ} (api : Api σ) (st : σ) (args : List Value) (kwargs : List (Value × Value))
    (bs : Bytes) (hw : wf (Req.wire ⟨.str closeName, args, kwargs⟩) = true)
    (hd : dumps (Req.wire ⟨.str closeName, args, kwargs⟩) = .ok bs) :
    serverStep api st (some bs) = ⟨st, none, some .closed⟩ := by
  obtain ⟨bs', hd', hl⟩ := request_lemma _ hw
  rw [hd] at hd'
  cases hd'
  simp [serverStep, hl, serverHandle, normV, isClose]

theorem serverRun_exit {σ} (api : Api σ) (st : σ) (m : Option Bytes) (ms : List (Option Bytes))
    (st' : σ) (e : Exit) (h : serverStep api st m = ⟨st', none, some e⟩) :
    serverRun api st (m :: ms) = ([], st', some e) := by
  simp [serverRun, h]

/-! ### the server-side normalisations undo the wire's tuple -> list -/

theorem asTuple_normV (xs : List Value) (h : tupFreeList xs = true) :
    asTuple (normV (.tup xs)) = some (.tup xs) := by
  simp [normV, asTuple, normList_of_tupFree xs h]

theorem expected_failing (r : ApiResult) (h : failing r = true) : ∃ m, expected r = .exception m := by
  unfold expected
  cases r with
  | ok v =>
    simp only [failing, Bool.not_eq_true'] at h
    simp [payload, h]
  | raised c m =>
    by_cases hw : wf (payload (.raised c m)) = true
    · exact ⟨normV m, by simp [hw]⟩
    · exact ⟨.str serErrMsg, by simp [hw]⟩

theorem drop_mid {α} (A : List α) (x : α) (B : List α) (n : Nat) (h : A.length = n) :
    (A ++ x :: B).drop (n + 1) = B := by
  subst h
  induction A with
  | nil => simp
  | cons a A ih => simp

theorem isolated_lemma {σ} (api : Api σ) (st : σ) (pre : List Req) (bad : Req) (suf : List Req)
    (hr : ∀ r ∈ pre ++ bad :: suf, reqOK r = true)
    (hres : ∀ x ∈ (inproc api st (pre ++ bad :: suf)).1, resOK x = true) :
    (session api st (pre ++ bad :: suf)).2 = ((inproc api st (pre ++ bad :: suf)).2, none) ∧
    clientCall api (inproc api st pre).2 bad =
      ((inprocStep api (inproc api st pre).2 bad).1, none,
        expected (inprocStep api (inproc api st pre).2 bad).2) ∧
    (session api st (pre ++ bad :: suf)).1.drop (pre.length + 1) =
      (inproc api (inprocStep api (inproc api st pre).2 bad).1 suf).1.map expected := by
  have hs := session_lemma api st _ hr hres
  rw [inproc_append, inproc_cons] at hres
  refine ⟨by rw [hs], ?_, ?_⟩
  · exact clientCall_lemma api _ bad (hr bad (by simp)) (hres _ (by simp))
  · rw [hs, inproc_append, inproc_cons]
    simp only [List.map_append, List.map_cons]
    exact drop_mid _ _ _ _ (by simp [inproc_length])

/-! ### the methods of `Server` on the documented argument types -/

theorem normV_doc (s p f : Value) (h : docArgs s p f = true) :
    ∃ u xs, s = .str u ∧ p = .tup xs ∧
      normV (.tup [s, p, f]) = .arr [s, .arr xs, f] := by
  unfold docArgs at h
  cases s <;> simp at h
  cases p <;> simp at h
  rename_i u xs
  exact ⟨u, xs, rfl, rfl, by simp [normV, normList, normList_of_tupFree xs h.1, normV_of_tupFree f h.2]⟩

theorem bindArgs_exact (params : List (Bytes × Option Value)) (as : List Value)
    (h : as.length = params.length) : bindArgs params as [] = some as := by
  simp [bindArgs, h, fillRest]

theorem server_assist {ω} (lib : Lib ω) (w : ω) (s p f : Value) (h : docArgs s p f = true) :
    serverApply lib (w, true) (.str sAssist) (normV (.tup [s, p, f])) (normV (.map [])) =
      (((lib.assist w s p f).1, true), (lib.assist w s p f).2) := by
  obtain ⟨u, xs, rfl, rfl, hn⟩ := normV_doc s p f h
  rw [hn]
  simp [serverApply, bindArgs_exact, normV, normPairs, sAssist, sConfigure, nstr, asTuple]

theorem server_location {ω} (lib : Lib ω) (w : ω) (s p f : Value) (h : docArgs s p f = true) :
    serverApply lib (w, true) (.str sLocation) (normV (.tup [s, p, f])) (normV (.map [])) =
      (((lib.location w s p f).1, true), (lib.location w s p f).2) := by
  obtain ⟨u, xs, rfl, rfl, hn⟩ := normV_doc s p f h
  rw [hn]
  simp [serverApply, bindArgs_exact, normV, normPairs, sAssist, sLocation, sConfigure, nstr, asTuple]

theorem server_lint {ω} (lib : Lib ω) (w : ω) (u : Bytes) (f so : Value) (hf : tupFree f = true)
    (hso : tupFree so = true) :
    serverApply lib (w, true) (.str sLint) (normV (.tup [.str u, f, so])) (normV (.map [])) =
      afterLint true (lib.lint w (.str u) f) := by
  simp only [normV, normList, normPairs, normV_of_tupFree f hf, normV_of_tupFree so hso]
  simp only [serverApply]
  simp [bindArgs_exact, sAssist, sLocation, sConfigure, sLint, nstr]

theorem server_eval {ω} (lib : Lib ω) (w : ω) (hp : Bool) (u : Bytes) :
    serverApply lib (w, hp) (.str sEval) (normV (.tup [.str u])) (normV (.map [])) =
      (((lib.eval w (.str u)).1, hp), (lib.eval w (.str u)).2) := by
  simp [serverApply, bindArgs_exact, normV, normList, normPairs, sAssist, sLocation, sConfigure, sLint, sEval, nstr]

theorem server_configure {ω} (lib : Lib ω) (w : ω) (hp : Bool) (cfg : Value) :
    serverApply lib (w, hp) (.str sConfigure) (normV (.tup [cfg])) (normV (.map [])) =
      afterConfigure hp (lib.newProject w (normV cfg)) := by
  simp [serverApply, bindArgs_exact, normV, normList, normPairs, sConfigure]

theorem server_noproject {ω} (lib : Lib ω) (w : ω) (n : Bytes) (s p f : Value)
    (hn : n = sAssist ∨ n = sLocation) :
    serverApply lib (w, false) (.str n) (normV (.tup [s, p, f])) (normV (.map [])) =
      (((lib.noProject w).1, false), (lib.noProject w).2) := by
  rcases hn with rfl | rfl <;>
    simp [serverApply, bindArgs_exact, normV, normList, normPairs, sAssist, sLocation, sConfigure]

end SuppModel.Rpc
