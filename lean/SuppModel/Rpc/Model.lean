/-
  Executable, message-level model of the remote-call layer of supp:

    supp/remote.py   Environment._call          -> `clientSend`, `clientDecode`, `clientCall`
    supp/server.py   Server.process, Server.run -> `process`, `encodeReply`, `serverStep`, `serverRun`

  Values on the wire are `SuppModel.Msgpack.Value`; `dumps`/`loads` are the C14 model of
  supp/umsgpack.py.  What the methods of `Server` do is a PARAMETER here (`Api`): any state type,
  any function of (state, name, args, kwargs) that returns a value or raises and may change the
  state.  `SuppModel/Rpc/Server.lean` instantiates it with the five methods of `Server`.

  Not modelled (environment, see the assumptions of the check): the socket and the
  `multiprocessing.connection` framing (a message that was sent is received, whole and in order),
  `conn.poll(1)` returning False (the loop just polls again), `send_bytes` failing on the server
  (logged, loop continues), logging.
-/
import SuppModel.Msgpack.Spec

namespace SuppModel.Rpc
open SuppModel.Msgpack

/-- result of `getattr(self, name)(*args, **kwargs)` inside `Server.process`:
    a value, or an exception `e` given as `(e.__class__.__name__, str(e))`.
    (Both are `Value`s: a text that cannot be UTF-8 encoded is `.opaque`, it makes `dumps` raise.) -/
inductive ApiResult where
  | ok (v : Value)
  | raised (cls msg : Value)
  deriving Repr, Inhabited

/-- the in-process API: `apply st name args kwargs` -/
structure Api (σ : Type) where
  apply : σ → Value → Value → Value → σ × ApiResult

/-! ### literals -/

/-- `'close'` -/
def closeName : Bytes := [99, 108, 111, 115, 101]
/-- `'SerializeError'` -/
def serErrCls : Bytes := [83, 101, 114, 105, 97, 108, 105, 122, 101, 69, 114, 114, 111, 114]
/-- `'Serialize error'` -/
def serErrMsg : Bytes := [83, 101, 114, 105, 97, 108, 105, 122, 101, 32, 101, 114, 114, 111, 114]

/-- `x == 'close'` (only a `str` equals a `str`) -/
def isClose : Value → Bool
  | .str u => u == closeName
  | _ => false

/-! ### server -/

/-- why `Server.run` left its loop -/
inductive Exit where
  | eof                 -- `recv_bytes` raised EOFError: `break`
  | ioError (e : Err)   -- `loads` raised: logged 'IO error', `break`
  | closed              -- `args[0] == 'close'`: `conn.close()`, `break`
  | crashed             -- an exception escaped `run` (`args[0]` / `process(*args)` on a wrong shape, fallback failing)
  | unmodelled          -- decoded message is not an array: behaviour not modelled (never sent by the client)
  deriving DecidableEq, Repr

/-- the pair `Server.process` returns: `(result, is_ok)` -/
def resultPair : ApiResult → Value
  | .ok v => .tup [v, .bool true]
  | .raised c m => .tup [.tup [c, m], .bool false]

/-- `Server.process`: call, catch every `Exception` -/
def process {σ} (api : Api σ) (st : σ) (name args kwargs : Value) : σ × Value :=
  let (st', r) := api.apply st name args kwargs
  (st', resultPair r)

/-- `(('SerializeError', 'Serialize error'), False)` -/
def fallback : Value := .tup [.tup [.str serErrCls, .str serErrMsg], .bool false]

/-- `try: content = dumps((result, is_ok))  except: content = dumps(fallback)` -/
def encodeReply (pair : Value) : Except Err Bytes :=
  match dumps pair with
  | .ok bs => .ok bs
  | .error _ => dumps fallback

structure Step (σ : Type) where
  st : σ
  reply : Option Bytes
  exit : Option Exit

/-- the loop body of `Server.run` after a message was decoded to `v` -/
def serverHandle {σ} (api : Api σ) (st : σ) (v : Value) : Step σ :=
  match v with
  | .arr [] => ⟨st, none, some .crashed⟩                    -- `args[0]`: IndexError
  | .arr (x :: xs) =>
    if isClose x then ⟨st, none, some .closed⟩
    else
      match xs with
      | [a, k] =>
        let (st', pair) := process api st x a k
        match encodeReply pair with
        | .ok rb => ⟨st', some rb, none⟩
        | .error _ => ⟨st', none, some .crashed⟩
      | _ => ⟨st, none, some .crashed⟩                      -- `self.process(*args)`: TypeError
  | _ => ⟨st, none, some .unmodelled⟩

/-- one iteration of the loop of `Server.run` on the next incoming message (`none` = peer closed) -/
def serverStep {σ} (api : Api σ) (st : σ) (msg : Option Bytes) : Step σ :=
  match msg with
  | none => ⟨st, none, some .eof⟩
  | some bs =>
    match loads bs with
    | .error e => ⟨st, none, some (.ioError e)⟩
    | .ok v => serverHandle api st v

/-- `Server.run` on a stream of incoming messages: replies in order, final state, why it stopped
    (`none`: still in the loop, waiting) -/
def serverRun {σ} (api : Api σ) : σ → List (Option Bytes) → List Bytes × σ × Option Exit
  | st, [] => ([], st, none)
  | st, m :: ms =>
    let s := serverStep api st m
    match s.exit with
    | some e => (s.reply.toList, s.st, some e)
    | none =>
      let (reps, st', ex) := serverRun api s.st ms
      (s.reply.toList ++ reps, st', ex)

/-! ### client -/

/-- a call `env._call(name, *args, **kwargs)` -/
structure Req where
  name : Value
  args : List Value
  kwargs : List (Value × Value)
  deriving Repr, Inhabited

/-- `(name, args, kwargs)` -/
def Req.wire (r : Req) : Value := .tup [r.name, .tup r.args, .map r.kwargs]

/-- `bool(x)` -/
def truthy : Value → Bool
  | .nil => false
  | .bool b => b
  | .int n => n != 0
  | .float bits => bits % 2 ^ 63 != 0
  | .str u => !u.isEmpty
  | .bin b => !b.isEmpty
  | .arr xs => !xs.isEmpty
  | .tup xs => !xs.isEmpty
  | .map kvs => !kvs.isEmpty
  | .ext _ _ => true
  | .opaque => true

/-- what the caller of `_call` observes -/
inductive Outcome where
  | returned (v : Value)        -- `return result`
  | exception (arg : Value)     -- `raise Exception(result[1])`
  | clientError                 -- reply is not a 2-array / `result[1]` fails (shown unreachable against `serverStep`)
  | sendError (e : Err)         -- `dumps` of the request raised in the client: nothing was sent
  | noReply                     -- the server left its loop without replying: `recv_bytes` raises
  deriving Repr, Inhabited

/-- `raise Exception(result[1])` -/
def raiseFrom : Value → Outcome
  | .arr (_ :: m :: _) => .exception m
  | _ => .clientError

/-- `result, is_ok = <decoded reply>`; `return result` / `raise Exception(result[1])` -/
def decodePair : Value → Outcome
  | .arr [result, isOk] => if truthy isOk then .returned result else raiseFrom result
  | _ => .clientError

/-- the tail of `_call` on the reply bytes -/
def clientDecode (bs : Bytes) : Outcome :=
  match loads bs with
  | .ok v => decodePair v
  | .error _ => .clientError

/-- `Environment._call` against a server in state `st`
    (irreducible: keeps the elaborator from evaluating `dumps` when it unfolds `session`) -/
@[irreducible] def clientCall {σ} (api : Api σ) (st : σ) (r : Req) : σ × Option Exit × Outcome :=
  match dumps r.wire with
  | .error e => (st, none, .sendError e)
  | .ok bs =>
    let s := serverStep api st (some bs)
    (s.st, s.exit, match s.reply with | some rb => clientDecode rb | none => .noReply)

/-- a sequence of calls through one connection; once the server has left its loop every further
    call fails in the client (`noReply`) -/
def session {σ} (api : Api σ) : σ → List Req → List Outcome × σ × Option Exit
  | st, [] => ([], st, none)
  | st, r :: rs =>
    let c := clientCall api st r
    match c.2.1 with
    | some e => (c.2.2 :: rs.map (fun _ => Outcome.noReply), c.1, some e)
    | none =>
      let (os, st'', ex) := session api c.1 rs
      (c.2.2 :: os, st'', ex)

/-- the byte streams: `bss` are the encodings of `rs`, message by message -/
def Encoded : List Req → List Bytes → Prop
  | [], [] => True
  | r :: rs, b :: bs => dumps r.wire = .ok b ∧ Encoded rs bs
  | _, _ => False

/-! ### the reference: the same calls made in-process -/

/-- the in-process call with the arguments as they arrive (tuples as lists) -/
def inprocStep {σ} (api : Api σ) (st : σ) (r : Req) : σ × ApiResult :=
  api.apply st (normV r.name) (normV (.tup r.args)) (normV (.map r.kwargs))

def inproc {σ} (api : Api σ) : σ → List Req → List ApiResult × σ
  | st, [] => ([], st)
  | st, r :: rs =>
    let (st', x) := inprocStep api st r
    let (xs, st'') := inproc api st' rs
    (x :: xs, st'')

/-- the object that has to cross the wire -/
def payload : ApiResult → Value
  | .ok v => v
  | .raised c m => .tup [c, m]

/-- `dumps v` raises -/
def unser (v : Value) : Bool :=
  match dumps v with
  | .ok _ => false
  | .error _ => true

/-- what the remote caller must observe for an in-process result:
    value (tuples as lists) / `Exception(message)` / `Exception('Serialize error')` -/
def expected (r : ApiResult) : Outcome :=
  if wf (payload r) then
    match r with
    | .ok v => .returned (normV v)
    | .raised _ m => .exception (normV m)
  else .exception (.str serErrMsg)

/-- a failing request: the API raised, or its result cannot be serialised -/
def failing : ApiResult → Bool
  | .ok v => !wf v
  | .raised _ _ => true

/-! ### decidable hypotheses (evaluated by the driver on every input) -/

/-- the request is in the data model and is not the `close` message -/
def reqOK (r : Req) : Bool := wf r.wire && !isClose r.name

/-- the result is a Python object: in the data model, or something `dumps` refuses -/
def resOK (r : ApiResult) : Bool := wf (payload r) || unser (payload r)

end SuppModel.Rpc
