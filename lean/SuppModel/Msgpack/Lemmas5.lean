import SuppModel.Msgpack.Lemmas4
namespace SuppModel.Msgpack
set_option linter.unusedSimpArgs false
set_option linter.unusedVariables false

/-! ### proper prefixes -/

theorem prefix_append_cases {q a b : Bytes} (h : q <+: a ++ b) :
    (q <+: a ∧ q ≠ a) ∨ ∃ r, q = a ++ r ∧ r <+: b := by
  obtain ⟨t, ht⟩ := h
  rcases List.append_eq_append_iff.mp ht with ⟨as, rfl, rfl⟩ | ⟨bs, rfl, rfl⟩
  · by_cases hq : as = []
    · subst hq; right; exact ⟨[], by simp, by simp⟩
    · left; refine ⟨⟨as, rfl⟩, ?_⟩
      intro h; apply hq
      simpa using h
  · right; exact ⟨bs, rfl, ⟨t, rfl⟩⟩

theorem prefix_proper_length {q a : Bytes} (h : q <+: a) (hne : q ≠ a) : q.length < a.length := by
  rcases Nat.lt_or_ge q.length a.length with h2 | h2
  · exact h2
  · exact absurd (h.eq_of_length (by have := h.length_le; omega)) hne

theorem prefix_cons_cases {q body : Bytes} {c : Nat} (h : q <+: c :: body) (hne : q ≠ c :: body) :
    q = [] ∨ ∃ q', q = c :: q' ∧ q' <+: body ∧ q' ≠ body := by
  cases q with
  | nil => exact .inl rfl
  | cons x q' =>
    right
    rw [List.cons_prefix_cons] at h
    obtain ⟨rfl, h⟩ := h
    exact ⟨q', rfl, h, fun e => hne (by rw [e])⟩

theorem append_ne_cancel {a r b : Bytes} (h : a ++ r ≠ a ++ b) : r ≠ b := fun e => h (by rw [e])

theorem unpack_nil_prefix (bs q : Bytes) (f : Nat) (he : Encodes .nil bs) (hq : q <+: bs) (hne : q ≠ bs) :
    unpack (f + 1) q = .error .insufficient := by
  cases he; rw [prefix_singleton hq hne]; exact unpack_nil f

theorem unpack_bool_prefix (b : Bool) (bs q : Bytes) (f : Nat) (he : Encodes (.bool b) bs)
    (hq : q <+: bs) (hne : q ≠ bs) : unpack (f + 1) q = .error .insufficient := by
  cases he <;> rw [prefix_singleton hq hne] <;> exact unpack_nil f

theorem unpack_int_prefix (n : Int) (bs q : Bytes) (f : Nat) (he : Encodes (.int n) bs)
    (hq : q <+: bs) (hne : q ≠ bs) : unpack (f + 1) q = .error .insufficient := by
  cases he with
  | posfix n h => rw [prefix_singleton hq hne]; exact unpack_nil f
  | negfix n h1 h2 => rw [prefix_singleton hq hne]; exact unpack_nil f
  | uint8 b hl hok =>
    rcases prefix_cons_cases hq hne with rfl | ⟨q', rfl, hq', hne'⟩
    · exact unpack_nil f
    · have hlt := prefix_proper_length hq' hne'
      rw [hl] at hlt
      rw [unpack_integer _ _ _ (disp_lit _ _ (by decide) (by decide))]
      simp [unpackInteger, readExcept_short _ _ hlt, err_bind, map_err]
  | uint16 b hl hok =>
    rcases prefix_cons_cases hq hne with rfl | ⟨q', rfl, hq', hne'⟩
    · exact unpack_nil f
    · have hlt := prefix_proper_length hq' hne'
      rw [hl] at hlt
      rw [unpack_integer _ _ _ (disp_lit _ _ (by decide) (by decide))]
      simp [unpackInteger, readExcept_short _ _ hlt, err_bind, map_err]
  | uint32 b hl hok =>
    rcases prefix_cons_cases hq hne with rfl | ⟨q', rfl, hq', hne'⟩
    · exact unpack_nil f
    · have hlt := prefix_proper_length hq' hne'
      rw [hl] at hlt
      rw [unpack_integer _ _ _ (disp_lit _ _ (by decide) (by decide))]
      simp [unpackInteger, readExcept_short _ _ hlt, err_bind, map_err]
  | uint64 b hl hok =>
    rcases prefix_cons_cases hq hne with rfl | ⟨q', rfl, hq', hne'⟩
    · exact unpack_nil f
    · have hlt := prefix_proper_length hq' hne'
      rw [hl] at hlt
      rw [unpack_integer _ _ _ (disp_lit _ _ (by decide) (by decide))]
      simp [unpackInteger, readExcept_short _ _ hlt, err_bind, map_err]
  | int8 b hl hok =>
    rcases prefix_cons_cases hq hne with rfl | ⟨q', rfl, hq', hne'⟩
    · exact unpack_nil f
    · have hlt := prefix_proper_length hq' hne'
      rw [hl] at hlt
      rw [unpack_integer _ _ _ (disp_lit _ _ (by decide) (by decide))]
      simp [unpackInteger, readExcept_short _ _ hlt, err_bind, map_err]
  | int16 b hl hok =>
    rcases prefix_cons_cases hq hne with rfl | ⟨q', rfl, hq', hne'⟩
    · exact unpack_nil f
    · have hlt := prefix_proper_length hq' hne'
      rw [hl] at hlt
      rw [unpack_integer _ _ _ (disp_lit _ _ (by decide) (by decide))]
      simp [unpackInteger, readExcept_short _ _ hlt, err_bind, map_err]
  | int32 b hl hok =>
    rcases prefix_cons_cases hq hne with rfl | ⟨q', rfl, hq', hne'⟩
    · exact unpack_nil f
    · have hlt := prefix_proper_length hq' hne'
      rw [hl] at hlt
      rw [unpack_integer _ _ _ (disp_lit _ _ (by decide) (by decide))]
      simp [unpackInteger, readExcept_short _ _ hlt, err_bind, map_err]
  | int64 b hl hok =>
    rcases prefix_cons_cases hq hne with rfl | ⟨q', rfl, hq', hne'⟩
    · exact unpack_nil f
    · have hlt := prefix_proper_length hq' hne'
      rw [hl] at hlt
      rw [unpack_integer _ _ _ (disp_lit _ _ (by decide) (by decide))]
      simp [unpackInteger, readExcept_short _ _ hlt, err_bind, map_err]

theorem unpack_float_prefix (x : Nat) (bs q : Bytes) (f : Nat) (he : Encodes (.float x) bs)
    (hq : q <+: bs) (hne : q ≠ bs) : unpack (f + 1) q = .error .insufficient := by
  cases he with
  | float32 b hl hok =>
    rcases prefix_cons_cases hq hne with rfl | ⟨q', rfl, hq', hne'⟩
    · exact unpack_nil f
    · have hlt := prefix_proper_length hq' hne'
      rw [hl] at hlt
      rw [unpack_float _ _ _ (disp_lit _ _ (by decide) (by decide))]
      simp [unpackFloat, readExcept_short _ _ hlt, err_bind, map_err]
  | float64 b hl hok =>
    rcases prefix_cons_cases hq hne with rfl | ⟨q', rfl, hq', hne'⟩
    · exact unpack_nil f
    · have hlt := prefix_proper_length hq' hne'
      rw [hl] at hlt
      rw [unpack_float _ _ _ (disp_lit _ _ (by decide) (by decide))]
      simp [unpackFloat, readExcept_short _ _ hlt, err_bind, map_err]

theorem unpack_str_prefix (p bs q : Bytes) (f : Nat) (he : Encodes (.str p) bs)
    (hq : q <+: bs) (hne : q ≠ bs) : unpack (f + 1) q = .error .insufficient := by
  cases he with
  | fixstr _ h =>
    rcases prefix_cons_cases hq hne with rfl | ⟨q', rfl, hq', hne'⟩
    · exact unpack_nil f
    · have hlt := prefix_proper_length hq' hne'
      rw [unpack_string _ _ _ (disp_fixstr _ h)]
      simp [unpackString, readLen, and_fixstr _ h, ok_bind, readExcept_short _ _ hlt, err_bind, map_err]
  | str8 _ h =>
    simp only [List.cons_append] at hq hne
    rcases prefix_cons_cases hq hne with rfl | ⟨q', rfl, hq', hne'⟩
    · exact unpack_nil f
    · rw [unpack_string _ _ _ (disp_lit _ _ (by decide) (by decide))]
      rcases prefix_append_cases hq' with ⟨h1, h2⟩ | ⟨r, rfl, hr⟩
      · have hlt := prefix_proper_length h1 h2
        rw [beBytes_length] at hlt
        simp [unpackString, readLen, readExcept_short _ _ hlt, err_bind, map_err]
      · have hlt := prefix_proper_length hr (append_ne_cancel hne')
        simp [unpackString, readLen, readExcept_append, beBytes_length, ok_bind, beVal_beBytes1 _ h,
          readExcept_short _ _ hlt, err_bind, map_err]
  | str16 _ h =>
    simp only [List.cons_append] at hq hne
    rcases prefix_cons_cases hq hne with rfl | ⟨q', rfl, hq', hne'⟩
    · exact unpack_nil f
    · rw [unpack_string _ _ _ (disp_lit _ _ (by decide) (by decide))]
      rcases prefix_append_cases hq' with ⟨h1, h2⟩ | ⟨r, rfl, hr⟩
      · have hlt := prefix_proper_length h1 h2
        rw [beBytes_length] at hlt
        simp [unpackString, readLen, readExcept_short _ _ hlt, err_bind, map_err]
      · have hlt := prefix_proper_length hr (append_ne_cancel hne')
        simp [unpackString, readLen, readExcept_append, beBytes_length, ok_bind, beVal_beBytes2 _ h,
          readExcept_short _ _ hlt, err_bind, map_err]
  | str32 _ h =>
    simp only [List.cons_append] at hq hne
    rcases prefix_cons_cases hq hne with rfl | ⟨q', rfl, hq', hne'⟩
    · exact unpack_nil f
    · rw [unpack_string _ _ _ (disp_lit _ _ (by decide) (by decide))]
      rcases prefix_append_cases hq' with ⟨h1, h2⟩ | ⟨r, rfl, hr⟩
      · have hlt := prefix_proper_length h1 h2
        rw [beBytes_length] at hlt
        simp [unpackString, readLen, readExcept_short _ _ hlt, err_bind, map_err]
      · have hlt := prefix_proper_length hr (append_ne_cancel hne')
        simp [unpackString, readLen, readExcept_append, beBytes_length, ok_bind, beVal_beBytes4 _ h,
          readExcept_short _ _ hlt, err_bind, map_err]

theorem unpack_bin_prefix (p bs q : Bytes) (f : Nat) (he : Encodes (.bin p) bs)
    (hq : q <+: bs) (hne : q ≠ bs) : unpack (f + 1) q = .error .insufficient := by
  cases he with
  | bin8 _ h =>
    simp only [List.cons_append] at hq hne
    rcases prefix_cons_cases hq hne with rfl | ⟨q', rfl, hq', hne'⟩
    · exact unpack_nil f
    · rw [unpack_binary _ _ _ (disp_lit _ _ (by decide) (by decide))]
      rcases prefix_append_cases hq' with ⟨h1, h2⟩ | ⟨r, rfl, hr⟩
      · have hlt := prefix_proper_length h1 h2
        rw [beBytes_length] at hlt
        simp [unpackBinary, readLen, readExcept_short _ _ hlt, err_bind, map_err]
      · have hlt := prefix_proper_length hr (append_ne_cancel hne')
        simp [unpackBinary, readLen, readExcept_append, beBytes_length, ok_bind, beVal_beBytes1 _ h,
          readExcept_short _ _ hlt, err_bind, map_err]
  | bin16 _ h =>
    simp only [List.cons_append] at hq hne
    rcases prefix_cons_cases hq hne with rfl | ⟨q', rfl, hq', hne'⟩
    · exact unpack_nil f
    · rw [unpack_binary _ _ _ (disp_lit _ _ (by decide) (by decide))]
      rcases prefix_append_cases hq' with ⟨h1, h2⟩ | ⟨r, rfl, hr⟩
      · have hlt := prefix_proper_length h1 h2
        rw [beBytes_length] at hlt
        simp [unpackBinary, readLen, readExcept_short _ _ hlt, err_bind, map_err]
      · have hlt := prefix_proper_length hr (append_ne_cancel hne')
        simp [unpackBinary, readLen, readExcept_append, beBytes_length, ok_bind, beVal_beBytes2 _ h,
          readExcept_short _ _ hlt, err_bind, map_err]
  | bin32 _ h =>
    simp only [List.cons_append] at hq hne
    rcases prefix_cons_cases hq hne with rfl | ⟨q', rfl, hq', hne'⟩
    · exact unpack_nil f
    · rw [unpack_binary _ _ _ (disp_lit _ _ (by decide) (by decide))]
      rcases prefix_append_cases hq' with ⟨h1, h2⟩ | ⟨r, rfl, hr⟩
      · have hlt := prefix_proper_length h1 h2
        rw [beBytes_length] at hlt
        simp [unpackBinary, readLen, readExcept_short _ _ hlt, err_bind, map_err]
      · have hlt := prefix_proper_length hr (append_ne_cancel hne')
        simp [unpackBinary, readLen, readExcept_append, beBytes_length, ok_bind, beVal_beBytes4 _ h,
          readExcept_short _ _ hlt, err_bind, map_err]

theorem unpack_ext_prefix (ty : Int) (p bs q : Bytes) (f : Nat) (he : Encodes (.ext ty p) bs)
    (hq : q <+: bs) (hne : q ≠ bs) : unpack (f + 1) q = .error .insufficient := by
  cases he with
  | fixext1 t _ hl =>
    rcases prefix_cons_cases hq hne with rfl | ⟨q', rfl, hq', hne'⟩
    · exact unpack_nil f
    · rw [unpack_ext _ _ _ (disp_lit _ _ (by decide) (by decide))]
      rcases prefix_cons_cases hq' hne' with rfl | ⟨q'', rfl, hq'', hne''⟩
      · simp [unpackExt, readExcept_short, ok_bind, err_bind, map_err]
      · have hlt := prefix_proper_length hq'' hne''
        rw [hl] at hlt
        simp [unpackExt, readExcept_one, ok_bind, readExcept_short _ _ hlt, err_bind, map_err]
  | fixext2 t _ hl =>
    rcases prefix_cons_cases hq hne with rfl | ⟨q', rfl, hq', hne'⟩
    · exact unpack_nil f
    · rw [unpack_ext _ _ _ (disp_lit _ _ (by decide) (by decide))]
      rcases prefix_cons_cases hq' hne' with rfl | ⟨q'', rfl, hq'', hne''⟩
      · simp [unpackExt, readExcept_short, ok_bind, err_bind, map_err]
      · have hlt := prefix_proper_length hq'' hne''
        rw [hl] at hlt
        simp [unpackExt, readExcept_one, ok_bind, readExcept_short _ _ hlt, err_bind, map_err]
  | fixext4 t _ hl =>
    rcases prefix_cons_cases hq hne with rfl | ⟨q', rfl, hq', hne'⟩
    · exact unpack_nil f
    · rw [unpack_ext _ _ _ (disp_lit _ _ (by decide) (by decide))]
      rcases prefix_cons_cases hq' hne' with rfl | ⟨q'', rfl, hq'', hne''⟩
      · simp [unpackExt, readExcept_short, ok_bind, err_bind, map_err]
      · have hlt := prefix_proper_length hq'' hne''
        rw [hl] at hlt
        simp [unpackExt, readExcept_one, ok_bind, readExcept_short _ _ hlt, err_bind, map_err]
  | fixext8 t _ hl =>
    rcases prefix_cons_cases hq hne with rfl | ⟨q', rfl, hq', hne'⟩
    · exact unpack_nil f
    · rw [unpack_ext _ _ _ (disp_lit _ _ (by decide) (by decide))]
      rcases prefix_cons_cases hq' hne' with rfl | ⟨q'', rfl, hq'', hne''⟩
      · simp [unpackExt, readExcept_short, ok_bind, err_bind, map_err]
      · have hlt := prefix_proper_length hq'' hne''
        rw [hl] at hlt
        simp [unpackExt, readExcept_one, ok_bind, readExcept_short _ _ hlt, err_bind, map_err]
  | fixext16 t _ hl =>
    rcases prefix_cons_cases hq hne with rfl | ⟨q', rfl, hq', hne'⟩
    · exact unpack_nil f
    · rw [unpack_ext _ _ _ (disp_lit _ _ (by decide) (by decide))]
      rcases prefix_cons_cases hq' hne' with rfl | ⟨q'', rfl, hq'', hne''⟩
      · simp [unpackExt, readExcept_short, ok_bind, err_bind, map_err]
      · have hlt := prefix_proper_length hq'' hne''
        rw [hl] at hlt
        simp [unpackExt, readExcept_one, ok_bind, readExcept_short _ _ hlt, err_bind, map_err]
  | ext8 t _ h =>
    simp only [List.cons_append] at hq hne
    rcases prefix_cons_cases hq hne with rfl | ⟨q', rfl, hq', hne'⟩
    · exact unpack_nil f
    · rw [unpack_ext _ _ _ (disp_lit _ _ (by decide) (by decide))]
      rcases prefix_append_cases hq' with ⟨h1, h2⟩ | ⟨r, rfl, hr⟩
      · have hlt := prefix_proper_length h1 h2
        rw [beBytes_length] at hlt
        simp [unpackExt, readLen, readExcept_short _ _ hlt, err_bind, map_err]
      · rcases prefix_cons_cases hr (append_ne_cancel hne') with rfl | ⟨q'', rfl, hq'', hne''⟩
        · simp [unpackExt, readLen, readExcept_exact, beBytes_length, ok_bind, readExcept_short, err_bind, map_err]
        · have hlt := prefix_proper_length hq'' hne''
          simp [unpackExt, readLen, readExcept_append, beBytes_length, ok_bind, beVal_beBytes1 _ h,
            readExcept_one, readExcept_short _ _ hlt, err_bind, map_err]
  | ext16 t _ h =>
    simp only [List.cons_append] at hq hne
    rcases prefix_cons_cases hq hne with rfl | ⟨q', rfl, hq', hne'⟩
    · exact unpack_nil f
    · rw [unpack_ext _ _ _ (disp_lit _ _ (by decide) (by decide))]
      rcases prefix_append_cases hq' with ⟨h1, h2⟩ | ⟨r, rfl, hr⟩
      · have hlt := prefix_proper_length h1 h2
        rw [beBytes_length] at hlt
        simp [unpackExt, readLen, readExcept_short _ _ hlt, err_bind, map_err]
      · rcases prefix_cons_cases hr (append_ne_cancel hne') with rfl | ⟨q'', rfl, hq'', hne''⟩
        · simp [unpackExt, readLen, readExcept_exact, beBytes_length, ok_bind, readExcept_short, err_bind, map_err]
        · have hlt := prefix_proper_length hq'' hne''
          simp [unpackExt, readLen, readExcept_append, beBytes_length, ok_bind, beVal_beBytes2 _ h,
            readExcept_one, readExcept_short _ _ hlt, err_bind, map_err]
  | ext32 t _ h =>
    simp only [List.cons_append] at hq hne
    rcases prefix_cons_cases hq hne with rfl | ⟨q', rfl, hq', hne'⟩
    · exact unpack_nil f
    · rw [unpack_ext _ _ _ (disp_lit _ _ (by decide) (by decide))]
      rcases prefix_append_cases hq' with ⟨h1, h2⟩ | ⟨r, rfl, hr⟩
      · have hlt := prefix_proper_length h1 h2
        rw [beBytes_length] at hlt
        simp [unpackExt, readLen, readExcept_short _ _ hlt, err_bind, map_err]
      · rcases prefix_cons_cases hr (append_ne_cancel hne') with rfl | ⟨q'', rfl, hq'', hne''⟩
        · simp [unpackExt, readLen, readExcept_exact, beBytes_length, ok_bind, readExcept_short, err_bind, map_err]
        · have hlt := prefix_proper_length hq'' hne''
          simp [unpackExt, readLen, readExcept_append, beBytes_length, ok_bind, beVal_beBytes4 _ h,
            readExcept_one, readExcept_short _ _ hlt, err_bind, map_err]

mutual
theorem unpack_prefix : (v : Value) → ∀ (bs q : Bytes) (f : Nat), Encodes v bs → wf v = true →
    q <+: bs → q ≠ bs → q.length < f → unpack f q = .error .insufficient
  | .nil, bs, q, f, he, _, hq, hne, hf => by
    obtain ⟨f, rfl⟩ := succ_of_lt hf; exact unpack_nil_prefix bs q f he hq hne
  | .bool b, bs, q, f, he, _, hq, hne, hf => by
    obtain ⟨f, rfl⟩ := succ_of_lt hf; exact unpack_bool_prefix b bs q f he hq hne
  | .int n, bs, q, f, he, _, hq, hne, hf => by
    obtain ⟨f, rfl⟩ := succ_of_lt hf; exact unpack_int_prefix n bs q f he hq hne
  | .float x, bs, q, f, he, _, hq, hne, hf => by
    obtain ⟨f, rfl⟩ := succ_of_lt hf; exact unpack_float_prefix x bs q f he hq hne
  | .str p, bs, q, f, he, _, hq, hne, hf => by
    obtain ⟨f, rfl⟩ := succ_of_lt hf; exact unpack_str_prefix p bs q f he hq hne
  | .bin p, bs, q, f, he, _, hq, hne, hf => by
    obtain ⟨f, rfl⟩ := succ_of_lt hf; exact unpack_bin_prefix p bs q f he hq hne
  | .ext ty p, bs, q, f, he, _, hq, hne, hf => by
    obtain ⟨f, rfl⟩ := succ_of_lt hf; exact unpack_ext_prefix ty p bs q f he hq hne
  | .opaque, _, _, _, _, hw, _, _, _ => by simp [wf] at hw
  | .arr xs, bs, q, f, he, hw, hq, hne, hf => by
    obtain ⟨f, rfl⟩ := succ_of_lt hf
    obtain ⟨hdr, bs', rfl, hel, hnil, hdec, hpre⟩ := arr_header xs bs he
    simp [wf] at hw
    rcases prefix_append_cases hq with ⟨h1, h2⟩ | ⟨r, rfl, hr⟩
    · exact hpre f q h1 h2
    · have := List.length_pos_iff.mpr hnil
      rw [hdec, unpackN_prefix xs bs' r f hel hw.2 hr (append_ne_cancel hne) (by simp at hf; omega)]
      simp [err_bind, map_err]
  | .tup xs, bs, q, f, he, hw, hq, hne, hf => by
    obtain ⟨f, rfl⟩ := succ_of_lt hf
    obtain ⟨hdr, bs', rfl, hel, hnil, hdec, hpre⟩ := tup_header xs bs he
    simp [wf] at hw
    rcases prefix_append_cases hq with ⟨h1, h2⟩ | ⟨r, rfl, hr⟩
    · exact hpre f q h1 h2
    · have := List.length_pos_iff.mpr hnil
      rw [hdec, unpackN_prefix xs bs' r f hel hw.2 hr (append_ne_cancel hne) (by simp at hf; omega)]
      simp [err_bind, map_err]
  | .map kvs, bs, q, f, he, hw, hq, hne, hf => by
    obtain ⟨f, rfl⟩ := succ_of_lt hf
    obtain ⟨hdr, bs', rfl, hel, hnil, hdec, hpre⟩ := map_header kvs bs he
    simp [wf] at hw
    rcases prefix_append_cases hq with ⟨h1, h2⟩ | ⟨r, rfl, hr⟩
    · exact hpre f q h1 h2
    · have := List.length_pos_iff.mpr hnil
      rw [hdec, unpackMap_prefix kvs bs' r f [] hel hw.1.2 hw.2 (by simp) hr (append_ne_cancel hne)
        (by simp at hf; omega)]
      simp [err_bind, map_err]
theorem unpackN_prefix : (xs : List Value) → ∀ (bs q : Bytes) (f : Nat), EncodesList xs bs →
    wfList xs = true → q <+: bs → q ≠ bs → q.length < f →
    unpackN f xs.length q = .error .insufficient
  | [], bs, q, f, he, _, hq, hne, _ => by
    cases he; simp at hq; exact absurd hq hne
  | x :: xs, bs, q, f, he, hw, hq, hne, hf => by
    cases he with
    | cons _ _ a b hea heb =>
      simp [wfList] at hw
      simp only [List.length_cons]
      rcases prefix_append_cases hq with ⟨h1, h2⟩ | ⟨r, rfl, hr⟩
      · exact unpackN_step_err _ _ _ _ (unpack_prefix x a q f hea hw.1 h1 h2 hf)
      · rw [unpackN_step _ _ _ _ _ (unpack_ok x a r f hea hw.1 hf),
          unpackN_prefix xs b r f heb hw.2 hr (append_ne_cancel hne) (by simp at hf; omega)]
        simp [err_bind, map_err]
theorem unpackMap_prefix : (kvs : List (Value × Value)) → ∀ (bs q : Bytes) (f : Nat) (d : Dict),
    EncodesPairs kvs bs → wfPairs kvs = true → keysDistinct (kvs.map Prod.fst) = true →
    (∀ p ∈ d, ∀ k ∈ kvs.map Prod.fst, keyEq p.1 k = false) → q <+: bs → q ≠ bs → q.length < f →
    unpackMap f kvs.length q d = .error .insufficient
  | [], bs, q, f, d, he, _, _, _, hq, hne, _ => by
    cases he; simp at hq; exact absurd hq hne
  | (k, v) :: kvs, bs, q, f, d, he, hw, hkd, hd, hq, hne, hf => by
    cases he with
    | cons _ _ _ a b c hea heb hec =>
      simp [wfPairs] at hw
      obtain ⟨⟨⟨hwk, hhk⟩, hwv⟩, hwr⟩ := hw
      simp [keysDistinct] at hkd
      simp only [List.length_cons]
      rw [List.append_assoc] at hq hne
      have hdk : ∀ p ∈ d, keyEq p.1 k = false := fun p hp => hd p hp k (by simp)
      have hd' : ∀ p ∈ d ++ [(k, normV v)], ∀ k2 ∈ kvs.map Prod.fst, keyEq p.1 k2 = false := by
        intro p hp k2 hk2
        rcases List.mem_append.mp hp with hp | hp
        · exact hd p hp k2 (by simp at hk2 ⊢; exact .inr hk2)
        · simp at hp; subst hp
          simp at hk2
          obtain ⟨v2, hk2⟩ := hk2
          simpa using hkd.1 k2 v2 hk2
      rcases prefix_append_cases hq with ⟨h1, h2⟩ | ⟨r, rfl, hr⟩
      · exact unpackMap_step_err _ _ _ _ _ (unpack_prefix k a q f hea hwk h1 h2 hf)
      · have hk := unpack_ok k a r f hea hwk hf
        have hne1 := append_ne_cancel hne
        -- the value part
        have hval : (do let (v', r') ← unpack f r
                        unpackMap f kvs.length r' (d ++ [(k, v')])) = .error .insufficient := by
          rcases prefix_append_cases hr with ⟨h3, h4⟩ | ⟨r', rfl, hr'⟩
          · rw [unpack_prefix v b r f heb hwv h3 h4 (by simp at hf; omega)]; simp [err_bind]
          · rw [unpack_ok v b r' f heb hwv (by simp at hf ⊢; omega)]
            simp only [ok_bind]
            exact unpackMap_prefix kvs c r' f _ hec hwr hkd.2 hd' hr' (append_ne_cancel hne1)
              (by simp at hf; omega)
        rcases key_cases k hhk with ⟨hn, hna⟩ | ⟨xs, rfl, hxs⟩
        · rw [hn] at hk
          rw [unpackMap_step_atom _ _ _ _ _ _ hk hhk hna (dictHas_false d k hdk)]
          simpa only [dictSet_append d k _ hdk] using hval
        · simp only [normV] at hk
          rw [unpackMap_step_arr _ _ _ _ _ _ hk]
          simpa only [deepTupleList_normList xs hxs, hhk, if_true, dictSet_append d _ _ hdk] using hval
end

end SuppModel.Msgpack
