import SuppModel.Msgpack.Lemmas3
namespace SuppModel.Msgpack
set_option linter.unusedSimpArgs false
set_option linter.unusedVariables false

/-! ### dict keys -/

mutual
theorem deepTuple_normV : (v : Value) → hashable v = true → deepTuple (normV v) = v
  | .nil, _ | .bool _, _ | .int _, _ | .float _, _ | .str _, _ | .bin _, _ => by simp [normV, deepTuple]
  | .tup xs, h => by
    simp [hashable] at h
    simp [normV, deepTuple, deepTupleList_normList xs h]
  | .arr _, h | .map _, h | .ext _ _, h | .opaque, h => by simp [hashable] at h
theorem deepTupleList_normList : (xs : List Value) → hashableList xs = true →
    deepTupleList (normList xs) = xs
  | [], _ => by simp [normList, deepTupleList]
  | x :: xs, h => by
    simp [hashableList] at h
    simp [normList, deepTupleList, deepTuple_normV x h.1, deepTupleList_normList xs h.2]
end

/-- a hashable key comes back from the decoder either unchanged (atom) or as the list of a tuple -/
theorem key_cases (k : Value) (h : hashable k = true) :
    (normV k = k ∧ ∀ xs, k ≠ .arr xs) ∨ ∃ xs, k = .tup xs ∧ hashableList xs = true := by
  cases k <;> simp [hashable] at h <;> simp [normV, h]

theorem dictHas_false (d : Dict) (k : Value) (h : ∀ p ∈ d, keyEq p.1 k = false) :
    dictHas d k = false := by
  simp [dictHas]; exact fun a b hab => h (a, b) hab

theorem dictSet_append (d : Dict) (k v : Value) (h : ∀ p ∈ d, keyEq p.1 k = false) :
    dictSet d k v = d ++ [(k, v)] := by
  induction d with
  | nil => rfl
  | cons p t ih =>
    obtain ⟨k', v'⟩ := p
    have h1 := h (k', v') (by simp)
    simp at h1
    simp [dictSet, h1, ih (fun p hp => h p (by simp [hp]))]


theorem unpackMap_step_atom (f n : Nat) (inp r : Bytes) (d : Dict) (k : Value)
    (hk : unpack f inp = .ok (k, r)) (hh : hashable k = true) (hna : ∀ xs, k ≠ .arr xs)
    (hd : dictHas d k = false) :
    unpackMap f (n + 1) inp d = (do let (v, r) ← unpack f r; unpackMap f n r (dictSet d k v)) := by
  rw [unpackMap, hk]
  cases k <;> simp [ok_bind, hh, hd] at hna ⊢

theorem unpackMap_step_arr (f n : Nat) (inp r : Bytes) (d : Dict) (xs : List Value)
    (hk : unpack f inp = .ok (.arr xs, r)) :
    unpackMap f (n + 1) inp d = (do
      let (v, r) ← unpack f r
      if hashable (.tup (deepTupleList xs)) then unpackMap f n r (dictSet d (.tup (deepTupleList xs)) v)
      else .error .unhashable) := by
  rw [unpackMap, hk]
  simp [ok_bind]

theorem unpackMap_step_err (f n : Nat) (inp : Bytes) (d : Dict) (e : Err)
    (hk : unpack f inp = .error e) : unpackMap f (n + 1) inp d = .error e := by
  rw [unpackMap, hk]; rfl

theorem unpackN_step (f n : Nat) (inp r : Bytes) (v : Value) (hk : unpack f inp = .ok (v, r)) :
    unpackN f (n + 1) inp = (do let (vs, r) ← unpackN f n r; pure (v :: vs, r)) := by
  rw [unpackN, hk]; rfl

theorem unpackN_step_err (f n : Nat) (inp : Bytes) (e : Err)
    (hk : unpack f inp = .error e) : unpackN f (n + 1) inp = .error e := by
  rw [unpackN, hk]; rfl


theorem succ_of_lt {n f : Nat} (h : n < f) : ∃ f', f = f' + 1 := ⟨f - 1, by omega⟩

mutual
theorem unpack_ok : (v : Value) → ∀ (bs extra : Bytes) (f : Nat), Encodes v bs → wf v = true →
    (bs ++ extra).length < f → unpack f (bs ++ extra) = .ok (normV v, extra)
  | .nil, bs, extra, f, he, _, hf => by
    obtain ⟨f, rfl⟩ := succ_of_lt hf
    simpa [normV] using unpack_nil_ok bs extra f he
  | .bool b, bs, extra, f, he, _, hf => by
    obtain ⟨f, rfl⟩ := succ_of_lt hf
    simpa [normV] using unpack_bool_ok b bs extra f he
  | .int n, bs, extra, f, he, _, hf => by
    obtain ⟨f, rfl⟩ := succ_of_lt hf
    simpa [normV] using unpack_int_ok n bs extra f he
  | .float x, bs, extra, f, he, _, hf => by
    obtain ⟨f, rfl⟩ := succ_of_lt hf
    simpa [normV] using unpack_float_ok x bs extra f he
  | .str p, bs, extra, f, he, hw, hf => by
    obtain ⟨f, rfl⟩ := succ_of_lt hf
    simp [wf] at hw
    simpa [normV] using unpack_str_ok p bs extra f he hw.1.2
  | .bin p, bs, extra, f, he, _, hf => by
    obtain ⟨f, rfl⟩ := succ_of_lt hf
    simpa [normV] using unpack_bin_ok p bs extra f he
  | .ext ty p, bs, extra, f, he, hw, hf => by
    obtain ⟨f, rfl⟩ := succ_of_lt hf
    simp [wf] at hw
    simpa [normV] using unpack_ext_ok ty p bs extra f he hw.1.1.2
  | .opaque, _, _, _, _, hw, _ => by simp [wf] at hw
  | .arr xs, bs, extra, f, he, hw, hf => by
    obtain ⟨f, rfl⟩ := succ_of_lt hf
    obtain ⟨hdr, bs', rfl, hel, hne, hdec, _⟩ := arr_header xs bs he
    simp [wf] at hw
    have := List.length_pos_iff.mpr hne
    rw [List.append_assoc, hdec, unpackN_ok xs bs' extra f hel hw.2 (by simp at hf ⊢; omega)]
    simp [normV, ok_bind, pure_ok]
  | .tup xs, bs, extra, f, he, hw, hf => by
    obtain ⟨f, rfl⟩ := succ_of_lt hf
    obtain ⟨hdr, bs', rfl, hel, hne, hdec, _⟩ := tup_header xs bs he
    simp [wf] at hw
    have := List.length_pos_iff.mpr hne
    rw [List.append_assoc, hdec, unpackN_ok xs bs' extra f hel hw.2 (by simp at hf ⊢; omega)]
    simp [normV, ok_bind, pure_ok]
  | .map kvs, bs, extra, f, he, hw, hf => by
    obtain ⟨f, rfl⟩ := succ_of_lt hf
    obtain ⟨hdr, bs', rfl, hel, hne, hdec, _⟩ := map_header kvs bs he
    simp [wf] at hw
    have := List.length_pos_iff.mpr hne
    rw [List.append_assoc, hdec, unpackMap_ok kvs bs' extra f [] hel hw.1.2 hw.2 (by simp)
      (by simp at hf ⊢; omega)]
    simp [normV, ok_bind, pure_ok]
theorem unpackN_ok : (xs : List Value) → ∀ (bs extra : Bytes) (f : Nat), EncodesList xs bs →
    wfList xs = true → (bs ++ extra).length < f →
    unpackN f xs.length (bs ++ extra) = .ok (normList xs, extra)
  | [], bs, extra, f, he, _, _ => by
    cases he; simp [unpackN, normList]
  | x :: xs, bs, extra, f, he, hw, hf => by
    cases he with
    | cons _ _ a b hea heb =>
      simp [wfList] at hw
      simp only [List.length_cons, List.append_assoc]
      rw [unpackN_step _ _ _ _ _ (unpack_ok x a (b ++ extra) f hea hw.1 (by simpa using hf)),
        unpackN_ok xs b extra f heb hw.2 (by simp at hf ⊢; omega)]
      simp [normList, ok_bind, pure_ok]
theorem unpackMap_ok : (kvs : List (Value × Value)) → ∀ (bs extra : Bytes) (f : Nat) (d : Dict),
    EncodesPairs kvs bs → wfPairs kvs = true → keysDistinct (kvs.map Prod.fst) = true →
    (∀ p ∈ d, ∀ k ∈ kvs.map Prod.fst, keyEq p.1 k = false) → (bs ++ extra).length < f →
    unpackMap f kvs.length (bs ++ extra) d = .ok (d ++ normPairs kvs, extra)
  | [], bs, extra, f, d, he, _, _, _, _ => by
    cases he; simp [unpackMap, normPairs]
  | (k, v) :: kvs, bs, extra, f, d, he, hw, hkd, hd, hf => by
    cases he with
    | cons _ _ _ a b c hea heb hec =>
      simp [wfPairs] at hw
      obtain ⟨⟨⟨hwk, hhk⟩, hwv⟩, hwr⟩ := hw
      simp [keysDistinct] at hkd
      simp only [List.length_cons, List.append_assoc]
      have hk := unpack_ok k a (b ++ (c ++ extra)) f hea hwk (by simpa using hf)
      have hv := unpack_ok v b (c ++ extra) f heb hwv (by simp at hf ⊢; omega)
      have hdk : ∀ p ∈ d, keyEq p.1 k = false := fun p hp => hd p hp k (by simp)
      have hd' : ∀ p ∈ d ++ [(k, normV v)], ∀ k2 ∈ kvs.map Prod.fst, keyEq p.1 k2 = false := by
        intro p hp k2 hk2
        rcases List.mem_append.mp hp with hp | hp
        · exact hd p hp k2 (by simp at hk2 ⊢; exact .inr hk2)
        · simp at hp; subst hp
          simp at hk2
          obtain ⟨v2, hk2⟩ := hk2
          simpa using hkd.1 k2 v2 hk2
      have hrec := unpackMap_ok kvs c extra f (d ++ [(k, normV v)]) hec hwr hkd.2 hd'
        (by simp at hf ⊢; omega)
      rcases key_cases k hhk with ⟨hn, hna⟩ | ⟨xs, rfl, hxs⟩
      · rw [hn] at hk
        rw [unpackMap_step_atom _ _ _ _ _ _ hk hhk hna (dictHas_false d k hdk), hv]
        simp only [ok_bind]
        rw [dictSet_append d k _ hdk, hrec]
        simp [normPairs]
      · simp only [normV] at hk
        rw [unpackMap_step_arr _ _ _ _ _ _ hk, hv]
        simp only [ok_bind, deepTupleList_normList xs hxs, hhk, if_true]
        rw [dictSet_append d _ _ hdk, hrec]
        simp [normPairs]
end

end SuppModel.Msgpack
