/-
  Helper lemmas for property C14 (MessagePack codec).  Layout:
    Lemmas1  bytes / big-endian / `Except` normal forms / dispatch table = spec table
    Lemmas2  encoder: every `Generated.pack*` chain emits a legal `Encodes` encoding (`pack_valid`)
    Lemmas3  decoder on atoms and container headers
    Lemmas4  decoder accepts every legal encoding of a `wf` value (`unpack_ok`)
    Lemmas5  decoder rejects every proper prefix as insufficient data (`unpack_prefix`)
    Lemmas6  decoder only produces integers in [-2^63, 2^64) (`unpack_range`)
    Lemmas7  encoder never fails with `struct.error` (`pack_errs`)
    Lemmas8  decoder on byte strings never reaches a "logic error" branch (`unpack_good`)
    Lemmas9  smallest-format selection (`pack_minimal`)
  This file: the `loads`/`dumps`-level corollaries the property theorems call.
-/
import SuppModel.Msgpack.Lemmas9

namespace SuppModel.Msgpack
set_option linter.unusedSimpArgs false
set_option linter.unusedVariables false

mutual
theorem normV_of_tupFree : (v : Value) → tupFree v = true → normV v = v
  | .arr xs, h => by simp [tupFree] at h; simp [normV, normList_of_tupFree xs h]
  | .map kvs, h => by simp [tupFree] at h; simp [normV, normPairs_of_tupFree kvs h]
  | .tup _, h => by simp [tupFree] at h
  | .nil, _ | .bool _, _ | .int _, _ | .float _, _ | .str _, _ | .bin _, _ | .ext _ _, _
  | .opaque, _ => by simp [normV]
theorem normList_of_tupFree : (xs : List Value) → tupFreeList xs = true → normList xs = xs
  | [], _ => by simp [normList]
  | x :: xs, h => by
    simp [tupFreeList] at h
    simp [normList, normV_of_tupFree x h.1, normList_of_tupFree xs h.2]
theorem normPairs_of_tupFree : (kvs : List (Value × Value)) → tupFreePairs kvs = true →
    normPairs kvs = kvs
  | [], _ => by simp [normPairs]
  | (k, v) :: kvs, h => by
    simp [tupFreePairs] at h
    simp [normPairs, normV_of_tupFree v h.1, normPairs_of_tupFree kvs h.2]
end

theorem dumps_valid (v : Value) (h : wf v = true) :
    ∃ bs, dumps v = .ok bs ∧ Encodes v bs ∧ BytesOK bs := pack_valid v h

theorem loads_ok (v : Value) (bs extra : Bytes) (he : Encodes v bs) (h : wf v = true) :
    loads (bs ++ extra) = .ok (normV v) := by
  unfold loads
  rw [unpack_ok v bs extra _ he h (Nat.lt_succ_self _)]
  rfl

theorem loads_prefix (v : Value) (bs p : Bytes) (he : Encodes v bs) (h : wf v = true)
    (hp : p <+: bs) (hne : p ≠ bs) : loads p = .error .insufficient := by
  unfold loads
  rw [unpack_prefix v bs p _ he h hp hne (Nat.lt_succ_self _)]
  rfl

theorem dumps_int_range (n : Int) (h : n < -(2 : Int) ^ 63 ∨ (2 : Int) ^ 64 ≤ n) :
    dumps (.int n) = .error .unsupported := by
  simp only [dumps, pack]
  unfold Generated.packInteger
  repeat' split
  all_goals first | rfl | omega

theorem loads_range (bs : Bytes) (v : Value) (hb : BytesOK bs) (h : loads bs = .ok v) :
    intsInRange v = true := by
  unfold loads at h
  cases hu : unpack (bs.length + 1) bs with
  | error e => rw [hu] at h; cases h
  | ok p =>
    obtain ⟨v', r⟩ := p
    rw [hu] at h
    injection h with h
    subst h
    exact (unpack_range _ bs v' r hb hu).1

/-- the encoder's output is a shortest legal encoding, up to 4 bytes per float (the encoder always
    uses float64; the specification also allows float32 where exact) -/
theorem dumps_minimal (v : Value) (bs : Bytes) (he : Encodes v bs) (h : wf v = true) :
    ∃ ds, dumps v = .ok ds ∧ ds.length ≤ bs.length + 4 * floatCount v := by
  obtain ⟨ds, hd, _, _⟩ := dumps_valid v h
  exact ⟨ds, hd, pack_minimal v bs ds he hd⟩

theorem decErr_iff (e : Err) : decErr e = true ↔
    (e = .insufficient ∨ e = .invalidString ∨ e = .reserved ∨ e = .unhashable ∨ e = .duplicate ∨
      e = .typeError) := by
  cases e <;> simp [decErr]

theorem dumps_errors (v : Value) : (∃ bs, dumps v = .ok bs) ∨ dumps v = .error .unsupported := by
  unfold dumps
  cases h : pack v with
  | ok bs => exact .inl ⟨bs, rfl⟩
  | error e => rw [pack_errs v e h]; exact .inr rfl

end SuppModel.Msgpack
