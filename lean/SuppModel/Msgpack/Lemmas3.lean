import SuppModel.Msgpack.Lemmas2
namespace SuppModel.Msgpack
set_option linter.unusedSimpArgs false
set_option linter.unusedVariables false

theorem readExcept_eq (n : Nat) (inp : Bytes) :
    readExcept n inp =
      if inp.length < n then .error .insufficient else .ok (inp.take n, inp.drop n) := by
  unfold readExcept
  simp only [List.length_take]
  split <;> split <;> first | rfl | omega

theorem readExcept_append (n : Nat) (a r : Bytes) (h : a.length = n) :
    readExcept n (a ++ r) = .ok (a, r) := by
  subst h; simp [readExcept_eq]

theorem readExcept_exact (n : Nat) (a : Bytes) (h : a.length = n) :
    readExcept n a = .ok (a, []) := by
  simpa using readExcept_append n a [] h

theorem readExcept_short (n : Nat) (q : Bytes) (h : q.length < n) :
    readExcept n q = .error .insufficient := by
  simp [readExcept_eq, h]

theorem unpack_nil (f : Nat) : unpack (f + 1) [] = .error .insufficient := by
  simp [unpack, readExcept_eq, err_bind]


section
variable (f c : Nat) (rest : Bytes)
theorem unpack_integer (hd : Generated.dispatch c = .integer) :
    unpack (f + 1) (c :: rest) = (do let (n, r) ← unpackInteger c rest; pure (.int n, r)) := by
  rw [unpack]; simp [readExcept_eq, ok_bind, hd]
theorem unpack_nilF (hd : Generated.dispatch c = .nil) :
    unpack (f + 1) (c :: rest) = if c = 0xc0 then .ok (.nil, rest) else .error .logic := by
  rw [unpack]; simp [readExcept_eq, ok_bind, hd]; rfl
theorem unpack_boolean (hd : Generated.dispatch c = .boolean) :
    unpack (f + 1) (c :: rest) = if c = 0xc2 then .ok (.bool false, rest)
        else if c = 0xc3 then .ok (.bool true, rest) else .error .logic := by
  rw [unpack]; simp [readExcept_eq, ok_bind, hd]; rfl
theorem unpack_float (hd : Generated.dispatch c = .float) :
    unpack (f + 1) (c :: rest) = (do let (b, r) ← unpackFloat c rest; pure (.float b, r)) := by
  rw [unpack]; simp [readExcept_eq, ok_bind, hd]
theorem unpack_string (hd : Generated.dispatch c = .string) :
    unpack (f + 1) (c :: rest) = unpackString c rest := by
  rw [unpack]; simp [readExcept_eq, ok_bind, hd]
theorem unpack_binary (hd : Generated.dispatch c = .binary) :
    unpack (f + 1) (c :: rest) = unpackBinary c rest := by
  rw [unpack]; simp [readExcept_eq, ok_bind, hd]
theorem unpack_ext (hd : Generated.dispatch c = .ext) :
    unpack (f + 1) (c :: rest) = unpackExt c rest := by
  rw [unpack]; simp [readExcept_eq, ok_bind, hd]
theorem unpack_array (hd : Generated.dispatch c = .array) :
    unpack (f + 1) (c :: rest) = (do
        let (len, r) ← readLen c 0xf0 0x90 0x0f 0 0xdc 0xdd rest
        let (xs, r) ← unpackN f len r
        pure (.arr xs, r)) := by
  rw [unpack]; simp [readExcept_eq, ok_bind, hd]
theorem unpack_map (hd : Generated.dispatch c = .map) :
    unpack (f + 1) (c :: rest) = (do
        let (len, r) ← readLen c 0xf0 0x80 0x0f 0 0xde 0xdf rest
        let (d, r) ← unpackMap f len r []
        pure (.map d, r)) := by
  rw [unpack]; simp [readExcept_eq, ok_bind, hd]
end

theorem disp_lit (b : Nat) (F : Generated.Family) (h : b < 256) (hs : specFamily b = F) :
    Generated.dispatch b = F := by rw [dispatch_eq b h, hs]


theorem unpackSigned_eq_sInt (b : Bytes) (h : b.length = 1 ∨ b.length = 2 ∨ b.length = 4 ∨ b.length = 8) :
    unpackSigned b = sInt b := by
  unfold unpackSigned sInt
  rcases h with h | h | h | h <;> simp only [h, Nat.reducePow, Int.ofNat_eq_natCast] <;> split <;> split <;> omega

theorem disp_posfix : ∀ n, n < 128 → Generated.dispatch n = .integer := by decide +kernel
theorem disp_negfix : ∀ n, n < 256 → 224 ≤ n → Generated.dispatch n = .integer := by decide +kernel
theorem disp_fixstr : ∀ k, k < 32 → Generated.dispatch (160 + k) = .string := by decide +kernel
theorem disp_fixarr : ∀ k, k < 16 → Generated.dispatch (144 + k) = .array := by decide +kernel
theorem disp_fixmap : ∀ k, k < 16 → Generated.dispatch (128 + k) = .map := by decide +kernel
theorem and_posfix : ∀ n, n < 128 → (n &&& 0xe0 ≠ 0xe0 ∧ n &&& 0x80 = 0) := by decide
theorem and_negfix : ∀ n, n < 256 → 224 ≤ n → n &&& 0xe0 = 0xe0 := by decide +kernel

theorem unpackInteger_posfix (n : Nat) (h : n < 128) (rest : Bytes) :
    unpackInteger n rest = .ok ((n : Int), rest) := by
  have := and_posfix n h
  simp [unpackInteger, this, unpackUnsigned, beVal]
  repeat (split; · omega)
  rfl

theorem unpackInteger_negfix (n : Nat) (h1 : 224 ≤ n) (h2 : n < 256) (rest : Bytes) :
    unpackInteger n rest = .ok ((n : Int) - 256, rest) := by
  have := and_negfix n h2 h1
  simp [unpackInteger, this, unpackSigned, beVal]
  omega


theorem unpack_int_ok (n : Int) (bs extra : Bytes) (f : Nat) (he : Encodes (.int n) bs) :
    unpack (f + 1) (bs ++ extra) = .ok (.int n, extra) := by
  cases he with
  | posfix n h =>
    simp only [List.cons_append, List.append_assoc, List.nil_append]; rw [unpack_integer _ _ _ (disp_posfix n h)]
    simp [unpackInteger_posfix n h, ok_bind, pure_ok]
  | negfix n h1 h2 =>
    simp only [List.cons_append, List.append_assoc, List.nil_append]; rw [unpack_integer _ _ _ (disp_negfix n h2 h1)]
    simp [unpackInteger_negfix n h1 h2, ok_bind, pure_ok]
  | uint8 b hl hok =>
    simp only [List.cons_append, List.append_assoc, List.nil_append]; rw [unpack_integer _ _ _ (disp_lit _ _ (by decide) (by decide))]
    simp [unpackInteger, readExcept_append, hl, ok_bind, pure_ok, unpackUnsigned]
  | uint16 b hl hok =>
    simp only [List.cons_append, List.append_assoc, List.nil_append]; rw [unpack_integer _ _ _ (disp_lit _ _ (by decide) (by decide))]
    simp [unpackInteger, readExcept_append, hl, ok_bind, pure_ok, unpackUnsigned]
  | uint32 b hl hok =>
    simp only [List.cons_append, List.append_assoc, List.nil_append]; rw [unpack_integer _ _ _ (disp_lit _ _ (by decide) (by decide))]
    simp [unpackInteger, readExcept_append, hl, ok_bind, pure_ok, unpackUnsigned]
  | uint64 b hl hok =>
    simp only [List.cons_append, List.append_assoc, List.nil_append]; rw [unpack_integer _ _ _ (disp_lit _ _ (by decide) (by decide))]
    simp [unpackInteger, readExcept_append, hl, ok_bind, pure_ok, unpackUnsigned]
  | int8 b hl hok =>
    simp only [List.cons_append, List.append_assoc, List.nil_append]; rw [unpack_integer _ _ _ (disp_lit _ _ (by decide) (by decide))]
    simp [unpackInteger, readExcept_append, hl, ok_bind, pure_ok, unpackSigned_eq_sInt]
  | int16 b hl hok =>
    simp only [List.cons_append, List.append_assoc, List.nil_append]; rw [unpack_integer _ _ _ (disp_lit _ _ (by decide) (by decide))]
    simp [unpackInteger, readExcept_append, hl, ok_bind, pure_ok, unpackSigned_eq_sInt]
  | int32 b hl hok =>
    simp only [List.cons_append, List.append_assoc, List.nil_append]; rw [unpack_integer _ _ _ (disp_lit _ _ (by decide) (by decide))]
    simp [unpackInteger, readExcept_append, hl, ok_bind, pure_ok, unpackSigned_eq_sInt]
  | int64 b hl hok =>
    simp only [List.cons_append, List.append_assoc, List.nil_append]; rw [unpack_integer _ _ _ (disp_lit _ _ (by decide) (by decide))]
    simp [unpackInteger, readExcept_append, hl, ok_bind, pure_ok, unpackSigned_eq_sInt]


theorem and_fixstr : ∀ k, k < 32 → ((160 + k) &&& 0xe0 = 0xa0 ∧ (160 + k) &&& 0x1f = k) := by decide
theorem and_fixarr : ∀ k, k < 16 → ((144 + k) &&& 0xf0 = 0x90 ∧ (144 + k) &&& 0x0f = k) := by decide
theorem and_fixmap : ∀ k, k < 16 → ((128 + k) &&& 0xf0 = 0x80 ∧ (128 + k) &&& 0x0f = k) := by decide

theorem beVal_beBytes_lt (w n : Nat) (h : n < 256 ^ w) : beVal (beBytes w n) = n := by
  rw [beVal_beBytes, Nat.mod_eq_of_lt h]

theorem beVal_beBytes1 (n : Nat) (h : n < 2 ^ 8) : beVal (beBytes 1 n) = n :=
  beVal_beBytes_lt 1 n (Nat.lt_of_lt_of_le h (by decide))
theorem beVal_beBytes2 (n : Nat) (h : n < 2 ^ 16) : beVal (beBytes 2 n) = n :=
  beVal_beBytes_lt 2 n (Nat.lt_of_lt_of_le h (by decide))
theorem beVal_beBytes4 (n : Nat) (h : n < 2 ^ 32) : beVal (beBytes 4 n) = n :=
  beVal_beBytes_lt 4 n (Nat.lt_of_lt_of_le h (by decide))

theorem unpack_nil_ok (bs extra : Bytes) (f : Nat) (he : Encodes .nil bs) :
    unpack (f + 1) (bs ++ extra) = .ok (.nil, extra) := by
  cases he
  simp only [List.cons_append, List.append_assoc, List.nil_append]; rw [unpack_nilF _ _ _ (disp_lit _ _ (by decide) (by decide))]
  simp

theorem unpack_bool_ok (b : Bool) (bs extra : Bytes) (f : Nat) (he : Encodes (.bool b) bs) :
    unpack (f + 1) (bs ++ extra) = .ok (.bool b, extra) := by
  cases he <;> simp only [List.cons_append, List.append_assoc, List.nil_append] <;> rw [unpack_boolean _ _ _ (disp_lit _ _ (by decide) (by decide))] <;> simp

theorem unpack_float_ok (x : Nat) (bs extra : Bytes) (f : Nat) (he : Encodes (.float x) bs) :
    unpack (f + 1) (bs ++ extra) = .ok (.float x, extra) := by
  cases he with
  | float32 b hl hok =>
    simp only [List.cons_append, List.append_assoc, List.nil_append]; rw [unpack_float _ _ _ (disp_lit _ _ (by decide) (by decide))]
    simp [unpackFloat, readExcept_append, hl, ok_bind, pure_ok]
  | float64 b hl hok =>
    simp only [List.cons_append, List.append_assoc, List.nil_append]; rw [unpack_float _ _ _ (disp_lit _ _ (by decide) (by decide))]
    simp [unpackFloat, readExcept_append, hl, ok_bind, pure_ok]

theorem unpack_str_ok (p bs extra : Bytes) (f : Nat) (he : Encodes (.str p) bs)
    (hv : validUtf8 p = true) : unpack (f + 1) (bs ++ extra) = .ok (.str p, extra) := by
  cases he with
  | fixstr _ h =>
    simp only [List.cons_append, List.append_assoc, List.nil_append]; rw [unpack_string _ _ _ (disp_fixstr _ h)]
    simp [unpackString, readLen, and_fixstr _ h, readExcept_append, ok_bind, pure_ok, hv]
  | str8 _ h =>
    simp only [List.cons_append, List.append_assoc, List.nil_append]; rw [unpack_string _ _ _ (disp_lit _ _ (by decide) (by decide))]
    simp [unpackString, readLen, readExcept_append, ok_bind, pure_ok, hv, beBytes_length,
      beVal_beBytes1 _ h]
  | str16 _ h =>
    simp only [List.cons_append, List.append_assoc, List.nil_append]; rw [unpack_string _ _ _ (disp_lit _ _ (by decide) (by decide))]
    simp [unpackString, readLen, readExcept_append, ok_bind, pure_ok, hv, beBytes_length,
      beVal_beBytes2 _ h]
  | str32 _ h =>
    simp only [List.cons_append, List.append_assoc, List.nil_append]; rw [unpack_string _ _ _ (disp_lit _ _ (by decide) (by decide))]
    simp [unpackString, readLen, readExcept_append, ok_bind, pure_ok, hv, beBytes_length,
      beVal_beBytes4 _ h]

theorem unpack_bin_ok (p bs extra : Bytes) (f : Nat) (he : Encodes (.bin p) bs) :
    unpack (f + 1) (bs ++ extra) = .ok (.bin p, extra) := by
  cases he with
  | bin8 _ h =>
    simp only [List.cons_append, List.append_assoc, List.nil_append]; rw [unpack_binary _ _ _ (disp_lit _ _ (by decide) (by decide))]
    simp [unpackBinary, readLen, readExcept_append, ok_bind, pure_ok, beBytes_length,
      beVal_beBytes1 _ h]
  | bin16 _ h =>
    simp only [List.cons_append, List.append_assoc, List.nil_append]; rw [unpack_binary _ _ _ (disp_lit _ _ (by decide) (by decide))]
    simp [unpackBinary, readLen, readExcept_append, ok_bind, pure_ok, beBytes_length,
      beVal_beBytes2 _ h]
  | bin32 _ h =>
    simp only [List.cons_append, List.append_assoc, List.nil_append]; rw [unpack_binary _ _ _ (disp_lit _ _ (by decide) (by decide))]
    simp [unpackBinary, readLen, readExcept_append, ok_bind, pure_ok, beBytes_length,
      beVal_beBytes4 _ h]


theorem readExcept_one (t : Nat) (r : Bytes) : readExcept 1 (t :: r) = .ok ([t], r) := by
  simp [readExcept_eq]

theorem unpack_ext_ok (ty : Int) (p bs extra : Bytes) (f : Nat) (he : Encodes (.ext ty p) bs)
    (hty : ty ≤ 127) : unpack (f + 1) (bs ++ extra) = .ok (.ext ty p, extra) := by
  cases he with
  | fixext1 t _ hl =>
    have ht : t ≤ 127 := by omega
    simp only [List.cons_append, List.append_assoc, List.nil_append]; rw [unpack_ext _ _ _ (disp_lit _ _ (by decide) (by decide))]
    simp [unpackExt, readExcept_one, readExcept_append, hl, ok_bind, pure_ok, beVal, ht]
  | fixext2 t _ hl =>
    have ht : t ≤ 127 := by omega
    simp only [List.cons_append, List.append_assoc, List.nil_append]; rw [unpack_ext _ _ _ (disp_lit _ _ (by decide) (by decide))]
    simp [unpackExt, readExcept_one, readExcept_append, hl, ok_bind, pure_ok, beVal, ht]
  | fixext4 t _ hl =>
    have ht : t ≤ 127 := by omega
    simp only [List.cons_append, List.append_assoc, List.nil_append]; rw [unpack_ext _ _ _ (disp_lit _ _ (by decide) (by decide))]
    simp [unpackExt, readExcept_one, readExcept_append, hl, ok_bind, pure_ok, beVal, ht]
  | fixext8 t _ hl =>
    have ht : t ≤ 127 := by omega
    simp only [List.cons_append, List.append_assoc, List.nil_append]; rw [unpack_ext _ _ _ (disp_lit _ _ (by decide) (by decide))]
    simp [unpackExt, readExcept_one, readExcept_append, hl, ok_bind, pure_ok, beVal, ht]
  | fixext16 t _ hl =>
    have ht : t ≤ 127 := by omega
    simp only [List.cons_append, List.append_assoc, List.nil_append]; rw [unpack_ext _ _ _ (disp_lit _ _ (by decide) (by decide))]
    simp [unpackExt, readExcept_one, readExcept_append, hl, ok_bind, pure_ok, beVal, ht]
  | ext8 t _ h =>
    have ht : t ≤ 127 := by omega
    simp only [List.cons_append, List.append_assoc, List.nil_append]; rw [unpack_ext _ _ _ (disp_lit _ _ (by decide) (by decide))]
    simp [unpackExt, readLen, readExcept_one, readExcept_append, ok_bind, pure_ok, beVal, ht, beBytes_length,
      beVal_beBytes1 _ h]
  | ext16 t _ h =>
    have ht : t ≤ 127 := by omega
    simp only [List.cons_append, List.append_assoc, List.nil_append]; rw [unpack_ext _ _ _ (disp_lit _ _ (by decide) (by decide))]
    simp [unpackExt, readLen, readExcept_one, readExcept_append, ok_bind, pure_ok, beVal, ht, beBytes_length,
      beVal_beBytes2 _ h]
  | ext32 t _ h =>
    have ht : t ≤ 127 := by omega
    simp only [List.cons_append, List.append_assoc, List.nil_append]; rw [unpack_ext _ _ _ (disp_lit _ _ (by decide) (by decide))]
    simp [unpackExt, readLen, readExcept_one, readExcept_append, ok_bind, pure_ok, beVal, ht, beBytes_length,
      beVal_beBytes4 _ h]


/-- what a container header does to the decoder -/
def ArrHdr (hdr : Bytes) (n : Nat) : Prop :=
  hdr ≠ [] ∧
  (∀ f rest, unpack (f + 1) (hdr ++ rest) =
      (do let (ys, r) ← unpackN f n rest; pure (.arr ys, r))) ∧
  (∀ f q, q <+: hdr → q ≠ hdr → unpack (f + 1) q = .error .insufficient)

def MapHdr (hdr : Bytes) (n : Nat) : Prop :=
  hdr ≠ [] ∧
  (∀ f rest, unpack (f + 1) (hdr ++ rest) =
      (do let (d, r) ← unpackMap f n rest []; pure (.map d, r))) ∧
  (∀ f q, q <+: hdr → q ≠ hdr → unpack (f + 1) q = .error .insufficient)

theorem prefix_singleton {q : Bytes} {c : Nat} (h : q <+: [c]) (hne : q ≠ [c]) : q = [] := by
  match q, h with
  | [], _ => rfl
  | [x], h => simp at h; subst h; simp at hne
  | x :: y :: r, h => have := h.length_le; simp at this

theorem prefix_cons_proper {q hdr : Bytes} {c : Nat} (h : q <+: c :: hdr) (hne : q ≠ c :: hdr) :
    q = [] ∨ ∃ q', q = c :: q' ∧ q'.length < hdr.length := by
  cases q with
  | nil => exact .inl rfl
  | cons x q' =>
    right
    rw [List.cons_prefix_cons] at h
    obtain ⟨rfl, h⟩ := h
    refine ⟨q', rfl, ?_⟩
    have h1 := h.length_le
    rcases Nat.lt_or_ge q'.length hdr.length with h2 | h2
    · exact h2
    · exact absurd (by rw [h.eq_of_length (by omega)]) hne

theorem arrHdr_fix (k : Nat) (h : k < 16) : ArrHdr [144 + k] k := by
  refine ⟨by simp, ?_, ?_⟩
  · intro f rest
    simp only [List.cons_append, List.nil_append]
    rw [unpack_array _ _ _ (disp_fixarr _ h)]
    simp [readLen, and_fixarr _ h, ok_bind]
  · intro f q hq hne
    rw [prefix_singleton hq hne, unpack_nil]

theorem arrHdr_16 (k : Nat) (h : k < 2 ^ 16) : ArrHdr (0xdc :: beBytes 2 k) k := by
  refine ⟨by simp, ?_, ?_⟩
  · intro f rest
    simp only [List.cons_append, List.nil_append]
    rw [unpack_array _ _ _ (disp_lit _ _ (by decide) (by decide))]
    simp [readLen, ok_bind, readExcept_append, beBytes_length, beVal_beBytes2 _ h]
  · intro f q hq hne
    rcases prefix_cons_proper hq hne with rfl | ⟨q', rfl, hl⟩
    · rw [unpack_nil]
    · rw [unpack_array _ _ _ (disp_lit _ _ (by decide) (by decide))]
      rw [beBytes_length] at hl
      simp [readLen, readExcept_short _ _ hl, err_bind]

theorem arrHdr_32 (k : Nat) (h : k < 2 ^ 32) : ArrHdr (0xdd :: beBytes 4 k) k := by
  refine ⟨by simp, ?_, ?_⟩
  · intro f rest
    simp only [List.cons_append, List.nil_append]
    rw [unpack_array _ _ _ (disp_lit _ _ (by decide) (by decide))]
    simp [readLen, ok_bind, readExcept_append, beBytes_length, beVal_beBytes4 _ h]
  · intro f q hq hne
    rcases prefix_cons_proper hq hne with rfl | ⟨q', rfl, hl⟩
    · rw [unpack_nil]
    · rw [unpack_array _ _ _ (disp_lit _ _ (by decide) (by decide))]
      rw [beBytes_length] at hl
      simp [readLen, readExcept_short _ _ hl, err_bind]

theorem mapHdr_fix (k : Nat) (h : k < 16) : MapHdr [128 + k] k := by
  refine ⟨by simp, ?_, ?_⟩
  · intro f rest
    simp only [List.cons_append, List.nil_append]
    rw [unpack_map _ _ _ (disp_fixmap _ h)]
    simp [readLen, and_fixmap _ h, ok_bind]
  · intro f q hq hne
    rw [prefix_singleton hq hne, unpack_nil]

theorem mapHdr_16 (k : Nat) (h : k < 2 ^ 16) : MapHdr (0xde :: beBytes 2 k) k := by
  refine ⟨by simp, ?_, ?_⟩
  · intro f rest
    simp only [List.cons_append, List.nil_append]
    rw [unpack_map _ _ _ (disp_lit _ _ (by decide) (by decide))]
    simp [readLen, ok_bind, readExcept_append, beBytes_length, beVal_beBytes2 _ h]
  · intro f q hq hne
    rcases prefix_cons_proper hq hne with rfl | ⟨q', rfl, hl⟩
    · rw [unpack_nil]
    · rw [unpack_map _ _ _ (disp_lit _ _ (by decide) (by decide))]
      rw [beBytes_length] at hl
      simp [readLen, readExcept_short _ _ hl, err_bind]

theorem mapHdr_32 (k : Nat) (h : k < 2 ^ 32) : MapHdr (0xdf :: beBytes 4 k) k := by
  refine ⟨by simp, ?_, ?_⟩
  · intro f rest
    simp only [List.cons_append, List.nil_append]
    rw [unpack_map _ _ _ (disp_lit _ _ (by decide) (by decide))]
    simp [readLen, ok_bind, readExcept_append, beBytes_length, beVal_beBytes4 _ h]
  · intro f q hq hne
    rcases prefix_cons_proper hq hne with rfl | ⟨q', rfl, hl⟩
    · rw [unpack_nil]
    · rw [unpack_map _ _ _ (disp_lit _ _ (by decide) (by decide))]
      rw [beBytes_length] at hl
      simp [readLen, readExcept_short _ _ hl, err_bind]

theorem arr_header (xs : List Value) (bs : Bytes) (he : Encodes (.arr xs) bs) :
    ∃ hdr bs', bs = hdr ++ bs' ∧ EncodesList xs bs' ∧ ArrHdr hdr xs.length := by
  cases he with
  | fixarr _ bs' h hl => exact ⟨_, bs', rfl, hl, arrHdr_fix _ h⟩
  | arr16 _ bs' h hl => exact ⟨_, bs', rfl, hl, arrHdr_16 _ h⟩
  | arr32 _ bs' h hl => exact ⟨_, bs', rfl, hl, arrHdr_32 _ h⟩

theorem tup_header (xs : List Value) (bs : Bytes) (he : Encodes (.tup xs) bs) :
    ∃ hdr bs', bs = hdr ++ bs' ∧ EncodesList xs bs' ∧ ArrHdr hdr xs.length := by
  cases he with
  | fixtup _ bs' h hl => exact ⟨_, bs', rfl, hl, arrHdr_fix _ h⟩
  | tup16 _ bs' h hl => exact ⟨_, bs', rfl, hl, arrHdr_16 _ h⟩
  | tup32 _ bs' h hl => exact ⟨_, bs', rfl, hl, arrHdr_32 _ h⟩

theorem map_header (kvs : List (Value × Value)) (bs : Bytes) (he : Encodes (.map kvs) bs) :
    ∃ hdr bs', bs = hdr ++ bs' ∧ EncodesPairs kvs bs' ∧ MapHdr hdr kvs.length := by
  cases he with
  | fixmap _ bs' h hl => exact ⟨_, bs', rfl, hl, mapHdr_fix _ h⟩
  | map16 _ bs' h hl => exact ⟨_, bs', rfl, hl, mapHdr_16 _ h⟩
  | map32 _ bs' h hl => exact ⟨_, bs', rfl, hl, mapHdr_32 _ h⟩

end SuppModel.Msgpack
