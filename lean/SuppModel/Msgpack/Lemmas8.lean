import SuppModel.Msgpack.Lemmas7
namespace SuppModel.Msgpack
set_option linter.unusedSimpArgs false
set_option linter.unusedVariables false

/-! ### on byte strings the decoder's "logic error" branches are unreachable -/

/-- the exceptions `umsgpack.unpackb` can actually raise on a `bytes` input -/
def decErr : Err → Bool
  | .insufficient | .invalidString | .reserved | .unhashable | .duplicate | .typeError => true
  | _ => false

/-- post-condition of every decoder stage: it fails with a decoder error, or leaves a
    byte-string remainder no longer than `n` -/
def Good {α} (n : Nat) (x : Except Err (α × Bytes)) : Prop :=
  match x with
  | .ok (_, r) => r.length ≤ n ∧ BytesOK r
  | .error e => decErr e = true

theorem good_ok {α} {n : Nat} (a : α) (r : Bytes) (h1 : r.length ≤ n) (h2 : BytesOK r) :
    Good n (Except.ok (a, r) : Except Err (α × Bytes)) := ⟨h1, h2⟩

theorem good_pure {α} {n : Nat} (a : α) (r : Bytes) (h1 : r.length ≤ n) (h2 : BytesOK r) :
    Good n (pure (a, r) : Except Err (α × Bytes)) := ⟨h1, h2⟩

theorem good_err {α} {n : Nat} (e : Err) (h : decErr e = true) :
    Good n (Except.error e : Except Err (α × Bytes)) := h

theorem good_mono {α} {n m : Nat} {x : Except Err (α × Bytes)} (h : Good n x) (hnm : n ≤ m) :
    Good m x := by
  cases x with
  | error e => exact h
  | ok p => obtain ⟨a, r⟩ := p; exact ⟨Nat.le_trans h.1 hnm, h.2⟩

theorem good_bind {α β} {n : Nat} {x : Except Err (α × Bytes)} {f : α × Bytes → Except Err (β × Bytes)}
    (hx : Good n x) (hf : ∀ a r, r.length ≤ n → BytesOK r → Good n (f (a, r))) :
    Good n (x >>= f) := by
  cases x with
  | error e => rw [err_bind]; exact hx
  | ok p => obtain ⟨a, r⟩ := p; rw [ok_bind]; exact hf a r hx.1 hx.2

theorem good_readExcept {n : Nat} (k : Nat) (inp : Bytes) (hok : BytesOK inp) (hn : inp.length ≤ n) :
    Good n (readExcept k inp) := by
  rw [readExcept_eq]
  split
  · exact good_err _ rfl
  · have h := BytesOK_append.mp (by rw [List.take_append_drop]; exact hok : BytesOK (inp.take k ++ inp.drop k))
    exact good_ok _ _ (by rw [List.length_drop]; omega) h.2

/-! the codes the dispatch table sends to each family (checked on the generated table) -/

theorem integer_codes : ∀ c, c < 256 → Generated.dispatch c = .integer →
    (c &&& 0xe0 = 0xe0 ∨ c = 0xd0 ∨ c = 0xd1 ∨ c = 0xd2 ∨ c = 0xd3 ∨ c &&& 0x80 = 0 ∨
     c = 0xcc ∨ c = 0xcd ∨ c = 0xce ∨ c = 0xcf) := by decide +kernel
theorem nil_codes : ∀ c, c < 256 → Generated.dispatch c = .nil → c = 0xc0 := by decide +kernel
theorem reserved_codes : ∀ c, c < 256 → Generated.dispatch c = .reserved → c = 0xc1 := by
  decide +kernel
theorem boolean_codes : ∀ c, c < 256 → Generated.dispatch c = .boolean → (c = 0xc2 ∨ c = 0xc3) := by
  decide +kernel
theorem float_codes : ∀ c, c < 256 → Generated.dispatch c = .float → (c = 0xca ∨ c = 0xcb) := by
  decide +kernel
theorem string_codes : ∀ c, c < 256 → Generated.dispatch c = .string →
    (c &&& 0xe0 = 0xa0 ∨ c = 0xd9 ∨ c = 0xda ∨ c = 0xdb) := by decide +kernel
theorem binary_codes : ∀ c, c < 256 → Generated.dispatch c = .binary →
    (c = 0xc4 ∨ c = 0xc5 ∨ c = 0xc6) := by decide +kernel
theorem ext_codes : ∀ c, c < 256 → Generated.dispatch c = .ext →
    (c = 0xd4 ∨ c = 0xd5 ∨ c = 0xd6 ∨ c = 0xd7 ∨ c = 0xd8 ∨ c = 0xc7 ∨ c = 0xc8 ∨ c = 0xc9) := by
  decide +kernel
theorem array_codes : ∀ c, c < 256 → Generated.dispatch c = .array →
    (c &&& 0xf0 = 0x90 ∨ c = 0xdc ∨ c = 0xdd) := by decide +kernel
theorem map_codes : ∀ c, c < 256 → Generated.dispatch c = .map →
    (c &&& 0xf0 = 0x80 ∨ c = 0xde ∨ c = 0xdf) := by decide +kernel
theorem missing_codes : ∀ c, c < 256 → Generated.dispatch c ≠ .missing := by decide +kernel

theorem unpackInteger_good (c : Nat) (inp : Bytes)
    (hc : c &&& 0xe0 = 0xe0 ∨ c = 0xd0 ∨ c = 0xd1 ∨ c = 0xd2 ∨ c = 0xd3 ∨ c &&& 0x80 = 0 ∨
      c = 0xcc ∨ c = 0xcd ∨ c = 0xce ∨ c = 0xcf) (hok : BytesOK inp) :
    Good inp.length (unpackInteger c inp) := by
  unfold unpackInteger
  iterate 10
    split
    · first
      | exact good_ok _ _ (Nat.le_refl _) hok
      | (apply good_bind (good_readExcept _ _ hok (Nat.le_refl _))
         intro a r hr hr'
         exact good_pure _ _ hr hr')
  exfalso
  rcases hc with h | h | h | h | h | h | h | h | h | h <;> contradiction

theorem readLen_good (c m t l c8 c16 c32 : Nat) (inp : Bytes)
    (hc : (m ≠ 0 ∧ c &&& m = t) ∨ (c8 ≠ 0 ∧ c = c8) ∨ (c16 ≠ 0 ∧ c = c16) ∨ (c32 ≠ 0 ∧ c = c32))
    (hok : BytesOK inp) : Good inp.length (readLen c m t l c8 c16 c32 inp) := by
  unfold readLen
  iterate 4
    split
    · first
      | exact good_ok _ _ (Nat.le_refl _) hok
      | (apply good_bind (good_readExcept _ _ hok (Nat.le_refl _))
         intro a r hr hr'
         exact good_pure _ _ hr hr')
  exfalso
  rcases hc with h | h | h | h <;> contradiction

theorem unpackFloat_good (c : Nat) (inp : Bytes) (hc : c = 0xca ∨ c = 0xcb) (hok : BytesOK inp) :
    Good inp.length (unpackFloat c inp) := by
  unfold unpackFloat
  iterate 2
    split
    · apply good_bind (good_readExcept _ _ hok (Nat.le_refl _))
      intro a r hr hr'
      exact good_pure _ _ hr hr'
  exfalso
  rcases hc with h | h <;> contradiction

theorem unpackString_good (c : Nat) (inp : Bytes)
    (hc : c &&& 0xe0 = 0xa0 ∨ c = 0xd9 ∨ c = 0xda ∨ c = 0xdb) (hok : BytesOK inp) :
    Good inp.length (unpackString c inp) := by
  unfold unpackString
  apply good_bind (readLen_good _ _ _ _ _ _ _ _ (by
    rcases hc with h | h | h | h
    · exact .inl ⟨by decide, h⟩
    · exact .inr (.inl ⟨by decide, h⟩)
    · exact .inr (.inr (.inl ⟨by decide, h⟩))
    · exact .inr (.inr (.inr ⟨by decide, h⟩))) hok)
  intro len r hr hr'
  apply good_bind (good_readExcept _ _ hr' hr)
  intro p r2 hr2 hr2'
  show Good _ (if validUtf8 p then pure (Value.str p, r2) else .error .invalidString)
  split
  · exact good_pure _ _ hr2 hr2'
  · exact good_err _ rfl

theorem unpackBinary_good (c : Nat) (inp : Bytes)
    (hc : c = 0xc4 ∨ c = 0xc5 ∨ c = 0xc6) (hok : BytesOK inp) :
    Good inp.length (unpackBinary c inp) := by
  unfold unpackBinary
  apply good_bind (readLen_good _ _ _ _ _ _ _ _ (by
    rcases hc with h | h | h
    · exact .inr (.inl ⟨by decide, h⟩)
    · exact .inr (.inr (.inl ⟨by decide, h⟩))
    · exact .inr (.inr (.inr ⟨by decide, h⟩))) hok)
  intro len r hr hr'
  apply good_bind (good_readExcept _ _ hr' hr)
  intro p r2 hr2 hr2'
  exact good_pure _ _ hr2 hr2'

/-- the common tail of `_unpack_ext` once the payload length is known -/
theorem extTail_good {n : Nat} (len : Nat) (r : Bytes) (hr : r.length ≤ n) (hok : BytesOK r) :
    Good n (do
      let (t, r) ← readExcept 1 r
      let (p, r) ← readExcept len r
      let ty := beVal t
      if ty ≤ 127 then pure (Value.ext (Int.ofNat ty) p, r) else .error .typeError) := by
  apply good_bind (good_readExcept _ _ hok hr)
  intro t r1 hr1 hr1'
  apply good_bind (good_readExcept _ _ hr1' hr1)
  intro p r2 hr2 hr2'
  show Good _ (if beVal t ≤ 127 then pure (Value.ext (Int.ofNat (beVal t)) p, r2) else .error .typeError)
  split
  · exact good_pure _ _ hr2 hr2'
  · exact good_err _ rfl

theorem unpackExt_good (c : Nat) (inp : Bytes)
    (hc : c = 0xd4 ∨ c = 0xd5 ∨ c = 0xd6 ∨ c = 0xd7 ∨ c = 0xd8 ∨ c = 0xc7 ∨ c = 0xc8 ∨ c = 0xc9)
    (hok : BytesOK inp) : Good inp.length (unpackExt c inp) := by
  simp only [unpackExt]
  iterate 5
    split
    · rw [pure_ok, ok_bind]
      exact extTail_good _ inp (Nat.le_refl _) hok
  apply good_bind (readLen_good _ _ _ _ _ _ _ _ (by
    rcases hc with h | h | h | h | h | h | h | h
    iterate 5 contradiction
    · exact .inr (.inl ⟨by decide, h⟩)
    · exact .inr (.inr (.inl ⟨by decide, h⟩))
    · exact .inr (.inr (.inr ⟨by decide, h⟩))) hok)
  intro len r hr hr'
  exact extTail_good len r hr hr'

theorem unpackN_good (f : Nat)
    (ih : ∀ inp, BytesOK inp → inp.length < f → Good inp.length (unpack f inp)) :
    ∀ n inp m, BytesOK inp → inp.length ≤ m → m < f → Good m (unpackN f n inp) := by
  intro n
  induction n with
  | zero =>
    intro inp m hok hm _
    simp only [unpackN]
    exact good_ok _ _ hm hok
  | succ n ihn =>
    intro inp m hok hm hf
    rw [unpackN]
    apply good_bind (good_mono (ih inp hok (by omega)) hm)
    intro v r hr hr'
    apply good_bind (ihn r m hr' hr hf)
    intro vs r2 hr2 hr2'
    exact good_pure _ _ hr2 hr2'

theorem unpackMap_good (f : Nat)
    (ih : ∀ inp, BytesOK inp → inp.length < f → Good inp.length (unpack f inp)) :
    ∀ n inp d m, BytesOK inp → inp.length ≤ m → m < f → Good m (unpackMap f n inp d) := by
  intro n
  induction n with
  | zero =>
    intro inp d m hok hm _
    simp only [unpackMap]
    exact good_ok _ _ hm hok
  | succ n ihn =>
    intro inp d m hok hm hf
    rw [unpackMap]
    apply good_bind (good_mono (ih inp hok (by omega)) hm)
    intro k r hr hr'
    have hval : ∀ g : Value × Bytes → Except Err (Dict × Bytes),
        (∀ v r2, r2.length ≤ m → BytesOK r2 → Good m (g (v, r2))) →
        Good m (unpack f r >>= g) := fun g hg =>
      good_bind (good_mono (ih r hr' (by omega)) hr) hg
    cases k
    case arr xs =>
      apply hval
      intro v r2 hr2 hr2'
      show Good m (if hashable (Value.tup (deepTupleList xs)) then
        unpackMap f n r2 (dictSet d (Value.tup (deepTupleList xs)) v) else .error .unhashable)
      split
      · exact ihn r2 _ m hr2' hr2 hf
      · exact good_err _ rfl
    all_goals
      simp only []
      split
      · exact good_err _ rfl
      · split
        · exact good_err _ rfl
        · apply hval
          intro v r2 hr2 hr2'
          exact ihn r2 _ m hr2' hr2 hf

theorem unpack_good : ∀ f inp, BytesOK inp → inp.length < f → Good inp.length (unpack f inp) := by
  intro f
  induction f with
  | zero => intro inp _ h; omega
  | succ f ih =>
    intro inp hok hf
    cases inp with
    | nil => rw [unpack_nil]; exact good_err _ rfl
    | cons c rest =>
      obtain ⟨hc, hrest⟩ := BytesOK_cons.mp hok
      have hlen : rest.length ≤ (c :: rest).length := by simp
      have hf' : rest.length < f := by simp at hf; omega
      cases hd : Generated.dispatch c
      case integer =>
        rw [unpack_integer _ _ _ hd]
        apply good_bind (good_mono (unpackInteger_good c rest (integer_codes c hc hd) hrest) hlen)
        intro n r hr hr'
        exact good_pure _ _ hr hr'
      case nil =>
        rw [unpack_nilF _ _ _ hd, if_pos (nil_codes c hc hd)]
        exact good_ok _ _ hlen hrest
      case reserved =>
        have := reserved_codes c hc hd
        subst this
        rw [unpack]; simp [readExcept_eq, ok_bind, hd]
        exact good_err _ rfl
      case missing => exact absurd hd (missing_codes c hc)
      case boolean =>
        rw [unpack_boolean _ _ _ hd]
        rcases boolean_codes c hc hd with rfl | rfl
        · exact good_ok _ _ hlen hrest
        · exact good_ok _ _ hlen hrest
      case float =>
        rw [unpack_float _ _ _ hd]
        apply good_bind (good_mono (unpackFloat_good c rest (float_codes c hc hd) hrest) hlen)
        intro n r hr hr'
        exact good_pure _ _ hr hr'
      case string =>
        rw [unpack_string _ _ _ hd]
        exact good_mono (unpackString_good c rest (string_codes c hc hd) hrest) hlen
      case binary =>
        rw [unpack_binary _ _ _ hd]
        exact good_mono (unpackBinary_good c rest (binary_codes c hc hd) hrest) hlen
      case ext =>
        rw [unpack_ext _ _ _ hd]
        exact good_mono (unpackExt_good c rest (ext_codes c hc hd) hrest) hlen
      case array =>
        rw [unpack_array _ _ _ hd]
        refine good_mono ?_ hlen
        apply good_bind (readLen_good _ _ _ _ _ _ _ rest (by
          rcases array_codes c hc hd with h | h | h
          · exact .inl ⟨by decide, h⟩
          · exact .inr (.inr (.inl ⟨by decide, h⟩))
          · exact .inr (.inr (.inr ⟨by decide, h⟩))) hrest)
        intro len r hr hr'
        apply good_bind (unpackN_good f ih len r rest.length hr' hr hf')
        intro xs r2 hr2 hr2'
        exact good_pure _ _ hr2 hr2'
      case map =>
        rw [unpack_map _ _ _ hd]
        refine good_mono ?_ hlen
        apply good_bind (readLen_good _ _ _ _ _ _ _ rest (by
          rcases map_codes c hc hd with h | h | h
          · exact .inl ⟨by decide, h⟩
          · exact .inr (.inr (.inl ⟨by decide, h⟩))
          · exact .inr (.inr (.inr ⟨by decide, h⟩))) hrest)
        intro len r hr hr'
        apply good_bind (unpackMap_good f ih len r [] rest.length hr' hr hf')
        intro xs r2 hr2 hr2'
        exact good_pure _ _ hr2 hr2'

/-- `loads` on a byte string: the only possible failures are the six decoder exceptions -/
theorem loads_errors (bs : Bytes) (hb : BytesOK bs) (e : Err) (h : loads bs = .error e) :
    decErr e = true := by
  unfold loads at h
  have hg := unpack_good (bs.length + 1) bs hb (Nat.lt_succ_self _)
  cases hu : unpack (bs.length + 1) bs with
  | error e' =>
    rw [hu] at h hg
    injection h with h
    subst h
    exact hg
  | ok p => rw [hu] at h; cases h

end SuppModel.Msgpack
