import SuppModel.Msgpack.Lemmas6
namespace SuppModel.Msgpack
set_option linter.unusedSimpArgs false
set_option linter.unusedVariables false

/-! ### the encoder never raises `struct.error`: every `struct.pack` call of the generated
    chains is guarded by a range test that puts its argument in range -/

def IsOk {α} (x : Except Err α) : Prop := ∃ a, x = .ok a

/-- the only failure is `UnsupportedTypeException` -/
def OnlyUnsupported {α} (x : Except Err α) : Prop := ∀ e, x = .error e → e = .unsupported

theorem isOk_ok {α} (a : α) : IsOk (Except.ok a : Except Err α) := ⟨a, rfl⟩

theorem onlyUnsup_of_isOk {α} {x : Except Err α} (h : IsOk x) : OnlyUnsupported x := by
  obtain ⟨a, rfl⟩ := h; intro e he; cases he

theorem onlyUnsup_unsupported {α} : OnlyUnsupported (Except.error .unsupported : Except Err α) := by
  intro e he; injection he with he; exact he.symm

theorem packUnsigned_isOk (w : Nat) (n : Int) (h1 : 0 ≤ n) (h2 : n < 256 ^ w) :
    IsOk (packUnsigned w n) := ⟨_, packUnsigned_ok w n h1 h2⟩

theorem packSigned_isOk (w : Nat) (n : Int) (h1 : -(256 ^ w / 2) ≤ n) (h2 : n < 256 ^ w / 2) :
    IsOk (packSigned w n) := ⟨_, packSigned_ok w n h1 h2⟩

theorem catBytes_isOk_nil : IsOk (catBytes []) := ⟨[], rfl⟩

theorem catBytes_isOk_cons {p : Except Err Bytes} {ps : List (Except Err Bytes)}
    (h1 : IsOk p) (h2 : IsOk (catBytes ps)) : IsOk (catBytes (p :: ps)) := by
  obtain ⟨a, rfl⟩ := h1
  obtain ⟨b, hb⟩ := h2
  exact ⟨a ++ b, by simp [catBytes, hb, ok_bind, pure_ok]⟩

theorem orNat160_eq (k : Nat) (h : (k : Int) ≤ 31) : orNat 160 (k : Int) = ((160 + k : Nat) : Int) := by
  simp [orNat, or160 k (by omega)]
theorem orNat144_eq (k : Nat) (h : (k : Int) ≤ 15) : orNat 144 (k : Int) = ((144 + k : Nat) : Int) := by
  simp [orNat, or144 k (by omega)]
theorem orNat128_eq (k : Nat) (h : (k : Int) ≤ 15) : orNat 128 (k : Int) = ((128 + k : Nat) : Int) := by
  simp [orNat, or128 k (by omega)]

/-- discharge `OnlyUnsupported (catBytes [...])` when every piece is in range -/
macro "chain_ok" : tactic => `(tactic| (
  apply onlyUnsup_of_isOk
  repeat' (with_reducible first | exact catBytes_isOk_nil | apply catBytes_isOk_cons)
  all_goals first
    | with_reducible exact isOk_ok _
    | ((with_reducible apply packUnsigned_isOk) <;> first | omega | (simp; omega))
    | ((with_reducible apply packSigned_isOk) <;> (simp; omega))))

theorem packInteger_errs (n : Int) : OnlyUnsupported (Generated.packInteger n) := by
  unfold Generated.packInteger
  simp only [packI8, packI16, packI32, packI64, packU8, packU16, packU32, packU64]
  repeat' split
  all_goals first | (with_reducible exact onlyUnsup_unsupported) | chain_ok

theorem packString_errs (k : Nat) (p : Bytes) : OnlyUnsupported (Generated.packString (k : Int) p) := by
  unfold Generated.packString
  simp only [packU8, packU16, packU32]
  split
  · rw [orNat160_eq _ ‹_›]; chain_ok
  · repeat' split
    all_goals first | (with_reducible exact onlyUnsup_unsupported) | chain_ok

theorem packBinary_errs (k : Nat) (p : Bytes) : OnlyUnsupported (Generated.packBinary (k : Int) p) := by
  unfold Generated.packBinary
  simp only [packU8, packU16, packU32]
  repeat' split
  all_goals first | (with_reducible exact onlyUnsup_unsupported) | chain_ok

theorem packExt_errs (k : Nat) (ty : Int) (p : Bytes) :
    OnlyUnsupported (Generated.packExt (k : Int) ty p) := by
  unfold Generated.packExt
  simp only [packU8, packU16, packU32]
  repeat' split
  all_goals first | (with_reducible exact onlyUnsup_unsupported) | chain_ok

theorem packArrayHeader_errs (k : Nat) : OnlyUnsupported (Generated.packArrayHeader (k : Int)) := by
  unfold Generated.packArrayHeader
  simp only [packU8, packU16, packU32]
  split
  · rw [orNat144_eq _ ‹_›]; chain_ok
  · repeat' split
    all_goals first | (with_reducible exact onlyUnsup_unsupported) | chain_ok

theorem packMapHeader_errs (k : Nat) : OnlyUnsupported (Generated.packMapHeader (k : Int)) := by
  unfold Generated.packMapHeader
  simp only [packU8, packU16, packU32]
  split
  · rw [orNat128_eq _ ‹_›]; chain_ok
  · repeat' split
    all_goals first | (with_reducible exact onlyUnsup_unsupported) | chain_ok

theorem bind_eq_error {α β} (x : Except Err α) (f : α → Except Err β) (e : Err) :
    (x >>= f) = .error e ↔ x = .error e ∨ ∃ a, x = .ok a ∧ f a = .error e := by
  cases x <;> simp [ok_bind, err_bind]

theorem onlyUnsup_bind {α β} {x : Except Err α} {f : α → Except Err β}
    (hx : OnlyUnsupported x) (hf : ∀ a, OnlyUnsupported (f a)) : OnlyUnsupported (x >>= f) := by
  intro e he
  rcases (bind_eq_error x f e).mp he with h | ⟨a, _, h⟩
  · exact hx e h
  · exact hf a e h

theorem onlyUnsup_pure {α} (a : α) : OnlyUnsupported (pure a : Except Err α) := by
  intro e he; rw [pure_ok] at he; cases he

mutual
theorem pack_errs : (v : Value) → OnlyUnsupported (pack v)
  | .nil => by simp only [pack]; exact onlyUnsup_of_isOk (isOk_ok _)
  | .bool _ => by simp only [pack]; exact onlyUnsup_of_isOk (isOk_ok _)
  | .int n => by simp only [pack]; exact packInteger_errs n
  | .float _ => by simp only [pack]; exact onlyUnsup_of_isOk (isOk_ok _)
  | .str u => by simp only [pack]; exact packString_errs u.length u
  | .bin b => by simp only [pack]; exact packBinary_errs b.length b
  | .ext ty d => by simp only [pack]; exact packExt_errs d.length ty d
  | .opaque => by simp only [pack]; exact onlyUnsup_unsupported
  | .arr xs => by
    simp only [pack]
    exact onlyUnsup_bind (packArrayHeader_errs xs.length) fun h =>
      onlyUnsup_bind (packList_errs xs) fun b => onlyUnsup_pure _
  | .tup xs => by
    simp only [pack]
    exact onlyUnsup_bind (packArrayHeader_errs xs.length) fun h =>
      onlyUnsup_bind (packList_errs xs) fun b => onlyUnsup_pure _
  | .map kvs => by
    simp only [pack]
    exact onlyUnsup_bind (packMapHeader_errs kvs.length) fun h =>
      onlyUnsup_bind (packPairs_errs kvs) fun b => onlyUnsup_pure _
theorem packList_errs : (xs : List Value) → OnlyUnsupported (packList xs)
  | [] => by simp only [packList]; exact onlyUnsup_of_isOk (isOk_ok _)
  | x :: xs => by
    simp only [packList]
    exact onlyUnsup_bind (pack_errs x) fun a =>
      onlyUnsup_bind (packList_errs xs) fun b => onlyUnsup_pure _
theorem packPairs_errs : (kvs : List (Value × Value)) → OnlyUnsupported (packPairs kvs)
  | [] => by simp only [packPairs]; exact onlyUnsup_of_isOk (isOk_ok _)
  | (k, v) :: kvs => by
    simp only [packPairs]
    exact onlyUnsup_bind (pack_errs k) fun a =>
      onlyUnsup_bind (pack_errs v) fun b =>
        onlyUnsup_bind (packPairs_errs kvs) fun c => onlyUnsup_pure _
end

end SuppModel.Msgpack
