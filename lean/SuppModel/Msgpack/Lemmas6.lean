import SuppModel.Msgpack.Lemmas5
namespace SuppModel.Msgpack
set_option linter.unusedSimpArgs false
set_option linter.unusedVariables false

/-! ### the decoder only produces integers in [-2^63, 2^64) -/

theorem bind_eq_ok {α β} (x : Except Err α) (f : α → Except Err β) (b : β) :
    (x >>= f) = .ok b ↔ ∃ a, x = .ok a ∧ f a = .ok b := by
  cases x <;> simp [ok_bind, err_bind]

theorem map_eq_ok {α β} (x : Except Err α) (f : α → β) (b : β) :
    (f <$> x) = .ok b ↔ ∃ a, x = .ok a ∧ f a = b := by
  cases x <;> simp [map_ok, map_err]

theorem readExcept_ok {n : Nat} {inp b r : Bytes} (h : readExcept n inp = .ok (b, r)) :
    inp = b ++ r ∧ b.length = n := by
  rw [readExcept_eq] at h
  split at h
  · cases h
  · injection h with h; injection h with h1 h2
    subst h1 h2
    exact ⟨(List.take_append_drop n inp).symm, by rw [List.length_take]; omega⟩

theorem readExcept_ok' {n : Nat} {inp b r : Bytes} (h : readExcept n inp = .ok (b, r))
    (hok : BytesOK inp) : b.length = n ∧ BytesOK b ∧ BytesOK r := by
  obtain ⟨rfl, hl⟩ := readExcept_ok h
  exact ⟨hl, BytesOK_append.mp hok⟩

theorem beVal_lt64 (b : Bytes) (hok : BytesOK b) (hl : b.length ≤ 8) : beVal b < 2 ^ 64 :=
  Nat.lt_of_lt_of_le (beVal_lt b hok)
    (Nat.le_trans (Nat.pow_le_pow_right (by decide) hl) (by decide))

theorem unpackSigned_range (b : Bytes) (hok : BytesOK b)
    (hl : b.length = 1 ∨ b.length = 2 ∨ b.length = 4 ∨ b.length = 8) :
    -(2 : Int) ^ 63 ≤ unpackSigned b ∧ unpackSigned b < (2 : Int) ^ 64 := by
  have h1 := beVal_lt b hok
  unfold unpackSigned
  rcases hl with h | h | h | h <;> rw [h] at h1 ⊢ <;>
    simp only [Nat.reducePow, Int.reducePow, Int.ofNat_eq_natCast] at h1 ⊢ <;> split <;> omega

theorem unpackUnsigned_range (b : Bytes) (hok : BytesOK b) (hl : b.length ≤ 8) :
    -(2 : Int) ^ 63 ≤ unpackUnsigned b ∧ unpackUnsigned b < (2 : Int) ^ 64 := by
  have h1 := beVal_lt64 b hok hl
  unfold unpackUnsigned
  simp only [Nat.reducePow, Int.reducePow, Int.ofNat_eq_natCast] at h1 ⊢
  omega

theorem unpackInteger_range (c : Nat) (inp : Bytes) (n : Int) (r : Bytes) (hc : c < 256)
    (hok : BytesOK inp) (h : unpackInteger c inp = .ok (n, r)) :
    (-(2 : Int) ^ 63 ≤ n ∧ n < (2 : Int) ^ 64) ∧ BytesOK r := by
  have hc1 : BytesOK [c] := by simp [BytesOK_cons, BytesOK_nil, hc]
  unfold unpackInteger at h
  iterate 10
    split at h
    · first
      | (injection h with h; injection h with h1 h2; subst h1 h2
         first
           | exact ⟨unpackSigned_range [c] hc1 (by simp), hok⟩
           | exact ⟨unpackUnsigned_range [c] hc1 (by simp), hok⟩)
      | (simp only [bind_eq_ok, pure_ok, Prod.exists] at h
         obtain ⟨b, r', hr, h⟩ := h
         injection h with h; injection h with h1 h2; subst h1 h2
         obtain ⟨hl, hb, hr'⟩ := readExcept_ok' hr hok
         first
           | exact ⟨unpackSigned_range b hb (by simp [hl]), hr'⟩
           | exact ⟨unpackUnsigned_range b hb (by omega), hr'⟩)
  cases h

theorem readLen_rest {c m t l c8 c16 c32 : Nat} {inp : Bytes} {len : Nat} {r : Bytes}
    (h : readLen c m t l c8 c16 c32 inp = .ok (len, r)) (hok : BytesOK inp) : BytesOK r := by
  unfold readLen at h
  split at h
  · injection h with h; injection h with h1 h2; subst h2; exact hok
  iterate 3
    split at h
    · simp only [bind_eq_ok, pure_ok, Prod.exists] at h
      obtain ⟨b, r', hr, h⟩ := h
      injection h with h; injection h with h1 h2; subst h2
      exact (readExcept_ok' hr hok).2.2
  cases h

theorem unpackFloat_rest {c : Nat} {inp : Bytes} {x : Nat} {r : Bytes}
    (h : unpackFloat c inp = .ok (x, r)) (hok : BytesOK inp) : BytesOK r := by
  unfold unpackFloat at h
  iterate 2
    split at h
    · simp only [bind_eq_ok, pure_ok, Prod.exists] at h
      obtain ⟨b, r', hr, h⟩ := h
      injection h with h; injection h with h1 h2; subst h2
      exact (readExcept_ok' hr hok).2.2
  cases h

theorem unpackString_rest {c : Nat} {inp : Bytes} {v : Value} {r : Bytes}
    (h : unpackString c inp = .ok (v, r)) (hok : BytesOK inp) :
    intsInRange v = true ∧ BytesOK r := by
  unfold unpackString at h
  simp only [bind_eq_ok, pure_ok, Prod.exists] at h
  obtain ⟨len, r1, h1, p, r2, h2, h⟩ := h
  have hr2 := (readExcept_ok' h2 (readLen_rest h1 hok)).2.2
  split at h
  · injection h with h; injection h with h3 h4; subst h3 h4
    exact ⟨by simp [intsInRange], hr2⟩
  · cases h

theorem unpackBinary_rest {c : Nat} {inp : Bytes} {v : Value} {r : Bytes}
    (h : unpackBinary c inp = .ok (v, r)) (hok : BytesOK inp) :
    intsInRange v = true ∧ BytesOK r := by
  unfold unpackBinary at h
  simp only [bind_eq_ok, pure_ok, Prod.exists] at h
  obtain ⟨len, r1, h1, p, r2, h2, h⟩ := h
  have hr2 := (readExcept_ok' h2 (readLen_rest h1 hok)).2.2
  injection h with h; injection h with h3 h4; subst h3 h4
  exact ⟨by simp [intsInRange], hr2⟩

theorem unpackExt_rest {c : Nat} {inp : Bytes} {v : Value} {r : Bytes}
    (h : unpackExt c inp = .ok (v, r)) (hok : BytesOK inp) :
    intsInRange v = true ∧ BytesOK r := by
  simp only [unpackExt] at h
  iterate 5
    split at h
    · simp only [ok_bind, bind_eq_ok, pure_ok, Prod.exists] at h
      obtain ⟨t, r2, h2, p, r3, h3, h⟩ := h
      have hr3 := (readExcept_ok' h3 (readExcept_ok' h2 hok).2.2).2.2
      split at h
      · injection h with h; injection h with h3 h4; subst h3 h4
        exact ⟨by simp [intsInRange], hr3⟩
      · cases h
  simp only [ok_bind, bind_eq_ok, pure_ok, Prod.exists] at h
  obtain ⟨len, r1, h1, t, r2, h2, p, r3, h3, h⟩ := h
  have hr3 := (readExcept_ok' h3 (readExcept_ok' h2 (readLen_rest h1 hok)).2.2).2.2
  split at h
  · injection h with h; injection h with h3 h4; subst h3 h4
    exact ⟨by simp [intsInRange], hr3⟩
  · cases h

mutual
theorem intsInRange_deepTuple : (v : Value) → intsInRange (deepTuple v) = intsInRange v
  | .arr xs => by simp [deepTuple, intsInRange, intsInRangeList_deepTupleList xs]
  | .nil | .bool _ | .int _ | .float _ | .str _ | .bin _ | .tup _ | .map _ | .ext _ _ | .opaque => by
    simp [deepTuple]
theorem intsInRangeList_deepTupleList : (xs : List Value) →
    intsInRangeList (deepTupleList xs) = intsInRangeList xs
  | [] => by simp [deepTupleList]
  | x :: xs => by
    simp [deepTupleList, intsInRangeList, intsInRange_deepTuple x, intsInRangeList_deepTupleList xs]
end

theorem dictSet_range (d : Dict) (k v : Value) (hd : intsInRangePairs d = true)
    (hk : intsInRange k = true) (hv : intsInRange v = true) :
    intsInRangePairs (dictSet d k v) = true := by
  induction d with
  | nil => simp [dictSet, intsInRangePairs, hk, hv]
  | cons p t ih =>
    obtain ⟨k', v'⟩ := p
    simp [intsInRangePairs] at hd
    simp only [dictSet]
    split
    · simp [intsInRangePairs, hd, hv]
    · simp [intsInRangePairs, hd, ih hd.2]

/-- inversion of one successful step of the map loop -/
theorem unpackMap_succ_ok {f n : Nat} {inp : Bytes} {d d' : Dict} {r : Bytes}
    (h : unpackMap f (n + 1) inp d = .ok (d', r)) :
    ∃ k r1 k' v r2, unpack f inp = .ok (k, r1) ∧ unpack f r1 = .ok (v, r2) ∧
      (k' = k ∨ ∃ xs, k = .arr xs ∧ k' = .tup (deepTupleList xs)) ∧
      unpackMap f n r2 (dictSet d k' v) = .ok (d', r) := by
  rw [unpackMap] at h
  simp only [bind_eq_ok, Prod.exists] at h
  obtain ⟨k, r1, hk, h⟩ := h
  cases k
  case arr xs =>
    simp only [bind_eq_ok, Prod.exists] at h
    obtain ⟨v, r2, hv, h⟩ := h
    split at h
    · exact ⟨_, r1, _, v, r2, hk, hv, .inr ⟨xs, rfl, rfl⟩, h⟩
    · cases h
  all_goals
    simp only [] at h
    split at h
    · cases h
    · split at h
      · cases h
      · simp only [bind_eq_ok, Prod.exists] at h
        obtain ⟨v, r2, hv, h⟩ := h
        exact ⟨_, r1, _, v, r2, hk, hv, .inl rfl, h⟩

theorem unpack_reserved_err (f c : Nat) (rest : Bytes) (hd : Generated.dispatch c = .reserved)
    (v : Value) (r : Bytes) : unpack (f + 1) (c :: rest) ≠ .ok (v, r) := by
  rw [unpack]; simp [readExcept_eq, ok_bind, hd]; intro h; by_cases hc : c = 193 <;> simp [hc] at h

theorem unpack_missing_err (f c : Nat) (rest : Bytes) (hd : Generated.dispatch c = .missing)
    (v : Value) (r : Bytes) : unpack (f + 1) (c :: rest) ≠ .ok (v, r) := by
  rw [unpack]; simp [readExcept_eq, ok_bind, hd]

theorem unpackN_range (f : Nat)
    (ih : ∀ inp v r, BytesOK inp → unpack f inp = .ok (v, r) → intsInRange v = true ∧ BytesOK r) :
    ∀ n inp xs r, BytesOK inp → unpackN f n inp = .ok (xs, r) →
      intsInRangeList xs = true ∧ BytesOK r := by
  intro n
  induction n with
  | zero =>
    intro inp xs r hok h
    simp only [unpackN] at h
    injection h with h; injection h with h1 h2; subst h1 h2
    exact ⟨by simp [intsInRangeList], hok⟩
  | succ n ihn =>
    intro inp xs r hok h
    simp only [unpackN, bind_eq_ok, pure_ok, Prod.exists] at h
    obtain ⟨v, r1, hv, vs, r2, hvs, h⟩ := h
    injection h with h; injection h with h1 h2; subst h1 h2
    obtain ⟨hv1, hr1⟩ := ih inp v r1 hok hv
    obtain ⟨hvs1, hr2⟩ := ihn r1 vs r2 hr1 hvs
    exact ⟨by simp [intsInRangeList, hv1, hvs1], hr2⟩

theorem unpackMap_range (f : Nat)
    (ih : ∀ inp v r, BytesOK inp → unpack f inp = .ok (v, r) → intsInRange v = true ∧ BytesOK r) :
    ∀ n inp d d' r, BytesOK inp → intsInRangePairs d = true → unpackMap f n inp d = .ok (d', r) →
      intsInRangePairs d' = true ∧ BytesOK r := by
  intro n
  induction n with
  | zero =>
    intro inp d d' r hok hd h
    simp only [unpackMap] at h
    injection h with h; injection h with h1 h2; subst h1 h2
    exact ⟨hd, hok⟩
  | succ n ihn =>
    intro inp d d' r hok hd h
    obtain ⟨k, r1, k', v, r2, hk, hv, hk', h⟩ := unpackMap_succ_ok h
    obtain ⟨hk1, hr1⟩ := ih inp k r1 hok hk
    obtain ⟨hv1, hr2⟩ := ih r1 v r2 hr1 hv
    have hk'1 : intsInRange k' = true := by
      rcases hk' with rfl | ⟨xs, rfl, rfl⟩
      · exact hk1
      · simpa [intsInRange, intsInRangeList_deepTupleList] using hk1
    exact ihn r2 _ d' r hr2 (dictSet_range d k' v hd hk'1 hv1) h

theorem unpack_range : ∀ f inp v r, BytesOK inp → unpack f inp = .ok (v, r) →
    intsInRange v = true ∧ BytesOK r := by
  intro f
  induction f with
  | zero => intro inp v r _ h; simp [unpack] at h
  | succ f ih =>
    intro inp v r hok h
    cases inp with
    | nil => rw [unpack_nil] at h; cases h
    | cons c rest =>
      obtain ⟨hc, hrest⟩ := BytesOK_cons.mp hok
      cases hd : Generated.dispatch c
      case integer =>
        rw [unpack_integer _ _ _ hd] at h
        simp only [bind_eq_ok, pure_ok, Prod.exists] at h
        obtain ⟨n, r1, hn, h⟩ := h
        injection h with h; injection h with h1 h2; subst h1 h2
        obtain ⟨hn1, hr1⟩ := unpackInteger_range c rest n r1 hc hrest hn
        exact ⟨by simpa [intsInRange] using hn1, hr1⟩
      case nil =>
        rw [unpack_nilF _ _ _ hd] at h
        split at h
        · injection h with h; injection h with h1 h2; subst h1 h2
          exact ⟨by simp [intsInRange], hrest⟩
        · cases h
      case reserved => exact absurd h (unpack_reserved_err f c rest hd v r)
      case missing => exact absurd h (unpack_missing_err f c rest hd v r)
      case boolean =>
        rw [unpack_boolean _ _ _ hd] at h
        split at h
        · injection h with h; injection h with h1 h2; subst h1 h2
          exact ⟨by simp [intsInRange], hrest⟩
        · split at h
          · injection h with h; injection h with h1 h2; subst h1 h2
            exact ⟨by simp [intsInRange], hrest⟩
          · cases h
      case float =>
        rw [unpack_float _ _ _ hd] at h
        simp only [bind_eq_ok, pure_ok, Prod.exists] at h
        obtain ⟨x, r1, hx, h⟩ := h
        injection h with h; injection h with h1 h2; subst h1 h2
        exact ⟨by simp [intsInRange], unpackFloat_rest hx hrest⟩
      case string => rw [unpack_string _ _ _ hd] at h; exact unpackString_rest h hrest
      case binary => rw [unpack_binary _ _ _ hd] at h; exact unpackBinary_rest h hrest
      case ext => rw [unpack_ext _ _ _ hd] at h; exact unpackExt_rest h hrest
      case array =>
        rw [unpack_array _ _ _ hd] at h
        simp only [bind_eq_ok, pure_ok, Prod.exists] at h
        obtain ⟨len, r1, hl, xs, r2, hxs, h⟩ := h
        injection h with h; injection h with h1 h2; subst h1 h2
        obtain ⟨hx, hr2⟩ := unpackN_range f ih len r1 xs r2 (readLen_rest hl hrest) hxs
        exact ⟨by simpa [intsInRange] using hx, hr2⟩
      case map =>
        rw [unpack_map _ _ _ hd] at h
        simp only [bind_eq_ok, pure_ok, Prod.exists] at h
        obtain ⟨len, r1, hl, d, r2, hxs, h⟩ := h
        injection h with h; injection h with h1 h2; subst h1 h2
        obtain ⟨hx, hr2⟩ := unpackMap_range f ih len r1 [] d r2 (readLen_rest hl hrest)
          (by simp [intsInRangePairs]) hxs
        exact ⟨by simpa [intsInRange] using hx, hr2⟩

end SuppModel.Msgpack
