/-
  Executable model of `supp/umsgpack.py` (`dumps` = `_packb3`, `loads` = `_unpackb3`,
  compatibility mode off, Python 3).

  * `Value` is the part of Python's object universe the codec can see.
  * the format-selection chains of the encoder and the decoder's dispatch table are NOT
    written here: they are `Generated.*`, regenerated from the source on every run.
  * the per-family decoders below are hand transliterations of `_unpack_*`; the
    correspondence check of C14 runs them against the real functions.
-/
import SuppModel.Msgpack.Struct
import SuppModel.Generated.Msgpack

namespace SuppModel.Msgpack

/-- Python values as the codec distinguishes them.  `float` carries the IEEE-754 binary64
    bit pattern, `str` the UTF-8 bytes of the string, `opaque` stands for any object of a
    type `_pack3` has no branch for. -/
inductive Value where
  | nil
  | bool (b : Bool)
  | int (n : Int)
  | float (bits : Nat)
  | str (utf8 : Bytes)
  | bin (bs : Bytes)
  | arr (xs : List Value)                 -- list
  | tup (xs : List Value)                 -- tuple
  | map (kvs : List (Value × Value))      -- dict, in insertion order
  | ext (ty : Int) (data : Bytes)
  | opaque
  deriving Repr, Inhabited

/-! ### UTF-8 (model of `bytes.decode('utf-8')`, strict) — Unicode 15 table 3-7 -/

def isCont (b : Nat) : Bool := 0x80 ≤ b && b ≤ 0xBF

def validUtf8 : Bytes → Bool
  | [] => true
  | b0 :: rest =>
    if b0 < 0x80 then validUtf8 rest
    else if 0xC2 ≤ b0 && b0 ≤ 0xDF then
      match rest with
      | b1 :: r => isCont b1 && validUtf8 r
      | _ => false
    else if 0xE0 ≤ b0 && b0 ≤ 0xEF then
      match rest with
      | b1 :: b2 :: r =>
        (if b0 = 0xE0 then 0xA0 ≤ b1 && b1 ≤ 0xBF
         else if b0 = 0xED then 0x80 ≤ b1 && b1 ≤ 0x9F
         else isCont b1) && isCont b2 && validUtf8 r
      | _ => false
    else if 0xF0 ≤ b0 && b0 ≤ 0xF4 then
      match rest with
      | b1 :: b2 :: b3 :: r =>
        (if b0 = 0xF0 then 0x90 ≤ b1 && b1 ≤ 0xBF
         else if b0 = 0xF4 then 0x80 ≤ b1 && b1 ≤ 0x8F
         else isCont b1) && isCont b2 && isCont b3 && validUtf8 r
      | _ => false
    else false

/-! ### IEEE-754: binary32 → binary64 widening (`struct.unpack('>f', …)`) and the
    numeric facts dict-key equality needs -/

/-- position of the highest set bit (`n > 0`) -/
def hiBit (n : Nat) : Nat := Nat.log2 n

def f32to64 (w : Nat) : Nat :=
  let s := w / 2 ^ 31 % 2
  let e := w / 2 ^ 23 % 256
  let m := w % 2 ^ 23
  let sign := s * 2 ^ 63
  if e = 255 then
    -- inf / NaN (x86 `cvtss2sd` also sets the quiet bit of a NaN)
    sign + 2047 * 2 ^ 52 + m * 2 ^ 29 + (if m = 0 then 0 else (if m / 2 ^ 22 % 2 = 1 then 0 else 2 ^ 51))
  else if e = 0 then
    if m = 0 then sign
    else
      let k := hiBit m
      sign + (k + 874) * 2 ^ 52 + (m - 2 ^ k) * 2 ^ (52 - k)
  else sign + (e + 896) * 2 ^ 52 + m * 2 ^ 29

def isNaN (bits : Nat) : Bool := bits / 2 ^ 52 % 2048 = 2047 && bits % 2 ^ 52 ≠ 0

/-- the integer a finite binary64 equals, if it is integral -/
def floatAsInt (bits : Nat) : Option Int :=
  let s := bits / 2 ^ 63 % 2
  let e := bits / 2 ^ 52 % 2048
  let m := bits % 2 ^ 52
  let sgn (n : Nat) : Int := if s = 1 then -(Int.ofNat n) else Int.ofNat n
  if e = 2047 then none
  else if e = 0 then (if m = 0 then some 0 else none)
  else
    let sig := 2 ^ 52 + m
    if e ≥ 1075 then some (sgn (sig * 2 ^ (e - 1075)))
    else
      let sh := 1075 - e
      if sh ≤ 52 ∧ sig % 2 ^ sh = 0 then some (sgn (sig / 2 ^ sh)) else none

/-- `a == b` between two *distinct* Python objects of the codec's key types
    (numeric tower `bool ⊂ int ~ float`, NaN unequal to everything, tuples pointwise). -/
def numKey : Value → Option (Int ⊕ Nat)   -- exact integer, or non-integral/non-finite float bits
  | .bool b => some (.inl (if b then 1 else 0))
  | .int n => some (.inl n)
  | .float bits => match floatAsInt bits with
      | some i => some (.inl i)
      | none => some (.inr bits)
  | _ => none

mutual
def keyEq : Value → Value → Bool
  | .nil, .nil => true
  | .str a, .str b => a == b
  | .bin a, .bin b => a == b
  | .tup xs, .tup ys => keyEqList xs ys
  | .arr xs, .arr ys => keyEqList xs ys
  | a, b =>
    match numKey a, numKey b with
    | some (.inl i), some (.inl j) => i == j
    | some (.inr x), some (.inr y) => x == y && !isNaN x
    | _, _ => false
def keyEqList : List Value → List Value → Bool
  | [], [] => true
  | x :: xs, y :: ys => keyEq x y && keyEqList xs ys
  | _, _ => false
end

mutual
/-- `hash(k)` succeeds (after `_deep_list_to_tuple`): atoms and tuples of hashables -/
def hashable : Value → Bool
  | .nil | .bool _ | .int _ | .float _ | .str _ | .bin _ => true
  | .tup xs => hashableList xs
  | _ => false
def hashableList : List Value → Bool
  | [] => true
  | x :: xs => hashable x && hashableList xs
end

mutual
/-- `_deep_list_to_tuple` -/
def deepTuple : Value → Value
  | .arr xs => .tup (deepTupleList xs)
  | v => v
def deepTupleList : List Value → List Value
  | [] => []
  | x :: xs => deepTuple x :: deepTupleList xs
end

/-! ### dict (insertion-ordered association list) -/

abbrev Dict := List (Value × Value)

def dictHas (d : Dict) (k : Value) : Bool := d.any (fun p => keyEq p.1 k)

/-- `d[k] = v`: an existing equal key keeps its position and its key object -/
def dictSet : Dict → Value → Value → Dict
  | [], k, v => [(k, v)]
  | (k', v') :: t, k, v => if keyEq k' k then (k', v) :: t else (k', v') :: dictSet t k v

/-! ### encoder -/

def intLen {α} (l : List α) : Int := Int.ofNat l.length

mutual
def pack : Value → Except Err Bytes
  | .nil => .ok [0xc0]
  | .bool b => .ok [if b then 0xc3 else 0xc2]
  | .int n => Generated.packInteger n
  | .float bits => .ok (0xcb :: beBytes 8 bits)
  | .str u => Generated.packString (intLen u) u
  | .bin b => Generated.packBinary (intLen b) b
  | .arr xs => do
    let h ← Generated.packArrayHeader (intLen xs)
    let b ← packList xs
    pure (h ++ b)
  | .tup xs => do
    let h ← Generated.packArrayHeader (intLen xs)
    let b ← packList xs
    pure (h ++ b)
  | .map kvs => do
    let h ← Generated.packMapHeader (intLen kvs)
    let b ← packPairs kvs
    pure (h ++ b)
  | .ext ty data => Generated.packExt (intLen data) ty data
  | .opaque => .error .unsupported
def packList : List Value → Except Err Bytes
  | [] => .ok []
  | x :: xs => do
    let a ← pack x
    let b ← packList xs
    pure (a ++ b)
def packPairs : List (Value × Value) → Except Err Bytes
  | [] => .ok []
  | (k, v) :: kvs => do
    let a ← pack k
    let b ← pack v
    let c ← packPairs kvs
    pure (a ++ b ++ c)
end

def dumps (v : Value) : Except Err Bytes := pack v

/-! ### decoder -/

/-- `_read_except` on a `BytesIO` -/
def readExcept (n : Nat) (inp : Bytes) : Except Err (Bytes × Bytes) :=
  -- (`(inp.take n).length < n` is `inp.length < n`, computed without walking all of `inp`)
  let p := inp.take n
  if p.length < n then .error .insufficient else .ok (p, inp.drop n)

def unpackInteger (code : Nat) (inp : Bytes) : Except Err (Int × Bytes) :=
  if code &&& 0xe0 = 0xe0 then .ok (unpackSigned [code], inp)
  else if code = 0xd0 then do let (b, r) ← readExcept 1 inp; pure (unpackSigned b, r)
  else if code = 0xd1 then do let (b, r) ← readExcept 2 inp; pure (unpackSigned b, r)
  else if code = 0xd2 then do let (b, r) ← readExcept 4 inp; pure (unpackSigned b, r)
  else if code = 0xd3 then do let (b, r) ← readExcept 8 inp; pure (unpackSigned b, r)
  else if code &&& 0x80 = 0x00 then .ok (unpackUnsigned [code], inp)
  else if code = 0xcc then do let (b, r) ← readExcept 1 inp; pure (unpackUnsigned b, r)
  else if code = 0xcd then do let (b, r) ← readExcept 2 inp; pure (unpackUnsigned b, r)
  else if code = 0xce then do let (b, r) ← readExcept 4 inp; pure (unpackUnsigned b, r)
  else if code = 0xcf then do let (b, r) ← readExcept 8 inp; pure (unpackUnsigned b, r)
  else .error .logic

def unpackFloat (code : Nat) (inp : Bytes) : Except Err (Nat × Bytes) :=
  if code = 0xca then do let (b, r) ← readExcept 4 inp; pure (f32to64 (beVal b), r)
  else if code = 0xcb then do let (b, r) ← readExcept 8 inp; pure (beVal b, r)
  else .error .logic

/-- length header shared by str / bin / array / map: `fix` = (mask, tag) of the fix form,
    `c8 c16 c32` the codes with 1/2/4 length bytes (0 = this family has none) -/
def readLen (code : Nat) (fixMask fixTag lowMask c8 c16 c32 : Nat) (inp : Bytes) :
    Except Err (Nat × Bytes) :=
  if fixMask ≠ 0 ∧ code &&& fixMask = fixTag then .ok (code &&& lowMask, inp)
  else if c8 ≠ 0 ∧ code = c8 then do let (b, r) ← readExcept 1 inp; pure (beVal b, r)
  else if c16 ≠ 0 ∧ code = c16 then do let (b, r) ← readExcept 2 inp; pure (beVal b, r)
  else if c32 ≠ 0 ∧ code = c32 then do let (b, r) ← readExcept 4 inp; pure (beVal b, r)
  else .error .logic

def unpackString (code : Nat) (inp : Bytes) : Except Err (Value × Bytes) := do
  let (len, r) ← readLen code 0xe0 0xa0 0x1f 0xd9 0xda 0xdb inp
  let (p, r) ← readExcept len r
  if validUtf8 p then pure (.str p, r) else .error .invalidString

def unpackBinary (code : Nat) (inp : Bytes) : Except Err (Value × Bytes) := do
  let (len, r) ← readLen code 0 0 0 0xc4 0xc5 0xc6 inp
  let (p, r) ← readExcept len r
  pure (.bin p, r)

def unpackExt (code : Nat) (inp : Bytes) : Except Err (Value × Bytes) := do
  let (len, r) ←
    if code = 0xd4 then pure (1, inp)
    else if code = 0xd5 then pure (2, inp)
    else if code = 0xd6 then pure (4, inp)
    else if code = 0xd7 then pure (8, inp)
    else if code = 0xd8 then pure (16, inp)
    else readLen code 0 0 0 0xc7 0xc8 0xc9 inp
  let (t, r) ← readExcept 1 r
  let (p, r) ← readExcept len r
  let ty := beVal t
  if ty ≤ 127 then pure (.ext (Int.ofNat ty) p, r) else .error .typeError

mutual
/-- `_unpack`; `fuel` bounds the nesting depth (`loads` passes `length + 1`, which is
    proved sufficient: every nesting level consumes at least one byte) -/
def unpack : Nat → Bytes → Except Err (Value × Bytes)
  | 0, _ => .error .logic
  | fuel + 1, inp => do
    let (c, rest) ← readExcept 1 inp
    let code := c.headD 0
    match Generated.dispatch code with
    | .integer => do let (n, r) ← unpackInteger code rest; pure (.int n, r)
    | .nil => if code = 0xc0 then pure (.nil, rest) else .error .logic
    | .reserved => if code = 0xc1 then .error .reserved else .error .logic
    | .boolean =>
      if code = 0xc2 then pure (.bool false, rest)
      else if code = 0xc3 then pure (.bool true, rest) else .error .logic
    | .float => do let (b, r) ← unpackFloat code rest; pure (.float b, r)
    | .string => unpackString code rest
    | .binary => unpackBinary code rest
    | .ext => unpackExt code rest
    | .array => do
      let (len, r) ← readLen code 0xf0 0x90 0x0f 0 0xdc 0xdd rest
      let (xs, r) ← unpackN fuel len r
      pure (.arr xs, r)
    | .map => do
      let (len, r) ← readLen code 0xf0 0x80 0x0f 0 0xde 0xdf rest
      let (d, r) ← unpackMap fuel len r []
      pure (.map d, r)
    | .missing => .error .logic
def unpackN : Nat → Nat → Bytes → Except Err (List Value × Bytes)
  | _, 0, inp => .ok ([], inp)
  | fuel, n + 1, inp => do
    let (v, r) ← unpack fuel inp
    let (vs, r) ← unpackN fuel n r
    pure (v :: vs, r)
def unpackMap : Nat → Nat → Bytes → Dict → Except Err (Dict × Bytes)
  | _, 0, inp, d => .ok (d, inp)
  | fuel, n + 1, inp, d => do
    let (k, r) ← unpack fuel inp
    match k with
    | .arr xs =>
      -- list key: converted to a tuple, NO duplicate test, value decoded, then `d[k] = v`
      let k' := Value.tup (deepTupleList xs)
      let (v, r) ← unpack fuel r
      if hashable k' then unpackMap fuel n r (dictSet d k' v) else .error .unhashable
    | _ =>
      if !hashable k then .error .unhashable
      else if dictHas d k then .error .duplicate
      else do
        let (v, r) ← unpack fuel r
        unpackMap fuel n r (dictSet d k v)
end

/-- `loads` = `_unpackb3`: decode one object from the front, ignore what follows -/
def loads (bs : Bytes) : Except Err Value :=
  (unpack (bs.length + 1) bs).map Prod.fst

end SuppModel.Msgpack
