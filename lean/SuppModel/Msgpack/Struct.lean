/-
  Model of the pieces of Python's `struct` module, `bytes` and bit operators that
  `supp/umsgpack.py` uses.  Bytes are natural numbers `< 256` (well-formedness is a
  separate predicate, `BytesOK`), integers are unbounded `Int`.

  Trusted: that `struct.pack(fmt, n)` is "big-endian two's complement of n on w bytes,
  `struct.error` when n is outside the format's range", and `struct.unpack` its inverse.
  This file is hand-written; the correspondence check of C14 compares it with CPython.
-/
namespace SuppModel.Msgpack

abbrev Bytes := List Nat

def BytesOK (bs : Bytes) : Prop := ∀ b ∈ bs, b < 256

instance (bs : Bytes) : Decidable (BytesOK bs) := by unfold BytesOK; infer_instance

/-- Error classes of `umsgpack` (plus the two Python-level ones that can escape). -/
inductive Err where
  | unsupported      -- UnsupportedTypeException
  | insufficient     -- InsufficientDataException
  | invalidString    -- InvalidStringException
  | reserved         -- ReservedCodeException
  | unhashable       -- UnhashableKeyException
  | duplicate        -- DuplicateKeyException
  | typeError        -- TypeError (Ext constructor on a decoded type byte >= 128)
  | structError      -- struct.error (value out of range for its format)
  | logic            -- Exception("logic error ...") / KeyError on a missing table entry
  deriving DecidableEq, Repr

/-- big-endian, `w` bytes, of `n mod 256^w` -/
def beBytes : Nat → Nat → Bytes
  | 0, _ => []
  | w+1, n => (n / 256 ^ w) % 256 :: beBytes w n

/-- big-endian value of a byte string -/
def beVal : Bytes → Nat
  | [] => 0
  | b :: bs => b * 256 ^ bs.length + beVal bs

def packUnsigned (w : Nat) (n : Int) : Except Err Bytes :=
  if 0 ≤ n ∧ n < 256 ^ w then .ok (beBytes w n.toNat) else .error .structError

def packSigned (w : Nat) (n : Int) : Except Err Bytes :=
  if -(256 ^ w / 2) ≤ n ∧ n < 256 ^ w / 2 then
    .ok (beBytes w (n % 256 ^ w).toNat)
  else .error .structError

def packU8 := packUnsigned 1
def packU16 := packUnsigned 2
def packU32 := packUnsigned 4
def packU64 := packUnsigned 8
def packI8 := packSigned 1
def packI16 := packSigned 2
def packI32 := packSigned 4
def packI64 := packSigned 8

def unpackUnsigned (bs : Bytes) : Int := Int.ofNat (beVal bs)

def unpackSigned (bs : Bytes) : Int :=
  let v := beVal bs
  if v < 256 ^ bs.length / 2 then Int.ofNat v else Int.ofNat v - Int.ofNat (256 ^ bs.length)

/-- `a | b` for a constant `a` and a non-negative `b` (only use in umsgpack) -/
def orNat (a : Nat) (b : Int) : Int := Int.ofNat (a ||| b.toNat)

/-- concatenate pieces, first failure wins (Python evaluates `a + b + c` left to right) -/
def catBytes : List (Except Err Bytes) → Except Err Bytes
  | [] => .ok []
  | p :: ps => do
    let a ← p
    let b ← catBytes ps
    pure (a ++ b)

end SuppModel.Msgpack
