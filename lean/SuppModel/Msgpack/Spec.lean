/-
  An independent, relational specification of MessagePack, written from the format
  specification (github.com/msgpack/msgpack/blob/master/spec.md), not from umsgpack.py:
  `Encodes v bs` — the byte string `bs` is *a* legal encoding of `v`, in any legal
  (also non-minimal) format.  Plus the data-model side conditions (`wf`) and the
  value normalisation the decoder performs (`normV`: tuples come back as lists, except
  inside dict keys, where lists cannot occur).
-/
import SuppModel.Msgpack.Model

namespace SuppModel.Msgpack

/-- two's complement reading of a big-endian byte string -/
def sInt (bs : Bytes) : Int :=
  if 2 * beVal bs < 256 ^ bs.length then (beVal bs : Int) else (beVal bs : Int) - (256 ^ bs.length : Nat)

mutual
inductive Encodes : Value → Bytes → Prop
  | nil : Encodes .nil [0xc0]
  | false : Encodes (.bool false) [0xc2]
  | true : Encodes (.bool true) [0xc3]
  -- integers: every format whose range contains the number
  | posfix (n : Nat) : n < 128 → Encodes (.int n) [n]
  | negfix (n : Nat) : 224 ≤ n → n < 256 → Encodes (.int ((n : Int) - 256)) [n]
  | uint8 (b : Bytes) : b.length = 1 → BytesOK b → Encodes (.int (beVal b)) (0xcc :: b)
  | uint16 (b : Bytes) : b.length = 2 → BytesOK b → Encodes (.int (beVal b)) (0xcd :: b)
  | uint32 (b : Bytes) : b.length = 4 → BytesOK b → Encodes (.int (beVal b)) (0xce :: b)
  | uint64 (b : Bytes) : b.length = 8 → BytesOK b → Encodes (.int (beVal b)) (0xcf :: b)
  | int8 (b : Bytes) : b.length = 1 → BytesOK b → Encodes (.int (sInt b)) (0xd0 :: b)
  | int16 (b : Bytes) : b.length = 2 → BytesOK b → Encodes (.int (sInt b)) (0xd1 :: b)
  | int32 (b : Bytes) : b.length = 4 → BytesOK b → Encodes (.int (sInt b)) (0xd2 :: b)
  | int64 (b : Bytes) : b.length = 8 → BytesOK b → Encodes (.int (sInt b)) (0xd3 :: b)
  -- floats
  | float32 (b : Bytes) : b.length = 4 → BytesOK b → Encodes (.float (f32to64 (beVal b))) (0xca :: b)
  | float64 (b : Bytes) : b.length = 8 → BytesOK b → Encodes (.float (beVal b)) (0xcb :: b)
  -- str
  | fixstr (p : Bytes) : p.length < 32 → Encodes (.str p) ((0xa0 + p.length) :: p)
  | str8 (p : Bytes) : p.length < 2 ^ 8 → Encodes (.str p) (0xd9 :: beBytes 1 p.length ++ p)
  | str16 (p : Bytes) : p.length < 2 ^ 16 → Encodes (.str p) (0xda :: beBytes 2 p.length ++ p)
  | str32 (p : Bytes) : p.length < 2 ^ 32 → Encodes (.str p) (0xdb :: beBytes 4 p.length ++ p)
  -- bin
  | bin8 (p : Bytes) : p.length < 2 ^ 8 → Encodes (.bin p) (0xc4 :: beBytes 1 p.length ++ p)
  | bin16 (p : Bytes) : p.length < 2 ^ 16 → Encodes (.bin p) (0xc5 :: beBytes 2 p.length ++ p)
  | bin32 (p : Bytes) : p.length < 2 ^ 32 → Encodes (.bin p) (0xc6 :: beBytes 4 p.length ++ p)
  -- ext (application types 0..127)
  | fixext1 (t : Nat) (p : Bytes) : p.length = 1 → Encodes (.ext t p) (0xd4 :: t :: p)
  | fixext2 (t : Nat) (p : Bytes) : p.length = 2 → Encodes (.ext t p) (0xd5 :: t :: p)
  | fixext4 (t : Nat) (p : Bytes) : p.length = 4 → Encodes (.ext t p) (0xd6 :: t :: p)
  | fixext8 (t : Nat) (p : Bytes) : p.length = 8 → Encodes (.ext t p) (0xd7 :: t :: p)
  | fixext16 (t : Nat) (p : Bytes) : p.length = 16 → Encodes (.ext t p) (0xd8 :: t :: p)
  | ext8 (t : Nat) (p : Bytes) : p.length < 2 ^ 8 → Encodes (.ext t p) (0xc7 :: beBytes 1 p.length ++ t :: p)
  | ext16 (t : Nat) (p : Bytes) : p.length < 2 ^ 16 → Encodes (.ext t p) (0xc8 :: beBytes 2 p.length ++ t :: p)
  | ext32 (t : Nat) (p : Bytes) : p.length < 2 ^ 32 → Encodes (.ext t p) (0xc9 :: beBytes 4 p.length ++ t :: p)
  -- arrays (Python list or tuple)
  | fixarr (xs : List Value) (bs : Bytes) : xs.length < 16 → EncodesList xs bs →
      Encodes (.arr xs) ((0x90 + xs.length) :: bs)
  | arr16 (xs : List Value) (bs : Bytes) : xs.length < 2 ^ 16 → EncodesList xs bs →
      Encodes (.arr xs) (0xdc :: beBytes 2 xs.length ++ bs)
  | arr32 (xs : List Value) (bs : Bytes) : xs.length < 2 ^ 32 → EncodesList xs bs →
      Encodes (.arr xs) (0xdd :: beBytes 4 xs.length ++ bs)
  | fixtup (xs : List Value) (bs : Bytes) : xs.length < 16 → EncodesList xs bs →
      Encodes (.tup xs) ((0x90 + xs.length) :: bs)
  | tup16 (xs : List Value) (bs : Bytes) : xs.length < 2 ^ 16 → EncodesList xs bs →
      Encodes (.tup xs) (0xdc :: beBytes 2 xs.length ++ bs)
  | tup32 (xs : List Value) (bs : Bytes) : xs.length < 2 ^ 32 → EncodesList xs bs →
      Encodes (.tup xs) (0xdd :: beBytes 4 xs.length ++ bs)
  -- maps
  | fixmap (kvs : List (Value × Value)) (bs : Bytes) : kvs.length < 16 → EncodesPairs kvs bs →
      Encodes (.map kvs) ((0x80 + kvs.length) :: bs)
  | map16 (kvs : List (Value × Value)) (bs : Bytes) : kvs.length < 2 ^ 16 → EncodesPairs kvs bs →
      Encodes (.map kvs) (0xde :: beBytes 2 kvs.length ++ bs)
  | map32 (kvs : List (Value × Value)) (bs : Bytes) : kvs.length < 2 ^ 32 → EncodesPairs kvs bs →
      Encodes (.map kvs) (0xdf :: beBytes 4 kvs.length ++ bs)
inductive EncodesList : List Value → Bytes → Prop
  | nil : EncodesList [] []
  | cons (x : Value) (xs : List Value) (a b : Bytes) :
      Encodes x a → EncodesList xs b → EncodesList (x :: xs) (a ++ b)
inductive EncodesPairs : List (Value × Value) → Bytes → Prop
  | nil : EncodesPairs [] []
  | cons (k v : Value) (kvs : List (Value × Value)) (a b c : Bytes) :
      Encodes k a → Encodes v b → EncodesPairs kvs c → EncodesPairs ((k, v) :: kvs) (a ++ b ++ c)
end

/-! ### the data model: which `Value`s the round-trip claims are about -/

def bytesOK (bs : Bytes) : Bool := bs.all (· < 256)

/-- no earlier key equals a later one under Python `==` -/
def keysDistinct : List Value → Bool
  | [] => true
  | k :: ks => ks.all (fun k2 => !keyEq k k2) && keysDistinct ks

mutual
def wf : Value → Bool
  | .nil | .bool _ => true
  | .int n => decide (-(2 : Int) ^ 63 ≤ n) && decide (n < (2 : Int) ^ 64)
  | .float bits => decide (bits < 2 ^ 64)
  | .str u => bytesOK u && validUtf8 u && decide (u.length < 2 ^ 32)
  | .bin b => bytesOK b && decide (b.length < 2 ^ 32)
  | .arr xs => decide (xs.length < 2 ^ 32) && wfList xs
  | .tup xs => decide (xs.length < 2 ^ 32) && wfList xs
  | .map kvs => decide (kvs.length < 2 ^ 32) && wfPairs kvs && keysDistinct (kvs.map Prod.fst)
  | .ext ty d => decide (0 ≤ ty) && decide (ty ≤ 127) && bytesOK d && decide (d.length < 2 ^ 32)
  | .opaque => false
def wfList : List Value → Bool
  | [] => true
  | x :: xs => wf x && wfList xs
def wfPairs : List (Value × Value) → Bool
  | [] => true
  | (k, v) :: kvs => wf k && hashable k && wf v && wfPairs kvs
end

mutual
/-- what the decoder hands back for a value: tuples become lists, dict keys are unchanged -/
def normV : Value → Value
  | .arr xs => .arr (normList xs)
  | .tup xs => .arr (normList xs)
  | .map kvs => .map (normPairs kvs)
  | v => v
def normList : List Value → List Value
  | [] => []
  | x :: xs => normV x :: normList xs
def normPairs : List (Value × Value) → List (Value × Value)
  | [] => []
  | (k, v) :: kvs => (k, normV v) :: normPairs kvs
end

mutual
/-- no tuple outside dict keys (the MessagePack data model proper) -/
def tupFree : Value → Bool
  | .arr xs => tupFreeList xs
  | .tup _ => false
  | .map kvs => tupFreePairs kvs
  | _ => true
def tupFreeList : List Value → Bool
  | [] => true
  | x :: xs => tupFree x && tupFreeList xs
def tupFreePairs : List (Value × Value) → Bool
  | [] => true
  | (_, v) :: kvs => tupFree v && tupFreePairs kvs
end

mutual
def intsInRange : Value → Bool
  | .int n => decide (-(2 : Int) ^ 63 ≤ n) && decide (n < (2 : Int) ^ 64)
  | .arr xs | .tup xs => intsInRangeList xs
  | .map kvs => intsInRangePairs kvs
  | _ => true
def intsInRangeList : List Value → Bool
  | [] => true
  | x :: xs => intsInRange x && intsInRangeList xs
def intsInRangePairs : List (Value × Value) → Bool
  | [] => true
  | (k, v) :: kvs => intsInRange k && intsInRange v && intsInRangePairs kvs
end

/-- the family each first byte belongs to, from the format table of the specification -/
def specFamily (b : Nat) : Generated.Family :=
  if b ≤ 0x7f then .integer
  else if b ≤ 0x8f then .map
  else if b ≤ 0x9f then .array
  else if b ≤ 0xbf then .string
  else if b = 0xc0 then .nil
  else if b = 0xc1 then .reserved
  else if b ≤ 0xc3 then .boolean
  else if b ≤ 0xc6 then .binary
  else if b ≤ 0xc9 then .ext
  else if b ≤ 0xcb then .float
  else if b ≤ 0xd3 then .integer
  else if b ≤ 0xd8 then .ext
  else if b ≤ 0xdb then .string
  else if b ≤ 0xdd then .array
  else if b ≤ 0xdf then .map
  else if b ≤ 0xff then .integer
  else .missing

end SuppModel.Msgpack
