import SuppModel.Msgpack.Spec
namespace SuppModel.Msgpack

theorem dispatch_eq : ∀ b, b < 256 → Generated.dispatch b = specFamily b := by
  decide +kernel

theorem beBytes_length (w n : Nat) : (beBytes w n).length = w := by
  induction w with
  | zero => rfl
  | succ w ih => simp [beBytes, ih]

theorem beBytes_ok (w n : Nat) : BytesOK (beBytes w n) := by
  induction w with
  | zero => simp [beBytes, BytesOK]
  | succ w ih =>
    intro b hb
    simp only [beBytes, List.mem_cons] at hb
    rcases hb with rfl | hb
    · exact Nat.mod_lt _ (by decide)
    · exact ih b hb

theorem beVal_beBytes (w n : Nat) : beVal (beBytes w n) = n % 256 ^ w := by
  induction w with
  | zero => simp [beBytes, beVal, Nat.mod_one]
  | succ w ih =>
    simp only [beBytes, beVal, beBytes_length, ih]
    rw [Nat.pow_succ, Nat.mod_mul, Nat.mul_comm, Nat.add_comm]

theorem BytesOK_cons {b : Nat} {bs : Bytes} : BytesOK (b :: bs) ↔ b < 256 ∧ BytesOK bs := by
  simp [BytesOK]

theorem BytesOK_append {a b : Bytes} : BytesOK (a ++ b) ↔ BytesOK a ∧ BytesOK b := by
  simp only [BytesOK, List.mem_append]
  constructor
  · intro h; exact ⟨fun x hx => h x (Or.inl hx), fun x hx => h x (Or.inr hx)⟩
  · rintro ⟨h1, h2⟩ x (hx | hx)
    · exact h1 x hx
    · exact h2 x hx

theorem BytesOK_nil : BytesOK [] := by simp [BytesOK]

theorem beVal_lt (b : Bytes) (h : BytesOK b) : beVal b < 256 ^ b.length := by
  induction b with
  | nil => simp [beVal]
  | cons x xs ih =>
    rw [BytesOK_cons] at h
    have := ih h.2
    simp only [beVal, List.length_cons, Nat.pow_succ]
    have h1 : x * 256 ^ xs.length ≤ 255 * 256 ^ xs.length := Nat.mul_le_mul_right _ (by omega)
    omega

theorem bytesOK_iff (b : Bytes) : bytesOK b = true ↔ BytesOK b := by
  simp [bytesOK, BytesOK]


/-! ### `Except` monad normal forms

  Deliberately NOT proved by `rfl`: a `rfl` simp lemma is applied by definitional unfolding, and
  the kernel then re-checks `Except.ok a >>= f ≡ f a` by weak-head normalising `f a`, which can
  drag it into `readExcept (beVal (beBytes 4 n)) r` (unary recursion on `256 ^ 3`). -/

theorem ok_bind {α β} (a : α) (f : α → Except Err β) : (Except.ok a >>= f) = f a := by
  simp only [bind, Except.bind]
theorem err_bind {α β} (e : Err) (f : α → Except Err β) : (Except.error e >>= f) = .error e := by
  simp only [bind, Except.bind]
theorem map_ok {α β} (a : α) (f : α → β) : f <$> (Except.ok a : Except Err α) = .ok (f a) := by
  simp only [Functor.map, Except.map]
theorem map_err {α β} (e : Err) (f : α → β) : f <$> (Except.error e : Except Err α) = .error e := by
  simp only [Functor.map, Except.map]
theorem pure_ok {α} (a : α) : (pure a : Except Err α) = .ok a := by
  simp only [pure, Except.pure]

end SuppModel.Msgpack
