import SuppModel.Msgpack.Lemmas8
namespace SuppModel.Msgpack
set_option linter.unusedSimpArgs false
set_option linter.unusedVariables false

/-! ### smallest-format selection: lengths the generated chains emit -/

theorem packI8_ok (n : Int) (h1 : -128 ≤ n) (h2 : n ≤ 127) :
    packI8 n = .ok (beBytes 1 (n % 256 ^ 1).toNat) := packSigned_ok 1 n (by simp; omega) (by simp; omega)
theorem packI16_ok (n : Int) (h1 : -32768 ≤ n) (h2 : n ≤ 32767) :
    packI16 n = .ok (beBytes 2 (n % 256 ^ 2).toNat) := packSigned_ok 2 n (by simp; omega) (by simp; omega)
theorem packI32_ok (n : Int) (h1 : -2147483648 ≤ n) (h2 : n ≤ 2147483647) :
    packI32 n = .ok (beBytes 4 (n % 256 ^ 4).toNat) := packSigned_ok 4 n (by simp; omega) (by simp; omega)
theorem packI64_ok (n : Int) (h1 : -9223372036854775808 ≤ n) (h2 : n ≤ 9223372036854775807) :
    packI64 n = .ok (beBytes 8 (n % 256 ^ 8).toNat) := packSigned_ok 8 n (by simp; omega) (by simp; omega)
theorem packU8_ok (n : Int) (h1 : 0 ≤ n) (h2 : n ≤ 255) :
    packU8 n = .ok (beBytes 1 n.toNat) := packUnsigned_ok 1 n h1 (by simp; omega)
theorem packU16_ok (n : Int) (h1 : 0 ≤ n) (h2 : n ≤ 65535) :
    packU16 n = .ok (beBytes 2 n.toNat) := packUnsigned_ok 2 n h1 (by simp; omega)
theorem packU32_ok (n : Int) (h1 : 0 ≤ n) (h2 : n ≤ 4294967295) :
    packU32 n = .ok (beBytes 4 n.toNat) := packUnsigned_ok 4 n h1 (by simp; omega)
theorem packU64_ok (n : Int) (h1 : 0 ≤ n) (h2 : n ≤ 18446744073709551615) :
    packU64 n = .ok (beBytes 8 n.toNat) := packUnsigned_ok 8 n h1 (by simp; omega)

theorem packU8_or160 (k : Nat) (h : (k : Int) ≤ 31) : packU8 (orNat 160 (k : Int)) = .ok [160 + k] := by
  rw [orNat160_eq k h, packU8, packUnsigned_nat 1 _ (by omega), beBytes_one _ (by omega)]
theorem packU8_or144 (k : Nat) (h : (k : Int) ≤ 15) : packU8 (orNat 144 (k : Int)) = .ok [144 + k] := by
  rw [orNat144_eq k h, packU8, packUnsigned_nat 1 _ (by omega), beBytes_one _ (by omega)]
theorem packU8_or128 (k : Nat) (h : (k : Int) ≤ 15) : packU8 (orNat 128 (k : Int)) = .ok [128 + k] := by
  rw [orNat128_eq k h, packU8, packUnsigned_nat 1 _ (by omega), beBytes_one _ (by omega)]

/-- bytes `_pack_integer` emits -/
def intFmtLen (n : Int) : Nat :=
  if -32 ≤ n ∧ n ≤ 127 then 1 else if -128 ≤ n ∧ n ≤ 255 then 2
  else if -32768 ≤ n ∧ n ≤ 65535 then 3 else if -2147483648 ≤ n ∧ n ≤ 4294967295 then 5 else 9
/-- header bytes of `_pack_string` -/
def strFmtLen (k : Nat) : Nat := if k ≤ 31 then 1 else if k ≤ 255 then 2 else if k ≤ 65535 then 3 else 5
/-- header bytes of `_pack_binary` -/
def binFmtLen (k : Nat) : Nat := if k ≤ 255 then 2 else if k ≤ 65535 then 3 else 5
/-- header bytes (incl. the type byte) of `_pack_ext_type` -/
def extFmtLen (k : Nat) : Nat :=
  if k = 1 ∨ k = 2 ∨ k = 4 ∨ k = 8 ∨ k = 16 then 2 else if k ≤ 255 then 3 else if k ≤ 65535 then 4 else 6
/-- header bytes of `_pack_array` / `_pack_map` -/
def arrFmtLen (k : Nat) : Nat := if k ≤ 15 then 1 else if k ≤ 65535 then 3 else 5

theorem packInteger_len (n : Int) (ds : Bytes) (h : Generated.packInteger n = .ok ds) :
    ds.length = intFmtLen n := by
  unfold Generated.packInteger at h
  repeat' split at h
  all_goals first
    | (with_reducible cases h)
    | (simp (disch := omega) only [packI8_ok, packI16_ok, packI32_ok, packI64_ok, packU8_ok, packU16_ok,
         packU32_ok, packU64_ok, catBytes_ok, catBytes_one, Except.map] at h
       injection h with h
       subst h
       simp only [List.length_append, List.length_cons, List.length_nil, beBytes_length]
       unfold intFmtLen
       repeat' split
       all_goals omega)

theorem packString_len (k : Nat) (p ds : Bytes) (h : Generated.packString (k : Int) p = .ok ds) :
    ds.length = strFmtLen k + p.length := by
  unfold Generated.packString at h
  repeat' split at h
  all_goals first
    | (with_reducible cases h)
    | (simp (disch := omega) only [packU8_ok, packU16_ok, packU32_ok, packU8_or160, packU8_or144,
         packU8_or128, catBytes_ok, catBytes_one, catBytes_nil, Except.map] at h
       injection h with h
       subst h
       simp only [List.length_append, List.length_cons, List.length_nil, beBytes_length]
       unfold strFmtLen
       repeat' split
       all_goals omega)

theorem packBinary_len (k : Nat) (p ds : Bytes) (h : Generated.packBinary (k : Int) p = .ok ds) :
    ds.length = binFmtLen k + p.length := by
  unfold Generated.packBinary at h
  repeat' split at h
  all_goals first
    | (with_reducible cases h)
    | (simp (disch := omega) only [packU8_ok, packU16_ok, packU32_ok, packU8_or160, packU8_or144,
         packU8_or128, catBytes_ok, catBytes_one, catBytes_nil, Except.map] at h
       injection h with h
       subst h
       simp only [List.length_append, List.length_cons, List.length_nil, beBytes_length]
       unfold binFmtLen
       repeat' split
       all_goals omega)

theorem packExt_len (k : Nat) (ty : Int) (p ds : Bytes) (h : Generated.packExt (k : Int) ty p = .ok ds) :
    ds.length = extFmtLen k + p.length := by
  unfold Generated.packExt at h
  repeat' split at h
  all_goals first
    | (with_reducible cases h)
    | (simp (disch := omega) only [packU8_ok, packU16_ok, packU32_ok, packU8_or160, packU8_or144,
         packU8_or128, catBytes_ok, catBytes_one, catBytes_nil, Except.map] at h
       injection h with h
       subst h
       simp only [List.length_append, List.length_cons, List.length_nil, beBytes_length]
       unfold extFmtLen
       repeat' split
       all_goals omega)

theorem packArrayHeader_len (k : Nat) (ds : Bytes) (h : Generated.packArrayHeader (k : Int) = .ok ds) :
    ds.length = arrFmtLen k := by
  unfold Generated.packArrayHeader at h
  repeat' split at h
  all_goals first
    | (with_reducible cases h)
    | (simp (disch := omega) only [packU8_ok, packU16_ok, packU32_ok, packU8_or160, packU8_or144,
         packU8_or128, catBytes_ok, catBytes_one, catBytes_nil, Except.map] at h
       injection h with h
       subst h
       simp only [List.length_append, List.length_cons, List.length_nil, beBytes_length]
       unfold arrFmtLen
       repeat' split
       all_goals omega)

theorem packMapHeader_len (k : Nat) (ds : Bytes) (h : Generated.packMapHeader (k : Int) = .ok ds) :
    ds.length = arrFmtLen k := by
  unfold Generated.packMapHeader at h
  repeat' split at h
  all_goals first
    | (with_reducible cases h)
    | (simp (disch := omega) only [packU8_ok, packU16_ok, packU32_ok, packU8_or160, packU8_or144,
         packU8_or128, catBytes_ok, catBytes_one, catBytes_nil, Except.map] at h
       injection h with h
       subst h
       simp only [List.length_append, List.length_cons, List.length_nil, beBytes_length]
       unfold arrFmtLen
       repeat' split
       all_goals omega)

theorem sInt_bounds (b : Bytes) (hok : BytesOK b)
    (hl : b.length = 1 ∨ b.length = 2 ∨ b.length = 4 ∨ b.length = 8) :
    -((256 : Int) ^ b.length / 2) ≤ sInt b ∧ sInt b < (256 : Int) ^ b.length / 2 := by
  have h1 := beVal_lt b hok
  unfold sInt
  rcases hl with h | h | h | h <;> rw [h] at h1 ⊢ <;>
    simp only [Nat.reducePow, Int.reducePow] at h1 ⊢ <;> split <;> omega

/-- every legal integer format is at least as long as the one the encoder picks -/
theorem int_minimal (n : Int) (bs : Bytes) (he : Encodes (.int n) bs) : intFmtLen n ≤ bs.length := by
  cases he with
  | posfix k h =>
    simp only [List.length_cons, List.length_nil]
    unfold intFmtLen
    repeat' split
    all_goals omega
  | negfix k h1 h2 =>
    simp only [List.length_cons, List.length_nil]
    unfold intFmtLen
    repeat' split
    all_goals omega
  | uint8 b hl hok =>
    have hb := beVal_lt b hok
    rw [hl] at hb
    simp only [Nat.reducePow] at hb
    simp only [List.length_cons, hl]
    unfold intFmtLen
    repeat' split
    all_goals omega
  | uint16 b hl hok =>
    have hb := beVal_lt b hok
    rw [hl] at hb
    simp only [Nat.reducePow] at hb
    simp only [List.length_cons, hl]
    unfold intFmtLen
    repeat' split
    all_goals omega
  | uint32 b hl hok =>
    have hb := beVal_lt b hok
    rw [hl] at hb
    simp only [Nat.reducePow] at hb
    simp only [List.length_cons, hl]
    unfold intFmtLen
    repeat' split
    all_goals omega
  | uint64 b hl hok =>
    have hb := beVal_lt b hok
    rw [hl] at hb
    simp only [Nat.reducePow] at hb
    simp only [List.length_cons, hl]
    unfold intFmtLen
    repeat' split
    all_goals omega
  | int8 b hl hok =>
    have hb := sInt_bounds b hok (by simp [hl])
    rw [hl] at hb
    simp only [Int.reducePow] at hb
    simp only [List.length_cons, hl]
    unfold intFmtLen
    repeat' split
    all_goals omega
  | int16 b hl hok =>
    have hb := sInt_bounds b hok (by simp [hl])
    rw [hl] at hb
    simp only [Int.reducePow] at hb
    simp only [List.length_cons, hl]
    unfold intFmtLen
    repeat' split
    all_goals omega
  | int32 b hl hok =>
    have hb := sInt_bounds b hok (by simp [hl])
    rw [hl] at hb
    simp only [Int.reducePow] at hb
    simp only [List.length_cons, hl]
    unfold intFmtLen
    repeat' split
    all_goals omega
  | int64 b hl hok =>
    have hb := sInt_bounds b hok (by simp [hl])
    rw [hl] at hb
    simp only [Int.reducePow] at hb
    simp only [List.length_cons, hl]
    unfold intFmtLen
    repeat' split
    all_goals omega

theorem str_minimal (p bs : Bytes) (he : Encodes (.str p) bs) :
    strFmtLen p.length + p.length ≤ bs.length := by
  cases he <;>
    simp only [List.length_cons, List.length_append, beBytes_length, Nat.reducePow] at * <;>
    unfold strFmtLen <;> repeat' split
  all_goals omega

theorem bin_minimal (p bs : Bytes) (he : Encodes (.bin p) bs) :
    binFmtLen p.length + p.length ≤ bs.length := by
  cases he <;>
    simp only [List.length_cons, List.length_append, beBytes_length, Nat.reducePow] at * <;>
    unfold binFmtLen <;> repeat' split
  all_goals omega

theorem ext_minimal (ty : Int) (p bs : Bytes) (he : Encodes (.ext ty p) bs) :
    extFmtLen p.length + p.length ≤ bs.length := by
  cases he <;>
    simp only [List.length_cons, List.length_append, beBytes_length, Nat.reducePow] at * <;>
    unfold extFmtLen <;> repeat' split
  all_goals omega

mutual
/-- number of floats in a value (each may be 4 bytes shorter in the float32 format, which the
    encoder never uses) -/
def floatCount : Value → Nat
  | .float _ => 1
  | .arr xs | .tup xs => floatCountList xs
  | .map kvs => floatCountPairs kvs
  | _ => 0
def floatCountList : List Value → Nat
  | [] => 0
  | x :: xs => floatCount x + floatCountList xs
def floatCountPairs : List (Value × Value) → Nat
  | [] => 0
  | (k, v) :: kvs => floatCount k + floatCount v + floatCountPairs kvs
end

/-- array/tuple headers: any legal header is at least as long as the chosen one -/
theorem arr_split (xs : List Value) (bs : Bytes) (he : Encodes (.arr xs) bs ∨ Encodes (.tup xs) bs) :
    ∃ bs', EncodesList xs bs' ∧ arrFmtLen xs.length + bs'.length ≤ bs.length := by
  rcases he with he | he <;> cases he <;> refine ⟨_, ‹EncodesList _ _›, ?_⟩ <;>
    simp only [List.length_cons, List.length_append, beBytes_length, Nat.reducePow] at * <;>
    unfold arrFmtLen <;> repeat' split
  all_goals omega

theorem map_split (kvs : List (Value × Value)) (bs : Bytes) (he : Encodes (.map kvs) bs) :
    ∃ bs', EncodesPairs kvs bs' ∧ arrFmtLen kvs.length + bs'.length ≤ bs.length := by
  cases he <;> refine ⟨_, ‹EncodesPairs _ _›, ?_⟩ <;>
    simp only [List.length_cons, List.length_append, beBytes_length, Nat.reducePow] at * <;>
    unfold arrFmtLen <;> repeat' split
  all_goals omega

mutual
theorem pack_minimal : (v : Value) → ∀ (bs ds : Bytes), Encodes v bs → pack v = .ok ds →
    ds.length ≤ bs.length + 4 * floatCount v
  | .nil, bs, ds, he, hd => by
    cases he; simp only [pack] at hd; injection hd with hd; subst hd; simp
  | .bool b, bs, ds, he, hd => by
    cases he <;> (simp only [pack] at hd; injection hd with hd; subst hd; simp)
  | .int n, bs, ds, he, hd => by
    simp only [pack] at hd
    rw [packInteger_len n ds hd]
    exact Nat.le_trans (int_minimal n bs he) (Nat.le_add_right _ _)
  | .float x, bs, ds, he, hd => by
    simp only [pack] at hd; injection hd with hd; subst hd
    cases he <;> simp [floatCount, beBytes_length] <;> omega
  | .str p, bs, ds, he, hd => by
    simp only [pack, intLen, Int.ofNat_eq_natCast] at hd
    rw [packString_len _ p ds hd]
    exact Nat.le_trans (str_minimal p bs he) (Nat.le_add_right _ _)
  | .bin p, bs, ds, he, hd => by
    simp only [pack, intLen, Int.ofNat_eq_natCast] at hd
    rw [packBinary_len _ p ds hd]
    exact Nat.le_trans (bin_minimal p bs he) (Nat.le_add_right _ _)
  | .ext ty p, bs, ds, he, hd => by
    simp only [pack, intLen, Int.ofNat_eq_natCast] at hd
    rw [packExt_len _ ty p ds hd]
    exact Nat.le_trans (ext_minimal ty p bs he) (Nat.le_add_right _ _)
  | .opaque, _, _, _, hd => by simp only [pack] at hd; cases hd
  | .arr xs, bs, ds, he, hd => by
    simp only [pack, intLen, Int.ofNat_eq_natCast, bind_eq_ok, pure_ok] at hd
    obtain ⟨h, hh, b, hb, hd⟩ := hd
    injection hd with hd; subst hd
    obtain ⟨bs', hel, hlen⟩ := arr_split xs bs (.inl he)
    have := packList_minimal xs bs' b hel hb
    have := packArrayHeader_len _ h hh
    simp only [List.length_append, floatCount]
    omega
  | .tup xs, bs, ds, he, hd => by
    simp only [pack, intLen, Int.ofNat_eq_natCast, bind_eq_ok, pure_ok] at hd
    obtain ⟨h, hh, b, hb, hd⟩ := hd
    injection hd with hd; subst hd
    obtain ⟨bs', hel, hlen⟩ := arr_split xs bs (.inr he)
    have := packList_minimal xs bs' b hel hb
    have := packArrayHeader_len _ h hh
    simp only [List.length_append, floatCount]
    omega
  | .map kvs, bs, ds, he, hd => by
    simp only [pack, intLen, Int.ofNat_eq_natCast, bind_eq_ok, pure_ok] at hd
    obtain ⟨h, hh, b, hb, hd⟩ := hd
    injection hd with hd; subst hd
    obtain ⟨bs', hel, hlen⟩ := map_split kvs bs he
    have := packPairs_minimal kvs bs' b hel hb
    have := packMapHeader_len _ h hh
    simp only [List.length_append, floatCount]
    omega
theorem packList_minimal : (xs : List Value) → ∀ (bs ds : Bytes), EncodesList xs bs →
    packList xs = .ok ds → ds.length ≤ bs.length + 4 * floatCountList xs
  | [], bs, ds, he, hd => by
    cases he; simp only [packList] at hd; injection hd with hd; subst hd; simp
  | x :: xs, bs, ds, he, hd => by
    cases he with
    | cons _ _ a b hea heb =>
      simp only [packList, bind_eq_ok, pure_ok] at hd
      obtain ⟨a', ha, b', hb, hd⟩ := hd
      injection hd with hd; subst hd
      have := pack_minimal x a a' hea ha
      have := packList_minimal xs b b' heb hb
      simp only [List.length_append, floatCountList]
      omega
theorem packPairs_minimal : (kvs : List (Value × Value)) → ∀ (bs ds : Bytes), EncodesPairs kvs bs →
    packPairs kvs = .ok ds → ds.length ≤ bs.length + 4 * floatCountPairs kvs
  | [], bs, ds, he, hd => by
    cases he; simp only [packPairs] at hd; injection hd with hd; subst hd; simp
  | (k, v) :: kvs, bs, ds, he, hd => by
    cases he with
    | cons _ _ _ a b c hea heb hec =>
      simp only [packPairs, bind_eq_ok, pure_ok] at hd
      obtain ⟨a', ha, b', hb, c', hc, hd⟩ := hd
      injection hd with hd; subst hd
      have := pack_minimal k a a' hea ha
      have := pack_minimal v b b' heb hb
      have := packPairs_minimal kvs c c' hec hc
      simp only [List.length_append, floatCountPairs]
      omega
end

end SuppModel.Msgpack
