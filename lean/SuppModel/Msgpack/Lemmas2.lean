import SuppModel.Msgpack.Lemmas1
namespace SuppModel.Msgpack

theorem sInt_beBytes (w : Nat) (n : Int) (hw : w = 1 ∨ w = 2 ∨ w = 4 ∨ w = 8)
    (h1 : -(256 ^ w / 2) ≤ n) (h2 : n < 256 ^ w / 2) :
    sInt (beBytes w (n % 256 ^ w).toNat) = n := by
  unfold sInt
  rw [beVal_beBytes, beBytes_length]
  rcases hw with rfl | rfl | rfl | rfl <;> simp only [Nat.reducePow, Int.reducePow] at * <;> split <;> omega

theorem packSigned_ok (w : Nat) (n : Int) 
    (h1 : -(256 ^ w / 2) ≤ n) (h2 : n < 256 ^ w / 2) :
    packSigned w n = .ok (beBytes w (n % 256 ^ w).toNat) := by
  simp [packSigned, h1, h2]

theorem packUnsigned_ok (w : Nat) (n : Int) (h1 : 0 ≤ n) (h2 : n < 256 ^ w) :
    packUnsigned w n = .ok (beBytes w n.toNat) := by
  simp [packUnsigned, h1, h2]


theorem enc_sint (w : Nat) (n : Int) (hw : w = 1 ∨ w = 2 ∨ w = 4 ∨ w = 8)
    (h1 : -(256 ^ w / 2) ≤ n) (h2 : n < 256 ^ w / 2) :
    ∃ b, packSigned w n = .ok b ∧ b.length = w ∧ BytesOK b ∧ sInt b = n :=
  ⟨_, packSigned_ok w n h1 h2, beBytes_length _ _, beBytes_ok _ _, sInt_beBytes w n hw h1 h2⟩

theorem enc_uint (w : Nat) (n : Int) (h1 : 0 ≤ n) (h2 : n < 256 ^ w) :
    ∃ b, packUnsigned w n = .ok b ∧ b.length = w ∧ BytesOK b ∧ (beVal b : Int) = n := by
  refine ⟨_, packUnsigned_ok w n h1 h2, beBytes_length _ _, beBytes_ok _ _, ?_⟩
  rw [beVal_beBytes]
  have : n.toNat < 256 ^ w := by
    have : ((n.toNat : Nat) : Int) < ((256 ^ w : Nat) : Int) := by
      rw [Int.toNat_of_nonneg h1]; simpa using h2
    exact Int.ofNat_lt.mp this
  rw [Nat.mod_eq_of_lt this]; exact Int.toNat_of_nonneg h1

theorem catBytes_one (a : Except Err Bytes) : catBytes [a] = a := by
  cases a <;> simp [catBytes, bind, Except.bind, pure, Except.pure]
theorem catBytes_ok (a : Bytes) (ps) : catBytes (.ok a :: ps) = (catBytes ps).map (a ++ ·) := by
  cases h : catBytes ps <;> simp [catBytes, bind, Except.bind, pure, Except.pure, h, Except.map]


theorem len1 {b : Bytes} (h : b.length = 1) : ∃ x, b = [x] := by
  match b, h with
  | [x], _ => exact ⟨x, rfl⟩

theorem packInteger_valid (n : Int) (h1 : -(2:Int) ^ 63 ≤ n) (h2 : n < (2:Int) ^ 64) :
    ∃ bs, Generated.packInteger n = .ok bs ∧ Encodes (.int n) bs ∧ BytesOK bs := by
  unfold Generated.packInteger
  simp only [catBytes_one, catBytes_ok, packI8, packI16, packI32, packI64, packU8, packU16, packU32, packU64]
  split
  · split
    · obtain ⟨b, hb, hl, hok, hv⟩ := enc_sint 1 n (by simp) (by simp; omega) (by simp; omega)
      obtain ⟨x, rfl⟩ := len1 hl
      have hx : x < 256 := (BytesOK_cons.mp hok).1
      refine ⟨[x], hb, ?_, hok⟩
      simp [sInt, beVal] at hv
      split at hv
      · omega
      · have := Encodes.negfix x (by omega) hx
        rwa [hv] at this
    · split
      · obtain ⟨b, hb, hl, hok, hv⟩ := enc_sint 1 n (by simp) (by simp; omega) (by simp; omega)
        exact ⟨208 :: b, by simp [hb, Except.map], hv ▸ Encodes.int8 b hl hok, BytesOK_cons.mpr ⟨by decide, hok⟩⟩
      · split
        · obtain ⟨b, hb, hl, hok, hv⟩ := enc_sint 2 n (by simp) (by simp; omega) (by simp; omega)
          exact ⟨209 :: b, by simp [hb, Except.map], hv ▸ Encodes.int16 b hl hok, BytesOK_cons.mpr ⟨by decide, hok⟩⟩
        · split
          · obtain ⟨b, hb, hl, hok, hv⟩ := enc_sint 4 n (by simp) (by simp; omega) (by simp; omega)
            exact ⟨210 :: b, by simp [hb, Except.map], hv ▸ Encodes.int32 b hl hok, BytesOK_cons.mpr ⟨by decide, hok⟩⟩
          · split
            · obtain ⟨b, hb, hl, hok, hv⟩ := enc_sint 8 n (by simp) (by simp; omega) (by simp; omega)
              exact ⟨211 :: b, by simp [hb, Except.map], hv ▸ Encodes.int64 b hl hok, BytesOK_cons.mpr ⟨by decide, hok⟩⟩
            · omega
  · split
    · obtain ⟨b, hb, hl, hok, hv⟩ := enc_uint 1 n (by omega) (by simp; omega)
      obtain ⟨x, rfl⟩ := len1 hl
      refine ⟨[x], hb, ?_, hok⟩
      simp [beVal] at hv
      have := Encodes.posfix x (by omega)
      rwa [hv] at this
    · split
      · obtain ⟨b, hb, hl, hok, hv⟩ := enc_uint 1 n (by omega) (by simp; omega)
        exact ⟨204 :: b, by simp [hb, Except.map], hv ▸ Encodes.uint8 b hl hok, BytesOK_cons.mpr ⟨by decide, hok⟩⟩
      · split
        · obtain ⟨b, hb, hl, hok, hv⟩ := enc_uint 2 n (by omega) (by simp; omega)
          exact ⟨205 :: b, by simp [hb, Except.map], hv ▸ Encodes.uint16 b hl hok, BytesOK_cons.mpr ⟨by decide, hok⟩⟩
        · split
          · obtain ⟨b, hb, hl, hok, hv⟩ := enc_uint 4 n (by omega) (by simp; omega)
            exact ⟨206 :: b, by simp [hb, Except.map], hv ▸ Encodes.uint32 b hl hok, BytesOK_cons.mpr ⟨by decide, hok⟩⟩
          · split
            · obtain ⟨b, hb, hl, hok, hv⟩ := enc_uint 8 n (by omega) (by simp; omega)
              exact ⟨207 :: b, by simp [hb, Except.map], hv ▸ Encodes.uint64 b hl hok, BytesOK_cons.mpr ⟨by decide, hok⟩⟩
            · omega


theorem packUnsigned_nat (w k : Nat) (h : k < 256 ^ w) :
    packUnsigned w (k : Int) = .ok (beBytes w k) := by
  have : (k : Int) < 256 ^ w := by
    have : ((k : Nat) : Int) < ((256 ^ w : Nat) : Int) := Int.ofNat_lt.mpr h
    simpa using this
  rw [packUnsigned_ok w _ (Int.natCast_nonneg k) this]; rfl

theorem beBytes_one (k : Nat) (h : k < 256) : beBytes 1 k = [k] := by
  simp [beBytes]; omega

theorem or160 : ∀ k, k < 32 → 160 ||| k = 160 + k := by decide
theorem or144 : ∀ k, k < 16 → 144 ||| k = 144 + k := by decide
theorem or128 : ∀ k, k < 16 → 128 ||| k = 128 + k := by decide

theorem catBytes_nil : catBytes [] = .ok [] := rfl

theorem packString_valid (p : Bytes) (hok : BytesOK p) (hl : p.length < 2 ^ 32) :
    ∃ bs, Generated.packString (intLen p) p = .ok bs ∧ Encodes (.str p) bs ∧ BytesOK bs := by
  unfold Generated.packString
  simp only [catBytes_ok, packU8, packU16, packU32, intLen, Int.ofNat_eq_natCast]
  split
  · have h : p.length < 32 := by omega
    have : orNat 160 (p.length : Int) = ((160 + p.length : Nat) : Int) := by
      simp [orNat, or160 _ h]
    rw [this, packUnsigned_nat 1 _ (by omega), beBytes_one _ (by omega)]
    exact ⟨_, rfl, by simpa using Encodes.fixstr p h, by simp [BytesOK_cons, hok]; omega⟩
  · split
    · rw [packUnsigned_nat 1 _ (by simp; omega)]
      exact ⟨_, rfl, by simpa using Encodes.str8 p (by omega), by simp [BytesOK_cons, BytesOK_append, hok, beBytes_ok]⟩
    · split
      · rw [packUnsigned_nat 2 _ (by simp; omega)]
        exact ⟨_, rfl, by simpa using Encodes.str16 p (by omega), by simp [BytesOK_cons, BytesOK_append, hok, beBytes_ok]⟩
      · split
        · rw [packUnsigned_nat 4 _ (by simp; omega)]
          exact ⟨_, rfl, by simpa using Encodes.str32 p (by omega), by simp [BytesOK_cons, BytesOK_append, hok, beBytes_ok]⟩
        · omega

theorem packBinary_valid (p : Bytes) (hok : BytesOK p) (hl : p.length < 2 ^ 32) :
    ∃ bs, Generated.packBinary (intLen p) p = .ok bs ∧ Encodes (.bin p) bs ∧ BytesOK bs := by
  unfold Generated.packBinary
  simp only [catBytes_ok, packU8, packU16, packU32, intLen, Int.ofNat_eq_natCast]
  split
  · rw [packUnsigned_nat 1 _ (by simp; omega)]
    exact ⟨_, rfl, by simpa using Encodes.bin8 p (by omega), by simp [BytesOK_cons, BytesOK_append, hok, beBytes_ok]⟩
  · split
    · rw [packUnsigned_nat 2 _ (by simp; omega)]
      exact ⟨_, rfl, by simpa using Encodes.bin16 p (by omega), by simp [BytesOK_cons, BytesOK_append, hok, beBytes_ok]⟩
    · split
      · rw [packUnsigned_nat 4 _ (by simp; omega)]
        exact ⟨_, rfl, by simpa using Encodes.bin32 p (by omega), by simp [BytesOK_cons, BytesOK_append, hok, beBytes_ok]⟩
      · omega

theorem packExt_valid (t : Nat) (p : Bytes) (ht : t ≤ 127) (hok : BytesOK p) (hl : p.length < 2 ^ 32) :
    ∃ bs, Generated.packExt (intLen p) (t : Int) p = .ok bs ∧ Encodes (.ext (t : Int) p) bs ∧ BytesOK bs := by
  unfold Generated.packExt
  have h256 : (t : Int) % 256 = (t : Int) := by omega
  simp only [catBytes_ok, packU8, packU16, packU32, intLen, Int.ofNat_eq_natCast, h256]
  rw [packUnsigned_nat 1 t (by simp; omega), beBytes_one t (by omega)]
  have ht' : t < 256 := by omega
  split
  · exact ⟨_, rfl, by simpa using Encodes.fixext1 t p (by omega), by simp [BytesOK_cons, hok, ht']⟩
  · split
    · exact ⟨_, rfl, by simpa using Encodes.fixext2 t p (by omega), by simp [BytesOK_cons, hok, ht']⟩
    · split
      · exact ⟨_, rfl, by simpa using Encodes.fixext4 t p (by omega), by simp [BytesOK_cons, hok, ht']⟩
      · split
        · exact ⟨_, rfl, by simpa using Encodes.fixext8 t p (by omega), by simp [BytesOK_cons, hok, ht']⟩
        · split
          · exact ⟨_, rfl, by simpa using Encodes.fixext16 t p (by omega), by simp [BytesOK_cons, hok, ht']⟩
          · split
            · rw [packUnsigned_nat 1 _ (by simp; omega)]
              exact ⟨_, rfl, by simpa using Encodes.ext8 t p (by omega), by simp [BytesOK_cons, BytesOK_append, hok, beBytes_ok, ht']⟩
            · split
              · rw [packUnsigned_nat 2 _ (by simp; omega)]
                exact ⟨_, rfl, by simpa using Encodes.ext16 t p (by omega), by simp [BytesOK_cons, BytesOK_append, hok, beBytes_ok, ht']⟩
              · split
                · rw [packUnsigned_nat 4 _ (by simp; omega)]
                  exact ⟨_, rfl, by simpa using Encodes.ext32 t p (by omega), by simp [BytesOK_cons, BytesOK_append, hok, beBytes_ok, ht']⟩
                · omega

theorem packArrayHeader_valid (k : Nat) (hk : k < 2 ^ 32) :
    ∃ hdr, Generated.packArrayHeader (k : Int) = .ok hdr ∧ BytesOK hdr ∧
      ∀ xs bs, xs.length = k → EncodesList xs bs →
        Encodes (.arr xs) (hdr ++ bs) ∧ Encodes (.tup xs) (hdr ++ bs) := by
  unfold Generated.packArrayHeader
  simp only [catBytes_ok, catBytes_one, packU8, packU16, packU32]
  split
  · have h : k < 16 := by omega
    have : orNat 144 (k : Int) = ((144 + k : Nat) : Int) := by
      simp [orNat, or144 _ h]
    rw [this, packUnsigned_nat 1 _ (by omega), beBytes_one _ (by omega)]
    refine ⟨_, rfl, by simp [BytesOK_cons, BytesOK_nil]; omega, ?_⟩
    rintro xs bs rfl he
    exact ⟨by simpa using Encodes.fixarr xs bs h he, by simpa using Encodes.fixtup xs bs h he⟩
  · split
    · rw [packUnsigned_nat 2 _ (by simp; omega)]
      refine ⟨_, rfl, by simp [BytesOK_cons, beBytes_ok], ?_⟩
      rintro xs bs rfl he
      exact ⟨by simpa using Encodes.arr16 xs bs (by omega) he, by simpa using Encodes.tup16 xs bs (by omega) he⟩
    · split
      · rw [packUnsigned_nat 4 _ (by simp; omega)]
        refine ⟨_, rfl, by simp [BytesOK_cons, beBytes_ok], ?_⟩
        rintro xs bs rfl he
        exact ⟨by simpa using Encodes.arr32 xs bs (by omega) he, by simpa using Encodes.tup32 xs bs (by omega) he⟩
      · omega

theorem packMapHeader_valid (k : Nat) (hk : k < 2 ^ 32) :
    ∃ hdr, Generated.packMapHeader (k : Int) = .ok hdr ∧ BytesOK hdr ∧
      ∀ kvs bs, kvs.length = k → EncodesPairs kvs bs → Encodes (.map kvs) (hdr ++ bs) := by
  unfold Generated.packMapHeader
  simp only [catBytes_ok, catBytes_one, packU8, packU16, packU32]
  split
  · have h : k < 16 := by omega
    have : orNat 128 (k : Int) = ((128 + k : Nat) : Int) := by
      simp [orNat, or128 _ h]
    rw [this, packUnsigned_nat 1 _ (by omega), beBytes_one _ (by omega)]
    refine ⟨_, rfl, by simp [BytesOK_cons, BytesOK_nil]; omega, ?_⟩
    rintro xs bs rfl he
    simpa using Encodes.fixmap xs bs h he
  · split
    · rw [packUnsigned_nat 2 _ (by simp; omega)]
      refine ⟨_, rfl, by simp [BytesOK_cons, beBytes_ok], ?_⟩
      rintro xs bs rfl he
      simpa using Encodes.map16 xs bs (by omega) he
    · split
      · rw [packUnsigned_nat 4 _ (by simp; omega)]
        refine ⟨_, rfl, by simp [BytesOK_cons, beBytes_ok], ?_⟩
        rintro xs bs rfl he
        simpa using Encodes.map32 xs bs (by omega) he
      · omega
mutual
theorem pack_valid : (v : Value) → wf v = true → ∃ bs, pack v = .ok bs ∧ Encodes v bs ∧ BytesOK bs
  | .nil, _ => ⟨[0xc0], by simp [pack], Encodes.nil, by decide⟩
  | .bool true, _ => ⟨[0xc3], by simp [pack], Encodes.true, by decide⟩
  | .bool false, _ => ⟨[0xc2], by simp [pack], Encodes.false, by decide⟩
  | .int n, h => by
    simp [wf] at h
    simpa [pack] using packInteger_valid n h.1 h.2
  | .float bits, h => by
    simp [wf] at h
    refine ⟨0xcb :: beBytes 8 bits, by simp [pack], ?_, by simp [BytesOK_cons, beBytes_ok]⟩
    have := Encodes.float64 (beBytes 8 bits) (beBytes_length _ _) (beBytes_ok _ _)
    rwa [beVal_beBytes, Nat.mod_eq_of_lt (by simpa using h)] at this
  | .str u, h => by
    simp [wf, bytesOK_iff] at h
    simpa [pack] using packString_valid u h.1.1 h.2
  | .bin u, h => by
    simp [wf, bytesOK_iff] at h
    simpa [pack] using packBinary_valid u h.1 h.2
  | .ext ty d, h => by
    simp [wf, bytesOK_iff] at h
    obtain ⟨⟨⟨h0, h1⟩, h2⟩, h3⟩ := h
    have : ty = (ty.toNat : Int) := (Int.toNat_of_nonneg h0).symm
    rw [this]
    simpa [pack] using packExt_valid ty.toNat d (by omega) h2 h3
  | .opaque, h => by simp [wf] at h
  | .arr xs, h => by
    simp [wf] at h
    obtain ⟨hdr, hh, hok, henc⟩ := packArrayHeader_valid xs.length h.1
    obtain ⟨bs, hb, he, hbok⟩ := packList_valid xs h.2
    exact ⟨hdr ++ bs, by simp [pack, intLen, hh, hb, ok_bind, map_ok], (henc xs bs rfl he).1, BytesOK_append.mpr ⟨hok, hbok⟩⟩
  | .tup xs, h => by
    simp [wf] at h
    obtain ⟨hdr, hh, hok, henc⟩ := packArrayHeader_valid xs.length h.1
    obtain ⟨bs, hb, he, hbok⟩ := packList_valid xs h.2
    exact ⟨hdr ++ bs, by simp [pack, intLen, hh, hb, ok_bind, map_ok], (henc xs bs rfl he).2, BytesOK_append.mpr ⟨hok, hbok⟩⟩
  | .map kvs, h => by
    simp [wf] at h
    obtain ⟨hdr, hh, hok, henc⟩ := packMapHeader_valid kvs.length h.1.1
    obtain ⟨bs, hb, he, hbok⟩ := packPairs_valid kvs h.1.2
    exact ⟨hdr ++ bs, by simp [pack, intLen, hh, hb, ok_bind, map_ok], henc kvs bs rfl he, BytesOK_append.mpr ⟨hok, hbok⟩⟩
theorem packList_valid : (xs : List Value) → wfList xs = true →
    ∃ bs, packList xs = .ok bs ∧ EncodesList xs bs ∧ BytesOK bs
  | [], _ => ⟨[], by simp [packList], EncodesList.nil, BytesOK_nil⟩
  | x :: xs, h => by
    simp [wfList] at h
    obtain ⟨a, ha, hea, hoka⟩ := pack_valid x h.1
    obtain ⟨b, hb, heb, hokb⟩ := packList_valid xs h.2
    exact ⟨a ++ b, by simp [packList, ha, hb, ok_bind, map_ok], EncodesList.cons x xs a b hea heb, BytesOK_append.mpr ⟨hoka, hokb⟩⟩
theorem packPairs_valid : (kvs : List (Value × Value)) → wfPairs kvs = true →
    ∃ bs, packPairs kvs = .ok bs ∧ EncodesPairs kvs bs ∧ BytesOK bs
  | [], _ => ⟨[], by simp [packPairs], EncodesPairs.nil, BytesOK_nil⟩
  | (k, v) :: kvs, h => by
    simp [wfPairs] at h
    obtain ⟨a, ha, hea, hoka⟩ := pack_valid k h.1.1.1
    obtain ⟨b, hb, heb, hokb⟩ := pack_valid v h.1.2
    obtain ⟨c, hc, hec, hokc⟩ := packPairs_valid kvs h.2
    exact ⟨a ++ b ++ c, by simp [packPairs, ha, hb, hc, ok_bind, map_ok], EncodesPairs.cons k v kvs a b c hea heb hec,
      BytesOK_append.mpr ⟨BytesOK_append.mpr ⟨hoka, hokb⟩, hokc⟩⟩
end

end SuppModel.Msgpack
