/-
  Extract family — two layouts of one program at the level of the extractor: the second tree is the first
  with every node position mapped by `φ` (`Ast.mapPos`); the locations the extractor stores in its names
  (node positions, `get_expr_end` = a node start + (0, 1), the decorated-body location mixing a decorator's
  line with the statement's column) are mapped by `ψ`.  Definitions only.
-/
import SuppModel.Extract.Shape
import SuppModel.Flow.Scoping
import SuppModel.Flow.Iso

namespace SuppModel.Extract
open SuppModel.Flow

def bump (p : Pos) : Pos := (p.1, p.2 + 1)

mutual
/-- the tree with every node position mapped -/
def Ast.mapPos (φ : Pos → Pos) : Ast → Ast
  | .node k p ns vs => .node k (p.map φ) ns (mapPosList φ vs)
  | .list items => .list (mapPosList φ items)
  | .str s => .str s
  | .int i => .int i
  | .none => .none
def mapPosList (φ : Pos → Pos) : List Ast → List Ast
  | [] => []
  | x :: xs => x.mapPos φ :: mapPosList φ xs
end

def NameInfo.mapP (φ : Pos → Pos) (i : NameInfo) : NameInfo := { i with declaredAt := φ i.declaredAt }

def Binding.mapP (φ ψ : Pos → Pos) (b : Binding) : Binding :=
  { b with loc := ψ b.loc, info := b.info.mapP φ, alias := b.alias.map (fun x => (φ x.1, x.2)) }

def StartSpec.mapP (φ : Pos → Pos) (s : StartSpec) : StartSpec :=
  { fallback := φ s.fallback, alias := s.alias.map (fun x => (φ x.1, x.2)) }

/-- the actions of the same visit method on the other layout -/
def Instr.mapP (φ ψ : Pos → Pos) : Instr → Instr
  | .visit c => .visit (c.mapPos φ)
  | .visitIn cs f d => .visitIn (cs.map (Ast.mapPos φ)) f d
  | .addName f b => .addName f (b.mapP φ ψ)
  | .compName f b => .compName f (b.mapP φ ψ)
  | .flowAttr p id f => .flowAttr (p.map φ) id f
  | .attrAssign p => .attrAssign (p.map φ)
  | .addStar loc start m => .addStar (ψ loc) (start.mapP φ) m
  | .scopeBody cls self reg args body =>
    .scopeBody cls (self.mapP φ ψ) reg (args.map (Binding.mapP φ ψ)) (body.map (Ast.mapPos φ))
  | .saveCur d => .saveCur d
  | .setCur s => .setCur s
  | .makeFlow d ps => .makeFlow d ps
  | .setFinal => .setFinal
  | .loop h t => .loop h t
  | .globalDecl ns => .globalDecl ns
  | .nonlocalDecl ns => .nonlocalDecl ns
  | .addReturn => .addReturn
  | .addImport n => .addImport n

/-- the locations an action stores in names -/
def Instr.locs : Instr → List Pos
  | .addName _ b => [b.loc]
  | .compName _ b => [b.loc]
  | .addStar loc _ _ => [loc]
  | .scopeBody _ self _ args _ => self.loc :: args.map (·.loc)
  | _ => []

def progLocs (p : Prog) : List Pos := p.flatMap Instr.locs

def mapNames (ψ : Pos → Pos) (f : FlowRec) : FlowRec := { f with names := f.names.map (NameRec.mapLoc ψ) }

/-- the states of the two runs correspond: same structure, name locations mapped by `ψ`, recorded node positions
    by `φ`; `declared_at` (found by a text search, different texts) is not related -/
structure Sim (φ ψ : Pos → Pos) (st st' : St) : Prop where
  flows : st'.flows = st.flows.map (mapNames ψ)
  scopes : st'.scopes = st.scopes
  cur : st'.cur = st.cur
  infos : st'.infos.length = st.infos.length
  globals : st'.globalNames = st.globalNames.map (NameRec.mapLoc ψ)
  stars : st'.stars.map (fun s => (s.loc, s.module, s.flow)) = st.stars.map (fun s => (ψ s.loc, s.module, s.flow))
  attrAssigns : st'.attrAssigns = st.attrAssigns.map (fun x => (x.1, x.2.map φ))
  imports : st'.imports = st.imports
  flowAttrs : st'.flowAttrs = st.flowAttrs.map (fun x => (x.1.map φ, x.2.1, x.2.2))

/-- every location stored so far is one of `S` -/
structure LocsIn (S : List Pos) (st : St) : Prop where
  names : ∀ f ∈ st.flows, ∀ n ∈ f.names, n.loc ∈ S
  stars : ∀ s ∈ st.stars, s.loc ∈ S

end SuppModel.Extract
