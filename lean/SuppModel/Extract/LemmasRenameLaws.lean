/-
  Extract family — `Ast.rename` satisfies `TLaws`, hence (`compile_trans`) no visit method depends on the id of a read
  that is not a binding target: `extract_rename_ok`, with the decidable side condition `tgtQ`.
-/
import SuppModel.Extract.LemmasTransExec
import SuppModel.Extract.LemmasLayout2

namespace SuppModel.Extract
open SuppModel.Flow

variable {p : Pos} {s : String}

theorem setId_lastLoc (ns : List String) : ∀ (vs : List Ast) (acc : Pos),
    lastLocList (setId s ns vs) acc = lastLocList vs acc := by
  induction ns with
  | nil => intro vs acc; rfl
  | cons n ns ih =>
    intro vs acc
    cases vs with
    | nil => rfl
    | cons v vs =>
      simp only [setId]
      split
      · cases v <;> simp [lastLocList, lastLoc]
      · simp [lastLocList, ih]

mutual
theorem rename_lastLoc : ∀ (n : Ast) (acc : Pos), lastLoc (n.rename p s) acc = lastLoc n acc
  | .node k q ns vs, acc => by
    simp only [Ast.rename]
    split <;> simp only [lastLoc, setId_lastLoc, renameList_lastLoc vs]
  | .list items, acc => by simp only [Ast.rename, lastLoc, renameList_lastLoc items]
  | .str _, _ => rfl
  | .int _, _ => rfl
  | .none, _ => rfl
theorem renameList_lastLoc : ∀ (l : List Ast) (acc : Pos), lastLocList (renameList p s l) acc = lastLocList l acc
  | [], _ => rfl
  | x :: xs, acc => by simp only [renameList, lastLocList, rename_lastLoc x, renameList_lastLoc xs]
end

theorem lookupField_setId {k : String} (hk : k ≠ "id") (ns : List String) : ∀ (vs : List Ast),
    lookupField k ns (setId s ns vs) = lookupField k ns vs := by
  induction ns with
  | nil => intro vs; rfl
  | cons n ns ih =>
    intro vs
    cases vs with
    | nil => rfl
    | cons v vs =>
      simp only [setId]
      split
      · rename_i hn
        subst hn
        have : ("id" = k) = False := by simp [Ne.symm hk]
        simp [lookupField, this]
      · rename_i hn
        simp only [lookupField]
        split
        · rfl
        · exact ih vs

theorem lookupField_setId_id (ns : List String) : ∀ (vs : List Ast) (x : String),
    lookupField "id" ns vs = some (.str x) → lookupField "id" ns (setId s ns vs) = some (.str s) := by
  induction ns with
  | nil => intro vs x h; cases vs <;> simp [lookupField] at h
  | cons n ns ih =>
    intro vs x h
    cases vs with
    | nil => simp [lookupField] at h
    | cons v vs =>
      simp only [setId]
      split
      · rename_i hn
        subst hn
        simp only [lookupField, if_true] at h ⊢
        injection h with h; subst h; rfl
      · rename_i hn
        simp only [lookupField, hn, if_false] at h ⊢
        exact ih vs x h

theorem lookupField_none_len (k : String) (ns : List String) : ∀ (vs vs' : List Ast), vs'.length = vs.length →
    lookupField k ns vs = none → lookupField k ns vs' = none := by
  induction ns with
  | nil => intro vs vs' _ _; cases vs' <;> rfl
  | cons n ns ih =>
    intro vs vs' hl h
    cases vs with
    | nil => cases vs' with
      | nil => rfl
      | cons _ _ => simp at hl
    | cons v vs => cases vs' with
      | nil => simp at hl
      | cons v' vs' =>
        simp only [lookupField] at h ⊢
        split at h
        · cases h
        · rename_i hn; rw [if_neg hn]; exact ih vs vs' (by simpa using hl) h

theorem setId_length (ns : List String) : ∀ (vs : List Ast), (setId s ns vs).length = vs.length := by
  induction ns with
  | nil => intro vs; rfl
  | cons n ns ih =>
    intro vs
    cases vs with
    | nil => rfl
    | cons v vs => simp only [setId]; split <;> simp [ih]

theorem rename_field_good {n : Ast} {k : String} (hg : renGood p n k = true) :
    (n.rename p s).field? k = (n.field? k).map (Ast.rename p s) := by
  cases n with
  | node kd q ns vs =>
    simp only [Ast.rename]
    split
    · rename_i hhit
      have hk : k ≠ "id" := by
        intro e; subst e
        simp only [renGood, Bool.and_eq_true, Bool.not_eq_true', Bool.and_eq_false_iff] at hg hhit
        simp [Ast.pos?, hhit.1, hhit.2] at hg
      simp only [Ast.field?, Ast.fieldNames, Ast.vals, lookupField_setId hk, renameList_eq]
      exact lookupField_map _ k ns vs
    · simp only [Ast.field?, Ast.fieldNames, Ast.vals, renameList_eq]
      exact lookupField_map _ k ns vs
  | _ => rfl

theorem rename_laws (p : Pos) (s : String) : TLaws (Ast.rename p s) (renGood p) (fun q => q ≠ p) where
  isNode := rename_isNode
  kind := by
    intro n
    cases n with
    | node k q ns vs => simp only [Ast.rename]; split <;> rfl
    | _ => rfl
  pos := by
    intro n
    cases n with
    | node k q ns vs => simp only [Ast.rename]; split <;> rfl
    | _ => rfl
  size := rename_size
  children := rename_children
  lastLoc := rename_lastLoc
  field_some := by
    intro n k v hv hg
    rw [rename_field_good hg, hv]; rfl
  field_none := by
    intro n k hv
    cases n with
    | node kd q ns vs =>
      simp only [Ast.rename]
      split
      · exact lookupField_none_len k ns vs _ (by simp only [Ast.vals]; rw [setId_length, renameList_eq, List.length_map]) hv
      · exact lookupField_none_len k ns vs _ (by simp only [Ast.vals]; rw [renameList_eq, List.length_map]) hv
    | _ => rfl
  str := fun _ => rfl
  int := fun _ => rfl
  none := rfl
  list := fun l => by simp [Ast.rename, renameList_eq]
  lit := by intro n k h1 _; simp [renGood, h1]
  idgood := by
    intro n q hq hne
    simp only [renGood, hq]
    have : (some q == some p) = false := by simp [hne]
    simp [this]

end SuppModel.Extract

namespace SuppModel.Extract
open SuppModel.Flow

variable {p : Pos} {s : String}

theorem rename_nameId_hit {n : Ast} (hhit : (isLoadName n && n.pos? == some p) = true) {x : String}
    (hid : n.field? "id" = some (.str x)) : nameId (n.rename p s) = s := by
  cases n with
  | node kd q ns vs =>
    have hh : (isLoadName (Ast.node kd q ns vs) && q == some p) = true := hhit
    simp only [Ast.rename, hh, if_true, nameId, Ast.field?, Ast.fieldNames, Ast.vals]
    have h1 : lookupField "id" ns (renameList p s vs) = some (.str x) := by
      rw [renameList_eq, lookupField_map]
      simp only [Ast.field?, Ast.fieldNames, Ast.vals] at hid
      rw [hid]; rfl
    rw [lookupField_setId_id ns _ x h1]
  | _ => simp [isLoadName, Ast.kind] at hhit

theorem compileName_ren {n : Ast} {prog : Prog} (hk : n.kind = "Name") (hq : tgtQ p n = true)
    (h : compileName n = .ok prog) :
    compileName (n.rename p s) = .ok (prog.map (Instr.mapKR (Ast.rename p s) (idRho p s))) := by
  have L := rename_laws p s
  simp only [compileName, bind_ok_iff] at h
  obtain ⟨ctx, h1, h⟩ := h
  have hctx : (n.rename p s).get "ctx" = .ok (ctx.rename p s) := get_T L (by tlit) h1
  simp only [compileName, hctx, bind, Except.bind, L.pos]
  cases ctx with
  | str c =>
    simp only [Ast.rename]
    split at h
    · -- ctx = Load: the read
      rename_i hc
      injection hc with hc; subst hc
      simp only [pure_ok_iff] at h; subst h
      have hload : isLoadName n = true := by
        simp only [isLoadName, hk, beq_self_eq_true, Bool.true_and]
        unfold Ast.get at h1
        split at h1
        · rename_i v hv; injection h1 with h1; subst h1; rw [hv]; rfl
        · cases h1
      simp only [pure, Except.pure, List.map_cons, List.map_nil, Instr.mapKR]
      by_cases hp : n.pos? = some p
      · have hhit : (isLoadName n && n.pos? == some p) = true := by simp [hload, hp]
        simp only [tgtQ, Bool.and_eq_true, hk, hp, beq_self_eq_true, Bool.not_true, Bool.false_or] at hq
        have hstr := hq.2
        cases hid : n.field? "id" with
        | none => rw [hid] at hstr; cases hstr
        | some v =>
          cases v with
          | str x => rw [rename_nameId_hit hhit hid]; simp [idRho, hp]
          | node _ _ _ _ => rw [hid] at hstr; cases hstr
          | list _ => rw [hid] at hstr; cases hstr
          | int _ => rw [hid] at hstr; cases hstr
          | none => rw [hid] at hstr; cases hstr
      · have hg : renGood p n "id" = true := by
          simp only [renGood]
          have : (n.pos? == some p) = false := by simpa using hp
          simp [this]
        rw [nameId_T L hg]
        simp [idRho, hp]
    · simp only [pure_ok_iff] at h; subst h; rfl
  | int i => simp only [pure_ok_iff] at h; subst h; rfl
  | none => simp only [pure_ok_iff] at h; subst h; rfl
  | list l => simp only [pure_ok_iff] at h; subst h; rfl
  | node kd q ns vs =>
    simp only [pure_ok_iff] at h; subst h
    obtain ⟨k', p', ns', vs', e⟩ := node_T L (v := .node kd q ns vs) rfl
    rw [e]; rfl

/-- NO VISIT METHOD DEPENDS ON THE ID OF A READ: on `tgtQ`-trees the reading half commutes with the renaming -/
theorem compTrans_rename (p : Pos) (s : String) : CompTrans (Ast.rename p s) (idRho p s) (tgtQ p) := by
  intro n prog hn hall hp
  have L := rename_laws p s
  have hq : tgtQ p n = true := by
    cases n with
    | node k q ns vs => simp only [Ast.all, Bool.and_eq_true] at hall; exact hall.1
    | _ => cases hn
  by_cases hk : n.kind = "Name"
  · have e1 : compile n = compileName n := by unfold compile; simp [hk]
    have e2 : compile (n.rename p s) = compileName (n.rename p s) := by unfold compile; simp [L.kind, hk]
    rw [e1] at hp
    rw [e2]
    exact compileName_ren hk hq hp
  · have hq' := hq
    simp only [tgtQ, hp, Bool.and_eq_true, List.all_eq_true] at hq'
    have hall' := hq'.1
    have ht : TgtOK (fun q => q ≠ p) prog := by
      intro i hi b hb hkind
      have := (hall' i hi).1
      rw [hb] at this
      simp only [hkind, bne_self_eq_false, Bool.false_or, bne_iff_ne, ne_eq] at this
      exact this
    have h1 := compile_trans L hp ht (fun e => absurd e hk)
    rw [h1]
    congr 1
    apply List.map_congr_left
    intro i hi
    cases i with
    | flowAttr q id f =>
      simp only [Instr.mapK, Instr.mapKR, idRho]
      cases q with
      | none => simp
      | some q' =>
        have := (hall' _ hi).2
        simp only [Bool.or_eq_true, beq_iff_eq, bne_iff_ne, ne_eq] at this
        rcases this with h | h
        · exact absurd h hk
        · have : (some q' = some p) = False := by simp [h]
          simp [this]
    | _ => rfl

/-- EXTRACTION IGNORES THE ID OF A READ (forward direction, side condition `tgtQ` instead of the evaluated `renQ`) -/
theorem extract_rename_ok (lines : List Text.Str) (mods : List (String × List String)) (t : Ast)
    (ht : t.all (tgtQ p) = true) (st : St) (h : extract lines mods t = .ok st) :
    extract lines mods (t.rename p s) = .ok (st.mapAttrs (attrMapR (idRho p s))) :=
  extract_T_ok lines mods rename_isNode rename_size (fun n => generic_T (rename_laws p s) n _)
    (compTrans_rename p s) t ht st h

theorem attrMapR_idRho (p : Pos) (s : String) : attrMapR (idRho p s) = attrRen p s := rfl

end SuppModel.Extract
