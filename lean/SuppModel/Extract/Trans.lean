/-
  Extract family — tree transformations that change ONE string the extractor does not read (the `id` of a read, the
  `attr` of an attribute access): what such a transformation `T` must satisfy (`TLaws`), and the actions of a visit
  method on the transformed tree (`Instr.mapKR`).  Definitions only.
-/
import SuppModel.Extract.RenameAttr

namespace SuppModel.Extract
open SuppModel.Flow

/-- the actions on the transformed tree: visited nodes transformed by `T`, recorded `.flow` attribute ids by `ρ` -/
def Instr.mapKR (T : Ast → Ast) (ρ : Option Pos → String → String) : Instr → Instr
  | .visit c => .visit (T c)
  | .visitIn cs f d => .visitIn (cs.map T) f d
  | .scopeBody cls self reg args body => .scopeBody cls self reg args (body.map T)
  | .flowAttr q id f => .flowAttr q (ρ q id) f
  | .saveCur d => .saveCur d
  | .setCur s => .setCur s
  | .makeFlow d ps => .makeFlow d ps
  | .setFinal => .setFinal
  | .loop h t => .loop h t
  | .addName f b => .addName f b
  | .compName f b => .compName f b
  | .attrAssign p => .attrAssign p
  | .globalDecl ns => .globalDecl ns
  | .nonlocalDecl ns => .nonlocalDecl ns
  | .addReturn => .addReturn
  | .addImport n => .addImport n
  | .addStar a b c => .addStar a b c

/-- visited nodes only -/
def Instr.mapK (T : Ast → Ast) : Instr → Instr := Instr.mapKR T (fun _ id => id)

def attrMapR (ρ : Option Pos → String → String) (x : Option Pos × String × Nat) : Option Pos × String × Nat :=
  (x.1, ρ x.1 x.2.1, x.2.2)

/-- `T` changes nothing the visit methods read: node-ness, class, position, size, the children `generic_visit` sees and
    `get_expr_end` are kept; a field holds the transformed value whenever `good n k` (always for a non-string value and
    for every field other than `id` / `attr`; for `id` whenever the node's position is `okPos`) -/
structure TLaws (T : Ast → Ast) (good : Ast → String → Bool) (okPos : Pos → Prop) : Prop where
  isNode : ∀ n, (T n).isNode = n.isNode
  kind : ∀ n, (T n).kind = n.kind
  pos : ∀ n, (T n).pos? = n.pos?
  size : ∀ n, (T n).size = n.size
  children : ∀ n, (T n).children = n.children.map T
  lastLoc : ∀ n acc, lastLoc (T n) acc = lastLoc n acc
  field_some : ∀ n k v, n.field? k = some v → good n k = true → (T n).field? k = some (T v)
  field_none : ∀ n k, n.field? k = none → (T n).field? k = none
  str : ∀ x, T (.str x) = .str x
  int : ∀ i, T (.int i) = .int i
  none : T .none = .none
  list : ∀ l, T (.list l) = .list (l.map T)
  lit : ∀ n k, k ≠ "id" → k ≠ "attr" → good n k = true
  idgood : ∀ n q, n.pos? = some q → okPos q → good n "id" = true

/-- the binding an action makes, if any -/
def Instr.binding? : Instr → Option Binding
  | .addName _ b => some b
  | .compName _ b => some b
  | _ => none

/-- every name bound by assignment (targets, loop / with / comprehension variables, walrus) is declared at an `okPos` -/
def TgtOK (okPos : Pos → Prop) (prog : Prog) : Prop :=
  ∀ i ∈ prog, ∀ b, i.binding? = some b → b.info.kind = .assigned → okPos b.info.declaredAt

def renGood (p : Pos) (n : Ast) (k : String) : Bool := !(isLoadName n && n.pos? == some p && k == "id")

def idRho (p : Pos) (s : String) (q : Option Pos) (id : String) : String := if q = some p then s else id

/-- SIDE CONDITION of the rename lemma at one node (decidable, cheap): in the actions of its visit method no name bound
    by assignment (a target, a loop / with / comprehension variable, a walrus) is declared at `p`, no `.flow` attribute of
    a target is recorded at `p`, and a `Name` node at `p` has a string `id` - i.e. the renamed node is a read, not a
    binding occurrence -/
def tgtQ (p : Pos) (n : Ast) : Bool :=
  (match compile n with
   | .ok prog => prog.all (fun i =>
      (match i.binding? with
       | some b => b.info.kind != .assigned || b.info.declaredAt != p
       | none => true) &&
      (match i with
       | .flowAttr (some q) _ _ => n.kind == "Name" || q != p
       | _ => true))
   | .error _ => true) &&
  (!(n.kind == "Name" && n.pos? == some p) || (match n.field? "id" with | some (.str _) => true | _ => false))

/-- the hypotheses of `C12_mark_transparent`: the renamed node is a read, not a binding occurrence (`tgtQ`, the side
    condition of the proved rename lemma); the renamed tree and the marked tree are a layout pair; the cursor makes the
    same comparisons with every stored location; the renamed name does not move -/
def markOK2 (t : Ast) (cursor p : Pos) (newId : String) (k : Nat) : Bool :=
  let tr := t.rename p newId
  let m := markTree t cursor p newId k
  t.all (tgtQ p) && layoutPairOK tr m &&
  (pairS tr).all (fun l => Pos.lt cursor (pairPsi tr m l) == Pos.lt cursor l) &&
  decide (pairPhi tr m p = p)

/-- the hypotheses of `C12_mark_transparent_attr`: a layout pair, and the query positions (the names inside `attr.value`)
    do not move and make the same comparisons with every stored location.  No condition on the rename. -/
def markAttrOK2 (t : Ast) (cursor p : Pos) (z : Nat) (newAttr : String) (k : Nat) : Bool :=
  let tr := t.renameAttr p z newAttr
  let m := markAttrTree t cursor p z newAttr k
  layoutPairOK tr m &&
  (valueNamePos t p z).all (fun q =>
    decide (pairPhi tr m q = q) && (pairS tr).all (fun l => Pos.lt q (pairPsi tr m l) == Pos.lt q l))

end SuppModel.Extract
