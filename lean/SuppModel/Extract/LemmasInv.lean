/-
  Extract family — an induction principle over everything the extractor does to its state: a predicate
  kept by each primitive action is kept by `extract` (`extract_preserves`); instances: every `_names`
  list stays sorted by location (`extract_sorted'`); a `.flow` attribute once set stays set.
-/
import SuppModel.Extract.LemmasAst
import SuppModel.Flow.LemmasScoping

namespace SuppModel.Extract
open SuppModel.Flow

/-- `P` is kept by every primitive action on the extractor's state -/
structure Preserved (P : St → Prop) : Prop where
  setCur : ∀ st c, P st → P { st with cur := c }
  newFlow : ∀ st scope parents, P st → P (st.newFlow scope parents).1
  addName : ∀ st f b, P st → P (st.addName f b)
  compName : ∀ st f b, P st → P (st.compName f b)
  addLoop : ∀ st h t, P st → P (st.addLoop h t)
  setFinal : ∀ st, P st → P st.setFinal
  newScope : ∀ st k, P st → P (st.newScope k).1
  globalDecl : ∀ st ns, P st → P (st.globalDecl ns)
  nonlocalDecl : ∀ st ns, P st → P (st.nonlocalDecl ns)
  addReturn : ∀ st, P st → P st.addReturn
  flowAttr : ∀ st x, P st → P { st with flowAttrs := x :: st.flowAttrs }
  attrAssign : ∀ st x, P st → P { st with attrAssigns := x :: st.attrAssigns }
  addImport : ∀ st x, P st → P { st with imports := x :: st.imports }
  addStar : ∀ st x, P st → P { st with stars := x :: st.stars }
  clearStars : ∀ st, P st → P { st with stars := [] }

variable {P : St → Prop}

theorem visitAll_preserves {rec : Rec} (hrec : ∀ c st st', rec c st = .ok st' → P st → P st')
    (cs : List Ast) : ∀ st st', visitAll rec cs st = .ok st' → P st → P st' := by
  induction cs with
  | nil => intro st st' h hp; simp only [visitAll, pure_ok_iff] at h; subst h; exact hp
  | cons c cs ih =>
    intro st st' h hp
    simp only [visitAll, bind_ok_iff] at h
    obtain ⟨st1, h1, h2⟩ := h
    exact ih st1 st' h2 (hrec c st st1 h1 hp)

theorem visitInFlow_preserves (hP : Preserved P) {rec : Rec} (hrec : ∀ c st st', rec c st = .ok st' → P st → P st')
    (cs : List Ast) (f : Nat) : ∀ st r, visitInFlow rec cs f st = .ok r → P st → P r.1 := by
  intro st r h hp
  simp only [visitInFlow, bind_ok_iff, pure_ok_iff] at h
  obtain ⟨st1, h1, rfl⟩ := h
  exact hP.setCur _ _ (visitAll_preserves hrec cs _ _ h1 (hP.setCur _ _ hp))

theorem foldl_addName_preserves (hP : Preserved P) (f : Nat) (args : List Binding) :
    ∀ st, P st → P (args.foldl (fun st a => st.addName f a) st) := by
  induction args with
  | nil => intro st hp; exact hp
  | cons a as ih => intro st hp; exact ih _ (hP.addName _ _ _ hp)

theorem execInstr_preserves (hP : Preserved P) (lines : List Text.Str) {rec : Rec}
    (hrec : ∀ c st st', rec c st = .ok st' → P st → P st') (i : Instr) :
    ∀ env st r, execInstr lines rec i env st = .ok r → P st → P r.2 := by
  intro env st r h hp
  cases i with
  | visit c =>
    simp only [execInstr, bind_ok_iff, pure_ok_iff] at h
    obtain ⟨st1, h1, rfl⟩ := h
    exact hrec c st st1 h1 hp
  | visitIn cs f dst =>
    simp only [execInstr, bind_ok_iff, pure_ok_iff] at h
    obtain ⟨r1, h1, rfl⟩ := h
    exact visitInFlow_preserves hP hrec cs _ st r1 h1 hp
  | scopeBody kind self register args body =>
    simp only [execInstr, bind_ok_iff, pure_ok_iff] at h
    obtain ⟨r1, h1, rfl⟩ := h
    refine hP.setCur _ _ (visitInFlow_preserves hP hrec body _ _ r1 h1 ?_)
    have h0 := foldl_addName_preserves hP (st.newScope (if kind then ScopeKind.cls else ScopeKind.func)).2.2 args _ (hP.newScope st (if kind then ScopeKind.cls else ScopeKind.func) hp)
    split
    · exact hP.addName _ _ _ h0
    · exact h0
  | saveCur d => simp only [execInstr, pure_ok_iff] at h; subst h; exact hp
  | setCur s => simp only [execInstr, pure_ok_iff] at h; subst h; exact hP.setCur _ _ hp
  | makeFlow d ps => simp only [execInstr, pure_ok_iff] at h; subst h; exact hP.newFlow _ _ _ hp
  | setFinal => simp only [execInstr, pure_ok_iff] at h; subst h; exact hP.setFinal _ hp
  | loop a b => simp only [execInstr, pure_ok_iff] at h; subst h; exact hP.addLoop _ _ _ hp
  | addName f b => simp only [execInstr, pure_ok_iff] at h; subst h; exact hP.addName _ _ _ hp
  | compName f b => simp only [execInstr, pure_ok_iff] at h; subst h; exact hP.compName _ _ _ hp
  | flowAttr p id f => simp only [execInstr, pure_ok_iff] at h; subst h; exact hP.flowAttr _ _ hp
  | attrAssign p => simp only [execInstr, pure_ok_iff] at h; subst h; exact hP.attrAssign _ _ hp
  | globalDecl ns => simp only [execInstr, pure_ok_iff] at h; subst h; exact hP.globalDecl _ _ hp
  | nonlocalDecl ns => simp only [execInstr, pure_ok_iff] at h; subst h; exact hP.nonlocalDecl _ _ hp
  | addReturn => simp only [execInstr, pure_ok_iff] at h; subst h; exact hP.addReturn _ hp
  | addImport x => simp only [execInstr, pure_ok_iff] at h; subst h; exact hP.addImport _ _ hp
  | addStar a b c => simp only [execInstr, pure_ok_iff] at h; subst h; exact hP.addStar _ _ hp

theorem exec_preserves (hP : Preserved P) (lines : List Text.Str) {rec : Rec}
    (hrec : ∀ c st st', rec c st = .ok st' → P st → P st') (prog : Prog) :
    ∀ env st st', exec lines rec prog env st = .ok st' → P st → P st' := by
  induction prog with
  | nil => intro env st st' h hp; simp only [exec, pure_ok_iff] at h; subst h; exact hp
  | cons i is ih =>
    intro env st st' h hp
    simp only [exec, bind_ok_iff] at h
    obtain ⟨r, h1, h2⟩ := h
    exact ih r.1 r.2 st' h2 (execInstr_preserves hP lines hrec i env st r h1 hp)

theorem visit_preserves (hP : Preserved P) (lines : List Text.Str) :
    ∀ fuel c st st', visit lines fuel c st = .ok st' → P st → P st' := by
  intro fuel
  induction fuel with
  | zero => intro c st st' h; cases h
  | succ fuel ih =>
    intro c st st' h hp
    simp only [visit, step] at h
    split at h
    · simp only [bind_ok_iff] at h
      obtain ⟨prog, _, h2⟩ := h
      exact exec_preserves hP lines ih prog [] st st' h2 hp
    · cases h

theorem starNames_preserves (hP : Preserved P) (s : Star) (names : List String) : ∀ st, P st → P (starNames s names st) := by
  unfold starNames
  induction names with
  | nil => intro st hp; exact hp
  | cons nm names ih =>
    intro st hp
    simp only [List.foldl_cons]
    apply ih
    split
    · exact hp
    · exact hP.addName _ _ _ hp

theorem resolveStar_preserves (hP : Preserved P) (mods : List (String × List String)) (s : Star) (st : St) (hp : P st) :
    P (resolveStar mods st s) := by
  unfold resolveStar
  split
  · exact hp
  · exact starNames_preserves hP s _ st hp

theorem resolveStars_preserves (hP : Preserved P) (mods : List (String × List String)) (st : St) (hp : P st) :
    P (resolveStars mods st) := by
  unfold resolveStars
  apply hP.clearStars
  generalize st.stars.reverse = l
  induction l generalizing st with
  | nil => exact hp
  | cons s l ih =>
    simp only [List.foldl_cons]
    exact ih _ (resolveStar_preserves hP mods s st hp)

/-- INDUCTION OVER THE EXTRACTOR'S ACTIONS: what holds of the initial state and is kept by every
    primitive action holds of the extracted state -/
theorem extract_preserves (hP : Preserved P) (h0 : P St.init) (lines : List Text.Str)
    (mods : List (String × List String)) (t : Ast) (st : St) (h : extract lines mods t = .ok st) : P st := by
  unfold extract at h
  split at h
  · simp only [bind_ok_iff, pure_ok_iff] at h
    obtain ⟨st1, h1, rfl⟩ := h
    exact resolveStars_preserves hP mods st1
      (exec_preserves hP lines (visit_preserves hP lines t.size) _ [] _ _ h1 h0)
  · cases h

end SuppModel.Extract

namespace SuppModel.Extract
open SuppModel.Flow

theorem mem_modifyAt {α} {l : List α} {i : Nat} {g : α → α} {x : α} (h : x ∈ modifyAt l i g) :
    x ∈ l ∨ ∃ y ∈ l, x = g y := by
  induction l generalizing i with
  | nil => simp [modifyAt] at h
  | cons a as ih =>
    cases i with
    | zero =>
      simp only [modifyAt, List.mem_cons] at h
      rcases h with h | h
      · exact Or.inr ⟨a, List.mem_cons_self, h⟩
      · exact Or.inl (List.mem_cons_of_mem _ h)
    | succ i =>
      simp only [modifyAt, List.mem_cons] at h
      rcases h with h | h
      · exact Or.inl (h ▸ List.mem_cons_self)
      · rcases ih h with h | ⟨y, hy, h⟩
        · exact Or.inl (List.mem_cons_of_mem _ h)
        · exact Or.inr ⟨y, List.mem_cons_of_mem _ hy, h⟩

/-- every flow's `_names` is sorted by location -/
def AllSorted (st : St) : Prop := ∀ f ∈ st.flows, sortedByLoc f.names = true

theorem insertLoc_sortedByLoc (names : List NameRec) (n : NameRec) (h : sortedByLoc names = true) :
    sortedByLoc (insertLoc names n) = true :=
  sortedByLoc_of _ (insertLoc_sorted names n (sortedLoc_of names h))

theorem allSorted_preserved : Preserved AllSorted where
  setCur := fun _ _ h => h
  newFlow := by
    intro st scope parents h f hf
    simp only [St.newFlow, List.mem_append, List.mem_singleton] at hf
    rcases hf with hf | hf
    · exact h f hf
    · subst hf; rfl
  addName := by
    intro st f b h fr hfr
    simp only [St.addName] at hfr
    split at hfr
    · exact h fr hfr
    · split at hfr <;>
      · rcases mem_modifyAt hfr with hfr | ⟨y, hy, rfl⟩
        · exact h fr hfr
        · exact insertLoc_sortedByLoc _ _ (h y hy)
  compName := by
    intro st f b h fr hfr
    simp only [St.compName] at hfr
    rcases mem_modifyAt hfr with hfr | ⟨y, hy, rfl⟩
    · exact h fr hfr
    · exact insertLoc_sortedByLoc _ _ (h y hy)
  addLoop := by
    intro st a b h fr hfr
    simp only [St.addLoop] at hfr
    rcases mem_modifyAt hfr with hfr | ⟨y, hy, rfl⟩
    · exact h fr hfr
    · exact h y hy
  setFinal := fun _ h => h
  newScope := by
    intro st k h f hf
    simp only [St.newScope, List.mem_append, List.mem_singleton] at hf
    rcases hf with hf | hf
    · exact h f hf
    · subst hf; rfl
  globalDecl := fun _ _ h => h
  nonlocalDecl := fun _ _ h => h
  addReturn := fun _ h => h
  flowAttr := fun _ _ h => h
  attrAssign := fun _ _ h => h
  addImport := fun _ _ h => h
  addStar := fun _ _ h => h
  clearStars := fun _ h => h

theorem extract_sorted' (lines : List Text.Str) (mods : List (String × List String)) (t : Ast) (st : St)
    (h : extract lines mods t = .ok st) : AllSorted st := by
  apply extract_preserves allSorted_preserved _ lines mods t st h
  intro f hf
  simp only [St.init, List.mem_singleton] at hf
  subst hf; rfl

/-- a `.flow` attribute, once set, stays set -/
theorem hasFlow_preserved (k : Option Pos × String) : Preserved (fun st => st.hasFlow k) where
  setCur := fun _ _ h => h
  newFlow := fun _ _ _ h => h
  addName := by
    intro st f b h
    simp only [St.addName]
    split
    · exact h
    · split <;> exact h
  compName := fun _ _ _ h => h
  addLoop := fun _ _ _ h => h
  setFinal := fun _ h => h
  newScope := fun _ _ h => h
  globalDecl := fun _ _ h => h
  nonlocalDecl := fun _ _ h => h
  addReturn := fun _ h => h
  flowAttr := by
    intro st x ⟨f, hf⟩
    exact ⟨f, List.mem_cons_of_mem _ hf⟩
  attrAssign := fun _ _ h => h
  addImport := fun _ _ h => h
  addStar := fun _ _ h => h
  clearStars := fun _ h => h

end SuppModel.Extract
