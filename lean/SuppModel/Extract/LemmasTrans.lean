/-
  Extract family — the reading half of every visit method commutes with a transformation satisfying `TLaws`
  (`compile_trans`): accessors first.
-/
import SuppModel.Extract.Trans
import SuppModel.Extract.LemmasCompile

namespace SuppModel.Extract
open SuppModel.Flow

section
variable {T : Ast → Ast} {good : Ast → String → Bool} {okPos : Pos → Prop} (L : TLaws T good okPos)
include L

theorem node_T {v : Ast} (hv : v.isNode = true) : ∃ k p ns vs, T v = .node k p ns vs := by
  have := L.isNode v
  rw [hv] at this
  cases h : T v with
  | node k p ns vs => exact ⟨k, p, ns, vs, rfl⟩
  | _ => rw [h] at this; cases this

theorem get_T {n : Ast} {k : String} {v : Ast} (hg : good n k = true) (h : n.get k = .ok v) :
    (T n).get k = .ok (T v) := by
  unfold Ast.get at h ⊢
  split at h
  · rename_i v' hv; injection h with h; subst h; rw [L.field_some n k v' hv hg]
  · cases h

theorem getNode_T {n : Ast} {k : String} {v : Ast} (hg : good n k = true) (h : getNode n k = .ok v) :
    getNode (T n) k = .ok (T v) := by
  simp only [getNode, bind_ok_iff] at h
  obtain ⟨w, hw, h⟩ := h
  split at h
  · rename_i hn
    simp only [pure_ok_iff] at h; subst h
    simp [getNode, get_T L hg hw, L.isNode, hn, bind, Except.bind, pure, Except.pure]
  · cases h

theorem all_isNode_T {l : List Ast} (h : l.all Ast.isNode = true) : (l.map T).all Ast.isNode = true := by
  simp only [List.all_eq_true, List.mem_map] at h ⊢
  rintro x ⟨y, hy, rfl⟩
  rw [L.isNode]; exact h y hy

theorem getNodeList_T {n : Ast} {k : String} {l : List Ast} (hg : good n k = true) (h : getNodeList n k = .ok l) :
    getNodeList (T n) k = .ok (l.map T) := by
  simp only [getNodeList, bind_ok_iff] at h
  obtain ⟨w, hw, h⟩ := h
  split at h
  · rename_i items
    split at h
    · rename_i hall
      simp only [pure_ok_iff] at h; subst h
      simp only [getNodeList, get_T L hg hw, L.list, bind, Except.bind, all_isNode_T L hall, if_true, pure, Except.pure]
    · cases h
  · cases h

theorem getOptNode_T {n : Ast} {k : String} {o : Option Ast} (hg : good n k = true) (h : getOptNode n k = .ok o) :
    getOptNode (T n) k = .ok (o.map T) := by
  simp only [getOptNode, bind_ok_iff] at h
  obtain ⟨w, hw, h⟩ := h
  split at h
  · simp only [pure_ok_iff] at h; subst h
    simp [getOptNode, get_T L hg hw, L.none, bind, Except.bind, pure, Except.pure]
  · rename_i kd p ns vs
    simp only [pure_ok_iff] at h; subst h
    obtain ⟨k', p', ns', vs', e⟩ := node_T L (v := .node kd p ns vs) rfl
    simp [getOptNode, get_T L hg hw, e, bind, Except.bind, pure, Except.pure]
  · cases h

theorem filter_isNode_T (items : List Ast) : (items.map T).filter Ast.isNode = (items.filter Ast.isNode).map T := by
  induction items with
  | nil => rfl
  | cons x xs ih =>
    simp only [List.map_cons, List.filter_cons, L.isNode, ih]
    split <;> rfl

theorem getOptNodeList_T {n : Ast} {k : String} {l : List Ast} (hg : good n k = true) (h : getOptNodeList n k = .ok l) :
    getOptNodeList (T n) k = .ok (l.map T) := by
  simp only [getOptNodeList, bind_ok_iff] at h
  obtain ⟨w, hw, h⟩ := h
  split at h
  · rename_i items
    split at h
    · rename_i hall
      simp only [pure_ok_iff] at h; subst h
      simp only [getOptNodeList, get_T L hg hw, L.list, bind, Except.bind, pure, Except.pure, filter_isNode_T L]
      split
      · rfl
      · rename_i hneg
        exfalso
        apply hneg
        simp only [List.all_eq_true, List.mem_map] at hall ⊢
        rintro x ⟨y, hy, rfl⟩
        have := hall y hy
        cases y with
        | none => simp [L.none]
        | node kd p ns vs =>
          obtain ⟨k', p', ns', vs', e⟩ := node_T L (v := .node kd p ns vs) rfl
          simp [e, Ast.isNode]
        | list _ => simp [Ast.isNode] at this
        | str _ => simp [Ast.isNode] at this
        | int _ => simp [Ast.isNode] at this
    · cases h
  · cases h

theorem getStr_T {n : Ast} {k : String} {s : String} (hg : good n k = true) (h : getStr n k = .ok s) :
    getStr (T n) k = .ok s := by
  simp only [getStr, bind_ok_iff] at h
  obtain ⟨w, hw, h⟩ := h
  split at h
  · simp only [pure_ok_iff] at h; subst h
    simp [getStr, get_T L hg hw, L.str, bind, Except.bind, pure, Except.pure]
  · cases h

theorem getOptStr_T {n : Ast} {k : String} {s : Option String} (hg : good n k = true) (h : getOptStr n k = .ok s) :
    getOptStr (T n) k = .ok s := by
  simp only [getOptStr, bind_ok_iff] at h
  obtain ⟨w, hw, h⟩ := h
  split at h
  · simp only [pure_ok_iff] at h; subst h
    simp [getOptStr, get_T L hg hw, L.str, bind, Except.bind, pure, Except.pure]
  · simp only [pure_ok_iff] at h; subst h
    simp [getOptStr, get_T L hg hw, L.none, bind, Except.bind, pure, Except.pure]
  · cases h

theorem getInt_T {n : Ast} {k : String} {i : Int} (hg : good n k = true) (h : getInt n k = .ok i) :
    getInt (T n) k = .ok i := by
  simp only [getInt, bind_ok_iff] at h
  obtain ⟨w, hw, h⟩ := h
  split at h
  · simp only [pure_ok_iff] at h; subst h
    simp [getInt, get_T L hg hw, L.int, bind, Except.bind, pure, Except.pure]
  · cases h

theorem strsOf_T : ∀ (items : List Ast) (r : List String), strsOf items = .ok r → strsOf (items.map T) = .ok r := by
  intro items
  induction items with
  | nil => intro r h; exact h
  | cons x xs ih =>
    intro r h
    cases x with
    | str s =>
      simp only [strsOf, bind_ok_iff, pure_ok_iff] at h
      obtain ⟨r', hr, rfl⟩ := h
      simp [strsOf, L.str, ih r' hr, bind, Except.bind, pure, Except.pure]
    | node _ _ _ _ => simp [strsOf] at h
    | list _ => simp [strsOf] at h
    | int _ => simp [strsOf] at h
    | none => simp [strsOf] at h

theorem getStrList_T {n : Ast} {k : String} {l : List String} (hg : good n k = true) (h : getStrList n k = .ok l) :
    getStrList (T n) k = .ok l := by
  simp only [getStrList, bind_ok_iff] at h
  obtain ⟨w, hw, h⟩ := h
  split at h
  · rename_i items
    simp only [getStrList, get_T L hg hw, L.list, bind, Except.bind]
    exact strsOf_T L items l h
  · cases h

theorem np_T (n : Ast) : np (T n) = np n := by simp [np, L.pos]

theorem exprEnd_T (n : Ast) : exprEnd (T n) = exprEnd n := by simp [exprEnd, np_T L, L.lastLoc]

theorem single_T {v : Ast} {l : List Ast} (h : single v = .ok l) : single (T v) = .ok (l.map T) := by
  unfold single at h
  split at h
  · simp only [pure_ok_iff] at h; subst h; simp [L.none, single, pure, Except.pure]
  · rename_i kd p ns vs
    simp only [pure_ok_iff] at h; subst h
    obtain ⟨k', p', ns', vs', e⟩ := node_T L (v := .node kd p ns vs) rfl
    simp [e, single, pure, Except.pure]
  · cases h

theorem optNodeList_T {n : Ast} {k : String} {l : List Ast} (hg : good n k = true) (h : optNodeList n k = .ok l) :
    optNodeList (T n) k = .ok (l.map T) := by
  unfold optNodeList at h ⊢
  split at h
  · rename_i v hv
    rw [L.field_some n k v hv hg]
    exact getNodeList_T L hg h
  · rename_i hv
    rw [L.field_none n k hv]
    simp only [pure_ok_iff] at h; subst h; rfl

theorem generic_T (n : Ast) (ρ : Option Pos → String → String) : generic (T n) = (generic n).map (Instr.mapKR T ρ) := by
  simp [generic, L.children, Instr.mapKR]

end

end SuppModel.Extract
