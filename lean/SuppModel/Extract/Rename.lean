/-
  Extract family — the cursor mark at the level of the tree (property C12).  Marking a source at a cursor that sits
  at the end of (or inside) a bare name changes the tree CPython parses in two ways: the `id` of ONE `Name` node with
  `ctx = Load()` (SOURCE_MARK is inserted), and every position on the cursor's line at a column ≥ the cursor column
  moves right by the length of the mark.  Definitions only.
-/
import SuppModel.Extract.LayoutPair

namespace SuppModel.Extract
open SuppModel.Flow

/-! ### decidable equality of trees and actions (by hand: the tree is a nested inductive) -/

mutual
def Ast.beq : Ast → Ast → Bool
  | .node k1 p1 ns1 vs1, .node k2 p2 ns2 vs2 => k1 == k2 && p1 == p2 && ns1 == ns2 && astsBeq vs1 vs2
  | .list a, .list b => astsBeq a b
  | .str a, .str b => a == b
  | .int a, .int b => a == b
  | .none, .none => true
  | _, _ => false
def astsBeq : List Ast → List Ast → Bool
  | [], [] => true
  | x :: xs, y :: ys => x.beq y && astsBeq xs ys
  | _, _ => false
end

def Instr.beq : Instr → Instr → Bool
  | .visit a, .visit b => a.beq b
  | .visitIn a f d, .visitIn a' f' d' => astsBeq a a' && f == f' && d == d'
  | .saveCur a, .saveCur b => a == b
  | .setCur a, .setCur b => a == b
  | .makeFlow d ps, .makeFlow d' ps' => d == d' && ps == ps'
  | .setFinal, .setFinal => true
  | .loop a b, .loop a' b' => a == a' && b == b'
  | .addName f b, .addName f' b' => decide (f = f') && decide (b = b')
  | .compName f b, .compName f' b' => f == f' && decide (b = b')
  | .flowAttr p i f, .flowAttr p' i' f' => p == p' && i == i' && decide (f = f')
  | .attrAssign p, .attrAssign p' => p == p'
  | .globalDecl a, .globalDecl b => a == b
  | .nonlocalDecl a, .nonlocalDecl b => a == b
  | .addReturn, .addReturn => true
  | .addImport a, .addImport b => a == b
  | .addStar a b c, .addStar a' b' c' => a == a' && b == b' && c == c'
  | .scopeBody c s r a b, .scopeBody c' s' r' a' b' =>
    c == c' && decide (s = s') && r == r' && decide (a = a') && astsBeq b b'
  | _, _ => false

def progBeq : Prog → Prog → Bool
  | [], [] => true
  | i :: is, j :: js => i.beq j && progBeq is js
  | _, _ => false

/-! ### renaming one read -/

/-- replace the (string) value of the field `id` -/
def setId (s : String) : List String → List Ast → List Ast
  | n :: ns, v :: vs =>
    if n = "id" then (match v with | .str _ => .str s | v => v) :: vs else v :: setId s ns vs
  | _, vs => vs

mutual
/-- the tree with the `id` of the `Name` nodes with `ctx = Load()` at position `p` replaced by `s` -/
def Ast.rename (p : Pos) (s : String) : Ast → Ast
  | .node k q ns vs =>
    if isLoadName (.node k q ns vs) && q == some p then .node k q ns (setId s ns (renameList p s vs))
    else .node k q ns (renameList p s vs)
  | .list items => .list (renameList p s items)
  | .str x => .str x
  | .int i => .int i
  | .none => .none
def renameList (p : Pos) (s : String) : List Ast → List Ast
  | [] => []
  | x :: xs => x.rename p s :: renameList p s xs
end

/-- the actions of a visit method on the renamed tree: the visited nodes are renamed, and the `.flow` attribute of
    the renamed read is recorded under the new id -/
def Instr.ren (p : Pos) (s : String) : Instr → Instr
  | .visit c => .visit (c.rename p s)
  | .visitIn cs f d => .visitIn (cs.map (Ast.rename p s)) f d
  | .scopeBody cls self reg args body => .scopeBody cls self reg args (body.map (Ast.rename p s))
  | .flowAttr q id f => .flowAttr q (if q = some p then s else id) f
  | i => i

/-- at this node, the reading half of the visit method does not depend on the `id` of the renamed read (decidable;
    true of every node whose visit method reads no `id` of a `Load` name - the binding loops read the ids of their
    TARGETS, which have `ctx = Store()`) -/
def renQ (p : Pos) (s : String) (n : Ast) : Bool :=
  match compile n, compile (n.rename p s) with
  | .ok prog, .ok prog' => progBeq prog' (prog.map (Instr.ren p s))
  | .error e, .error e' => e == e'
  | _, _ => false

def attrRen (p : Pos) (s : String) (x : Option Pos × String × Nat) : Option Pos × String × Nat :=
  (x.1, if x.1 = some p then s else x.2.1, x.2.2)

def St.mapAttrs (κ : Option Pos × String × Nat → Option Pos × String × Nat) (st : St) : St :=
  { st with flowAttrs := st.flowAttrs.map κ }

/-! ### the mark -/

/-- positions on the cursor's line at a column ≥ the cursor's move right by `k` -/
def shiftAfter (cursor : Pos) (k : Nat) (x : Pos) : Pos :=
  if x.1 = cursor.1 ∧ cursor.2 ≤ x.2 then (x.1, x.2 + k) else x

/-- the tree of the marked source: the read at `p` renamed, positions right of the cursor shifted -/
def markTree (t : Ast) (cursor p : Pos) (newId : String) (k : Nat) : Ast :=
  (t.rename p newId).mapPos (shiftAfter cursor k)

/-- the hypotheses of `C12_mark_transparent` for one cursor, all decidable (the driver op `markPair` evaluates them):
    no visit method depends on the renamed id (`renQ` at every node); the renamed tree and the marked tree are a layout
    pair accepted by `layoutPairOK`; the cursor makes the same comparisons with every stored location before and
    after the shift; the renamed name itself does not move (it starts left of the cursor) -/
def markOK (t : Ast) (cursor p : Pos) (newId : String) (k : Nat) : Bool :=
  let tr := t.rename p newId
  let m := markTree t cursor p newId k
  t.all (renQ p newId) && layoutPairOK tr m &&
  (pairS tr).all (fun l => Pos.lt cursor (pairPsi tr m l) == Pos.lt cursor l) &&
  decide (pairPhi tr m p = p)

mutual
/-- the `Name` nodes whose `id` differs between two trees of the same shape: (position in the first, id in the second) -/
def idDiffs : Ast → Ast → List (Option Pos × String)
  | .node k1 p1 ns1 vs1, .node k2 p2 ns2 vs2 =>
    (if k1 == "Name" && k2 == "Name" && nameId (.node k1 p1 ns1 vs1) != nameId (.node k2 p2 ns2 vs2)
      then [(p1, nameId (.node k2 p2 ns2 vs2))] else []) ++ idDiffsList vs1 vs2
  | .list a, .list b => idDiffsList a b
  | _, _ => []
def idDiffsList : List Ast → List Ast → List (Option Pos × String)
  | x :: xs, y :: ys => idDiffs x y ++ idDiffsList xs ys
  | _, _ => []
end

end SuppModel.Extract
