/-
  Extract family — the decidable predicates on trees the theorems are stated under (the driver
  evaluates them on every real tree of every run) and the objects they talk about.
-/
import SuppModel.Extract.Model
import SuppModel.Generated.AstSchema

namespace SuppModel.Extract
open SuppModel.Flow

/-- a node of a class the model reads by field name carries exactly the `_fields` of that class
    (generated from the interpreter's `ast`), one value per field -/
def fieldsOK (n : Ast) : Bool :=
  n.vals.length == n.fieldNames.length &&
  match Generated.fieldsOf n.kind with
  | some fs => n.fieldNames == fs
  | none => true

/-- classes whose instances have no child nodes (all their fields are strings / ints / None) -/
def leafKinds : List String := ["Name", "alias", "Global", "Nonlocal", "_AliasEnd"]

def Ast.isScalar : Ast → Bool
  | .node .. => false
  | .list _ => false
  | _ => true

/-- fields no visit method reads and the grammar fills with a string / int / None -/
def scalarFields : List (String × String) :=
  [("For", "type_comment"), ("AsyncFor", "type_comment"), ("FunctionDef", "type_comment"),
   ("AsyncFunctionDef", "type_comment"), ("arg", "type_comment"), ("arg", "arg"), ("comprehension", "is_async"),
   ("ImportFrom", "module"), ("ImportFrom", "level")]

def scalarsOK (n : Ast) : Bool :=
  scalarFields.all (fun kf => n.kind != kf.1 || (match n.field? kf.2 with | some v => v.isScalar | none => true))

def allKind (k : String) (l : List Ast) : Bool := l.all (fun x => x.kind == k)

def okAnd {α} (x : M α) (p : α → Bool) : Bool :=
  match x with
  | .ok a => p a
  | .error _ => false

/-- the helper nodes a visit method reads THROUGH (without visiting them) have the class the grammar gives them -/
def kindsOK (n : Ast) : Bool :=
  (if n.kind == "FunctionDef" || n.kind == "AsyncFunctionDef" || n.kind == "Lambda" then
    okAnd (getNode n "args") (fun a => a.kind == "arguments") else true) &&
  (if n.kind == "Lambda" then
    okAnd (viewArgs n) (fun v => okAnd (optAnnotation v.vararg) List.isEmpty && okAnd (optAnnotation v.kwarg) List.isEmpty) else true) &&
  (if n.kind == "arguments" then
    okAnd (viewArguments n) (fun v => allKind "arg" (v.positional ++ v.kwonly ++ v.vararg.toList ++ v.kwarg.toList)) else true) &&
  (if n.kind == "Try" || n.kind == "TryExcept" then okAnd (getNodeList n "handlers") (allKind "ExceptHandler") else true) &&
  (if n.kind == "ListComp" || n.kind == "GeneratorExp" || n.kind == "DictComp" || n.kind == "SetComp" then
    okAnd (getNodeList n "generators") (allKind "comprehension") else true) &&
  (if n.kind == "Import" || n.kind == "ImportFrom" then okAnd (getNodeList n "names") (allKind "alias") else true) &&
  (if n.kind == "Import" || n.kind == "ImportFrom" then okAnd (aliasEnds n) (allKind "_AliasEnd") else true)

/-- every attribute / position / target the node's visit method reads is there, with the right kind of
    value (`compile` = the reading half of the visit method), and the node has the fields the grammar gives
    its class, with scalars where no method looks and helper nodes of the right class; `TryExcept` is a class of
    Python 2's grammar only (`visit_TryExcept` is kept under that name, `visit_Try = visit_TryExcept`) -/
def shapeHere (n : Ast) : Bool :=
  (match compile n with | .ok _ => true | .error _ => false) && fieldsOK n &&
  (!(leafKinds.contains n.kind) || n.children.isEmpty) && scalarsOK n && kindsOK n && n.kind != "TryExcept"

/-- WELL-SHAPED: every node of the tree is, and the root (whose fields `extract` iterates without visiting the
    root itself: `generic_visit(tree)`) is not itself a Name (it is a `Module`) -/
def wellShaped (t : Ast) : Bool := t.isNode && t.kind != "Name" && t.all shapeHere

/-- no `def` / `class` of the tree has PEP 695 type parameters (`def f[T: bound](): …`): the visit methods
    of the current code never look at `type_params`, so a name read in a bound gets no flow (E42) -/
def noTypeParamsHere (n : Ast) : Bool :=
  if n.kind == "FunctionDef" || n.kind == "AsyncFunctionDef" || n.kind == "ClassDef" then
    match n.field? "type_params" with
    | some (.list []) => true
    | none => true
    | _ => false
  else true

def noTypeParams (t : Ast) : Bool := t.all noTypeParamsHere

/-- an `ast.Name` node with `ctx = Load()` -/
def isLoadName (n : Ast) : Bool :=
  n.kind == "Name" && (match n.field? "ctx" with | some (.str "Load") => true | _ => false)

/-- how a read is identified in `St.flowAttrs`: `(np(name), name.id)` -/
def readKey (n : Ast) : Option Pos × String := (n.pos?, nameId n)

/-- every read of the tree -/
def loads (t : Ast) : List (Option Pos × String) := (t.nodes.filter isLoadName).map readKey

/-- the read got a flow: `hasattr(name, 'flow')` after extraction -/
def St.hasFlow (st : St) (k : Option Pos × String) : Prop := ∃ f, (k.1, k.2, f) ∈ st.flowAttrs

end SuppModel.Extract

namespace SuppModel.Extract

/-- the nodes an action visits -/
def Instr.kids : Instr → List Ast
  | .visit c => [c]
  | .visitIn cs _ _ => cs
  | .scopeBody _ _ _ _ body => body
  | _ => []

/-- every node a visit method visits (directly or through visit_in_flow) -/
def progKids (p : Prog) : List Ast := p.flatMap Instr.kids

/-- the `name.flow = …` assignments of an action -/
def Instr.attrs : Instr → List (Option Flow.Pos × String)
  | .flowAttr p id _ => [(p, id)]
  | _ => []

def progAttrs (p : Prog) : List (Option Flow.Pos × String) := p.flatMap Instr.attrs

end SuppModel.Extract
