/-
  Extract family — layout independence, layer 2: every visit method's reading half commutes with re-positioning
  (`compile_comm`), under the per-node position conditions `posQ`.
-/
import SuppModel.Extract.LemmasLayout2

namespace SuppModel.Extract
open SuppModel.Flow

variable {φ ψ : Pos → Pos}

/-! ### the remaining accessors -/

theorem getOptNode_mapPos {n : Ast} {k : String} {o : Option Ast} (h : getOptNode n k = .ok o) :
    getOptNode (n.mapPos φ) k = .ok (o.map (Ast.mapPos φ)) := by
  simp only [getOptNode, bind_ok_iff] at h
  obtain ⟨w, hw, h⟩ := h
  split at h
  · simp only [pure_ok_iff] at h; subst h
    simp [getOptNode, get_mapPos hw, Ast.mapPos, bind, Except.bind, pure, Except.pure]
  · simp only [pure_ok_iff] at h; subst h
    simp [getOptNode, get_mapPos hw, Ast.mapPos, bind, Except.bind, pure, Except.pure]
  · cases h

theorem filter_isNode_mapPos (items : List Ast) :
    (items.map (Ast.mapPos φ)).filter Ast.isNode = (items.filter Ast.isNode).map (Ast.mapPos φ) := by
  induction items with
  | nil => rfl
  | cons x xs ih => cases x <;> simp_all [List.filter_cons, Ast.isNode, Ast.mapPos]

theorem getOptNodeList_mapPos {n : Ast} {k : String} {l : List Ast} (h : getOptNodeList n k = .ok l) :
    getOptNodeList (n.mapPos φ) k = .ok (l.map (Ast.mapPos φ)) := by
  simp only [getOptNodeList, bind_ok_iff] at h
  obtain ⟨w, hw, h⟩ := h
  split at h
  · rename_i items
    split at h
    · rename_i hall
      simp only [pure_ok_iff] at h; subst h
      simp only [getOptNodeList, get_mapPos hw, Ast.mapPos, mapPosList_eq, bind, Except.bind, pure,
        Except.pure, filter_isNode_mapPos]
      split
      · rfl
      · rename_i hneg
        exfalso
        apply hneg
        simp only [List.all_eq_true, List.mem_map] at hall ⊢
        rintro x ⟨y, hy, rfl⟩
        have := hall y hy
        cases y <;> simp_all [Ast.mapPos, Ast.isNode]
    · cases h
  · cases h

theorem getOptStr_mapPos {n : Ast} {k : String} {s : Option String} (h : getOptStr n k = .ok s) :
    getOptStr (n.mapPos φ) k = .ok s := by
  simp only [getOptStr, bind_ok_iff] at h
  obtain ⟨w, hw, h⟩ := h
  split at h
  · simp only [pure_ok_iff] at h; subst h
    simp [getOptStr, get_mapPos hw, Ast.mapPos, bind, Except.bind, pure, Except.pure]
  · simp only [pure_ok_iff] at h; subst h
    simp [getOptStr, get_mapPos hw, Ast.mapPos, bind, Except.bind, pure, Except.pure]
  · cases h

theorem getInt_mapPos {n : Ast} {k : String} {i : Int} (h : getInt n k = .ok i) : getInt (n.mapPos φ) k = .ok i := by
  simp only [getInt, bind_ok_iff] at h
  obtain ⟨w, hw, h⟩ := h
  split at h
  · simp only [pure_ok_iff] at h; subst h
    simp [getInt, get_mapPos hw, Ast.mapPos, bind, Except.bind, pure, Except.pure]
  · cases h

theorem strsOf_mapPos : ∀ (items : List Ast) (r : List String), strsOf items = .ok r →
    strsOf (items.map (Ast.mapPos φ)) = .ok r := by
  intro items
  induction items with
  | nil => intro r h; exact h
  | cons x xs ih =>
    intro r h
    cases x with
    | str s =>
      simp only [strsOf, bind_ok_iff, pure_ok_iff] at h
      obtain ⟨r', hr, rfl⟩ := h
      simp [strsOf, Ast.mapPos, ih r' hr, bind, Except.bind, pure, Except.pure]
    | node _ _ _ _ => simp [strsOf] at h
    | list _ => simp [strsOf] at h
    | int _ => simp [strsOf] at h
    | none => simp [strsOf] at h

theorem getStrList_mapPos {n : Ast} {k : String} {l : List String} (h : getStrList n k = .ok l) :
    getStrList (n.mapPos φ) k = .ok l := by
  simp only [getStrList, bind_ok_iff] at h
  obtain ⟨w, hw, h⟩ := h
  split at h
  · rename_i items
    simp only [getStrList, get_mapPos hw, Ast.mapPos, mapPosList_eq, bind, Except.bind]
    exact strsOf_mapPos items l h
  · cases h

theorem single_mapPos {v : Ast} {l : List Ast} (h : single v = .ok l) : single (v.mapPos φ) = .ok (l.map (Ast.mapPos φ)) := by
  unfold single at h
  split at h
  · simp only [pure_ok_iff] at h; subst h; rfl
  · simp only [pure_ok_iff] at h; subst h; rfl
  · cases v <;> first | cases h | (rename_i h1 h2; first | exact absurd rfl (h1) | skip)
    all_goals simp_all

theorem field?_isSome_mapPos (n : Ast) (k : String) : ((n.mapPos φ).field? k).isSome = (n.field? k).isSome := by
  rw [field?_mapPos]; cases n.field? k <;> rfl

theorem optNodeList_mapPos {n : Ast} {k : String} {l : List Ast} (h : optNodeList n k = .ok l) :
    optNodeList (n.mapPos φ) k = .ok (l.map (Ast.mapPos φ)) := by
  unfold optNodeList at h ⊢
  rw [field?_mapPos]
  split at h
  · rename_i v hv
    rw [hv]
    exact getNodeList_mapPos h
  · rename_i hv
    rw [hv]
    simp only [pure_ok_iff] at h; subst h; rfl

/-! ### body locations -/

theorem mixKey_of {b d : Ast} {ds : List Ast} {dp bp : Pos} (hk : (b.kind == "FunctionDef" || b.kind == "ClassDef") = true)
    (hd : getNodeList b "decorator_list" = .ok (d :: ds)) (h1 : np d = .ok dp) (h2 : np b = .ok bp) :
    mixKey b = some (dp, bp) := by
  simp only [mixKey, hk, if_true, hd, np_pos h1, np_pos h2]

theorem firstBodyLoc_mapPos {body : List Ast} {l : Option Pos} (hq : ∀ b ∈ body, posQ φ ψ b = true)
    (h : firstBodyLoc body = .ok l) : firstBodyLoc (body.map (Ast.mapPos φ)) = .ok (l.map ψ) := by
  cases body with
  | nil => simp only [firstBodyLoc, pure_ok_iff] at h; subst h; rfl
  | cons b rest =>
    have hqb := hq b List.mem_cons_self
    simp only [firstBodyLoc, List.map_cons, mapPos_kind] at h ⊢
    split at h
    · rename_i hk
      simp only [bind_ok_iff] at h
      obtain ⟨decs, hd, h⟩ := h
      simp only [hk, if_true, getNodeList_mapPos hd, bind, Except.bind]
      cases decs with
      | nil =>
        simp only [bind_ok_iff, pure_ok_iff] at h
        obtain ⟨p, hp, rfl⟩ := h
        simp only [List.map_nil, np_mapPos hp, bind, Except.bind, pure, Except.pure, Option.map_some,
          (posQ_pos hqb (np_pos hp)).1]
      | cons d ds =>
        simp only [bind_ok_iff, pure_ok_iff] at h
        obtain ⟨dp, h1, bp, h2, rfl⟩ := h
        have := posQ_mix hqb (mixKey_of hk hd h1 h2)
        simp only [List.map_cons, np_mapPos h1, np_mapPos h2, bind, Except.bind, pure, Except.pure, Option.map_some, this]
    · rename_i hk
      simp only [bind_ok_iff, pure_ok_iff] at h
      obtain ⟨p, hp, rfl⟩ := h
      simp only [hk, Bool.false_eq_true, if_false, np_mapPos hp, bind, Except.bind, pure, Except.pure, Option.map_some,
        (posQ_pos hqb (np_pos hp)).1]

theorem bodyLoc_mapPos {body : List Ast} {l : Pos} (hq : ∀ b ∈ body, posQ φ ψ b = true)
    (h : bodyLoc body = .ok l) : bodyLoc (body.map (Ast.mapPos φ)) = .ok (ψ l) := by
  simp only [bodyLoc, bind_ok_iff] at h
  obtain ⟨o, ho, h⟩ := h
  simp only [bodyLoc, firstBodyLoc_mapPos hq ho, bind, Except.bind]
  cases o with
  | none => cases h
  | some p => simp only [pure_ok_iff] at h; subst h; rfl

theorem firstLoc_mapPos {body : List Ast} {l : Pos} (hq : ∀ b ∈ body, posQ φ ψ b = true)
    (h : firstLoc body = .ok l) : firstLoc (body.map (Ast.mapPos φ)) = .ok (ψ l) := by
  cases body with
  | nil => cases h
  | cons b rest =>
    simp only [firstLoc] at h
    simp only [List.map_cons, firstLoc, np_mapPos h, (posQ_pos (hq b List.mem_cons_self) (np_pos h)).1]

/-- the position conditions hold at every node strictly inside -/
theorem posQ_sub {n c : Ast} (hs : Sub c n) (h : n.all (posQ φ ψ) = true) : posQ φ ψ c = true :=
  q_of_all hs.node (hs.inside.all _ h)

theorem posQ_list {n : Ast} {l : List Ast} (hs : ∀ c ∈ l, Sub c n) (h : n.all (posQ φ ψ) = true) :
    ∀ b ∈ l, posQ φ ψ b = true := fun b hb => posQ_sub (hs b hb) h

end SuppModel.Extract
