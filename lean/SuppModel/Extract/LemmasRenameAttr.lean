/-
  Extract family — extraction does not depend on an attribute NAME (GENERATED from LemmasRename.lean by textual
  substitution: the same proofs with `Ast.renameAttr` for `Ast.renameAttr`; nothing is recorded under the attribute name,
  so the recorded `.flow` attributes are mapped by the identity).
-/
import SuppModel.Extract.RenameAttr
import SuppModel.Extract.LemmasRename

namespace SuppModel.Extract
open SuppModel.Flow

theorem renAQ_spec {p : Pos} {z : Nat} {s : String} {n : Ast} (h : renAQ p z s n = true) :
    compile (n.renameAttr p z s) = (compile n).map (List.map (Instr.renA p z s)) := by
  unfold renAQ at h
  split at h
  · rename_i prog prog' h1 h2
    rw [h1, h2, prog_eq_of_beq _ _ h]; rfl
  · rename_i e e' h1 h2
    simp only [beq_iff_eq] at h
    rw [h1, h2, h]; rfl
  · cases h

/-! ### the renamed tree -/

variable {p : Pos} {z : Nat} {s : String}

theorem renameAttrList_eq (l : List Ast) : renameAttrList p z s l = l.map (Ast.renameAttr p z s) := by
  induction l with
  | nil => rfl
  | cons x xs ih => simp [renameAttrList, ih]

@[simp] theorem renameAttr_isNode (n : Ast) : (n.renameAttr p z s).isNode = n.isNode := by
  cases n with
  | node k q ns vs => simp only [Ast.renameAttr]; split <;> rfl
  | _ => rfl

theorem setAttr_size (ns : List String) (vs : List Ast) : sizeList (setAttr s ns vs) = sizeList vs := by
  induction ns generalizing vs with
  | nil => rfl
  | cons n ns ih =>
    cases vs with
    | nil => rfl
    | cons v vs =>
      simp only [setAttr]
      split
      · cases v <;> simp [sizeList, Ast.size]
      · simp [sizeList, ih]

mutual
theorem renameAttr_size : ∀ (n : Ast), (n.renameAttr p z s).size = n.size
  | .node k q ns vs => by
    simp only [Ast.renameAttr]
    split <;> simp only [Ast.size, setAttr_size, renameAttrList_size vs]
  | .list items => by simp only [Ast.renameAttr, Ast.size, renameAttrList_size items]
  | .str _ => rfl
  | .int _ => rfl
  | .none => rfl
theorem renameAttrList_size : ∀ (l : List Ast), sizeList (renameAttrList p z s l) = sizeList l
  | [] => rfl
  | x :: xs => by simp only [renameAttrList, sizeList, renameAttr_size x, renameAttrList_size xs]
end

theorem setAttr_children (ns : List String) (vs : List Ast) :
    (setAttr s ns vs).flatMap childrenOfVal = vs.flatMap childrenOfVal := by
  induction ns generalizing vs with
  | nil => rfl
  | cons n ns ih =>
    cases vs with
    | nil => rfl
    | cons v vs =>
      simp only [setAttr]
      split
      · cases v <;> simp [childrenOfVal]
      · simp [ih]

theorem renameAttr_childrenOfVal (v : Ast) : childrenOfVal (v.renameAttr p z s) = (childrenOfVal v).map (Ast.renameAttr p z s) := by
  cases v with
  | node k q ns vs =>
    have : (Ast.node k q ns vs).renameAttr p z s = .node k q ns ((Ast.node k q ns vs).renameAttr p z s).vals := by
      simp only [Ast.renameAttr]; split <;> rfl
    rw [this]; simp [childrenOfVal]
    simp only [Ast.renameAttr]; split <;> rfl
  | list items =>
    simp only [Ast.renameAttr, childrenOfVal, renameAttrList_eq]
    induction items with
    | nil => rfl
    | cons x xs ih => cases hx : x.isNode <;> simp_all [List.filter_cons]
  | str _ => rfl
  | int _ => rfl
  | none => rfl

theorem renameAttr_children (n : Ast) : (n.renameAttr p z s).children = n.children.map (Ast.renameAttr p z s) := by
  cases n with
  | node k q ns vs =>
    have hv : (renameAttrList p z s vs).flatMap childrenOfVal = (vs.flatMap childrenOfVal).map (Ast.renameAttr p z s) := by
      rw [renameAttrList_eq]
      induction vs with
      | nil => rfl
      | cons x xs ih => simp [List.flatMap_cons, renameAttr_childrenOfVal, ih]
    simp only [Ast.renameAttr]
    split
    · simp only [Ast.children, Ast.vals, setAttr_children, hv]
    · simp only [Ast.children, Ast.vals, hv]
  | _ => rfl

theorem generic_renameAttr (n : Ast) : generic (n.renameAttr p z s) = (generic n).map (Instr.renA p z s) := by
  simp [generic, renameAttr_children, Instr.renA]


variable {p : Pos} {z : Nat} {s : String}

theorem visitAll_renA {rec rec' : Rec} (cs : List Ast)
    (hrec : ∀ c ∈ cs, ∀ st, rec' (c.renameAttr p z s) (st.mapAttrs κ) = (rec c st).map (St.mapAttrs κ)) :
    ∀ st, visitAll rec' (cs.map (Ast.renameAttr p z s)) (st.mapAttrs κ) = (visitAll rec cs st).map (St.mapAttrs κ) := by
  induction cs with
  | nil => intro st; rfl
  | cons c cs ih =>
    intro st
    simp only [List.map_cons, visitAll, bind, Except.bind, hrec c List.mem_cons_self st]
    cases rec c st with
    | error e => rfl
    | ok st1 =>
      simp only [Except.map]
      exact ih (fun c hc => hrec c (List.mem_cons_of_mem _ hc)) st1

theorem visitInFlow_renA {rec rec' : Rec} (cs : List Ast) (flow : Nat)
    (hrec : ∀ c ∈ cs, ∀ st, rec' (c.renameAttr p z s) (st.mapAttrs κ) = (rec c st).map (St.mapAttrs κ)) (st : St) :
    visitInFlow rec' (cs.map (Ast.renameAttr p z s)) flow (st.mapAttrs κ) =
      (visitInFlow rec cs flow st).map (fun r => (r.1.mapAttrs κ, r.2)) := by
  have h := visitAll_renA cs hrec { st with cur := flow }
  simp only [visitInFlow, bind, Except.bind]
  have e : ({ st.mapAttrs κ with cur := flow } : St) = ({ st with cur := flow } : St).mapAttrs κ := rfl
  rw [e, h]
  cases visitAll rec cs { st with cur := flow } with
  | error e => rfl
  | ok st1 => rfl

theorem execInstr_renA (lines : List Text.Str) {rec rec' : Rec} (i : Instr)
    (hrec : ∀ c ∈ i.kids, ∀ st, rec' (c.renameAttr p z s) (st.mapAttrs (attrIdK)) = (rec c st).map (St.mapAttrs (attrIdK)))
    (env : Env) (st : St) :
    execInstr lines rec' (i.renA p z s) env (st.mapAttrs (attrIdK)) =
      (execInstr lines rec i env st).map (fun r => (r.1, r.2.mapAttrs (attrIdK))) := by
  cases i with
  | visit c =>
    simp only [Instr.renA, execInstr, bind, Except.bind, hrec c (by simp [Instr.kids]) st]
    cases rec c st <;> rfl
  | visitIn cs f dst =>
    have h := visitInFlow_renA (κ := attrIdK) cs (env.get st.cur f) (by simpa [Instr.kids] using hrec) st
    simp only [Instr.renA, execInstr, bind, Except.bind]
    have e : (st.mapAttrs (attrIdK)).cur = st.cur := rfl
    rw [e, h]
    cases visitInFlow rec cs (env.get st.cur f) st <;> rfl
  | scopeBody cls self register args body =>
    simp only [Instr.renA, execInstr, bind, Except.bind]
    have e1 : (st.mapAttrs (attrIdK)).newScope (if cls then ScopeKind.cls else ScopeKind.func) =
        (((st.newScope (if cls then ScopeKind.cls else ScopeKind.func)).1).mapAttrs (attrIdK),
         (st.newScope (if cls then ScopeKind.cls else ScopeKind.func)).2) := rfl
    have e2 : (st.mapAttrs (attrIdK)).cur = st.cur := rfl
    rw [e1, e2]
    simp only [mapAttrs_foldl_addName]
    have hb := fun st0 => visitInFlow_renA (κ := attrIdK) (rec := rec) (rec' := rec') body
      (st.newScope (if cls then ScopeKind.cls else ScopeKind.func)).2.2 (by simpa [Instr.kids] using hrec) st0
    cases register with
    | true =>
      simp only [if_true, mapAttrs_addName, hb]
      cases visitInFlow rec body _ _ <;> rfl
    | false =>
      simp only [Bool.false_eq_true, if_false, hb]
      cases visitInFlow rec body _ _ <;> rfl
  | flowAttr q id f =>
    simp only [Instr.renA, execInstr, pure, Except.pure, Except.map]
    cases f <;> rfl
  | addName f b =>
    simp only [Instr.renA, execInstr, pure, Except.pure, Except.map]
    have : f.resolve env (st.mapAttrs (attrIdK)) = f.resolve env st := by cases f <;> rfl
    rw [this, mapAttrs_addName]
  | saveCur d => rfl
  | setCur d => rfl
  | makeFlow d ps => rfl
  | setFinal => rfl
  | loop a b => rfl
  | compName f b => rfl
  | attrAssign q => rfl
  | globalDecl ns => rfl
  | nonlocalDecl ns => rfl
  | addReturn => rfl
  | addImport x => rfl
  | addStar a b c => rfl


theorem exec_renA (lines : List Text.Str) {rec rec' : Rec} (prog : Prog)
    (hrec : ∀ c ∈ progKids prog, ∀ st, rec' (c.renameAttr p z s) (st.mapAttrs (attrIdK)) = (rec c st).map (St.mapAttrs (attrIdK))) :
    ∀ (env : Env) (st : St), exec lines rec' (prog.map (Instr.renA p z s)) env (st.mapAttrs (attrIdK)) =
      (exec lines rec prog env st).map (St.mapAttrs (attrIdK)) := by
  induction prog with
  | nil => intro env st; rfl
  | cons i is ih =>
    intro env st
    simp only [List.map_cons, exec, bind, Except.bind,
      execInstr_renA lines i (fun c hc => hrec c (by simp [hc])) env st]
    cases execInstr lines rec i env st with
    | error e => rfl
    | ok r =>
      simp only [Except.map]
      exact ih (fun c hc => hrec c (by simp [hc])) r.1 r.2

theorem visit_renA (lines : List Text.Str) : ∀ (fuel : Nat) (n : Ast), n.all (renAQ p z s) = true → ∀ st,
    visit lines fuel (n.renameAttr p z s) (st.mapAttrs (attrIdK)) = (visit lines fuel n st).map (St.mapAttrs (attrIdK)) := by
  intro fuel
  induction fuel with
  | zero => intro n _ st; rfl
  | succ fuel ih =>
    intro n hall st
    simp only [visit, step, renameAttr_isNode]
    cases hn : n.isNode with
    | false => rfl
    | true =>
      have hq : renAQ p z s n = true := by
        cases n with
        | node k q ns vs => simp only [Ast.all, Bool.and_eq_true] at hall; exact hall.1
        | _ => cases hn
      simp only [if_true, renAQ_spec hq, bind, Except.bind]
      cases hc : compile n with
      | error e => rfl
      | ok prog =>
        simp only [Except.map]
        apply exec_renA
        intro c hk st'
        have hsub := compile_kids_sub hc c hk
        exact ih c (hsub.inside.all _ hall) st'


theorem extract_renameAttr_raw (lines : List Text.Str) (mods : List (String × List String)) (t : Ast)
    (ht : t.all (renAQ p z s) = true) :
    extract lines mods (t.renameAttr p z s) = (extract lines mods t).map (St.mapAttrs (attrIdK)) := by
  unfold extract
  rw [renameAttr_isNode]
  cases hn : t.isNode with
  | false => rfl
  | true =>
    simp only [if_true, renameAttr_size, generic_renameAttr, bind, Except.bind]
    have h := exec_renA (p := p) (z := z) (s := s) lines (rec := visit lines t.size) (rec' := visit lines t.size) (generic t)
      (by
        intro c hc st
        rw [progKids_generic] at hc
        have hsub := children_sub c hc
        exact visit_renA lines t.size c (hsub.inside.all _ ht) st) [] St.init
    have e0 : St.init.mapAttrs (attrIdK) = St.init := rfl
    rw [e0] at h
    rw [h]
    cases exec lines (visit lines t.size) (generic t) [] St.init with
    | error e => rfl
    | ok st1 =>
      simp only [Except.map, pure, Except.pure]
      rw [mapAttrs_resolveStars]


theorem mapAttrs_id (st : St) : st.mapAttrs attrIdK = st := by
  cases st
  have : attrIdK = id := rfl
  simp [St.mapAttrs, this]

/-- EXTRACTION IGNORES AN ATTRIBUTE NAME: same state, same error -/
theorem extract_renameAttr (lines : List Text.Str) (mods : List (String × List String)) (t : Ast)
    {p : Pos} {z : Nat} {s : String} (ht : t.all (renAQ p z s) = true) :
    extract lines mods (t.renameAttr p z s) = extract lines mods t := by
  rw [extract_renameAttr_raw lines mods t ht]
  cases extract lines mods t with
  | error e => rfl
  | ok st => simp [Except.map, mapAttrs_id]

end SuppModel.Extract
