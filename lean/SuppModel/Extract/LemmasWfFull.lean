/-
  Extract family — `Good st → (st.toGraph builtins).wf = true`: the invariant of the extractor's state implies
  the decidable well-formedness the C05 theorems assume (SuppModel/Flow/Scoping.lean).
-/
import SuppModel.Extract.LemmasGoodExec
import SuppModel.Flow.Scoping

namespace SuppModel.Extract
open SuppModel.Flow

theorem find?_idx_aux {α} (id : α → Nat) (l : List α) :
    ∀ (k q : Nat), (∀ (i : Nat) (x : α), l[i]? = some x → id x = k + i) → l.find? (fun x => id x == k + q) = l[q]? := by
  induction l with
  | nil => intro k q _; rfl
  | cons a as ih =>
    intro k q h
    have ha : id a = k := by simpa using h 0 a rfl
    cases q with
    | zero => simp [ha]
    | succ q =>
      have hne : (id a == k + (q + 1)) = false := by rw [ha]; simp
      rw [List.find?_cons, hne]
      have := ih (k + 1) q (fun i x hx => by have := h (i + 1) x (by simpa using hx); omega)
      rw [show k + 1 + q = k + (q + 1) by omega] at this
      simpa using this

theorem find?_idx {α} (id : α → Nat) (l : List α) (h : ∀ (i : Nat) (x : α), l[i]? = some x → id x = i) (q : Nat) :
    l.find? (fun x => id x == q) = l[q]? := by
  have := find?_idx_aux id l 0 q (fun i x hx => by rw [h i x hx]; omega)
  simpa using this

theorem nodup_of_idx {α} (id : α → Nat) (l : List α) (h : ∀ (i : Nat) (x : α), l[i]? = some x → id x = i) :
    (l.map id).Nodup := by
  rw [List.Nodup, List.pairwise_iff_getElem]
  intro i j hi hj hij
  simp only [List.length_map] at hi hj
  simp only [List.getElem_map]
  rw [h i l[i] (List.getElem?_eq_getElem hi), h j l[j] (List.getElem?_eq_getElem hj)]
  omega

theorem eraseDups_of_nodup : ∀ (l : List Nat), l.Nodup → l.eraseDups = l
  | [], _ => rfl
  | a :: as, h => by
    rw [List.nodup_cons] at h
    rw [List.eraseDups_cons]
    have hf : as.filter (fun b => !b == a) = as := by
      apply List.filter_eq_self.mpr
      intro b hb
      simp only [Bool.not_eq_true', beq_eq_false_iff_ne]
      intro e; subst e; exact h.1 hb
    rw [hf, eraseDups_of_nodup as h.2]

theorem eraseDups_len {l : List Nat} (h : l.Nodup) : l.eraseDups.length = l.length := by
  rw [eraseDups_of_nodup l h]

/-! ### the graph of a good state -/

section
variable {st : St} (hg : Good st) (b : List String)
include hg

theorem g_flow? (q : Nat) : (st.toGraph b).flow? q = st.flows[q]? := by
  have := find?_idx (fun f : FlowRec => f.id) st.flows hg.basic.flowIds q
  simpa [Graph.flow?, St.toGraph] using this

theorem toRec_idx : ∀ (i : Nat) (x : ScopeRec), (st.scopes.map (ScopeSt.toRec st.globalNames))[i]? = some x → x.id = i := by
  intro i x hx
  simp only [List.getElem?_map, Option.map_eq_some_iff] at hx
  obtain ⟨s, hs, rfl⟩ := hx
  exact hg.basic.scopeIds i s hs

theorem g_scope? (q : Nat) : (st.toGraph b).scope? q = (st.scopes[q]?).map (ScopeSt.toRec st.globalNames) := by
  have := find?_idx (fun s : ScopeRec => s.id) (st.scopes.map (ScopeSt.toRec st.globalNames)) (toRec_idx hg) q
  simpa [Graph.scope?, St.toGraph] using this

omit hg in
theorem fin_flow {v S : Nat} (h : FIn st.fsk v S) : ∃ f, st.flows[v]? = some f ∧ f.scope = S := by
  obtain ⟨x, hx, e⟩ := h
  simp only [St.fsk, List.getElem?_map, Option.map_eq_some_iff] at hx
  obtain ⟨f, hf, rfl⟩ := hx
  exact ⟨f, hf, e⟩

theorem kind_idx (i : Nat) (s : ScopeSt) (hs : st.scopes[i]? = some s) : s.kind = .module ↔ i = 1 :=
  hg.struct.kindMod i (s.kind, s.parent, s.flow) (by simp [St.ssk, hs])

end

theorem globals_nil (G : List NameRec) (l : List ScopeSt) (h : ∀ s ∈ l, s.kind ≠ .module) :
    (l.map (ScopeSt.toRec G)).flatMap (·.globals) = [] := by
  induction l with
  | nil => rfl
  | cons a as ih =>
    have ha := h a List.mem_cons_self
    have : (ScopeSt.toRec G a).globals = [] := by
      simp only [ScopeSt.toRec]
    have ih' := ih (fun s hs => h s (List.mem_cons_of_mem _ hs))
    rw [List.map_cons, List.flatMap_cons, this, ih']
    rfl

theorem filter_module_nil (G : List NameRec) (l : List ScopeSt) (h : ∀ s ∈ l, s.kind ≠ .module) :
    (l.map (ScopeSt.toRec G)).filter (fun s => s.kind == .module) = [] := by
  apply List.filter_eq_nil_iff.mpr
  intro x hx
  simp only [List.mem_map] at hx
  obtain ⟨s, hs, rfl⟩ := hx
  simp [ScopeSt.toRec, h s hs]

/-- with the module at index 1 only: the globals of the graph are `_global_names` (or nothing), one module scope -/
theorem scopes_shape (G : List NameRec) (l : List ScopeSt)
    (h : ∀ (i : Nat) (s : ScopeSt), l[i]? = some s → (s.kind = .module ↔ i = 1)) :
    ((l.map (ScopeSt.toRec G)).flatMap (·.globals) = [] ∨ (l.map (ScopeSt.toRec G)).flatMap (·.globals) = G) ∧
    ((l.map (ScopeSt.toRec G)).filter (fun s => s.kind == .module)).length ≤ 1 := by
  match l with
  | [] => exact ⟨Or.inl rfl, by simp⟩
  | [a] =>
    have ha : a.kind ≠ .module := fun e => by have := (h 0 a rfl).mp e; omega
    have h1 := globals_nil G [a] (by simpa using ha)
    have h2 := filter_module_nil G [a] (by simpa using ha)
    exact ⟨Or.inl h1, by rw [h2]; simp⟩
  | a :: c :: rest =>
    have ha : a.kind ≠ .module := fun e => by have := (h 0 a rfl).mp e; omega
    have hc : c.kind = .module := (h 1 c rfl).mpr rfl
    have hrest : ∀ s ∈ rest, s.kind ≠ .module := by
      intro s hs e
      obtain ⟨i, hi⟩ := List.getElem?_of_mem hs
      have := (h (i + 2) s (by simpa using hi)).mp e
      omega
    have g1 := globals_nil G [a] (by simpa using ha)
    have g3 := globals_nil G rest hrest
    have f3 := filter_module_nil G rest hrest
    have gc : (ScopeSt.toRec G c).globals = G := by simp [ScopeSt.toRec, hc]
    have kc : ((ScopeSt.toRec G c).kind == ScopeKind.module) = true := by simp [ScopeSt.toRec, hc]
    constructor
    · right
      simp only [List.map_cons, List.flatMap_cons, List.map_nil, List.flatMap_nil, List.append_nil] at g1 g3 ⊢
      rw [g1, gc, g3]; simp
    · have ka : ((ScopeSt.toRec G a).kind == ScopeKind.module) = false := by
        simp [ScopeSt.toRec, ha]
      simp only [List.map_cons, List.filter_cons, ka, kc, f3]
      simp

theorem reaches_root {st : St} (hg : Good st) (b : List String) :
    ∀ (fuel i : Nat), i < fuel → i < st.scopes.length → reachesRoot (st.toGraph b) fuel i = true := by
  intro fuel
  induction fuel with
  | zero => intro i h; omega
  | succ fuel ih =>
    intro i hi hl
    have hs : st.scopes[i]? = some st.scopes[i] := List.getElem?_eq_getElem hl
    simp only [reachesRoot, g_scope? hg b, hs, Option.map_some]
    have hp := hg.struct.parent i (st.scopes[i].kind, st.scopes[i].parent, st.scopes[i].flow) (by simp [St.ssk, hs])
    simp only [ScopeSt.toRec]
    rcases hp with hp | ⟨p, hp, hlt⟩
    · simp only at hp; rw [hp]
    · simp only at hp; rw [hp]
      exact ih p (by omega) (by omega)

/-- the graph of a good state is well-formed -/
theorem good_wf {st : St} (hg : Good st) (b : List String) : (st.toGraph b).wf = true := by
  have hsh := scopes_shape st.globalNames st.scopes (kind_idx hg)
  unfold Graph.wf
  simp only [Bool.and_eq_true, List.all_eq_true, beq_iff_eq, decide_eq_true_eq, Bool.or_eq_true]
  refine ⟨⟨⟨⟨⟨⟨⟨?_, ?_⟩, ?_⟩, ?_⟩, ?_⟩, ?_⟩, ?_⟩, ?_⟩
  · -- name ids
    have hn : (((st.toGraph b).flows.flatMap (·.names) ++ (st.toGraph b).scopes.flatMap (·.globals)).map (·.id)).Nodup := by
      simp only [St.toGraph]
      rcases hsh.1 with e | e
      · rw [e, List.append_nil]
        have := hg.names.nodup
        simp only [St.allNames, List.map_append] at this
        exact (List.nodup_append.mp this).1
      · rw [e]; exact hg.names.nodup
    rw [eraseDups_len hn, List.length_map]
  · have := nodup_of_idx (·.id) st.flows hg.basic.flowIds
    simp only [St.toGraph]
    rw [eraseDups_len this, List.length_map]
  · have := nodup_of_idx (·.id) (st.scopes.map (ScopeSt.toRec st.globalNames)) (toRec_idx hg)
    simp only [St.toGraph]
    rw [eraseDups_len this, List.length_map]
  · intro f hf
    simp only [St.toGraph] at hf
    refine ⟨fun n hn => hg.basic.nameScope f hf n hn, ?_⟩
    intro p hp
    obtain ⟨i, hi⟩ := List.getElem?_of_mem hf
    have hP := hg.struct.parents i (f.scope, f.parents) (by simp [St.fsk, hi]) p hp
    cases p with
    | flow q =>
      obtain ⟨fq, h1, h2⟩ := fin_flow hP
      simp [g_flow? hg b, h1, h2]
    | loop l t =>
      obtain ⟨ft, h1, h2⟩ := fin_flow hP
      simp [g_flow? hg b, h1, h2]
  · intro s' hs'
    simp only [St.toGraph, List.mem_map] at hs'
    obtain ⟨s, hs, rfl⟩ := hs'
    obtain ⟨i, hi⟩ := List.getElem?_of_mem hs
    by_cases hk : s.kind = .builtin
    · right; simp [ScopeSt.toRec, hk]
    · left
      have hF := hg.struct.final i (s.kind, s.parent, s.flow) (by simp [St.ssk, hi]) hk
      obtain ⟨ff, h1, h2⟩ := fin_flow hF
      have hid := hg.basic.scopeIds i s hi
      simp [ScopeSt.toRec, g_flow? hg b, h1, h2, hid]
  · simpa [St.toGraph] using hsh.2
  · intro s' hs'
    simp only [St.toGraph, List.mem_map] at hs'
    obtain ⟨s, hs, rfl⟩ := hs'
    obtain ⟨i, hi⟩ := List.getElem?_of_mem hs
    have hid := hg.basic.scopeIds i s hi
    have hl := (List.getElem?_eq_some_iff.mp hi).1
    simp only [ScopeSt.toRec, hid]
    have : (st.toGraph b).scopes.length = st.scopes.length := by simp [St.toGraph]
    rw [this]
    exact reaches_root hg b _ i (by omega) hl
  · intro f hf
    simp only [St.toGraph] at hf
    obtain ⟨i, hi⟩ := List.getElem?_of_mem hf
    have := hg.struct.fscope i (f.scope, f.parents) (by simp [St.fsk, hi])
    simp only [St.ssk, List.length_map] at this
    rw [g_scope? hg b, List.getElem?_eq_getElem this]
    rfl

end SuppModel.Extract
