/-
  Extract family — the cursor mark is transparent to the analysis (C12 at extractor level): `extract_rename`
  (the id of a read is never looked at) composed with `extract_layout` (positions right of the cursor shift) and
  `C13_layouts` (a query at the UNSHIFTED cursor makes the same comparisons).
-/
import SuppModel.Extract.LemmasRename
import SuppModel.Extract.LemmasLayoutPair
import SuppModel.Props.C13

namespace SuppModel.Extract
open SuppModel.Flow

theorem mark_transparent (t : Ast) (cursor p : Pos) (newId : String) (k : Nat)
    (hok : markOK t cursor p newId k = true)
    (lines lines' : List Text.Str) (mods : List (String × List String)) (s : St) (b : List String)
    (h : extract lines mods t = .ok s) :
    ∃ s', extract lines' mods (markTree t cursor p newId k) = .ok s' ∧
      sameShape (s.toGraph b) (s'.toGraph b) = true ∧
      (∀ id f, (some p, id, f) ∈ s.flowAttrs → (some p, newId, f) ∈ s'.flowAttrs) ∧
      ∀ (n : Nat) (R : List Nat) (f : Nat), namesAt (s'.toGraph b) n R f cursor = namesAt (s.toGraph b) n R f cursor := by
  simp only [markOK, Bool.and_eq_true, List.all_eq_true, beq_iff_eq, decide_eq_true_eq] at hok
  obtain ⟨⟨⟨h1, h2⟩, h3⟩, h4⟩ := hok
  have hr : extract lines mods (t.rename p newId) = .ok (s.mapAttrs (attrRen p newId)) := by
    rw [extract_rename lines mods t h1, h]; rfl
  obtain ⟨hmap, hq, hop, _⟩ := layoutPairOK_spec h2
  obtain ⟨s', e, hs, hl⟩ := extract_sim hop lines lines' mods
    (compileComm_layoutQ (pairPhi (t.rename p newId) (markTree t cursor p newId k))
      (pairPsi (t.rename p newId) (markTree t cursor p newId k)) (pairS (t.rename p newId)))
    (t.rename p newId) hq _ hr
  rw [hmap] at e
  have hg := hs.toGraph b
  have hg0 : (s.mapAttrs (attrRen p newId)).toGraph b = s.toGraph b := rfl
  rw [hg0] at hg
  have hsame : sameShape (s.toGraph b) (s'.toGraph b) = true := by rw [hg]; exact sameShape_mapLoc _
  refine ⟨s', e, hsame, ?_, ?_⟩
  · intro id f hm
    rw [hs.flowAttrs]
    refine List.mem_map.mpr ⟨(some p, newId, f), ?_, by simp [h4]⟩
    exact List.mem_map.mpr ⟨(some p, id, f), hm, by simp [attrRen]⟩
  · intro n R f
    apply SuppModel.Props.C13.C13_layouts _ _ n R f cursor cursor hsame
    rw [hg]
    apply queryIsoAt_mapLoc
    intro l hlm
    have : l ∈ pairS (t.rename p newId) := by
      have := locsOf_in hl b f l (by rw [hg0]; exact hlm)
      exact this
    exact h3 l this

end SuppModel.Extract
