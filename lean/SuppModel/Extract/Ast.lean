/-
  Extract family — the serialised Python `ast` the extractor model runs on.

  CPython's parser is a parameter of the model: the harness sends `ast.parse(src)` generically,
  every node with its class name, its `(lineno, col_offset)` when it has one, and its `_fields`
  IN `_fields` ORDER (`generic_visit` iterates them in that order).  A field value is a node, a list
  (of nodes, of `None`s, of strings), a string, an int or `None`.  `ctx` fields are sent as the
  class name string (`"Load"`, `"Store"`, `"Del"`), so expression contexts are not nodes here
  (every visitor of supp ignores them); a `Constant`'s value is sent as its type name only.

  One universal type (`Ast`) holds nodes and field values, nested through `List` only.
-/
import SuppModel.Flow.Graph

namespace SuppModel.Extract
open SuppModel.Flow (Pos)

inductive Ast where
  | node (kind : String) (pos : Option Pos) (names : List String) (vals : List Ast)
  | list (items : List Ast)
  | str (s : String)
  | int (i : Int)
  | none
  deriving Repr, Inhabited

/-- what a Python exception of the extractor becomes -/
inductive Err where
  | fuel      -- (model only) recursion budget exhausted; `extract` never reports it (extract_total)
  | attr      -- AttributeError / TypeError: a field is missing or holds the wrong kind of value
  | index     -- IndexError: `body[0]` of an empty body
  deriving DecidableEq, Repr, Inhabited

abbrev M := Except Err

namespace Ast

def isNode : Ast → Bool
  | .node .. => true
  | _ => false

def kind : Ast → String
  | .node k _ _ _ => k
  | _ => ""

def pos? : Ast → Option Pos
  | .node _ p _ _ => p
  | _ => Option.none

def fieldNames : Ast → List String
  | .node _ _ ns _ => ns
  | _ => []

def vals : Ast → List Ast
  | .node _ _ _ vs => vs
  | _ => []

end Ast

def lookupField (k : String) : List String → List Ast → Option Ast
  | n :: ns, v :: vs => if n = k then some v else lookupField k ns vs
  | _, _ => Option.none

/-- `getattr(node, k)`, `none` = no such attribute -/
def Ast.field? (n : Ast) (k : String) : Option Ast := lookupField k n.fieldNames n.vals

/-- the AST nodes a field value contributes to `generic_visit`: the value itself, or the items of a
    list that are nodes (`isinstance(item, AST)`) -/
def childrenOfVal : Ast → List Ast
  | .node k p ns vs => [.node k p ns vs]
  | .list items => items.filter Ast.isNode
  | _ => []

/-- the nodes `generic_visit(n)` visits, in order -/
def Ast.children (n : Ast) : List Ast := n.vals.flatMap childrenOfVal

mutual
def Ast.size : Ast → Nat
  | .node _ _ _ vs => 1 + sizeList vs
  | .list items => 1 + sizeList items
  | _ => 1
def sizeList : List Ast → Nat
  | [] => 0
  | x :: xs => x.size + sizeList xs
end

mutual
/-- `p` holds of every NODE of the tree -/
def Ast.all (p : Ast → Bool) : Ast → Bool
  | .node k ps ns vs => p (.node k ps ns vs) && allList p vs
  | .list items => allList p items
  | _ => true
def allList (p : Ast → Bool) : List Ast → Bool
  | [] => true
  | x :: xs => x.all p && allList p xs
end

mutual
/-- every node of the tree, in pre-order (the nodes `ast.walk` yields: a list item that is not a node
    contributes nothing) -/
def Ast.nodes : Ast → List Ast
  | .node k ps ns vs => .node k ps ns vs :: valsNodes vs
  | _ => []
def valsNodes : List Ast → List Ast
  | [] => []
  | .node k ps ns vs :: r => Ast.nodes (.node k ps ns vs) ++ valsNodes r
  | .list items :: r => itemsNodes items ++ valsNodes r
  | _ :: r => valsNodes r
def itemsNodes : List Ast → List Ast
  | [] => []
  | x :: xs => x.nodes ++ itemsNodes xs
end

/-! ### attribute access as the code does it (`M` = may raise) -/

def Ast.get (n : Ast) (k : String) : M Ast :=
  match n.field? k with
  | some v => .ok v
  | Option.none => .error .attr

/-- a field that must hold a node -/
def getNode (n : Ast) (k : String) : M Ast := do
  let v ← n.get k
  if v.isNode then pure v else .error .attr

/-- a field that holds a node or `None` -/
def getOptNode (n : Ast) (k : String) : M (Option Ast) := do
  let v ← n.get k
  match v with
  | .none => pure Option.none
  | .node k p ns vs => pure (some (.node k p ns vs))
  | _ => .error .attr

/-- a field that holds a list of nodes -/
def getNodeList (n : Ast) (k : String) : M (List Ast) := do
  let v ← n.get k
  match v with
  | .list items => if items.all Ast.isNode then pure items else .error .attr
  | _ => .error .attr

/-- a field that holds a list of nodes and `None`s (`kw_defaults`): the nodes -/
def getOptNodeList (n : Ast) (k : String) : M (List Ast) := do
  let v ← n.get k
  match v with
  | .list items =>
    if items.all (fun x => x.isNode || (match x with | .none => true | _ => false)) then pure (items.filter Ast.isNode)
    else .error .attr
  | _ => .error .attr

def getStr (n : Ast) (k : String) : M String := do
  let v ← n.get k
  match v with
  | .str s => pure s
  | _ => .error .attr

def getOptStr (n : Ast) (k : String) : M (Option String) := do
  let v ← n.get k
  match v with
  | .str s => pure (some s)
  | .none => pure Option.none
  | _ => .error .attr

def getInt (n : Ast) (k : String) : M Int := do
  let v ← n.get k
  match v with
  | .int i => pure i
  | _ => .error .attr

def strsOf : List Ast → M (List String)
  | [] => pure []
  | .str s :: r => do pure (s :: (← strsOf r))
  | _ :: _ => .error .attr

def getStrList (n : Ast) (k : String) : M (List String) := do
  let v ← n.get k
  match v with
  | .list items => strsOf items
  | _ => .error .attr

/-- `np(node)` = `(node.lineno, node.col_offset)` -/
def np (n : Ast) : M Pos :=
  match n.pos? with
  | some p => .ok p
  | Option.none => .error .attr

end SuppModel.Extract
