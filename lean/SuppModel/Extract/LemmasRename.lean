/-
  Extract family — extraction does not depend on the `id` of a read: if at every node the reading half of the visit
  method is the same on the renamed tree up to renaming the visited nodes (`renQ`, decidable), the extraction of the
  renamed tree is the extraction of the tree with the `.flow` attribute of the renamed read recorded under the new id
  (`extract_rename`): same flows, names, scopes, everything - and it fails exactly when the other does.
-/
import SuppModel.Extract.Rename
import SuppModel.Extract.LemmasCompile

namespace SuppModel.Extract
open SuppModel.Flow

/-! ### the hand-written equality tests are sound -/

mutual
theorem Ast.eq_of_beq : ∀ (a b : Ast), a.beq b = true → a = b
  | .node k1 p1 ns1 vs1, b, h => by
    cases b with
    | node k2 p2 ns2 vs2 =>
      simp only [Ast.beq, Bool.and_eq_true, beq_iff_eq] at h
      obtain ⟨⟨⟨h1, h2⟩, h3⟩, h4⟩ := h
      rw [h1, h2, h3, asts_eq_of_beq vs1 vs2 h4]
    | list _ => simp [Ast.beq] at h
    | str _ => simp [Ast.beq] at h
    | int _ => simp [Ast.beq] at h
    | none => simp [Ast.beq] at h
  | .list a, b, h => by
    cases b with
    | list b => simp only [Ast.beq] at h; rw [asts_eq_of_beq a b h]
    | node _ _ _ _ => simp [Ast.beq] at h
    | str _ => simp [Ast.beq] at h
    | int _ => simp [Ast.beq] at h
    | none => simp [Ast.beq] at h
  | .str a, b, h => by
    cases b with
    | str b => simp only [Ast.beq, beq_iff_eq] at h; rw [h]
    | node _ _ _ _ => simp [Ast.beq] at h
    | list _ => simp [Ast.beq] at h
    | int _ => simp [Ast.beq] at h
    | none => simp [Ast.beq] at h
  | .int a, b, h => by
    cases b with
    | int b => simp only [Ast.beq, beq_iff_eq] at h; rw [h]
    | node _ _ _ _ => simp [Ast.beq] at h
    | list _ => simp [Ast.beq] at h
    | str _ => simp [Ast.beq] at h
    | none => simp [Ast.beq] at h
  | .none, b, h => by
    cases b with
    | none => rfl
    | node _ _ _ _ => simp [Ast.beq] at h
    | list _ => simp [Ast.beq] at h
    | str _ => simp [Ast.beq] at h
    | int _ => simp [Ast.beq] at h
theorem asts_eq_of_beq : ∀ (a b : List Ast), astsBeq a b = true → a = b
  | [], b, h => by
    cases b with
    | nil => rfl
    | cons _ _ => simp [astsBeq] at h
  | x :: xs, b, h => by
    cases b with
    | nil => simp [astsBeq] at h
    | cons y ys =>
      simp only [astsBeq, Bool.and_eq_true] at h
      rw [Ast.eq_of_beq x y h.1, asts_eq_of_beq xs ys h.2]
end

theorem Instr.eq_of_beq {i j : Instr} (h : i.beq j = true) : i = j := by
  cases i <;> cases j <;> simp only [Instr.beq, Bool.and_eq_true, beq_iff_eq, decide_eq_true_eq, Bool.false_eq_true] at h
  all_goals first
    | rfl
    | (rw [Ast.eq_of_beq _ _ h])
    | (obtain ⟨⟨h1, h2⟩, h3⟩ := h; rw [asts_eq_of_beq _ _ h1, h2, h3])
    | (obtain ⟨⟨⟨⟨h1, h2⟩, h3⟩, h4⟩, h5⟩ := h; rw [h1, h2, h3, h4, asts_eq_of_beq _ _ h5])
    | (obtain ⟨⟨h1, h2⟩, h3⟩ := h; rw [h1, h2, h3])
    | (obtain ⟨h1, h2⟩ := h; rw [h1, h2])
    | (rw [h])

theorem prog_eq_of_beq : ∀ (a b : Prog), progBeq a b = true → a = b
  | [], b, h => by
    cases b with
    | nil => rfl
    | cons _ _ => simp [progBeq] at h
  | x :: xs, b, h => by
    cases b with
    | nil => simp [progBeq] at h
    | cons y ys =>
      simp only [progBeq, Bool.and_eq_true] at h
      rw [Instr.eq_of_beq h.1, prog_eq_of_beq xs ys h.2]

/-- what `renQ` says -/
theorem renQ_spec {p : Pos} {s : String} {n : Ast} (h : renQ p s n = true) :
    compile (n.rename p s) = (compile n).map (List.map (Instr.ren p s)) := by
  unfold renQ at h
  split at h
  · rename_i prog prog' h1 h2
    rw [h1, h2, prog_eq_of_beq _ _ h]; rfl
  · rename_i e e' h1 h2
    simp only [beq_iff_eq] at h
    rw [h1, h2, h]; rfl
  · cases h

/-! ### the renamed tree -/

variable {p : Pos} {s : String}

theorem renameList_eq (l : List Ast) : renameList p s l = l.map (Ast.rename p s) := by
  induction l with
  | nil => rfl
  | cons x xs ih => simp [renameList, ih]

@[simp] theorem rename_isNode (n : Ast) : (n.rename p s).isNode = n.isNode := by
  cases n with
  | node k q ns vs => simp only [Ast.rename]; split <;> rfl
  | _ => rfl

theorem setId_size (ns : List String) (vs : List Ast) : sizeList (setId s ns vs) = sizeList vs := by
  induction ns generalizing vs with
  | nil => rfl
  | cons n ns ih =>
    cases vs with
    | nil => rfl
    | cons v vs =>
      simp only [setId]
      split
      · cases v <;> simp [sizeList, Ast.size]
      · simp [sizeList, ih]

mutual
theorem rename_size : ∀ (n : Ast), (n.rename p s).size = n.size
  | .node k q ns vs => by
    simp only [Ast.rename]
    split <;> simp only [Ast.size, setId_size, renameList_size vs]
  | .list items => by simp only [Ast.rename, Ast.size, renameList_size items]
  | .str _ => rfl
  | .int _ => rfl
  | .none => rfl
theorem renameList_size : ∀ (l : List Ast), sizeList (renameList p s l) = sizeList l
  | [] => rfl
  | x :: xs => by simp only [renameList, sizeList, rename_size x, renameList_size xs]
end

theorem setId_children (ns : List String) (vs : List Ast) :
    (setId s ns vs).flatMap childrenOfVal = vs.flatMap childrenOfVal := by
  induction ns generalizing vs with
  | nil => rfl
  | cons n ns ih =>
    cases vs with
    | nil => rfl
    | cons v vs =>
      simp only [setId]
      split
      · cases v <;> simp [childrenOfVal]
      · simp [ih]

theorem rename_childrenOfVal (v : Ast) : childrenOfVal (v.rename p s) = (childrenOfVal v).map (Ast.rename p s) := by
  cases v with
  | node k q ns vs =>
    have : (Ast.node k q ns vs).rename p s = .node k q ns ((Ast.node k q ns vs).rename p s).vals := by
      simp only [Ast.rename]; split <;> rfl
    rw [this]; simp [childrenOfVal]
    simp only [Ast.rename]; split <;> rfl
  | list items =>
    simp only [Ast.rename, childrenOfVal, renameList_eq]
    induction items with
    | nil => rfl
    | cons x xs ih => cases hx : x.isNode <;> simp_all [List.filter_cons]
  | str _ => rfl
  | int _ => rfl
  | none => rfl

theorem rename_children (n : Ast) : (n.rename p s).children = n.children.map (Ast.rename p s) := by
  cases n with
  | node k q ns vs =>
    have hv : (renameList p s vs).flatMap childrenOfVal = (vs.flatMap childrenOfVal).map (Ast.rename p s) := by
      rw [renameList_eq]
      induction vs with
      | nil => rfl
      | cons x xs ih => simp [List.flatMap_cons, rename_childrenOfVal, ih]
    simp only [Ast.rename]
    split
    · simp only [Ast.children, Ast.vals, setId_children, hv]
    · simp only [Ast.children, Ast.vals, hv]
  | _ => rfl

theorem generic_rename (n : Ast) : generic (n.rename p s) = (generic n).map (Instr.ren p s) := by
  simp [generic, rename_children, Instr.ren]

end SuppModel.Extract

namespace SuppModel.Extract
open SuppModel.Flow

/-! ### the interpreter never reads the recorded `.flow` attributes -/

section
variable (κ : Option Pos × String × Nat → Option Pos × String × Nat)

theorem mapAttrs_addName (st : St) (f : Nat) (b : Binding) :
    (st.mapAttrs κ).addName f b = (st.addName f b).mapAttrs κ := by
  simp only [St.addName]
  rw [apply_ite (St.mapAttrs κ), apply_ite (St.mapAttrs κ)]
  rfl

theorem mapAttrs_foldl_addName (f : Nat) (args : List Binding) : ∀ (st : St),
    args.foldl (fun st a => st.addName f a) (st.mapAttrs κ) = (args.foldl (fun st a => st.addName f a) st).mapAttrs κ := by
  induction args with
  | nil => intro st; rfl
  | cons a as ih => intro st; simp only [List.foldl_cons, mapAttrs_addName, ih]

variable {κ}
variable {p : Pos} {s : String}

theorem visitAll_ren {rec rec' : Rec} (cs : List Ast)
    (hrec : ∀ c ∈ cs, ∀ st, rec' (c.rename p s) (st.mapAttrs κ) = (rec c st).map (St.mapAttrs κ)) :
    ∀ st, visitAll rec' (cs.map (Ast.rename p s)) (st.mapAttrs κ) = (visitAll rec cs st).map (St.mapAttrs κ) := by
  induction cs with
  | nil => intro st; rfl
  | cons c cs ih =>
    intro st
    simp only [List.map_cons, visitAll, bind, Except.bind, hrec c List.mem_cons_self st]
    cases rec c st with
    | error e => rfl
    | ok st1 =>
      simp only [Except.map]
      exact ih (fun c hc => hrec c (List.mem_cons_of_mem _ hc)) st1

theorem visitInFlow_ren {rec rec' : Rec} (cs : List Ast) (flow : Nat)
    (hrec : ∀ c ∈ cs, ∀ st, rec' (c.rename p s) (st.mapAttrs κ) = (rec c st).map (St.mapAttrs κ)) (st : St) :
    visitInFlow rec' (cs.map (Ast.rename p s)) flow (st.mapAttrs κ) =
      (visitInFlow rec cs flow st).map (fun r => (r.1.mapAttrs κ, r.2)) := by
  have h := visitAll_ren cs hrec { st with cur := flow }
  simp only [visitInFlow, bind, Except.bind]
  have e : ({ st.mapAttrs κ with cur := flow } : St) = ({ st with cur := flow } : St).mapAttrs κ := rfl
  rw [e, h]
  cases visitAll rec cs { st with cur := flow } with
  | error e => rfl
  | ok st1 => rfl

theorem execInstr_ren (lines : List Text.Str) {rec rec' : Rec} (i : Instr)
    (hrec : ∀ c ∈ i.kids, ∀ st, rec' (c.rename p s) (st.mapAttrs (attrRen p s)) = (rec c st).map (St.mapAttrs (attrRen p s)))
    (env : Env) (st : St) :
    execInstr lines rec' (i.ren p s) env (st.mapAttrs (attrRen p s)) =
      (execInstr lines rec i env st).map (fun r => (r.1, r.2.mapAttrs (attrRen p s))) := by
  cases i with
  | visit c =>
    simp only [Instr.ren, execInstr, bind, Except.bind, hrec c (by simp [Instr.kids]) st]
    cases rec c st <;> rfl
  | visitIn cs f dst =>
    have h := visitInFlow_ren (κ := attrRen p s) cs (env.get st.cur f) (by simpa [Instr.kids] using hrec) st
    simp only [Instr.ren, execInstr, bind, Except.bind]
    have e : (st.mapAttrs (attrRen p s)).cur = st.cur := rfl
    rw [e, h]
    cases visitInFlow rec cs (env.get st.cur f) st <;> rfl
  | scopeBody cls self register args body =>
    simp only [Instr.ren, execInstr, bind, Except.bind]
    have e1 : (st.mapAttrs (attrRen p s)).newScope (if cls then ScopeKind.cls else ScopeKind.func) =
        (((st.newScope (if cls then ScopeKind.cls else ScopeKind.func)).1).mapAttrs (attrRen p s),
         (st.newScope (if cls then ScopeKind.cls else ScopeKind.func)).2) := rfl
    have e2 : (st.mapAttrs (attrRen p s)).cur = st.cur := rfl
    rw [e1, e2]
    simp only [mapAttrs_foldl_addName]
    have hb := fun st0 => visitInFlow_ren (κ := attrRen p s) (rec := rec) (rec' := rec') body
      (st.newScope (if cls then ScopeKind.cls else ScopeKind.func)).2.2 (by simpa [Instr.kids] using hrec) st0
    cases register with
    | true =>
      simp only [if_true, mapAttrs_addName, hb]
      cases visitInFlow rec body _ _ <;> rfl
    | false =>
      simp only [Bool.false_eq_true, if_false, hb]
      cases visitInFlow rec body _ _ <;> rfl
  | flowAttr q id f =>
    simp only [Instr.ren, execInstr, pure, Except.pure, Except.map]
    cases f <;> rfl
  | addName f b =>
    simp only [Instr.ren, execInstr, pure, Except.pure, Except.map]
    have : f.resolve env (st.mapAttrs (attrRen p s)) = f.resolve env st := by cases f <;> rfl
    rw [this, mapAttrs_addName]
  | saveCur d => rfl
  | setCur d => rfl
  | makeFlow d ps => rfl
  | setFinal => rfl
  | loop a b => rfl
  | compName f b => rfl
  | attrAssign q => rfl
  | globalDecl ns => rfl
  | nonlocalDecl ns => rfl
  | addReturn => rfl
  | addImport x => rfl
  | addStar a b c => rfl

end

end SuppModel.Extract

namespace SuppModel.Extract
open SuppModel.Flow

variable {p : Pos} {s : String}

theorem exec_ren (lines : List Text.Str) {rec rec' : Rec} (prog : Prog)
    (hrec : ∀ c ∈ progKids prog, ∀ st, rec' (c.rename p s) (st.mapAttrs (attrRen p s)) = (rec c st).map (St.mapAttrs (attrRen p s))) :
    ∀ (env : Env) (st : St), exec lines rec' (prog.map (Instr.ren p s)) env (st.mapAttrs (attrRen p s)) =
      (exec lines rec prog env st).map (St.mapAttrs (attrRen p s)) := by
  induction prog with
  | nil => intro env st; rfl
  | cons i is ih =>
    intro env st
    simp only [List.map_cons, exec, bind, Except.bind,
      execInstr_ren lines i (fun c hc => hrec c (by simp [hc])) env st]
    cases execInstr lines rec i env st with
    | error e => rfl
    | ok r =>
      simp only [Except.map]
      exact ih (fun c hc => hrec c (by simp [hc])) r.1 r.2

theorem visit_ren (lines : List Text.Str) : ∀ (fuel : Nat) (n : Ast), n.all (renQ p s) = true → ∀ st,
    visit lines fuel (n.rename p s) (st.mapAttrs (attrRen p s)) = (visit lines fuel n st).map (St.mapAttrs (attrRen p s)) := by
  intro fuel
  induction fuel with
  | zero => intro n _ st; rfl
  | succ fuel ih =>
    intro n hall st
    simp only [visit, step, rename_isNode]
    cases hn : n.isNode with
    | false => rfl
    | true =>
      have hq : renQ p s n = true := by
        cases n with
        | node k q ns vs => simp only [Ast.all, Bool.and_eq_true] at hall; exact hall.1
        | _ => cases hn
      simp only [if_true, renQ_spec hq, bind, Except.bind]
      cases hc : compile n with
      | error e => rfl
      | ok prog =>
        simp only [Except.map]
        apply exec_ren
        intro c hk st'
        have hsub := compile_kids_sub hc c hk
        exact ih c (hsub.inside.all _ hall) st'

theorem mapAttrs_resolveStars (κ : Option Pos × String × Nat → Option Pos × String × Nat)
    (mods : List (String × List String)) (st : St) :
    resolveStars mods (st.mapAttrs κ) = (resolveStars mods st).mapAttrs κ := by
  have hnames : ∀ (x : Star) (names : List String) (st : St),
      starNames x names (st.mapAttrs κ) = (starNames x names st).mapAttrs κ := by
    intro x names
    unfold starNames
    induction names with
    | nil => intro st; rfl
    | cons nm names ih =>
      intro st
      simp only [List.foldl_cons]
      split
      · exact ih st
      · rw [mapAttrs_addName]; exact ih _
  have hstar : ∀ (x : Star) (st : St), resolveStar mods (st.mapAttrs κ) x = (resolveStar mods st x).mapAttrs κ := by
    intro x st
    unfold resolveStar
    split
    · rfl
    · exact hnames x _ st
  have hfold : ∀ (l : List Star) (st : St),
      l.foldl (resolveStar mods) (st.mapAttrs κ) = (l.foldl (resolveStar mods) st).mapAttrs κ := by
    intro l
    induction l with
    | nil => intro st; rfl
    | cons x l ih => intro st; simp only [List.foldl_cons, hstar, ih]
  unfold resolveStars
  have e : (st.mapAttrs κ).stars = st.stars := rfl
  rw [e, hfold]
  rfl

/-- EXTRACTION IGNORES THE ID OF A READ: on a tree all of whose nodes satisfy `renQ`, extracting the renamed tree gives
    the state of the original extraction with the renamed read's `.flow` attribute recorded under the new id - and
    fails with the same error when the original fails -/
theorem extract_rename (lines : List Text.Str) (mods : List (String × List String)) (t : Ast)
    (ht : t.all (renQ p s) = true) :
    extract lines mods (t.rename p s) = (extract lines mods t).map (St.mapAttrs (attrRen p s)) := by
  unfold extract
  rw [rename_isNode]
  cases hn : t.isNode with
  | false => rfl
  | true =>
    simp only [if_true, rename_size, generic_rename, bind, Except.bind]
    have h := exec_ren (p := p) (s := s) lines (rec := visit lines t.size) (rec' := visit lines t.size) (generic t)
      (by
        intro c hc st
        rw [progKids_generic] at hc
        have hsub := children_sub c hc
        exact visit_ren lines t.size c (hsub.inside.all _ ht) st) [] St.init
    have e0 : St.init.mapAttrs (attrRen p s) = St.init := rfl
    rw [e0] at h
    rw [h]
    cases exec lines (visit lines t.size) (generic t) [] St.init with
    | error e => rfl
    | ok st1 =>
      simp only [Except.map, pure, Except.pure]
      rw [mapAttrs_resolveStars]

theorem mapAttrs_toGraph (κ : Option Pos × String × Nat → Option Pos × String × Nat) (st : St) (b : List String) :
    (st.mapAttrs κ).toGraph b = st.toGraph b := rfl

end SuppModel.Extract
