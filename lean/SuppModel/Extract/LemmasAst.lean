/-
  Extract family — facts about the serialised tree: what the accessors return lies strictly inside the
  node (smaller, and every node of it is a node of the tree).
-/
import SuppModel.Extract.Shape

namespace SuppModel.Extract
open SuppModel.Flow

theorem bind_ok_iff {α β} (x : M α) (f : α → M β) (b : β) :
    (x >>= f) = .ok b ↔ ∃ a, x = .ok a ∧ f a = .ok b := by
  cases x <;> simp [bind, Except.bind]

theorem pure_ok_iff {α} (a b : α) : (pure a : M α) = .ok b ↔ a = b := by
  simp [pure, Except.pure]

theorem ok_inj {α} {a b : α} : (Except.ok a : M α) = .ok b ↔ a = b := by
  constructor
  · intro h; injection h
  · intro h; rw [h]

/-- `v` lies strictly inside `n` -/
structure Inside (v n : Ast) : Prop where
  size : v.size < n.size
  all : ∀ p, n.all p = true → v.all p = true

/-- `c` is a node strictly inside `n` -/
structure Sub (c n : Ast) : Prop where
  node : c.isNode = true
  inside : Inside c n

theorem Inside.trans {a b c : Ast} (h1 : Inside a b) (h2 : Inside b c) : Inside a c :=
  ⟨Nat.lt_trans h1.size h2.size, fun p h => h1.all p (h2.all p h)⟩

theorem Sub.trans {a b c : Ast} (h1 : Sub a b) (h2 : Inside b c) : Sub a c :=
  ⟨h1.node, h1.inside.trans h2⟩

theorem size_le_sizeList {v : Ast} {vs : List Ast} (h : v ∈ vs) : v.size ≤ sizeList vs := by
  induction vs with
  | nil => cases h
  | cons x xs ih =>
    simp only [sizeList]
    cases h with
    | head => omega
    | tail _ h => have := ih h; omega

theorem all_of_allList {p : Ast → Bool} {v : Ast} {vs : List Ast} (h : v ∈ vs) (ha : allList p vs = true) :
    v.all p = true := by
  induction vs with
  | nil => cases h
  | cons x xs ih =>
    simp only [allList, Bool.and_eq_true] at ha
    cases h with
    | head => exact ha.1
    | tail _ h => exact ih h ha.2

theorem inside_of_mem_vals {v : Ast} {k p ns vs} (h : v ∈ vs) : Inside v (.node k p ns vs) := by
  refine ⟨?_, ?_⟩
  · have := size_le_sizeList h
    simp only [Ast.size]; omega
  · intro q hq
    simp only [Ast.all, Bool.and_eq_true] at hq
    exact all_of_allList h hq.2

theorem inside_of_mem_items {v : Ast} {items} (h : v ∈ items) : Inside v (.list items) := by
  refine ⟨?_, ?_⟩
  · have := size_le_sizeList h
    simp only [Ast.size]; omega
  · intro q hq
    simp only [Ast.all] at hq
    exact all_of_allList h hq

theorem lookupField_mem {k : String} {ns : List String} {vs : List Ast} {v : Ast}
    (h : lookupField k ns vs = some v) : v ∈ vs := by
  induction ns generalizing vs with
  | nil => simp [lookupField] at h
  | cons n ns ih =>
    cases vs with
    | nil => simp [lookupField] at h
    | cons x xs =>
      simp only [lookupField] at h
      split at h
      · injection h with h; subst h; exact List.mem_cons_self
      · exact List.mem_cons_of_mem _ (ih h)

theorem field_inside {n : Ast} {k : String} {v : Ast} (h : n.field? k = some v) : Inside v n := by
  cases n with
  | node kd p ns vs => exact inside_of_mem_vals (lookupField_mem h)
  | _ => simp [Ast.field?, Ast.fieldNames, Ast.vals, lookupField] at h

theorem get_inside {n : Ast} {k : String} {v : Ast} (h : n.get k = .ok v) : Inside v n := by
  unfold Ast.get at h
  split at h
  · rename_i v' hv; injection h with h; subst h; exact field_inside hv
  · cases h

theorem getNode_sub {n : Ast} {k : String} {c : Ast} (h : getNode n k = .ok c) : Sub c n := by
  simp only [getNode, bind_ok_iff] at h
  obtain ⟨v, hv, h⟩ := h
  split at h
  · rename_i hn
    simp only [pure_ok_iff] at h; subst h
    exact ⟨hn, get_inside hv⟩
  · cases h

theorem getOptNode_sub {n : Ast} {k : String} {c : Ast} (h : getOptNode n k = .ok (some c)) : Sub c n := by
  simp only [getOptNode, bind_ok_iff] at h
  obtain ⟨v, hv, h⟩ := h
  split at h
  · simp [pure_ok_iff] at h
  · simp only [pure_ok_iff, Option.some.injEq] at h; subst h
    exact ⟨rfl, get_inside hv⟩
  · cases h

theorem getNodeList_sub {n : Ast} {k : String} {l : List Ast} (h : getNodeList n k = .ok l) :
    ∀ c ∈ l, Sub c n := by
  simp only [getNodeList, bind_ok_iff] at h
  obtain ⟨v, hv, h⟩ := h
  split at h
  · rename_i items
    split at h
    · rename_i hall
      simp only [pure_ok_iff] at h; subst h
      intro c hc
      exact ⟨List.all_eq_true.mp hall c hc, (inside_of_mem_items hc).trans (get_inside hv)⟩
    · cases h
  · cases h

theorem getOptNodeList_sub {n : Ast} {k : String} {l : List Ast} (h : getOptNodeList n k = .ok l) :
    ∀ c ∈ l, Sub c n := by
  simp only [getOptNodeList, bind_ok_iff] at h
  obtain ⟨v, hv, h⟩ := h
  split at h
  · rename_i items
    split at h
    · simp only [pure_ok_iff] at h; subst h
      intro c hc
      have hc' := List.mem_filter.mp hc
      exact ⟨hc'.2, (inside_of_mem_items hc'.1).trans (get_inside hv)⟩
    · cases h
  · cases h

theorem single_sub {v n : Ast} {l : List Ast} (hv : Inside v n) (h : single v = .ok l) : ∀ c ∈ l, Sub c n := by
  unfold single at h
  split at h
  · simp only [pure_ok_iff] at h; subst h; intro c hc; cases hc
  · simp only [pure_ok_iff] at h; subst h
    intro c hc
    simp only [List.mem_singleton] at hc; subst hc
    exact ⟨rfl, hv⟩
  · cases h

theorem childrenOfVal_sub {v n : Ast} (hv : Inside v n) : ∀ c ∈ childrenOfVal v, Sub c n := by
  intro c hc
  cases v with
  | node k p ns vs =>
    simp only [childrenOfVal, List.mem_singleton] at hc; subst hc; exact ⟨rfl, hv⟩
  | list items =>
    simp only [childrenOfVal] at hc
    have hc' := List.mem_filter.mp hc
    exact ⟨hc'.2, (inside_of_mem_items hc'.1).trans hv⟩
  | str _ => simp [childrenOfVal] at hc
  | int _ => simp [childrenOfVal] at hc
  | none => simp [childrenOfVal] at hc

theorem children_sub {n : Ast} : ∀ c ∈ n.children, Sub c n := by
  intro c hc
  cases n with
  | node k p ns vs =>
    simp only [Ast.children, Ast.vals, List.mem_flatMap] at hc
    obtain ⟨v, hv, hc⟩ := hc
    exact childrenOfVal_sub (inside_of_mem_vals hv) c hc
  | _ => simp [Ast.children, Ast.vals] at hc

end SuppModel.Extract
