/-
  Extract family — `Good`, part 2: the interpreter keeps it.  The extra ingredient is what the registers of a
  visit method can hold: the id of an EXISTING flow of the CURRENT scope (`EnvOK`); a visit adds flows, never
  changes the scope of one, and returns with `self.flow` in the scope it started in (`RecOK`).
-/
import SuppModel.Extract.LemmasGood

namespace SuppModel.Extract
open SuppModel.Flow

/-- every register holds an existing flow of the scope of `self.flow` -/
def EnvOK (env : Env) (st : St) : Prop := ∀ kv ∈ env, FIn st.fsk kv.2 (scopeOf st.fsk st.cur)

/-- what a state transition of the visitor guarantees -/
structure Step (st st' : St) : Prop where
  good : Good st'
  mono : MonoF st.fsk st'.fsk
  scope : scopeOf st'.fsk st'.cur = scopeOf st.fsk st.cur

def RecOK (rec : Rec) : Prop := ∀ c st st', rec c st = .ok st' → Good st → Step st st'

theorem Step.refl {st : St} (h : Good st) : Step st st := ⟨h, MonoF.refl _, rfl⟩

theorem Step.trans {a b c : St} (h1 : Step a b) (h2 : Step b c) : Step a c :=
  ⟨h2.good, h1.mono.trans h2.mono, h2.scope.trans h1.scope⟩

theorem curIn {st : St} (h : Good st) : FIn st.fsk st.cur (scopeOf st.fsk st.cur) := fin_of_lt h.struct.cur

theorem EnvOK.step {env : Env} {st st' : St} (he : EnvOK env st) (h : Step st st') : EnvOK env st' := by
  intro kv hkv
  rw [h.scope]
  exact FIn.mono h.mono (he kv hkv)

theorem env_get_ok {env : Env} {st : St} (he : EnvOK env st) (h : Good st) (r : Nat) :
    FIn st.fsk (env.get st.cur r) (scopeOf st.fsk st.cur) := by
  induction env with
  | nil => exact curIn h
  | cons kv env ih =>
    obtain ⟨k, v⟩ := kv
    simp only [Env.get]
    split
    · exact he (k, v) List.mem_cons_self
    · exact ih (fun kv hkv => he kv (List.mem_cons_of_mem _ hkv))

theorem EnvOK.set {env : Env} {st : St} (he : EnvOK env st) {d v : Nat} (hv : FIn st.fsk v (scopeOf st.fsk st.cur)) :
    EnvOK (env.set d v) st := by
  intro kv hkv
  simp only [Env.set, List.mem_cons] at hkv
  rcases hkv with rfl | hkv
  · exact hv
  · exact he kv hkv

/-- a step that leaves the skeleton of the flows and `self.flow` alone -/
theorem Step.same {st st' : St} (hg : Good st') (hf : st'.fsk = st.fsk) (hc : st'.cur = st.cur) : Step st st' :=
  ⟨hg, by rw [hf]; exact MonoF.refl _, by rw [hf, hc]⟩

/-- a step that only records something (`.flow` attributes, `_attr_assigns`, `_imports`, `_star_imports`) -/
theorem step_record {st st' : St} (hg : Good st) (h1 : st'.flows = st.flows) (h2 : st'.scopes = st.scopes)
    (h3 : st'.cur = st.cur) (h4 : st'.infos = st.infos) (h5 : st'.globalNames = st.globalNames) : Step st st' := by
  have hb : Basic st' :=
    ⟨by rw [h1]; exact hg.basic.flowIds, by rw [h2]; exact hg.basic.scopeIds, by rw [h1]; exact hg.basic.nameScope⟩
  exact Step.same (hg.scopesSame hb h1 (by simp [St.ssk, h2]) h5 h4 h3) (by simp [St.fsk, h1]) h3

theorem visitAll_step {rec : Rec} (hrec : RecOK rec) (cs : List Ast) :
    ∀ st st', visitAll rec cs st = .ok st' → Good st → Step st st' := by
  induction cs with
  | nil => intro st st' h hg; simp only [visitAll, pure_ok_iff] at h; subst h; exact Step.refl hg
  | cons c cs ih =>
    intro st st' h hg
    simp only [visitAll, bind_ok_iff] at h
    obtain ⟨st1, h1, h2⟩ := h
    have s1 := hrec c st st1 h1 hg
    exact s1.trans (ih st1 st' h2 s1.good)

/-- `visit_in_flow(nodes, flow)` for an existing flow of scope `S`: `self.flow` is restored, the result is a flow of `S` -/
theorem visitInFlow_step {rec : Rec} (hrec : RecOK rec) (cs : List Ast) (flow S : Nat) :
    ∀ st r, visitInFlow rec cs flow st = .ok r → Good st → FIn st.fsk flow S →
      Good r.1 ∧ MonoF st.fsk r.1.fsk ∧ r.1.cur = st.cur ∧ FIn r.1.fsk r.2 S := by
  intro st r h hg hf
  simp only [visitInFlow, bind_ok_iff, pure_ok_iff] at h
  obtain ⟨st1, h1, rfl⟩ := h
  have hg0 : Good { st with cur := flow } := hg.setCur hf.lt
  have s1 := visitAll_step hrec cs _ st1 h1 hg0
  have hm : MonoF st.fsk st1.fsk := s1.mono
  have hcur : st.cur < st1.fsk.length := (FIn.mono hm (curIn hg)).lt
  refine ⟨s1.good.setCur hcur, hm, rfl, ?_⟩
  have := curIn s1.good
  rw [s1.scope] at this
  have e : scopeOf st.fsk flow = S := hf.scopeOf
  simp only [St.fsk] at this e ⊢
  rw [e] at this
  exact this

theorem foldl_addName_good (f : Nat) (args : List Binding) :
    ∀ st, Good st → Good (args.foldl (fun st a => st.addName f a) st) ∧
      (args.foldl (fun st a => st.addName f a) st).fsk = st.fsk ∧
      (args.foldl (fun st a => st.addName f a) st).cur = st.cur := by
  induction args with
  | nil => intro st hg; exact ⟨hg, rfl, rfl⟩
  | cons a as ih =>
    intro st hg
    obtain ⟨g1, f1, c1⟩ := hg.addName f a
    obtain ⟨g2, f2, c2⟩ := ih _ g1
    exact ⟨g2, f2.trans f1, c2.trans c1⟩

theorem execInstr_step (lines : List Text.Str) {rec : Rec} (hrec : RecOK rec) (i : Instr) :
    ∀ env st r, execInstr lines rec i env st = .ok r → Good st → EnvOK env st →
      Step st r.2 ∧ EnvOK r.1 r.2 := by
  intro env st r h hg he
  cases i with
  | visit c =>
    simp only [execInstr, bind_ok_iff, pure_ok_iff] at h
    obtain ⟨st1, h1, rfl⟩ := h
    have s := hrec c st st1 h1 hg
    exact ⟨s, he.step s⟩
  | visitIn cs f dst =>
    simp only [execInstr, bind_ok_iff, pure_ok_iff] at h
    obtain ⟨r1, h1, rfl⟩ := h
    obtain ⟨g1, m1, c1, f1⟩ := visitInFlow_step hrec cs _ _ st r1 h1 hg (env_get_ok he hg f)
    have hsc : scopeOf r1.1.fsk r1.1.cur = scopeOf st.fsk st.cur := by
      rw [c1]; exact scopeOf_mono m1 hg.struct.cur
    have s : Step st r1.1 := ⟨g1, m1, hsc⟩
    refine ⟨s, ?_⟩
    cases dst with
    | none => exact he.step s
    | some d => exact (he.step s).set (by rw [hsc]; exact f1)
  | saveCur d =>
    simp only [execInstr, pure_ok_iff] at h; subst h
    exact ⟨Step.refl hg, he.set (curIn hg)⟩
  | setCur s =>
    simp only [execInstr, pure_ok_iff] at h; subst h
    have hv := env_get_ok he hg s
    have st1 : Step st { st with cur := env.get st.cur s } := ⟨hg.setCur hv.lt, MonoF.refl _, hv.scopeOf⟩
    exact ⟨st1, he.step st1⟩
  | makeFlow d ps =>
    simp only [execInstr, pure_ok_iff] at h; subst h
    have hS : scopeOf st.fsk st.cur < st.ssk.length := hg.struct.curScope_lt
    have hps : ∀ p ∈ (ps.map (env.get st.cur)).map Parent.flow, PIn st.fsk (scopeOf st.fsk st.cur) p := by
      intro p hp
      simp only [List.map_map, List.mem_map] at hp
      obtain ⟨q, _, rfl⟩ := hp
      exact env_get_ok he hg q
    obtain ⟨g1, f1, c1, id1⟩ := hg.newFlow hS hps
    simp only [St.makeFlow, curScope_eq]
    have m1 : MonoF st.fsk (st.newFlow (scopeOf st.fsk st.cur) ((ps.map (env.get st.cur)).map Parent.flow)).1.fsk := by
      rw [f1]; exact monoF_append _ _
    have s : Step st (st.newFlow (scopeOf st.fsk st.cur) ((ps.map (env.get st.cur)).map Parent.flow)).1 :=
      ⟨g1, m1, by rw [c1]; exact scopeOf_mono m1 hg.struct.cur⟩
    refine ⟨s, (he.step s).set ?_⟩
    rw [s.scope, id1, f1]
    exact fin_newFlow _ _ _
  | setFinal =>
    simp only [execInstr, pure_ok_iff] at h; subst h
    obtain ⟨g1, f1, c1⟩ := hg.setFinal
    have s := Step.same g1 f1 c1
    exact ⟨s, he.step s⟩
  | loop a b =>
    simp only [execInstr, pure_ok_iff] at h; subst h
    have ha := env_get_ok he hg a
    have hb := env_get_ok he hg b
    obtain ⟨g1, m1, c1⟩ := hg.addLoop (hd := env.get st.cur a) (t := env.get st.cur b) (by rw [ha.scopeOf]; exact hb)
    have s : Step st (st.addLoop (env.get st.cur a) (env.get st.cur b)) :=
      ⟨g1, m1, by rw [c1]; exact scopeOf_mono m1 hg.struct.cur⟩
    exact ⟨s, he.step s⟩
  | addName f b =>
    simp only [execInstr, pure_ok_iff] at h; subst h
    obtain ⟨g1, f1, c1⟩ := hg.addName (f.resolve env st) (b.resolve lines)
    have s := Step.same g1 f1 c1
    exact ⟨s, he.step s⟩
  | compName f b =>
    simp only [execInstr, pure_ok_iff] at h; subst h
    obtain ⟨g1, f1, c1⟩ := hg.compName (env.get st.cur f) b
    have s := Step.same g1 f1 c1
    exact ⟨s, he.step s⟩
  | flowAttr p id f =>
    simp only [execInstr, pure_ok_iff] at h; subst h
    exact ⟨step_record hg rfl rfl rfl rfl rfl, he.step (step_record hg rfl rfl rfl rfl rfl)⟩
  | attrAssign p =>
    simp only [execInstr, pure_ok_iff] at h; subst h
    exact ⟨step_record hg rfl rfl rfl rfl rfl, he.step (step_record hg rfl rfl rfl rfl rfl)⟩
  | globalDecl ns =>
    simp only [execInstr, pure_ok_iff] at h; subst h
    have s : Step st (st.globalDecl ns) := Step.same (hg.globalDecl ns) rfl rfl
    exact ⟨s, he.step s⟩
  | nonlocalDecl ns =>
    simp only [execInstr, pure_ok_iff] at h; subst h
    have s : Step st (st.nonlocalDecl ns) := Step.same (hg.nonlocalDecl ns) rfl rfl
    exact ⟨s, he.step s⟩
  | addReturn =>
    simp only [execInstr, pure_ok_iff] at h; subst h
    have s : Step st st.addReturn := Step.same hg.addReturn rfl rfl
    exact ⟨s, he.step s⟩
  | addImport x =>
    simp only [execInstr, pure_ok_iff] at h; subst h
    exact ⟨step_record hg rfl rfl rfl rfl rfl, he.step (step_record hg rfl rfl rfl rfl rfl)⟩
  | addStar a b c =>
    simp only [execInstr, pure_ok_iff] at h; subst h
    exact ⟨step_record hg rfl rfl rfl rfl rfl, he.step (step_record hg rfl rfl rfl rfl rfl)⟩
  | scopeBody cls self register args body =>
    simp only [execInstr, bind_ok_iff, pure_ok_iff] at h
    obtain ⟨r1, h1, rfl⟩ := h
    have hk : (if cls then ScopeKind.cls else ScopeKind.func) = .func ∨ (if cls then ScopeKind.cls else ScopeKind.func) = .cls := by
      cases cls <;> simp
    obtain ⟨g0, m0, c0, fin0⟩ := hg.newScope hk
    generalize hns : st.newScope (if cls then ScopeKind.cls else ScopeKind.func) = ns at *
    obtain ⟨g1, f1, c1⟩ := foldl_addName_good ns.2.2 args ns.1 g0
    generalize hst1 : args.foldl (fun st a => st.addName ns.2.2 a) ns.1 = st1 at *
    -- the optional registration of the scope as a name of `cur`
    have hreg : ∃ st2, (if register then st1.addName st.cur (self.resolve lines) else st1) = st2 ∧ Good st2 ∧
        st2.fsk = st1.fsk ∧ st2.cur = st1.cur := by
      cases register with
      | true =>
        obtain ⟨g2, f2, c2⟩ := g1.addName st.cur (self.resolve lines)
        exact ⟨_, rfl, g2, f2, c2⟩
      | false => exact ⟨_, rfl, g1, rfl, rfl⟩
    obtain ⟨st2, e2, g2, f2, c2⟩ := hreg
    rw [e2] at h1
    have fin2 : FIn st2.fsk ns.2.2 ns.2.1 := by rw [f2, f1]; exact fin0
    obtain ⟨g3, m3, c3, _⟩ := visitInFlow_step hrec body _ _ st2 r1 h1 g2 fin2
    have m03 : MonoF st.fsk r1.1.fsk := by
      have : MonoF st.fsk st2.fsk := by rw [f2, f1]; exact m0
      exact this.trans m3
    have hcur : st.cur < r1.1.fsk.length := (FIn.mono m03 (curIn hg)).lt
    have s : Step st { r1.1 with cur := st.cur } :=
      ⟨g3.setCur hcur, m03, scopeOf_mono m03 hg.struct.cur⟩
    exact ⟨s, he.step s⟩

theorem exec_step (lines : List Text.Str) {rec : Rec} (hrec : RecOK rec) (prog : Prog) :
    ∀ env st st', exec lines rec prog env st = .ok st' → Good st → EnvOK env st → Step st st' := by
  induction prog with
  | nil => intro env st st' h hg _; simp only [exec, pure_ok_iff] at h; subst h; exact Step.refl hg
  | cons i is ih =>
    intro env st st' h hg he
    simp only [exec, bind_ok_iff] at h
    obtain ⟨r, h1, h2⟩ := h
    obtain ⟨s1, e1⟩ := execInstr_step lines hrec i env st r h1 hg he
    exact s1.trans (ih r.1 r.2 st' h2 s1.good e1)

theorem visit_recOK (lines : List Text.Str) : ∀ fuel, RecOK (visit lines fuel) := by
  intro fuel
  induction fuel with
  | zero => intro c st st' h; cases h
  | succ fuel ih =>
    intro c st st' h hg
    simp only [visit, step] at h
    split at h
    · simp only [bind_ok_iff] at h
      obtain ⟨prog, _, h2⟩ := h
      exact exec_step lines ih prog [] st st' h2 hg (fun kv hkv => by cases hkv)
    · cases h

theorem resolveStars_good (mods : List (String × List String)) (st : St) (hg : Good st) : Good (resolveStars mods st) := by
  unfold resolveStars
  have hnames : ∀ (s : Star) (names : List String) (st : St), Good st → Good (starNames s names st) := by
    intro s names
    unfold starNames
    induction names with
    | nil => intro st hg; exact hg
    | cons nm names ih =>
      intro st hg
      simp only [List.foldl_cons]
      apply ih
      split
      · exact hg
      · exact (hg.addName _ _).1
  have : ∀ (l : List Star) (st : St), Good st → Good (l.foldl (resolveStar mods) st) := by
    intro l
    induction l with
    | nil => intro st hg; exact hg
    | cons s l ih =>
      intro st hg
      simp only [List.foldl_cons]
      apply ih
      unfold resolveStar
      split
      · exact hg
      · exact hnames s _ st hg
  have hg' := this st.stars.reverse st hg
  exact ⟨basic_preserved.clearStars _ hg'.basic, namesOK_same hg'.names rfl rfl, hg'.struct⟩

/-- every extracted state satisfies the full invariant -/
theorem extract_good (lines : List Text.Str) (mods : List (String × List String)) (t : Ast) (st : St)
    (h : extract lines mods t = .ok st) : Good st := by
  unfold extract at h
  split at h
  · simp only [bind_ok_iff, pure_ok_iff] at h
    obtain ⟨st1, h1, rfl⟩ := h
    exact resolveStars_good mods st1
      (exec_step lines (visit_recOK lines t.size) _ [] _ _ h1 good_init (fun kv hkv => by cases hkv)).good
  · cases h

end SuppModel.Extract
