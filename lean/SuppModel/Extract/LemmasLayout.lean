/-
  Extract family — layout independence, layer 1: the interpreter on the two layouts.  If the actions of every
  visit method on the re-positioned tree are the re-positioned actions (`hQ`, layer 2) and `ψ` preserves the
  order of the locations the extractor stores (`S`), the two runs stay in correspondence (`Sim`).
-/
import SuppModel.Extract.Layout
import SuppModel.Extract.LemmasCompile
import SuppModel.Extract.LemmasWf
import SuppModel.Flow.LemmasScoping

namespace SuppModel.Extract
open SuppModel.Flow

/-! ### the re-positioned tree -/

theorem mapPosList_eq (φ : Pos → Pos) (l : List Ast) : mapPosList φ l = l.map (Ast.mapPos φ) := by
  induction l with
  | nil => rfl
  | cons x xs ih => simp [mapPosList, ih]

@[simp] theorem mapPos_isNode (φ : Pos → Pos) (n : Ast) : (n.mapPos φ).isNode = n.isNode := by
  cases n <;> rfl

mutual
theorem mapPos_size (φ : Pos → Pos) : ∀ (n : Ast), (n.mapPos φ).size = n.size
  | .node k p ns vs => by simp only [Ast.mapPos, Ast.size, mapPosList_size φ vs]
  | .list items => by simp only [Ast.mapPos, Ast.size, mapPosList_size φ items]
  | .str _ => rfl
  | .int _ => rfl
  | .none => rfl
theorem mapPosList_size (φ : Pos → Pos) : ∀ (l : List Ast), sizeList (mapPosList φ l) = sizeList l
  | [] => rfl
  | x :: xs => by simp only [mapPosList, sizeList, mapPos_size φ x, mapPosList_size φ xs]
end

theorem mapPos_childrenOfVal (φ : Pos → Pos) (v : Ast) :
    childrenOfVal (v.mapPos φ) = (childrenOfVal v).map (Ast.mapPos φ) := by
  cases v with
  | node k p ns vs => simp [Ast.mapPos, childrenOfVal]
  | list items =>
    simp only [Ast.mapPos, childrenOfVal, mapPosList_eq]
    induction items with
    | nil => rfl
    | cons x xs ih => cases x <;> simp_all [List.filter_cons, Ast.isNode, Ast.mapPos]
  | str _ => rfl
  | int _ => rfl
  | none => rfl

theorem mapPos_children (φ : Pos → Pos) (n : Ast) : (n.mapPos φ).children = n.children.map (Ast.mapPos φ) := by
  cases n with
  | node k p ns vs =>
    simp only [Ast.mapPos, Ast.children, Ast.vals, mapPosList_eq]
    induction vs with
    | nil => rfl
    | cons x xs ih => simp [List.flatMap_cons, mapPos_childrenOfVal, ih]
  | _ => rfl

/-! ### primitives on corresponding states -/

section
variable {φ ψ : Pos → Pos} {S : List Pos}

theorem OrderPreserving.sub {ps qs : List Pos} (h : OrderPreserving ψ qs) (hs : ∀ p ∈ ps, p ∈ qs) : OrderPreserving ψ ps :=
  fun a ha b hb => h a (hs a ha) b (hs b hb)

theorem Sim.flowScope {st st' : St} (h : Sim φ ψ st st') (f : Nat) : st'.flowScope f = st.flowScope f := by
  simp only [St.flowScope, h.flows, List.getElem?_map]
  cases st.flows[f]? <;> rfl

theorem Sim.curScope {st st' : St} (h : Sim φ ψ st st') : st'.curScope = st.curScope := by
  simp only [St.curScope, h.cur, h.flowScope]

theorem Sim.isGlobalDecl {st st' : St} (h : Sim φ ψ st st') (s : Nat) (x : String) :
    st'.isGlobalDecl s x = st.isGlobalDecl s x := by
  simp only [St.isGlobalDecl, h.scopes]

theorem dictSet_map (gn : List NameRec) (r : NameRec) :
    dictSet (gn.map (NameRec.mapLoc ψ)) (NameRec.mapLoc ψ r) = (dictSet gn r).map (NameRec.mapLoc ψ) := by
  induction gn with
  | nil => rfl
  | cons m rest ih =>
    simp only [List.map_cons, dictSet, NameRec.mapLoc]
    split
    · rfl
    · simp only [List.map_cons]
      congr 1

theorem modifyAt_map {α β} (hm : α → β) (g : α → α) (g' : β → β) (l : List α) (i : Nat)
    (hc : ∀ x ∈ l, g' (hm x) = hm (g x)) : modifyAt (l.map hm) i g' = (modifyAt l i g).map hm := by
  induction l generalizing i with
  | nil => rfl
  | cons a as ih =>
    cases i with
    | zero => simp [modifyAt, hc a List.mem_cons_self]
    | succ i => simp [modifyAt, ih i (fun x hx => hc x (List.mem_cons_of_mem _ hx))]

/-- inserting corresponding names into corresponding flows -/
theorem flows_insert_sim {st st' : St} (h : Sim φ ψ st st') (hl : LocsIn S st) (hop : OrderPreserving ψ S)
    (f : Nat) (r : NameRec) (hr : r.loc ∈ S) :
    modifyAt st'.flows f (fun fr => { fr with names := insertLoc fr.names (NameRec.mapLoc ψ r) }) =
      (modifyAt st.flows f (fun fr => { fr with names := insertLoc fr.names r })).map (mapNames ψ) := by
  rw [h.flows]
  apply modifyAt_map
  intro x hx
  simp only [mapNames]
  congr 1
  apply insertLoc_map
  apply OrderPreserving.sub hop
  intro p hp
  simp only [List.mem_cons, List.mem_map] at hp
  rcases hp with rfl | ⟨n, hn, rfl⟩
  · exact hr
  · exact hl.names x hx n hn

theorem locsIn_insert {st : St} (hl : LocsIn S st) (f : Nat) (r : NameRec) (hr : r.loc ∈ S) :
    ∀ fr ∈ modifyAt st.flows f (fun fr => { fr with names := insertLoc fr.names r }), ∀ n ∈ fr.names, n.loc ∈ S := by
  intro fr hfr n hn
  rcases mem_modifyAt hfr with hfr | ⟨y, hy, rfl⟩
  · exact hl.names fr hfr n hn
  · rcases mem_insertLoc hn with hn | rfl
    · exact hl.names y hy n hn
    · exact hr

theorem sim_addName {st st' : St} (h : Sim φ ψ st st') (hl : LocsIn S st) (hop : OrderPreserving ψ S)
    (f : Nat) (b b' : Binding) (hn : b'.name = b.name) (hloc : b'.loc = ψ b.loc) (hb : b.loc ∈ S) :
    Sim φ ψ (st.addName f b) (st'.addName f b') ∧ LocsIn S (st.addName f b) := by
  simp only [St.addName, h.flowScope, h.infos, hn, hloc]
  have hgd : ({ st' with infos := b'.info :: st'.infos } : St).isGlobalDecl (st.flowScope f) b.name =
      ({ st with infos := b.info :: st.infos } : St).isGlobalDecl (st.flowScope f) b.name := by
    simp only [St.isGlobalDecl, h.scopes]
  have hnd : ({ st' with infos := b'.info :: st'.infos } : St).isNonlocalDecl (st.flowScope f) b.name =
      ({ st with infos := b.info :: st.infos } : St).isNonlocalDecl (st.flowScope f) b.name := by
    simp only [St.isNonlocalDecl, h.scopes]
  rw [hgd, hnd]
  split
  · refine ⟨⟨h.flows, h.scopes, h.cur, by simp [h.infos], ?_, h.stars, h.attrAssigns, h.imports, h.flowAttrs⟩, hl.names, hl.stars⟩
    simp only [h.globals]
    exact dictSet_map (ψ := ψ) st.globalNames { id := st.infos.length, name := b.name, loc := b.loc, scope := st.flowScope f }
  · split
    · refine ⟨⟨?_, h.scopes, h.cur, by simp [h.infos], h.globals, h.stars, h.attrAssigns, h.imports, h.flowAttrs⟩, ?_, hl.stars⟩
      · exact flows_insert_sim h hl hop f { id := st.infos.length, name := b.name, loc := b.loc, scope := st.flowScope f } hb
      · exact locsIn_insert hl f _ hb
    · refine ⟨⟨?_, by simp only [h.scopes], h.cur, by simp [h.infos], h.globals, h.stars, h.attrAssigns, h.imports, h.flowAttrs⟩, ?_, hl.stars⟩
      · exact flows_insert_sim h hl hop f { id := st.infos.length, name := b.name, loc := b.loc, scope := st.flowScope f } hb
      · exact locsIn_insert hl f _ hb

theorem sim_compName {st st' : St} (h : Sim φ ψ st st') (hl : LocsIn S st) (hop : OrderPreserving ψ S)
    (f : Nat) (b b' : Binding) (hn : b'.name = b.name) (hloc : b'.loc = ψ b.loc) (hb : b.loc ∈ S) :
    Sim φ ψ (st.compName f b) (st'.compName f b') ∧ LocsIn S (st.compName f b) := by
  simp only [St.compName, h.flowScope, h.infos, hn, hloc]
  refine ⟨⟨?_, h.scopes, h.cur, by simp [h.infos], h.globals, h.stars, h.attrAssigns, h.imports, h.flowAttrs⟩, ?_, hl.stars⟩
  · exact flows_insert_sim h hl hop f { id := st.infos.length, name := b.name, loc := b.loc, scope := st.flowScope f } hb
  · exact locsIn_insert hl f _ hb

theorem sim_setCur {st st' : St} (h : Sim φ ψ st st') (hl : LocsIn S st) (v : Nat) :
    Sim φ ψ { st with cur := v } { st' with cur := v } ∧ LocsIn S { st with cur := v } :=
  ⟨⟨h.flows, h.scopes, rfl, h.infos, h.globals, h.stars, h.attrAssigns, h.imports, h.flowAttrs⟩, hl.names, hl.stars⟩

theorem sim_newFlow {st st' : St} (h : Sim φ ψ st st') (hl : LocsIn S st) (sc : Nat) (ps : List Parent) :
    Sim φ ψ (st.newFlow sc ps).1 (st'.newFlow sc ps).1 ∧ LocsIn S (st.newFlow sc ps).1 ∧
      (st'.newFlow sc ps).2 = (st.newFlow sc ps).2 := by
  refine ⟨⟨?_, h.scopes, h.cur, h.infos, h.globals, h.stars, h.attrAssigns, h.imports, h.flowAttrs⟩, ⟨?_, hl.stars⟩, ?_⟩
  · simp [St.newFlow, h.flows, mapNames]
  · intro f hf n hn
    simp only [St.newFlow, List.mem_append, List.mem_singleton] at hf
    rcases hf with hf | rfl
    · exact hl.names f hf n hn
    · cases hn
  · simp [St.newFlow, h.flows]

theorem sim_addLoop {st st' : St} (h : Sim φ ψ st st') (hl : LocsIn S st) (a b : Nat) :
    Sim φ ψ (st.addLoop a b) (st'.addLoop a b) ∧ LocsIn S (st.addLoop a b) := by
  refine ⟨⟨?_, h.scopes, h.cur, h.infos, h.globals, h.stars, h.attrAssigns, h.imports, h.flowAttrs⟩, ?_, hl.stars⟩
  · simp only [St.addLoop, h.flows]
    apply modifyAt_map
    intro x _; rfl
  · intro fr hfr n hn
    simp only [St.addLoop] at hfr
    rcases mem_modifyAt hfr with hfr | ⟨y, hy, rfl⟩
    · exact hl.names fr hfr n hn
    · exact hl.names y hy n hn

theorem sim_scopes {st st' : St} (h : Sim φ ψ st st') (hl : LocsIn S st) (g : List ScopeSt → List ScopeSt) :
    Sim φ ψ { st with scopes := g st.scopes } { st' with scopes := g st'.scopes } ∧
      LocsIn S { st with scopes := g st.scopes } :=
  ⟨⟨h.flows, by simp only [h.scopes], h.cur, h.infos, h.globals, h.stars, h.attrAssigns, h.imports, h.flowAttrs⟩,
   hl.names, hl.stars⟩

theorem sim_setFinal {st st' : St} (h : Sim φ ψ st st') (hl : LocsIn S st) :
    Sim φ ψ st.setFinal st'.setFinal ∧ LocsIn S st.setFinal :=
  ⟨⟨h.flows, by simp only [St.setFinal, h.scopes, h.curScope, h.cur], h.cur, h.infos, h.globals, h.stars, h.attrAssigns,
    h.imports, h.flowAttrs⟩, hl.names, hl.stars⟩

theorem sim_globalDecl {st st' : St} (h : Sim φ ψ st st') (hl : LocsIn S st) (ns : List String) :
    Sim φ ψ (st.globalDecl ns) (st'.globalDecl ns) ∧ LocsIn S (st.globalDecl ns) :=
  ⟨⟨h.flows, by simp only [St.globalDecl, h.scopes, h.curScope], h.cur, h.infos, h.globals, h.stars, h.attrAssigns,
    h.imports, h.flowAttrs⟩, hl.names, hl.stars⟩

theorem sim_nonlocalDecl {st st' : St} (h : Sim φ ψ st st') (hl : LocsIn S st) (ns : List String) :
    Sim φ ψ (st.nonlocalDecl ns) (st'.nonlocalDecl ns) ∧ LocsIn S (st.nonlocalDecl ns) :=
  ⟨⟨h.flows, by simp only [St.nonlocalDecl, h.scopes, h.curScope], h.cur, h.infos, h.globals, h.stars, h.attrAssigns,
    h.imports, h.flowAttrs⟩, hl.names, hl.stars⟩

theorem sim_addReturn {st st' : St} (h : Sim φ ψ st st') (hl : LocsIn S st) :
    Sim φ ψ st.addReturn st'.addReturn ∧ LocsIn S st.addReturn :=
  ⟨⟨h.flows, by simp only [St.addReturn, h.scopes, h.curScope], h.cur, h.infos, h.globals, h.stars, h.attrAssigns,
    h.imports, h.flowAttrs⟩, hl.names, hl.stars⟩

theorem sim_newScope {st st' : St} (h : Sim φ ψ st st') (hl : LocsIn S st) (k : ScopeKind) :
    Sim φ ψ (st.newScope k).1 (st'.newScope k).1 ∧ LocsIn S (st.newScope k).1 ∧ (st'.newScope k).2 = (st.newScope k).2 := by
  refine ⟨⟨?_, ?_, h.cur, h.infos, h.globals, h.stars, h.attrAssigns, h.imports, h.flowAttrs⟩, ⟨?_, hl.stars⟩, ?_⟩
  · simp [St.newScope, h.flows, h.scopes, mapNames]
  · simp [St.newScope, h.flows, h.scopes, h.curScope]
  · intro f hf n hn
    simp only [St.newScope, List.mem_append, List.mem_singleton] at hf
    rcases hf with hf | rfl
    · exact hl.names f hf n hn
    · cases hn
  · simp [St.newScope, h.flows, h.scopes]

end

end SuppModel.Extract

namespace SuppModel.Extract
open SuppModel.Flow

/-! ### the interpreter on corresponding states -/

section
variable {φ ψ : Pos → Pos} {S : List Pos} (Q : Ast → Bool)

/-- the recursive visits correspond on nodes all of whose nodes satisfy `Q` -/
def RecSim (φ ψ : Pos → Pos) (S : List Pos) (Q : Ast → Bool) (rec rec' : Rec) : Prop :=
  ∀ c st st' st1, c.isNode = true → c.all Q = true → Sim φ ψ st st' → LocsIn S st → rec c st = .ok st1 →
    ∃ st1', rec' (c.mapPos φ) st' = .ok st1' ∧ Sim φ ψ st1 st1' ∧ LocsIn S st1

variable {Q}

theorem visitAll_sim {rec rec' : Rec} (hrec : RecSim φ ψ S Q rec rec') (cs : List Ast)
    (hcs : ∀ c ∈ cs, c.isNode = true ∧ c.all Q = true) :
    ∀ st st' st1, Sim φ ψ st st' → LocsIn S st → visitAll rec cs st = .ok st1 →
      ∃ st1', visitAll rec' (cs.map (Ast.mapPos φ)) st' = .ok st1' ∧ Sim φ ψ st1 st1' ∧ LocsIn S st1 := by
  induction cs with
  | nil =>
    intro st st' st1 hs hl h
    simp only [visitAll, pure_ok_iff] at h; subst h
    exact ⟨st', rfl, hs, hl⟩
  | cons c cs ih =>
    intro st st' st1 hs hl h
    simp only [visitAll, bind_ok_iff] at h
    obtain ⟨st2, h1, h2⟩ := h
    obtain ⟨hc1, hc2⟩ := hcs c List.mem_cons_self
    obtain ⟨st2', e1, s2, l2⟩ := hrec c st st' st2 hc1 hc2 hs hl h1
    obtain ⟨st1', e2, s1, l1⟩ := ih (fun c hc => hcs c (List.mem_cons_of_mem _ hc)) st2 st2' st1 s2 l2 h2
    exact ⟨st1', by simp [visitAll, e1, e2, bind, Except.bind], s1, l1⟩

theorem visitInFlow_sim {rec rec' : Rec} (hrec : RecSim φ ψ S Q rec rec') (cs : List Ast)
    (hcs : ∀ c ∈ cs, c.isNode = true ∧ c.all Q = true) (flow : Nat) :
    ∀ st st' r, Sim φ ψ st st' → LocsIn S st → visitInFlow rec cs flow st = .ok r →
      ∃ st1', visitInFlow rec' (cs.map (Ast.mapPos φ)) flow st' = .ok (st1', r.2) ∧ Sim φ ψ r.1 st1' ∧ LocsIn S r.1 := by
  intro st st' r hs hl h
  simp only [visitInFlow, bind_ok_iff, pure_ok_iff] at h
  obtain ⟨st1, h1, rfl⟩ := h
  obtain ⟨s0, l0⟩ := sim_setCur hs hl flow
  obtain ⟨st1', e1, s1, l1⟩ := visitAll_sim hrec cs hcs _ _ st1 s0 l0 h1
  obtain ⟨s2, l2⟩ := sim_setCur s1 l1 st.cur
  refine ⟨{ st1' with cur := st'.cur }, ?_, by rw [hs.cur]; exact s2, l2⟩
  simp [visitInFlow, e1, bind, Except.bind, pure, Except.pure, s1.cur]

theorem resolve_name (lines : List Text.Str) (b : Binding) : (b.resolve lines).name = b.name ∧ (b.resolve lines).loc = b.loc := by
  unfold Binding.resolve
  split <;> exact ⟨rfl, rfl⟩

theorem foldl_addName_sim (hop : OrderPreserving ψ S) (f : Nat) (args : List Binding)
    (hargs : ∀ a ∈ args, a.loc ∈ S) :
    ∀ st st', Sim φ ψ st st' → LocsIn S st →
      Sim φ ψ (args.foldl (fun st a => st.addName f a) st)
        ((args.map (Binding.mapP φ ψ)).foldl (fun st a => st.addName f a) st') ∧
      LocsIn S (args.foldl (fun st a => st.addName f a) st) := by
  induction args with
  | nil => intro st st' hs hl; exact ⟨hs, hl⟩
  | cons a as ih =>
    intro st st' hs hl
    obtain ⟨s1, l1⟩ := sim_addName hs hl hop f a (a.mapP φ ψ) rfl rfl (hargs a List.mem_cons_self)
    exact ih (fun a ha => hargs a (List.mem_cons_of_mem _ ha)) _ _ s1 l1

theorem execInstr_sim (hop : OrderPreserving ψ S) (lines lines' : List Text.Str) {rec rec' : Rec}
    (hrec : RecSim φ ψ S Q rec rec') (i : Instr)
    (hk : ∀ c ∈ i.kids, c.isNode = true ∧ c.all Q = true) (hlocs : ∀ l ∈ i.locs, l ∈ S) :
    ∀ env st st' r, Sim φ ψ st st' → LocsIn S st → execInstr lines rec i env st = .ok r →
      ∃ st1', execInstr lines' rec' (i.mapP φ ψ) env st' = .ok (r.1, st1') ∧ Sim φ ψ r.2 st1' ∧ LocsIn S r.2 := by
  intro env st st' r hs hl h
  cases i with
  | visit c =>
    simp only [execInstr, bind_ok_iff, pure_ok_iff] at h
    obtain ⟨st1, h1, rfl⟩ := h
    obtain ⟨hc1, hc2⟩ := hk c (by simp [Instr.kids])
    obtain ⟨st1', e1, s1, l1⟩ := hrec c st st' st1 hc1 hc2 hs hl h1
    exact ⟨st1', by simp [Instr.mapP, execInstr, e1, bind, Except.bind, pure, Except.pure], s1, l1⟩
  | visitIn cs f dst =>
    simp only [execInstr, bind_ok_iff, pure_ok_iff] at h
    obtain ⟨r1, h1, rfl⟩ := h
    obtain ⟨st1', e1, s1, l1⟩ := visitInFlow_sim hrec cs (by simpa [Instr.kids] using hk) _ st st' r1 hs hl h1
    exact ⟨st1', by simp [Instr.mapP, execInstr, hs.cur, e1, bind, Except.bind, pure, Except.pure], s1, l1⟩
  | saveCur d =>
    simp only [execInstr, pure_ok_iff] at h; subst h
    exact ⟨st', by simp [Instr.mapP, execInstr, hs.cur, pure, Except.pure], hs, hl⟩
  | setCur s =>
    simp only [execInstr, pure_ok_iff] at h; subst h
    obtain ⟨s1, l1⟩ := sim_setCur hs hl (env.get st.cur s)
    exact ⟨_, by simp [Instr.mapP, execInstr, hs.cur, pure, Except.pure], s1, l1⟩
  | makeFlow d ps =>
    simp only [execInstr, pure_ok_iff] at h; subst h
    obtain ⟨s1, l1, e1⟩ := sim_newFlow hs hl st.curScope ((ps.map (env.get st.cur)).map Parent.flow)
    refine ⟨_, ?_, s1, l1⟩
    simp only [Instr.mapP, execInstr, St.makeFlow, hs.cur, hs.curScope, pure, Except.pure, e1]
  | setFinal =>
    simp only [execInstr, pure_ok_iff] at h; subst h
    obtain ⟨s1, l1⟩ := sim_setFinal hs hl
    exact ⟨_, rfl, s1, l1⟩
  | loop a b =>
    simp only [execInstr, pure_ok_iff] at h; subst h
    obtain ⟨s1, l1⟩ := sim_addLoop hs hl (env.get st.cur a) (env.get st.cur b)
    exact ⟨_, by simp only [Instr.mapP, execInstr, hs.cur, pure, Except.pure], s1, l1⟩
  | addName f b =>
    simp only [execInstr, pure_ok_iff] at h; subst h
    have hr := resolve_name lines b
    have hr' := resolve_name lines' (b.mapP φ ψ)
    obtain ⟨s1, l1⟩ := sim_addName hs hl hop (f.resolve env st) (b.resolve lines) ((b.mapP φ ψ).resolve lines')
      (by rw [hr'.1, hr.1]; rfl) (by rw [hr'.2, hr.2]; rfl) (by rw [hr.2]; exact hlocs _ (by simp [Instr.locs]))
    refine ⟨_, ?_, s1, l1⟩
    have : f.resolve env st' = f.resolve env st := by cases f <;> simp [FlowRef.resolve, hs.cur]
    simp only [Instr.mapP, execInstr, this, pure, Except.pure]
  | compName f b =>
    simp only [execInstr, pure_ok_iff] at h; subst h
    obtain ⟨s1, l1⟩ := sim_compName hs hl hop (env.get st.cur f) b (b.mapP φ ψ) rfl rfl (hlocs _ (by simp [Instr.locs]))
    exact ⟨_, by simp only [Instr.mapP, execInstr, hs.cur, pure, Except.pure], s1, l1⟩
  | flowAttr p id f =>
    simp only [execInstr, pure_ok_iff] at h; subst h
    have : f.resolve env st' = f.resolve env st := by cases f <;> simp [FlowRef.resolve, hs.cur]
    refine ⟨_, rfl, ?_, hl.names, hl.stars⟩
    exact ⟨hs.flows, hs.scopes, hs.cur, hs.infos, hs.globals, hs.stars, hs.attrAssigns, hs.imports, by simp [hs.flowAttrs, this]⟩
  | attrAssign p =>
    simp only [execInstr, pure_ok_iff] at h; subst h
    refine ⟨_, rfl, ?_, hl.names, hl.stars⟩
    exact ⟨hs.flows, hs.scopes, hs.cur, hs.infos, hs.globals, hs.stars, by simp [hs.attrAssigns, hs.curScope], hs.imports, hs.flowAttrs⟩
  | globalDecl ns =>
    simp only [execInstr, pure_ok_iff] at h; subst h
    obtain ⟨s1, l1⟩ := sim_globalDecl hs hl ns
    exact ⟨_, rfl, s1, l1⟩
  | nonlocalDecl ns =>
    simp only [execInstr, pure_ok_iff] at h; subst h
    obtain ⟨s1, l1⟩ := sim_nonlocalDecl hs hl ns
    exact ⟨_, rfl, s1, l1⟩
  | addReturn =>
    simp only [execInstr, pure_ok_iff] at h; subst h
    obtain ⟨s1, l1⟩ := sim_addReturn hs hl
    exact ⟨_, rfl, s1, l1⟩
  | addImport x =>
    simp only [execInstr, pure_ok_iff] at h; subst h
    refine ⟨_, rfl, ?_, hl.names, hl.stars⟩
    exact ⟨hs.flows, hs.scopes, hs.cur, hs.infos, hs.globals, hs.stars, hs.attrAssigns, by simp [hs.imports], hs.flowAttrs⟩
  | addStar a b c =>
    simp only [execInstr, pure_ok_iff] at h; subst h
    refine ⟨_, rfl, ?_, hl.names, ?_⟩
    · exact ⟨hs.flows, hs.scopes, hs.cur, hs.infos, hs.globals, by simp [hs.stars, hs.cur], hs.attrAssigns, hs.imports, hs.flowAttrs⟩
    · intro s hsm
      simp only [List.mem_cons] at hsm
      rcases hsm with rfl | hsm
      · exact hlocs _ (by simp [Instr.locs])
      · exact hl.stars s hsm
  | scopeBody cls self register args body =>
    simp only [execInstr, bind_ok_iff, pure_ok_iff] at h
    obtain ⟨r1, h1, rfl⟩ := h
    obtain ⟨s0, l0, e0⟩ := sim_newScope hs hl (if cls then ScopeKind.cls else ScopeKind.func)
    have e00 : (st'.newScope (if cls then ScopeKind.cls else ScopeKind.func)).2.2 =
        (st.newScope (if cls then ScopeKind.cls else ScopeKind.func)).2.2 := by rw [e0]
    have hargs : ∀ a ∈ args, a.loc ∈ S := fun a ha =>
      hlocs _ (by simp only [Instr.locs, List.mem_cons, List.mem_map]; exact Or.inr ⟨a, ha, rfl⟩)
    obtain ⟨s1, l1⟩ := foldl_addName_sim hop (st.newScope (if cls then ScopeKind.cls else ScopeKind.func)).2.2 args hargs _ _ s0 l0
    have hr := resolve_name lines self
    have hr' := resolve_name lines' (self.mapP φ ψ)
    have hkb : ∀ c ∈ body, c.isNode = true ∧ c.all Q = true := by simpa [Instr.kids] using hk
    cases register with
    | true =>
      simp only [if_true] at h1
      obtain ⟨s2, l2⟩ := sim_addName s1 l1 hop st.cur (self.resolve lines) ((self.mapP φ ψ).resolve lines')
        (by rw [hr'.1, hr.1]; rfl) (by rw [hr'.2, hr.2]; rfl) (by rw [hr.2]; exact hlocs _ (by simp [Instr.locs]))
      obtain ⟨st3', e3, s3, l3⟩ := visitInFlow_sim hrec body hkb _ _ _ r1 s2 l2 h1
      obtain ⟨s4, l4⟩ := sim_setCur s3 l3 st.cur
      refine ⟨{ st3' with cur := st.cur }, ?_, s4, l4⟩
      simp only [Instr.mapP, execInstr, hs.cur, e00, if_true, e3, bind, Except.bind, pure, Except.pure]
    | false =>
      simp only [Bool.false_eq_true, if_false] at h1
      obtain ⟨st3', e3, s3, l3⟩ := visitInFlow_sim hrec body hkb _ _ _ r1 s1 l1 h1
      obtain ⟨s4, l4⟩ := sim_setCur s3 l3 st.cur
      refine ⟨{ st3' with cur := st.cur }, ?_, s4, l4⟩
      simp only [Instr.mapP, execInstr, hs.cur, e00, Bool.false_eq_true, if_false, e3, bind, Except.bind, pure, Except.pure]

theorem exec_sim (hop : OrderPreserving ψ S) (lines lines' : List Text.Str) {rec rec' : Rec}
    (hrec : RecSim φ ψ S Q rec rec') (prog : Prog)
    (hk : ∀ c ∈ progKids prog, c.isNode = true ∧ c.all Q = true) (hlocs : ∀ l ∈ progLocs prog, l ∈ S) :
    ∀ env st st' st1, Sim φ ψ st st' → LocsIn S st → exec lines rec prog env st = .ok st1 →
      ∃ st1', exec lines' rec' (prog.map (Instr.mapP φ ψ)) env st' = .ok st1' ∧ Sim φ ψ st1 st1' ∧ LocsIn S st1 := by
  induction prog with
  | nil =>
    intro env st st' st1 hs hl h
    simp only [exec, pure_ok_iff] at h; subst h
    exact ⟨st', rfl, hs, hl⟩
  | cons i is ih =>
    intro env st st' st1 hs hl h
    simp only [exec, bind_ok_iff] at h
    obtain ⟨r, h1, h2⟩ := h
    obtain ⟨st2', e1, s2, l2⟩ := execInstr_sim hop lines lines' hrec i (fun c hc => hk c (by simp [hc]))
      (fun l hl => hlocs l (by simp [progLocs, hl])) env st st' r hs hl h1
    obtain ⟨st1', e2, s1, l1⟩ := ih (fun c hc => hk c (by simp [hc])) (fun l hl => hlocs l (by
      simp only [progLocs, List.flatMap_cons, List.mem_append]; exact Or.inr hl)) r.1 r.2 st2' st1 s2 l2 h2
    exact ⟨st1', by simp [exec, e1, e2, bind, Except.bind], s1, l1⟩

end

end SuppModel.Extract

namespace SuppModel.Extract
open SuppModel.Flow

section
variable {φ ψ : Pos → Pos} {S : List Pos} {Q : Ast → Bool}

/-- what layer 2 provides: on a node all of whose nodes satisfy `Q`, the visit method's actions on the re-positioned
    node are the re-positioned actions, and the locations they store are in `S` -/
def CompileComm (φ ψ : Pos → Pos) (S : List Pos) (Q : Ast → Bool) : Prop :=
  ∀ n prog, n.isNode = true → n.all Q = true → compile n = .ok prog →
    compile (n.mapPos φ) = .ok (prog.map (Instr.mapP φ ψ)) ∧ ∀ l ∈ progLocs prog, l ∈ S

theorem visit_sim (hop : OrderPreserving ψ S) (lines lines' : List Text.Str) (hQ : CompileComm φ ψ S Q) :
    ∀ fuel, RecSim φ ψ S Q (visit lines fuel) (visit lines' fuel) := by
  intro fuel
  induction fuel with
  | zero => intro c st st' st1 _ _ _ _ h; cases h
  | succ fuel ih =>
    intro c st st' st1 hn hall hs hl h
    simp only [visit, step, hn, if_true, bind_ok_iff] at h
    obtain ⟨prog, hp, he⟩ := h
    obtain ⟨hc, hlocs⟩ := hQ c prog hn hall hp
    have hk : ∀ k ∈ progKids prog, k.isNode = true ∧ k.all Q = true := by
      intro k hk
      have hsub := compile_kids_sub hp k hk
      exact ⟨hsub.node, hsub.inside.all _ hall⟩
    obtain ⟨st1', e1, s1, l1⟩ := exec_sim hop lines lines' ih prog hk hlocs [] st st' st1 hs hl he
    exact ⟨st1', by simp [visit, step, hn, hc, e1, bind, Except.bind], s1, l1⟩

theorem starNames_sim (hop : OrderPreserving ψ S) (s s' : Star) (e1 : s'.loc = ψ s.loc) (e3 : s'.flow = s.flow)
    (hS : s.loc ∈ S) (names : List String) :
    ∀ st st', Sim φ ψ st st' → LocsIn S st →
      Sim φ ψ (starNames s names st) (starNames s' names st') ∧ LocsIn S (starNames s names st) := by
  unfold starNames
  simp only [e3]
  induction names with
  | nil => intro st st' hs hl; exact ⟨hs, hl⟩
  | cons nm names ih =>
    intro st st' hs hl
    simp only [List.foldl_cons]
    split
    · exact ih _ _ hs hl
    · obtain ⟨s1, l1⟩ := sim_addName hs hl hop s.flow (starBinding s nm) (starBinding s' nm) rfl e1 hS
      exact ih _ _ s1 l1

theorem stars_fold_sim (hop : OrderPreserving ψ S) (mods : List (String × List String)) :
    ∀ (l l' : List Star), l'.map (fun s => (s.loc, s.module, s.flow)) = l.map (fun s => (ψ s.loc, s.module, s.flow)) →
      (∀ s ∈ l, s.loc ∈ S) → ∀ st st', Sim φ ψ st st' → LocsIn S st →
      Sim φ ψ (l.foldl (resolveStar mods) st) (l'.foldl (resolveStar mods) st') ∧ LocsIn S (l.foldl (resolveStar mods) st) := by
  intro l
  induction l with
  | nil =>
    intro l' hm _ st st' hs hl
    cases l' with
    | nil => exact ⟨hs, hl⟩
    | cons a as => simp at hm
  | cons s l ih =>
    intro l' hm hS st st' hs hl
    cases l' with
    | nil => simp at hm
    | cons s' l' =>
      simp only [List.map_cons, List.cons.injEq, Prod.mk.injEq] at hm
      obtain ⟨⟨e1, e2, e3⟩, hm'⟩ := hm
      simp only [List.foldl_cons]
      have hstep : Sim φ ψ (resolveStar mods st s) (resolveStar mods st' s') ∧ LocsIn S (resolveStar mods st s) := by
        unfold resolveStar
        rw [e2]
        split
        · exact ⟨hs, hl⟩
        · exact starNames_sim hop s s' e1 e3 (hS s List.mem_cons_self) _ st st' hs hl
      exact ih l' hm' (fun s hs => hS s (List.mem_cons_of_mem _ hs)) _ _ hstep.1 hstep.2

theorem resolveStars_sim (hop : OrderPreserving ψ S) (mods : List (String × List String)) {st st' : St}
    (hs : Sim φ ψ st st') (hl : LocsIn S st) :
    Sim φ ψ (resolveStars mods st) (resolveStars mods st') ∧ LocsIn S (resolveStars mods st) := by
  unfold resolveStars
  have hm : st'.stars.reverse.map (fun s => (s.loc, s.module, s.flow)) =
      st.stars.reverse.map (fun s => (ψ s.loc, s.module, s.flow)) := by
    rw [List.map_reverse, List.map_reverse, hs.stars]
  obtain ⟨s1, l1⟩ := stars_fold_sim (φ := φ) hop mods st.stars.reverse st'.stars.reverse hm
    (fun s hsm => hl.stars s (List.mem_reverse.mp hsm)) st st' hs hl
  exact ⟨⟨s1.flows, s1.scopes, s1.cur, s1.infos, s1.globals, rfl, s1.attrAssigns, s1.imports, s1.flowAttrs⟩,
    l1.names, fun s hs => by cases hs⟩

/-- LAYER 1: the two runs of the extractor correspond -/
theorem extract_sim (hop : OrderPreserving ψ S) (lines lines' : List Text.Str) (mods : List (String × List String))
    (hQ : CompileComm φ ψ S Q) (t : Ast) (ht : t.all Q = true) (st : St) (h : extract lines mods t = .ok st) :
    ∃ st', extract lines' mods (t.mapPos φ) = .ok st' ∧ Sim φ ψ st st' ∧ LocsIn S st := by
  unfold extract at h
  split at h
  · rename_i hn
    simp only [bind_ok_iff, pure_ok_iff] at h
    obtain ⟨st1, h1, rfl⟩ := h
    have hinit : Sim φ ψ St.init St.init :=
      ⟨by simp [St.init, mapNames], rfl, rfl, rfl, rfl, rfl, rfl, rfl, rfl⟩
    have hlinit : LocsIn S St.init := ⟨by simp [St.init], by simp [St.init]⟩
    have hk : ∀ k ∈ progKids (generic t), k.isNode = true ∧ k.all Q = true := by
      intro k hk
      rw [progKids_generic] at hk
      have hsub := children_sub k hk
      exact ⟨hsub.node, hsub.inside.all _ ht⟩
    have hlocs : ∀ l ∈ progLocs (generic t), l ∈ S := by
      intro l hl
      simp only [progLocs, generic, List.flatMap_map, List.mem_flatMap] at hl
      obtain ⟨c, _, hc⟩ := hl
      simp [Instr.locs] at hc
    obtain ⟨st1', e1, s1, l1⟩ := exec_sim hop lines lines' (visit_sim hop lines lines' hQ t.size) (generic t) hk hlocs
      [] St.init St.init st1 hinit hlinit h1
    have hgen : generic (t.mapPos φ) = (generic t).map (Instr.mapP φ ψ) := by
      simp [generic, mapPos_children, Instr.mapP]
    refine ⟨resolveStars mods st1', ?_, (resolveStars_sim hop mods s1 l1).1, (resolveStars_sim hop mods s1 l1).2⟩
    simp [extract, hn, mapPos_size, hgen, e1, bind, Except.bind, pure, Except.pure]
  · cases h

end

end SuppModel.Extract
