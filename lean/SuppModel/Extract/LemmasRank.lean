/-
  Extract family — every extracted graph is RANKED (SuppModel/Flow/Rank.lean): the rank
      rank(flow) = (index of its scope) * (#flows + 1) + (its creation index)
  strictly decreases along every non-loop call of the evaluator: an ordinary predecessor is an earlier flow of
  the same scope; a root flow's scope parent resolves (class scopes delegate upwards) to the final flow of a
  scope with a SMALLER index (scope parents are earlier scopes), and that flow belongs to that scope.
-/
import SuppModel.Extract.LemmasWfFull
import SuppModel.Flow.LemmasRank

namespace SuppModel.Extract
open SuppModel.Flow

/-- scope index, then creation index -/
def rankArr (st : St) : Array Nat := (st.flows.map (fun f => f.scope * (st.flows.length + 1) + f.id)).toArray

theorem rankOf_arr {st : St} (hg : Good st) {i : Nat} {f : FlowRec} (hf : st.flows[i]? = some f) :
    rankOf (rankArr st) i = f.scope * (st.flows.length + 1) + i := by
  have hid := hg.basic.flowIds i f hf
  simp [rankOf, rankArr, Array.getD_eq_getD_getElem?, hf, hid]

/-- where the `names` of scope `s` ends up: the builtin table, or the final flow of a scope of index ≤ s -/
theorem scopeTarget_spec {st : St} (hg : Good st) (b : List String) :
    ∀ (fuel s : Nat), s < fuel → s < st.scopes.length →
      scopeTarget (st.toGraph b) fuel s = some none ∨
      ∃ q A, scopeTarget (st.toGraph b) fuel s = some (some q) ∧ A ≤ s ∧ FIn st.fsk q A := by
  intro fuel
  induction fuel with
  | zero => intro s h; omega
  | succ fuel ih =>
    intro s hs hl
    have hsc : st.scopes[s]? = some st.scopes[s] := List.getElem?_eq_getElem hl
    have hssk : st.ssk[s]? = some (st.scopes[s].kind, st.scopes[s].parent, st.scopes[s].flow) := by simp [St.ssk, hsc]
    simp only [scopeTarget, g_scope? hg b, hsc, Option.map_some, ScopeSt.toRec]
    cases hk : st.scopes[s].kind with
    | builtin => exact Or.inl rfl
    | module =>
      right
      exact ⟨_, s, rfl, Nat.le_refl _, hg.struct.final s _ hssk (by simp [hk])⟩
    | func =>
      right
      exact ⟨_, s, rfl, Nat.le_refl _, hg.struct.final s _ hssk (by simp [hk])⟩
    | cls =>
      have hp := hg.struct.parent s _ hssk
      have hnp := hg.struct.hasParent s _ hssk (by simp [hk])
      rcases hp with hp | ⟨p, hp, hlt⟩
      · exact absurd hp hnp
      · simp only at hp
        simp only [hp]
        rcases ih p (by omega) (by omega) with h | ⟨q, A, h, hA, hq⟩
        · exact Or.inl h
        · exact Or.inr ⟨q, A, h, by omega, hq⟩

theorem good_validRankU {st : St} (hg : Good st) (b : List String) :
    validRankU (st.toGraph b) (rankArr st) = true := by
  unfold validRankU
  simp only [List.all_eq_true]
  intro fr hfr
  simp only [St.toGraph] at hfr
  obtain ⟨i, hi⟩ := List.getElem?_of_mem hfr
  have hid := hg.basic.flowIds i fr hi
  have hfsk : st.fsk[i]? = some (fr.scope, fr.parents) := by simp [St.fsk, hi]
  have hri := rankOf_arr hg hi
  have hN : i < st.flows.length := (List.getElem?_eq_some_iff.mp hi).1
  -- an existing flow q of scope A has rank A * (N + 1) + q
  have hrank : ∀ q A, FIn st.fsk q A → (st.toGraph b).flow? q ≠ none ∧
      rankOf (rankArr st) q = A * (st.flows.length + 1) + q ∧ q < st.flows.length := by
    intro q A hq
    obtain ⟨fq, h1, h2⟩ := fin_flow hq
    refine ⟨by rw [g_flow? hg b, h1]; simp, by rw [rankOf_arr hg h1, h2], (List.getElem?_eq_some_iff.mp h1).1⟩
  unfold validFlowU
  cases hps : fr.parents with
  | nil =>
    simp only
    -- the root flow: its scope exists; through the parent of the scope
    have hsl := hg.struct.fscope i _ hfsk
    simp only [St.ssk, List.length_map] at hsl
    have hsc : st.scopes[fr.scope]? = some st.scopes[fr.scope] := List.getElem?_eq_getElem hsl
    have hssk : st.ssk[fr.scope]? = some (st.scopes[fr.scope].kind, st.scopes[fr.scope].parent, st.scopes[fr.scope].flow) := by
      simp [St.ssk, hsc]
    simp only [rootTarget, g_scope? hg b, hsc, Option.map_some, ScopeSt.toRec]
    rcases hg.struct.parent fr.scope _ hssk with hp | ⟨p, hp, hlt⟩
    · simp only at hp; simp only [hp]
    · simp only at hp
      simp only [hp]
      have hlen : (st.toGraph b).scopes.length = st.scopes.length := by simp [St.toGraph]
      rw [hlen]
      rcases scopeTarget_spec hg b (st.scopes.length + 1) p (by omega) (by omega) with h | ⟨q, A, h, hA, hq⟩
      · simp only [h]
      · obtain ⟨h1, h2, h3⟩ := hrank q A hq
        simp only [h, Bool.and_eq_true, decide_eq_true_eq]
        refine ⟨by cases hf : (st.toGraph b).flow? q with
                  | none => exact absurd hf h1
                  | some _ => rfl, ?_⟩
        rw [hid, hri, h2]
        have : (A + 1) * (st.flows.length + 1) ≤ fr.scope * (st.flows.length + 1) :=
          Nat.mul_le_mul_right _ (by omega)
        rw [Nat.add_mul] at this
        omega
  | cons p0 ps =>
    simp only [List.all_eq_true]
    intro p hp
    have hP := hg.struct.parents i _ hfsk p (by simp only; rw [hps]; exact hp)
    cases p with
    | flow q =>
      obtain ⟨h1, h2, _⟩ := hrank q fr.scope hP
      have hlt := hg.struct.fwd i _ hfsk q (by simp only; rw [hps]; exact hp)
      simp only [Bool.and_eq_true, decide_eq_true_eq]
      refine ⟨by cases hf : (st.toGraph b).flow? q with
                | none => exact absurd hf h1
                | some _ => rfl, ?_⟩
      rw [hid, hri, h2]
      omega
    | loop l t =>
      obtain ⟨h1, _, _⟩ := hrank t fr.scope hP
      simp only
      cases hf : (st.toGraph b).flow? t with
      | none => exact absurd hf h1
      | some _ => rfl

end SuppModel.Extract
