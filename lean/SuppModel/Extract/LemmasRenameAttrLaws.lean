/-
  Extract family — `Ast.renameAttr` satisfies `TLaws`; no visit method reads `Attribute.attr`, so extraction does not
  depend on it, with NO side condition (`extract_renameAttr_ok`).
-/
import SuppModel.Extract.LemmasRenameLaws
import SuppModel.Extract.LemmasRenameAttr

namespace SuppModel.Extract
open SuppModel.Flow

def renAGood (p : Pos) (z : Nat) (n : Ast) (k : String) : Bool :=
  !(n.kind == "Attribute" && n.pos? == some p && n.size == z && k == "attr")

variable {p : Pos} {z : Nat} {s : String}

theorem setAttr_lastLoc (ns : List String) : ∀ (vs : List Ast) (acc : Pos),
    lastLocList (setAttr s ns vs) acc = lastLocList vs acc := by
  induction ns with
  | nil => intro vs acc; rfl
  | cons n ns ih =>
    intro vs acc
    cases vs with
    | nil => rfl
    | cons v vs =>
      simp only [setAttr]
      split
      · cases v <;> simp [lastLocList, lastLoc]
      · simp [lastLocList, ih]

mutual
theorem renameAttr_lastLoc : ∀ (n : Ast) (acc : Pos), lastLoc (n.renameAttr p z s) acc = lastLoc n acc
  | .node k q ns vs, acc => by
    simp only [Ast.renameAttr]
    split <;> simp only [lastLoc, setAttr_lastLoc, renameAttrList_lastLoc vs]
  | .list items, acc => by simp only [Ast.renameAttr, lastLoc, renameAttrList_lastLoc items]
  | .str _, _ => rfl
  | .int _, _ => rfl
  | .none, _ => rfl
theorem renameAttrList_lastLoc : ∀ (l : List Ast) (acc : Pos), lastLocList (renameAttrList p z s l) acc = lastLocList l acc
  | [], _ => rfl
  | x :: xs, acc => by simp only [renameAttrList, lastLocList, renameAttr_lastLoc x, renameAttrList_lastLoc xs]
end

theorem lookupField_setAttr {k : String} (hk : k ≠ "attr") (ns : List String) : ∀ (vs : List Ast),
    lookupField k ns (setAttr s ns vs) = lookupField k ns vs := by
  induction ns with
  | nil => intro vs; rfl
  | cons n ns ih =>
    intro vs
    cases vs with
    | nil => rfl
    | cons v vs =>
      simp only [setAttr]
      split
      · rename_i hn
        subst hn
        have : ("attr" = k) = False := by simp [Ne.symm hk]
        simp [lookupField, this]
      · rename_i hn
        simp only [lookupField]
        split
        · rfl
        · exact ih vs

theorem setAttr_length (ns : List String) : ∀ (vs : List Ast), (setAttr s ns vs).length = vs.length := by
  induction ns with
  | nil => intro vs; rfl
  | cons n ns ih =>
    intro vs
    cases vs with
    | nil => rfl
    | cons v vs => simp only [setAttr]; split <;> simp [ih]

theorem renameAttr_field_good {n : Ast} {k : String} (hg : renAGood p z n k = true) :
    (n.renameAttr p z s).field? k = (n.field? k).map (Ast.renameAttr p z s) := by
  cases n with
  | node kd q ns vs =>
    simp only [Ast.renameAttr]
    split
    · rename_i hhit
      have hk : k ≠ "attr" := by
        intro e; subst e
        simp only [renAGood, Ast.kind, Ast.pos?] at hg
        simp only [Bool.and_eq_true] at hhit
        simp [hhit.1.1, hhit.1.2, hhit.2] at hg
      simp only [Ast.field?, Ast.fieldNames, Ast.vals, lookupField_setAttr hk, renameAttrList_eq]
      exact lookupField_map _ k ns vs
    · simp only [Ast.field?, Ast.fieldNames, Ast.vals, renameAttrList_eq]
      exact lookupField_map _ k ns vs
  | _ => rfl

theorem renameAttr_laws (p : Pos) (z : Nat) (s : String) : TLaws (Ast.renameAttr p z s) (renAGood p z) (fun _ => True) where
  isNode := renameAttr_isNode
  kind := by
    intro n
    cases n with
    | node k q ns vs => simp only [Ast.renameAttr]; split <;> rfl
    | _ => rfl
  pos := by
    intro n
    cases n with
    | node k q ns vs => simp only [Ast.renameAttr]; split <;> rfl
    | _ => rfl
  size := renameAttr_size
  children := renameAttr_children
  lastLoc := renameAttr_lastLoc
  field_some := by
    intro n k v hv hg
    rw [renameAttr_field_good hg, hv]; rfl
  field_none := by
    intro n k hv
    cases n with
    | node kd q ns vs =>
      simp only [Ast.renameAttr]
      split
      · exact lookupField_none_len k ns vs _ (by simp only [Ast.vals]; rw [setAttr_length, renameAttrList_eq, List.length_map]) hv
      · exact lookupField_none_len k ns vs _ (by simp only [Ast.vals]; rw [renameAttrList_eq, List.length_map]) hv
    | _ => rfl
  str := fun _ => rfl
  int := fun _ => rfl
  none := rfl
  list := fun l => by simp [Ast.renameAttr, renameAttrList_eq]
  lit := by intro n k _ h2; simp [renAGood, h2]
  idgood := by intro n q _ _; simp [renAGood]

/-- NO VISIT METHOD READS `Attribute.attr`: the reading half commutes with the renaming at EVERY node -/
theorem compTrans_renameAttr (p : Pos) (z : Nat) (s : String) :
    CompTrans (Ast.renameAttr p z s) (fun _ id => id) (fun _ => true) := by
  intro n prog _ _ hp
  exact compile_trans (renameAttr_laws p z s) hp (fun _ _ _ _ _ => trivial) (fun _ => by simp [renAGood])

mutual
theorem all_const_true : ∀ (t : Ast), t.all (fun _ => true) = true
  | .node k p ns vs => by simp only [Ast.all, Bool.true_and]; exact allList_const_true vs
  | .list items => by simp only [Ast.all]; exact allList_const_true items
  | .str _ => rfl
  | .int _ => rfl
  | .none => rfl
theorem allList_const_true : ∀ (l : List Ast), allList (fun _ => true) l = true
  | [] => rfl
  | x :: xs => by simp only [allList, all_const_true x, allList_const_true xs, Bool.and_self]
end

/-- EXTRACTION IGNORES AN ATTRIBUTE NAME, no side condition (forward direction) -/
theorem extract_renameAttr_ok (lines : List Text.Str) (mods : List (String × List String)) (t : Ast) (st : St)
    (h : extract lines mods t = .ok st) : extract lines mods (t.renameAttr p z s) = .ok st := by
  have hall : t.all (fun _ => true) = true := all_const_true t
  have := extract_T_ok lines mods renameAttr_isNode renameAttr_size
    (fun n => generic_T (renameAttr_laws p z s) n _) (compTrans_renameAttr p z s) t hall st h
  rw [this]
  have e : attrMapR (fun (_ : Option Pos) (id : String) => id) = attrIdK := rfl
  rw [e, mapAttrs_id]

end SuppModel.Extract
