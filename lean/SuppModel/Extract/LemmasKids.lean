/-
  Extract family — every node a visit method visits lies strictly inside the visited node
  (`compile_kids_sub`), and `exec` fails only when a visit of such a node fails (`exec_ok`).
-/
import SuppModel.Extract.LemmasAst

namespace SuppModel.Extract
open SuppModel.Flow

@[simp] theorem progKids_nil : progKids [] = [] := rfl
@[simp] theorem progKids_cons (i : Instr) (p : Prog) : progKids (i :: p) = i.kids ++ progKids p := by
  simp [progKids]
@[simp] theorem progKids_append (a b : Prog) : progKids (a ++ b) = progKids a ++ progKids b := by
  simp [progKids]
@[simp] theorem progKids_map_visit (l : List Ast) : progKids (l.map Instr.visit) = l := by
  induction l with
  | nil => rfl
  | cons x xs ih => simp [Instr.kids, ih]

theorem progKids_flatMap_nil {α} (f : α → Prog) (l : List α) (h : ∀ a, progKids (f a) = []) :
    progKids (l.flatMap f) = [] := by
  induction l with
  | nil => rfl
  | cons x xs ih => simp [List.flatMap_cons, h, ih]

theorem progKids_generic (n : Ast) : progKids (generic n) = n.children := by simp [generic]

/-! ### exec -/

theorem visitAll_ok (rec : Rec) (cs : List Ast) (h : ∀ c ∈ cs, ∀ st, ∃ st', rec c st = .ok st') :
    ∀ st, ∃ st', visitAll rec cs st = .ok st' := by
  induction cs with
  | nil => intro st; exact ⟨st, rfl⟩
  | cons c cs ih =>
    intro st
    obtain ⟨st1, h1⟩ := h c List.mem_cons_self st
    obtain ⟨st2, h2⟩ := ih (fun c hc => h c (List.mem_cons_of_mem _ hc)) st1
    simp [visitAll, h1, h2, bind, Except.bind]

theorem visitInFlow_ok (rec : Rec) (cs : List Ast) (f : Nat) (h : ∀ c ∈ cs, ∀ st, ∃ st', rec c st = .ok st') :
    ∀ st, ∃ r, visitInFlow rec cs f st = .ok r := by
  intro st
  obtain ⟨st1, h1⟩ := visitAll_ok rec cs h { st with cur := f }
  simp [visitInFlow, h1, bind, Except.bind, pure, Except.pure]

theorem execInstr_ok (lines : List Text.Str) (rec : Rec) (i : Instr)
    (h : ∀ c ∈ i.kids, ∀ st, ∃ st', rec c st = .ok st') :
    ∀ env st, ∃ r, execInstr lines rec i env st = .ok r := by
  intro env st
  cases i with
  | visit c =>
    obtain ⟨st1, h1⟩ := h c (by simp [Instr.kids]) st
    simp [execInstr, h1, bind, Except.bind, pure, Except.pure]
  | visitIn cs f dst =>
    obtain ⟨r, h1⟩ := visitInFlow_ok rec cs (env.get st.cur f) (by simpa [Instr.kids] using h) st
    simp [execInstr, h1, bind, Except.bind, pure, Except.pure]
  | scopeBody kind self register args body =>
    have hv := visitInFlow_ok rec body (st.newScope (if kind then .cls else .func)).2.2 (by simpa [Instr.kids] using h)
    simp only [execInstr, bind, Except.bind, pure, Except.pure]
    split
    · rename_i e he
      obtain ⟨r, hr⟩ := hv _
      rw [hr] at he; cases he
    · exact ⟨_, rfl⟩
  | _ => exact ⟨_, rfl⟩

theorem exec_ok (lines : List Text.Str) (rec : Rec) (prog : Prog)
    (h : ∀ c ∈ progKids prog, ∀ st, ∃ st', rec c st = .ok st') :
    ∀ env st, ∃ st', exec lines rec prog env st = .ok st' := by
  induction prog with
  | nil => intro env st; exact ⟨st, rfl⟩
  | cons i is ih =>
    intro env st
    obtain ⟨r, h1⟩ := execInstr_ok lines rec i (fun c hc => h c (by simp [hc])) env st
    obtain ⟨st2, h2⟩ := ih (fun c hc => h c (by simp [hc])) r.1 r.2
    simp [exec, h1, h2, bind, Except.bind]

end SuppModel.Extract
