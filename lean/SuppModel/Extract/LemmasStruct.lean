/-
  Extract family — the structural skeleton of the extractor's state (per flow: scope and predecessors;
  per scope: kind, parent, final flow) and the conditions on it that make up `Graph.wf`; how each primitive
  action changes the skeleton and keeps the conditions.  Pure list reasoning, no `St` here.
-/
import SuppModel.Extract.LemmasWf

namespace SuppModel.Extract
open SuppModel.Flow

abbrev FSk := List (Nat × List Parent)
abbrev SSk := List (ScopeKind × Option Nat × Nat)

/-- flow `v` exists and belongs to scope `S` -/
def FIn (fs : FSk) (v S : Nat) : Prop := ∃ x, fs[v]? = some x ∧ x.1 = S

def PIn (fs : FSk) (S : Nat) : Parent → Prop
  | .flow q => FIn fs q S
  | .loop _ t => FIn fs t S

def scopeOf (fs : FSk) (v : Nat) : Nat :=
  match fs[v]? with
  | some x => x.1
  | none => 0

structure Struct (fs : FSk) (ss : SSk) (cur : Nat) : Prop where
  parents : ∀ (i : Nat) (x : Nat × List Parent), fs[i]? = some x → ∀ p ∈ x.2, PIn fs x.1 p
  fscope : ∀ (i : Nat) (x : Nat × List Parent), fs[i]? = some x → x.1 < ss.length
  final : ∀ (i : Nat) (s : ScopeKind × Option Nat × Nat), ss[i]? = some s → s.1 ≠ .builtin → FIn fs s.2.2 i
  kindMod : ∀ (i : Nat) (s : ScopeKind × Option Nat × Nat), ss[i]? = some s → (s.1 = .module ↔ i = 1)
  parent : ∀ (i : Nat) (s : ScopeKind × Option Nat × Nat), ss[i]? = some s → s.2.1 = none ∨ ∃ p, s.2.1 = some p ∧ p < i
  two : 2 ≤ ss.length
  cur : cur < fs.length
  fwd : ∀ (i : Nat) (x : Nat × List Parent), fs[i]? = some x → ∀ q, Parent.flow q ∈ x.2 → q < i
  hasParent : ∀ (i : Nat) (s : ScopeKind × Option Nat × Nat), ss[i]? = some s → s.1 ≠ .builtin → s.2.1 ≠ none

/-- flows are only added, and keep their scope -/
def MonoF (fs fs' : FSk) : Prop :=
  ∀ (i : Nat) (x : Nat × List Parent), fs[i]? = some x → ∃ x', fs'[i]? = some x' ∧ x'.1 = x.1

theorem MonoF.refl (fs : FSk) : MonoF fs fs := fun _ x h => ⟨x, h, rfl⟩

theorem MonoF.trans {a b c : FSk} (h1 : MonoF a b) (h2 : MonoF b c) : MonoF a c := by
  intro i x hx
  obtain ⟨x', h', e'⟩ := h1 i x hx
  obtain ⟨x'', h'', e''⟩ := h2 i x' h'
  exact ⟨x'', h'', e''.trans e'⟩

theorem FIn.mono {fs fs' : FSk} (h : MonoF fs fs') {v S : Nat} (hv : FIn fs v S) : FIn fs' v S := by
  obtain ⟨x, hx, e⟩ := hv
  obtain ⟨x', hx', e'⟩ := h v x hx
  exact ⟨x', hx', e'.trans e⟩

theorem PIn.mono {fs fs' : FSk} (h : MonoF fs fs') {S : Nat} {p : Parent} (hp : PIn fs S p) : PIn fs' S p := by
  cases p <;> exact FIn.mono h hp

theorem FIn.lt {fs : FSk} {v S : Nat} (h : FIn fs v S) : v < fs.length := by
  obtain ⟨x, hx, _⟩ := h
  exact (List.getElem?_eq_some_iff.mp hx).1

theorem FIn.scopeOf {fs : FSk} {v S : Nat} (h : FIn fs v S) : scopeOf fs v = S := by
  obtain ⟨x, hx, e⟩ := h
  simp [Extract.scopeOf, hx, e]

theorem fin_of_lt {fs : FSk} {v : Nat} (h : v < fs.length) : FIn fs v (scopeOf fs v) := by
  have : fs[v]? = some fs[v] := List.getElem?_eq_getElem h
  exact ⟨fs[v], this, by simp [scopeOf, this]⟩

theorem scopeOf_mono {fs fs' : FSk} (h : MonoF fs fs') {v : Nat} (hv : v < fs.length) : scopeOf fs' v = scopeOf fs v :=
  (FIn.mono h (fin_of_lt hv)).scopeOf

theorem monoF_append (fs : FSk) (x : Nat × List Parent) : MonoF fs (fs ++ [x]) := by
  intro i y hy
  have hi := (List.getElem?_eq_some_iff.mp hy).1
  exact ⟨y, by rw [List.getElem?_append_left hi]; exact hy, rfl⟩

theorem monoF_modify (fs : FSk) (i : Nat) (g : Nat × List Parent → Nat × List Parent) (hg : ∀ x, (g x).1 = x.1) :
    MonoF fs (modifyAt fs i g) := by
  intro j y hy
  rw [getElem?_modifyAt]
  split
  · exact ⟨g y, by simp [hy], hg y⟩
  · exact ⟨y, hy, rfl⟩

theorem Struct.setCur {fs ss c} (h : Struct fs ss c) {v : Nat} (hv : v < fs.length) : Struct fs ss v :=
  ⟨h.parents, h.fscope, h.final, h.kindMod, h.parent, h.two, hv, h.fwd, h.hasParent⟩

theorem Struct.curScope_lt {fs ss c} (h : Struct fs ss c) : scopeOf fs c < ss.length := by
  obtain ⟨x, hx, e⟩ := fin_of_lt h.cur
  rw [← e]; exact h.fscope c x hx

/-- `top.add_flow(Flow(hint, S, parents))` -/
theorem Struct.newFlow {fs ss c} (h : Struct fs ss c) {S : Nat} {ps : List Parent} (hS : S < ss.length)
    (hps : ∀ p ∈ ps, PIn fs S p) : Struct (fs ++ [(S, ps)]) ss c := by
  have hm := monoF_append fs (S, ps)
  refine ⟨?_, ?_, ?_, h.kindMod, h.parent, h.two, by simp; have := h.cur; omega, ?_, h.hasParent⟩
  rotate_left 3
  · intro i x hx q hq
    rcases getElem?_append_singleton hx with hx | ⟨hi, rfl⟩
    · exact h.fwd i x hx q hq
    · have := (hps _ hq : FIn fs q S).lt
      omega
  · intro i x hx p hp
    rcases getElem?_append_singleton hx with hx | ⟨_, rfl⟩
    · exact PIn.mono hm (h.parents i x hx p hp)
    · exact PIn.mono hm (hps p hp)
  · intro i x hx
    rcases getElem?_append_singleton hx with hx | ⟨_, rfl⟩
    · exact h.fscope i x hx
    · exact hS
  · intro i s hs hk
    exact FIn.mono hm (h.final i s hs hk)

theorem fin_newFlow (fs : FSk) (S : Nat) (ps : List Parent) : FIn (fs ++ [(S, ps)]) fs.length S :=
  ⟨(S, ps), by simp, rfl⟩

/-- `holder.loop(target)` -/
theorem Struct.addLoop {fs ss c} (h : Struct fs ss c) {hd t : Nat} (ht : FIn fs t (scopeOf fs hd)) :
    Struct (modifyAt fs hd (fun x => (x.1, x.2 ++ [Parent.loop hd t]))) ss c := by
  have hm := monoF_modify fs hd (fun x => (x.1, x.2 ++ [Parent.loop hd t])) (fun _ => rfl)
  refine ⟨?_, ?_, ?_, h.kindMod, h.parent, h.two, by rw [length_modifyAt]; exact h.cur, ?_, h.hasParent⟩
  rotate_left 3
  · intro i x hx q hq
    rw [getElem?_modifyAt] at hx
    split at hx
    · simp only [Option.map_eq_some_iff] at hx
      obtain ⟨y, hy, rfl⟩ := hx
      simp only [List.mem_append, List.mem_singleton] at hq
      rcases hq with hq | hq
      · exact h.fwd i y hy q hq
      · cases hq
    · exact h.fwd i x hx q hq
  · intro i x hx p hp
    rw [getElem?_modifyAt] at hx
    split at hx
    · rename_i hi
      simp only [Option.map_eq_some_iff] at hx
      obtain ⟨y, hy, rfl⟩ := hx
      simp only [List.mem_append, List.mem_singleton] at hp
      rcases hp with hp | rfl
      · exact PIn.mono hm (h.parents i y hy p hp)
      · subst hi
        have : scopeOf fs i = y.1 := by simp [scopeOf, hy]
        rw [this] at ht
        exact FIn.mono hm ht
    · exact PIn.mono hm (h.parents i x hx p hp)
  · intro i x hx
    rw [getElem?_modifyAt] at hx
    split at hx
    · simp only [Option.map_eq_some_iff] at hx
      obtain ⟨y, hy, rfl⟩ := hx
      exact h.fscope i y hy
    · exact h.fscope i x hx
  · intro i s hs hk
    exact FIn.mono hm (h.final i s hs hk)

/-- `self.flow.scope.flow = self.flow` -/
theorem Struct.setFinal {fs ss c} (h : Struct fs ss c) :
    Struct fs (modifyAt ss (scopeOf fs c) (fun s => (s.1, s.2.1, c))) c := by
  refine ⟨h.parents, ?_, ?_, ?_, ?_, by rw [length_modifyAt]; exact h.two, h.cur, h.fwd, ?_⟩
  rotate_left 4
  · intro i s hs hk
    rw [getElem?_modifyAt] at hs
    split at hs
    · simp only [Option.map_eq_some_iff] at hs
      obtain ⟨y, hy, rfl⟩ := hs
      exact h.hasParent i y hy hk
    · exact h.hasParent i s hs hk
  · intro i x hx; rw [length_modifyAt]; exact h.fscope i x hx
  · intro i s hs hk
    rw [getElem?_modifyAt] at hs
    split at hs
    · rename_i hi
      simp only [Option.map_eq_some_iff] at hs
      obtain ⟨y, hy, rfl⟩ := hs
      subst hi
      exact fin_of_lt h.cur
    · exact h.final i s hs hk
  · intro i s hs
    rw [getElem?_modifyAt] at hs
    split at hs
    · simp only [Option.map_eq_some_iff] at hs
      obtain ⟨y, hy, rfl⟩ := hs
      exact h.kindMod i y hy
    · exact h.kindMod i s hs
  · intro i s hs
    rw [getElem?_modifyAt] at hs
    split at hs
    · simp only [Option.map_eq_some_iff] at hs
      obtain ⟨y, hy, rfl⟩ := hs
      exact h.parent i y hy
    · exact h.parent i s hs

/-- `FuncScope(...)` / `ClassScope(...)` with parent `self.flow.scope`, and its flow -/
theorem Struct.newScope {fs ss c} (h : Struct fs ss c) {k : ScopeKind} (hk : k = .func ∨ k = .cls) :
    Struct (fs ++ [(ss.length, [])]) (ss ++ [(k, some (scopeOf fs c), fs.length)]) c := by
  have hm := monoF_append fs (ss.length, [])
  refine ⟨?_, ?_, ?_, ?_, ?_, by simp; have := h.two; omega, by simp; have := h.cur; omega, ?_, ?_⟩
  rotate_left 5
  · intro i x hx q hq
    rcases getElem?_append_singleton hx with hx | ⟨_, rfl⟩
    · exact h.fwd i x hx q hq
    · cases hq
  · intro i s hs hkb
    rcases getElem?_append_singleton hs with hs | ⟨_, rfl⟩
    · exact h.hasParent i s hs hkb
    · simp
  · intro i x hx p hp
    rcases getElem?_append_singleton hx with hx | ⟨_, rfl⟩
    · exact PIn.mono hm (h.parents i x hx p hp)
    · cases hp
  · intro i x hx
    rcases getElem?_append_singleton hx with hx | ⟨_, rfl⟩
    · have := h.fscope i x hx; simp; omega
    · simp
  · intro i s hs hkb
    rcases getElem?_append_singleton hs with hs | ⟨hi, rfl⟩
    · exact FIn.mono hm (h.final i s hs hkb)
    · subst hi; exact fin_newFlow fs ss.length []
  · intro i s hs
    rcases getElem?_append_singleton hs with hs | ⟨hi, rfl⟩
    · exact h.kindMod i s hs
    · subst hi
      have := h.two
      constructor
      · intro he; rcases hk with hk | hk <;> (rw [hk] at he; cases he)
      · intro he; omega
  · intro i s hs
    rcases getElem?_append_singleton hs with hs | ⟨hi, rfl⟩
    · exact h.parent i s hs
    · subst hi
      exact Or.inr ⟨_, rfl, h.curScope_lt⟩

/-- scope bookkeeping that touches neither kind, parent nor final flow -/
theorem Struct.scopesSame {fs ss ss' c} (h : Struct fs ss c) (hs : ss' = ss) : Struct fs ss' c := hs ▸ h

theorem struct_init : Struct [(1, [])] [(.builtin, none, 0), (.module, some 0, 0)] 0 := by
  refine ⟨?_, ?_, ?_, ?_, ?_, by simp, by simp, ?_, ?_⟩
  rotate_left 5
  · intro i x hx q hq
    match i with
    | 0 => simp at hx; subst hx; cases hq
    | i + 1 => simp at hx
  · intro i s hs hk
    match i with
    | 0 => simp at hs; subst hs; exact absurd rfl hk
    | 1 => simp at hs; subst hs; simp
    | i + 2 => simp at hs
  · intro i x hx p hp
    match i with
    | 0 => simp at hx; subst hx; cases hp
    | i + 1 => simp at hx
  · intro i x hx
    match i with
    | 0 => simp at hx; subst hx; simp
    | i + 1 => simp at hx
  · intro i s hs hk
    match i with
    | 0 => simp at hs; subst hs; exact absurd rfl hk
    | 1 => simp at hs; subst hs; exact ⟨(1, []), rfl, rfl⟩
    | i + 2 => simp at hs
  · intro i s hs
    match i with
    | 0 => simp at hs; subst hs; simp
    | 1 => simp at hs; subst hs; simp
    | i + 2 => simp at hs
  · intro i s hs
    match i with
    | 0 => simp at hs; subst hs; exact Or.inl rfl
    | 1 => simp at hs; subst hs; exact Or.inr ⟨0, rfl, by omega⟩
    | i + 2 => simp at hs

end SuppModel.Extract
