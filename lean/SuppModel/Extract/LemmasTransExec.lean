/-
  Extract family — the interpreter on a transformed tree (forward direction): if the reading half of every visit
  method commutes with `T` on `Q`-trees (`CompTrans`), then whenever the extraction of a `Q`-tree succeeds, so does
  the extraction of the transformed tree, with the same state up to the ids the `.flow` attributes are recorded under.
-/
import SuppModel.Extract.LemmasTrans4
import SuppModel.Extract.LemmasRename

namespace SuppModel.Extract
open SuppModel.Flow

section
variable {T : Ast → Ast} {ρ : Option Pos → String → String} {Q : Ast → Bool}

def RecT (T : Ast → Ast) (ρ : Option Pos → String → String) (Q : Ast → Bool) (rec rec' : Rec) : Prop :=
  ∀ c st st1, c.isNode = true → c.all Q = true → rec c st = .ok st1 →
    rec' (T c) (st.mapAttrs (attrMapR ρ)) = .ok (st1.mapAttrs (attrMapR ρ))

def CompTrans (T : Ast → Ast) (ρ : Option Pos → String → String) (Q : Ast → Bool) : Prop :=
  ∀ n prog, n.isNode = true → n.all Q = true → compile n = .ok prog →
    compile (T n) = .ok (prog.map (Instr.mapKR T ρ))

theorem visitAll_T_ok {rec rec' : Rec} (hrec : RecT T ρ Q rec rec') (cs : List Ast)
    (hcs : ∀ c ∈ cs, c.isNode = true ∧ c.all Q = true) :
    ∀ st st1, visitAll rec cs st = .ok st1 →
      visitAll rec' (cs.map T) (st.mapAttrs (attrMapR ρ)) = .ok (st1.mapAttrs (attrMapR ρ)) := by
  induction cs with
  | nil => intro st st1 h; simp only [visitAll, pure_ok_iff] at h; subst h; rfl
  | cons c cs ih =>
    intro st st1 h
    simp only [visitAll, bind_ok_iff] at h
    obtain ⟨st2, h1, h2⟩ := h
    obtain ⟨hc1, hc2⟩ := hcs c List.mem_cons_self
    simp only [List.map_cons, visitAll, hrec c st st2 hc1 hc2 h1, bind, Except.bind]
    exact ih (fun c hc => hcs c (List.mem_cons_of_mem _ hc)) st2 st1 h2

theorem visitInFlow_T_ok {rec rec' : Rec} (hrec : RecT T ρ Q rec rec') (cs : List Ast)
    (hcs : ∀ c ∈ cs, c.isNode = true ∧ c.all Q = true) (flow : Nat) :
    ∀ st r, visitInFlow rec cs flow st = .ok r →
      visitInFlow rec' (cs.map T) flow (st.mapAttrs (attrMapR ρ)) = .ok (r.1.mapAttrs (attrMapR ρ), r.2) := by
  intro st r h
  simp only [visitInFlow, bind_ok_iff, pure_ok_iff] at h
  obtain ⟨st1, h1, rfl⟩ := h
  have := visitAll_T_ok hrec cs hcs { st with cur := flow } st1 h1
  have e : ({ st.mapAttrs (attrMapR ρ) with cur := flow } : St) = ({ st with cur := flow } : St).mapAttrs (attrMapR ρ) := rfl
  simp only [visitInFlow, e, this, bind, Except.bind, pure, Except.pure]
  rfl

theorem execInstr_T_ok (lines : List Text.Str) {rec rec' : Rec} (hrec : RecT T ρ Q rec rec') (i : Instr)
    (hk : ∀ c ∈ i.kids, c.isNode = true ∧ c.all Q = true) :
    ∀ env st r, execInstr lines rec i env st = .ok r →
      execInstr lines rec' (i.mapKR T ρ) env (st.mapAttrs (attrMapR ρ)) = .ok (r.1, r.2.mapAttrs (attrMapR ρ)) := by
  intro env st r h
  cases i with
  | visit c =>
    simp only [execInstr, bind_ok_iff, pure_ok_iff] at h
    obtain ⟨st1, h1, rfl⟩ := h
    obtain ⟨hc1, hc2⟩ := hk c (by simp [Instr.kids])
    simp only [Instr.mapKR, execInstr, hrec c st st1 hc1 hc2 h1, bind, Except.bind, pure, Except.pure]
  | visitIn cs f dst =>
    simp only [execInstr, bind_ok_iff, pure_ok_iff] at h
    obtain ⟨r1, h1, rfl⟩ := h
    have := visitInFlow_T_ok hrec cs (by simpa [Instr.kids] using hk) (env.get st.cur f) st r1 h1
    have e : (st.mapAttrs (attrMapR ρ)).cur = st.cur := rfl
    simp only [Instr.mapKR, execInstr, e, this, bind, Except.bind, pure, Except.pure]
  | scopeBody cls self register args body =>
    simp only [execInstr, bind_ok_iff, pure_ok_iff] at h
    obtain ⟨r1, h1, rfl⟩ := h
    have hb := visitInFlow_T_ok hrec body (by simpa [Instr.kids] using hk)
      (st.newScope (if cls then ScopeKind.cls else ScopeKind.func)).2.2 _ r1 h1
    have e1 : (st.mapAttrs (attrMapR ρ)).newScope (if cls then ScopeKind.cls else ScopeKind.func) =
        (((st.newScope (if cls then ScopeKind.cls else ScopeKind.func)).1).mapAttrs (attrMapR ρ),
         (st.newScope (if cls then ScopeKind.cls else ScopeKind.func)).2) := rfl
    have e2 : (st.mapAttrs (attrMapR ρ)).cur = st.cur := rfl
    simp only [Instr.mapKR, execInstr, bind, Except.bind]
    rw [e1, e2]
    simp only [mapAttrs_foldl_addName]
    cases register with
    | true =>
      simp only [if_true, mapAttrs_addName] at hb ⊢
      rw [hb]; rfl
    | false =>
      simp only [Bool.false_eq_true, if_false] at hb ⊢
      rw [hb]; rfl
  | flowAttr q id f =>
    simp only [execInstr, pure_ok_iff] at h; subst h
    simp only [Instr.mapKR, execInstr, pure, Except.pure]
    cases f <;> rfl
  | addName f b =>
    simp only [execInstr, pure_ok_iff] at h; subst h
    have : f.resolve env (st.mapAttrs (attrMapR ρ)) = f.resolve env st := by cases f <;> rfl
    simp only [Instr.mapKR, execInstr, this, mapAttrs_addName, pure, Except.pure]
  | saveCur d => simp only [execInstr, pure_ok_iff] at h; subst h; rfl
  | setCur d => simp only [execInstr, pure_ok_iff] at h; subst h; rfl
  | makeFlow d ps => simp only [execInstr, pure_ok_iff] at h; subst h; rfl
  | setFinal => simp only [execInstr, pure_ok_iff] at h; subst h; rfl
  | loop a b => simp only [execInstr, pure_ok_iff] at h; subst h; rfl
  | compName f b => simp only [execInstr, pure_ok_iff] at h; subst h; rfl
  | attrAssign q => simp only [execInstr, pure_ok_iff] at h; subst h; rfl
  | globalDecl ns => simp only [execInstr, pure_ok_iff] at h; subst h; rfl
  | nonlocalDecl ns => simp only [execInstr, pure_ok_iff] at h; subst h; rfl
  | addReturn => simp only [execInstr, pure_ok_iff] at h; subst h; rfl
  | addImport x => simp only [execInstr, pure_ok_iff] at h; subst h; rfl
  | addStar a b c => simp only [execInstr, pure_ok_iff] at h; subst h; rfl

theorem exec_T_ok (lines : List Text.Str) {rec rec' : Rec} (hrec : RecT T ρ Q rec rec') (prog : Prog)
    (hk : ∀ c ∈ progKids prog, c.isNode = true ∧ c.all Q = true) :
    ∀ env st st1, exec lines rec prog env st = .ok st1 →
      exec lines rec' (prog.map (Instr.mapKR T ρ)) env (st.mapAttrs (attrMapR ρ)) = .ok (st1.mapAttrs (attrMapR ρ)) := by
  induction prog with
  | nil => intro env st st1 h; simp only [exec, pure_ok_iff] at h; subst h; rfl
  | cons i is ih =>
    intro env st st1 h
    simp only [exec, bind_ok_iff] at h
    obtain ⟨r, h1, h2⟩ := h
    simp only [List.map_cons, exec, execInstr_T_ok lines hrec i (fun c hc => hk c (by simp [hc])) env st r h1,
      bind, Except.bind]
    exact ih (fun c hc => hk c (by simp [hc])) r.1 r.2 st1 h2

theorem visit_T_ok (lines : List Text.Str) (hT : ∀ n, (T n).isNode = n.isNode) (hC : CompTrans T ρ Q) :
    ∀ fuel, RecT T ρ Q (visit lines fuel) (visit lines fuel) := by
  intro fuel
  induction fuel with
  | zero => intro c st st1 _ _ h; cases h
  | succ fuel ih =>
    intro c st st1 hn hall h
    simp only [visit, step, hn, if_true, bind_ok_iff] at h
    obtain ⟨prog, hp, he⟩ := h
    have hk : ∀ k ∈ progKids prog, k.isNode = true ∧ k.all Q = true := by
      intro k hk
      have hsub := compile_kids_sub hp k hk
      exact ⟨hsub.node, hsub.inside.all _ hall⟩
    simp only [visit, step, hT, hn, if_true, hC c prog hn hall hp, bind, Except.bind]
    exact exec_T_ok lines ih prog hk [] st st1 he

theorem extract_T_ok (lines : List Text.Str) (mods : List (String × List String))
    (hT : ∀ n, (T n).isNode = n.isNode) (hS : ∀ n, (T n).size = n.size)
    (hG : ∀ n, generic (T n) = (generic n).map (Instr.mapKR T ρ)) (hC : CompTrans T ρ Q)
    (t : Ast) (ht : t.all Q = true) (st : St) (h : extract lines mods t = .ok st) :
    extract lines mods (T t) = .ok (st.mapAttrs (attrMapR ρ)) := by
  unfold extract at h ⊢
  rw [hT]
  split at h
  · rename_i hn
    simp only [bind_ok_iff, pure_ok_iff] at h
    obtain ⟨st1, h1, rfl⟩ := h
    have hk : ∀ k ∈ progKids (generic t), k.isNode = true ∧ k.all Q = true := by
      intro k hk
      rw [progKids_generic] at hk
      have hsub := children_sub k hk
      exact ⟨hsub.node, hsub.inside.all _ ht⟩
    have := exec_T_ok lines (visit_T_ok lines hT hC t.size) (generic t) hk [] St.init st1 h1
    have e0 : St.init.mapAttrs (attrMapR ρ) = St.init := rfl
    rw [e0] at this
    simp only [hn, if_true, hS, hG, this, bind, Except.bind, pure, Except.pure, mapAttrs_resolveStars]
  · cases h

end

end SuppModel.Extract
