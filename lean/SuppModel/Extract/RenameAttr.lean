/-
  Extract family — the cursor mark in an ATTRIBUTE NAME (the attribute branch of `assist`, property C12).  For a
  cursor after `expr.` or inside the attribute name, the text supp parses has SOURCE_MARK spliced into the attribute
  name: the tree differs in the `attr` string of ONE `Attribute` node, and every position on the cursor's line at a
  column ≥ the cursor column moves right by the length of the mark.  Definitions only.
-/
import SuppModel.Extract.Rename

namespace SuppModel.Extract
open SuppModel.Flow

/-- replace the (string) value of the field `attr` -/
def setAttr (s : String) : List String → List Ast → List Ast
  | n :: ns, v :: vs =>
    if n = "attr" then (match v with | .str _ => .str s | v => v) :: vs else v :: setAttr s ns vs
  | _, vs => vs

mutual
/-- the tree with the `attr` of the `Attribute` node at position `p` of size `z` replaced by `s` (nested attribute
    accesses `a.b.c` start at the same position: the size tells them apart) -/
def Ast.renameAttr (p : Pos) (z : Nat) (s : String) : Ast → Ast
  | .node k q ns vs =>
    if k == "Attribute" && q == some p && (Ast.node k q ns vs).size == z then
      .node k q ns (setAttr s ns (renameAttrList p z s vs))
    else .node k q ns (renameAttrList p z s vs)
  | .list items => .list (renameAttrList p z s items)
  | .str x => .str x
  | .int i => .int i
  | .none => .none
def renameAttrList (p : Pos) (z : Nat) (s : String) : List Ast → List Ast
  | [] => []
  | x :: xs => x.renameAttr p z s :: renameAttrList p z s xs
end

/-- the actions of a visit method on the tree with the renamed attribute: the visited nodes are renamed, nothing else
    (no action carries an attribute name: `add_attr_assign` stores the Attribute NODE, the model its position) -/
def Instr.renA (p : Pos) (z : Nat) (s : String) : Instr → Instr
  | .visit c => .visit (c.renameAttr p z s)
  | .visitIn cs f d => .visitIn (cs.map (Ast.renameAttr p z s)) f d
  | .scopeBody cls self reg args body => .scopeBody cls self reg args (body.map (Ast.renameAttr p z s))
  | i => i

/-- at this node, the reading half of the visit method does not depend on the renamed attribute name (decidable) -/
def renAQ (p : Pos) (z : Nat) (s : String) (n : Ast) : Bool :=
  match compile n, compile (n.renameAttr p z s) with
  | .ok prog, .ok prog' => progBeq prog' (prog.map (Instr.renA p z s))
  | .error e, .error e' => e == e'
  | _, _ => false

def attrIdK (x : Option Pos × String × Nat) : Option Pos × String × Nat := x

/-- the tree of the source marked inside an attribute name -/
def markAttrTree (t : Ast) (cursor p : Pos) (z : Nat) (newAttr : String) (k : Nat) : Ast :=
  (t.renameAttr p z newAttr).mapPos (shiftAfter cursor k)

/-- the positions of the `Name` nodes inside `attr.value` for the Attribute node at `p` of size `z`: where
    `evaluate(attr.value)` asks `name.flow.names_at(np(name))` -/
def valueNamePos (t : Ast) (p : Pos) (z : Nat) : List Pos :=
  (t.nodes.filter (fun n => n.kind == "Attribute" && n.pos? == some p && n.size == z)).flatMap
    (fun n => match n.field? "value" with | some v => namePos v | none => [])

/-- the hypotheses of `C12_mark_transparent_attr` for one cursor, all decidable (driver op `markAttrPair`) -/
def markAttrOK (t : Ast) (cursor p : Pos) (z : Nat) (newAttr : String) (k : Nat) : Bool :=
  let tr := t.renameAttr p z newAttr
  let m := markAttrTree t cursor p z newAttr k
  t.all (renAQ p z newAttr) && layoutPairOK tr m &&
  (valueNamePos t p z).all (fun q =>
    decide (pairPhi tr m q = q) && (pairS tr).all (fun l => Pos.lt q (pairPsi tr m l) == Pos.lt q l))

mutual
/-- the `Attribute` nodes whose `attr` differs between two trees of the same shape:
    (position and size in the first, attr in the second) -/
def attrDiffs : Ast → Ast → List (Option Pos × Nat × String)
  | .node k1 p1 ns1 vs1, .node k2 p2 ns2 vs2 =>
    (if k1 == "Attribute" && k2 == "Attribute" &&
        (match (Ast.node k1 p1 ns1 vs1).field? "attr", (Ast.node k2 p2 ns2 vs2).field? "attr" with
         | some (.str a), some (.str b) => a != b
         | _, _ => false)
      then [(p1, (Ast.node k1 p1 ns1 vs1).size,
             match (Ast.node k2 p2 ns2 vs2).field? "attr" with | some (.str b) => b | _ => "")] else []) ++
    attrDiffsList vs1 vs2
  | .list a, .list b => attrDiffsList a b
  | _, _ => []
def attrDiffsList : List Ast → List Ast → List (Option Pos × Nat × String)
  | x :: xs, y :: ys => attrDiffs x y ++ attrDiffsList xs ys
  | _, _ => []
end

end SuppModel.Extract
