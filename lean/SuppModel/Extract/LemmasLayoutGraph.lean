/-
  Extract family — layout independence, from corresponding states to the graph-level hypotheses of
  `C13_layouts` (`sameShape`, `orderIsoAt`).
-/
import SuppModel.Extract.LemmasLayout

namespace SuppModel.Extract
open SuppModel.Flow

variable {φ ψ : Pos → Pos} {S : List Pos} {Q : Ast → Bool}

theorem toRec_mapLoc (G : List NameRec) (s : ScopeSt) :
    ({ ScopeSt.toRec G s with globals := (ScopeSt.toRec G s).globals.map (NameRec.mapLoc ψ) } : ScopeRec) =
      ScopeSt.toRec (G.map (NameRec.mapLoc ψ)) s := by
  simp only [ScopeSt.toRec]
  cases s.kind <;> rfl

/-- the graph of the second run is the graph of the first with every name location mapped by `ψ` -/
theorem Sim.toGraph {st st' : St} (h : Sim φ ψ st st') (b : List String) :
    st'.toGraph b = (st.toGraph b).mapLoc ψ := by
  simp only [St.toGraph, Graph.mapLoc, h.flows, h.scopes, h.globals, List.map_map]
  congr 1
  apply List.map_congr_left
  intro s _
  exact (toRec_mapLoc st.globalNames s).symm

theorem sameShape_mapLoc (g : Graph) : sameShape g (g.mapLoc ψ) = true := by
  have h := eraseLoc_mapLoc ψ g
  unfold sameShape
  rw [h]
  simp [Graph.mapLoc]

theorem sameOrder_map (ps : List Pos) (h : OrderPreserving ψ ps) : sameOrder ps (ps.map ψ) = true := by
  unfold sameOrder
  simp only [List.length_map, beq_self_eq_true, Bool.true_and, List.all_eq_true, beq_iff_eq]
  intro a ha b hb
  have ha' : a.2 = ψ a.1 ∧ a.1 ∈ ps := by
    have := List.of_mem_zip ha
    obtain ⟨i, hi⟩ := List.getElem?_of_mem ha
    simp only [List.getElem?_zip_eq_some, List.getElem?_map, Option.map_eq_some_iff] at hi
    obtain ⟨h1, x, h2, h3⟩ := hi
    rw [h1] at h2; injection h2 with h2; subst h2
    exact ⟨h3.symm, this.1⟩
  have hb' : b.2 = ψ b.1 ∧ b.1 ∈ ps := by
    have := List.of_mem_zip hb
    obtain ⟨i, hi⟩ := List.getElem?_of_mem hb
    simp only [List.getElem?_zip_eq_some, List.getElem?_map, Option.map_eq_some_iff] at hi
    obtain ⟨h1, x, h2, h3⟩ := hi
    rw [h1] at h2; injection h2 with h2; subst h2
    exact ⟨h3.symm, this.1⟩
  rw [ha'.1, hb'.1]
  exact (h a.1 ha'.2 b.1 hb'.2).symm

theorem locsOf_mapLoc (g : Graph) (f : Nat) : (g.mapLoc ψ).locsOf f = (g.locsOf f).map ψ := by
  unfold Graph.locsOf
  rw [Graph.mapLoc_eq, flow?_mapNames]
  cases g.flow? f with
  | none => rfl
  | some fr => simp [FlowRec.mapNames, NameRec.mapLoc]

theorem orderIsoAt_mapLoc (g : Graph) (f : Nat) (pos : Pos) (h : OrderPreserving ψ (pos :: g.locsOf f)) :
    orderIsoAt g (g.mapLoc ψ) f pos (ψ pos) = true := by
  unfold orderIsoAt
  rw [locsOf_mapLoc]
  exact sameOrder_map (pos :: g.locsOf f) h

theorem locsOf_in {st : St} (hl : LocsIn S st) (b : List String) (f : Nat) : ∀ p ∈ (st.toGraph b).locsOf f, p ∈ S := by
  intro p hp
  unfold Graph.locsOf at hp
  cases hf : (st.toGraph b).flow? f with
  | none => rw [hf] at hp; cases hp
  | some fr =>
    rw [hf] at hp
    simp only [Option.map_some, Option.getD_some, List.mem_map] at hp
    obtain ⟨n, hn, rfl⟩ := hp
    exact hl.names fr (List.mem_of_find?_eq_some hf) n hn

end SuppModel.Extract
