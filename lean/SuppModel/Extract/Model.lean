/-
  Extract family — executable transliteration of supp's EXTRACTOR:

    supp/nast.py    extract_visitor (every visit_* method, generic_visit, visit_in_flow, make_flow),
                    extract, the star-import half of extract_scope
    supp/scope.py   Flow.__init__/add_name/loop, SourceScope.__init__/add_flow/add_global/add_attr_assign/
                    resolve_star_imports, FuncScope.__init__, ClassScope.__init__, get_first_body_node_loc
    supp/util.py    get_expr_end_visitor, get_indexes_for_target, np, insert_loc (= Flow.insertLoc)
    supp/name.py    the constructors of AssignedName / ArgumentName / ImportedName (what they store)

  Shape of the model.  A visit method does two things: it READS the node (attributes, positions,
  targets, body locations: everything that can raise) and it ACTS on the extractor's state in a fixed
  order, interleaved with visits of children.  `compile` is the first half: it turns a node into the
  sequence of actions its visit method performs (`Instr`, one constructor per kind of action of the
  code: `self.visit`, `visit_in_flow`, `make_flow`, `Flow.add_name`, `.loop`, `scope.flow = …`, …;
  flows held in Python locals live in numbered registers).  `exec` is the second half: one small
  function per action on the state `St` (`self.flow`, `top._all_flows`, per-scope `locals` / `globals` /
  `flow` / `returns`, `_global_names`, `_star_imports`, `_attr_assigns`, `_imports`, and the `.flow`
  attribute the extractor sets on `ast.Name` nodes).  Recursion is open (`Rec`) and closed by a fuel
  index (`visit`); `extract` supplies the size of the tree, which always suffices (`extract_total`).

  Parameters (outside the code): CPython's parser (the tree), `str.splitlines` (the source lines),
  the project (for each star-imported module name: the keys of `module._attrs` in iteration order, or
  absent = ImportError).  `find_id_loc` is the verified model of the Text family, called through the
  generated call sites.
-/
import SuppModel.Extract.Ast
import SuppModel.Text.Model

namespace SuppModel.Extract
open SuppModel.Flow

/-! ## state -/

inductive NameKind where
  | assigned | argument | imported | func | cls
  deriving DecidableEq, Repr, Inhabited

/-- what a Name object stores besides `name`, `location`, `scope` -/
structure NameInfo where
  kind : NameKind
  declaredAt : Pos
  module : String := ""           -- ImportedName.module
  mname : Option String := none   -- ImportedName.mname
  star : Bool := false            -- ImportedName.is_star
  qualified : Bool := false       -- ImportedName.qualified
  idx : Option Nat := none        -- ArgumentName.idx: `[ni]` or `[]`
  deriving DecidableEq, Repr, Inhabited

/-- a Name object before it is put anywhere.  `site = some s`: its `declared_at` is still to be searched in the
    source text, `find_id_loc(name, start, …)` as call site `s` makes it, with `start` kept in `info.declaredAt` -/
structure Binding where
  name : String
  loc : Pos
  info : NameInfo
  site : Option Text.Generated.CallSite := none
  /-- `alias = some (e, back)` (import aliases): the search starts where `SourceScope.alias_start` says - on line `e.1`, at
      the character column of byte column `e.2 - back`, minus one; `info.declaredAt` is the fallback `np(node)` -/
  alias : Option (Pos × Nat) := none
  deriving DecidableEq, Repr, Inhabited

def str (s : String) : List Char := s.toList

/-- `len(line.encode('utf-8')[:col].decode('utf-8', 'ignore'))`: the characters that fit entirely in the first `col` bytes -/
def charCol : List Char → Nat → Nat
  | [], _ => 0
  | c :: r, col => if c.utf8Size ≤ col then 1 + charCol r (col - c.utf8Size) else 0

/-- `SourceScope.alias_start(node, alias)` for the byte position `(e.1, e.2 - back)`: `(ln, charcol - 1)`, or, when the
    alias is the first thing on its line (`charcol = 0`), the END of the line before (`find` then starts at the first
    character of line `ln`; the searched window begins one line earlier); the fallback `np(node)` when the alias carries no
    position or the line does not exist (IndexError) -/
def searchStart (lines : List Text.Str) (fallback : Pos) (alias : Option (Pos × Nat)) : Pos :=
  match alias with
  | none => fallback
  | some (e, back) =>
    match (if e.1 = 0 then lines.getLast? else lines[e.1 - 1]?) with
    | some line =>
      let col := charCol line (e.2 - back)
      if col = 0 then
        (e.1 - 1, match (if e.1 ≤ 1 then lines.getLast? else lines[e.1 - 2]?) with | some prev => prev.length | none => 0)
      else (e.1, col - 1)
    | none => fallback

/-- the `top.find_id_loc(...)` call of the binding site (Text family: `findIdLoc`, verified for C11) -/
def Binding.resolve (lines : List Text.Str) (b : Binding) : Binding :=
  match b.site with
  | none => b
  | some s =>
    let decl := Text.declaredAt s lines (str b.name) (searchStart lines b.info.declaredAt b.alias)
    { b with info := { b.info with declaredAt := decl }, site := none, alias := none }

structure ScopeSt where
  id : Nat
  kind : ScopeKind
  parent : Option Nat
  locals : List String        -- a set (insertion order kept, no duplicates)
  globalsDecl : List String   -- `scope.globals`, a set
  nonlocalsDecl : List String -- `scope.nonlocals`, a set
  flow : Nat                  -- `scope.flow`
  returns : Nat               -- `len(scope.returns)` (FuncScope)
  deriving Repr, Inhabited

structure Star where
  loc : Pos
  decl : Pos
  module : String
  flow : Nat
  deriving DecidableEq, Repr, Inhabited

structure St where
  flows : List FlowRec                       -- `top._all_flows`; id = index
  scopes : List ScopeSt                      -- creation order; 0 = builtin, 1 = module; id = index
  cur : Nat                                  -- `self.flow`
  infos : List NameInfo                      -- newest first; a name's id = its index from the end
  globalNames : List NameRec                 -- `top._global_names` (a dict: insertion order, replace in place)
  stars : List Star                          -- `top._star_imports`, newest first
  attrAssigns : List (Nat × Option Pos)      -- `top._attr_assigns` as (scope, np(attr)), newest first
  imports : List String                      -- `top._imports`, newest first
  flowAttrs : List (Option Pos × String × Nat)   -- `name.flow = …` on ast.Name nodes: (np(name), name.id, flow), newest first
  deriving Repr, Inhabited

/-- `SourceScope(source)`: the builtin scope, the module scope and its 'top' flow -/
def St.init : St :=
  { flows := [{ id := 0, scope := 1, names := [], parents := [] }],
    scopes := [ { id := 0, kind := .builtin, parent := none, locals := [], globalsDecl := [], nonlocalsDecl := [], flow := 0, returns := 0 },
                { id := 1, kind := .module, parent := some 0, locals := [], globalsDecl := [], nonlocalsDecl := [], flow := 0, returns := 0 } ],
    cur := 0, infos := [], globalNames := [], stars := [], attrAssigns := [], imports := [], flowAttrs := [] }

def modifyAt {α} : List α → Nat → (α → α) → List α
  | [], _, _ => []
  | x :: xs, 0, f => f x :: xs
  | x :: xs, i + 1, f => x :: modifyAt xs i f

/-- `set.add` -/
def addSet (l : List String) (x : String) : List String := if l.contains x then l else l ++ [x]

/-- `d[n.name] = n` on an insertion-ordered dict -/
def dictSet : List NameRec → NameRec → List NameRec
  | [], n => [n]
  | m :: r, n => if m.name = n.name then n :: r else m :: dictSet r n

def St.flowScope (st : St) (f : Nat) : Nat :=
  match st.flows[f]? with
  | some fr => fr.scope
  | none => 0

/-- `self.flow.scope` -/
def St.curScope (st : St) : Nat := st.flowScope st.cur

/-- `top.add_flow(Flow(hint, scope, parents))` -> the new flow -/
def St.newFlow (st : St) (scope : Nat) (parents : List Parent) : St × Nat :=
  ({ st with flows := st.flows ++ [{ id := st.flows.length, scope := scope, names := [], parents := parents }] },
   st.flows.length)

/-- `self.make_flow(hint, parents)` -/
def St.makeFlow (st : St) (parents : List Nat) : St × Nat :=
  st.newFlow st.curScope (parents.map Parent.flow)

def St.isGlobalDecl (st : St) (scope : Nat) (name : String) : Bool :=
  match st.scopes[scope]? with
  | some s => s.globalsDecl.contains name
  | none => false

def St.isNonlocalDecl (st : St) (scope : Nat) (name : String) : Bool :=
  match st.scopes[scope]? with
  | some s => s.nonlocalsDecl.contains name
  | none => false

/-- `flow.add_name(name)` (scope.py): the name takes the flow's scope; a name declared `global` in that
    scope goes to `top._global_names`; a name declared `nonlocal` is `insert_loc`ed but is NOT a local of
    the scope; any other becomes a local and is `insert_loc`ed -/
def St.addName (st : St) (f : Nat) (b : Binding) : St :=
  let sc := st.flowScope f
  let r : NameRec := { id := st.infos.length, name := b.name, loc := b.loc, scope := sc }
  let st := { st with infos := b.info :: st.infos }
  if st.isGlobalDecl sc b.name then
    { st with globalNames := dictSet st.globalNames r }
  else if st.isNonlocalDecl sc b.name then
    { st with flows := modifyAt st.flows f (fun fr => { fr with names := insertLoc fr.names r }) }
  else
    { st with scopes := modifyAt st.scopes sc (fun s => { s with locals := addSet s.locals b.name }),
              flows := modifyAt st.flows f (fun fr => { fr with names := insertLoc fr.names r }) }

/-- a comprehension variable (visit_ListComp): `cname.scope = p.scope; insert_loc(p._names, cname)`,
    NOT a local of the enclosing scope, never global-routed -/
def St.compName (st : St) (f : Nat) (b : Binding) : St :=
  let r : NameRec := { id := st.infos.length, name := b.name, loc := b.loc, scope := st.flowScope f }
  { st with infos := b.info :: st.infos,
            flows := modifyAt st.flows f (fun fr => { fr with names := insertLoc fr.names r }) }

/-- `holder.loop(target)`: `holder.parents.append(LoopFlow(target))`; the loop is numbered by its holder
    (a flow holds at most one loop edge) -/
def St.addLoop (st : St) (holder target : Nat) : St :=
  { st with flows := modifyAt st.flows holder (fun fr => { fr with parents := fr.parents ++ [Parent.loop holder target] }) }

/-- `self.flow.scope.flow = self.flow` -/
def St.setFinal (st : St) : St :=
  { st with scopes := modifyAt st.scopes st.curScope (fun s => { s with flow := st.cur }) }

/-- `Scope.__init__(self, parent, top)` + `self.flow = top.add_flow(Flow(hint, self))` for a FuncScope /
    ClassScope whose parent is `self.flow.scope` -> (state, new scope, its flow) -/
def St.newScope (st : St) (kind : ScopeKind) : St × Nat × Nat :=
  let sid := st.scopes.length
  let fid := st.flows.length
  ({ st with scopes := st.scopes ++ [{ id := sid, kind := kind, parent := some st.curScope, locals := [],
                                        globalsDecl := [], nonlocalsDecl := [], flow := fid, returns := 0 }],
             flows := st.flows ++ [{ id := fid, scope := sid, names := [], parents := [] }] }, sid, fid)

/-- `self.flow.scope.globals.update(names)` -/
def St.globalDecl (st : St) (names : List String) : St :=
  { st with scopes := modifyAt st.scopes st.curScope (fun s => { s with globalsDecl := names.foldl addSet s.globalsDecl }) }

/-- `self.flow.scope.nonlocals.update(names)` -/
def St.nonlocalDecl (st : St) (names : List String) : St :=
  { st with scopes := modifyAt st.scopes st.curScope (fun s => { s with nonlocalsDecl := names.foldl addSet s.nonlocalsDecl }) }

/-- visit_Return: `returns.append(node.value)` when the current scope is a FuncScope -/
def St.addReturn (st : St) : St :=
  { st with scopes := modifyAt st.scopes st.curScope (fun s =>
      match s.kind with
      | .func => { s with returns := s.returns + 1 }
      | _ => s) }

/-! ## actions -/

/-- where a `find_id_loc` search starts: `alias_start(node, alias)` (see `Binding.alias`), fallback `np(node)` -/
structure StartSpec where
  fallback : Pos
  alias : Option (Pos × Nat) := none
  deriving DecidableEq, Repr, Inhabited

inductive FlowRef where
  | cur               -- `self.flow`
  | reg (r : Nat)     -- a flow held in a local variable of the visit method
  deriving DecidableEq, Repr, Inhabited

inductive Instr where
  | visit (c : Ast)                                            -- self.visit(c)
  | visitIn (cs : List Ast) (flow : Nat) (dst : Option Nat)    -- dst = self.visit_in_flow(cs, flow)
  | saveCur (dst : Nat)                                        -- dst = self.flow
  | setCur (src : Nat)                                         -- self.flow = src
  | makeFlow (dst : Nat) (parents : List Nat)                  -- dst = self.make_flow(hint, parents)
  | setFinal                                                   -- self.flow.scope.flow = self.flow
  | loop (holder target : Nat)                                 -- holder.loop(target)
  | addName (flow : FlowRef) (b : Binding)                     -- flow.add_name(b)
  | compName (flow : Nat) (b : Binding)                        -- b.scope = flow.scope; insert_loc(flow._names, b)
  | flowAttr (pos : Option Pos) (id : String) (flow : FlowRef) -- name.flow = flow   (an ast.Name node)
  | attrAssign (pos : Option Pos)                              -- top.add_attr_assign(self.flow.scope, attr, …)
  | globalDecl (names : List String)                           -- self.flow.scope.globals.update(names)
  | nonlocalDecl (names : List String)                         -- self.flow.scope.nonlocals.update(names)
  | addReturn                                                  -- visit_Return's bookkeeping
  | addImport (name : String)                                  -- top._imports.append(name)
  | addStar (loc : Pos) (start : StartSpec) (module : String)  -- top._star_imports.append((loc, find_id_loc('*', alias_start(node, a)), module, self.flow))
  | scopeBody (cls : Bool) (self : Binding) (register : Bool) (args : List Binding) (body : List Ast)
      -- cur = self.flow; scope = ClassScope (cls) / FuncScope (cur.scope, node, top) [its flow, its arguments];
      -- register: cur.add_name(scope); self.visit_in_flow(body, scope.flow); self.flow = cur
  deriving Repr, Inhabited

abbrev Prog := List Instr
abbrev Rec := Ast → St → M St
abbrev Env := List (Nat × Nat)

/-- a register; one that was never assigned reads as `dflt` = `self.flow` (no visit method reads such a register) -/
def Env.get : Env → Nat → Nat → Nat
  | [], dflt, _ => dflt
  | (k, v) :: r, dflt, x => if k = x then v else Env.get r dflt x

def Env.set (e : Env) (k v : Nat) : Env := (k, v) :: e

def FlowRef.resolve (r : FlowRef) (env : Env) (st : St) : Nat :=
  match r with
  | .cur => st.cur
  | .reg x => env.get st.cur x

/-- `for n in nodes: self.visit(n)` -/
def visitAll (rec : Rec) : List Ast → St → M St
  | [], st => pure st
  | n :: ns, st => do
    let st ← rec n st
    visitAll rec ns st

/-- `visit_in_flow(nodes, flow)` -> (state with `self.flow` restored, the flow the visits ended in) -/
def visitInFlow (rec : Rec) (nodes : List Ast) (flow : Nat) (st : St) : M (St × Nat) := do
  let cur := st.cur
  let st ← visitAll rec nodes { st with cur := flow }
  pure ({ st with cur := cur }, st.cur)

def execInstr (lines : List Text.Str) (rec : Rec) (i : Instr) (env : Env) (st : St) : M (Env × St) :=
  match i with
  | .visit c => do
    let st ← rec c st
    pure (env, st)
  | .visitIn cs f dst => do
    let (st, res) ← visitInFlow rec cs (env.get st.cur f) st
    pure (match dst with | some d => env.set d res | none => env, st)
  | .saveCur d => pure (env.set d st.cur, st)
  | .setCur s => pure (env, { st with cur := env.get st.cur s })
  | .makeFlow d ps =>
    let r := st.makeFlow (ps.map (env.get st.cur))
    pure (env.set d r.2, r.1)
  | .setFinal => pure (env, st.setFinal)
  | .loop h t => pure (env, st.addLoop (env.get st.cur h) (env.get st.cur t))
  | .addName f b => pure (env, st.addName (f.resolve env st) (b.resolve lines))
  | .compName f b => pure (env, st.compName (env.get st.cur f) b)
  | .flowAttr p id f => pure (env, { st with flowAttrs := (p, id, f.resolve env st) :: st.flowAttrs })
  | .attrAssign p => pure (env, { st with attrAssigns := (st.curScope, p) :: st.attrAssigns })
  | .globalDecl names => pure (env, st.globalDecl names)
  | .nonlocalDecl names => pure (env, st.nonlocalDecl names)
  | .addReturn => pure (env, st.addReturn)
  | .addImport n => pure (env, { st with imports := n :: st.imports })
  | .addStar loc start m =>
    let decl := Text.declaredAt Text.Generated.importFromSite lines ['*'] (searchStart lines start.fallback start.alias)
    pure (env, { st with stars := { loc := loc, decl := decl, module := m, flow := st.cur } :: st.stars })
  | .scopeBody cls self register args body => do
    let cur := st.cur
    let r := st.newScope (if cls then .cls else .func)
    let st := args.foldl (fun st a => st.addName r.2.2 a) r.1
    let st := if register then st.addName cur (self.resolve lines) else st
    let (st, _) ← visitInFlow rec body r.2.2 st
    pure (env, { st with cur := cur })

def exec (lines : List Text.Str) (rec : Rec) : Prog → Env → St → M St
  | [], _, st => pure st
  | i :: is, env, st => do
    let (env, st) ← execInstr lines rec i env st
    exec lines rec is env st

/-! ## reading a node -/

mutual
/-- get_expr_end_visitor.visit: the start of the last node visited (pre-order, `_fields` order) that has
    a position, one column to the right.  (`visit_Constant` does not descend - a Constant has no child
    nodes; expression contexts are not nodes here.) -/
def lastLoc : Ast → Pos → Pos
  | .node _ pos _ vs, acc =>
    lastLocList vs (match pos with | some p => (p.1, p.2 + 1) | none => acc)
  | .list items, acc => lastLocList items acc
  | _, acc => acc
def lastLocList : List Ast → Pos → Pos
  | [], acc => acc
  | x :: xs, acc => lastLocList xs (lastLoc x acc)
end

/-- `get_expr_end(node)` -/
def exprEnd (n : Ast) : M Pos := do
  let p ← np n
  pure (lastLoc n (p.1, p.2 + 1))

def concatM (f : Ast → M (List Ast)) : List Ast → M (List Ast)
  | [] => pure []
  | e :: es => do
    let a ← f e
    let b ← concatM f es
    pure (a ++ b)

def isSeq (t : Ast) : Bool := t.isNode && (t.kind == "Tuple" || t.kind == "List")

/-- `get_indexes_for_target(target, [], [])`, the targets only: Tuple / List are flattened, a Starred is
    unwrapped (and flattened when it wraps a Tuple / List) -/
def targetsFuel : Nat → Ast → M (List Ast)
  | 0, _ => .error .fuel
  | fuel + 1, t =>
    if isSeq t then do
      let elts ← getNodeList t "elts"
      concatM (targetsFuel fuel) elts
    else if t.isNode && t.kind == "Starred" then do
      let v ← t.get "value"
      if isSeq v then targetsFuel fuel v   -- *(a, b), c = ...
      else pure [v]
    else pure [t]

/-- how the binding loops of the visit methods treat one target -/
inductive Target where
  | name (pos : Pos) (id : String)     -- an ast.Name: `name.id`, `np(name)`
  | attr (pos : Option Pos)            -- an ast.Attribute -> add_attr_assign
  | skip                               -- Subscript / Starred: `continue`
  deriving DecidableEq, Repr, Inhabited

def classifyTarget (t : Ast) : M Target :=
  if t.isNode && t.kind == "Attribute" then pure (.attr t.pos?)
  else if t.isNode && (t.kind == "Subscript" || t.kind == "Starred") then pure .skip
  else do
    let id ← getStr t "id"
    let p ← np t
    pure (.name p id)

def classifyAll : List Ast → M (List Target)
  | [] => pure []
  | t :: ts => do
    let a ← classifyTarget t
    let b ← classifyAll ts
    pure (a :: b)

def targetsOf (t : Ast) : M (List Target) := do
  let ts ← targetsFuel t.size t
  classifyAll ts

def targetsOfList : List Ast → M (List Target)
  | [] => pure []
  | t :: ts => do
    let a ← targetsOf t
    let b ← targetsOfList ts
    pure (a ++ b)

/-- `get_first_body_node_loc(body)`; `none` = the empty body (`n.col_offset >= 0` always holds) -/
def firstBodyLoc (body : List Ast) : M (Option Pos) :=
  match body with
  | [] => pure none
  | b :: _ =>
    if b.kind == "FunctionDef" || b.kind == "ClassDef" then do
      let decs ← getNodeList b "decorator_list"
      match decs with
      | d :: _ => do
        let dp ← np d
        let bp ← np b
        pure (some (dp.1, bp.2))
      | [] => do pure (some (← np b))
    else do pure (some (← np b))

/-- `get_first_body_node_loc(body) or np(body[0])` -/
def bodyLoc (body : List Ast) : M Pos := do
  match ← firstBodyLoc body with
  | some p => pure p
  | none => .error .index

/-- `generic_visit(node)` -/
def generic (n : Ast) : Prog := n.children.map Instr.visit

def assigned (id : String) (loc decl : Pos) : Binding :=
  { name := id, loc := loc, info := { kind := .assigned, declaredAt := decl } }

/-- a field handed to `visit_in_flow` as a single node: `if nodes:` skips None -/
def single (v : Ast) : M (List Ast) :=
  match v with
  | .none => pure []
  | .node k p ns vs => pure [.node k p ns vs]
  | _ => .error .attr

/-! ### one function per visit method -/

/-- visit_Assign / visit_NamedExpr: `name.flow = self.flow; self.flow.add_name(AssignedName(name.id, eend, np(name), …))` -/
def assignBind (eend : Pos) : Target → Prog
  | .name p id => [.flowAttr (some p) id .cur, .addName .cur (assigned id eend p)]
  | .attr p => [.attrAssign p]
  | .skip => []

/-- visit_For: `body_start.add_name(AssignedName(name.id, body_loc, np(name), …))` -/
def forBind (bl : Pos) : Target → Prog
  | .name p id => [.addName (.reg 1) (assigned id bl p)]
  | .attr p => [.attrAssign p]
  | .skip => []

/-- visit_With: `self.flow.add_name(AssignedName(name.id, eend, np(name), node))` -/
def withBind (eend : Pos) : Target → Prog
  | .name p id => [.addName .cur (assigned id eend p)]
  | .attr p => [.attrAssign p]
  | .skip => []

def compileAssign (n : Ast) : M Prog := do
  let value ← getNode n "value"
  let eend ← exprEnd value
  let targets ← getNodeList n "targets"
  let ts ← targetsOfList targets
  pure (ts.flatMap (assignBind eend) ++ generic n)

/-- `get_expr_end(node.value) if node.value else get_expr_end(node)` -/
def annEnd (value : Option Ast) (n : Ast) : M Pos :=
  match value with
  | some v => exprEnd v
  | none => exprEnd n

def annBind (target : Ast) (hasValue : Bool) (eend : Pos) : M Prog :=
  if target.isNode && target.kind == "Attribute" then pure [.attrAssign target.pos?]
  else if target.isNode && (target.kind == "Subscript" || target.kind == "Starred") then pure []
  else if hasValue then do
    let id ← getStr target "id"
    let p ← np target
    pure [.flowAttr (some p) id .cur, .addName .cur (assigned id eend p)]
  else pure []

def compileAnnAssign (n : Ast) : M Prog := do
  let value ← getOptNode n "value"
  let eend ← annEnd value n
  let target ← n.get "target"
  let bind ← annBind target value.isSome eend
  pure (bind ++ generic n)

def compileIf (n : Ast) : M Prog := do
  let test ← getNode n "test"
  let body ← getNodeList n "body"
  let orelse ← getNodeList n "orelse"
  pure [.visit test, .saveCur 0,
        .makeFlow 1 [0], .visitIn body 1 (some 2),
        .makeFlow 3 [0], .visitIn orelse 3 (some 4),
        .makeFlow 5 [2, 4], .setCur 5, .setFinal]

def compileFor (n : Ast) : M Prog := do
  let iter ← getNode n "iter"
  let body ← getNodeList n "body"
  let bl ← bodyLoc body
  let target ← getNode n "target"
  let ts ← targetsOf target
  let orelse ← getNodeList n "orelse"
  pure ([.visit iter, .saveCur 0, .makeFlow 1 [0]] ++
        ts.flatMap (forBind bl) ++
        [.visitIn [target] 1 none, .visitIn body 1 (some 2), .loop 1 2,
         .makeFlow 3 [0, 2], .visitIn orelse 3 (some 4),
         .makeFlow 5 [4], .setCur 5, .setFinal])

def compileWhile (n : Ast) : M Prog := do
  let test ← getNode n "test"
  let body ← getNodeList n "body"
  let orelse ← getNodeList n "orelse"
  pure [.saveCur 0, .makeFlow 1 [0], .visitIn [test] 1 none,
        .makeFlow 2 [1], .visitIn body 2 (some 3), .loop 1 3,
        .makeFlow 4 [1], .visitIn orelse 4 (some 5),
        .makeFlow 6 [5], .setCur 6, .setFinal]

def partitionDot (s : String) : String × Bool :=
  (String.ofList ((str s).takeWhile (· != '.')), (str s).contains '.')

/-- `if a.asname:` (a non-empty string) -/
def truthy (s : Option String) : Option String :=
  match s with
  | some x => if x.isEmpty then none else some x
  | none => none

/-- `getattr(node, k, [])` / `getattr(node, k, None)` of a list-valued field -/
def optNodeList (n : Ast) (k : String) : M (List Ast) :=
  match n.field? k with
  | some _ => getNodeList n k
  | none => pure []

/-- the position `alias_start(node, alias)` computes from: the END of the alias minus the byte length of its asname
    (`e` = the node carrying the end position, see `aliasEnds`), or the start of the alias; `none` = the positions are
    missing (AttributeError -> `np(node)`) -/
def aliasSpec (a : Ast) (asname : Option String) (e : Option Ast) : Option (Pos × Nat) :=
  match asname with
  | some s =>
    match e with
    | some en => (match en.pos? with | some ep => some (ep, s.utf8ByteSize) | none => none)
    | none => none
  | none => (match a.pos? with | some ap => some (ap, 0) | none => none)

/-- one alias of visit_Import -/
def importAlias (loc start : Pos) (a : Ast) (e : Option Ast) : M Prog := do
  let asname ← getOptStr a "asname"
  let aname ← getStr a "name"
  match truthy asname with
  | some s =>
    pure [.addName .cur { name := s, loc := loc, site := some Text.Generated.importSite, alias := aliasSpec a (some s) e,
                          info := { kind := .imported, declaredAt := start, module := aname, qualified := false } }]
  | none =>
    let nq := partitionDot aname
    pure [.addImport aname,
          .addName .cur { name := nq.1, loc := loc, site := some Text.Generated.importSite, alias := aliasSpec a none e,
                          info := { kind := .imported, declaredAt := start, module := nq.1, qualified := nq.2 } }]

def importAliases (loc start : Pos) : List Ast → List Ast → M Prog
  | [], _ => pure []
  | a :: r, es => do
    let this ← importAlias loc start a es.head?
    let rest ← importAliases loc start r es.tail
    pure (this ++ rest)

/-- the nodes carrying `(end_lineno, end_col_offset)` of the aliases: the serialiser puts them, in the order of `names`, in a
    pseudo-field `alias_ends` BEFORE the real fields (so that `get_expr_end` still ends at the last alias); they are
    positions, hence moved with the layout.  Absent = no end positions (Python < 3.10). -/
def aliasEnds (n : Ast) : M (List Ast) := optNodeList n "alias_ends"

def compileImport (n : Ast) : M Prog := do
  let loc ← exprEnd n
  let start ← np n
  let names ← getNodeList n "names"
  let ends ← aliasEnds n
  importAliases loc start names ends

/-- one alias of visit_ImportFrom -/
def importFromAlias (loc start : Pos) (mod : String) (a : Ast) (e : Option Ast) : M Prog := do
  let asname ← getOptStr a "asname"
  let aname ← getStr a "name"
  let name := (truthy asname).getD aname
  if name == "*" then pure [.addStar loc { fallback := start, alias := aliasSpec a (truthy asname) e } mod]
  else
    pure [.addName .cur { name := name, loc := loc, site := some Text.Generated.importFromSite,
                          alias := aliasSpec a (truthy asname) e,
                          info := { kind := .imported, declaredAt := start, module := mod, mname := some aname } }]

def importFromAliases (loc start : Pos) (mod : String) : List Ast → List Ast → M Prog
  | [], _ => pure []
  | a :: r, es => do
    let this ← importFromAlias loc start mod a es.head?
    let rest ← importFromAliases loc start mod r es.tail
    pure (this ++ rest)

def compileImportFrom (n : Ast) : M Prog := do
  let loc ← exprEnd n
  let start ← np n
  let names ← getNodeList n "names"
  let ends ← aliasEnds n
  match names with
  | [] => pure []
  | _ :: _ => do
    -- `'.' * node.level + (node.module or '')`, evaluated in the loop
    let level ← getInt n "level"
    let module ← getOptStr n "module"
    importFromAliases loc start (String.ofList (List.replicate level.toNat '.') ++ module.getD "") names ends

/-- `if h.name: fh.add_name(AssignedName(h.name, body_loc, np(h), h.type))` -/
def handlerBind (h : Ast) (name : Option String) (hbody : List Ast) (fh : Nat) : M Prog :=
  match name with
  | some s => do
    let bl ← bodyLoc hbody
    let p ← np h
    pure [.addName (.reg fh) (assigned s bl p)]
  | none => pure []

/-- one handler of visit_TryExcept; `fh` / `res` = the registers of its flow and of its final flow -/
def compileHandler (h : Ast) (fh res : Nat) : M Prog := do
  let name ← getOptStr h "name"
  let hbody ← getNodeList h "body"
  let bind ← handlerBind h (truthy name) hbody fh
  let ty ← getOptNode h "type"
  pure ([Instr.makeFlow fh [0, 2]] ++ bind ++ [.visitIn ty.toList fh none, .visitIn hbody fh (some res)])

def compileHandlers : List Ast → Nat → M (Prog × List Nat)
  | [], _ => pure ([], [])
  | h :: hs, r => do
    let a ← compileHandler h r (r + 1)
    let (b, regs) ← compileHandlers hs (r + 2)
    pure (a ++ b, (r + 1) :: regs)

/-- `if hasattr(node, 'finalbody'): self.flow = self.visit_in_flow(node.finalbody, self.flow)` -/
def finalProg (n : Ast) (k : Nat) : M Prog :=
  match n.field? "finalbody" with
  | some _ => do
    let fb ← getNodeList n "finalbody"
    pure [.visitIn fb (k + 2) (some (k + 3)), .setCur (k + 3)]
  | none => pure []

def compileTry (n : Ast) : M Prog := do
  let body ← getNodeList n "body"
  let handlers ← getNodeList n "handlers"
  let (hprog, hregs) ← compileHandlers handlers 3
  let orelse ← getNodeList n "orelse"
  let k := 3 + 2 * handlers.length
  let fin ← finalProg n k
  pure ([.saveCur 0, .makeFlow 1 [0], .visitIn body 1 (some 2)] ++ hprog ++
        [.makeFlow k [2], .visitIn orelse k (some (k + 1)),
         .makeFlow (k + 2) ((k + 1) :: hregs), .setCur (k + 2), .setFinal] ++ fin)

def annotationsOf : List Ast → M (List Ast)
  | [] => pure []
  | a :: r => do
    let ann ← getOptNode a "annotation"
    let rest ← annotationsOf r
    pure (ann.toList ++ rest)

def optAnnotation (a : Option Ast) : M (List Ast) :=
  match a with
  | some x => do pure (← getOptNode x "annotation").toList
  | none => pure []

def argBindings (location : Pos) : List Ast → Nat → Bool → M (List Binding)
  | [], _, _ => pure []
  | a :: r, i, indexed => do
    let name ← getStr a "arg"
    let p ← np a
    let rest ← argBindings location r (i + 1) indexed
    pure ({ name := name, loc := location,
            info := { kind := .argument, declaredAt := p, idx := if indexed then some i else none } } :: rest)

/-- what visit_FunctionDef / visit_Lambda and FuncScope.__init__ read from `node.args` -/
structure ArgsView where
  defaults : List Ast
  kwDefaults : List Ast
  positional : List Ast     -- posonlyargs + args
  kwonly : List Ast
  vararg : Option Ast
  kwarg : Option Ast

/-- an `ast.arguments` node -/
def viewArguments (args : Ast) : M ArgsView := do
  let defaults ← getNodeList args "defaults"
  let kwDefaults ← getOptNodeList args "kw_defaults"
  let posonly ← optNodeList args "posonlyargs"
  let aa ← getNodeList args "args"
  let kwonly ← getNodeList args "kwonlyargs"
  let vararg ← getOptNode args "vararg"
  let kwarg ← getOptNode args "kwarg"
  pure { defaults := defaults, kwDefaults := kwDefaults, positional := posonly ++ aa, kwonly := kwonly, vararg := vararg, kwarg := kwarg }

def viewArgs (n : Ast) : M ArgsView := do
  let args ← getNode n "args"
  viewArguments args

/-- the ArgumentNames of FuncScope.__init__, in `self.args` order -/
def allArgBindings (location : Pos) (v : ArgsView) : M (List Binding) := do
  let a ← argBindings location v.positional 0 true
  let b ← argBindings location v.kwonly 0 false
  let c ← argBindings location v.vararg.toList 0 false
  let d ← argBindings location v.kwarg.toList 0 false
  pure (a ++ b ++ c ++ d)

def compileFunctionDef (n : Ast) : M Prog := do
  let decs ← getNodeList n "decorator_list"
  let v ← viewArgs n
  let a1 ← annotationsOf v.positional
  let a2 ← annotationsOf v.kwonly
  let a3 ← optAnnotation v.vararg
  let a4 ← optAnnotation v.kwarg
  let returns ← getOptNode n "returns"
  -- FuncScope.__init__
  let name ← getStr n "name"
  let p ← np n
  let body ← getNodeList n "body"
  let location ← bodyLoc body
  let args ← allArgBindings location v
  pure ((decs ++ v.defaults ++ v.kwDefaults ++ a1 ++ a2 ++ a3 ++ a4 ++ returns.toList).map Instr.visit ++
        [.scopeBody false { name := name, loc := location, info := { kind := .func, declaredAt := p },
                            site := some Text.Generated.funcSite } true args body])

def compileLambda (n : Ast) : M Prog := do
  let v ← viewArgs n
  let a1 ← annotationsOf v.positional
  let a2 ← annotationsOf v.kwonly
  let body ← getNode n "body"
  let location ← np body
  let p ← np n
  let args ← allArgBindings location v
  pure ((v.defaults ++ v.kwDefaults ++ a1 ++ a2).map Instr.visit ++
        [.scopeBody false { name := "lambda", loc := location, info := { kind := .func, declaredAt := p } } false args [body]])

/-- `np(node.body[0])` -/
def firstLoc (body : List Ast) : M Pos :=
  match body with
  | b :: _ => np b
  | [] => .error .index

def compileClassDef (n : Ast) : M Prog := do
  let decs ← getNodeList n "decorator_list"
  let bases ← getNodeList n "bases"
  let keywords ← optNodeList n "keywords"
  let name ← getStr n "name"
  let p ← np n
  let body ← getNodeList n "body"
  let location ← firstLoc body
  pure [.saveCur 0, .visitIn decs 0 none, .visitIn bases 0 none, .visitIn keywords 0 none,
        .scopeBody true { name := name, loc := location, info := { kind := .cls, declaredAt := p },
                          site := some Text.Generated.classSite } true [] body,
        .setCur 0]

def compileReturn (n : Ast) : M Prog := pure (Instr.addReturn :: generic n)

/-- the binding loop of one generator: `name.flow = pp; insert_loc(p._names, AssignedName(name.id, np(node), np(name), …))` -/
def compBinds (compPos : Option Pos) (i : Nat) : List Target → M Prog
  | [] => pure []
  | .name p id :: r => do
    let loc ← (match compPos with | some l => pure l | none => .error .attr : M Pos)
    let rest ← compBinds compPos i r
    pure ([.flowAttr (some p) id (.reg i), .compName (i + 1) (assigned id loc p)] ++ rest)
  | .attr p :: r => do
    let rest ← compBinds compPos i r
    pure (.attrAssign p :: rest)
  | .skip :: r => compBinds compPos i r

/-- the generators of visit_ListComp; generator number `i` reads its iterable in register `i` and binds in `i + 1` -/
def compileGenerators (compPos : Option Pos) : List Ast → Nat → M Prog
  | [], _ => pure []
  | g :: gs, i => do
    let iter ← g.get "iter"
    let iterL ← single iter
    let target ← getNode g "target"
    let ts ← targetsOf target
    let binds ← compBinds compPos i ts
    let ifs ← getNodeList g "ifs"
    let rest ← compileGenerators compPos gs (i + 1)
    pure ([.visitIn iterL i none, .makeFlow (i + 1) [i]] ++ binds ++ [.visitIn [target] (i + 1) none] ++
          ifs.map (fun x => Instr.visitIn [x] (i + 1) none) ++ rest)

/-- `getattr(node, 'elt', None) or node.value` -/
def eltOf (n : Ast) : M Ast :=
  match n.field? "elt" with
  | some (.node kd p ns vs) => pure (.node kd p ns vs)
  | _ => n.get "value"

/-- `if hasattr(node, 'key'): self.visit_in_flow(node.key, p)` -/
def keyProg (n : Ast) (k : Nat) : M Prog :=
  match n.field? "key" with
  | some key => do
    let keyL ← single key
    pure [.visitIn keyL k none]
  | none => pure []

def compileComp (n : Ast) : M Prog := do
  let gens ← getNodeList n "generators"
  let gprog ← compileGenerators n.pos? gens 0
  let k := gens.length
  let elt ← eltOf n
  let eltL ← single elt
  let kprog ← keyProg n k
  pure ([.saveCur 0] ++ gprog ++ [.visitIn eltL k none] ++ kprog ++
        [.makeFlow (k + 1) [0, k], .setCur (k + 1), .setFinal])

/-- one item of visit_With -/
def withItem (it : Ast) : M Prog := do
  let ov ← getOptNode it "optional_vars"
  match ov with
  | some t => do
    let ce ← getNode it "context_expr"
    let eend ← exprEnd ce
    let ts ← targetsOf t
    pure (ts.flatMap (withBind eend))
  | none => pure []

def withItems : List Ast → M Prog
  | [] => pure []
  | it :: r => do
    let this ← withItem it
    let rest ← withItems r
    pure (this ++ rest)

def compileWith (n : Ast) : M Prog := do
  let items ← getNodeList n "items"
  let binds ← withItems items
  pure (binds ++ generic n)

def compileGlobal (n : Ast) : M Prog := do
  let names ← getStrList n "names"
  pure [.globalDecl names]

def compileNonlocal (n : Ast) : M Prog := do
  let names ← getStrList n "names"
  pure [.nonlocalDecl names]

def nameId (n : Ast) : String :=
  match n.field? "id" with
  | some (.str s) => s
  | _ => ""

def compileName (n : Ast) : M Prog := do
  let ctx ← n.get "ctx"
  match ctx with
  | .str "Load" => pure [.flowAttr n.pos? (nameId n) .cur]
  | _ => pure []

def compileNamedExpr (n : Ast) : M Prog := do
  let value ← getNode n "value"
  let eend ← exprEnd value
  let target ← n.get "target"
  let id ← getStr target "id"
  let p ← np target
  pure (assignBind eend (.name p id) ++ generic n)

/-- the kinds extract_visitor has a `visit_*` method for -/
def specialKinds : List String :=
  ["Assign", "AnnAssign", "If", "For", "AsyncFor", "While", "Import", "ImportFrom", "TryExcept", "Try",
   "FunctionDef", "AsyncFunctionDef", "Lambda", "ClassDef", "Return", "ListComp", "GeneratorExp", "DictComp",
   "SetComp", "With", "AsyncWith", "Global", "Nonlocal", "Name", "NamedExpr"]

/-- `NodeVisitor.visit(node)`'s dispatch on the class name, each visit method up to its visits -/
def compile (n : Ast) : M Prog :=
  match n.kind with
  | "Assign" => compileAssign n
  | "AnnAssign" => compileAnnAssign n
  | "If" => compileIf n
  | "For" => compileFor n
  | "AsyncFor" => compileFor n
  | "While" => compileWhile n
  | "Import" => compileImport n
  | "ImportFrom" => compileImportFrom n
  | "TryExcept" => compileTry n
  | "Try" => compileTry n
  | "FunctionDef" => compileFunctionDef n
  | "AsyncFunctionDef" => compileFunctionDef n
  | "Lambda" => compileLambda n
  | "ClassDef" => compileClassDef n
  | "Return" => compileReturn n
  | "ListComp" => compileComp n
  | "GeneratorExp" => compileComp n
  | "DictComp" => compileComp n
  | "SetComp" => compileComp n
  | "With" => compileWith n
  | "AsyncWith" => compileWith n
  | "Global" => compileGlobal n
  | "Nonlocal" => compileNonlocal n
  | "Name" => compileName n
  | "NamedExpr" => compileNamedExpr n
  | _ => pure (generic n)

/-! ## the visitor -/

/-- `self.visit(n)` with the recursive visits left open -/
def step (lines : List Text.Str) (rec : Rec) (n : Ast) (st : St) : M St :=
  if n.isNode then do
    let prog ← compile n
    exec lines rec prog [] st
  else .error .attr

def visit (lines : List Text.Str) : Nat → Rec
  | 0 => fun _ _ => .error .fuel
  | fuel + 1 => step lines (visit lines fuel)

/-- `ImportedName(name, loc, declared_at, mname, name, True)` -/
def starBinding (s : Star) (nm : String) : Binding :=
  { name := nm, loc := s.loc,
    info := { kind := .imported, declaredAt := s.decl, module := s.module, mname := some nm, star := true } }

/-- `for name in iterkeys(module._attrs): if not name.startswith('_'): flow.add_name(...)` -/
def starNames (s : Star) (names : List String) (st : St) : St :=
  names.foldl (fun st nm => if (str nm).head? == some '_' then st else st.addName s.flow (starBinding s nm)) st

/-- one entry of `_star_imports`; a module that cannot be imported (ImportError) is skipped -/
def resolveStar (mods : List (String × List String)) (st : St) (s : Star) : St :=
  match mods.lookup s.module with
  | none => st
  | some names => starNames s names st

/-- `SourceScope.resolve_star_imports(project)`; `mods` = for every module name that can be imported,
    the keys of `module._attrs` in iteration order -/
def resolveStars (mods : List (String × List String)) (st : St) : St :=
  { st.stars.reverse.foldl (resolveStar mods) st with stars := [] }

/-- `extract_scope(source, project)`: `SourceScope(source)`, `extract(tree, scope.flow)` (= `generic_visit(tree)`),
    `resolve_star_imports` -/
def extract (lines : List Text.Str) (mods : List (String × List String)) (tree : Ast) : M St :=
  if tree.isNode then do
    let st ← exec lines (visit lines tree.size) (generic tree) [] St.init
    pure (resolveStars mods st)
  else .error .attr

/-! ## the result as a `Flow.Graph` -/

def ScopeSt.toRec (globals : List NameRec) (s : ScopeSt) : ScopeRec :=
  ScopeRec.mk s.id s.kind s.parent s.locals s.flow (match s.kind with | .module => globals | _ => [])

def St.toGraph (st : St) (builtins : List String) : Graph :=
  { flows := st.flows, scopes := st.scopes.map (ScopeSt.toRec st.globalNames), builtins := builtins }

end SuppModel.Extract
