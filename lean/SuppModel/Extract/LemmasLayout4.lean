/-
  Extract family — layout independence, layer 2: one commutation lemma per visit method, part 1
  (statements without function / class / comprehension scopes).
-/
import SuppModel.Extract.LemmasLayout3

namespace SuppModel.Extract
open SuppModel.Flow

variable {φ ψ : Pos → Pos}

theorem map_visit_mapP (l : List Ast) :
    (l.map Instr.visit).map (Instr.mapP φ ψ) = (l.map (Ast.mapPos φ)).map Instr.visit := by
  simp [List.map_map, Function.comp_def, Instr.mapP]

theorem flatMap_mapP {α β} (f : α → Prog) (f' : β → Prog) (hm : α → β) (l : List α)
    (h : ∀ a, (f a).map (Instr.mapP φ ψ) = f' (hm a)) :
    (l.flatMap f).map (Instr.mapP φ ψ) = (l.map hm).flatMap f' := by
  induction l with
  | nil => rfl
  | cons a as ih => simp [List.flatMap_cons, h, ih]

theorem forBind_mapP (bl : Pos) (t : Target) :
    (forBind bl t).map (Instr.mapP φ ψ) = forBind (ψ bl) (t.mapP φ) := by
  cases t <;> rfl

theorem withBind_mapP (eend : Pos) (t : Target) :
    (withBind eend t).map (Instr.mapP φ ψ) = withBind (ψ eend) (t.mapP φ) := by
  cases t <;> rfl

theorem compileIf_comm {n : Ast} {prog : Prog} (h : compileIf n = .ok prog) :
    compileIf (n.mapPos φ) = .ok (prog.map (Instr.mapP φ ψ)) := by
  simp only [compileIf, bind_ok_iff, pure_ok_iff] at h
  obtain ⟨test, h1, body, h2, orelse, h3, rfl⟩ := h
  simp only [compileIf, getNode_mapPos h1, getNodeList_mapPos h2, getNodeList_mapPos h3, bind, Except.bind, pure, Except.pure]
  rfl

theorem compileWhile_comm {n : Ast} {prog : Prog} (h : compileWhile n = .ok prog) :
    compileWhile (n.mapPos φ) = .ok (prog.map (Instr.mapP φ ψ)) := by
  simp only [compileWhile, bind_ok_iff, pure_ok_iff] at h
  obtain ⟨test, h1, body, h2, orelse, h3, rfl⟩ := h
  simp only [compileWhile, getNode_mapPos h1, getNodeList_mapPos h2, getNodeList_mapPos h3, bind, Except.bind, pure, Except.pure]
  rfl

theorem compileFor_comm {n : Ast} {prog : Prog} (hq : n.all (posQ φ ψ) = true) (h : compileFor n = .ok prog) :
    compileFor (n.mapPos φ) = .ok (prog.map (Instr.mapP φ ψ)) := by
  simp only [compileFor, bind_ok_iff, pure_ok_iff] at h
  obtain ⟨iter, h1, body, h2, bl, h3, target, h4, ts, h5, orelse, h6, rfl⟩ := h
  have h3' := bodyLoc_mapPos (posQ_list (getNodeList_sub h2) hq) h3
  simp only [compileFor, getNode_mapPos h1, getNodeList_mapPos h2, h3', getNode_mapPos h4, targetsOf_mapPos h5,
    getNodeList_mapPos h6, bind, Except.bind, pure, Except.pure]
  congr 1
  simp only [List.map_append, flatMap_mapP (forBind bl) (forBind (ψ bl)) (Target.mapP φ) ts (forBind_mapP bl)]
  rfl

theorem annEnd_comm {value : Option Ast} {n : Ast} {e : Pos} (hn : posQ φ ψ n = true)
    (hv : ∀ v, value = some v → posQ φ ψ v = true) (h : annEnd value n = .ok e) :
    annEnd (value.map (Ast.mapPos φ)) (n.mapPos φ) = .ok (ψ e) := by
  cases value with
  | none => exact exprEnd_mapPos hn h
  | some v => exact exprEnd_mapPos (hv v rfl) h

theorem annBind_comm {target : Ast} {hv : Bool} {eend : Pos} {prog : Prog} (h : annBind target hv eend = .ok prog) :
    annBind (target.mapPos φ) hv (ψ eend) = .ok (prog.map (Instr.mapP φ ψ)) := by
  simp only [annBind, mapPos_isNode, mapPos_kind, mapPos_pos] at h ⊢
  split at h
  · rename_i h0
    simp only [pure_ok_iff] at h; subst h
    rw [if_pos h0]; rfl
  · rename_i h0
    rw [if_neg h0]
    split at h
    · rename_i h1
      simp only [pure_ok_iff] at h; subst h
      rw [if_pos h1]; rfl
    · rename_i h1
      rw [if_neg h1]
      split at h
      · rename_i h2
        simp only [bind_ok_iff, pure_ok_iff] at h
        obtain ⟨id, e1, p, e2, rfl⟩ := h
        simp only [h2, if_true, getStr_mapPos e1, np_mapPos e2, bind, Except.bind, pure, Except.pure]
        rfl
      · rename_i h2
        simp only [pure_ok_iff] at h; subst h
        rw [if_neg h2]; rfl

theorem compileAnnAssign_comm {n : Ast} {prog : Prog} (hn : n.isNode = true) (hq : n.all (posQ φ ψ) = true)
    (h : compileAnnAssign n = .ok prog) : compileAnnAssign (n.mapPos φ) = .ok (prog.map (Instr.mapP φ ψ)) := by
  simp only [compileAnnAssign, bind_ok_iff, pure_ok_iff] at h
  obtain ⟨value, h1, eend, h2, target, h3, bnd, h4, rfl⟩ := h
  have h2' := annEnd_comm (φ := φ) (ψ := ψ) (q_of_all hn hq)
    (fun v hv => posQ_sub (getOptNode_sub (hv ▸ h1)) hq) h2
  have h4' := annBind_comm (φ := φ) (ψ := ψ) h4
  have : (value.map (Ast.mapPos φ)).isSome = value.isSome := by cases value <;> rfl
  simp only [compileAnnAssign, getOptNode_mapPos h1, h2', get_mapPos h3, this, h4', bind, Except.bind, pure, Except.pure,
    List.map_append, generic_mapPos (ψ := ψ)]

theorem aliasSpec_mapPos (a : Ast) (asn : Option String) (e : Option Ast) :
    aliasSpec (a.mapPos φ) asn (e.map (Ast.mapPos φ)) = (aliasSpec a asn e).map (fun x => (φ x.1, x.2)) := by
  cases asn with
  | none => simp only [aliasSpec, mapPos_pos]; cases a.pos? <;> rfl
  | some s =>
    cases e with
    | none => rfl
    | some en => simp only [aliasSpec, Option.map_some, mapPos_pos]; cases en.pos? <;> rfl

theorem importAlias_comm {loc start : Pos} {a : Ast} {e : Option Ast} {prog : Prog} (h : importAlias loc start a e = .ok prog) :
    importAlias (ψ loc) (φ start) (a.mapPos φ) (e.map (Ast.mapPos φ)) = .ok (prog.map (Instr.mapP φ ψ)) := by
  simp only [importAlias, bind_ok_iff] at h
  obtain ⟨asname, h1, aname, h2, h⟩ := h
  simp only [importAlias, getOptStr_mapPos h1, getStr_mapPos h2, bind, Except.bind, aliasSpec_mapPos]
  split at h <;> (simp only [pure_ok_iff] at h; subst h; rfl)

theorem importAliases_comm {loc start : Pos} : ∀ (l es : List Ast) (prog : Prog), importAliases loc start l es = .ok prog →
    importAliases (ψ loc) (φ start) (l.map (Ast.mapPos φ)) (es.map (Ast.mapPos φ)) = .ok (prog.map (Instr.mapP φ ψ)) := by
  intro l
  induction l with
  | nil => intro es prog h; simp only [importAliases, pure_ok_iff] at h; subst h; rfl
  | cons a r ih =>
    intro es prog h
    simp only [importAliases, bind_ok_iff, pure_ok_iff] at h
    obtain ⟨this, ht, rest, hr, rfl⟩ := h
    have e1 := importAlias_comm (φ := φ) (ψ := ψ) ht
    have e2 := ih es.tail rest hr
    rw [← List.head?_map] at e1
    rw [List.map_tail] at e2
    simp only [List.map_cons, importAliases, e1, e2, bind, Except.bind, pure, Except.pure, List.map_append]

theorem compileImport_comm {n : Ast} {prog : Prog} (hn : n.isNode = true) (hq : n.all (posQ φ ψ) = true)
    (h : compileImport n = .ok prog) : compileImport (n.mapPos φ) = .ok (prog.map (Instr.mapP φ ψ)) := by
  simp only [compileImport, bind_ok_iff] at h
  obtain ⟨loc, h1, start, h2, names, h3, ends, h4, h⟩ := h
  simp only [compileImport, exprEnd_mapPos (q_of_all hn hq) h1, np_mapPos h2, getNodeList_mapPos h3, aliasEnds,
    optNodeList_mapPos (show optNodeList n "alias_ends" = .ok ends from h4), bind, Except.bind]
  exact importAliases_comm names ends prog h

theorem importFromAlias_comm {loc start : Pos} {mod : String} {a : Ast} {e : Option Ast} {prog : Prog}
    (h : importFromAlias loc start mod a e = .ok prog) :
    importFromAlias (ψ loc) (φ start) mod (a.mapPos φ) (e.map (Ast.mapPos φ)) = .ok (prog.map (Instr.mapP φ ψ)) := by
  simp only [importFromAlias, bind_ok_iff] at h
  obtain ⟨asname, h1, aname, h2, h⟩ := h
  simp only [importFromAlias, getOptStr_mapPos h1, getStr_mapPos h2, bind, Except.bind, aliasSpec_mapPos]
  split at h
  · rename_i hs
    simp only [pure_ok_iff] at h; subst h
    rw [if_pos hs]; rfl
  · rename_i hs
    simp only [pure_ok_iff] at h; subst h
    rw [if_neg hs]; rfl

theorem importFromAliases_comm {loc start : Pos} {mod : String} : ∀ (l es : List Ast) (prog : Prog),
    importFromAliases loc start mod l es = .ok prog →
    importFromAliases (ψ loc) (φ start) mod (l.map (Ast.mapPos φ)) (es.map (Ast.mapPos φ)) =
      .ok (prog.map (Instr.mapP φ ψ)) := by
  intro l
  induction l with
  | nil => intro es prog h; simp only [importFromAliases, pure_ok_iff] at h; subst h; rfl
  | cons a r ih =>
    intro es prog h
    simp only [importFromAliases, bind_ok_iff, pure_ok_iff] at h
    obtain ⟨this, ht, rest, hr, rfl⟩ := h
    have e1 := importFromAlias_comm (φ := φ) (ψ := ψ) ht
    have e2 := ih es.tail rest hr
    rw [← List.head?_map] at e1
    rw [List.map_tail] at e2
    simp only [List.map_cons, importFromAliases, e1, e2, bind, Except.bind, pure, Except.pure, List.map_append]

theorem compileImportFrom_comm {n : Ast} {prog : Prog} (hn : n.isNode = true) (hq : n.all (posQ φ ψ) = true)
    (h : compileImportFrom n = .ok prog) : compileImportFrom (n.mapPos φ) = .ok (prog.map (Instr.mapP φ ψ)) := by
  simp only [compileImportFrom, bind_ok_iff] at h
  obtain ⟨loc, h1, start, h2, names, h3, ends, h4, h⟩ := h
  simp only [compileImportFrom, exprEnd_mapPos (q_of_all hn hq) h1, np_mapPos h2, getNodeList_mapPos h3, aliasEnds,
    optNodeList_mapPos (show optNodeList n "alias_ends" = .ok ends from h4), bind, Except.bind]
  cases names with
  | nil => simp only [pure_ok_iff] at h; subst h; rfl
  | cons a r =>
    simp only [bind_ok_iff] at h
    obtain ⟨level, h5, module, h6, h⟩ := h
    simp only [List.map_cons, getInt_mapPos h5, getOptStr_mapPos h6, bind, Except.bind]
    exact importFromAliases_comm (a :: r) ends prog h

theorem compileReturn_comm {n : Ast} {prog : Prog} (h : compileReturn n = .ok prog) :
    compileReturn (n.mapPos φ) = .ok (prog.map (Instr.mapP φ ψ)) := by
  simp only [compileReturn, pure_ok_iff] at h
  subst h
  simp only [compileReturn, pure, Except.pure, List.map_cons, generic_mapPos (ψ := ψ)]
  rfl

theorem compileGlobal_comm {n : Ast} {prog : Prog} (h : compileGlobal n = .ok prog) :
    compileGlobal (n.mapPos φ) = .ok (prog.map (Instr.mapP φ ψ)) := by
  simp only [compileGlobal, bind_ok_iff, pure_ok_iff] at h
  obtain ⟨names, h1, rfl⟩ := h
  simp only [compileGlobal, getStrList_mapPos h1, bind, Except.bind, pure, Except.pure]
  rfl

theorem compileNonlocal_comm {n : Ast} {prog : Prog} (h : compileNonlocal n = .ok prog) :
    compileNonlocal (n.mapPos φ) = .ok (prog.map (Instr.mapP φ ψ)) := by
  simp only [compileNonlocal, bind_ok_iff, pure_ok_iff] at h
  obtain ⟨names, h1, rfl⟩ := h
  simp only [compileNonlocal, getStrList_mapPos h1, bind, Except.bind, pure, Except.pure]
  rfl

theorem compileNamedExpr_comm {n : Ast} {prog : Prog} (hq : n.all (posQ φ ψ) = true)
    (h : compileNamedExpr n = .ok prog) : compileNamedExpr (n.mapPos φ) = .ok (prog.map (Instr.mapP φ ψ)) := by
  simp only [compileNamedExpr, bind_ok_iff, pure_ok_iff] at h
  obtain ⟨value, h1, eend, h2, target, h3, id, h4, p, h5, rfl⟩ := h
  have h2' := exprEnd_mapPos (φ := φ) (ψ := ψ) (posQ_sub (getNode_sub h1) hq) h2
  simp only [compileNamedExpr, getNode_mapPos h1, h2', get_mapPos h3, getStr_mapPos h4, np_mapPos h5, bind, Except.bind,
    pure, Except.pure, List.map_append, generic_mapPos (ψ := ψ), assignBind_mapP]
  rfl

theorem withItem_comm {n it : Ast} {prog : Prog} (hs : Sub it n) (hq : n.all (posQ φ ψ) = true)
    (h : withItem it = .ok prog) : withItem (it.mapPos φ) = .ok (prog.map (Instr.mapP φ ψ)) := by
  simp only [withItem, bind_ok_iff] at h
  obtain ⟨ov, h1, h⟩ := h
  simp only [withItem, getOptNode_mapPos h1, bind, Except.bind]
  cases ov with
  | none => simp only [pure_ok_iff] at h; subst h; rfl
  | some t =>
    simp only [bind_ok_iff, pure_ok_iff] at h
    obtain ⟨ce, h2, eend, h3, ts, h4, rfl⟩ := h
    have h3' := exprEnd_mapPos (φ := φ) (ψ := ψ) (posQ_sub ((getNode_sub h2).trans hs.inside) hq) h3
    simp only [Option.map_some, getNode_mapPos h2, h3', targetsOf_mapPos h4, bind, Except.bind, pure, Except.pure,
      flatMap_mapP (withBind eend) (withBind (ψ eend)) (Target.mapP φ) ts (withBind_mapP eend)]

theorem withItems_comm {n : Ast} (hq : n.all (posQ φ ψ) = true) : ∀ (l : List Ast), (∀ it ∈ l, Sub it n) →
    ∀ prog, withItems l = .ok prog → withItems (l.map (Ast.mapPos φ)) = .ok (prog.map (Instr.mapP φ ψ)) := by
  intro l
  induction l with
  | nil => intro _ prog h; simp only [withItems, pure_ok_iff] at h; subst h; rfl
  | cons it r ih =>
    intro hs prog h
    simp only [withItems, bind_ok_iff, pure_ok_iff] at h
    obtain ⟨this, ht, rest, hr, rfl⟩ := h
    simp only [List.map_cons, withItems, withItem_comm (hs it List.mem_cons_self) hq ht,
      ih (fun x hx => hs x (List.mem_cons_of_mem _ hx)) rest hr, bind, Except.bind, pure, Except.pure, List.map_append]

theorem compileWith_comm {n : Ast} {prog : Prog} (hq : n.all (posQ φ ψ) = true)
    (h : compileWith n = .ok prog) : compileWith (n.mapPos φ) = .ok (prog.map (Instr.mapP φ ψ)) := by
  simp only [compileWith, bind_ok_iff, pure_ok_iff] at h
  obtain ⟨items, h1, binds, h2, rfl⟩ := h
  simp only [compileWith, getNodeList_mapPos h1, withItems_comm hq items (getNodeList_sub h1) binds h2, bind, Except.bind,
    pure, Except.pure, List.map_append, generic_mapPos (ψ := ψ)]

end SuppModel.Extract
