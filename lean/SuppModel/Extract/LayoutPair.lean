/-
  Extract family — a REAL pair of layouts (two serialised trees), definitions only:

    * `eqUpToPos t1 t2`   the trees are equal up to node positions;
    * `posPairs t1 t2`    the positions zipped in traversal order; `phiOf` reads the position map φ off them
                          (`functional`: it is well defined);
    * `psiOf`             the map ψ of the locations the extractor stores: φ on node positions, "+ (0, 1)" of φ one
                          column to the left otherwise (`get_expr_end`), the decorated-body mix;
    * `posQ` / `layoutQ`  the per-node conditions layer 2 needs (decidable, evaluated with these φ ψ);
    * `layoutPairOK`      everything together with the order hypothesis on the stored locations and the positions
                          of `Name` nodes - what the driver evaluates for a layout pair.
-/
import SuppModel.Extract.Layout

namespace SuppModel.Extract
open SuppModel.Flow

mutual
/-- the start of the last node visited by get_expr_end_visitor (pre-order) that has a position -/
def lastPos : Ast → Pos → Pos
  | .node _ pos _ vs, acc => lastPosList vs (match pos with | some p => p | none => acc)
  | .list items, acc => lastPosList items acc
  | _, acc => acc
def lastPosList : List Ast → Pos → Pos
  | [], acc => acc
  | x :: xs, acc => lastPosList xs (lastPos x acc)
end

/-- a decorated `def` / `class` (what get_first_body_node_loc looks at): (position of the first decorator, position of the node) -/
def mixKey (n : Ast) : Option (Pos × Pos) :=
  if n.kind == "FunctionDef" || n.kind == "ClassDef" then
    match getNodeList n "decorator_list" with
    | .ok (d :: _) =>
      match d.pos?, n.pos? with
      | some dp, some bp => some (dp, bp)
      | _, _ => none
    | _ => none
  else none

/-- the position conditions at one node: `ψ` agrees with `φ` at its position, commutes with "+ (0, 1)" at the end of
    the expression it roots, and with the decorator-line / statement-column mix -/
def posQ (φ ψ : Pos → Pos) (n : Ast) : Bool :=
  (match n.pos? with
   | some p => decide (ψ p = φ p) && decide (ψ (bump (lastPos n p)) = bump (φ (lastPos n p)))
   | none => true) &&
  (match mixKey n with
   | some (dp, bp) => decide (ψ (dp.1, bp.2) = ((φ dp).1, (φ bp).2))
   | none => true)

def layoutQ (φ ψ : Pos → Pos) (S : List Pos) (n : Ast) : Bool :=
  posQ φ ψ n &&
  (match compile n with
   | .ok prog => (progLocs prog).all (fun l => S.contains l)
   | .error _ => true)

mutual
def eqUpToPos : Ast → Ast → Bool
  | .node k1 p1 ns1 vs1, .node k2 p2 ns2 vs2 =>
    k1 == k2 && p1.isSome == p2.isSome && ns1 == ns2 && eqUpToPosList vs1 vs2
  | .list a, .list b => eqUpToPosList a b
  | .str a, .str b => a == b
  | .int a, .int b => a == b
  | .none, .none => true
  | _, _ => false
def eqUpToPosList : List Ast → List Ast → Bool
  | [], [] => true
  | x :: xs, y :: ys => eqUpToPos x y && eqUpToPosList xs ys
  | _, _ => false
end

mutual
def posPairs : Ast → Ast → List (Pos × Pos)
  | .node _ p1 _ vs1, .node _ p2 _ vs2 =>
    (match p1, p2 with | some a, some b => [(a, b)] | _, _ => []) ++ posPairsList vs1 vs2
  | .list a, .list b => posPairsList a b
  | _, _ => []
def posPairsList : List Ast → List Ast → List (Pos × Pos)
  | x :: xs, y :: ys => posPairs x y ++ posPairsList xs ys
  | _, _ => []
end

def functional (l : List (Pos × Pos)) : Bool := l.all (fun pq => l.lookup pq.1 == some pq.2)

def phiOf (pairs : List (Pos × Pos)) (x : Pos) : Pos := (pairs.lookup x).getD x

def mixPairs (φ : Pos → Pos) (t : Ast) : List (Pos × Pos) :=
  t.nodes.filterMap (fun n => (mixKey n).map (fun k => ((k.1.1, k.2.2), ((φ k.1).1, (φ k.2).2))))

def psiOf (pairs mix : List (Pos × Pos)) (x : Pos) : Pos :=
  match pairs.lookup x with
  | some q => q
  | none =>
    match mix.lookup x with
    | some q => q
    | none =>
      match x with
      | (l, c + 1) => (match pairs.lookup (l, c) with | some q => bump q | none => x)
      | _ => x

/-- every location some visit method stores in a name -/
def storedLocs (t : Ast) : List Pos :=
  t.nodes.flatMap (fun n => match compile n with | .ok p => progLocs p | .error _ => [])

/-- the positions of the `Name` nodes (where `names_at` is asked) -/
def namePos (t : Ast) : List Pos := (t.nodes.filter (fun n => n.kind == "Name")).filterMap Ast.pos?

def orderOK (ψ : Pos → Pos) (S : List Pos) : Bool :=
  let sp := S.map (fun a => (a, ψ a))
  sp.all (fun x => sp.all (fun y => Pos.lt x.2 y.2 == Pos.lt x.1 y.1))

def pairPhi (t1 t2 : Ast) : Pos → Pos := phiOf (posPairs t1 t2)
def pairPsi (t1 t2 : Ast) : Pos → Pos := psiOf (posPairs t1 t2) (mixPairs (phiOf (posPairs t1 t2)) t1)
def pairS (t1 : Ast) : List Pos := storedLocs t1

/-- a query position makes the same comparisons with the stored locations on both layouts (what `bisect_right`
    observes: is the position strictly before the location), and is mapped like a node position -/
def queriesOK (φ ψ : Pos → Pos) (S qs : List Pos) : Bool :=
  let sp := S.map (fun a => (a, ψ a))
  qs.all (fun p => decide (ψ p = φ p) && sp.all (fun y => Pos.lt (ψ p) y.2 == Pos.lt p y.1))

/-- the two trees are two layouts of one program to which the layout theorem applies -/
def layoutPairOK (t1 t2 : Ast) : Bool :=
  let pairs := posPairs t1 t2
  let φ := phiOf pairs
  let ψ := psiOf pairs (mixPairs φ t1)
  let S := pairS t1
  eqUpToPos t1 t2 && functional pairs && t1.all (layoutQ φ ψ S) && orderOK ψ S && queriesOK φ ψ S (namePos t1)

end SuppModel.Extract
