/-
  Extract family — `compile` commutes with a transformation satisfying `TLaws`: targets, body locations, and one
  lemma per visit method without function / class / comprehension scopes.
-/
import SuppModel.Extract.LemmasTrans

namespace SuppModel.Extract
open SuppModel.Flow

macro "tlit" : tactic => `(tactic| exact TLaws.lit (by assumption) _ _ (by decide) (by decide))

section
variable {T : Ast → Ast} {good : Ast → String → Bool} {okPos : Pos → Prop} (L : TLaws T good okPos)
include L

theorem isSeq_T (t : Ast) : isSeq (T t) = isSeq t := by simp [isSeq, L.isNode, L.kind]

theorem concatM_T {f f' : Ast → M (List Ast)} (hf : ∀ e r, f e = .ok r → f' (T e) = .ok (r.map T)) :
    ∀ l r, concatM f l = .ok r → concatM f' (l.map T) = .ok (r.map T) := by
  intro l
  induction l with
  | nil => intro r h; simp only [concatM, pure_ok_iff] at h; subst h; rfl
  | cons e es ih =>
    intro r h
    simp only [concatM, bind_ok_iff, pure_ok_iff] at h
    obtain ⟨a, ha, b, hb, rfl⟩ := h
    simp [concatM, hf e a ha, ih b hb, bind, Except.bind, pure, Except.pure]

theorem targetsFuel_T : ∀ fuel t r, targetsFuel fuel t = .ok r → targetsFuel fuel (T t) = .ok (r.map T) := by
  intro fuel
  induction fuel with
  | zero => intro t r h; cases h
  | succ fuel ih =>
    intro t r h
    simp only [targetsFuel] at h ⊢
    rw [isSeq_T L]
    split at h
    · rename_i hs
      simp only [bind_ok_iff] at h
      obtain ⟨elts, he, h⟩ := h
      simp only [hs, if_true, getNodeList_T L (by tlit) he, bind, Except.bind]
      exact concatM_T L ih elts r h
    · rename_i hs
      simp only [hs, Bool.false_eq_true, if_false, L.isNode, L.kind]
      split at h
      · rename_i hst
        simp only [bind_ok_iff] at h
        obtain ⟨v, hv, h⟩ := h
        simp only [hst, if_true, get_T L (by tlit) hv, bind, Except.bind, isSeq_T L]
        split at h
        · rename_i hsv
          simp only [hsv, if_true]
          exact ih v r h
        · rename_i hsv
          simp only [pure_ok_iff] at h; subst h
          simp [hsv, pure, Except.pure]
      · rename_i hst
        simp only [pure_ok_iff] at h; subst h
        simp [hst, pure, Except.pure]

theorem classifyTarget_T {t : Ast} {r : Target} (h : classifyTarget t = .ok r)
    (hr : ∀ q id, r = .name q id → okPos q) : classifyTarget (T t) = .ok r := by
  simp only [classifyTarget, L.isNode, L.kind, L.pos] at h ⊢
  split at h
  · rename_i h0
    simp only [pure_ok_iff] at h; subst h
    rw [if_pos h0]; rfl
  · rename_i h0
    rw [if_neg h0]
    split at h
    · rename_i h1
      simp only [pure_ok_iff] at h; subst h
      rw [if_pos h1]; rfl
    · rename_i h1
      rw [if_neg h1]
      simp only [bind_ok_iff, pure_ok_iff] at h
      obtain ⟨id, e1, p, e2, rfl⟩ := h
      have hp : t.pos? = some p := by
        unfold np at e2; split at e2
        · rename_i q hq; injection e2 with e2; subst e2; exact hq
        · cases e2
      have hg := L.idgood t p hp (hr p id rfl)
      simp [getStr_T L hg e1, np_T L, e2, bind, Except.bind, pure, Except.pure]

theorem classifyAll_T : ∀ (l : List Ast) (r : List Target), classifyAll l = .ok r →
    (∀ q id, Target.name q id ∈ r → okPos q) → classifyAll (l.map T) = .ok r := by
  intro l
  induction l with
  | nil => intro r h _; simp only [classifyAll, pure_ok_iff] at h; subst h; rfl
  | cons t ts ih =>
    intro r h hr
    simp only [classifyAll, bind_ok_iff, pure_ok_iff] at h
    obtain ⟨a, ha, b, hb, rfl⟩ := h
    simp [classifyAll, classifyTarget_T L ha (fun q id e => hr q id (by simp [e])),
      ih b hb (fun q id hm => hr q id (by simp [hm])), bind, Except.bind, pure, Except.pure]

theorem targetsOf_T {t : Ast} {r : List Target} (h : targetsOf t = .ok r)
    (hr : ∀ q id, Target.name q id ∈ r → okPos q) : targetsOf (T t) = .ok r := by
  simp only [targetsOf, bind_ok_iff] at h
  obtain ⟨ts, h1, h2⟩ := h
  simp only [targetsOf, L.size, targetsFuel_T L _ _ _ h1, bind, Except.bind]
  exact classifyAll_T L ts r h2 hr

theorem targetsOfList_T : ∀ (l : List Ast) (r : List Target), targetsOfList l = .ok r →
    (∀ q id, Target.name q id ∈ r → okPos q) → targetsOfList (l.map T) = .ok r := by
  intro l
  induction l with
  | nil => intro r h _; simp only [targetsOfList, pure_ok_iff] at h; subst h; rfl
  | cons t ts ih =>
    intro r h hr
    simp only [targetsOfList, bind_ok_iff, pure_ok_iff] at h
    obtain ⟨a, ha, b, hb, rfl⟩ := h
    simp [targetsOfList, targetsOf_T L ha (fun q id hm => hr q id (by simp [hm])),
      ih b hb (fun q id hm => hr q id (by simp [hm])), bind, Except.bind, pure, Except.pure]

theorem firstBodyLoc_T {body : List Ast} {l : Option Pos} (h : firstBodyLoc body = .ok l) :
    firstBodyLoc (body.map T) = .ok l := by
  cases body with
  | nil => exact h
  | cons b rest =>
    simp only [firstBodyLoc, List.map_cons, L.kind] at h ⊢
    split at h
    · rename_i hk
      simp only [bind_ok_iff] at h
      obtain ⟨decs, hd, h⟩ := h
      simp only [hk, if_true, getNodeList_T L (by tlit) hd, bind, Except.bind]
      cases decs with
      | nil => simp only [List.map_nil, np_T L]; exact h
      | cons d ds => simp only [List.map_cons, np_T L]; exact h
    · rename_i hk
      simp only [hk, Bool.false_eq_true, if_false, np_T L]; exact h

theorem bodyLoc_T {body : List Ast} {l : Pos} (h : bodyLoc body = .ok l) : bodyLoc (body.map T) = .ok l := by
  simp only [bodyLoc, bind_ok_iff] at h
  obtain ⟨o, ho, h⟩ := h
  simp only [bodyLoc, firstBodyLoc_T L ho, bind, Except.bind]
  exact h

theorem firstLoc_T {body : List Ast} {l : Pos} (h : firstLoc body = .ok l) : firstLoc (body.map T) = .ok l := by
  cases body with
  | nil => cases h
  | cons b rest => simpa [firstLoc, np_T L] using h

end

end SuppModel.Extract
