/-
  Extract family — layout independence, layer 2, foundations: the accessors, `get_expr_end` (`lastLoc`: the one place
  a location is COMPUTED from a position, start + (0, 1)), `get_first_body_node_loc`, `get_indexes_for_target` and the
  target classification commute with re-positioning.
-/
import SuppModel.Extract.LemmasLayout
import SuppModel.Extract.LayoutPair

namespace SuppModel.Extract
open SuppModel.Flow

variable {φ ψ : Pos → Pos}

theorem lookupField_map (f : Ast → Ast) (k : String) (ns : List String) (vs : List Ast) :
    lookupField k ns (vs.map f) = (lookupField k ns vs).map f := by
  induction ns generalizing vs with
  | nil => cases vs <;> rfl
  | cons n ns ih =>
    cases vs with
    | nil => rfl
    | cons v vs =>
      simp only [List.map_cons, lookupField]
      split
      · rfl
      · exact ih vs

@[simp] theorem mapPos_kind (n : Ast) : (n.mapPos φ).kind = n.kind := by cases n <;> rfl
@[simp] theorem mapPos_pos (n : Ast) : (n.mapPos φ).pos? = n.pos?.map φ := by cases n <;> rfl

theorem field?_mapPos (n : Ast) (k : String) : (n.mapPos φ).field? k = (n.field? k).map (Ast.mapPos φ) := by
  cases n with
  | node kd p ns vs =>
    simp only [Ast.mapPos, Ast.field?, Ast.fieldNames, Ast.vals, mapPosList_eq]
    exact lookupField_map _ k ns vs
  | _ => rfl

theorem get_mapPos {n : Ast} {k : String} {v : Ast} (h : n.get k = .ok v) : (n.mapPos φ).get k = .ok (v.mapPos φ) := by
  unfold Ast.get at h ⊢
  rw [field?_mapPos]
  split at h
  · rename_i v' hv; injection h with h; subst h; simp [hv]
  · cases h

theorem getNode_mapPos {n : Ast} {k : String} {v : Ast} (h : getNode n k = .ok v) :
    getNode (n.mapPos φ) k = .ok (v.mapPos φ) := by
  simp only [getNode, bind_ok_iff] at h
  obtain ⟨w, hw, h⟩ := h
  split at h
  · rename_i hn
    simp only [pure_ok_iff] at h; subst h
    simp [getNode, get_mapPos hw, hn, bind, Except.bind, pure, Except.pure]
  · cases h

theorem getNodeList_mapPos {n : Ast} {k : String} {l : List Ast} (h : getNodeList n k = .ok l) :
    getNodeList (n.mapPos φ) k = .ok (l.map (Ast.mapPos φ)) := by
  simp only [getNodeList, bind_ok_iff] at h
  obtain ⟨w, hw, h⟩ := h
  split at h
  · rename_i items
    split at h
    · rename_i hall
      simp only [pure_ok_iff] at h; subst h
      have : (List.map (Ast.mapPos φ) items).all Ast.isNode = true := by
        simp only [List.all_eq_true, List.mem_map] at hall ⊢
        rintro x ⟨y, hy, rfl⟩
        simp [hall y hy]
      simp only [getNodeList, get_mapPos hw, Ast.mapPos, mapPosList_eq, bind, Except.bind, this, if_true, pure, Except.pure]
    · cases h
  · cases h

theorem getStr_mapPos {n : Ast} {k : String} {s : String} (h : getStr n k = .ok s) : getStr (n.mapPos φ) k = .ok s := by
  simp only [getStr, bind_ok_iff] at h
  obtain ⟨w, hw, h⟩ := h
  split at h
  · simp only [pure_ok_iff] at h; subst h
    simp [getStr, get_mapPos hw, Ast.mapPos, bind, Except.bind, pure, Except.pure]
  · cases h

theorem np_mapPos {n : Ast} {p : Pos} (h : np n = .ok p) : np (n.mapPos φ) = .ok (φ p) := by
  unfold np at h ⊢
  rw [mapPos_pos]
  split at h
  · rename_i q hq; injection h with h; subst h; simp [hq]
  · cases h

mutual
theorem lastLoc_bump : ∀ (n : Ast) (a : Pos), lastLoc n (bump a) = bump (lastPos n a)
  | .node k p ns vs, a => by
    simp only [lastLoc, lastPos]
    cases p with
    | none => exact lastLocList_bump vs a
    | some q => exact lastLocList_bump vs q
  | .list items, a => by simp only [lastLoc, lastPos]; exact lastLocList_bump items a
  | .str _, _ => rfl
  | .int _, _ => rfl
  | .none, _ => rfl
theorem lastLocList_bump : ∀ (l : List Ast) (a : Pos), lastLocList l (bump a) = bump (lastPosList l a)
  | [], _ => rfl
  | x :: xs, a => by
    simp only [lastLocList, lastPosList]
    rw [lastLoc_bump x a]
    exact lastLocList_bump xs _
end

mutual
theorem lastPos_mapPos : ∀ (n : Ast) (a : Pos), lastPos (n.mapPos φ) (φ a) = φ (lastPos n a)
  | .node k p ns vs, a => by
    simp only [Ast.mapPos, lastPos]
    cases p with
    | none => exact lastPosList_mapPos vs a
    | some q => exact lastPosList_mapPos vs q
  | .list items, a => by simp only [Ast.mapPos, lastPos]; exact lastPosList_mapPos items a
  | .str _, _ => rfl
  | .int _, _ => rfl
  | .none, _ => rfl
theorem lastPosList_mapPos : ∀ (l : List Ast) (a : Pos), lastPosList (mapPosList φ l) (φ a) = φ (lastPosList l a)
  | [], _ => rfl
  | x :: xs, a => by
    simp only [mapPosList, lastPosList]
    rw [lastPos_mapPos x a]
    exact lastPosList_mapPos xs _
end

theorem posQ_pos {n : Ast} {p : Pos} (h : posQ φ ψ n = true) (hp : n.pos? = some p) :
    ψ p = φ p ∧ ψ (bump (lastPos n p)) = bump (φ (lastPos n p)) := by
  simp only [posQ, hp, Bool.and_eq_true, decide_eq_true_eq] at h
  exact h.1

theorem posQ_mix {n : Ast} {dp bp : Pos} (h : posQ φ ψ n = true) (hk : mixKey n = some (dp, bp)) :
    ψ (dp.1, bp.2) = ((φ dp).1, (φ bp).2) := by
  simp only [posQ, hk, Bool.and_eq_true, decide_eq_true_eq] at h
  exact h.2

theorem q_of_all {Q : Ast → Bool} {n : Ast} (hn : n.isNode = true) (h : n.all Q = true) : Q n = true := by
  cases n with
  | node k p ns vs => simp only [Ast.all, Bool.and_eq_true] at h; exact h.1
  | _ => cases hn

theorem np_pos {n : Ast} {p : Pos} (h : np n = .ok p) : n.pos? = some p := by
  unfold np at h
  split at h
  · rename_i q hq; injection h with h; subst h; exact hq
  · cases h

/-- `get_expr_end` on the other layout is `ψ` of `get_expr_end` -/
theorem exprEnd_mapPos {n : Ast} {e : Pos} (hq : posQ φ ψ n = true) (h : exprEnd n = .ok e) :
    exprEnd (n.mapPos φ) = .ok (ψ e) := by
  simp only [exprEnd, bind_ok_iff, pure_ok_iff] at h
  obtain ⟨p, hp, rfl⟩ := h
  have hb := (posQ_pos hq (np_pos hp)).2
  simp only [exprEnd, np_mapPos hp, bind, Except.bind, pure, Except.pure]
  have e1 : lastLoc n (p.1, p.2 + 1) = bump (lastPos n p) := lastLoc_bump n p
  have e2 : lastLoc (n.mapPos φ) ((φ p).1, (φ p).2 + 1) = bump (lastPos (n.mapPos φ) (φ p)) := lastLoc_bump _ (φ p)
  rw [e1, e2, lastPos_mapPos, hb]

end SuppModel.Extract

namespace SuppModel.Extract
open SuppModel.Flow

variable {φ ψ : Pos → Pos}

theorem isSeq_mapPos (t : Ast) : isSeq (t.mapPos φ) = isSeq t := by simp [isSeq]

theorem concatM_mapPos {f f' : Ast → M (List Ast)}
    (hf : ∀ e r, f e = .ok r → f' (e.mapPos φ) = .ok (r.map (Ast.mapPos φ))) :
    ∀ l r, concatM f l = .ok r → concatM f' (l.map (Ast.mapPos φ)) = .ok (r.map (Ast.mapPos φ)) := by
  intro l
  induction l with
  | nil => intro r h; simp only [concatM, pure_ok_iff] at h; subst h; rfl
  | cons e es ih =>
    intro r h
    simp only [concatM, bind_ok_iff, pure_ok_iff] at h
    obtain ⟨a, ha, b, hb, rfl⟩ := h
    simp [concatM, hf e a ha, ih b hb, bind, Except.bind, pure, Except.pure]

theorem targetsFuel_mapPos : ∀ fuel t r, targetsFuel fuel t = .ok r →
    targetsFuel fuel (t.mapPos φ) = .ok (r.map (Ast.mapPos φ)) := by
  intro fuel
  induction fuel with
  | zero => intro t r h; cases h
  | succ fuel ih =>
    intro t r h
    simp only [targetsFuel] at h ⊢
    rw [isSeq_mapPos]
    split at h
    · rename_i hs
      simp only [bind_ok_iff] at h
      obtain ⟨elts, he, h⟩ := h
      simp only [hs, if_true, getNodeList_mapPos he, bind, Except.bind]
      exact concatM_mapPos ih elts r h
    · rename_i hs
      simp only [hs, Bool.false_eq_true, if_false, mapPos_isNode, mapPos_kind]
      split at h
      · rename_i hst
        simp only [bind_ok_iff] at h
        obtain ⟨v, hv, h⟩ := h
        simp only [hst, if_true, get_mapPos hv, bind, Except.bind, isSeq_mapPos]
        split at h
        · rename_i hsv
          simp only [hsv, if_true]
          exact ih v r h
        · rename_i hsv
          simp only [pure_ok_iff] at h; subst h
          simp [hsv, pure, Except.pure]
      · rename_i hst
        simp only [pure_ok_iff] at h; subst h
        simp [hst, pure, Except.pure]

def Target.mapP (φ : Pos → Pos) : Target → Target
  | .name p id => .name (φ p) id
  | .attr p => .attr (p.map φ)
  | .skip => .skip

theorem classifyTarget_mapPos {t : Ast} {r : Target} (h : classifyTarget t = .ok r) :
    classifyTarget (t.mapPos φ) = .ok (r.mapP φ) := by
  simp only [classifyTarget, mapPos_isNode, mapPos_kind, mapPos_pos] at h ⊢
  split at h
  · rename_i h0
    simp only [pure_ok_iff] at h; subst h
    rw [if_pos h0]; rfl
  · rename_i h0
    rw [if_neg h0]
    split at h
    · rename_i h1
      simp only [pure_ok_iff] at h; subst h
      rw [if_pos h1]; rfl
    · rename_i h1
      rw [if_neg h1]
      simp only [bind_ok_iff, pure_ok_iff] at h
      obtain ⟨id, h1, p, h2, rfl⟩ := h
      simp [getStr_mapPos h1, np_mapPos h2, Target.mapP, bind, Except.bind, pure, Except.pure]

theorem classifyAll_mapPos : ∀ (l : List Ast) (r : List Target), classifyAll l = .ok r →
    classifyAll (l.map (Ast.mapPos φ)) = .ok (r.map (Target.mapP φ)) := by
  intro l
  induction l with
  | nil => intro r h; simp only [classifyAll, pure_ok_iff] at h; subst h; rfl
  | cons t ts ih =>
    intro r h
    simp only [classifyAll, bind_ok_iff, pure_ok_iff] at h
    obtain ⟨a, ha, b, hb, rfl⟩ := h
    simp [classifyAll, classifyTarget_mapPos ha, ih b hb, bind, Except.bind, pure, Except.pure]

theorem targetsOf_mapPos {t : Ast} {r : List Target} (h : targetsOf t = .ok r) :
    targetsOf (t.mapPos φ) = .ok (r.map (Target.mapP φ)) := by
  simp only [targetsOf, bind_ok_iff] at h
  obtain ⟨ts, h1, h2⟩ := h
  simp only [targetsOf, mapPos_size, targetsFuel_mapPos _ _ _ h1, bind, Except.bind]
  exact classifyAll_mapPos ts r h2

theorem targetsOfList_mapPos : ∀ (l : List Ast) (r : List Target), targetsOfList l = .ok r →
    targetsOfList (l.map (Ast.mapPos φ)) = .ok (r.map (Target.mapP φ)) := by
  intro l
  induction l with
  | nil => intro r h; simp only [targetsOfList, pure_ok_iff] at h; subst h; rfl
  | cons t ts ih =>
    intro r h
    simp only [targetsOfList, bind_ok_iff, pure_ok_iff] at h
    obtain ⟨a, ha, b, hb, rfl⟩ := h
    simp [targetsOfList, targetsOf_mapPos ha, ih b hb, bind, Except.bind, pure, Except.pure]

theorem assignBind_mapP (eend : Pos) (t : Target) :
    (assignBind eend t).map (Instr.mapP φ ψ) = assignBind (ψ eend) (t.mapP φ) := by
  cases t <;> rfl

theorem generic_mapPos (n : Ast) : generic (n.mapPos φ) = (generic n).map (Instr.mapP φ ψ) := by
  simp [generic, mapPos_children, Instr.mapP]

theorem compileAssign_comm {n : Ast} {prog : Prog} (hb : n.all (posQ φ ψ) = true) (h : compileAssign n = .ok prog) :
    compileAssign (n.mapPos φ) = .ok (prog.map (Instr.mapP φ ψ)) := by
  simp only [compileAssign, bind_ok_iff, pure_ok_iff] at h
  obtain ⟨value, h1, eend, h2, targets, h3, ts, h4, rfl⟩ := h
  have hsub := getNode_sub h1
  have h2' := exprEnd_mapPos (φ := φ) (ψ := ψ) (q_of_all hsub.node (hsub.inside.all _ hb)) h2
  simp only [compileAssign, getNode_mapPos h1, h2', getNodeList_mapPos h3, targetsOfList_mapPos _ _ h4, bind,
    Except.bind, pure, Except.pure]
  congr 1
  rw [List.map_append, generic_mapPos (ψ := ψ)]
  congr 1
  rw [List.map_flatMap, List.flatMap_map]
  congr 1
  funext t
  exact (assignBind_mapP eend t).symm

theorem nameId_mapPos (n : Ast) : nameId (n.mapPos φ) = nameId n := by
  simp only [nameId, field?_mapPos]
  cases n.field? "id" with
  | none => rfl
  | some v => cases v <;> rfl

theorem compileName_comm {n : Ast} {prog : Prog} (h : compileName n = .ok prog) :
    compileName (n.mapPos φ) = .ok (prog.map (Instr.mapP φ ψ)) := by
  simp only [compileName, bind_ok_iff] at h
  obtain ⟨ctx, h1, h⟩ := h
  simp only [compileName, get_mapPos h1, bind, Except.bind, nameId_mapPos, mapPos_pos]
  have hctx : ctx.mapPos φ = ctx ∨ ∃ k p ns vs, ctx = .node k p ns vs ∨ ctx = .list vs := by
    cases ctx with
    | str s => exact Or.inl rfl
    | int i => exact Or.inl rfl
    | none => exact Or.inl rfl
    | node k p ns vs => exact Or.inr ⟨k, p, ns, vs, Or.inl rfl⟩
    | list l => exact Or.inr ⟨"", Option.none, [], l, Or.inr rfl⟩
  rcases hctx with he | ⟨k, p, ns, vs, he | he⟩
  · rw [he]
    split at h
    · simp only [pure_ok_iff] at h; subst h; rfl
    · simp only [pure_ok_iff] at h; subst h; rfl
  · subst he
    simp only [pure_ok_iff] at h; subst h; rfl
  · subst he
    simp only [pure_ok_iff] at h; subst h; rfl

end SuppModel.Extract

namespace SuppModel.Extract
open SuppModel.Flow

variable {φ ψ : Pos → Pos} {S : List Pos}

mutual
theorem all_mono {Q Q' : Ast → Bool} (hq : ∀ x, Q x = true → Q' x = true) : ∀ (n : Ast), n.all Q = true → n.all Q' = true
  | .node k p ns vs, h => by
    simp only [Ast.all, Bool.and_eq_true] at h ⊢
    exact ⟨hq _ h.1, allList_mono hq vs h.2⟩
  | .list items, h => by
    simp only [Ast.all] at h ⊢
    exact allList_mono hq items h
  | .str _, _ => rfl
  | .int _, _ => rfl
  | .none, _ => rfl
theorem allList_mono {Q Q' : Ast → Bool} (hq : ∀ x, Q x = true → Q' x = true) : ∀ (l : List Ast), allList Q l = true → allList Q' l = true
  | [], _ => rfl
  | x :: xs, h => by
    simp only [allList, Bool.and_eq_true] at h ⊢
    exact ⟨all_mono hq x h.1, allList_mono hq xs h.2⟩
end

theorem compile_generic {n : Ast} (h : specialKinds.contains n.kind = false) : compile n = pure (generic n) := by
  unfold compile
  split <;> first
    | rfl
    | (rename_i hk; rw [hk] at h; simp [specialKinds] at h)

end SuppModel.Extract
