/-
  Extract family — totality: on a well-shaped tree no attribute access of the visitor fails and the
  fuel `extract` supplies (the size of the tree) is never exhausted.
-/
import SuppModel.Extract.LemmasCompile

namespace SuppModel.Extract
open SuppModel.Flow

theorem Ast.size_pos (n : Ast) : 0 < n.size := by
  cases n <;> simp only [Ast.size] <;> omega

theorem shapeHere_of_all {n : Ast} (hn : n.isNode = true) (h : n.all shapeHere = true) : shapeHere n = true := by
  cases n with
  | node k p ns vs => simp only [Ast.all, Bool.and_eq_true] at h; exact h.1
  | _ => cases hn

theorem compile_ok_of_shape {n : Ast} (h : shapeHere n = true) : ∃ prog, compile n = .ok prog := by
  unfold shapeHere at h
  simp only [Bool.and_eq_true] at h
  cases hc : compile n with
  | ok prog => exact ⟨prog, rfl⟩
  | error e => rw [hc] at h; simp at h

theorem visit_total (lines : List Text.Str) :
    ∀ fuel n, n.size ≤ fuel → n.isNode = true → n.all shapeHere = true →
      ∀ st, ∃ st', visit lines fuel n st = .ok st' := by
  intro fuel
  induction fuel with
  | zero => intro n hs; have := n.size_pos; omega
  | succ fuel ih =>
    intro n hs hn hall st
    obtain ⟨prog, hp⟩ := compile_ok_of_shape (shapeHere_of_all hn hall)
    simp only [visit, step, hn, if_true, hp, bind, Except.bind]
    apply exec_ok
    intro c hc st
    have hsub := compile_kids_sub hp c hc
    exact ih c (by have := hsub.inside.size; omega) hsub.node (hsub.inside.all _ hall) st

theorem extract_total' (lines : List Text.Str) (mods : List (String × List String)) (t : Ast)
    (h : wellShaped t = true) : ∃ st, extract lines mods t = .ok st := by
  simp only [wellShaped, Bool.and_eq_true] at h
  obtain ⟨⟨hn, _⟩, hall⟩ := h
  have : ∃ st', exec lines (visit lines t.size) (generic t) [] St.init = .ok st' := by
    apply exec_ok
    intro c hc st
    rw [progKids_generic] at hc
    have hsub := children_sub c hc
    exact visit_total lines t.size c (by have := hsub.inside.size; omega) hsub.node (hsub.inside.all _ hall) st
  obtain ⟨st', hst⟩ := this
  exact ⟨resolveStars mods st', by simp [extract, hn, hst, bind, Except.bind, pure, Except.pure]⟩

end SuppModel.Extract
