/-
  Extract family — coverage: what a visit method visits (or marks itself) contains every read below the
  visited node (`compile_covers`), hence every read of a well-shaped tree without PEP 695 type parameters
  gets a flow (`extract_loads'`).
-/
import SuppModel.Extract.LemmasTotal
import SuppModel.Extract.LemmasInv

namespace SuppModel.Extract
open SuppModel.Flow

/-! ### the nodes of a tree -/

theorem itemsNodes_eq (items : List Ast) : itemsNodes items = (items.filter Ast.isNode).flatMap Ast.nodes := by
  induction items with
  | nil => rfl
  | cons x xs ih =>
    cases x <;> simp [itemsNodes, Ast.nodes, Ast.isNode, ih, List.filter_cons]

theorem valsNodes_eq (vs : List Ast) : valsNodes vs = (vs.flatMap childrenOfVal).flatMap Ast.nodes := by
  induction vs with
  | nil => rfl
  | cons x xs ih =>
    cases x <;> simp [valsNodes, childrenOfVal, ih, itemsNodes_eq, Ast.nodes]

theorem nodes_eq {n : Ast} (hn : n.isNode = true) : n.nodes = n :: n.children.flatMap Ast.nodes := by
  cases n with
  | node k p ns vs => simp [Ast.nodes, valsNodes_eq, Ast.children, Ast.vals]
  | _ => cases hn

theorem loads_eq {n : Ast} (hn : n.isNode = true) :
    loads n = (if isLoadName n then [readKey n] else []) ++ n.children.flatMap loads := by
  unfold loads
  rw [nodes_eq hn]
  simp only [List.filter_cons]
  split <;> simp [List.filter_flatMap, List.map_flatMap]

/-- what a visit covers: every read below `n` is marked by the method itself or lies below a node it visits -/
def Covers (n : Ast) (prog : Prog) : Prop :=
  ∀ k ∈ loads n, k ∈ progAttrs prog ∨ ∃ c ∈ progKids prog, k ∈ loads c

/-- the reads below `c` lie below nodes the program visits -/
def Reached (prog : Prog) (c : Ast) : Prop := ∀ k ∈ loads c, ∃ c' ∈ progKids prog, k ∈ loads c'

theorem reached_of_kid {prog : Prog} {c : Ast} (h : c ∈ progKids prog) : Reached prog c :=
  fun _ hk => ⟨c, h, hk⟩

theorem covers_of_children {n : Ast} {prog : Prog} (hn : n.isNode = true) (hl : isLoadName n = false)
    (h : ∀ c ∈ n.children, Reached prog c) : Covers n prog := by
  intro k hk
  rw [loads_eq hn, hl] at hk
  simp only [Bool.false_eq_true, if_false, List.nil_append, List.mem_flatMap] at hk
  obtain ⟨c, hc, hk⟩ := hk
  exact Or.inr (h c hc k hk)

theorem not_load_of_kind {n : Ast} (h : n.kind ≠ "Name") : isLoadName n = false := by
  simp [isLoadName, h]

/-- a node that is not a Name and all of whose children are reached is reached -/
theorem reached_of_children {n : Ast} {prog : Prog} (hn : n.isNode = true) (hl : n.kind ≠ "Name")
    (h : ∀ c ∈ n.children, Reached prog c) : Reached prog n := by
  intro k hk
  rw [loads_eq hn, not_load_of_kind hl] at hk
  simp only [Bool.false_eq_true, if_false, List.nil_append, List.mem_flatMap] at hk
  obtain ⟨c, hc, hk⟩ := hk
  exact h c hc k hk

theorem covers_generic {n : Ast} (hn : n.isNode = true) (hl : n.kind ≠ "Name") (pre : Prog) :
    Covers n (pre ++ generic n) :=
  covers_of_children hn (not_load_of_kind hl)
    (fun c hc => reached_of_kid (by simp [progKids_generic, hc]))

/-! ### what the accessors say about the field -/

theorem get_eq {n : Ast} {k : String} {v : Ast} (h : n.get k = .ok v) : n.field? k = some v := by
  unfold Ast.get at h
  split at h
  · rename_i v' hv; injection h with h; subst h; exact hv
  · cases h

theorem getNode_eq {n : Ast} {k : String} {c : Ast} (h : getNode n k = .ok c) :
    n.field? k = some c ∧ childrenOfVal c = [c] := by
  simp only [getNode, bind_ok_iff] at h
  obtain ⟨v, hv, h⟩ := h
  split at h
  · rename_i hn
    simp only [pure_ok_iff] at h; subst h
    refine ⟨get_eq hv, ?_⟩
    cases v <;> simp_all [Ast.isNode, childrenOfVal]
  · cases h

theorem filter_isNode_of_all {l : List Ast} (h : l.all Ast.isNode = true) : l.filter Ast.isNode = l :=
  List.filter_eq_self.mpr (fun a ha => List.all_eq_true.mp h a ha)

theorem getNodeList_eq {n : Ast} {k : String} {l : List Ast} (h : getNodeList n k = .ok l) :
    ∃ v, n.field? k = some v ∧ childrenOfVal v = l := by
  simp only [getNodeList, bind_ok_iff] at h
  obtain ⟨v, hv, h⟩ := h
  split at h
  · split at h
    · rename_i hall
      simp only [pure_ok_iff] at h; subst h
      exact ⟨_, get_eq hv, by simp [childrenOfVal, filter_isNode_of_all hall]⟩
    · cases h
  · cases h

theorem getOptNodeList_eq {n : Ast} {k : String} {l : List Ast} (h : getOptNodeList n k = .ok l) :
    ∃ v, n.field? k = some v ∧ childrenOfVal v = l := by
  simp only [getOptNodeList, bind_ok_iff] at h
  obtain ⟨v, hv, h⟩ := h
  split at h
  · split at h
    · simp only [pure_ok_iff] at h; subst h
      exact ⟨_, get_eq hv, by simp [childrenOfVal]⟩
    · cases h
  · cases h

theorem getOptNode_eq {n : Ast} {k : String} {o : Option Ast} (h : getOptNode n k = .ok o) :
    ∃ v, n.field? k = some v ∧ childrenOfVal v = o.toList := by
  simp only [getOptNode, bind_ok_iff] at h
  obtain ⟨v, hv, h⟩ := h
  split at h
  · simp only [pure_ok_iff] at h; subst h
    exact ⟨_, get_eq hv, rfl⟩
  · simp only [pure_ok_iff] at h; subst h
    exact ⟨_, get_eq hv, rfl⟩
  · cases h

theorem getStr_eq {n : Ast} {k : String} {s : String} (h : getStr n k = .ok s) :
    ∃ v, n.field? k = some v ∧ childrenOfVal v = [] := by
  simp only [getStr, bind_ok_iff] at h
  obtain ⟨v, hv, h⟩ := h
  split at h
  · exact ⟨_, get_eq hv, rfl⟩
  · cases h

theorem getOptStr_eq {n : Ast} {k : String} {s : Option String} (h : getOptStr n k = .ok s) :
    ∃ v, n.field? k = some v ∧ childrenOfVal v = [] := by
  simp only [getOptStr, bind_ok_iff] at h
  obtain ⟨v, hv, h⟩ := h
  split at h
  · exact ⟨_, get_eq hv, rfl⟩
  · exact ⟨_, get_eq hv, rfl⟩
  · cases h

theorem single_eq {v : Ast} {l : List Ast} (h : single v = .ok l) : childrenOfVal v = l := by
  unfold single at h
  split at h
  · simp only [pure_ok_iff] at h; subst h; rfl
  · simp only [pure_ok_iff] at h; subst h; rfl
  · cases h

theorem optNodeList_eq {n : Ast} {k : String} {l : List Ast} (h : optNodeList n k = .ok l) (hf : (n.field? k).isSome) :
    ∃ v, n.field? k = some v ∧ childrenOfVal v = l := by
  unfold optNodeList at h
  split at h
  · exact getNodeList_eq h
  · rename_i hnone; rw [hnone] at hf; cases hf

theorem isScalar_children {v : Ast} (h : v.isScalar = true) : childrenOfVal v = [] := by
  cases v <;> simp_all [Ast.isScalar, childrenOfVal]

/-! ### shape facts -/

theorem shape_fields {n : Ast} {fs : List String} (hs : shapeHere n = true)
    (hk : Generated.fieldsOf n.kind = some fs) : n.fieldNames = fs ∧ n.vals.length = fs.length := by
  simp only [shapeHere, Bool.and_eq_true, fieldsOK, hk, beq_iff_eq] at hs
  obtain ⟨⟨⟨⟨⟨_, hlen, hf⟩, _⟩, _⟩, _⟩, _⟩ := hs
  exact ⟨hf, by rw [hlen, hf]⟩

end SuppModel.Extract

namespace SuppModel.Extract
open SuppModel.Flow

theorem shape_parts {n : Ast} (hs : shapeHere n = true) :
    (!(leafKinds.contains n.kind) || n.children.isEmpty) = true ∧ scalarsOK n = true ∧ kindsOK n = true := by
  simp only [shapeHere, Bool.and_eq_true] at hs
  exact ⟨hs.1.1.1.2, hs.1.1.2, hs.1.2⟩

theorem scalar_of_shape {n : Ast} (hs : shapeHere n = true) {k f : String} (hk : n.kind = k)
    (hm : (k, f) ∈ scalarFields) {v : Ast} (hv : n.field? f = some v) : childrenOfVal v = [] := by
  have h := (shape_parts hs).2.1
  simp only [scalarsOK, List.all_eq_true] at h
  have := h (k, f) hm
  simp only [hk, bne_self_eq_false, Bool.false_or, hv] at this
  exact isScalar_children this

theorem child_shape {n c : Ast} (hc : Sub c n) (h : n.all shapeHere = true) : shapeHere c = true :=
  shapeHere_of_all hc.node (hc.inside.all _ h)

theorem allKind_mem {k : String} {l : List Ast} (h : allKind k l = true) {x : Ast} (hx : x ∈ l) : x.kind = k := by
  simp only [allKind, List.all_eq_true, beq_iff_eq] at h
  exact h x hx

/-- a node without children that is not a Name holds no read -/
theorem reached_leaf {prog : Prog} {c : Ast} (hn : c.isNode = true) (hk : c.kind ≠ "Name") (hc : c.children = []) :
    Reached prog c :=
  reached_of_children hn hk (by rw [hc]; intro x hx; cases hx)

theorem leaf_children {c : Ast} (hs : shapeHere c = true) (hk : leafKinds.contains c.kind = true) : c.children = [] := by
  have h := (shape_parts hs).1
  simp only [hk, Bool.not_true, Bool.false_or, List.isEmpty_iff] at h
  exact h

/-! ### one lemma per visit method -/

theorem compileIf_covers {n prog} (hn : n.isNode = true) (hk : n.kind = "If") (hs : shapeHere n = true)
    (h : compileIf n = .ok prog) : Covers n prog := by
  obtain ⟨hf, hlen⟩ := shape_fields hs (by rw [hk]; rfl)
  simp only [compileIf, bind_ok_iff, pure_ok_iff] at h
  obtain ⟨test, h1, body, h2, orelse, h3, rfl⟩ := h
  obtain ⟨e1, c1⟩ := getNode_eq h1
  obtain ⟨w2, e2, c2⟩ := getNodeList_eq h2
  obtain ⟨w3, e3, c3⟩ := getNodeList_eq h3
  apply covers_of_children hn (not_load_of_kind (by rw [hk]; decide))
  cases n with
  | node kd p ns vs =>
    simp only [Ast.fieldNames, Ast.vals] at hf hlen
    subst hf
    rcases vs with _ | ⟨v1, _ | ⟨v2, _ | ⟨v3, _ | ⟨v4, vs⟩⟩⟩⟩ <;> simp at hlen
    simp [Ast.field?, Ast.fieldNames, Ast.vals, lookupField] at e1 e2 e3
    subst e1 e2 e3
    intro c hc
    apply reached_of_kid
    simp [Ast.children, Ast.vals, c1, c2, c3] at hc
    simp [Instr.kids]
    exact hc
  | _ => cases hn

theorem compileWhile_covers {n prog} (hn : n.isNode = true) (hk : n.kind = "While") (hs : shapeHere n = true)
    (h : compileWhile n = .ok prog) : Covers n prog := by
  obtain ⟨hf, hlen⟩ := shape_fields hs (by rw [hk]; rfl)
  simp only [compileWhile, bind_ok_iff, pure_ok_iff] at h
  obtain ⟨test, h1, body, h2, orelse, h3, rfl⟩ := h
  obtain ⟨e1, c1⟩ := getNode_eq h1
  obtain ⟨w2, e2, c2⟩ := getNodeList_eq h2
  obtain ⟨w3, e3, c3⟩ := getNodeList_eq h3
  apply covers_of_children hn (not_load_of_kind (by rw [hk]; decide))
  cases n with
  | node kd p ns vs =>
    simp only [Ast.fieldNames, Ast.vals] at hf hlen
    subst hf
    rcases vs with _ | ⟨v1, _ | ⟨v2, _ | ⟨v3, _ | ⟨v4, vs⟩⟩⟩⟩ <;> simp at hlen
    simp [Ast.field?, Ast.fieldNames, Ast.vals, lookupField] at e1 e2 e3
    subst e1 e2 e3
    intro c hc
    apply reached_of_kid
    simp [Ast.children, Ast.vals, c1, c2, c3] at hc
    simp [Instr.kids]
    exact hc
  | _ => cases hn

theorem compileFor_covers {n prog} (hn : n.isNode = true) (hk : n.kind = "For" ∨ n.kind = "AsyncFor")
    (hs : shapeHere n = true) (h : compileFor n = .ok prog) : Covers n prog := by
  obtain ⟨hf, hlen⟩ := shape_fields (fs := ["target", "iter", "body", "orelse", "type_comment"]) hs
    (by rcases hk with hk | hk <;> (rw [hk]; rfl))
  have hsc : ∀ v, n.field? "type_comment" = some v → childrenOfVal v = [] := by
    intro v hv
    rcases hk with hk | hk
    · exact scalar_of_shape hs hk (by simp [scalarFields]) hv
    · exact scalar_of_shape hs hk (by simp [scalarFields]) hv
  simp only [compileFor, bind_ok_iff, pure_ok_iff] at h
  obtain ⟨iter, h1, body, h2, bl, h3, target, h4, ts, h5, orelse, h6, rfl⟩ := h
  obtain ⟨e1, c1⟩ := getNode_eq h1
  obtain ⟨w2, e2, c2⟩ := getNodeList_eq h2
  obtain ⟨e4, c4⟩ := getNode_eq h4
  obtain ⟨w6, e6, c6⟩ := getNodeList_eq h6
  apply covers_of_children hn (not_load_of_kind (by rcases hk with hk | hk <;> (rw [hk]; decide)))
  cases n with
  | node kd p ns vs =>
    simp only [Ast.fieldNames, Ast.vals] at hf hlen
    subst hf
    rcases vs with _ | ⟨v1, _ | ⟨v2, _ | ⟨v3, _ | ⟨v4, _ | ⟨v5, _ | ⟨v6, vs⟩⟩⟩⟩⟩⟩ <;> simp at hlen
    have c5 := hsc v5 (by simp [Ast.field?, Ast.fieldNames, Ast.vals, lookupField])
    simp [Ast.field?, Ast.fieldNames, Ast.vals, lookupField] at e1 e2 e4 e6
    subst e1 e2 e4 e6
    intro c hc
    apply reached_of_kid
    simp [Ast.children, Ast.vals, c1, c2, c4, c5, c6] at hc
    simp [Instr.kids, progKids_flatMap_nil _ _ (kids_forBind bl)]
    grind
  | _ => cases hn

end SuppModel.Extract

namespace SuppModel.Extract
open SuppModel.Flow

theorem okAnd_elim {α} {x : M α} {p : α → Bool} (h : okAnd x p = true) : ∃ a, x = .ok a ∧ p a = true := by
  unfold okAnd at h
  split at h
  · exact ⟨_, rfl, h⟩
  · cases h

theorem kinds_parts {n : Ast} (hs : shapeHere n = true) :
    ((n.kind == "FunctionDef" || n.kind == "AsyncFunctionDef" || n.kind == "Lambda") = true →
      okAnd (getNode n "args") (fun a => a.kind == "arguments") = true) ∧
    ((n.kind == "Lambda") = true → okAnd (viewArgs n) (fun v => okAnd (optAnnotation v.vararg) List.isEmpty &&
      okAnd (optAnnotation v.kwarg) List.isEmpty) = true) ∧
    ((n.kind == "arguments") = true → okAnd (viewArguments n)
      (fun v => allKind "arg" (v.positional ++ v.kwonly ++ v.vararg.toList ++ v.kwarg.toList)) = true) ∧
    ((n.kind == "Try" || n.kind == "TryExcept") = true → okAnd (getNodeList n "handlers") (allKind "ExceptHandler") = true) ∧
    ((n.kind == "ListComp" || n.kind == "GeneratorExp" || n.kind == "DictComp" || n.kind == "SetComp") = true →
      okAnd (getNodeList n "generators") (allKind "comprehension") = true) ∧
    ((n.kind == "Import" || n.kind == "ImportFrom") = true → okAnd (getNodeList n "names") (allKind "alias") = true ∧
      okAnd (aliasEnds n) (allKind "_AliasEnd") = true) := by
  have h := (shape_parts hs).2.2
  simp only [kindsOK, Bool.and_eq_true] at h
  obtain ⟨⟨⟨⟨⟨⟨h1, h2⟩, h3⟩, h4⟩, h5⟩, h6⟩, h7⟩ := h
  refine ⟨?_, ?_, ?_, ?_, ?_, ?_⟩ <;> intro hk
  · rw [if_pos hk] at h1; exact h1
  · rw [if_pos hk] at h2; exact h2
  · rw [if_pos hk] at h3; exact h3
  · rw [if_pos hk] at h4; exact h4
  · rw [if_pos hk] at h5; exact h5
  · rw [if_pos hk] at h6 h7; exact ⟨h6, h7⟩

/-- the aliases of an import statement hold no read -/
theorem aliases_reached {n : Ast} {prog : Prog} {names : List Ast} (hall : n.all shapeHere = true)
    (hnames : getNodeList n "names" = .ok names) (hk : (n.kind == "Import" || n.kind == "ImportFrom") = true)
    (hs : shapeHere n = true) : ∀ c ∈ names, Reached prog c := by
  intro c hc
  obtain ⟨names', hn', hkind⟩ := okAnd_elim ((kinds_parts hs).2.2.2.2.2 hk).1
  rw [hnames] at hn'; injection hn' with hn'; subst hn'
  have hck := allKind_mem hkind hc
  have hsub := getNodeList_sub hnames c hc
  exact reached_leaf hsub.node (by rw [hck]; decide)
    (leaf_children (child_shape hsub hall) (by rw [hck]; decide))

/-- nor do the nodes carrying the end positions of the aliases -/
theorem aliasEnds_reached {n : Ast} {prog : Prog} {ends : List Ast} (hall : n.all shapeHere = true)
    (hends : getNodeList n "alias_ends" = .ok ends) (hk : (n.kind == "Import" || n.kind == "ImportFrom") = true)
    (hs : shapeHere n = true) : ∀ c ∈ ends, Reached prog c := by
  intro c hc
  obtain ⟨ends', he', hkind⟩ := okAnd_elim ((kinds_parts hs).2.2.2.2.2 hk).2
  have : ends' = ends := by
    unfold aliasEnds optNodeList at he'
    split at he'
    · rw [hends] at he'; injection he' with he'; exact he'.symm
    · rename_i hnone
      simp only [getNodeList, Ast.get, hnone, bind, Except.bind] at hends
      cases hends
  subst this
  have hck := allKind_mem hkind hc
  have hsub := getNodeList_sub hends c hc
  exact reached_leaf hsub.node (by rw [hck]; decide)
    (leaf_children (child_shape hsub hall) (by rw [hck]; decide))

theorem aliasEnds_field {n : Ast} {v : Ast} {ends : List Ast} (hv : n.field? "alias_ends" = some v)
    (h : aliasEnds n = .ok ends) : getNodeList n "alias_ends" = .ok ends := by
  unfold aliasEnds optNodeList at h
  rw [hv] at h
  exact h

theorem compileImport_covers {n prog} (hn : n.isNode = true) (hk : n.kind = "Import") (hall : n.all shapeHere = true)
    (h : compileImport n = .ok prog) : Covers n prog := by
  have hs := shapeHere_of_all hn hall
  obtain ⟨hf, hlen⟩ := shape_fields hs (by rw [hk]; rfl)
  simp only [compileImport, bind_ok_iff] at h
  obtain ⟨loc, _, start, _, names, h3, ends, h4, _⟩ := h
  obtain ⟨w3, e3, c3⟩ := getNodeList_eq h3
  have hr := aliases_reached (prog := prog) hall h3 (by simp [hk]) hs
  apply covers_of_children hn (not_load_of_kind (by rw [hk]; decide))
  cases n with
  | node kd p ns vs =>
    simp only [Ast.fieldNames, Ast.vals] at hf hlen
    subst hf
    rcases vs with _ | ⟨v1, _ | ⟨v2, _ | ⟨v3, vs⟩⟩⟩ <;> simp at hlen
    have h4' := aliasEnds_field (v := v1) (by simp [Ast.field?, Ast.fieldNames, Ast.vals, lookupField]) h4
    obtain ⟨w4, e4, c4⟩ := getNodeList_eq h4'
    have hr2 := aliasEnds_reached (prog := prog) hall h4' (by simp [hk]) hs
    simp [Ast.field?, Ast.fieldNames, Ast.vals, lookupField] at e3 e4
    subst e3 e4
    intro c hc
    simp [Ast.children, Ast.vals, c3, c4] at hc
    rcases hc with hc | hc
    · exact hr2 c hc
    · exact hr c hc
  | _ => cases hn

theorem compileImportFrom_covers {n prog} (hn : n.isNode = true) (hk : n.kind = "ImportFrom") (hall : n.all shapeHere = true)
    (h : compileImportFrom n = .ok prog) : Covers n prog := by
  have hs := shapeHere_of_all hn hall
  obtain ⟨hf, hlen⟩ := shape_fields hs (by rw [hk]; rfl)
  have hsc1 : ∀ v, n.field? "module" = some v → childrenOfVal v = [] :=
    fun v hv => scalar_of_shape hs hk (by simp [scalarFields]) hv
  have hsc2 : ∀ v, n.field? "level" = some v → childrenOfVal v = [] :=
    fun v hv => scalar_of_shape hs hk (by simp [scalarFields]) hv
  simp only [compileImportFrom, bind_ok_iff] at h
  obtain ⟨loc, _, start, _, names, h3, ends, h4, _⟩ := h
  obtain ⟨w3, e3, c3⟩ := getNodeList_eq h3
  have hr := aliases_reached (prog := prog) hall h3 (by simp [hk]) hs
  apply covers_of_children hn (not_load_of_kind (by rw [hk]; decide))
  cases n with
  | node kd p ns vs =>
    simp only [Ast.fieldNames, Ast.vals] at hf hlen
    subst hf
    rcases vs with _ | ⟨v0, _ | ⟨v1, _ | ⟨v2, _ | ⟨v3, _ | ⟨v4, vs⟩⟩⟩⟩⟩ <;> simp at hlen
    have h4' := aliasEnds_field (v := v0) (by simp [Ast.field?, Ast.fieldNames, Ast.vals, lookupField]) h4
    obtain ⟨w4, e4, c4⟩ := getNodeList_eq h4'
    have hr2 := aliasEnds_reached (prog := prog) hall h4' (by simp [hk]) hs
    have c1 := hsc1 v1 (by simp [Ast.field?, Ast.fieldNames, Ast.vals, lookupField])
    have c2 := hsc2 v3 (by simp [Ast.field?, Ast.fieldNames, Ast.vals, lookupField])
    simp [Ast.field?, Ast.fieldNames, Ast.vals, lookupField] at e3 e4
    subst e3 e4
    intro c hc
    simp [Ast.children, Ast.vals, c1, c2, c3, c4] at hc
    rcases hc with hc | hc
    · exact hr2 c hc
    · exact hr c hc
  | _ => cases hn

theorem compileGlobal_covers {n prog} (hn : n.isNode = true) (hk : n.kind = "Global") (hs : shapeHere n = true) :
    Covers n prog := by
  apply covers_of_children hn (not_load_of_kind (by rw [hk]; decide))
  rw [leaf_children hs (by rw [hk]; decide)]
  intro c hc; cases hc

theorem compileNonlocal_covers {n prog} (hn : n.isNode = true) (hk : n.kind = "Nonlocal") (hs : shapeHere n = true) :
    Covers n prog := by
  apply covers_of_children hn (not_load_of_kind (by rw [hk]; decide))
  rw [leaf_children hs (by rw [hk]; decide)]
  intro c hc; cases hc

theorem compileName_covers {n prog} (hn : n.isNode = true) (hk : n.kind = "Name") (hs : shapeHere n = true)
    (h : compileName n = .ok prog) : Covers n prog := by
  intro k hkm
  rw [loads_eq hn, leaf_children hs (by rw [hk]; decide)] at hkm
  simp only [List.flatMap_nil, List.append_nil] at hkm
  left
  split at hkm
  · rename_i hl
    simp only [List.mem_singleton] at hkm; subst hkm
    simp only [isLoadName, Bool.and_eq_true] at hl
    simp only [compileName, bind_ok_iff] at h
    obtain ⟨ctx, hctx, h⟩ := h
    have := get_eq hctx
    rw [this] at hl
    have hl2 := hl.2
    split at hl2
    · rename_i heq
      injection heq with heq; subst heq
      simp only [pure_ok_iff] at h; subst h
      simp [progAttrs, Instr.attrs, readKey]
    · cases hl2
  · cases hkm

end SuppModel.Extract

namespace SuppModel.Extract
open SuppModel.Flow

theorem compileHandlers_mem (hs : List Ast) (r : Nat) {res} (hc : compileHandlers hs r = .ok res) :
    ∀ h ∈ hs, ∃ fh rs ph, compileHandler h fh rs = .ok ph ∧ ∀ x ∈ progKids ph, x ∈ progKids res.1 := by
  induction hs generalizing r res with
  | nil => intro h hh; cases hh
  | cons h0 hs ih =>
    simp only [compileHandlers, bind_ok_iff, pure_ok_iff] at hc
    obtain ⟨a, ha, b, hb, rfl⟩ := hc
    intro h hh
    simp only [List.mem_cons] at hh
    rcases hh with rfl | hh
    · exact ⟨r, r + 1, a, ha, fun x hx => by simp [hx]⟩
    · obtain ⟨fh, rs, ph, h1, h2⟩ := ih (r + 2) hb h hh
      exact ⟨fh, rs, ph, h1, fun x hx => by simp [h2 x hx]⟩

theorem handler_reached {h : Ast} {prog ph : Prog} {fh rs : Nat} (hn : h.isNode = true) (hk : h.kind = "ExceptHandler")
    (hs : shapeHere h = true) (hc : compileHandler h fh rs = .ok ph) (hsub : ∀ x ∈ progKids ph, x ∈ progKids prog) :
    Reached prog h := by
  obtain ⟨hf, hlen⟩ := shape_fields hs (by rw [hk]; rfl)
  simp only [compileHandler, bind_ok_iff, pure_ok_iff] at hc
  obtain ⟨name, h1, hbody, h2, bind, h3, ty, h4, rfl⟩ := hc
  obtain ⟨w1, e1, c1⟩ := getOptStr_eq h1
  obtain ⟨w2, e2, c2⟩ := getNodeList_eq h2
  obtain ⟨w4, e4, c4⟩ := getOptNode_eq h4
  apply reached_of_children hn (by rw [hk]; decide)
  cases h with
  | node kd p ns vs =>
    simp only [Ast.fieldNames, Ast.vals] at hf hlen
    subst hf
    rcases vs with _ | ⟨v1, _ | ⟨v2, _ | ⟨v3, _ | ⟨v4, vs⟩⟩⟩⟩ <;> simp at hlen
    simp [Ast.field?, Ast.fieldNames, Ast.vals, lookupField] at e1 e2 e4
    subst e1 e2 e4
    intro c hc
    apply reached_of_kid
    apply hsub
    simp [Ast.children, Ast.vals, c1, c2, c4] at hc
    simp [Instr.kids, handlerBind_kids h3]
    exact hc
  | _ => cases hn

theorem compileTry_covers {n prog} (hn : n.isNode = true) (hk : n.kind = "Try") (hall : n.all shapeHere = true)
    (h : compileTry n = .ok prog) : Covers n prog := by
  have hs := shapeHere_of_all hn hall
  obtain ⟨hf, hlen⟩ := shape_fields hs (by rw [hk]; rfl)
  simp only [compileTry, bind_ok_iff, pure_ok_iff] at h
  obtain ⟨body, h1, handlers, h2, hp, h3, orelse, h4, fin, h5, rfl⟩ := h
  obtain ⟨w1, e1, c1⟩ := getNodeList_eq h1
  obtain ⟨w2, e2, c2⟩ := getNodeList_eq h2
  obtain ⟨w4, e4, c4⟩ := getNodeList_eq h4
  obtain ⟨handlers', hh', hkind⟩ := okAnd_elim ((kinds_parts hs).2.2.2.1 (by simp [hk]))
  rw [h2] at hh'; injection hh' with hh'; subst hh'
  have hmem := compileHandlers_mem handlers 3 h3
  apply covers_of_children hn (not_load_of_kind (by rw [hk]; decide))
  cases n with
  | node kd p ns vs =>
    simp only [Ast.fieldNames, Ast.vals] at hf hlen
    subst hf
    rcases vs with _ | ⟨v1, _ | ⟨v2, _ | ⟨v3, _ | ⟨v4, _ | ⟨v5, vs⟩⟩⟩⟩⟩ <;> simp at hlen
    -- the finalbody is there
    simp only [finalProg, Ast.field?, Ast.fieldNames, Ast.vals, lookupField] at h5
    simp only [show ("body" = "finalbody") = False from by decide, show ("handlers" = "finalbody") = False from by decide,
      show ("orelse" = "finalbody") = False from by decide, if_false, if_true, bind_ok_iff, pure_ok_iff] at h5
    obtain ⟨fb, h6, rfl⟩ := h5
    obtain ⟨w6, e6, c6⟩ := getNodeList_eq h6
    simp [Ast.field?, Ast.fieldNames, Ast.vals, lookupField] at e1 e2 e4 e6
    subst e1 e2 e4 e6
    intro c hc
    simp [Ast.children, Ast.vals, c1, c2, c4, c6] at hc
    rcases hc with hc | hc | hc | hc
    · apply reached_of_kid; simp [Instr.kids, hc]
    · obtain ⟨fh, rs, ph, hc1, hc2⟩ := hmem c hc
      have hsub := getNodeList_sub h2 c hc
      exact handler_reached hsub.node (allKind_mem hkind hc) (child_shape hsub hall) hc1
        (fun x hx => by simp [hc2 x hx])
    · apply reached_of_kid; simp [Instr.kids, hc]
    · apply reached_of_kid; simp [Instr.kids, hc]
  | _ => cases hn

theorem compileClassDef_covers {n prog} (hn : n.isNode = true) (hk : n.kind = "ClassDef") (hs : shapeHere n = true)
    (ht : noTypeParamsHere n = true) (h : compileClassDef n = .ok prog) : Covers n prog := by
  obtain ⟨hf, hlen⟩ := shape_fields hs (by rw [hk]; rfl)
  simp only [compileClassDef, bind_ok_iff, pure_ok_iff] at h
  obtain ⟨decs, h1, bases, h2, keywords, h3, name, h4, p, h5, body, h6, location, h7, rfl⟩ := h
  obtain ⟨w1, e1, c1⟩ := getNodeList_eq h1
  obtain ⟨w2, e2, c2⟩ := getNodeList_eq h2
  obtain ⟨w4, e4, c4⟩ := getStr_eq h4
  obtain ⟨w6, e6, c6⟩ := getNodeList_eq h6
  simp only [noTypeParamsHere, hk, show ("ClassDef" == "FunctionDef") = false from by decide,
    show ("ClassDef" == "AsyncFunctionDef") = false from by decide, beq_self_eq_true, Bool.or_true, Bool.false_or, if_true] at ht
  apply covers_of_children hn (not_load_of_kind (by rw [hk]; decide))
  cases n with
  | node kd p ns vs =>
    simp only [Ast.fieldNames, Ast.vals] at hf hlen
    subst hf
    rcases vs with _ | ⟨v1, _ | ⟨v2, _ | ⟨v3, _ | ⟨v4, _ | ⟨v5, _ | ⟨v6, _ | ⟨v7, vs⟩⟩⟩⟩⟩⟩⟩ <;> simp at hlen
    obtain ⟨w3, e3, c3⟩ := optNodeList_eq h3 (by simp [Ast.field?, Ast.fieldNames, Ast.vals, lookupField])
    simp [Ast.field?, Ast.fieldNames, Ast.vals, lookupField] at e1 e2 e3 e4 e6 ht
    subst e1 e2 e3 e4 e6
    have c7 : childrenOfVal v6 = [] := by
      split at ht
      · rename_i heq; injection heq with heq; subst heq; rfl
      · rename_i heq; cases heq
      · cases ht
    intro c hc
    apply reached_of_kid
    simp [Ast.children, Ast.vals, c1, c2, c3, c4, c6, c7] at hc
    simp [Instr.kids]
    grind
  | _ => cases hn

end SuppModel.Extract

namespace SuppModel.Extract
open SuppModel.Flow

theorem annotationsOf_mem (l : List Ast) {r} (h : annotationsOf l = .ok r) :
    ∀ a ∈ l, ∃ ann, getOptNode a "annotation" = .ok ann ∧ ∀ x ∈ ann.toList, x ∈ r := by
  induction l generalizing r with
  | nil => intro a ha; cases ha
  | cons a0 l ih =>
    simp only [annotationsOf, bind_ok_iff, pure_ok_iff] at h
    obtain ⟨ann, h1, rest, h2, rfl⟩ := h
    intro a ha
    simp only [List.mem_cons] at ha
    rcases ha with rfl | ha
    · exact ⟨ann, h1, fun x hx => by simp [hx]⟩
    · obtain ⟨ann', h3, h4⟩ := ih h2 a ha
      exact ⟨ann', h3, fun x hx => by simp [h4 x hx]⟩

theorem optAnnotation_mem (o : Option Ast) {r} (h : optAnnotation o = .ok r) :
    ∀ a, o = some a → ∃ ann, getOptNode a "annotation" = .ok ann ∧ ∀ x ∈ ann.toList, x ∈ r := by
  intro a ha
  subst ha
  simp only [optAnnotation, bind_ok_iff, pure_ok_iff] at h
  obtain ⟨ann, h1, rfl⟩ := h
  exact ⟨ann, h1, fun x hx => hx⟩

theorem arg_reached {a : Ast} {prog : Prog} {ann : Option Ast} (hn : a.isNode = true) (hk : a.kind = "arg")
    (hs : shapeHere a = true) (h : getOptNode a "annotation" = .ok ann) (hsub : ∀ x ∈ ann.toList, x ∈ progKids prog) :
    Reached prog a := by
  obtain ⟨hf, hlen⟩ := shape_fields hs (by rw [hk]; rfl)
  have hsc1 : ∀ v, a.field? "arg" = some v → childrenOfVal v = [] :=
    fun v hv => scalar_of_shape hs hk (by simp [scalarFields]) hv
  have hsc2 : ∀ v, a.field? "type_comment" = some v → childrenOfVal v = [] :=
    fun v hv => scalar_of_shape hs hk (by simp [scalarFields]) hv
  obtain ⟨w, e, c2⟩ := getOptNode_eq h
  apply reached_of_children hn (by rw [hk]; decide)
  cases a with
  | node kd p ns vs =>
    simp only [Ast.fieldNames, Ast.vals] at hf hlen
    subst hf
    rcases vs with _ | ⟨v1, _ | ⟨v2, _ | ⟨v3, _ | ⟨v4, vs⟩⟩⟩⟩ <;> simp at hlen
    have c1 := hsc1 v1 (by simp [Ast.field?, Ast.fieldNames, Ast.vals, lookupField])
    have c3 := hsc2 v3 (by simp [Ast.field?, Ast.fieldNames, Ast.vals, lookupField])
    simp [Ast.field?, Ast.fieldNames, Ast.vals, lookupField] at e
    subst e
    intro c hc
    simp [Ast.children, Ast.vals, c1, c2, c3] at hc
    exact reached_of_kid (hsub c (by simpa using hc))
  | _ => cases hn

theorem arguments_reached {an : Ast} {v : ArgsView} {prog : Prog} (hn : an.isNode = true) (hk : an.kind = "arguments")
    (hs : shapeHere an = true) (hv : viewArguments an = .ok v)
    (hd : ∀ x ∈ v.defaults, x ∈ progKids prog) (hkd : ∀ x ∈ v.kwDefaults, x ∈ progKids prog)
    (hargs : ∀ a ∈ v.positional ++ v.kwonly ++ v.vararg.toList ++ v.kwarg.toList, Reached prog a) :
    Reached prog an := by
  obtain ⟨hf, hlen⟩ := shape_fields hs (by rw [hk]; rfl)
  simp only [viewArguments, bind_ok_iff, pure_ok_iff] at hv
  obtain ⟨defaults, h1, kwd, h2, posonly, h3, aa, h4, kwonly, h5, vararg, h6, kwarg, h7, rfl⟩ := hv
  obtain ⟨w1, e1, c1⟩ := getNodeList_eq h1
  obtain ⟨w2, e2, c2⟩ := getOptNodeList_eq h2
  obtain ⟨w4, e4, c4⟩ := getNodeList_eq h4
  obtain ⟨w5, e5, c5⟩ := getNodeList_eq h5
  obtain ⟨w6, e6, c6⟩ := getOptNode_eq h6
  obtain ⟨w7, e7, c7⟩ := getOptNode_eq h7
  apply reached_of_children hn (by rw [hk]; decide)
  cases an with
  | node kd p ns vs =>
    simp only [Ast.fieldNames, Ast.vals] at hf hlen
    subst hf
    rcases vs with _ | ⟨v1, _ | ⟨v2, _ | ⟨v3, _ | ⟨v4, _ | ⟨v5, _ | ⟨v6, _ | ⟨v7, _ | ⟨v8, vs⟩⟩⟩⟩⟩⟩⟩⟩ <;> simp at hlen
    obtain ⟨w3, e3, c3⟩ := optNodeList_eq h3 (by simp [Ast.field?, Ast.fieldNames, Ast.vals, lookupField])
    simp [Ast.field?, Ast.fieldNames, Ast.vals, lookupField] at e1 e2 e3 e4 e5 e6 e7
    subst e1 e2 e3 e4 e5 e6 e7
    intro c hc
    simp [Ast.children, Ast.vals, c1, c2, c3, c4, c5, c6, c7] at hc
    simp only [List.mem_append] at hargs
    rcases hc with hc | hc | hc | hc | hc | hc | hc
    · exact hargs c (Or.inl (Or.inl (Or.inl (Or.inl hc))))
    · exact hargs c (Or.inl (Or.inl (Or.inl (Or.inr hc))))
    · exact hargs c (Or.inl (Or.inr (by simpa using hc)))
    · exact hargs c (Or.inl (Or.inl (Or.inr hc)))
    · exact reached_of_kid (hkd c hc)
    · exact hargs c (Or.inr (by simpa using hc))
    · exact reached_of_kid (hd c hc)
  | _ => cases hn

end SuppModel.Extract

namespace SuppModel.Extract
open SuppModel.Flow

/-- the `arguments` node of a def / lambda is reached when defaults and annotations are visited -/
theorem args_node_reached {n an : Ast} {v : ArgsView} {prog : Prog} (hall : n.all shapeHere = true)
    (h0 : getNode n "args" = .ok an) (hak : an.kind = "arguments") (hva : viewArguments an = .ok v)
    (hd : ∀ x ∈ v.defaults, x ∈ progKids prog) (hkd : ∀ x ∈ v.kwDefaults, x ∈ progKids prog)
    (hann : ∀ a ∈ v.positional ++ v.kwonly ++ v.vararg.toList ++ v.kwarg.toList,
      ∃ ann, getOptNode a "annotation" = .ok ann ∧ ∀ x ∈ ann.toList, x ∈ progKids prog) :
    Reached prog an := by
  have hsub := getNode_sub h0
  have hsa := child_shape hsub hall
  obtain ⟨v', hv', hkind⟩ := okAnd_elim ((kinds_parts hsa).2.2.1 (by simp [hak]))
  rw [hva] at hv'; injection hv' with hv'; subst hv'
  have hvs := viewArguments_sub hva
  apply arguments_reached hsub.node hak hsa hva hd hkd
  intro a ha
  have hka := allKind_mem hkind ha
  have hsuba : Sub a an := by
    simp only [List.mem_append, Option.mem_toList] at ha
    rcases ha with ((ha | ha) | ha) | ha
    · exact hvs.positional a ha
    · exact hvs.kwonly a ha
    · exact hvs.vararg a ha
    · exact hvs.kwarg a ha
  obtain ⟨ann, h1, h2⟩ := hann a ha
  exact arg_reached hsuba.node hka (child_shape (hsuba.trans hsub.inside) hall) h1 h2

theorem compileFunctionDef_covers {n prog} (hn : n.isNode = true)
    (hk : n.kind = "FunctionDef" ∨ n.kind = "AsyncFunctionDef") (hall : n.all shapeHere = true)
    (ht : noTypeParamsHere n = true) (h : compileFunctionDef n = .ok prog) : Covers n prog := by
  have hs := shapeHere_of_all hn hall
  obtain ⟨hf, hlen⟩ := shape_fields (fs := ["name", "args", "body", "decorator_list", "returns", "type_comment", "type_params"]) hs
    (by rcases hk with hk | hk <;> (rw [hk]; rfl))
  have hsc : ∀ v, n.field? "type_comment" = some v → childrenOfVal v = [] := by
    intro v hv
    rcases hk with hk | hk
    · exact scalar_of_shape hs hk (by simp [scalarFields]) hv
    · exact scalar_of_shape hs hk (by simp [scalarFields]) hv
  have htp : ∀ v, n.field? "type_params" = some v → childrenOfVal v = [] := by
    intro v hv
    have hkk : (n.kind == "FunctionDef" || n.kind == "AsyncFunctionDef" || n.kind == "ClassDef") = true := by
      rcases hk with hk | hk <;> simp [hk]
    simp only [noTypeParamsHere, hkk, if_true, hv] at ht
    split at ht
    · rename_i heq; injection heq with heq; subst heq; rfl
    · rename_i heq; cases heq
    · cases ht
  simp only [compileFunctionDef, bind_ok_iff, pure_ok_iff] at h
  obtain ⟨decs, h1, v, hv, a1, ha1, a2, ha2, a3, ha3, a4, ha4, returns, h2, name, h3, p, h4, body, h5,
    location, h6, args, h7, hprog⟩ := h
  have hkids : progKids prog = decs ++ v.defaults ++ v.kwDefaults ++ a1 ++ a2 ++ a3 ++ a4 ++ returns.toList ++ body := by
    subst hprog; simp [Instr.kids]
  clear hprog
  simp only [viewArgs, bind_ok_iff] at hv
  obtain ⟨an, h0, hva⟩ := hv
  obtain ⟨an', han', hak⟩ := okAnd_elim ((kinds_parts hs).1 (by rcases hk with hk | hk <;> simp [hk]))
  rw [h0] at han'; injection han' with han'; subst han'
  simp only [beq_iff_eq] at hak
  have hreach : Reached prog an := by
    apply args_node_reached hall h0 hak hva
    · intro x hx; simp [hkids, hx]
    · intro x hx; simp [hkids, hx]
    · intro a ha
      simp only [List.mem_append, Option.mem_toList] at ha
      rcases ha with ((ha | ha) | ha) | ha
      · obtain ⟨ann, e1, e2⟩ := annotationsOf_mem _ ha1 a ha
        exact ⟨ann, e1, fun x hx => by simp [hkids, e2 x hx]⟩
      · obtain ⟨ann, e1, e2⟩ := annotationsOf_mem _ ha2 a ha
        exact ⟨ann, e1, fun x hx => by simp [hkids, e2 x hx]⟩
      · obtain ⟨ann, e1, e2⟩ := optAnnotation_mem _ ha3 a ha
        exact ⟨ann, e1, fun x hx => by simp [hkids, e2 x hx]⟩
      · obtain ⟨ann, e1, e2⟩ := optAnnotation_mem _ ha4 a ha
        exact ⟨ann, e1, fun x hx => by simp [hkids, e2 x hx]⟩
  obtain ⟨e0, c0⟩ := getNode_eq h0
  obtain ⟨w1, e1, c1⟩ := getNodeList_eq h1
  obtain ⟨w2, e2, c2⟩ := getOptNode_eq h2
  obtain ⟨w3, e3, c3⟩ := getStr_eq h3
  obtain ⟨w5, e5, c5⟩ := getNodeList_eq h5
  apply covers_of_children hn (not_load_of_kind (by rcases hk with hk | hk <;> (rw [hk]; decide)))
  cases n with
  | node kd p ns vs =>
    simp only [Ast.fieldNames, Ast.vals] at hf hlen
    subst hf
    rcases vs with _ | ⟨v1, _ | ⟨v2, _ | ⟨v3, _ | ⟨v4, _ | ⟨v5, _ | ⟨v6, _ | ⟨v7, _ | ⟨v8, vs⟩⟩⟩⟩⟩⟩⟩⟩ <;> simp at hlen
    have c6 := hsc v6 (by simp [Ast.field?, Ast.fieldNames, Ast.vals, lookupField])
    have c7 := htp v7 (by simp [Ast.field?, Ast.fieldNames, Ast.vals, lookupField])
    simp [Ast.field?, Ast.fieldNames, Ast.vals, lookupField] at e0 e1 e2 e3 e5
    subst e0 e1 e2 e3 e5
    intro c hc
    simp [Ast.children, Ast.vals, c0, c1, c2, c3, c5, c6, c7] at hc
    rcases hc with hc | hc | hc | hc
    · subst hc; exact hreach
    · apply reached_of_kid; simp [hkids, hc]
    · apply reached_of_kid; simp [hkids, hc]
    · apply reached_of_kid; simp [hkids, hc]
  | _ => cases hn

end SuppModel.Extract

namespace SuppModel.Extract
open SuppModel.Flow

theorem compileLambda_covers {n prog} (hn : n.isNode = true) (hk : n.kind = "Lambda") (hall : n.all shapeHere = true)
    (h : compileLambda n = .ok prog) : Covers n prog := by
  have hs := shapeHere_of_all hn hall
  obtain ⟨hf, hlen⟩ := shape_fields hs (by rw [hk]; rfl)
  simp only [compileLambda, bind_ok_iff, pure_ok_iff] at h
  obtain ⟨v, hv, a1, ha1, a2, ha2, body, h1, location, h2, p, h3, args, h4, hprog⟩ := h
  have hkids : progKids prog = v.defaults ++ v.kwDefaults ++ a1 ++ a2 ++ [body] := by
    subst hprog; simp [Instr.kids]
  clear hprog
  obtain ⟨v', hv', hnoann⟩ := okAnd_elim ((kinds_parts hs).2.1 (by simp [hk]))
  rw [hv] at hv'; injection hv' with hv'; subst hv'
  simp only [Bool.and_eq_true] at hnoann
  obtain ⟨r3, hr3, he3⟩ := okAnd_elim hnoann.1
  obtain ⟨r4, hr4, he4⟩ := okAnd_elim hnoann.2
  simp only [List.isEmpty_iff] at he3 he4
  subst he3 he4
  simp only [viewArgs, bind_ok_iff] at hv
  obtain ⟨an, h0, hva⟩ := hv
  obtain ⟨an', han', hak⟩ := okAnd_elim ((kinds_parts hs).1 (by simp [hk]))
  rw [h0] at han'; injection han' with han'; subst han'
  simp only [beq_iff_eq] at hak
  have hreach : Reached prog an := by
    apply args_node_reached hall h0 hak hva
    · intro x hx; simp [hkids, hx]
    · intro x hx; simp [hkids, hx]
    · intro a ha
      simp only [List.mem_append, Option.mem_toList] at ha
      rcases ha with ((ha | ha) | ha) | ha
      · obtain ⟨ann, e1, e2⟩ := annotationsOf_mem _ ha1 a ha
        exact ⟨ann, e1, fun x hx => by simp [hkids, e2 x hx]⟩
      · obtain ⟨ann, e1, e2⟩ := annotationsOf_mem _ ha2 a ha
        exact ⟨ann, e1, fun x hx => by simp [hkids, e2 x hx]⟩
      · obtain ⟨ann, e1, e2⟩ := optAnnotation_mem _ hr3 a ha
        exact ⟨ann, e1, fun x hx => by cases e2 x hx⟩
      · obtain ⟨ann, e1, e2⟩ := optAnnotation_mem _ hr4 a ha
        exact ⟨ann, e1, fun x hx => by cases e2 x hx⟩
  obtain ⟨e0, c0⟩ := getNode_eq h0
  obtain ⟨e1, c1⟩ := getNode_eq h1
  apply covers_of_children hn (not_load_of_kind (by rw [hk]; decide))
  cases n with
  | node kd p ns vs =>
    simp only [Ast.fieldNames, Ast.vals] at hf hlen
    subst hf
    rcases vs with _ | ⟨v1, _ | ⟨v2, _ | ⟨v3, vs⟩⟩⟩ <;> simp at hlen
    simp [Ast.field?, Ast.fieldNames, Ast.vals, lookupField] at e0 e1
    subst e0 e1
    intro c hc
    simp [Ast.children, Ast.vals, c0, c1] at hc
    rcases hc with hc | hc
    · subst hc; exact hreach
    · apply reached_of_kid; simp [hkids, hc]
  | _ => cases hn

theorem compileGenerators_mem (cp : Option Pos) (gs : List Ast) (i : Nat) {prog} (h : compileGenerators cp gs i = .ok prog) :
    ∀ g ∈ gs, ∃ iter iterL target ifs, g.get "iter" = .ok iter ∧ single iter = .ok iterL ∧
      getNode g "target" = .ok target ∧ getNodeList g "ifs" = .ok ifs ∧
      ∀ x ∈ iterL ++ target :: ifs, x ∈ progKids prog := by
  induction gs generalizing i prog with
  | nil => intro g hg; cases hg
  | cons g0 gs ih =>
    simp only [compileGenerators, bind_ok_iff, pure_ok_iff] at h
    obtain ⟨iter, h1, iterL, h2, target, h3, ts, h4, binds, h5, ifs, h6, rest, h7, rfl⟩ := h
    intro g hg
    simp only [List.mem_cons] at hg
    rcases hg with rfl | hg
    · refine ⟨iter, iterL, target, ifs, h1, h2, h3, h6, ?_⟩
      intro x hx
      simp only [List.mem_append, List.mem_cons] at hx
      simp [Instr.kids, compBinds_kids _ _ _ h5, kids_ifs]
      grind
    · obtain ⟨a, b, c, d, e1, e2, e3, e4, e5⟩ := ih (i + 1) h7 g hg
      exact ⟨a, b, c, d, e1, e2, e3, e4, fun x hx => by simp [e5 x hx]⟩

theorem generator_reached {g : Ast} {prog : Prog} {iter target : Ast} {iterL ifs : List Ast}
    (hn : g.isNode = true) (hk : g.kind = "comprehension") (hs : shapeHere g = true)
    (h1 : g.get "iter" = .ok iter) (h2 : single iter = .ok iterL) (h3 : getNode g "target" = .ok target)
    (h4 : getNodeList g "ifs" = .ok ifs) (hsub : ∀ x ∈ iterL ++ target :: ifs, x ∈ progKids prog) :
    Reached prog g := by
  obtain ⟨hf, hlen⟩ := shape_fields hs (by rw [hk]; rfl)
  have hsc : ∀ v, g.field? "is_async" = some v → childrenOfVal v = [] :=
    fun v hv => scalar_of_shape hs hk (by simp [scalarFields]) hv
  have e1 := get_eq h1
  have c1 := single_eq h2
  obtain ⟨e3, c3⟩ := getNode_eq h3
  obtain ⟨w4, e4, c4⟩ := getNodeList_eq h4
  apply reached_of_children hn (by rw [hk]; decide)
  cases g with
  | node kd p ns vs =>
    simp only [Ast.fieldNames, Ast.vals] at hf hlen
    subst hf
    rcases vs with _ | ⟨v1, _ | ⟨v2, _ | ⟨v3, _ | ⟨v4, _ | ⟨v5, vs⟩⟩⟩⟩⟩ <;> simp at hlen
    have c5 := hsc v4 (by simp [Ast.field?, Ast.fieldNames, Ast.vals, lookupField])
    simp [Ast.field?, Ast.fieldNames, Ast.vals, lookupField] at e1 e3 e4
    subst e1 e3 e4
    intro c hc
    apply reached_of_kid
    apply hsub
    simp [Ast.children, Ast.vals, c1, c3, c4, c5] at hc
    simp only [List.mem_append, List.mem_cons]
    grind
  | _ => cases hn

theorem generators_reached {n : Ast} {prog gprog : Prog} {gens : List Ast} (hall : n.all shapeHere = true)
    (hs : shapeHere n = true)
    (hk : (n.kind == "ListComp" || n.kind == "GeneratorExp" || n.kind == "DictComp" || n.kind == "SetComp") = true)
    (h1 : getNodeList n "generators" = .ok gens) (h2 : compileGenerators n.pos? gens 0 = .ok gprog)
    (hsub : ∀ x ∈ progKids gprog, x ∈ progKids prog) : ∀ g ∈ gens, Reached prog g := by
  intro g hg
  obtain ⟨gens', hg', hkind⟩ := okAnd_elim ((kinds_parts hs).2.2.2.2.1 hk)
  rw [h1] at hg'; injection hg' with hg'; subst hg'
  obtain ⟨iter, iterL, target, ifs, e1, e2, e3, e4, e5⟩ := compileGenerators_mem _ _ _ h2 g hg
  have hsubg := getNodeList_sub h1 g hg
  exact generator_reached hsubg.node (allKind_mem hkind hg) (child_shape hsubg hall) e1 e2 e3 e4
    (fun x hx => hsub x (e5 x hx))

theorem compileComp_covers_elt {n prog} (hn : n.isNode = true)
    (hk : n.kind = "ListComp" ∨ n.kind = "GeneratorExp" ∨ n.kind = "SetComp") (hall : n.all shapeHere = true)
    (h : compileComp n = .ok prog) : Covers n prog := by
  have hs := shapeHere_of_all hn hall
  obtain ⟨hf, hlen⟩ := shape_fields (fs := ["elt", "generators"]) hs
    (by rcases hk with hk | hk | hk <;> (rw [hk]; rfl))
  simp only [compileComp, bind_ok_iff, pure_ok_iff] at h
  obtain ⟨gens, h1, gprog, h2, elt, h3, eltL, h4, kprog, h5, hprog⟩ := h
  have hkids : progKids prog = progKids gprog ++ eltL ++ progKids kprog := by
    subst hprog; simp [Instr.kids]
  clear hprog
  have hg := generators_reached (prog := prog) hall hs (by rcases hk with hk | hk | hk <;> simp [hk]) h1 h2
    (fun x hx => by simp [hkids, hx])
  obtain ⟨w1, e1, c1⟩ := getNodeList_eq h1
  have c4 := single_eq h4
  apply covers_of_children hn (not_load_of_kind (by rcases hk with hk | hk | hk <;> (rw [hk]; decide)))
  cases n with
  | node kd p ns vs =>
    simp only [Ast.fieldNames, Ast.vals] at hf hlen
    subst hf
    rcases vs with _ | ⟨v1, _ | ⟨v2, _ | ⟨v3, vs⟩⟩⟩ <;> simp at hlen
    simp [Ast.field?, Ast.fieldNames, Ast.vals, lookupField] at e1
    subst e1
    have helt : elt = v1 := by
      simp only [eltOf, Ast.field?, Ast.fieldNames, Ast.vals, lookupField, if_true] at h3
      split at h3
      · rename_i heq
        injection heq with heq; subst heq
        simp only [pure_ok_iff] at h3; exact h3.symm
      · simp [Ast.get, Ast.field?, Ast.fieldNames, Ast.vals, lookupField] at h3
    subst helt
    intro c hc
    simp [Ast.children, Ast.vals, c1, c4] at hc
    rcases hc with hc | hc
    · apply reached_of_kid; simp [hkids, hc]
    · exact hg c hc
  | _ => cases hn

theorem compileComp_covers_dict {n prog} (hn : n.isNode = true) (hk : n.kind = "DictComp") (hall : n.all shapeHere = true)
    (h : compileComp n = .ok prog) : Covers n prog := by
  have hs := shapeHere_of_all hn hall
  obtain ⟨hf, hlen⟩ := shape_fields hs (by rw [hk]; rfl)
  simp only [compileComp, bind_ok_iff, pure_ok_iff] at h
  obtain ⟨gens, h1, gprog, h2, elt, h3, eltL, h4, kprog, h5, hprog⟩ := h
  have hkids : progKids prog = progKids gprog ++ eltL ++ progKids kprog := by
    subst hprog; simp [Instr.kids]
  clear hprog
  have hg := generators_reached (prog := prog) hall hs (by simp [hk]) h1 h2
    (fun x hx => by simp [hkids, hx])
  obtain ⟨w1, e1, c1⟩ := getNodeList_eq h1
  have c4 := single_eq h4
  apply covers_of_children hn (not_load_of_kind (by rw [hk]; decide))
  cases n with
  | node kd p ns vs =>
    simp only [Ast.fieldNames, Ast.vals] at hf hlen
    subst hf
    rcases vs with _ | ⟨v1, _ | ⟨v2, _ | ⟨v3, _ | ⟨v4, vs⟩⟩⟩⟩ <;> simp at hlen
    simp [Ast.field?, Ast.fieldNames, Ast.vals, lookupField] at e1
    subst e1
    have helt : elt = v2 := by
      simp [eltOf, Ast.get, Ast.field?, Ast.fieldNames, Ast.vals, lookupField] at h3
      exact h3.symm
    subst helt
    simp only [keyProg, Ast.field?, Ast.fieldNames, Ast.vals, lookupField, if_true, bind_ok_iff, pure_ok_iff] at h5
    obtain ⟨keyL, h6, rfl⟩ := h5
    have c6 := single_eq h6
    intro c hc
    simp [Ast.children, Ast.vals, c1, c4, c6] at hc
    rcases hc with hc | hc | hc
    · apply reached_of_kid; simp [hkids, Instr.kids, hc]
    · apply reached_of_kid; simp [hkids, hc]
    · exact hg c hc
  | _ => cases hn

end SuppModel.Extract

namespace SuppModel.Extract
open SuppModel.Flow

theorem not_tryExcept {n : Ast} (hs : shapeHere n = true) : n.kind ≠ "TryExcept" := by
  simp only [shapeHere, Bool.and_eq_true, bne_iff_ne] at hs
  exact hs.2

/-- COVERAGE of one visit: every read below the node is marked by the visit method or lies below a node it visits -/
theorem compile_covers {n prog} (hn : n.isNode = true) (hall : n.all shapeHere = true)
    (ht : noTypeParamsHere n = true) (h : compile n = .ok prog) : Covers n prog := by
  have hs := shapeHere_of_all hn hall
  unfold compile at h
  split at h
  · rename_i hk
    simp only [compileAssign, bind_ok_iff, pure_ok_iff] at h
    obtain ⟨_, _, _, _, _, _, _, _, rfl⟩ := h
    exact covers_generic hn (by rw [hk]; decide) _
  · rename_i hk
    simp only [compileAnnAssign, bind_ok_iff, pure_ok_iff] at h
    obtain ⟨_, _, _, _, _, _, _, _, rfl⟩ := h
    exact covers_generic hn (by rw [hk]; decide) _
  · rename_i hk; exact compileIf_covers hn hk hs h
  · rename_i hk; exact compileFor_covers hn (Or.inl hk) hs h
  · rename_i hk; exact compileFor_covers hn (Or.inr hk) hs h
  · rename_i hk; exact compileWhile_covers hn hk hs h
  · rename_i hk; exact compileImport_covers hn hk hall h
  · rename_i hk; exact compileImportFrom_covers hn hk hall h
  · rename_i hk; exact absurd hk (not_tryExcept hs)
  · rename_i hk; exact compileTry_covers hn hk hall h
  · rename_i hk; exact compileFunctionDef_covers hn (Or.inl hk) hall ht h
  · rename_i hk; exact compileFunctionDef_covers hn (Or.inr hk) hall ht h
  · rename_i hk; exact compileLambda_covers hn hk hall h
  · rename_i hk; exact compileClassDef_covers hn hk hs ht h
  · rename_i hk
    simp only [compileReturn, pure_ok_iff] at h
    subst h
    exact covers_generic hn (by rw [hk]; decide) [Instr.addReturn]
  · rename_i hk; exact compileComp_covers_elt hn (Or.inl hk) hall h
  · rename_i hk; exact compileComp_covers_elt hn (Or.inr (Or.inl hk)) hall h
  · rename_i hk; exact compileComp_covers_dict hn hk hall h
  · rename_i hk; exact compileComp_covers_elt hn (Or.inr (Or.inr hk)) hall h
  · rename_i hk
    simp only [compileWith, bind_ok_iff, pure_ok_iff] at h
    obtain ⟨_, _, _, _, rfl⟩ := h
    exact covers_generic hn (by rw [hk]; decide) _
  · rename_i hk
    simp only [compileWith, bind_ok_iff, pure_ok_iff] at h
    obtain ⟨_, _, _, _, rfl⟩ := h
    exact covers_generic hn (by rw [hk]; decide) _
  · rename_i hk; exact compileGlobal_covers hn hk hs
  · rename_i hk; exact compileNonlocal_covers hn hk hs
  · rename_i hk; exact compileName_covers hn hk hs h
  · rename_i hk
    simp only [compileNamedExpr, bind_ok_iff, pure_ok_iff] at h
    obtain ⟨_, _, _, _, _, _, _, _, _, _, rfl⟩ := h
    exact covers_generic hn (by rw [hk]; decide) _
  · simp only [pure_ok_iff] at h
    subst h
    have hne : n.kind ≠ "Name" := by assumption
    exact covers_generic hn hne []

/-! ### what `exec` marks and visits -/

@[simp] theorem progAttrs_nil : progAttrs [] = [] := rfl
@[simp] theorem progAttrs_cons (i : Instr) (p : Prog) : progAttrs (i :: p) = i.attrs ++ progAttrs p := by
  simp [progAttrs]

section
variable {rec : Rec}
  (hmono : ∀ (k : Option Pos × String) c st st', rec c st = .ok st' → st.hasFlow k → st'.hasFlow k)
include hmono

theorem visitAll_mono (k : Option Pos × String) (cs : List Ast) :
    ∀ st st', visitAll rec cs st = .ok st' → st.hasFlow k → st'.hasFlow k :=
  visitAll_preserves (P := fun st => st.hasFlow k) (fun c st st' h hp => hmono k c st st' h hp) cs

theorem visitAll_covers (cs : List Ast)
    (hcov : ∀ c ∈ cs, ∀ st1 st2, rec c st1 = .ok st2 → ∀ k ∈ loads c, st2.hasFlow k) :
    ∀ st st', visitAll rec cs st = .ok st' → ∀ c ∈ cs, ∀ k ∈ loads c, st'.hasFlow k := by
  induction cs with
  | nil => intro st st' _ c hc; cases hc
  | cons c0 cs ih =>
    intro st st' h c hc k hk
    simp only [visitAll, bind_ok_iff] at h
    obtain ⟨st1, h1, h2⟩ := h
    simp only [List.mem_cons] at hc
    rcases hc with rfl | hc
    · exact visitAll_mono hmono k cs st1 st' h2 (hcov c List.mem_cons_self st st1 h1 k hk)
    · exact ih (fun c hc => hcov c (List.mem_cons_of_mem _ hc)) st1 st' h2 c hc k hk

theorem visitInFlow_covers (cs : List Ast) (f : Nat)
    (hcov : ∀ c ∈ cs, ∀ st1 st2, rec c st1 = .ok st2 → ∀ k ∈ loads c, st2.hasFlow k) :
    ∀ st r, visitInFlow rec cs f st = .ok r → ∀ c ∈ cs, ∀ k ∈ loads c, r.1.hasFlow k := by
  intro st r h c hc k hk
  simp only [visitInFlow, bind_ok_iff, pure_ok_iff] at h
  obtain ⟨st1, h1, rfl⟩ := h
  exact visitAll_covers hmono cs hcov _ st1 h1 c hc k hk

theorem execInstr_covers (lines : List Text.Str) (i : Instr)
    (hcov : ∀ c ∈ i.kids, ∀ st1 st2, rec c st1 = .ok st2 → ∀ k ∈ loads c, st2.hasFlow k) :
    ∀ env st r, execInstr lines rec i env st = .ok r →
      (∀ k ∈ i.attrs, r.2.hasFlow k) ∧ (∀ c ∈ i.kids, ∀ k ∈ loads c, r.2.hasFlow k) := by
  intro env st r h
  cases i with
  | visit c =>
    simp only [execInstr, bind_ok_iff, pure_ok_iff] at h
    obtain ⟨st1, h1, rfl⟩ := h
    refine ⟨fun k hk => (by cases hk), ?_⟩
    intro c' hc' k hk
    simp only [Instr.kids, List.mem_singleton] at hc'; subst hc'
    exact hcov c' (by simp [Instr.kids]) st st1 h1 k hk
  | visitIn cs f dst =>
    simp only [execInstr, bind_ok_iff, pure_ok_iff] at h
    obtain ⟨r1, h1, rfl⟩ := h
    exact ⟨fun k hk => (by cases hk), visitInFlow_covers hmono cs _ hcov st r1 h1⟩
  | scopeBody kind self register args body =>
    simp only [execInstr, bind_ok_iff, pure_ok_iff] at h
    obtain ⟨r1, h1, rfl⟩ := h
    exact ⟨fun k hk => (by cases hk), visitInFlow_covers hmono body _ hcov _ r1 h1⟩
  | flowAttr p id f =>
    simp only [execInstr, pure_ok_iff] at h; subst h
    refine ⟨?_, fun c hc => by cases hc⟩
    intro k hk
    simp only [Instr.attrs, List.mem_singleton] at hk; subst hk
    exact ⟨_, List.mem_cons_self⟩
  | saveCur d => simp only [execInstr, pure_ok_iff] at h; subst h; exact ⟨fun k hk => (by cases hk), fun c hc => (by cases hc)⟩
  | setCur s => simp only [execInstr, pure_ok_iff] at h; subst h; exact ⟨fun k hk => (by cases hk), fun c hc => (by cases hc)⟩
  | makeFlow d ps => simp only [execInstr, pure_ok_iff] at h; subst h; exact ⟨fun k hk => (by cases hk), fun c hc => (by cases hc)⟩
  | setFinal => simp only [execInstr, pure_ok_iff] at h; subst h; exact ⟨fun k hk => (by cases hk), fun c hc => (by cases hc)⟩
  | loop a b => simp only [execInstr, pure_ok_iff] at h; subst h; exact ⟨fun k hk => (by cases hk), fun c hc => (by cases hc)⟩
  | addName f b => simp only [execInstr, pure_ok_iff] at h; subst h; exact ⟨fun k hk => (by cases hk), fun c hc => (by cases hc)⟩
  | compName f b => simp only [execInstr, pure_ok_iff] at h; subst h; exact ⟨fun k hk => (by cases hk), fun c hc => (by cases hc)⟩
  | attrAssign p => simp only [execInstr, pure_ok_iff] at h; subst h; exact ⟨fun k hk => (by cases hk), fun c hc => (by cases hc)⟩
  | globalDecl ns => simp only [execInstr, pure_ok_iff] at h; subst h; exact ⟨fun k hk => (by cases hk), fun c hc => (by cases hc)⟩
  | nonlocalDecl ns => simp only [execInstr, pure_ok_iff] at h; subst h; exact ⟨fun k hk => (by cases hk), fun c hc => (by cases hc)⟩
  | addReturn => simp only [execInstr, pure_ok_iff] at h; subst h; exact ⟨fun k hk => (by cases hk), fun c hc => (by cases hc)⟩
  | addImport x => simp only [execInstr, pure_ok_iff] at h; subst h; exact ⟨fun k hk => (by cases hk), fun c hc => (by cases hc)⟩
  | addStar a b c => simp only [execInstr, pure_ok_iff] at h; subst h; exact ⟨fun k hk => (by cases hk), fun c hc => (by cases hc)⟩

theorem exec_covers (lines : List Text.Str) (prog : Prog) :
    ∀ env st st', exec lines rec prog env st = .ok st' →
      (∀ c ∈ progKids prog, ∀ st1 st2, rec c st1 = .ok st2 → ∀ k ∈ loads c, st2.hasFlow k) →
      (∀ k ∈ progAttrs prog, st'.hasFlow k) ∧ (∀ c ∈ progKids prog, ∀ k ∈ loads c, st'.hasFlow k) := by
  induction prog with
  | nil => intro env st st' _ _; exact ⟨fun k hk => (by cases hk), fun c hc => (by cases hc)⟩
  | cons i is ih =>
    intro env st st' h hcov
    simp only [exec, bind_ok_iff] at h
    obtain ⟨r, h1, h2⟩ := h
    obtain ⟨ha, hk⟩ := execInstr_covers hmono lines i (fun c hc => hcov c (by simp [hc])) env st r h1
    obtain ⟨ha', hk'⟩ := ih r.1 r.2 st' h2 (fun c hc => hcov c (by simp [hc]))
    have hkeep : ∀ k, r.2.hasFlow k → st'.hasFlow k := fun k hp =>
      exec_preserves (hasFlow_preserved k) lines (fun c st st' h hp => hmono k c st st' h hp) is r.1 r.2 st' h2 hp
    constructor
    · intro k hkm
      simp only [progAttrs_cons, List.mem_append] at hkm
      rcases hkm with hkm | hkm
      · exact hkeep k (ha k hkm)
      · exact ha' k hkm
    · intro c hc k hkm
      simp only [progKids_cons, List.mem_append] at hc
      rcases hc with hc | hc
      · exact hkeep k (hk c hc k hkm)
      · exact hk' c hc k hkm
end

theorem visit_covers (lines : List Text.Str) :
    ∀ fuel n, n.isNode = true → n.all shapeHere = true → n.all noTypeParamsHere = true →
      ∀ st st', visit lines fuel n st = .ok st' → ∀ k ∈ loads n, st'.hasFlow k := by
  intro fuel
  induction fuel with
  | zero => intro n _ _ _ st st' h; cases h
  | succ fuel ih =>
    intro n hn hall ht st st' h k hk
    simp only [visit, step, hn, if_true, bind_ok_iff] at h
    obtain ⟨prog, hp, he⟩ := h
    have hmono : ∀ (k : Option Pos × String) c st st', visit lines fuel c st = .ok st' → st.hasFlow k → st'.hasFlow k :=
      fun k => visit_preserves (hasFlow_preserved k) lines fuel
    have hcov := exec_covers hmono lines prog [] st st' he (by
      intro c hc st1 st2 h12
      have hsub := compile_kids_sub hp c hc
      exact ih c hsub.node (hsub.inside.all _ hall) (hsub.inside.all _ ht) st1 st2 h12)
    have htn : noTypeParamsHere n = true := by
      cases n with
      | node kd p ns vs => simp only [Ast.all, Bool.and_eq_true] at ht; exact ht.1
      | _ => cases hn
    rcases compile_covers hn hall htn hp k hk with h1 | ⟨c, hc, h2⟩
    · exact hcov.1 k h1
    · exact hcov.2 c hc k h2

theorem extract_loads' (lines : List Text.Str) (mods : List (String × List String)) (t : Ast) (st : St)
    (hw : wellShaped t = true) (ht : noTypeParams t = true) (h : extract lines mods t = .ok st) :
    ∀ k ∈ loads t, st.hasFlow k := by
  simp only [wellShaped, Bool.and_eq_true, bne_iff_ne] at hw
  obtain ⟨⟨hn, hroot⟩, hall⟩ := hw
  simp only [extract, hn, if_true, bind_ok_iff, pure_ok_iff] at h
  obtain ⟨st1, h1, rfl⟩ := h
  intro k hk
  apply resolveStars_preserves (hasFlow_preserved k)
  have hmono : ∀ (k : Option Pos × String) c st st', visit lines t.size c st = .ok st' → st.hasFlow k → st'.hasFlow k :=
    fun k => visit_preserves (hasFlow_preserved k) lines t.size
  have hcov := exec_covers hmono lines (generic t) [] St.init st1 h1 (by
    intro c hc st1 st2 h12
    rw [progKids_generic] at hc
    have hsub := children_sub c hc
    exact visit_covers lines t.size c hsub.node (hsub.inside.all _ hall) (hsub.inside.all _ ht) st1 st2 h12)
  rw [loads_eq hn, not_load_of_kind hroot] at hk
  simp only [Bool.false_eq_true, if_false, List.nil_append, List.mem_flatMap] at hk
  obtain ⟨c, hc, hk⟩ := hk
  exact hcov.2 c (by rw [progKids_generic]; exact hc) k hk

end SuppModel.Extract
