/-
  Extract family — `compile` commutes with a transformation satisfying `TLaws`: one lemma per visit method, part 1.
-/
import SuppModel.Extract.LemmasTrans2

namespace SuppModel.Extract
open SuppModel.Flow

theorem mapK_of_nokids (T : Ast → Ast) : ∀ (i : Instr), i.kids = [] → Instr.mapK T i = i := by
  intro i h
  cases i <;> simp_all [Instr.kids, Instr.mapK, Instr.mapKR]

theorem map_mapK_nokids (T : Ast → Ast) : ∀ (prog : Prog), progKids prog = [] → prog.map (Instr.mapK T) = prog := by
  intro prog
  induction prog with
  | nil => intro _; rfl
  | cons i is ih =>
    intro h
    simp only [progKids_cons, List.append_eq_nil_iff] at h
    simp [mapK_of_nokids T i h.1, ih h.2]

theorem TgtOK.name {okPos : Pos → Prop} {prog : Prog} (h : TgtOK okPos prog) {f : FlowRef} {id : String} {loc q : Pos}
    (hm : Instr.addName f (assigned id loc q) ∈ prog) : okPos q :=
  h _ hm _ rfl rfl

theorem TgtOK.comp {okPos : Pos → Prop} {prog : Prog} (h : TgtOK okPos prog) {f : Nat} {id : String} {loc q : Pos}
    (hm : Instr.compName f (assigned id loc q) ∈ prog) : okPos q :=
  h _ hm _ rfl rfl

theorem TgtOK.sub {okPos : Pos → Prop} {prog prog' : Prog} (h : TgtOK okPos prog) (hs : ∀ i ∈ prog', i ∈ prog) :
    TgtOK okPos prog' := fun i hi => h i (hs i hi)

section
variable {T : Ast → Ast} {good : Ast → String → Bool} {okPos : Pos → Prop} (L : TLaws T good okPos)
include L

theorem generic_mapK (n : Ast) : generic (T n) = (generic n).map (Instr.mapK T) := generic_T L n _

theorem compileAssign_T {n : Ast} {prog : Prog} (h : compileAssign n = .ok prog) (ht : TgtOK okPos prog) :
    compileAssign (T n) = .ok (prog.map (Instr.mapK T)) := by
  simp only [compileAssign, bind_ok_iff, pure_ok_iff] at h
  obtain ⟨value, h1, eend, h2, targets, h3, ts, h4, rfl⟩ := h
  have hts : ∀ q id, Target.name q id ∈ ts → okPos q := by
    intro q id hm
    exact ht.name (f := .cur) (id := id) (loc := eend)
      (List.mem_append_left _ (List.mem_flatMap.mpr ⟨_, hm, by simp [assignBind]⟩))
  simp only [compileAssign, getNode_T L (by tlit) h1, exprEnd_T L, h2, getNodeList_T L (by tlit) h3,
    targetsOfList_T L _ _ h4 hts, bind, Except.bind, pure, Except.pure, List.map_append,
    map_mapK_nokids T _ (progKids_flatMap_nil _ _ (kids_assignBind eend)), generic_mapK L]

theorem annEnd_T (value : Option Ast) (n : Ast) : annEnd (value.map T) (T n) = annEnd value n := by
  cases value <;> simp [annEnd, exprEnd_T L]

theorem annBind_T {target : Ast} {hv : Bool} {eend : Pos} {prog : Prog} (h : annBind target hv eend = .ok prog)
    (ht : TgtOK okPos prog) : annBind (T target) hv eend = .ok prog := by
  simp only [annBind, L.isNode, L.kind, L.pos] at h ⊢
  split at h
  · rename_i h0; rw [if_pos h0]; exact h
  · rename_i h0
    rw [if_neg h0]
    split at h
    · rename_i h1; rw [if_pos h1]; exact h
    · rename_i h1
      rw [if_neg h1]
      split at h
      · rename_i h2
        rw [if_pos h2]
        simp only [bind_ok_iff, pure_ok_iff] at h
        obtain ⟨id, e1, p, e2, rfl⟩ := h
        have hp : target.pos? = some p := by
          unfold np at e2; split at e2
          · rename_i q hq; injection e2 with e2; subst e2; exact hq
          · cases e2
        have hg := L.idgood target p hp (ht.name (f := .cur) (id := id) (loc := eend) (by simp))
        simp [getStr_T L hg e1, np_T L, e2, bind, Except.bind, pure, Except.pure]
      · rename_i h2; rw [if_neg h2]; exact h

theorem compileAnnAssign_T {n : Ast} {prog : Prog} (h : compileAnnAssign n = .ok prog) (ht : TgtOK okPos prog) :
    compileAnnAssign (T n) = .ok (prog.map (Instr.mapK T)) := by
  simp only [compileAnnAssign, bind_ok_iff, pure_ok_iff] at h
  obtain ⟨value, h1, eend, h2, target, h3, bnd, h4, rfl⟩ := h
  have h4' := annBind_T L h4 (ht.sub (fun i hi => List.mem_append_left _ hi))
  have : (value.map T).isSome = value.isSome := by cases value <;> rfl
  simp only [compileAnnAssign, getOptNode_T L (by tlit) h1, annEnd_T L, h2, get_T L (by tlit) h3, this, h4', bind,
    Except.bind, pure, Except.pure, List.map_append, map_mapK_nokids T _ (annBind_kids h4), generic_mapK L]

theorem compileIf_T {n : Ast} {prog : Prog} (h : compileIf n = .ok prog) :
    compileIf (T n) = .ok (prog.map (Instr.mapK T)) := by
  simp only [compileIf, bind_ok_iff, pure_ok_iff] at h
  obtain ⟨test, h1, body, h2, orelse, h3, rfl⟩ := h
  simp only [compileIf, getNode_T L (by tlit) h1, getNodeList_T L (by tlit) h2, getNodeList_T L (by tlit) h3, bind,
    Except.bind, pure, Except.pure]
  rfl

theorem compileWhile_T {n : Ast} {prog : Prog} (h : compileWhile n = .ok prog) :
    compileWhile (T n) = .ok (prog.map (Instr.mapK T)) := by
  simp only [compileWhile, bind_ok_iff, pure_ok_iff] at h
  obtain ⟨test, h1, body, h2, orelse, h3, rfl⟩ := h
  simp only [compileWhile, getNode_T L (by tlit) h1, getNodeList_T L (by tlit) h2, getNodeList_T L (by tlit) h3, bind,
    Except.bind, pure, Except.pure]
  rfl

theorem compileFor_T {n : Ast} {prog : Prog} (h : compileFor n = .ok prog) (ht : TgtOK okPos prog) :
    compileFor (T n) = .ok (prog.map (Instr.mapK T)) := by
  simp only [compileFor, bind_ok_iff, pure_ok_iff] at h
  obtain ⟨iter, h1, body, h2, bl, h3, target, h4, ts, h5, orelse, h6, rfl⟩ := h
  have hts : ∀ q id, Target.name q id ∈ ts → okPos q := by
    intro q id hm
    exact ht.name (f := .reg 1) (id := id) (loc := bl)
      (List.mem_append_left _ (List.mem_append_right _ (List.mem_flatMap.mpr ⟨_, hm, by simp [forBind]⟩)))
  simp only [compileFor, getNode_T L (by tlit) h1, getNodeList_T L (by tlit) h2, bodyLoc_T L h3,
    getNode_T L (by tlit) h4, targetsOf_T L h5 hts, getNodeList_T L (by tlit) h6, bind, Except.bind, pure, Except.pure,
    List.map_append, map_mapK_nokids T _ (progKids_flatMap_nil _ _ (kids_forBind bl))]
  rfl

theorem aliasSpec_T (a : Ast) (asn : Option String) (e : Option Ast) :
    aliasSpec (T a) asn (e.map T) = aliasSpec a asn e := by
  cases asn with
  | none => simp only [aliasSpec, L.pos]
  | some s =>
    cases e with
    | none => rfl
    | some en => simp only [aliasSpec, Option.map_some, L.pos]

theorem importAlias_T {loc start : Pos} {a : Ast} {e : Option Ast} {prog : Prog} (h : importAlias loc start a e = .ok prog) :
    importAlias loc start (T a) (e.map T) = .ok prog := by
  simp only [importAlias, bind_ok_iff] at h
  obtain ⟨asname, h1, aname, h2, h⟩ := h
  simp only [importAlias, getOptStr_T L (by tlit) h1, getStr_T L (by tlit) h2, bind, Except.bind, aliasSpec_T L]
  exact h

theorem importAliases_T {loc start : Pos} : ∀ (l es : List Ast) (prog : Prog), importAliases loc start l es = .ok prog →
    importAliases loc start (l.map T) (es.map T) = .ok prog := by
  intro l
  induction l with
  | nil => intro es prog h; exact h
  | cons a r ih =>
    intro es prog h
    simp only [importAliases, bind_ok_iff, pure_ok_iff] at h
    obtain ⟨this, ht, rest, hr, rfl⟩ := h
    have e1 := importAlias_T L ht
    have e2 := ih es.tail rest hr
    rw [← List.head?_map] at e1
    rw [List.map_tail] at e2
    simp only [List.map_cons, importAliases, e1, e2, bind, Except.bind, pure, Except.pure]

theorem compileImport_T {n : Ast} {prog : Prog} (h : compileImport n = .ok prog) :
    compileImport (T n) = .ok (prog.map (Instr.mapK T)) := by
  have hk : progKids prog = [] := by
    simp only [compileImport, bind_ok_iff] at h
    obtain ⟨_, _, _, _, _, _, _, _, h⟩ := h
    exact importAliases_kids _ _ _ _ h
  rw [map_mapK_nokids T _ hk]
  simp only [compileImport, bind_ok_iff] at h
  obtain ⟨loc, h1, start, h2, names, h3, ends, h4, h⟩ := h
  simp only [compileImport, exprEnd_T L, h1, np_T L, h2, getNodeList_T L (by tlit) h3, aliasEnds,
    optNodeList_T L (by tlit) (show optNodeList n "alias_ends" = .ok ends from h4), bind, Except.bind]
  exact importAliases_T L names ends prog h

theorem importFromAlias_T {loc start : Pos} {mod : String} {a : Ast} {e : Option Ast} {prog : Prog}
    (h : importFromAlias loc start mod a e = .ok prog) : importFromAlias loc start mod (T a) (e.map T) = .ok prog := by
  simp only [importFromAlias, bind_ok_iff] at h
  obtain ⟨asname, h1, aname, h2, h⟩ := h
  simp only [importFromAlias, getOptStr_T L (by tlit) h1, getStr_T L (by tlit) h2, bind, Except.bind, aliasSpec_T L]
  exact h

theorem importFromAliases_T {loc start : Pos} {mod : String} : ∀ (l es : List Ast) (prog : Prog),
    importFromAliases loc start mod l es = .ok prog → importFromAliases loc start mod (l.map T) (es.map T) = .ok prog := by
  intro l
  induction l with
  | nil => intro es prog h; exact h
  | cons a r ih =>
    intro es prog h
    simp only [importFromAliases, bind_ok_iff, pure_ok_iff] at h
    obtain ⟨this, ht, rest, hr, rfl⟩ := h
    have e1 := importFromAlias_T L ht
    have e2 := ih es.tail rest hr
    rw [← List.head?_map] at e1
    rw [List.map_tail] at e2
    simp only [List.map_cons, importFromAliases, e1, e2, bind, Except.bind, pure, Except.pure]

theorem compileImportFrom_T {n : Ast} {prog : Prog} (h : compileImportFrom n = .ok prog) :
    compileImportFrom (T n) = .ok (prog.map (Instr.mapK T)) := by
  have hk : progKids prog = [] := by
    simp only [compileImportFrom, bind_ok_iff] at h
    obtain ⟨_, _, _, _, names, _, _, _, h⟩ := h
    split at h
    · simp only [pure_ok_iff] at h; subst h; rfl
    · simp only [bind_ok_iff] at h
      obtain ⟨_, _, _, _, h⟩ := h
      exact importFromAliases_kids _ _ _ _ _ h
  rw [map_mapK_nokids T _ hk]
  simp only [compileImportFrom, bind_ok_iff] at h
  obtain ⟨loc, h1, start, h2, names, h3, ends, h4, h⟩ := h
  simp only [compileImportFrom, exprEnd_T L, h1, np_T L, h2, getNodeList_T L (by tlit) h3, aliasEnds,
    optNodeList_T L (by tlit) (show optNodeList n "alias_ends" = .ok ends from h4), bind, Except.bind]
  cases names with
  | nil => exact h
  | cons a r =>
    simp only [bind_ok_iff] at h
    obtain ⟨level, h5, module, h6, h⟩ := h
    simp only [List.map_cons, getInt_T L (by tlit) h5, getOptStr_T L (by tlit) h6, bind, Except.bind]
    exact importFromAliases_T L (a :: r) ends prog h

theorem compileReturn_T {n : Ast} {prog : Prog} (h : compileReturn n = .ok prog) :
    compileReturn (T n) = .ok (prog.map (Instr.mapK T)) := by
  simp only [compileReturn, pure_ok_iff] at h
  subst h
  simp only [compileReturn, pure, Except.pure, List.map_cons, generic_mapK L]
  rfl

theorem compileGlobal_T {n : Ast} {prog : Prog} (h : compileGlobal n = .ok prog) :
    compileGlobal (T n) = .ok (prog.map (Instr.mapK T)) := by
  simp only [compileGlobal, bind_ok_iff, pure_ok_iff] at h
  obtain ⟨names, h1, rfl⟩ := h
  simp only [compileGlobal, getStrList_T L (by tlit) h1, bind, Except.bind, pure, Except.pure]
  rfl

theorem compileNonlocal_T {n : Ast} {prog : Prog} (h : compileNonlocal n = .ok prog) :
    compileNonlocal (T n) = .ok (prog.map (Instr.mapK T)) := by
  simp only [compileNonlocal, bind_ok_iff, pure_ok_iff] at h
  obtain ⟨names, h1, rfl⟩ := h
  simp only [compileNonlocal, getStrList_T L (by tlit) h1, bind, Except.bind, pure, Except.pure]
  rfl

theorem compileNamedExpr_T {n : Ast} {prog : Prog} (h : compileNamedExpr n = .ok prog) (ht : TgtOK okPos prog) :
    compileNamedExpr (T n) = .ok (prog.map (Instr.mapK T)) := by
  simp only [compileNamedExpr, bind_ok_iff, pure_ok_iff] at h
  obtain ⟨value, h1, eend, h2, target, h3, id, h4, p, h5, rfl⟩ := h
  have hp : target.pos? = some p := by
    unfold np at h5; split at h5
    · rename_i q hq; injection h5 with h5; subst h5; exact hq
    · cases h5
  have hg := L.idgood target p hp (ht.name (f := .cur) (id := id) (loc := eend) (by simp [assignBind]))
  simp only [compileNamedExpr, getNode_T L (by tlit) h1, exprEnd_T L, h2, get_T L (by tlit) h3, getStr_T L hg h4,
    np_T L, h5, bind, Except.bind, pure, Except.pure, List.map_append, generic_mapK L,
    map_mapK_nokids T _ (kids_assignBind eend (.name p id))]

theorem withItem_T {it : Ast} {prog : Prog} (h : withItem it = .ok prog) (ht : TgtOK okPos prog) :
    withItem (T it) = .ok prog := by
  simp only [withItem, bind_ok_iff] at h
  obtain ⟨ov, h1, h⟩ := h
  simp only [withItem, getOptNode_T L (by tlit) h1, bind, Except.bind]
  cases ov with
  | none => exact h
  | some t =>
    simp only [bind_ok_iff, pure_ok_iff] at h
    obtain ⟨ce, h2, eend, h3, ts, h4, rfl⟩ := h
    have hts : ∀ q id, Target.name q id ∈ ts → okPos q := by
      intro q id hm
      exact ht.name (f := .cur) (id := id) (loc := eend) (List.mem_flatMap.mpr ⟨_, hm, by simp [withBind]⟩)
    simp only [Option.map_some, getNode_T L (by tlit) h2, exprEnd_T L, h3, targetsOf_T L h4 hts, bind, Except.bind, pure,
      Except.pure]

theorem withItems_T : ∀ (l : List Ast) (prog : Prog), withItems l = .ok prog → TgtOK okPos prog →
    withItems (l.map T) = .ok prog := by
  intro l
  induction l with
  | nil => intro prog h _; exact h
  | cons it r ih =>
    intro prog h ht
    simp only [withItems, bind_ok_iff, pure_ok_iff] at h
    obtain ⟨this, hth, rest, hr, rfl⟩ := h
    simp only [List.map_cons, withItems, withItem_T L hth (ht.sub (fun i hi => List.mem_append_left _ hi)),
      ih rest hr (ht.sub (fun i hi => List.mem_append_right _ hi)), bind, Except.bind, pure, Except.pure]

theorem compileWith_T {n : Ast} {prog : Prog} (h : compileWith n = .ok prog) (ht : TgtOK okPos prog) :
    compileWith (T n) = .ok (prog.map (Instr.mapK T)) := by
  simp only [compileWith, bind_ok_iff, pure_ok_iff] at h
  obtain ⟨items, h1, binds, h2, rfl⟩ := h
  simp only [compileWith, getNodeList_T L (by tlit) h1,
    withItems_T L items binds h2 (ht.sub (fun i hi => List.mem_append_left _ hi)), bind, Except.bind, pure, Except.pure,
    List.map_append, map_mapK_nokids T _ (withItems_kids _ h2), generic_mapK L]

end

end SuppModel.Extract
