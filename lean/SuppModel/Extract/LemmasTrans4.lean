/-
  Extract family — `compile` commutes with a transformation satisfying `TLaws`: one lemma per visit method, part 2
  (try, def / lambda / class, comprehensions, names) and the dispatcher `compile_trans`.
-/
import SuppModel.Extract.LemmasTrans3

namespace SuppModel.Extract
open SuppModel.Flow

theorem toList_mapT {α β} (f : α → β) (o : Option α) : (o.map f).toList = o.toList.map f := by cases o <;> rfl

def ArgsView.mapT (T : Ast → Ast) (v : ArgsView) : ArgsView :=
  { defaults := v.defaults.map T, kwDefaults := v.kwDefaults.map T, positional := v.positional.map T,
    kwonly := v.kwonly.map T, vararg := v.vararg.map T, kwarg := v.kwarg.map T }

section
variable {T : Ast → Ast} {good : Ast → String → Bool} {okPos : Pos → Prop} (L : TLaws T good okPos)
include L

theorem map_visit_mapK (l : List Ast) : (l.map Instr.visit).map (Instr.mapK T) = (l.map T).map Instr.visit := by
  simp [List.map_map, Function.comp_def, Instr.mapK, Instr.mapKR]

/-! ### try -/

theorem handlerBind_T {h : Ast} {name : Option String} {hbody : List Ast} {fh : Nat} {prog : Prog}
    (hb : handlerBind h name hbody fh = .ok prog) : handlerBind (T h) name (hbody.map T) fh = .ok prog := by
  cases name with
  | none => exact hb
  | some s =>
    simp only [handlerBind, bind_ok_iff, pure_ok_iff] at hb
    obtain ⟨bl, h1, p, h2, rfl⟩ := hb
    simp only [handlerBind, bodyLoc_T L h1, np_T L, h2, bind, Except.bind, pure, Except.pure]

theorem compileHandler_T {h : Ast} {fh res : Nat} {prog : Prog} (hc : compileHandler h fh res = .ok prog) :
    compileHandler (T h) fh res = .ok (prog.map (Instr.mapK T)) := by
  simp only [compileHandler, bind_ok_iff, pure_ok_iff] at hc
  obtain ⟨name, h1, hbody, h2, bnd, h3, ty, h4, rfl⟩ := hc
  simp only [compileHandler, getOptStr_T L (by tlit) h1, getNodeList_T L (by tlit) h2, handlerBind_T L h3,
    getOptNode_T L (by tlit) h4, bind, Except.bind, pure, Except.pure, List.map_append, toList_mapT,
    map_mapK_nokids T _ (handlerBind_kids h3)]
  rfl

theorem compileHandlers_T : ∀ (hs : List Ast) (r : Nat) (res : Prog × List Nat), compileHandlers hs r = .ok res →
    compileHandlers (hs.map T) r = .ok (res.1.map (Instr.mapK T), res.2) := by
  intro hs
  induction hs with
  | nil => intro r res h; simp only [compileHandlers, pure_ok_iff] at h; subst h; rfl
  | cons h hs ih =>
    intro r res hc
    simp only [compileHandlers, bind_ok_iff, pure_ok_iff] at hc
    obtain ⟨a, ha, b, hb, rfl⟩ := hc
    simp only [List.map_cons, compileHandlers, compileHandler_T L ha, ih (r + 2) b hb, bind, Except.bind, pure,
      Except.pure, List.map_append]

theorem finalProg_T {n : Ast} {k : Nat} {prog : Prog} (h : finalProg n k = .ok prog) :
    finalProg (T n) k = .ok (prog.map (Instr.mapK T)) := by
  unfold finalProg at h ⊢
  split at h
  · rename_i v hv
    rw [L.field_some n _ v hv (by tlit)]
    simp only [bind_ok_iff, pure_ok_iff] at h
    obtain ⟨fb, h1, rfl⟩ := h
    simp only [getNodeList_T L (by tlit) h1, bind, Except.bind, pure, Except.pure]
    rfl
  · rename_i hv
    rw [L.field_none n _ hv]
    simp only [pure_ok_iff] at h; subst h; rfl

theorem compileTry_T {n : Ast} {prog : Prog} (h : compileTry n = .ok prog) :
    compileTry (T n) = .ok (prog.map (Instr.mapK T)) := by
  simp only [compileTry, bind_ok_iff, pure_ok_iff] at h
  obtain ⟨body, h1, handlers, h2, hp, h3, orelse, h4, fin, h5, rfl⟩ := h
  simp only [compileTry, getNodeList_T L (by tlit) h1, getNodeList_T L (by tlit) h2, compileHandlers_T L handlers 3 hp h3,
    getNodeList_T L (by tlit) h4, List.length_map, finalProg_T L h5, bind, Except.bind, pure, Except.pure, List.map_append]
  rfl

/-! ### def / lambda / class -/

theorem viewArguments_T {a : Ast} {v : ArgsView} (h : viewArguments a = .ok v) : viewArguments (T a) = .ok (v.mapT T) := by
  simp only [viewArguments, bind_ok_iff, pure_ok_iff] at h
  obtain ⟨defaults, h1, kwd, h2, posonly, h3, aa, h4, kwonly, h5, vararg, h6, kwarg, h7, rfl⟩ := h
  simp only [viewArguments, getNodeList_T L (by tlit) h1, getOptNodeList_T L (by tlit) h2, optNodeList_T L (by tlit) h3,
    getNodeList_T L (by tlit) h4, getNodeList_T L (by tlit) h5, getOptNode_T L (by tlit) h6, getOptNode_T L (by tlit) h7,
    bind, Except.bind, pure, Except.pure, ArgsView.mapT, List.map_append]

theorem viewArgs_T {n : Ast} {v : ArgsView} (h : viewArgs n = .ok v) : viewArgs (T n) = .ok (v.mapT T) := by
  simp only [viewArgs, bind_ok_iff] at h
  obtain ⟨args, h0, h⟩ := h
  simp only [viewArgs, getNode_T L (by tlit) h0, bind, Except.bind]
  exact viewArguments_T L h

theorem annotationsOf_T : ∀ (l r : List Ast), annotationsOf l = .ok r → annotationsOf (l.map T) = .ok (r.map T) := by
  intro l
  induction l with
  | nil => intro r h; simp only [annotationsOf, pure_ok_iff] at h; subst h; rfl
  | cons a l ih =>
    intro r h
    simp only [annotationsOf, bind_ok_iff, pure_ok_iff] at h
    obtain ⟨ann, h1, rest, h2, rfl⟩ := h
    simp only [List.map_cons, annotationsOf, getOptNode_T L (by tlit) h1, ih rest h2, bind, Except.bind, pure, Except.pure,
      List.map_append, toList_mapT]

theorem optAnnotation_T {a : Option Ast} {r : List Ast} (h : optAnnotation a = .ok r) :
    optAnnotation (a.map T) = .ok (r.map T) := by
  cases a with
  | none => simp only [optAnnotation, pure_ok_iff] at h; subst h; rfl
  | some x =>
    simp only [optAnnotation, bind_ok_iff, pure_ok_iff] at h
    obtain ⟨ann, h1, rfl⟩ := h
    simp only [Option.map_some, optAnnotation, getOptNode_T L (by tlit) h1, bind, Except.bind, pure, Except.pure, toList_mapT]

theorem argBindings_T {loc : Pos} : ∀ (l : List Ast) (i : Nat) (idx : Bool) (bs : List Binding),
    argBindings loc l i idx = .ok bs → argBindings loc (l.map T) i idx = .ok bs := by
  intro l
  induction l with
  | nil => intro i idx bs h; exact h
  | cons a r ih =>
    intro i idx bs h
    simp only [argBindings, bind_ok_iff, pure_ok_iff] at h
    obtain ⟨name, h1, p, h2, rest, h3, rfl⟩ := h
    simp only [List.map_cons, argBindings, getStr_T L (by tlit) h1, np_T L, h2, ih (i + 1) idx rest h3, bind, Except.bind,
      pure, Except.pure]

theorem allArgBindings_T {loc : Pos} {v : ArgsView} {bs : List Binding} (h : allArgBindings loc v = .ok bs) :
    allArgBindings loc (v.mapT T) = .ok bs := by
  simp only [allArgBindings, bind_ok_iff, pure_ok_iff] at h
  obtain ⟨a, h1, b, h2, c, h3, d, h4, rfl⟩ := h
  have h3' := argBindings_T L _ _ _ _ h3
  have h4' := argBindings_T L _ _ _ _ h4
  rw [← toList_mapT] at h3' h4'
  simp only [allArgBindings, ArgsView.mapT, argBindings_T L _ _ _ _ h1, argBindings_T L _ _ _ _ h2, h3', h4', bind,
    Except.bind, pure, Except.pure]

theorem compileFunctionDef_T {n : Ast} {prog : Prog} (h : compileFunctionDef n = .ok prog) :
    compileFunctionDef (T n) = .ok (prog.map (Instr.mapK T)) := by
  simp only [compileFunctionDef, bind_ok_iff, pure_ok_iff] at h
  obtain ⟨decs, h1, v, hv, a1, ha1, a2, ha2, a3, ha3, a4, ha4, returns, h2, name, h3, p, h4, body, h5,
    location, h6, args, h7, rfl⟩ := h
  have e1 := annotationsOf_T L _ _ ha1
  have e2 := annotationsOf_T L _ _ ha2
  have e3 := optAnnotation_T L ha3
  have e4 := optAnnotation_T L ha4
  have e7 := allArgBindings_T L h7
  simp only [compileFunctionDef, getNodeList_T L (by tlit) h1, viewArgs_T L hv, getOptNode_T L (by tlit) h2,
    getStr_T L (by tlit) h3, np_T L, h4, getNodeList_T L (by tlit) h5, bodyLoc_T L h6, bind, Except.bind, pure, Except.pure]
  simp only [ArgsView.mapT] at e1 e2 e3 e4 e7 ⊢
  simp only [e1, e2, e3, e4, e7]
  simp only [List.map_append, map_visit_mapK L, toList_mapT]
  rfl

theorem compileLambda_T {n : Ast} {prog : Prog} (h : compileLambda n = .ok prog) :
    compileLambda (T n) = .ok (prog.map (Instr.mapK T)) := by
  simp only [compileLambda, bind_ok_iff, pure_ok_iff] at h
  obtain ⟨v, hv, a1, ha1, a2, ha2, body, h1, location, h2, p, h3, args, h4, rfl⟩ := h
  have e1 := annotationsOf_T L _ _ ha1
  have e2 := annotationsOf_T L _ _ ha2
  have e4 := allArgBindings_T L h4
  simp only [compileLambda, viewArgs_T L hv, getNode_T L (by tlit) h1, np_T L, h2, h3, bind, Except.bind, pure, Except.pure]
  simp only [ArgsView.mapT] at e1 e2 e4 ⊢
  simp only [e1, e2, e4]
  simp only [List.map_append, map_visit_mapK L]
  rfl

theorem compileClassDef_T {n : Ast} {prog : Prog} (h : compileClassDef n = .ok prog) :
    compileClassDef (T n) = .ok (prog.map (Instr.mapK T)) := by
  simp only [compileClassDef, bind_ok_iff, pure_ok_iff] at h
  obtain ⟨decs, h1, bases, h2, keywords, h3, name, h4, p, h5, body, h6, location, h7, rfl⟩ := h
  simp only [compileClassDef, getNodeList_T L (by tlit) h1, getNodeList_T L (by tlit) h2, optNodeList_T L (by tlit) h3,
    getStr_T L (by tlit) h4, np_T L, h5, getNodeList_T L (by tlit) h6, firstLoc_T L h7, bind, Except.bind, pure, Except.pure]
  rfl

end

end SuppModel.Extract

namespace SuppModel.Extract
open SuppModel.Flow

section
variable {T : Ast → Ast} {good : Ast → String → Bool} {okPos : Pos → Prop} (L : TLaws T good okPos)
include L

/-! ### comprehensions -/

theorem compileGenerators_T {cp : Option Pos} : ∀ (gs : List Ast) (i : Nat) (prog : Prog),
    compileGenerators cp gs i = .ok prog → TgtOK okPos prog →
      compileGenerators cp (gs.map T) i = .ok (prog.map (Instr.mapK T)) := by
  intro gs
  induction gs with
  | nil => intro i prog h _; simp only [compileGenerators, pure_ok_iff] at h; subst h; rfl
  | cons g gs ih =>
    intro i prog h ht
    simp only [compileGenerators, bind_ok_iff, pure_ok_iff] at h
    obtain ⟨iter, h1, iterL, h2, target, h3, ts, h4, binds, h5, ifs, h6, rest, h7, rfl⟩ := h
    have hifs : (ifs.map (fun x => Instr.visitIn [x] (i + 1) none)).map (Instr.mapK T) =
        (ifs.map T).map (fun x => Instr.visitIn [x] (i + 1) none) := by
      simp [List.map_map, Function.comp_def, Instr.mapK, Instr.mapKR]
    have hts : ∀ q id, Target.name q id ∈ ts → okPos q := by
      intro q id hm
      -- the binding of this target is among `binds`
      have hmem : ∀ (ts : List Target) (binds : Prog), compBinds cp i ts = .ok binds → Target.name q id ∈ ts →
          ∃ loc, Instr.compName (i + 1) (assigned id loc q) ∈ binds := by
        intro ts
        induction ts with
        | nil => intro _ _ hm; cases hm
        | cons t ts ih2 =>
          intro binds hb hm
          cases t with
          | name p' id' =>
            simp only [compBinds, bind_ok_iff, pure_ok_iff] at hb
            obtain ⟨loc, _, rest', hr, rfl⟩ := hb
            simp only [List.mem_cons] at hm
            rcases hm with hm | hm
            · injection hm with e1 e2; subst e1 e2
              exact ⟨loc, by simp⟩
            · obtain ⟨loc', hl⟩ := ih2 rest' hr hm
              exact ⟨loc', by simp [hl]⟩
          | attr p' =>
            simp only [compBinds, bind_ok_iff, pure_ok_iff] at hb
            obtain ⟨rest', hr, rfl⟩ := hb
            simp only [List.mem_cons] at hm
            rcases hm with hm | hm
            · cases hm
            · obtain ⟨loc', hl⟩ := ih2 rest' hr hm
              exact ⟨loc', by simp [hl]⟩
          | skip =>
            simp only [compBinds] at hb
            simp only [List.mem_cons] at hm
            rcases hm with hm | hm
            · cases hm
            · exact ih2 binds hb hm
      obtain ⟨loc, hl⟩ := hmem ts binds h5 hm
      exact ht.comp (f := i + 1) (id := id) (loc := loc) (by simp [hl])
    have hrest := ih (i + 1) rest h7 (ht.sub (fun x hx => by simp [hx]))
    simp only [List.map_cons, compileGenerators, get_T L (by tlit) h1, single_T L h2, getNode_T L (by tlit) h3,
      targetsOf_T L h4 hts, h5, getNodeList_T L (by tlit) h6, hrest, bind, Except.bind, pure, Except.pure,
      List.map_append, hifs, map_mapK_nokids T _ (compBinds_kids _ _ _ h5)]
    rfl

theorem eltOf_T {n elt : Ast} (h : eltOf n = .ok elt) : eltOf (T n) = .ok (T elt) := by
  unfold eltOf at h ⊢
  split at h
  · rename_i kd p ns vs hv
    simp only [pure_ok_iff] at h; subst h
    rw [L.field_some n _ _ hv (by tlit)]
    obtain ⟨k', p', ns', vs', e⟩ := node_T L (v := .node kd p ns vs) rfl
    rw [e]
    rfl
  · rename_i hne
    have hget := get_T L (by tlit) h
    cases hf : n.field? "elt" with
    | none => rw [L.field_none n _ hf]; exact hget
    | some v =>
      rw [L.field_some n _ v hf (by tlit)]
      cases v with
      | node kd p ns vs => exact absurd hf (hne kd p ns vs)
      | list l => rw [L.list]; exact hget
      | str s => rw [L.str]; exact hget
      | int i => rw [L.int]; exact hget
      | none => rw [L.none]; exact hget

theorem keyProg_T {n : Ast} {k : Nat} {prog : Prog} (h : keyProg n k = .ok prog) :
    keyProg (T n) k = .ok (prog.map (Instr.mapK T)) := by
  unfold keyProg at h ⊢
  split at h
  · rename_i key hv
    rw [L.field_some n _ key hv (by tlit)]
    simp only [bind_ok_iff, pure_ok_iff] at h
    obtain ⟨keyL, h1, rfl⟩ := h
    simp only [single_T L h1, bind, Except.bind, pure, Except.pure]
    rfl
  · rename_i hv
    rw [L.field_none n _ hv]
    simp only [pure_ok_iff] at h; subst h; rfl

theorem compileComp_T {n : Ast} {prog : Prog} (h : compileComp n = .ok prog) (ht : TgtOK okPos prog) :
    compileComp (T n) = .ok (prog.map (Instr.mapK T)) := by
  simp only [compileComp, bind_ok_iff, pure_ok_iff] at h
  obtain ⟨gens, h1, gprog, h2, elt, h3, eltL, h4, kprog, h5, rfl⟩ := h
  have e2 := compileGenerators_T L gens 0 gprog h2 (ht.sub (fun x hx => by simp [hx]))
  simp only [compileComp, getNodeList_T L (by tlit) h1, L.pos, e2, eltOf_T L h3, single_T L h4, List.length_map,
    keyProg_T L h5, bind, Except.bind, pure, Except.pure, List.map_append]
  rfl

/-! ### names -/

theorem nameId_T {n : Ast} (hg : good n "id" = true) : nameId (T n) = nameId n := by
  unfold nameId
  cases hf : n.field? "id" with
  | none => rw [L.field_none n _ hf]
  | some v =>
    rw [L.field_some n _ v hf hg]
    cases v with
    | str s => rw [L.str]
    | int i => rw [L.int]
    | none => rw [L.none]
    | list l => rw [L.list]
    | node kd p ns vs =>
      obtain ⟨k', p', ns', vs', e⟩ := node_T L (v := .node kd p ns vs) rfl
      rw [e]

theorem compileName_T {n : Ast} {prog : Prog} (hg : good n "id" = true) (h : compileName n = .ok prog) :
    compileName (T n) = .ok (prog.map (Instr.mapK T)) := by
  simp only [compileName, bind_ok_iff] at h
  obtain ⟨ctx, h1, h⟩ := h
  simp only [compileName, get_T L (by tlit) h1, bind, Except.bind, nameId_T L hg, L.pos]
  cases ctx with
  | str s =>
    rw [L.str]
    split at h
    · simp only [pure_ok_iff] at h; subst h; rfl
    · simp only [pure_ok_iff] at h; subst h; rfl
  | int i => rw [L.int]; simp only [pure_ok_iff] at h; subst h; rfl
  | none => rw [L.none]; simp only [pure_ok_iff] at h; subst h; rfl
  | list l => rw [L.list]; simp only [pure_ok_iff] at h; subst h; rfl
  | node kd p ns vs =>
    obtain ⟨k', p', ns', vs', e⟩ := node_T L (v := .node kd p ns vs) rfl
    rw [e]; simp only [pure_ok_iff] at h; subst h; rfl

/-- the reading half of every visit method commutes with `T`: the same actions on the transformed visited nodes -
    provided the names bound by assignment are declared at `okPos` positions and, for a `Name` node, its own `id` is
    kept (`good n "id"`) -/
theorem compile_trans {n : Ast} {prog : Prog} (h : compile n = .ok prog) (ht : TgtOK okPos prog)
    (hname : n.kind = "Name" → good n "id" = true) :
    compile (T n) = .ok (prog.map (Instr.mapK T)) := by
  unfold compile at h ⊢
  rw [L.kind]
  split at h <;> rename_i hk
  · exact compileAssign_T L h ht
  · exact compileAnnAssign_T L h ht
  · exact compileIf_T L h
  · exact compileFor_T L h ht
  · exact compileFor_T L h ht
  · exact compileWhile_T L h
  · exact compileImport_T L h
  · exact compileImportFrom_T L h
  · exact compileTry_T L h
  · exact compileTry_T L h
  · exact compileFunctionDef_T L h
  · exact compileFunctionDef_T L h
  · exact compileLambda_T L h
  · exact compileClassDef_T L h
  · exact compileReturn_T L h
  · exact compileComp_T L h ht
  · exact compileComp_T L h ht
  · exact compileComp_T L h ht
  · exact compileComp_T L h ht
  · exact compileWith_T L h ht
  · exact compileWith_T L h ht
  · exact compileGlobal_T L h
  · exact compileNonlocal_T L h
  · exact compileName_T L (hname hk) h
  · exact compileNamedExpr_T L h ht
  · simp only [pure_ok_iff] at h; subst h
    rw [generic_mapK L]
    rfl

end

end SuppModel.Extract
