/-
  Extract family — per visit method: the nodes it visits lie strictly inside the visited node.
-/
import SuppModel.Extract.LemmasKids

namespace SuppModel.Extract
open SuppModel.Flow

macro "sub_close" : tactic => `(tactic| first
  | (apply getNode_sub; assumption)
  | (apply getNodeList_sub; assumption)
  | (apply getOptNodeList_sub; assumption)
  | (apply getOptNode_sub; assumption)
  | (apply children_sub)
  | (intro c hc; cases hc))

theorem kids_assignBind (eend : Pos) (t : Target) : progKids (assignBind eend t) = [] := by
  cases t <;> simp [assignBind, Instr.kids]

theorem kids_forBind (bl : Pos) (t : Target) : progKids (forBind bl t) = [] := by
  cases t <;> simp [forBind, Instr.kids]

theorem kids_withBind (eend : Pos) (t : Target) : progKids (withBind eend t) = [] := by
  cases t <;> simp [withBind, Instr.kids]

theorem compileAssign_kids {n prog} (h : compileAssign n = .ok prog) : ∀ c ∈ progKids prog, Sub c n := by
  simp only [compileAssign, bind_ok_iff, pure_ok_iff] at h
  obtain ⟨value, h1, eend, h2, targets, h3, ts, h4, rfl⟩ := h
  simp only [progKids_append, progKids_flatMap_nil _ _ (kids_assignBind eend), progKids_generic, List.nil_append]
  exact children_sub

theorem annBind_kids {target hv eend prog} (h : annBind target hv eend = .ok prog) : progKids prog = [] := by
  unfold annBind at h
  split at h
  · simp only [pure_ok_iff] at h; subst h; simp [Instr.kids]
  · split at h
    · simp only [pure_ok_iff] at h; subst h; rfl
    · split at h
      · simp only [bind_ok_iff, pure_ok_iff] at h
        obtain ⟨id, _, p, _, rfl⟩ := h
        simp [Instr.kids]
      · simp only [pure_ok_iff] at h; subst h; rfl

theorem compileAnnAssign_kids {n prog} (h : compileAnnAssign n = .ok prog) : ∀ c ∈ progKids prog, Sub c n := by
  simp only [compileAnnAssign, bind_ok_iff, pure_ok_iff] at h
  obtain ⟨value, h1, eend, h2, target, h3, bind, h4, rfl⟩ := h
  simp only [progKids_append, annBind_kids h4, progKids_generic, List.nil_append]
  exact children_sub

theorem compileIf_kids {n prog} (h : compileIf n = .ok prog) : ∀ c ∈ progKids prog, Sub c n := by
  simp only [compileIf, bind_ok_iff, pure_ok_iff] at h
  obtain ⟨test, h1, body, h2, orelse, h3, rfl⟩ := h
  simp [Instr.kids, or_imp, forall_and]
  refine ⟨?_, ?_, ?_⟩ <;> sub_close

theorem compileFor_kids {n prog} (h : compileFor n = .ok prog) : ∀ c ∈ progKids prog, Sub c n := by
  simp only [compileFor, bind_ok_iff, pure_ok_iff] at h
  obtain ⟨iter, h1, body, h2, bl, h3, target, h4, ts, h5, orelse, h6, rfl⟩ := h
  simp [Instr.kids, or_imp, forall_and, progKids_flatMap_nil _ _ (kids_forBind bl)]
  refine ⟨?_, ?_, ?_, ?_⟩ <;> sub_close

theorem compileWhile_kids {n prog} (h : compileWhile n = .ok prog) : ∀ c ∈ progKids prog, Sub c n := by
  simp only [compileWhile, bind_ok_iff, pure_ok_iff] at h
  obtain ⟨test, h1, body, h2, orelse, h3, rfl⟩ := h
  simp [Instr.kids, or_imp, forall_and]
  refine ⟨?_, ?_, ?_⟩ <;> sub_close

theorem importAliases_kids (loc start : Pos) (l es : List Ast) {prog} (h : importAliases loc start l es = .ok prog) :
    progKids prog = [] := by
  induction l generalizing prog es with
  | nil => simp only [importAliases, pure_ok_iff] at h; subst h; rfl
  | cons a r ih =>
    simp only [importAliases, bind_ok_iff, pure_ok_iff] at h
    obtain ⟨this, ht, rest, hr, rfl⟩ := h
    have hthis : progKids this = [] := by
      simp only [importAlias, bind_ok_iff] at ht
      obtain ⟨asname, _, aname, _, ht⟩ := ht
      split at ht <;> (simp only [pure_ok_iff] at ht; subst ht; simp [Instr.kids])
    simp [hthis, ih _ hr]

theorem compileImport_kids {n prog} (h : compileImport n = .ok prog) : ∀ c ∈ progKids prog, Sub c n := by
  simp only [compileImport, bind_ok_iff] at h
  obtain ⟨loc, _, start, _, names, _, ends, _, h⟩ := h
  rw [importAliases_kids _ _ _ _ h]
  intro c hc; cases hc

theorem importFromAliases_kids (loc start : Pos) (mod : String) (l es : List Ast) {prog}
    (h : importFromAliases loc start mod l es = .ok prog) : progKids prog = [] := by
  induction l generalizing prog es with
  | nil => simp only [importFromAliases, pure_ok_iff] at h; subst h; rfl
  | cons a r ih =>
    simp only [importFromAliases, bind_ok_iff, pure_ok_iff] at h
    obtain ⟨this, ht, rest, hr, rfl⟩ := h
    have hthis : progKids this = [] := by
      simp only [importFromAlias, bind_ok_iff] at ht
      obtain ⟨asname, _, aname, _, ht⟩ := ht
      split at ht <;> (simp only [pure_ok_iff] at ht; subst ht; simp [Instr.kids])
    simp [hthis, ih _ hr]

theorem compileImportFrom_kids {n prog} (h : compileImportFrom n = .ok prog) : ∀ c ∈ progKids prog, Sub c n := by
  simp only [compileImportFrom, bind_ok_iff] at h
  obtain ⟨loc, _, start, _, names, _, ends, _, h⟩ := h
  have : progKids prog = [] := by
    split at h
    · simp only [pure_ok_iff] at h; subst h; rfl
    · simp only [bind_ok_iff] at h
      obtain ⟨_, _, _, _, h⟩ := h
      exact importFromAliases_kids _ _ _ _ _ h
  rw [this]
  intro c hc; cases hc

theorem handlerBind_kids {h name hbody fh prog} (hb : handlerBind h name hbody fh = .ok prog) : progKids prog = [] := by
  unfold handlerBind at hb
  split at hb
  · simp only [bind_ok_iff, pure_ok_iff] at hb
    obtain ⟨_, _, _, _, rfl⟩ := hb
    simp [Instr.kids]
  · simp only [pure_ok_iff] at hb; subst hb; rfl

theorem compileHandler_kids {h : Ast} {fh res : Nat} {prog} (hc : compileHandler h fh res = .ok prog) :
    ∀ c ∈ progKids prog, Sub c h := by
  simp only [compileHandler, bind_ok_iff, pure_ok_iff] at hc
  obtain ⟨name, h1, hbody, h2, bind, h3, ty, h4, rfl⟩ := hc
  simp [Instr.kids, handlerBind_kids h3, or_imp, forall_and]
  refine ⟨?_, ?_⟩
  · intro c hc; subst hc; exact getOptNode_sub h4
  · sub_close

theorem compileHandlers_kids {n : Ast} (hs : List Ast) (hsub : ∀ h ∈ hs, Sub h n) (r : Nat) {res}
    (hc : compileHandlers hs r = .ok res) : ∀ c ∈ progKids res.1, Sub c n := by
  induction hs generalizing r res with
  | nil => simp only [compileHandlers, pure_ok_iff] at hc; subst hc; intro c hc; cases hc
  | cons h hs ih =>
    simp only [compileHandlers, bind_ok_iff, pure_ok_iff] at hc
    obtain ⟨a, ha, b, hb, rfl⟩ := hc
    intro c hc
    simp only [progKids_append, List.mem_append] at hc
    rcases hc with hc | hc
    · exact (compileHandler_kids ha c hc).trans (hsub h List.mem_cons_self).inside
    · exact ih (fun h' hh => hsub h' (List.mem_cons_of_mem _ hh)) (r + 2) hb c hc

theorem finalProg_kids {n k prog} (h : finalProg n k = .ok prog) : ∀ c ∈ progKids prog, Sub c n := by
  unfold finalProg at h
  split at h
  · simp only [bind_ok_iff, pure_ok_iff] at h
    obtain ⟨fb, h6, rfl⟩ := h
    simp [Instr.kids]
    sub_close
  · simp only [pure_ok_iff] at h; subst h; intro c hc; cases hc

theorem compileTry_kids {n prog} (h : compileTry n = .ok prog) : ∀ c ∈ progKids prog, Sub c n := by
  simp only [compileTry, bind_ok_iff, pure_ok_iff] at h
  obtain ⟨body, h1, handlers, h2, hp, h3, orelse, h4, fin, h5, rfl⟩ := h
  have hh := compileHandlers_kids handlers (getNodeList_sub h2) 3 h3
  have hf := finalProg_kids h5
  simp [Instr.kids, or_imp, forall_and]
  refine ⟨?_, hh, ?_, hf⟩ <;> sub_close

theorem annotationsOf_sub (l : List Ast) {r} (h : annotationsOf l = .ok r) :
    ∀ c ∈ r, ∃ a ∈ l, Sub c a := by
  induction l generalizing r with
  | nil => simp only [annotationsOf, pure_ok_iff] at h; subst h; intro c hc; cases hc
  | cons a l ih =>
    simp only [annotationsOf, bind_ok_iff, pure_ok_iff] at h
    obtain ⟨ann, h1, rest, h2, rfl⟩ := h
    intro c hc
    simp only [List.mem_append] at hc
    rcases hc with hc | hc
    · cases ann with
      | none => cases hc
      | some x =>
        simp only [Option.toList, List.mem_singleton] at hc; subst hc
        exact ⟨a, List.mem_cons_self, getOptNode_sub h1⟩
    · obtain ⟨a', ha', hs⟩ := ih h2 c hc
      exact ⟨a', List.mem_cons_of_mem _ ha', hs⟩

theorem optAnnotation_sub (a : Option Ast) {r} (h : optAnnotation a = .ok r) :
    ∀ c ∈ r, ∃ x, a = some x ∧ Sub c x := by
  cases a with
  | none => simp only [optAnnotation, pure_ok_iff] at h; subst h; intro c hc; cases hc
  | some x =>
    simp only [optAnnotation, bind_ok_iff, pure_ok_iff] at h
    obtain ⟨ann, h1, rfl⟩ := h
    intro c hc
    cases ann with
    | none => cases hc
    | some y =>
      simp only [Option.toList, List.mem_singleton] at hc; subst hc
      exact ⟨x, rfl, getOptNode_sub h1⟩

theorem optNodeList_sub {n : Ast} {k : String} {l : List Ast} (h : optNodeList n k = .ok l) : ∀ c ∈ l, Sub c n := by
  unfold optNodeList at h
  split at h
  · exact getNodeList_sub h
  · simp only [pure_ok_iff] at h; subst h; intro c hc; cases hc

/-- what `viewArgs` returns lies inside the node -/
structure ArgsSub (v : ArgsView) (n : Ast) : Prop where
  defaults : ∀ c ∈ v.defaults, Sub c n
  kwDefaults : ∀ c ∈ v.kwDefaults, Sub c n
  positional : ∀ c ∈ v.positional, Sub c n
  kwonly : ∀ c ∈ v.kwonly, Sub c n
  vararg : ∀ c, v.vararg = some c → Sub c n
  kwarg : ∀ c, v.kwarg = some c → Sub c n

theorem viewArguments_sub {args : Ast} {v : ArgsView} (h : viewArguments args = .ok v) : ArgsSub v args := by
  simp only [viewArguments, bind_ok_iff, pure_ok_iff] at h
  obtain ⟨defaults, h1, kwd, h2, posonly, h3, aa, h4, kwonly, h5, vararg, h6, kwarg, h7, rfl⟩ := h
  have hpos := optNodeList_sub h3
  refine ⟨getNodeList_sub h1, getOptNodeList_sub h2, ?_, getNodeList_sub h5, ?_, ?_⟩
  · intro c hc
    simp only [List.mem_append] at hc
    rcases hc with hc | hc
    · exact hpos c hc
    · exact getNodeList_sub h4 c hc
  · intro c hc; simp only at hc; subst hc; exact getOptNode_sub h6
  · intro c hc; simp only at hc; subst hc; exact getOptNode_sub h7

theorem viewArgs_sub {n : Ast} {v : ArgsView} (h : viewArgs n = .ok v) : ArgsSub v n := by
  simp only [viewArgs, bind_ok_iff] at h
  obtain ⟨args, h0, h⟩ := h
  have ha := (getNode_sub h0).inside
  have hs := viewArguments_sub h
  exact ⟨fun c hc => (hs.defaults c hc).trans ha, fun c hc => (hs.kwDefaults c hc).trans ha,
    fun c hc => (hs.positional c hc).trans ha, fun c hc => (hs.kwonly c hc).trans ha,
    fun c hc => (hs.vararg c hc).trans ha, fun c hc => (hs.kwarg c hc).trans ha⟩

theorem compileFunctionDef_kids {n prog} (h : compileFunctionDef n = .ok prog) : ∀ c ∈ progKids prog, Sub c n := by
  simp only [compileFunctionDef, bind_ok_iff, pure_ok_iff] at h
  obtain ⟨decs, h1, v, hv, a1, ha1, a2, ha2, a3, ha3, a4, ha4, returns, h2, name, h3, p, h4, body, h5,
    location, h6, args, h7, rfl⟩ := h
  have hs := viewArgs_sub hv
  simp [Instr.kids, or_imp, forall_and]
  refine ⟨?_, hs.defaults, hs.kwDefaults, ?_, ?_, ?_, ?_, ?_, ?_⟩
  · sub_close
  · intro c hc
    obtain ⟨a, ha, hsub⟩ := annotationsOf_sub _ ha1 c hc
    exact hsub.trans (hs.positional a ha).inside
  · intro c hc
    obtain ⟨a, ha, hsub⟩ := annotationsOf_sub _ ha2 c hc
    exact hsub.trans (hs.kwonly a ha).inside
  · intro c hc
    obtain ⟨a, ha, hsub⟩ := optAnnotation_sub _ ha3 c hc
    exact hsub.trans (hs.vararg a ha).inside
  · intro c hc
    obtain ⟨a, ha, hsub⟩ := optAnnotation_sub _ ha4 c hc
    exact hsub.trans (hs.kwarg a ha).inside
  · intro c hc
    subst hc
    exact getOptNode_sub h2
  · sub_close

theorem compileLambda_kids {n prog} (h : compileLambda n = .ok prog) : ∀ c ∈ progKids prog, Sub c n := by
  simp only [compileLambda, bind_ok_iff, pure_ok_iff] at h
  obtain ⟨v, hv, a1, ha1, a2, ha2, body, h1, location, h2, p, h3, args, h4, rfl⟩ := h
  have hs := viewArgs_sub hv
  simp [Instr.kids, or_imp, forall_and]
  refine ⟨hs.defaults, hs.kwDefaults, ?_, ?_, ?_⟩
  · intro c hc
    obtain ⟨a, ha, hsub⟩ := annotationsOf_sub _ ha1 c hc
    exact hsub.trans (hs.positional a ha).inside
  · intro c hc
    obtain ⟨a, ha, hsub⟩ := annotationsOf_sub _ ha2 c hc
    exact hsub.trans (hs.kwonly a ha).inside
  · sub_close

theorem compileClassDef_kids {n prog} (h : compileClassDef n = .ok prog) : ∀ c ∈ progKids prog, Sub c n := by
  simp only [compileClassDef, bind_ok_iff, pure_ok_iff] at h
  obtain ⟨decs, h1, bases, h2, keywords, h3, name, h4, p, h5, body, h6, location, h7, rfl⟩ := h
  have hk := optNodeList_sub h3
  simp [Instr.kids, or_imp, forall_and]
  refine ⟨?_, ?_, hk, ?_⟩ <;> sub_close

theorem compileReturn_kids {n prog} (h : compileReturn n = .ok prog) : ∀ c ∈ progKids prog, Sub c n := by
  simp only [compileReturn, pure_ok_iff] at h
  subst h
  simp only [progKids_cons, Instr.kids, progKids_generic, List.nil_append]
  exact children_sub

theorem compBinds_kids (compPos : Option Pos) (i : Nat) (ts : List Target) {prog}
    (h : compBinds compPos i ts = .ok prog) : progKids prog = [] := by
  induction ts generalizing prog with
  | nil => simp only [compBinds, pure_ok_iff] at h; subst h; rfl
  | cons t ts ih =>
    cases t with
    | name p id =>
      simp only [compBinds, bind_ok_iff, pure_ok_iff] at h
      obtain ⟨loc, _, rest, hr, rfl⟩ := h
      simp [Instr.kids, ih hr]
    | attr p =>
      simp only [compBinds, bind_ok_iff, pure_ok_iff] at h
      obtain ⟨rest, hr, rfl⟩ := h
      simp [Instr.kids, ih hr]
    | skip =>
      simp only [compBinds] at h
      exact ih h

theorem kids_ifs (ifs : List Ast) (r : Nat) :
    progKids (ifs.map (fun x => Instr.visitIn [x] r none)) = ifs := by
  induction ifs with
  | nil => rfl
  | cons x xs ih => simp [Instr.kids, ih]

theorem compileGenerators_kids {n : Ast} (compPos : Option Pos) (gs : List Ast) (hsub : ∀ g ∈ gs, Sub g n) (i : Nat) {prog}
    (h : compileGenerators compPos gs i = .ok prog) : ∀ c ∈ progKids prog, Sub c n := by
  induction gs generalizing i prog with
  | nil => simp only [compileGenerators, pure_ok_iff] at h; subst h; intro c hc; cases hc
  | cons g gs ih =>
    simp only [compileGenerators, bind_ok_iff, pure_ok_iff] at h
    obtain ⟨iter, h1, iterL, h2, target, h3, ts, h4, binds, h5, ifs, h6, rest, h7, rfl⟩ := h
    have hg := (hsub g List.mem_cons_self).inside
    have hrest := ih (fun g' hg' => hsub g' (List.mem_cons_of_mem _ hg')) (i + 1) h7
    simp [Instr.kids, or_imp, forall_and, compBinds_kids _ _ _ h5, kids_ifs]
    refine ⟨?_, ?_, ?_, hrest⟩
    · intro c hc; exact (single_sub (get_inside h1) h2 c hc).trans hg
    · exact (getNode_sub h3).trans hg
    · intro c hc; exact (getNodeList_sub h6 c hc).trans hg

theorem eltOf_inside {n elt : Ast} (h : eltOf n = .ok elt) : Inside elt n := by
  unfold eltOf at h
  split at h
  · rename_i hf
    simp only [pure_ok_iff] at h; subst h
    exact field_inside hf
  · exact get_inside h

theorem keyProg_kids {n k prog} (h : keyProg n k = .ok prog) : ∀ c ∈ progKids prog, Sub c n := by
  unfold keyProg at h
  split at h
  · rename_i key hf
    simp only [bind_ok_iff, pure_ok_iff] at h
    obtain ⟨keyL, hk, rfl⟩ := h
    simp [Instr.kids]
    exact single_sub (field_inside hf) hk
  · simp only [pure_ok_iff] at h; subst h; intro c hc; cases hc

theorem compileComp_kids {n prog} (h : compileComp n = .ok prog) : ∀ c ∈ progKids prog, Sub c n := by
  simp only [compileComp, bind_ok_iff, pure_ok_iff] at h
  obtain ⟨gens, h1, gprog, h2, elt, h3, eltL, h4, kprog, h5, rfl⟩ := h
  have hg := compileGenerators_kids n.pos? gens (getNodeList_sub h1) 0 h2
  have he := single_sub (eltOf_inside h3) h4
  have hk := keyProg_kids h5
  simp [Instr.kids, or_imp, forall_and]
  exact ⟨hg, he, hk⟩

theorem withItems_kids (l : List Ast) {prog} (h : withItems l = .ok prog) : progKids prog = [] := by
  induction l generalizing prog with
  | nil => simp only [withItems, pure_ok_iff] at h; subst h; rfl
  | cons it r ih =>
    simp only [withItems, bind_ok_iff, pure_ok_iff] at h
    obtain ⟨this, ht, rest, hr, rfl⟩ := h
    have hthis : progKids this = [] := by
      simp only [withItem, bind_ok_iff] at ht
      obtain ⟨ov, _, ht⟩ := ht
      split at ht
      · simp only [bind_ok_iff, pure_ok_iff] at ht
        obtain ⟨_, _, eend, _, _, _, rfl⟩ := ht
        exact progKids_flatMap_nil _ _ (kids_withBind eend)
      · simp only [pure_ok_iff] at ht; subst ht; rfl
    simp [hthis, ih hr]

theorem compileWith_kids {n prog} (h : compileWith n = .ok prog) : ∀ c ∈ progKids prog, Sub c n := by
  simp only [compileWith, bind_ok_iff, pure_ok_iff] at h
  obtain ⟨items, h1, binds, h2, rfl⟩ := h
  simp only [progKids_append, withItems_kids _ h2, progKids_generic, List.nil_append]
  exact children_sub

theorem compileGlobal_kids {n prog} (h : compileGlobal n = .ok prog) : ∀ c ∈ progKids prog, Sub c n := by
  simp only [compileGlobal, bind_ok_iff, pure_ok_iff] at h
  obtain ⟨names, _, rfl⟩ := h
  intro c hc; simp [Instr.kids] at hc

theorem compileNonlocal_kids {n prog} (h : compileNonlocal n = .ok prog) : ∀ c ∈ progKids prog, Sub c n := by
  simp only [compileNonlocal, bind_ok_iff, pure_ok_iff] at h
  obtain ⟨names, _, rfl⟩ := h
  intro c hc; simp [Instr.kids] at hc

theorem compileName_kids {n prog} (h : compileName n = .ok prog) : ∀ c ∈ progKids prog, Sub c n := by
  simp only [compileName, bind_ok_iff] at h
  obtain ⟨ctx, _, h⟩ := h
  split at h <;> (simp only [pure_ok_iff] at h; subst h; intro c hc; simp [Instr.kids] at hc)

theorem compileNamedExpr_kids {n prog} (h : compileNamedExpr n = .ok prog) : ∀ c ∈ progKids prog, Sub c n := by
  simp only [compileNamedExpr, bind_ok_iff, pure_ok_iff] at h
  obtain ⟨value, _, eend, _, target, _, id, _, p, _, rfl⟩ := h
  simp only [progKids_append, kids_assignBind, progKids_generic, List.nil_append]
  exact children_sub

/-- every node a visit method visits lies strictly inside the visited node -/
theorem compile_kids_sub {n prog} (h : compile n = .ok prog) : ∀ c ∈ progKids prog, Sub c n := by
  unfold compile at h
  split at h
  · exact compileAssign_kids h
  · exact compileAnnAssign_kids h
  · exact compileIf_kids h
  · exact compileFor_kids h
  · exact compileFor_kids h
  · exact compileWhile_kids h
  · exact compileImport_kids h
  · exact compileImportFrom_kids h
  · exact compileTry_kids h
  · exact compileTry_kids h
  · exact compileFunctionDef_kids h
  · exact compileFunctionDef_kids h
  · exact compileLambda_kids h
  · exact compileClassDef_kids h
  · exact compileReturn_kids h
  · exact compileComp_kids h
  · exact compileComp_kids h
  · exact compileComp_kids h
  · exact compileComp_kids h
  · exact compileWith_kids h
  · exact compileWith_kids h
  · exact compileGlobal_kids h
  · exact compileNonlocal_kids h
  · exact compileName_kids h
  · exact compileNamedExpr_kids h
  · simp only [pure_ok_iff] at h; subst h
    rw [progKids_generic]; exact children_sub

end SuppModel.Extract
